package main

// Structural dump of hclsyntax ASTs (no ranges) in the S-expression wire format
// shared with the Coq model's printer.

import (
	"fmt"
	"math/big"
	"sort"
	"strings"

	"github.com/hashicorp/hcl/v2"
	"github.com/hashicorp/hcl/v2/hclsyntax"
	"github.com/zclconf/go-cty/cty"
)

func opName(op *hclsyntax.Operation) string {
	switch op {
	case hclsyntax.OpLogicalOr:
		return "or"
	case hclsyntax.OpLogicalAnd:
		return "and"
	case hclsyntax.OpLogicalNot:
		return "not"
	case hclsyntax.OpEqual:
		return "eq"
	case hclsyntax.OpNotEqual:
		return "ne"
	case hclsyntax.OpGreaterThan:
		return "gt"
	case hclsyntax.OpGreaterThanOrEqual:
		return "ge"
	case hclsyntax.OpLessThan:
		return "lt"
	case hclsyntax.OpLessThanOrEqual:
		return "le"
	case hclsyntax.OpAdd:
		return "add"
	case hclsyntax.OpSubtract:
		return "sub"
	case hclsyntax.OpMultiply:
		return "mul"
	case hclsyntax.OpDivide:
		return "div"
	case hclsyntax.OpModulo:
		return "mod"
	case hclsyntax.OpNegate:
		return "neg"
	}
	return "?op"
}

func ratString(f *big.Float) string {
	if f.IsInf() {
		if f.Sign() > 0 {
			return "+inf"
		}
		return "-inf"
	}
	r, _ := f.Rat(nil)
	if r == nil {
		return "?"
	}
	if r.IsInt() {
		return r.Num().String()
	}
	return r.Num().String() + "/" + r.Denom().String()
}

func hexAtom(s string) string { return fmt.Sprintf("#%x", s) }

// dumpVal prints a cty value canonically: type-tagged, sets/maps sorted, marks as
// sorted label lists, unknowns with their refinements.
func dumpVal(v cty.Value) string {
	if v == cty.NilVal {
		return "(nilval)"
	}
	if v.IsMarked() {
		u, m := v.Unmark()
		var ls []string
		for k := range m {
			ls = append(ls, fmt.Sprintf("%v", k))
		}
		sort.Strings(ls)
		return "(mark (" + strings.Join(ls, " ") + ") " + dumpVal(u) + ")"
	}
	ty := v.Type()
	if !v.IsKnown() {
		return "(unk " + dumpType(ty) + dumpRefinements(v) + ")"
	}
	if v.IsNull() {
		return "(null " + dumpType(ty) + ")"
	}
	switch {
	case ty == cty.String:
		return "(s " + hexAtom(v.AsString()) + ")"
	case ty == cty.Number:
		return "(n " + ratString(v.AsBigFloat()) + ")"
	case ty == cty.Bool:
		if v.True() {
			return "(b t)"
		}
		return "(b f)"
	case ty.IsListType() || ty.IsSetType() || ty.IsTupleType():
		kind := "list"
		if ty.IsSetType() {
			kind = "set"
		} else if ty.IsTupleType() {
			kind = "tuple"
		}
		var parts []string
		for it := v.ElementIterator(); it.Next(); {
			_, ev := it.Element()
			parts = append(parts, dumpVal(ev))
		}
		if ty.IsSetType() {
			sort.Strings(parts)
		}
		hdr := kind
		if !ty.IsTupleType() {
			hdr += " " + dumpType(ty.ElementType())
		}
		if len(parts) == 0 {
			return "(" + hdr + ")"
		}
		return "(" + hdr + " " + strings.Join(parts, " ") + ")"
	case ty.IsMapType() || ty.IsObjectType():
		kind := "map " + dumpType(ty)
		if ty.IsObjectType() {
			kind = "obj"
		} else {
			kind = "map " + dumpType(ty.ElementType())
		}
		var parts []string
		for it := v.ElementIterator(); it.Next(); {
			kv, ev := it.Element()
			ks, _ := kv.Unmark()
			parts = append(parts, "("+hexAtom(ks.AsString())+" "+dumpVal(ev)+")")
		}
		sort.Strings(parts)
		if len(parts) == 0 {
			return "(" + kind + ")"
		}
		return "(" + kind + " " + strings.Join(parts, " ") + ")"
	case ty.IsCapsuleType():
		return "(capsule " + ty.FriendlyName() + ")"
	}
	return "(?val " + ty.FriendlyName() + ")"
}

func dumpRefinements(v cty.Value) string {
	if v.Type() == cty.DynamicPseudoType {
		return ""
	}
	rng := v.Range()
	var parts []string
	if rng.DefinitelyNotNull() {
		parts = append(parts, "notnull")
	}
	ty := v.Type()
	switch {
	case ty == cty.String:
		if p := rng.StringPrefix(); p != "" {
			parts = append(parts, "(prefix "+hexAtom(p)+")")
		}
	case ty == cty.Number:
		lo, loInc := rng.NumberLowerBound()
		hi, hiInc := rng.NumberUpperBound()
		if lo.IsKnown() && !lo.RawEquals(cty.NegativeInfinity) {
			parts = append(parts, fmt.Sprintf("(lo %s %v)", ratString(lo.AsBigFloat()), loInc))
		}
		if hi.IsKnown() && !hi.RawEquals(cty.PositiveInfinity) {
			parts = append(parts, fmt.Sprintf("(hi %s %v)", ratString(hi.AsBigFloat()), hiInc))
		}
	case ty.IsCollectionType():
		lo := rng.LengthLowerBound()
		hi := rng.LengthUpperBound()
		if lo != 0 {
			parts = append(parts, fmt.Sprintf("(lenlo %d)", lo))
		}
		if hi != int(^uint(0)>>1) {
			parts = append(parts, fmt.Sprintf("(lenhi %d)", hi))
		}
	}
	if len(parts) == 0 {
		return ""
	}
	return " " + strings.Join(parts, " ")
}

func dumpType(ty cty.Type) string {
	switch {
	case ty == cty.String:
		return "str"
	case ty == cty.Number:
		return "num"
	case ty == cty.Bool:
		return "bool"
	case ty == cty.DynamicPseudoType:
		return "dyn"
	case ty.IsListType():
		return "(list " + dumpType(ty.ElementType()) + ")"
	case ty.IsSetType():
		return "(set " + dumpType(ty.ElementType()) + ")"
	case ty.IsMapType():
		return "(map " + dumpType(ty.ElementType()) + ")"
	case ty.IsTupleType():
		parts := []string{"tuple"}
		for _, e := range ty.TupleElementTypes() {
			parts = append(parts, dumpType(e))
		}
		return "(" + strings.Join(parts, " ") + ")"
	case ty.IsObjectType():
		at := ty.AttributeTypes()
		keys := make([]string, 0, len(at))
		for k := range at {
			keys = append(keys, k)
		}
		sort.Strings(keys)
		parts := []string{"obj"}
		for _, k := range keys {
			opt := ""
			if ty.AttributeOptional(k) {
				opt = "?"
			}
			parts = append(parts, "("+hexAtom(k)+opt+" "+dumpType(at[k])+")")
		}
		return "(" + strings.Join(parts, " ") + ")"
	case ty.IsCapsuleType():
		return "(capsule " + ty.FriendlyName() + ")"
	}
	return "?ty"
}

func dumpTraversal(t hcl.Traversal) string {
	var parts []string
	for _, s := range t {
		switch st := s.(type) {
		case hcl.TraverseRoot:
			parts = append(parts, "(root "+hexAtom(st.Name)+")")
		case hcl.TraverseAttr:
			parts = append(parts, "(attr "+hexAtom(st.Name)+")")
		case hcl.TraverseIndex:
			parts = append(parts, "(index "+dumpVal(st.Key)+")")
		case hcl.TraverseSplat:
			parts = append(parts, "(splat)")
		default:
			parts = append(parts, "(?step)")
		}
	}
	return strings.Join(parts, " ")
}

func dumpExpr(sb *strings.Builder, e hclsyntax.Expression) {
	switch x := e.(type) {
	case nil:
		sb.WriteString("(nil)")
	case *hclsyntax.LiteralValueExpr:
		sb.WriteString("(lit " + dumpVal(x.Val) + ")")
	case *hclsyntax.ScopeTraversalExpr:
		sb.WriteString("(trav " + dumpTraversal(x.Traversal) + ")")
	case *hclsyntax.RelativeTraversalExpr:
		sb.WriteString("(reltrav ")
		dumpExpr(sb, x.Source)
		sb.WriteString(" " + dumpTraversal(x.Traversal) + ")")
	case *hclsyntax.FunctionCallExpr:
		sb.WriteString("(call " + hexAtom(x.Name))
		if x.ExpandFinal {
			sb.WriteString(" expand")
		}
		for _, a := range x.Args {
			sb.WriteString(" ")
			dumpExpr(sb, a)
		}
		sb.WriteString(")")
	case *hclsyntax.ConditionalExpr:
		sb.WriteString("(cond ")
		dumpExpr(sb, x.Condition)
		sb.WriteString(" ")
		dumpExpr(sb, x.TrueResult)
		sb.WriteString(" ")
		dumpExpr(sb, x.FalseResult)
		sb.WriteString(")")
	case *hclsyntax.IndexExpr:
		sb.WriteString("(idx ")
		dumpExpr(sb, x.Collection)
		sb.WriteString(" ")
		dumpExpr(sb, x.Key)
		sb.WriteString(")")
	case *hclsyntax.TupleConsExpr:
		sb.WriteString("(tuple")
		for _, a := range x.Exprs {
			sb.WriteString(" ")
			dumpExpr(sb, a)
		}
		sb.WriteString(")")
	case *hclsyntax.ObjectConsExpr:
		sb.WriteString("(objcons")
		for _, it := range x.Items {
			sb.WriteString(" (")
			dumpExpr(sb, it.KeyExpr)
			sb.WriteString(" ")
			dumpExpr(sb, it.ValueExpr)
			sb.WriteString(")")
		}
		sb.WriteString(")")
	case *hclsyntax.ObjectConsKeyExpr:
		sb.WriteString("(key ")
		if x.ForceNonLiteral {
			sb.WriteString("force ")
		}
		dumpExpr(sb, x.Wrapped)
		sb.WriteString(")")
	case *hclsyntax.ForExpr:
		sb.WriteString("(for " + hexAtom(x.KeyVar) + " " + hexAtom(x.ValVar) + " ")
		dumpExpr(sb, x.CollExpr)
		sb.WriteString(" ")
		dumpExpr(sb, x.KeyExpr)
		sb.WriteString(" ")
		dumpExpr(sb, x.ValExpr)
		sb.WriteString(" ")
		dumpExpr(sb, x.CondExpr)
		if x.Group {
			sb.WriteString(" group")
		}
		sb.WriteString(")")
	case *hclsyntax.SplatExpr:
		sb.WriteString("(splat ")
		dumpExpr(sb, x.Source)
		sb.WriteString(" ")
		dumpExpr(sb, x.Each)
		sb.WriteString(")")
	case *hclsyntax.AnonSymbolExpr:
		sb.WriteString("(anon)")
	case *hclsyntax.BinaryOpExpr:
		sb.WriteString("(binop " + opName(x.Op) + " ")
		dumpExpr(sb, x.LHS)
		sb.WriteString(" ")
		dumpExpr(sb, x.RHS)
		sb.WriteString(")")
	case *hclsyntax.UnaryOpExpr:
		sb.WriteString("(unop " + opName(x.Op) + " ")
		dumpExpr(sb, x.Val)
		sb.WriteString(")")
	case *hclsyntax.TemplateExpr:
		sb.WriteString("(tmpl")
		for _, p := range x.Parts {
			sb.WriteString(" ")
			dumpExpr(sb, p)
		}
		sb.WriteString(")")
	case *hclsyntax.TemplateJoinExpr:
		sb.WriteString("(join ")
		dumpExpr(sb, x.Tuple)
		sb.WriteString(")")
	case *hclsyntax.TemplateWrapExpr:
		sb.WriteString("(wrap ")
		dumpExpr(sb, x.Wrapped)
		sb.WriteString(")")
	case *hclsyntax.ParenthesesExpr:
		sb.WriteString("(paren ")
		dumpExpr(sb, x.Expression)
		sb.WriteString(")")
	case *hclsyntax.ExprSyntaxError:
		sb.WriteString("(syntaxerror)")
	default:
		fmt.Fprintf(sb, "(?expr %T)", e)
	}
}

func dumpExprS(e hclsyntax.Expression) string {
	var sb strings.Builder
	dumpExpr(&sb, e)
	return sb.String()
}

func dumpBody(sb *strings.Builder, b *hclsyntax.Body) {
	sb.WriteString("(body")
	// attributes in source order
	names := make([]string, 0, len(b.Attributes))
	for n := range b.Attributes {
		names = append(names, n)
	}
	sort.Slice(names, func(i, j int) bool {
		return b.Attributes[names[i]].SrcRange.Start.Byte < b.Attributes[names[j]].SrcRange.Start.Byte
	})
	for _, n := range names {
		sb.WriteString(" (attr " + hexAtom(n) + " ")
		dumpExpr(sb, b.Attributes[n].Expr)
		sb.WriteString(")")
	}
	for _, bl := range b.Blocks {
		sb.WriteString(" (block " + hexAtom(bl.Type) + " (")
		for i, l := range bl.Labels {
			if i > 0 {
				sb.WriteString(" ")
			}
			sb.WriteString(hexAtom(l))
		}
		sb.WriteString(") ")
		dumpBody(sb, bl.Body)
		sb.WriteString(")")
	}
	sb.WriteString(")")
}
