package hv

// Printers of cty values/types and hclsyntax expressions as Coq terms of the
// model types in coq/theories/Cty/Values.v and Eval/Impl.v.

import (
	"fmt"
	"math/big"
	"sort"
	"strings"

	"github.com/hashicorp/hcl/v2"
	"github.com/hashicorp/hcl/v2/hclsyntax"
	"github.com/zclconf/go-cty/cty"
)

// CoqStr renders a byte string as a Coq term of type list Z (via unhex).
func CoqStr(s string) string { return "(unhex " + Hexs([]byte(s)) + ")" }

// MarkID maps mark values (strings "m1".."m9" in the harness) to Z labels.
func MarkID(m interface{}) int {
	s := fmt.Sprintf("%v", m)
	n := 0
	for _, c := range s {
		if c >= '0' && c <= '9' {
			n = n*10 + int(c-'0')
		}
	}
	if n == 0 {
		// any other mark: stable small hash
		for _, c := range s {
			n = (n*31 + int(c)) % 9973
		}
		n += 100
	}
	return n
}

func CoqMarks(m cty.ValueMarks) string {
	var ids []int
	for k := range m {
		ids = append(ids, MarkID(k))
	}
	sort.Ints(ids)
	return CoqZList(ids)
}

func CoqType(ty cty.Type) string {
	switch {
	case ty == cty.String:
		return "TStr"
	case ty == cty.Number:
		return "TNum"
	case ty == cty.Bool:
		return "TBool"
	case ty == cty.DynamicPseudoType:
		return "TDyn"
	case ty.IsListType():
		return "(TList " + CoqType(ty.ElementType()) + ")"
	case ty.IsSetType():
		return "(TSet " + CoqType(ty.ElementType()) + ")"
	case ty.IsMapType():
		return "(TMap " + CoqType(ty.ElementType()) + ")"
	case ty.IsTupleType():
		var parts []string
		for _, e := range ty.TupleElementTypes() {
			parts = append(parts, CoqType(e))
		}
		return "(TTuple " + CoqList(parts) + ")"
	case ty.IsObjectType():
		at := ty.AttributeTypes()
		keys := make([]string, 0, len(at))
		for k := range at {
			keys = append(keys, k)
		}
		sort.Strings(keys)
		var parts []string
		for _, k := range keys {
			parts = append(parts, "("+CoqStr(k)+", "+CoqType(at[k])+")")
		}
		return "(TObj " + CoqList(parts) + ")"
	}
	return "TDyn (* unsupported type *)"
}

// NumExact reports whether the big.Float is small enough that the model's exact
// rational arithmetic and go-cty's 512-bit floats cannot diverge on it.
func NumExact(f *big.Float) bool {
	if f.IsInf() {
		return true
	}
	if numHuge(f) {
		return false
	}
	return f.MinPrec() <= 200
}

// numHuge: a binary exponent so large that printing the exact rational would take 10^5..10^8 digits
// (e.g. 1e99999999 read from a mutated text). Such numbers are treated as inexact (type-only
// comparison) and printed as a placeholder.
func numHuge(f *big.Float) bool {
	if f.Sign() == 0 || f.IsInf() {
		return false
	}
	e := f.MantExp(nil)
	return e > 4096 || e < -4096
}

func CoqNum(f *big.Float) string {
	if f.IsInf() {
		if f.Sign() > 0 {
			return "(NInf true)"
		}
		return "(NInf false)"
	}
	if numHuge(f) {
		return "(nq (0 # 1))" // placeholder: NumExact is false for these, the case is compared by type only
	}
	r, _ := f.Rat(nil)
	n := r.Num().String()
	if r.Num().Sign() < 0 {
		n = "(" + n + ")"
	}
	return fmt.Sprintf("(nq (%s # %s))", n, r.Denom().String())
}

// ValInfo accumulates facts about printed values that decide the comparison mode.
type ValInfo struct {
	Inexact     bool // a number that is not exactly representable in the model's domain
	Unsupported bool // a value outside the model's value universe (capsule, optional attrs...)
}

func CoqRefinement(v cty.Value) string {
	if v.Type() == cty.DynamicPseudoType {
		return "rf_none"
	}
	rng := v.Range()
	nn := rng.DefinitelyNotNull()
	prefix := `[]`
	lo, hi := "None", "None"
	lenlo, lenhi := "0", "None"
	ty := v.Type()
	switch {
	case ty == cty.String:
		if p := rng.StringPrefix(); p != "" {
			prefix = CoqStr(p)
		}
	case ty == cty.Number:
		l, li := rng.NumberLowerBound()
		h, hi2 := rng.NumberUpperBound()
		if l.IsKnown() && !l.RawEquals(cty.NegativeInfinity) {
			lo = fmt.Sprintf("(Some (%s, %s))", CoqNum(l.AsBigFloat()), CoqBool(li))
		}
		if h.IsKnown() && !h.RawEquals(cty.PositiveInfinity) {
			hi = fmt.Sprintf("(Some (%s, %s))", CoqNum(h.AsBigFloat()), CoqBool(hi2))
		}
	case ty.IsCollectionType():
		lenlo = fmt.Sprintf("%d", rng.LengthLowerBound())
		if h := rng.LengthUpperBound(); h != int(^uint(0)>>1) {
			lenhi = fmt.Sprintf("(Some %d)", h)
		}
	}
	return fmt.Sprintf("(RExact (mkRefn %s %s %s %s %s %s))", CoqBool(nn), prefix, lo, hi, lenlo, lenhi)
}

// CoqVal renders a cty value as a Coq term of type val.
func CoqVal(v cty.Value, info *ValInfo) string {
	if v == cty.NilVal {
		info.Unsupported = true
		return "dyn_val"
	}
	if v.IsMarked() {
		u, m := v.Unmark()
		return "(VMark " + CoqMarks(m) + " " + CoqVal(u, info) + ")"
	}
	ty := v.Type()
	if !v.IsKnown() {
		return "(VUnk " + CoqType(ty) + " " + CoqRefinement(v) + ")"
	}
	if v.IsNull() {
		return "(VNull " + CoqType(ty) + ")"
	}
	switch {
	case ty == cty.String:
		return "(VStr " + CoqStr(v.AsString()) + ")"
	case ty == cty.Number:
		f := v.AsBigFloat()
		if !NumExact(f) {
			info.Inexact = true
		}
		return "(VNum " + CoqNum(f) + ")"
	case ty == cty.Bool:
		return "(VBool " + CoqBool(v.True()) + ")"
	case ty.IsListType() || ty.IsSetType() || ty.IsTupleType():
		var parts []string
		for it := v.ElementIterator(); it.Next(); {
			_, ev := it.Element()
			parts = append(parts, CoqVal(ev, info))
		}
		switch {
		case ty.IsListType():
			return "(VList " + CoqType(ty.ElementType()) + " " + CoqList(parts) + ")"
		case ty.IsSetType():
			return "(VSet " + CoqType(ty.ElementType()) + " " + CoqList(parts) + ")"
		default:
			return "(VTuple " + CoqList(parts) + ")"
		}
	case ty.IsMapType() || ty.IsObjectType():
		type kv struct{ k, v string }
		var kvs []kv
		for it := v.ElementIterator(); it.Next(); {
			k, ev := it.Element()
			ku, _ := k.Unmark()
			kvs = append(kvs, kv{ku.AsString(), CoqVal(ev, info)})
		}
		sort.Slice(kvs, func(i, j int) bool { return kvs[i].k < kvs[j].k })
		var parts []string
		for _, e := range kvs {
			parts = append(parts, "("+CoqStr(e.k)+", "+e.v+")")
		}
		if ty.IsMapType() {
			return "(VMap " + CoqType(ty.ElementType()) + " " + CoqList(parts) + ")"
		}
		if len(ty.OptionalAttributes()) > 0 {
			info.Unsupported = true
		}
		return "(VObj " + CoqList(parts) + ")"
	}
	info.Unsupported = true
	return "dyn_val"
}

// ---- expressions ------------------------------------------------------------------

var opCoq = map[*hclsyntax.Operation]string{}

func init() {
	opCoq[hclsyntax.OpLogicalOr] = "OpOr"
	opCoq[hclsyntax.OpLogicalAnd] = "OpAnd"
	opCoq[hclsyntax.OpLogicalNot] = "OpNot"
	opCoq[hclsyntax.OpEqual] = "OpEq"
	opCoq[hclsyntax.OpNotEqual] = "OpNe"
	opCoq[hclsyntax.OpGreaterThan] = "OpGt"
	opCoq[hclsyntax.OpGreaterThanOrEqual] = "OpGe"
	opCoq[hclsyntax.OpLessThan] = "OpLt"
	opCoq[hclsyntax.OpLessThanOrEqual] = "OpLe"
	opCoq[hclsyntax.OpAdd] = "OpAdd"
	opCoq[hclsyntax.OpSubtract] = "OpSub"
	opCoq[hclsyntax.OpMultiply] = "OpMul"
	opCoq[hclsyntax.OpDivide] = "OpDiv"
	opCoq[hclsyntax.OpModulo] = "OpMod"
	opCoq[hclsyntax.OpNegate] = "OpNeg"
}

func coqSteps(t hcl.Traversal, info *ValInfo) string {
	var parts []string
	for _, s := range t {
		switch st := s.(type) {
		case hcl.TraverseAttr:
			parts = append(parts, "SAttr "+CoqStr(st.Name))
		case hcl.TraverseIndex:
			parts = append(parts, "SIndex "+CoqVal(st.Key, info))
		case hcl.TraverseRoot:
			// handled by caller
		default:
			info.Unsupported = true
		}
	}
	return CoqList(parts)
}

// CoqExpr renders an hclsyntax expression as a Coq term of type expr.
func CoqExpr(e hclsyntax.Expression, info *ValInfo) string {
	switch x := e.(type) {
	case nil:
		info.Unsupported = true
		return "EAnon"
	case *hclsyntax.LiteralValueExpr:
		return "(ELit " + CoqVal(x.Val, info) + ")"
	case *hclsyntax.ScopeTraversalExpr:
		return "(EScopeTrav " + CoqStr(x.Traversal.RootName()) + " " + coqSteps(x.Traversal[1:], info) + ")"
	case *hclsyntax.RelativeTraversalExpr:
		return "(ERelTrav " + CoqExpr(x.Source, info) + " " + coqSteps(x.Traversal, info) + ")"
	case *hclsyntax.FunctionCallExpr:
		var args []string
		for _, a := range x.Args {
			args = append(args, CoqExpr(a, info))
		}
		return "(ECall " + CoqStr(x.Name) + " " + CoqList(args) + " " + CoqBool(x.ExpandFinal) + ")"
	case *hclsyntax.ConditionalExpr:
		return "(ECond " + CoqExpr(x.Condition, info) + " " + CoqExpr(x.TrueResult, info) + " " + CoqExpr(x.FalseResult, info) + ")"
	case *hclsyntax.IndexExpr:
		return "(EIndex " + CoqExpr(x.Collection, info) + " " + CoqExpr(x.Key, info) + ")"
	case *hclsyntax.TupleConsExpr:
		var es []string
		for _, a := range x.Exprs {
			es = append(es, CoqExpr(a, info))
		}
		return "(ETuple " + CoqList(es) + ")"
	case *hclsyntax.ObjectConsExpr:
		var items []string
		for _, it := range x.Items {
			items = append(items, "("+CoqExpr(it.KeyExpr, info)+", "+CoqExpr(it.ValueExpr, info)+")")
		}
		return "(EObj " + CoqList(items) + ")"
	case *hclsyntax.ObjectConsKeyExpr:
		return "(EObjKey " + CoqExpr(x.Wrapped, info) + " " + CoqBool(x.ForceNonLiteral) + ")"
	case *hclsyntax.ForExpr:
		opt := func(e hclsyntax.Expression) string {
			if e == nil {
				return "None"
			}
			return "(Some " + CoqExpr(e, info) + ")"
		}
		return "(EFor " + CoqStr(x.KeyVar) + " " + CoqStr(x.ValVar) + " " + CoqExpr(x.CollExpr, info) + " " + opt(x.KeyExpr) + " " + CoqExpr(x.ValExpr, info) + " " + opt(x.CondExpr) + " " + CoqBool(x.Group) + ")"
	case *hclsyntax.SplatExpr:
		return "(ESplat " + CoqExpr(x.Source, info) + " " + CoqExpr(x.Each, info) + ")"
	case *hclsyntax.AnonSymbolExpr:
		return "EAnon"
	case *hclsyntax.BinaryOpExpr:
		return "(EBin " + opCoq[x.Op] + " " + CoqExpr(x.LHS, info) + " " + CoqExpr(x.RHS, info) + ")"
	case *hclsyntax.UnaryOpExpr:
		return "(EUn " + opCoq[x.Op] + " " + CoqExpr(x.Val, info) + ")"
	case *hclsyntax.TemplateExpr:
		var ps []string
		for _, p := range x.Parts {
			ps = append(ps, CoqExpr(p, info))
		}
		return "(ETmpl " + CoqList(ps) + ")"
	case *hclsyntax.TemplateJoinExpr:
		return "(EJoin " + CoqExpr(x.Tuple, info) + ")"
	case *hclsyntax.TemplateWrapExpr:
		return "(EWrap " + CoqExpr(x.Wrapped, info) + ")"
	case *hclsyntax.ParenthesesExpr:
		return "(EParen " + CoqExpr(x.Expression, info) + ")"
	}
	info.Unsupported = true
	return "EAnon"
}

// SummaryID maps diagnostic summaries to the ids of Eval/Impl.v.
var summaryIDs = map[string]int{
	"Attempt to index null value":              1,
	"Invalid index":                            2,
	"Attempt to get attribute from null value": 3,
	"Unsupported attribute":                    4,
	"Missing map element":                      5,
	"Variables not allowed":                    6,
	"Unknown variable":                         7,
	"Function calls not allowed":               8,
	"Call to unknown function":                 9,
	"Invalid expanding argument value":         10,
	"Not enough function arguments":            11,
	"Too many function arguments":              12,
	"Invalid function argument":                13,
	"Error in function call":                   14,
	"Inconsistent conditional result types":    15,
	"Null condition":                           16,
	"Incorrect condition type":                 17,
	"Null value as key":                        18,
	"Incorrect key type":                       19,
	"Ambiguous attribute key":                  20,
	"Iteration over null value":                21,
	"Iteration over non-iterable value":        22,
	"Condition is null":                        23,
	"Invalid 'for' condition":                  24,
	"Invalid object key":                       25,
	"Duplicate object key":                     26,
	"Splat of null value":                      27,
	"Invalid nested splat expressions":         28,
	"Invalid operand":                          29,
	"Operation failed":                         30,
	"Invalid template interpolation value":     31,
}

func SummaryID(s string) int {
	if id, ok := summaryIDs[s]; ok {
		return id
	}
	return 999
}

func CoqDiagSummaries(diags hcl.Diagnostics) string {
	var ids []int
	for _, d := range diags {
		if d.Severity == hcl.DiagError {
			ids = append(ids, SummaryID(d.Summary))
		} else {
			ids = append(ids, -SummaryID(d.Summary))
		}
	}
	return CoqZList(ids)
}

var _ = strings.Join

// NumRisk classifies how far the numbers that evaluating e may produce are from
// the model's exact-rational domain: 0 = none, 1 = inexact (compare types and
// diagnostics only), 2 = infinities / signed zeros involved (skip).
func NumRisk(e hclsyntax.Expression, ctx *hcl.EvalContext) int {
	risk := 0
	up := func(r int) {
		if r > risk {
			risk = r
		}
	}
	check := func(v cty.Value) {
		if v == cty.NilVal {
			return
		}
		cty.Walk(v, func(p cty.Path, x cty.Value) (bool, error) {
			x, _ = x.Unmark()
			if x.IsKnown() && !x.IsNull() && x.Type() == cty.Number {
				f := x.AsBigFloat()
				if f.IsInf() || (f.Sign() == 0 && f.Signbit()) {
					up(2)
				} else if !NumExact(f) || (f.Prec() < 512 && f.Prec() > 0 && !f.IsInt()) {
					up(1)
				}
			}
			if x.IsKnown() && !x.IsNull() && x.Type() == cty.String {
				if n, err := cty.ParseNumberVal(x.AsString()); err == nil {
					f := n.AsBigFloat()
					if f.IsInf() {
						up(2)
					} else if !NumExact(f) {
						up(1)
					}
				}
			}
			return true, nil
		})
	}
	hclsyntax.VisitAll(e, func(n hclsyntax.Node) hcl.Diagnostics {
		switch x := n.(type) {
		case *hclsyntax.BinaryOpExpr:
			if x.Op == hclsyntax.OpDivide || x.Op == hclsyntax.OpModulo {
				func() {
					defer func() {
						if recover() != nil {
							up(2)
						}
					}()
					lv, ld := x.LHS.Value(ctx)
					rv, rd := x.RHS.Value(ctx)
					if ld.HasErrors() || rd.HasErrors() || !lv.IsWhollyKnown() || !rv.IsWhollyKnown() {
						// iterator variables, unknowns...: cannot decide here
						up(1)
						check(lv)
						check(rv)
						return
					}
					check(lv)
					check(rv)
					v, d := x.Value(ctx)
					if d.HasErrors() || !v.IsKnown() || v.IsNull() {
						return
					}
					v, _ = v.Unmark()
					lu, _ := lv.Unmark()
					ru, _ := rv.Unmark()
					check(v)
					if v.Type() == cty.Number && lu.Type() == cty.Number && ru.Type() == cty.Number && !lu.IsNull() && !ru.IsNull() {
						vf, lf, rf := v.AsBigFloat(), lu.AsBigFloat(), ru.AsBigFloat()
						if vf.IsInf() || lf.IsInf() || rf.IsInf() || rf.Sign() == 0 {
							up(2)
							return
						}
						if x.Op == hclsyntax.OpDivide {
							vr, _ := vf.Rat(nil)
							lr, _ := lf.Rat(nil)
							rr, _ := rf.Rat(nil)
							if new(big.Rat).Mul(vr, rr).Cmp(lr) != 0 {
								up(1)
							}
						}
					}
				}()
			}
		case *hclsyntax.LiteralValueExpr:
			check(x.Val)
		}
		// signed zeros: any arithmetic node that can be evaluated here
		switch x := n.(type) {
		case *hclsyntax.BinaryOpExpr, *hclsyntax.UnaryOpExpr:
			func() {
				defer func() { recover() }()
				v, _ := x.(hclsyntax.Expression).Value(ctx)
				check(v)
			}()
		}
		return nil
	})
	for c := ctx; c != nil; c = c.Parent() {
		for _, v := range c.Variables {
			check(v)
		}
	}
	return risk
}

// CoqTraversals renders a list of absolute traversals as list (list Z * list step).
func CoqTraversals(ts []hcl.Traversal, info *ValInfo) string {
	var parts []string
	for _, t := range ts {
		if t.IsRelative() {
			info.Unsupported = true
			continue
		}
		parts = append(parts, "("+CoqStr(t.RootName())+", "+coqSteps(t[1:], info)+")")
	}
	return CoqList(parts)
}
