package hv

// Typed generator for the evaluation properties (C01, C05, C06, C07, C19, C20):
// scopes of cty values drawn from every kind, and expression texts that are
// mostly well-typed for that scope, with deliberate ill-typed positions.

import (
	"fmt"
	"sort"
	"strings"

	"github.com/hashicorp/hcl/v2"
	"github.com/zclconf/go-cty/cty"
	"github.com/zclconf/go-cty/cty/function"
)

// ---- function table (twin of coq/theories/Eval/Funcs.v) ---------------------------

var HarnessFuncs = map[string]function.Function{
	"upper": function.New(&function.Spec{
		Params: []function.Parameter{{Name: "s", Type: cty.String}},
		Type:   function.StaticReturnType(cty.String),
		Impl: func(args []cty.Value, rt cty.Type) (cty.Value, error) {
			b := []byte(args[0].AsString())
			for i, c := range b {
				if c >= 'a' && c <= 'z' {
					b[i] = c - 32
				}
			}
			return cty.StringVal(string(b)), nil
		},
	}),
	"sum": function.New(&function.Spec{
		Params:   []function.Parameter{},
		VarParam: &function.Parameter{Name: "nums", Type: cty.Number},
		Type:     function.StaticReturnType(cty.Number),
		Impl: func(args []cty.Value, rt cty.Type) (cty.Value, error) {
			acc := cty.Zero
			for _, a := range args {
				acc = acc.Add(a)
			}
			return acc, nil
		},
	}),
	"first": function.New(&function.Spec{
		Params:   []function.Parameter{{Name: "v", Type: cty.DynamicPseudoType, AllowNull: true, AllowUnknown: true, AllowDynamicType: true, AllowMarked: true}},
		VarParam: &function.Parameter{Name: "rest", Type: cty.DynamicPseudoType, AllowNull: true, AllowUnknown: true, AllowDynamicType: true, AllowMarked: true},
		Type: func(args []cty.Value) (cty.Type, error) {
			return args[0].Type(), nil
		},
		Impl: func(args []cty.Value, rt cty.Type) (cty.Value, error) { return args[0], nil },
	}),
	"fail": function.New(&function.Spec{
		Params: []function.Parameter{{Name: "s", Type: cty.String}},
		Type:   function.StaticReturnType(cty.String),
		Impl: func(args []cty.Value, rt cty.Type) (cty.Value, error) {
			return cty.NilVal, fmt.Errorf("always fails")
		},
	}),
	"isnull": function.New(&function.Spec{
		Params: []function.Parameter{{Name: "v", Type: cty.DynamicPseudoType, AllowNull: true, AllowDynamicType: true}},
		Type:   function.StaticReturnType(cty.Bool),
		Impl: func(args []cty.Value, rt cty.Type) (cty.Value, error) {
			return cty.BoolVal(args[0].IsNull()), nil
		},
	}),
	"pair": function.New(&function.Spec{
		Params: []function.Parameter{{Name: "a", Type: cty.String}, {Name: "b", Type: cty.Number, AllowNull: true}},
		Type: func(args []cty.Value) (cty.Type, error) {
			return cty.Tuple([]cty.Type{cty.String, cty.Number}), nil
		},
		Impl: func(args []cty.Value, rt cty.Type) (cty.Value, error) {
			return cty.TupleVal([]cty.Value{args[0], args[1]}), nil
		},
	}),
}

// CoqFuncNames lists the function names present in a frame as a Coq term using
// the twins defined in Eval/Funcs.v.
func CoqFuncs(fs map[string]function.Function) string {
	if fs == nil {
		return "None"
	}
	names := make([]string, 0, len(fs))
	for n := range fs {
		names = append(names, n)
	}
	sort.Strings(names)
	var parts []string
	for _, n := range names {
		parts = append(parts, "("+CoqStr(n)+", fn_"+n+")")
	}
	return "(Some " + CoqList(parts) + ")"
}

// ---- scopes ---------------------------------------------------------------------------

type EvalGen struct {
	R        *Rng
	Unknowns float64 // probability that a generated leaf value is unknown
	Marks    float64 // probability that a generated value is marked
	Nulls    float64
	Vars     map[string]cty.Value // flattened view of all frames (innermost wins)
	Feat     map[string]int
	depth    int
}

func (g *EvalGen) f(s string) { g.Feat[s]++ }

var strPool = []string{"", "a", "b", "hello", "x y", "1", "2.5", "true", "false", "k", "ünï", "0", "-3", "abc", "1e2", "A b"}

func (g *EvalGen) GenType(depth int) cty.Type {
	n := 9
	if depth <= 0 {
		n = 3
	}
	switch g.R.Intn(n) {
	case 0:
		return cty.String
	case 1:
		return cty.Number
	case 2:
		return cty.Bool
	case 3:
		return cty.List(g.GenType(depth - 1))
	case 4:
		return cty.Map(g.GenType(depth - 1))
	case 5:
		return cty.Set([]cty.Type{cty.String, cty.Number, cty.Bool}[g.R.Intn(3)])
	case 6:
		k := g.R.Small(3)
		ts := make([]cty.Type, k)
		for i := range ts {
			ts[i] = g.GenType(depth - 1)
		}
		return cty.Tuple(ts)
	default:
		k := g.R.Small(3)
		at := map[string]cty.Type{}
		for i := 0; i < k; i++ {
			at[[]string{"a", "b", "k", "name", "x"}[g.R.Intn(5)]] = g.GenType(depth - 1)
		}
		return cty.Object(at)
	}
}

func (g *EvalGen) mark(v cty.Value) cty.Value {
	if g.R.Chance(g.Marks) {
		g.f("val:marked")
		v = v.Mark(fmt.Sprintf("m%d", 1+g.R.Intn(3)))
	}
	return v
}

func (g *EvalGen) unknownOf(ty cty.Type) cty.Value {
	g.f("val:unknown")
	v := cty.UnknownVal(ty)
	if ty == cty.DynamicPseudoType {
		return v
	}
	switch g.R.Intn(4) {
	case 0:
		g.f("val:unknown-refined")
		v = v.RefineNotNull()
	case 1:
		g.f("val:unknown-refined")
		switch {
		case ty == cty.String:
			v = v.Refine().NotNull().StringPrefix(g.R.Pick("a", "he", "x ")).NewValue()
		case ty == cty.Number:
			lo := int64(g.R.Intn(5))
			v = v.Refine().NotNull().NumberRangeInclusive(cty.NumberIntVal(lo), cty.NumberIntVal(lo+int64(g.R.Intn(5)))).NewValue()
		case ty.IsCollectionType():
			lo := g.R.Intn(3)
			v = v.Refine().NotNull().CollectionLengthLowerBound(lo).CollectionLengthUpperBound(lo + g.R.Intn(3)).NewValue()
		}
	}
	return v
}

// GenValue returns a value of the given type.
func (g *EvalGen) GenValue(ty cty.Type) cty.Value {
	if g.R.Chance(g.Nulls) {
		g.f("val:null")
		return g.mark(cty.NullVal(ty))
	}
	if g.R.Chance(g.Unknowns) {
		return g.mark(g.unknownOf(ty))
	}
	switch {
	case ty == cty.String:
		return g.mark(cty.StringVal(strPool[g.R.Intn(len(strPool))]))
	case ty == cty.Number:
		switch g.R.Intn(6) {
		case 0:
			return g.mark(cty.MustParseNumberVal(g.R.Pick("2.5", "0.25", "-1.5", "7.75", "0.5", "10.125")))
		case 1:
			return g.mark(cty.Zero)
		default:
			return g.mark(cty.NumberIntVal(int64(g.R.Intn(12) - 3)))
		}
	case ty == cty.Bool:
		return g.mark(cty.BoolVal(g.R.Chance(0.5)))
	case ty == cty.DynamicPseudoType:
		return g.GenValue(g.GenType(1))
	case ty.IsListType():
		n := g.R.Small(4)
		if n == 0 {
			return g.mark(cty.ListValEmpty(ty.ElementType()))
		}
		vs := make([]cty.Value, n)
		for i := range vs {
			vs[i] = g.GenValue(ty.ElementType())
		}
		return g.mark(cty.ListVal(vs))
	case ty.IsSetType():
		n := g.R.Small(4)
		if n == 0 {
			return g.mark(cty.SetValEmpty(ty.ElementType()))
		}
		vs := make([]cty.Value, n)
		for i := range vs {
			save := g.Unknowns
			g.Unknowns = 0 // sets with unknown members have go-cty-specific semantics
			vs[i] = g.GenValue(ty.ElementType())
			g.Unknowns = save
		}
		return g.mark(cty.SetVal(vs))
	case ty.IsMapType():
		n := g.R.Small(4)
		if n == 0 {
			return g.mark(cty.MapValEmpty(ty.ElementType()))
		}
		vs := map[string]cty.Value{}
		for i := 0; i < n; i++ {
			vs[[]string{"a", "b", "k", "x y", "0", "1"}[g.R.Intn(6)]] = g.GenValue(ty.ElementType())
		}
		return g.mark(cty.MapVal(vs))
	case ty.IsTupleType():
		ets := ty.TupleElementTypes()
		vs := make([]cty.Value, len(ets))
		for i := range vs {
			vs[i] = g.GenValue(ets[i])
		}
		return g.mark(cty.TupleVal(vs))
	case ty.IsObjectType():
		vs := map[string]cty.Value{}
		at := ty.AttributeTypes()
		for _, k := range SortedKeys(at) { // deterministic use of the PRNG
			vs[k] = g.GenValue(at[k])
		}
		return g.mark(cty.ObjectVal(vs))
	}
	return cty.DynamicVal
}

// GenScope builds an evaluation context chain of 1..3 frames.
func (g *EvalGen) GenScope() *hcl.EvalContext {
	g.Vars = map[string]cty.Value{}
	names := []string{"n", "m", "s", "t", "b", "l", "mp", "o", "tp", "st", "d", "u", "z"}
	root := &hcl.EvalContext{Variables: map[string]cty.Value{}, Functions: HarnessFuncs}
	fixed := map[string]cty.Type{"n": cty.Number, "m": cty.Number, "s": cty.String, "t": cty.String, "b": cty.Bool}
	for _, nm := range names {
		if g.R.Chance(0.15) {
			continue
		}
		ty, ok := fixed[nm]
		if !ok {
			switch nm {
			case "l":
				ty = cty.List(g.GenType(1))
			case "mp":
				ty = cty.Map(g.GenType(1))
			case "o":
				ty = cty.Object(map[string]cty.Type{"a": g.GenType(1), "b": g.GenType(1), "name": cty.String})
			case "tp":
				ty = cty.Tuple([]cty.Type{g.GenType(1), g.GenType(1)})
			case "st":
				ty = cty.Set(cty.String)
			default:
				ty = g.GenType(2)
			}
		}
		v := g.GenValue(ty)
		if nm == "d" && g.R.Chance(0.3) {
			v = cty.DynamicVal
		}
		root.Variables[nm] = v
	}
	if g.R.Chance(0.05) {
		root.Functions = nil
		g.f("scope:no-functions")
	}
	ctx := root
	if g.R.Chance(0.4) {
		ctx = root.NewChild()
		g.f("scope:child")
		if g.R.Chance(0.6) {
			ctx.Variables = map[string]cty.Value{}
			for _, nm := range names {
				if g.R.Chance(0.15) {
					ty := g.GenType(1)
					if t, ok := fixed[nm]; ok {
						ty = t
					}
					ctx.Variables[nm] = g.GenValue(ty)
				}
			}
		}
	}
	if g.R.Chance(0.02) {
		g.f("scope:no-variables")
		return &hcl.EvalContext{Functions: HarnessFuncs}
	}
	// flatten
	var chain []*hcl.EvalContext
	for c := ctx; c != nil; c = c.Parent() {
		chain = append(chain, c)
	}
	for i := len(chain) - 1; i >= 0; i-- {
		for k, v := range chain[i].Variables {
			g.Vars[k] = v
		}
	}
	return ctx
}

// CoqCtx renders a context chain (innermost first) as a Coq term of type ctx.
func CoqCtx(ctx *hcl.EvalContext, info *ValInfo) string {
	var frames []string
	for c := ctx; c != nil; c = c.Parent() {
		vars := "None"
		if c.Variables != nil {
			names := make([]string, 0, len(c.Variables))
			for n := range c.Variables {
				names = append(names, n)
			}
			sort.Strings(names)
			var parts []string
			for _, n := range names {
				parts = append(parts, "("+CoqStr(n)+", "+CoqVal(c.Variables[n], info)+")")
			}
			vars = "(Some " + CoqList(parts) + ")"
		}
		frames = append(frames, "mkFrame "+vars+" "+CoqFuncs(c.Functions))
	}
	return CoqList(frames)
}

// ---- expression text ----------------------------------------------------------------

type kind int

const (
	kAny kind = iota
	kNum
	kStr
	kBool
	kList
	kMap
	kObj
	kTuple
	kSet
)

func kindOf(ty cty.Type) kind {
	switch {
	case ty == cty.Number:
		return kNum
	case ty == cty.String:
		return kStr
	case ty == cty.Bool:
		return kBool
	case ty.IsListType():
		return kList
	case ty.IsMapType():
		return kMap
	case ty.IsObjectType():
		return kObj
	case ty.IsTupleType():
		return kTuple
	case ty.IsSetType():
		return kSet
	}
	return kAny
}

func (g *EvalGen) varOfKind(k kind) (string, bool) {
	var cands []string
	for n, v := range g.Vars {
		if k == kAny || kindOf(v.Type()) == k {
			cands = append(cands, n)
		}
	}
	if len(cands) == 0 {
		return "", false
	}
	sort.Strings(cands)
	return cands[g.R.Intn(len(cands))], true
}

// GenExpr returns expression text that (mostly) has the wanted kind.
func (g *EvalGen) GenExpr(k kind) string {
	g.depth++
	defer func() { g.depth-- }()
	// deliberate ill-typing
	if g.R.Chance(0.04) {
		g.f("expr:ill-typed-position")
		k = kind(g.R.Intn(9))
	}
	if g.depth > 5 {
		return g.leaf(k)
	}
	switch k {
	case kNum:
		switch g.R.Intn(12) {
		case 0, 1, 2:
			return g.leaf(k)
		case 3, 4, 5:
			g.f("expr:arith")
			return g.GenExpr(kNum) + " " + g.R.Pick("+", "-", "*", "/", "%") + " " + g.GenExpr(kNum)
		case 6:
			g.f("expr:neg")
			return "-" + g.atom(kNum)
		case 7:
			return g.cond(kNum)
		case 8:
			return g.indexInto(kNum)
		case 9:
			g.f("expr:call")
			return "sum(" + g.GenExpr(kNum) + ", " + g.GenExpr(kNum) + ")"
		case 10:
			return "(" + g.GenExpr(kNum) + ")"
		default:
			return g.leaf(k)
		}
	case kStr:
		switch g.R.Intn(10) {
		case 0, 1:
			return g.leaf(k)
		case 2, 3, 4:
			return g.template()
		case 5:
			return g.cond(kStr)
		case 6:
			g.f("expr:call")
			return "upper(" + g.GenExpr(kStr) + ")"
		case 7:
			return g.indexInto(kStr)
		default:
			return g.leaf(k)
		}
	case kBool:
		switch g.R.Intn(12) {
		case 0, 1:
			return g.leaf(k)
		case 2, 3:
			g.f("expr:logic")
			return g.GenExpr(kBool) + " " + g.R.Pick("&&", "||") + " " + g.GenExpr(kBool)
		case 4:
			g.f("expr:not")
			return "!" + g.atom(kBool)
		case 5, 6:
			g.f("expr:compare")
			return g.GenExpr(kNum) + " " + g.R.Pick("<", "<=", ">", ">=") + " " + g.GenExpr(kNum)
		case 7, 8:
			g.f("expr:equality")
			kk := kind(g.R.Intn(9))
			return g.GenExpr(kk) + " " + g.R.Pick("==", "!=") + " " + g.GenExpr(kk)
		case 9:
			return g.cond(kBool)
		case 10:
			g.f("expr:call")
			return "isnull(" + g.GenExpr(kAny) + ")"
		default:
			return g.leaf(k)
		}
	case kList, kTuple, kSet:
		switch g.R.Intn(8) {
		case 0, 1:
			return g.leaf(k)
		case 2, 3:
			g.f("expr:tuple-cons")
			n := g.R.Small(4)
			parts := make([]string, n)
			ek := kind(1 + g.R.Intn(3))
			for i := range parts {
				parts[i] = g.GenExpr(ek)
			}
			return "[" + strings.Join(parts, ", ") + "]"
		case 4:
			return g.forExpr(false)
		case 5:
			return g.splat()
		case 6:
			return g.cond(k)
		default:
			return g.leaf(k)
		}
	case kMap, kObj:
		switch g.R.Intn(8) {
		case 0, 1:
			return g.leaf(k)
		case 2, 3:
			g.f("expr:object-cons")
			n := g.R.Small(3)
			parts := make([]string, n)
			for i := range parts {
				var key string
				switch g.R.Intn(6) {
				case 0:
					key = `"` + g.R.Pick("a", "b", "x y", "k") + `"`
				case 1:
					key = "(" + g.GenExpr(kStr) + ")"
					g.f("expr:object-key-expr")
				case 2:
					key = g.R.Pick("null", "true", "1")
				default:
					key = g.R.Pick("a", "b", "k", "name")
				}
				parts[i] = key + " = " + g.GenExpr(kAny)
			}
			return "{" + strings.Join(parts, ", ") + "}"
		case 4:
			return g.forExpr(true)
		case 5:
			return g.cond(k)
		default:
			return g.leaf(k)
		}
	default:
		return g.GenExpr(kind(1 + g.R.Intn(8)))
	}
}

func (g *EvalGen) atom(k kind) string {
	if g.R.Chance(0.5) {
		return g.leaf(k)
	}
	return "(" + g.GenExpr(k) + ")"
}

func (g *EvalGen) leaf(k kind) string {
	if g.R.Chance(0.7) {
		if n, ok := g.varOfKind(k); ok {
			g.f("expr:var")
			return n
		}
	}
	if g.R.Chance(0.03) {
		g.f("expr:undefined-var")
		return "nosuch"
	}
	switch k {
	case kNum:
		g.f("expr:lit")
		return g.R.Pick("0", "1", "2", "3", "10", "2.5", "0.25", "7")
	case kStr:
		g.f("expr:lit")
		return `"` + g.R.Pick("", "a", "hello", "x y", "1", "true", "2.5", "ü") + `"`
	case kBool:
		g.f("expr:lit")
		return g.R.Pick("true", "false")
	case kList, kTuple, kSet:
		return "[" + g.R.Pick("", "1", "1, 2", `"a", "b"`, "true", `1, "a"`, "null") + "]"
	case kMap, kObj:
		return "{" + g.R.Pick("", "a = 1", `a = "x", b = 2`, "k = null", "a = [1]") + "}"
	default:
		if g.R.Chance(0.2) {
			return "null"
		}
		return g.leaf(kind(1 + g.R.Intn(5)))
	}
}

func (g *EvalGen) cond(k kind) string {
	g.f("expr:cond")
	t := g.GenExpr(k)
	f := g.GenExpr(k)
	switch g.R.Intn(10) {
	case 0:
		t = "null"
		g.f("expr:cond-null-arm")
	case 1:
		f = "null"
		g.f("expr:cond-null-arm")
	case 2:
		f = g.GenExpr(kAny)
		g.f("expr:cond-mixed-arms")
	}
	return "(" + g.GenExpr(kBool) + " ? " + t + " : " + f + ")"
}

func (g *EvalGen) indexInto(k kind) string {
	g.f("expr:index")
	var cands []string
	for n, v := range g.Vars {
		ty := v.Type()
		if ty.IsListType() || ty.IsMapType() || ty.IsTupleType() || ty.IsObjectType() {
			cands = append(cands, n)
		}
	}
	if len(cands) == 0 || g.R.Chance(0.2) {
		return "[" + g.GenExpr(k) + ", " + g.GenExpr(k) + "][" + g.GenExpr(kNum) + "]"
	}
	sort.Strings(cands)
	n := cands[g.R.Intn(len(cands))]
	ty := g.Vars[n].Type()
	switch {
	case ty.IsListType() || ty.IsTupleType():
		switch g.R.Intn(5) {
		case 0:
			g.f("expr:index-legacy")
			return n + "." + g.R.Pick("0", "1", "2")
		case 1:
			return n + "[" + g.GenExpr(kNum) + "]"
		case 2:
			return n + `["` + g.R.Pick("0", "1", "x") + `"]`
		default:
			return n + "[" + g.R.Pick("0", "1", "2", "5", "-1", "0.5") + "]"
		}
	default:
		switch g.R.Intn(4) {
		case 0:
			g.f("expr:getattr")
			return n + "." + g.R.Pick("a", "b", "k", "name", "zz")
		case 1:
			return n + "[" + g.GenExpr(kStr) + "]"
		default:
			return n + `["` + g.R.Pick("a", "b", "k", "name", "x y", "0") + `"]`
		}
	}
}

func (g *EvalGen) collExpr() string {
	var cands []string
	for n, v := range g.Vars {
		if v.Type().IsCollectionType() || v.Type().IsTupleType() || v.Type().IsObjectType() {
			cands = append(cands, n)
		}
	}
	sort.Strings(cands)
	if len(cands) > 0 && g.R.Chance(0.7) {
		return cands[g.R.Intn(len(cands))]
	}
	if g.R.Chance(0.1) {
		return g.GenExpr(kAny)
	}
	return g.GenExpr(kind(4 + g.R.Intn(4)))
}

func (g *EvalGen) forExpr(obj bool) string {
	g.f("expr:for")
	coll := g.collExpr()
	two := g.R.Chance(0.5)
	hdr := "v"
	if two {
		hdr = "k, v"
	}
	save := g.Vars
	nv := map[string]cty.Value{}
	for k, v := range save {
		nv[k] = v
	}
	// element kinds are unknown statically; bind as dynamic for generation purposes
	nv["v"] = cty.DynamicVal
	if two {
		nv["k"] = cty.DynamicVal
	}
	g.Vars = nv
	defer func() { g.Vars = save }()
	body := g.R.Pick("v", "v", "[v]", `"${v}"`, "v == null", "k", "upper(v)", "v + 1", "v.a", "v[0]")
	if !two && strings.Contains(body, "k") {
		body = "v"
	}
	if g.R.Chance(0.3) {
		body = g.GenExpr(kAny)
	}
	cond := ""
	if g.R.Chance(0.35) {
		g.f("expr:for-if")
		cond = " if " + g.R.Pick("v != null", "true", "false", "v == 1", "v", g.GenExpr(kBool))
	}
	if obj {
		key := g.R.Pick("v", "k", `"${v}"`, `"x"`, "upper(v)", g.GenExpr(kStr))
		if !two && key == "k" {
			key = "v"
		}
		grp := ""
		if g.R.Chance(0.3) {
			grp = "..."
			g.f("expr:for-group")
		}
		return "{for " + hdr + " in " + coll + " : " + key + " => " + body + grp + cond + "}"
	}
	return "[for " + hdr + " in " + coll + " : " + body + cond + "]"
}

func (g *EvalGen) splat() string {
	g.f("expr:splat")
	src := g.collExpr()
	if !strings.HasPrefix(src, "[") && !strings.HasPrefix(src, "{") && !strings.HasPrefix(src, "(") {
		// variable
	} else {
		src = "(" + src + ")"
	}
	rest := g.R.Pick("", ".a", ".name", "[0]", ".a.b", `["k"]`, ".a[*].b", "[0].a")
	if g.R.Chance(0.5) {
		g.f("expr:splat-attr")
		rest2 := g.R.Pick("", ".a", ".name", ".a.b")
		return src + ".*" + rest2
	}
	return src + "[*]" + rest
}

func (g *EvalGen) template() string {
	g.f("expr:template")
	var sb strings.Builder
	sb.WriteString(`"`)
	n := 1 + g.R.Small(3)
	for i := 0; i < n; i++ {
		switch g.R.Intn(8) {
		case 0, 1, 2:
			sb.WriteString(g.R.Pick("a", "x ", " - ", "é", "1", "\\n", "$${", "="))
		case 3, 4, 5:
			sb.WriteString("${" + g.GenExpr(kind(g.R.Intn(4))) + "}")
			g.f("expr:interp")
		case 6:
			g.f("expr:tmpl-if")
			sb.WriteString("%{ if " + g.GenExpr(kBool) + " }" + g.R.Pick("y", "${" + g.GenExpr(kStr) + "}", "") + g.R.Pick("", "%{ else }n") + "%{ endif }")
		case 7:
			g.f("expr:tmpl-for")
			save := g.Vars
			nv := map[string]cty.Value{}
			for k, v := range save {
				nv[k] = v
			}
			nv["x"] = cty.DynamicVal
			coll := g.collExpr()
			g.Vars = nv
			sb.WriteString("%{ for x in " + coll + " }" + g.R.Pick("${x}", "${x},", "-", "${upper(x)}") + "%{ endfor }")
			g.Vars = save
		}
	}
	sb.WriteString(`"`)
	return sb.String()
}

// GenTopExpr picks a result kind at random.
func (g *EvalGen) GenTopExpr() string {
	g.depth = 0
	return g.GenExpr(kind(g.R.Intn(9)))
}

func NewEvalGen(r *Rng) *EvalGen {
	return &EvalGen{R: r, Feat: map[string]int{}}
}
