package hv

// DeepDump: a canonical, complete structural dump of an arbitrary Go value,
// for "the same result when called again" checks on results whose types keep
// their fields unexported (json bodies, hclwrite files, diagnostics with
// attached expressions). It follows pointers and interfaces, reads unexported
// fields, prints maps in the order of their dumped keys, and replaces pointer
// identity by first-visit numbers, so two structurally equal results built by
// two separate calls dump to the same bytes whatever their addresses are.

import (
	"bytes"
	"reflect"
	"sort"
	"strconv"
)

type deepKey struct {
	p uintptr
	t reflect.Type
}

type deepDumper struct {
	w     *bytes.Buffer
	seen  map[deepKey]int
	limit int // > 0: remaining depth of a bounded dump (used to order map keys)
}

// DeepDump appends the dump of v to w.
func DeepDump(w *bytes.Buffer, v any) {
	d := &deepDumper{w: w, seen: map[deepKey]int{}}
	d.val(reflect.ValueOf(v))
}

// DeepDumpBytes returns the dump of the given values, one after another.
func DeepDumpBytes(vs ...any) []byte {
	var w bytes.Buffer
	d := &deepDumper{w: &w, seen: map[deepKey]int{}}
	for _, v := range vs {
		d.val(reflect.ValueOf(v))
		w.WriteByte('\n')
	}
	return w.Bytes()
}

// keyString gives the text a map key is ordered by. A pointer that was already
// visited is its number; any other key is dumped on its own, pointers being
// followed only a few levels (a key that is a node of a large linked structure
// must not drag the whole structure into every key).
func (d *deepDumper) keyString(k reflect.Value) string {
	if k.Kind() == reflect.Pointer && !k.IsNil() {
		if n, ok := d.seen[deepKey{k.Pointer(), k.Type()}]; ok {
			return "&#" + strconv.Itoa(1000000000 + n)[1:]
		}
	}
	var kb bytes.Buffer
	kd := &deepDumper{w: &kb, seen: map[deepKey]int{}, limit: 6}
	kd.val(k)
	return kb.String()
}

func (d *deepDumper) val(v reflect.Value) {
	w := d.w
	if d.limit > 0 {
		switch v.Kind() {
		case reflect.Pointer, reflect.Interface, reflect.Map, reflect.Slice, reflect.Struct, reflect.Array:
			if d.limit == 1 {
				w.WriteString("...")
				return
			}
			d.limit--
			defer func() { d.limit++ }()
		}
	}
	switch v.Kind() {
	case reflect.Invalid:
		w.WriteString("nil")
	case reflect.Bool:
		if v.Bool() {
			w.WriteString("true")
		} else {
			w.WriteString("false")
		}
	case reflect.Int, reflect.Int8, reflect.Int16, reflect.Int32, reflect.Int64:
		w.WriteString(strconv.FormatInt(v.Int(), 10))
	case reflect.Uint, reflect.Uint8, reflect.Uint16, reflect.Uint32, reflect.Uint64, reflect.Uintptr:
		w.WriteString(strconv.FormatUint(v.Uint(), 10))
	case reflect.Float32, reflect.Float64:
		w.WriteString(strconv.FormatFloat(v.Float(), 'g', -1, 64))
	case reflect.Complex64, reflect.Complex128:
		c := v.Complex()
		w.WriteString(strconv.FormatFloat(real(c), 'g', -1, 64) + "+" + strconv.FormatFloat(imag(c), 'g', -1, 64) + "i")
	case reflect.String:
		w.WriteString(strconv.Quote(v.String()))
	case reflect.Slice:
		if v.IsNil() {
			w.WriteString("nil[]")
			return
		}
		if v.Type().Elem().Kind() == reflect.Uint8 {
			w.WriteString("b")
			w.WriteString(strconv.Quote(string(v.Bytes())))
			return
		}
		fallthrough
	case reflect.Array:
		w.WriteByte('[')
		for i := 0; i < v.Len(); i++ {
			if i > 0 {
				w.WriteByte(' ')
			}
			d.val(v.Index(i))
		}
		w.WriteByte(']')
	case reflect.Map:
		if v.IsNil() {
			w.WriteString("nil{}")
			return
		}
		type kv struct {
			s    string
			k, v reflect.Value
		}
		var items []kv
		for it := v.MapRange(); it.Next(); {
			// the order of the entries must not depend on the iteration order
			items = append(items, kv{d.keyString(it.Key()), it.Key(), it.Value()})
		}
		sort.SliceStable(items, func(i, j int) bool { return items[i].s < items[j].s })
		w.WriteString("map{")
		for i, it := range items {
			if i > 0 {
				w.WriteByte(' ')
			}
			d.val(it.k)
			w.WriteByte(':')
			d.val(it.v)
		}
		w.WriteByte('}')
	case reflect.Pointer:
		if v.IsNil() {
			w.WriteString("nil*")
			return
		}
		k := deepKey{v.Pointer(), v.Type()}
		if n, ok := d.seen[k]; ok {
			w.WriteString("&#" + strconv.Itoa(n))
			return
		}
		n := len(d.seen)
		d.seen[k] = n
		w.WriteString("&" + strconv.Itoa(n) + "(")
		d.val(v.Elem())
		w.WriteByte(')')
	case reflect.Interface:
		if v.IsNil() {
			w.WriteString("nil-iface")
			return
		}
		e := v.Elem()
		w.WriteString("<" + e.Type().String() + ">")
		d.val(e)
	case reflect.Struct:
		t := v.Type()
		w.WriteString(t.String())
		w.WriteByte('{')
		for i := 0; i < v.NumField(); i++ {
			if i > 0 {
				w.WriteByte(' ')
			}
			w.WriteString(t.Field(i).Name)
			w.WriteByte('=')
			d.val(v.Field(i))
		}
		w.WriteByte('}')
	case reflect.Func:
		if v.IsNil() {
			w.WriteString("nil-func")
		} else {
			w.WriteString("func")
		}
	default: // Chan, UnsafePointer
		w.WriteString(v.Kind().String())
	}
}
