package hv

// Grammar-directed generator of native-syntax configuration text in wild
// layouts. It is purely syntactic (names are not bound to anything); the typed
// generator used by the evaluation properties is in evalgen.go.

import (
	"fmt"
	"strings"
)

type HclGen struct {
	r     *Rng
	b     strings.Builder
	wild  float64 // probability of unusual layout at each opportunity
	nlOK  int     // >0: inside () or [] or ${ }: newlines are insignificant
	depth int
	feat  map[string]int // feature histogram
	// knobs
	noHeredoc  bool
	noTemplate bool
	noComments bool
}

func NewHclGen(r *Rng) *HclGen {
	return &HclGen{r: r, wild: 0.25, feat: map[string]int{}}
}

func (g *HclGen) f(name string) { g.feat[name]++ }
func (g *HclGen) w(s string)    { g.b.WriteString(s) }

var identPool = []string{"a", "b", "foo", "bar", "in", "for", "if", "else", "endif", "endfor", "null", "true", "false", "x1", "a-b", "_u", "each", "var", "local", "count", "ünï", "k_2"}
var namePool = []string{"a", "b", "foo", "bar", "baz", "x1", "a-b", "_u", "name", "count", "tags", "ünï", "in", "k_2", "for"}
var funcPool = []string{"f", "upper", "min", "ns::f", "a::b::c", "concat"}

func (g *HclGen) ident() string { return identPool[g.r.Intn(len(identPool))] }
func (g *HclGen) name() string  { return namePool[g.r.Intn(len(namePool))] }
func (g *HclGen) varname() string {
	for {
		s := g.ident()
		switch s {
		case "true", "false", "null", "for", "if", "else", "endif", "endfor", "in":
			if !g.r.Chance(0.15) {
				continue
			}
			if s == "for" || s == "if" || s == "in" || s == "else" || s == "endif" || s == "endfor" {
				continue
			}
		}
		return s
	}
}

// blank emits horizontal whitespace only.
func (g *HclGen) blank(min int) {
	n := min
	if g.r.Chance(g.wild) {
		n += g.r.Intn(4)
	}
	for i := 0; i < n; i++ {
		if g.r.Chance(g.wild * 0.3) {
			g.w("\t")
		} else {
			g.w(" ")
		}
	}
}

func (g *HclGen) commentText() string {
	return g.r.Pick("c", "todo: x = 1", "a { b }", "\"q", "${x}", "é", "", " spaced  out ", "#", "*/ /*"[:0]+"star*")
}

// ws emits optional whitespace; where newlines are insignificant it may also
// emit newlines and comments. min = minimum number of blanks when nothing else
// separates the neighbours.
func (g *HclGen) ws(min int) {
	if g.r.Chance(g.wild*0.25) && !g.noComments {
		g.blank(0)
		g.w("/*" + g.commentText() + "*/")
		g.f("inline-comment")
		g.blank(0)
		return
	}
	if g.nlOK > 0 && g.r.Chance(g.wild*0.6) {
		g.blank(0)
		if g.r.Chance(0.3) && !g.noComments {
			g.w(g.r.Pick("#", "//") + g.commentText())
			g.f("line-comment-in-expr")
		}
		g.nl()
		g.blank(0)
		return
	}
	g.blank(min)
}

func (g *HclGen) nl() {
	if g.r.Chance(g.wild * 0.3) {
		g.w("\r\n")
		g.f("crlf")
	} else {
		g.w("\n")
	}
}

// ---- expressions ------------------------------------------------------------

func (g *HclGen) number() string {
	switch g.r.Intn(8) {
	case 0:
		return fmt.Sprintf("%d.%d", g.r.Intn(100), g.r.Intn(1000))
	case 1:
		return fmt.Sprintf("%de%d", g.r.Intn(50), g.r.Intn(5))
	case 2:
		return fmt.Sprintf("%d.%dE+%d", g.r.Intn(9), g.r.Intn(9), g.r.Intn(3))
	case 3:
		return "0"
	default:
		return fmt.Sprintf("%d", g.r.Intn(200))
	}
}

var binOps = []string{"+", "-", "*", "/", "%", "==", "!=", "<", "<=", ">", ">=", "&&", "||"}

func (g *HclGen) expr() {
	g.depth++
	defer func() { g.depth-- }()
	if g.depth > 5 {
		g.term()
		return
	}
	switch x := g.r.Intn(20); {
	case x < 9:
		g.term()
	case x < 14:
		g.f("binop")
		g.expr1()
		n := 1 + g.r.Small(2)
		for i := 0; i < n; i++ {
			g.ws(1)
			g.w(binOps[g.r.Intn(len(binOps))])
			g.ws(1)
			g.expr1()
		}
	case x < 16:
		g.f("cond")
		g.expr1()
		g.ws(1)
		g.w("?")
		g.ws(1)
		g.expr1()
		g.ws(1)
		g.w(":")
		g.ws(1)
		g.expr()
	default:
		g.expr1()
	}
}

// expr1: unary-level expression
func (g *HclGen) expr1() {
	if g.r.Chance(0.15) {
		g.f("unary")
		g.w(g.r.Pick("-", "!", "-", "- ", "! "))
		if g.r.Chance(0.1) {
			g.w(g.r.Pick("-", "!"))
		}
	}
	g.term()
}

func (g *HclGen) term() {
	g.depth++
	defer func() { g.depth-- }()
	d := g.depth
	choice := g.r.Intn(24)
	if d > 6 {
		choice = g.r.Intn(8)
	}
	switch {
	case choice < 3:
		g.f("number")
		g.w(g.number())
	case choice < 4:
		g.f("keyword-lit")
		g.w(g.r.Pick("true", "false", "null"))
	case choice < 8:
		g.f("var")
		g.w(g.varname())
		g.traversal()
	case choice < 11:
		if g.noTemplate {
			g.w(`"s"`)
		} else {
			g.quoted()
		}
		if g.r.Chance(0.1) {
			g.traversal()
		}
	case choice < 13:
		g.f("tuple")
		g.w("[")
		g.nlOK++
		n := g.r.Small(4)
		for i := 0; i < n; i++ {
			g.ws(0)
			g.expr()
			g.ws(0)
			if i < n-1 || g.r.Chance(0.2) {
				g.w(",")
			}
		}
		g.ws(0)
		g.nlOK--
		g.w("]")
		if g.r.Chance(0.2) {
			g.traversal()
		}
	case choice < 15:
		g.object()
	case choice < 17:
		g.f("call")
		g.w(funcPool[g.r.Intn(len(funcPool))])
		if g.r.Chance(g.wild * 0.2) {
			g.blank(1)
		}
		g.w("(")
		g.nlOK++
		n := g.r.Small(3)
		for i := 0; i < n; i++ {
			g.ws(0)
			g.expr()
			g.ws(0)
			if i < n-1 {
				g.w(",")
			} else if g.r.Chance(0.2) {
				g.w("...")
				g.f("expand")
			} else if g.r.Chance(0.1) {
				g.w(",")
			}
		}
		g.ws(0)
		g.nlOK--
		g.w(")")
		if g.r.Chance(0.2) {
			g.traversal()
		}
	case choice < 19:
		g.f("paren")
		g.w("(")
		g.nlOK++
		g.ws(0)
		g.expr()
		g.ws(0)
		g.nlOK--
		g.w(")")
		if g.r.Chance(0.2) {
			g.traversal()
		}
	case choice < 21:
		g.forExpr()
	default:
		g.f("var")
		g.w(g.varname())
	}
}

func (g *HclGen) traversal() {
	n := g.r.Small(4)
	for i := 0; i < n; i++ {
		// whitespace before a step (legal; the formatter must cope)
		if g.r.Chance(g.wild * 0.3) {
			g.ws(1)
			g.f("space-before-step")
		}
		switch g.r.Intn(12) {
		case 0, 1, 2, 3:
			g.f("step-attr")
			g.w(".")
			if g.r.Chance(g.wild * 0.2) {
				g.ws(1)
			}
			g.w(g.name())
		case 4, 5:
			g.f("step-index-num")
			g.w("[")
			g.nlOK++
			g.ws(0)
			g.w(fmt.Sprintf("%d", g.r.Intn(5)))
			g.ws(0)
			g.nlOK--
			g.w("]")
		case 6:
			g.f("step-index-str")
			g.w("[")
			g.nlOK++
			g.ws(0)
			g.w(`"` + g.r.Pick("k", "a b", "", "ü", "for") + `"`)
			g.ws(0)
			g.nlOK--
			g.w("]")
		case 7:
			g.f("step-index-expr")
			g.w("[")
			g.nlOK++
			g.ws(0)
			g.expr()
			g.ws(0)
			g.nlOK--
			g.w("]")
		case 8:
			g.f("step-legacy")
			g.w("." + fmt.Sprintf("%d", g.r.Intn(4)))
		case 9:
			g.f("step-splat-full")
			g.w("[*]")
		case 10:
			g.f("step-splat-attr")
			g.w(".*")
		case 11:
			g.f("step-index-kw")
			g.w("[" + g.r.Pick("true", "false", "null") + "]")
		}
	}
}

func (g *HclGen) object() {
	g.f("object")
	g.w("{")
	n := g.r.Small(4)
	multi := g.r.Chance(0.5)
	for i := 0; i < n; i++ {
		if multi {
			g.blank(0)
			if g.r.Chance(g.wild*0.3) && !g.noComments {
				g.w(g.r.Pick("#", "//") + g.commentText())
			}
			g.nl()
			g.blank(0)
		} else {
			g.blank(0)
		}
		// key
		switch g.r.Intn(8) {
		case 0:
			g.w(`"` + g.r.Pick("k", "a b", "for", "x.y") + `"`)
		case 1:
			g.w("(")
			g.nlOK++
			g.ws(0)
			g.expr1()
			g.ws(0)
			g.nlOK--
			g.w(")")
		case 2:
			g.w(fmt.Sprintf("%d", g.r.Intn(9)))
		case 3:
			g.w(g.name() + "." + g.name())
		default:
			k := g.name()
			if i == 0 && k == "for" {
				k = "fo"
			}
			g.w(k)
		}
		g.blank(0)
		g.w(g.r.Pick("=", "=", ":"))
		g.blank(0)
		g.expr()
		if !multi {
			if i < n-1 {
				g.blank(0)
				g.w(",")
			}
		} else if g.r.Chance(0.3) {
			g.blank(0)
			g.w(",")
		}
	}
	if multi && n > 0 {
		g.blank(0)
		g.nl()
	}
	g.blank(0)
	g.w("}")
}

func (g *HclGen) forExpr() {
	g.f("for")
	obj := g.r.Chance(0.4)
	if obj {
		g.w("{")
	} else {
		g.w("[")
	}
	g.nlOK++
	g.ws(0)
	g.w("for")
	g.ws(1)
	g.w(g.r.Pick("k", "v", "x"))
	if g.r.Chance(0.4) {
		g.ws(0)
		g.w(",")
		g.ws(0)
		g.w(g.r.Pick("v2", "y"))
	}
	g.ws(1)
	g.w("in")
	g.ws(1)
	g.expr1()
	g.ws(0)
	g.w(":")
	g.ws(0)
	g.expr()
	if obj {
		g.ws(0)
		g.w("=>")
		g.ws(0)
		g.expr()
		if g.r.Chance(0.3) {
			g.w("...")
		}
	}
	if g.r.Chance(0.3) {
		g.ws(1)
		g.w("if")
		g.ws(1)
		g.expr()
	}
	g.ws(0)
	g.nlOK--
	if obj {
		g.w("}")
	} else {
		g.w("]")
	}
}

var litChunks = []string{"a", "hello ", " ", "x y", "é", "日本", `\n`, `\t`, `\"`, `\\`, `é`, `\U0001F600`, "$${", "%%{", "$", "%", "$$", "1.5", "{", "}", "#", "//", "/*", "'", "́"}

func (g *HclGen) templateParts(heredoc bool) {
	n := g.r.Small(5)
	for i := 0; i < n; i++ {
		switch x := g.r.Intn(10); {
		case x < 6:
			c := litChunks[g.r.Intn(len(litChunks))]
			if heredoc && strings.HasPrefix(c, `\`) {
				c = "lit"
			}
			// a lone $ or % must not be directly followed by {
			g.w(c)
			g.f("tpl-lit")
		case x < 9 || g.depth > 4:
			g.f("tpl-interp")
			g.w("${")
			if g.r.Chance(0.15) {
				g.w("~")
			}
			g.nlOK++
			save := g.noHeredoc
			g.noHeredoc = true
			g.ws(0)
			g.expr()
			g.ws(0)
			g.noHeredoc = save
			g.nlOK--
			if g.r.Chance(0.15) {
				g.w("~")
			}
			g.w("}")
		default:
			g.depth++
			if g.r.Chance(0.5) {
				g.f("tpl-if")
				g.w("%{")
				g.nlOK++
				g.ws(0)
				g.w("if")
				g.ws(1)
				g.expr1()
				g.ws(0)
				g.nlOK--
				g.w("}")
				g.templateParts(heredoc)
				if g.r.Chance(0.4) {
					g.w("%{ else }")
					g.templateParts(heredoc)
				}
				g.w("%{" + g.r.Pick("", " ", "~") + "endif" + g.r.Pick("", " ", "~") + "}")
			} else {
				g.f("tpl-for")
				g.w("%{ for x in ")
				g.nlOK++
				g.expr1()
				g.nlOK--
				g.w(" }")
				g.templateParts(heredoc)
				g.w("%{ endfor }")
			}
			g.depth--
		}
		// avoid accidental `${`/`%{` formed by "$" + "{"
		if s := g.b.String(); strings.HasSuffix(s, "$") || strings.HasSuffix(s, "%") {
			g.w(" ")
		}
	}
}

func (g *HclGen) quoted() {
	g.f("quoted")
	g.w(`"`)
	g.templateParts(false)
	g.w(`"`)
}

func (g *HclGen) heredoc() {
	g.f("heredoc")
	marker := g.r.Pick("EOT", "EOF", "E_1")
	Flush := g.r.Chance(0.4)
	if Flush {
		g.w("<<-" + marker)
		g.f("heredoc-flush")
	} else {
		g.w("<<" + marker)
	}
	g.w("\n")
	lines := g.r.Small(4)
	for i := 0; i < lines; i++ {
		g.w(strings.Repeat(" ", g.r.Intn(5)))
		if g.r.Chance(0.7) {
			g.templateParts(true)
		}
		g.w("\n")
	}
	if Flush {
		g.w(strings.Repeat(" ", g.r.Intn(4)))
	}
	g.w(marker)
}

// ---- bodies -----------------------------------------------------------------

func (g *HclGen) leadComments() {
	if g.noComments {
		return
	}
	for g.r.Chance(0.12) {
		g.blank(0)
		switch g.r.Intn(3) {
		case 0:
			g.w("#" + g.commentText() + "\n")
		case 1:
			g.w("//" + g.commentText() + "\n")
		case 2:
			g.w("/*" + g.commentText() + g.r.Pick("", "\n more ") + "*/")
			g.blank(0)
			g.nl()
		}
		g.f("lead-comment")
	}
}

func (g *HclGen) lineEnd() {
	g.blank(0)
	if g.r.Chance(0.15) && !g.noComments {
		g.w(g.r.Pick("#", "//") + g.commentText())
		g.f("line-comment")
		g.w("\n")
		return
	}
	if g.r.Chance(0.05) && !g.noComments {
		g.w("/*" + g.commentText() + "*/")
		g.blank(0)
	}
	g.nl()
}

func (g *HclGen) attr() {
	g.f("attr")
	g.w(g.name())
	g.blank(1)
	g.w("=")
	g.blank(1)
	if !g.noHeredoc && !g.noTemplate && g.r.Chance(0.08) {
		g.heredoc()
		g.w("\n")
		return
	}
	g.expr()
	g.lineEnd()
}

func (g *HclGen) label() {
	if g.r.Chance(0.5) {
		g.w(g.name())
	} else {
		g.w(`"` + g.r.Pick("l", "a b", "ü", `q\"q`, "x.y", "", "a$b", "p%q") + `"`)
	}
}

func (g *HclGen) block(level int) {
	g.f("block")
	g.w(g.name())
	n := g.r.Small(3)
	for i := 0; i < n; i++ {
		g.blank(1)
		g.label()
	}
	g.blank(1)
	g.w("{")
	switch x := g.r.Intn(10); {
	case x < 2:
		// empty block, one line
		g.blank(0)
		g.w("}")
		g.lineEnd()
	case x < 4:
		// one-line block with a single attribute
		g.f("oneline-block")
		g.blank(1)
		g.w(g.name())
		g.blank(1)
		g.w("=")
		g.blank(1)
		save := g.noHeredoc
		g.noHeredoc = true
		g.expr1()
		g.noHeredoc = save
		g.blank(1)
		g.w("}")
		g.lineEnd()
	default:
		g.lineEnd()
		g.body(level + 1)
		g.indent(level)
		g.w("}")
		g.lineEnd()
	}
}

func (g *HclGen) indent(level int) {
	if g.r.Chance(g.wild) {
		g.blank(0)
	} else {
		g.w(strings.Repeat("  ", level))
	}
}

func (g *HclGen) body(level int) {
	n := g.r.Small(5)
	if level == 0 {
		n++
	}
	for i := 0; i < n; i++ {
		g.leadComments()
		g.indent(level)
		if g.r.Chance(0.65) || level > 3 {
			g.attr()
		} else {
			g.block(level)
		}
		if g.r.Chance(0.15) {
			g.blank(0)
			g.nl()
		}
	}
}

// GenConfig returns one configuration text.
func GenConfig(r *Rng) (string, map[string]int) {
	g := NewHclGen(r)
	g.wild = []float64{0.0, 0.1, 0.3, 0.6}[r.Intn(4)]
	if r.Chance(0.03) {
		g.w("\xef\xbb\xbf")
		g.f("bom")
	}
	g.body(0)
	s := g.b.String()
	if r.Chance(0.15) {
		s = strings.TrimRight(s, "\r\n")
		g.f("no-final-newline")
	}
	return s, g.feat
}

// GenExprText returns one expression text.
func GenExprText(r *Rng) (string, map[string]int) {
	g := NewHclGen(r)
	g.wild = []float64{0.0, 0.1, 0.3, 0.6}[r.Intn(4)]
	g.noHeredoc = true
	g.expr()
	return g.b.String(), g.feat
}

// Mutate applies 1..3 byte/structure-level mutations to produce near-valid input.
var mutTokens = []string{"{", "}", "[", "]", "(", ")", "\"", "${", "%{", "}", "<<EOT\n", "EOT\n", "for", "in", "if", "=", "==", ":", "?", ",", ".", "...", "=>", "*", "\n", "\r", "\t", " ", "#", "/*", "*/", "\\", "\xff", "\xc3", "\x00", "\xe2\x80", "~", "!", "-", "$", "%", "'", "`", ";", "&", "|", "^", "0", "1e", "a"}

func Mutate(r *Rng, s string) string {
	b := []byte(s)
	k := 1 + r.Small(2)
	for i := 0; i < k; i++ {
		if len(b) == 0 {
			b = []byte(mutTokens[r.Intn(len(mutTokens))])
			continue
		}
		p := r.Intn(len(b) + 1)
		switch r.Intn(4) {
		case 0: // insert
			t := mutTokens[r.Intn(len(mutTokens))]
			b = append(b[:p], append([]byte(t), b[p:]...)...)
		case 1: // delete a short run
			q := p + 1 + r.Intn(3)
			if q > len(b) {
				q = len(b)
			}
			b = append(b[:p], b[q:]...)
		case 2: // replace
			if p < len(b) {
				t := mutTokens[r.Intn(len(mutTokens))]
				b = append(b[:p], append([]byte(t), b[p+1:]...)...)
			}
		case 3: // truncate
			if r.Chance(0.3) {
				b = b[:p]
			} else if p < len(b) {
				b[p] = byte(r.Intn(256))
			}
		}
	}
	return string(b)
}
