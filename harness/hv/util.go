package hv

import (
	"crypto/sha256"
	"encoding/hex"
	"encoding/json"
	"fmt"
	"math/rand/v2"
	"os"
	"path/filepath"
	"sort"
	"strings"
	"unicode/utf8"
)

// ---- PRNG -------------------------------------------------------------------

type Rng struct{ *rand.Rand }

func NewRng(seed uint64, stream uint64) *Rng {
	return &Rng{rand.New(rand.NewPCG(seed, stream))}
}
func (r *Rng) Intn(n int) int           { return r.IntN(n) }
func (r *Rng) Chance(p float64) bool    { return r.Float64() < p }
func (r *Rng) Pick(xs ...string) string { return xs[r.IntN(len(xs))] }

// geometric-ish Small size in [0, max]
func (r *Rng) Small(max int) int {
	n := 0
	for n < max && r.Float64() < 0.55 {
		n++
	}
	return n
}

// ---- report -----------------------------------------------------------------

// Failure is one direct-oracle failure or impl panic observed on the real code.
type Failure struct {
	Kind     string            `json:"kind"`      // short class, used to match known findings
	Detail   string            `json:"detail"`    // human readable
	Input    string            `json:"input"`     // the concrete input / history (text; lossy if not UTF-8)
	InputHex string            `json:"input_hex"` // exact bytes of Input
	Extra    map[string]string `json:"extra,omitempty"`
}

type Report struct {
	Property    string         `json:"property"`
	Seed        uint64         `json:"seed"`
	Evaluations int            `json:"evaluations"`
	Distinct    int            `json:"distinct_nontrivial"`
	Rule        string         `json:"rule"`
	Samples     []any          `json:"samples"`
	Histogram   map[string]int `json:"histogram"`
	Failures    []Failure      `json:"failures"`
	Soft        int            `json:"soft_mismatches"`
	CaseFiles   []string       `json:"case_files"`
	CaseIndex   []string       `json:"case_index,omitempty"` // per case: printable input, for mapping Coq mismatch indices back
	Notes       []string       `json:"notes,omitempty"`
	Exhaustive  map[string]int `json:"exhaustive,omitempty"`
	seen        map[[32]byte]bool
	perKind     map[string]int
}

func NewReport(prop string, seed uint64) *Report {
	return &Report{Property: prop, Seed: seed, Histogram: map[string]int{}, seen: map[[32]byte]bool{}, Exhaustive: map[string]int{}}
}

// Count registers one evaluated case; nontrivial says whether it exercises the
// property's anchor beyond a bare literal; key is its canonical form.
func (r *Report) Count(key string, nontrivial bool) {
	r.Evaluations++
	if !nontrivial {
		return
	}
	h := sha256.Sum256([]byte(key))
	if !r.seen[h] {
		r.seen[h] = true
		r.Distinct++
	}
}
func (r *Report) Hist(k string) { r.Histogram[k]++ }
func (r *Report) Sample(x any) {
	if len(r.Samples) < 8 {
		r.Samples = append(r.Samples, x)
	}
}
func (r *Report) Fail(f Failure) {
	if f.InputHex == "" {
		f.InputHex = hex.EncodeToString([]byte(f.Input))
	}
	// bounded PER KIND (and overall), so that many instances of one kind - a known finding at
	// thorough size - can never crowd out a failure of another kind
	if r.perKind == nil {
		r.perKind = map[string]int{}
	}
	if r.perKind[f.Kind] < 200 && len(r.Failures) < 4000 {
		r.perKind[f.Kind]++
		r.Failures = append(r.Failures, f)
	}
}

// Idx records the printable form of case number len(CaseIndex).
func (r *Report) Idx(s string) {
	if !utf8.ValidString(s) {
		s = "hex:" + hex.EncodeToString([]byte(s))
	}
	r.CaseIndex = append(r.CaseIndex, s)
}

func (r *Report) Write(dir string) error {
	b, err := json.MarshalIndent(r, "", " ")
	if err != nil {
		return err
	}
	return os.WriteFile(filepath.Join(dir, "report.json"), b, 0o644)
}

// ---- Coq term printing ------------------------------------------------------

func Hexs(b []byte) string { return "\"" + hex.EncodeToString(b) + "\"" }

func CoqZ(n int) string {
	if n < 0 {
		return fmt.Sprintf("(%d)", n)
	}
	return fmt.Sprintf("%d", n)
}
func CoqBool(b bool) string {
	if b {
		return "true"
	}
	return "false"
}
func CoqList(items []string) string { return "[" + strings.Join(items, "; ") + "]" }
func CoqZList(xs []int) string {
	s := make([]string, len(xs))
	for i, x := range xs {
		s[i] = CoqZ(x)
	}
	return CoqList(s)
}

// CoqString renders a Go string as a Coq string literal (only for printable
// ASCII content; other content must go through hex).
func CoqString(s string) string {
	return "\"" + strings.ReplaceAll(s, "\"", "\"\"") + "\""
}

// CaseFile writes a Coq file: header imports, `Definition cases := [...]`,
// and the evaluation of `checker cases` whose result (indices of mismatching
// cases) is printed between markers.
type CaseFile struct {
	Dir     string // output directory
	Name    string // file name prefix; shards are Name_0.v, Name_1.v, ...
	Imports string // Coq Require lines
	Ctype   string // Coq type of one case
	Checker string // Coq function : list Ctype -> list Z (indices of mismatching cases)
	Extras  [][2]string // further (definition name, Coq function : list Ctype -> list Z) printed the same way
	cases   []string
}

func (c *CaseFile) Add(s string) { c.cases = append(c.cases, s) }

// Flush writes shards of at most per cases each; returns the file names.
func (c *CaseFile) Flush(per int) ([]string, error) {
	var names []string
	for i, sh := 0, 0; i < len(c.cases) || sh == 0; sh++ {
		j := i + per
		if j > len(c.cases) {
			j = len(c.cases)
		}
		name := fmt.Sprintf("%s_%d.v", c.Name, sh)
		var b strings.Builder
		b.WriteString(c.Imports)
		b.WriteString("\nOpen Scope string_scope.\nOpen Scope Z_scope.\nOpen Scope list_scope.\n")
		fmt.Fprintf(&b, "Definition base_index : Z := %d.\n", i)
		fmt.Fprintf(&b, "Definition cases : list (%s) := [\n", c.Ctype)
		for k := i; k < j; k++ {
			if k > i {
				b.WriteString(";\n")
			}
			b.WriteString(c.cases[k])
		}
		b.WriteString("\n].\n")
		fmt.Fprintf(&b, "Definition bad := Eval vm_compute in map (fun i => base_index + i) (%s cases).\n", c.Checker)
		b.WriteString("Print bad.\n")
		for _, ex := range c.Extras {
			fmt.Fprintf(&b, "Definition %s := Eval vm_compute in map (fun i => base_index + i) (%s cases).\nPrint %s.\n", ex[0], ex[1], ex[0])
		}
		if err := os.WriteFile(filepath.Join(c.Dir, name), []byte(b.String()), 0o644); err != nil {
			return nil, err
		}
		names = append(names, name)
		i = j
		if i >= len(c.cases) {
			break
		}
	}
	return names, nil
}

func SortedKeys[V any](m map[string]V) []string {
	ks := make([]string, 0, len(m))
	for k := range m {
		ks = append(ks, k)
	}
	sort.Strings(ks)
	return ks
}
