package hv

// Structural dump of hclsyntax ASTs (no ranges) in the S-expression wire format
// shared with the Coq model's printer.

import (
	"fmt"
	"math/big"
	"sort"
	"strings"

	"github.com/hashicorp/hcl/v2"
	"github.com/hashicorp/hcl/v2/hclsyntax"
	"github.com/zclconf/go-cty/cty"
)

func OpName(op *hclsyntax.Operation) string {
	switch op {
	case hclsyntax.OpLogicalOr:
		return "or"
	case hclsyntax.OpLogicalAnd:
		return "and"
	case hclsyntax.OpLogicalNot:
		return "not"
	case hclsyntax.OpEqual:
		return "eq"
	case hclsyntax.OpNotEqual:
		return "ne"
	case hclsyntax.OpGreaterThan:
		return "gt"
	case hclsyntax.OpGreaterThanOrEqual:
		return "ge"
	case hclsyntax.OpLessThan:
		return "lt"
	case hclsyntax.OpLessThanOrEqual:
		return "le"
	case hclsyntax.OpAdd:
		return "add"
	case hclsyntax.OpSubtract:
		return "sub"
	case hclsyntax.OpMultiply:
		return "mul"
	case hclsyntax.OpDivide:
		return "div"
	case hclsyntax.OpModulo:
		return "mod"
	case hclsyntax.OpNegate:
		return "neg"
	}
	return "?op"
}

func RatString(f *big.Float) string {
	if f.IsInf() {
		if f.Sign() > 0 {
			return "+inf"
		}
		return "-inf"
	}
	r, _ := f.Rat(nil)
	if r == nil {
		return "?"
	}
	if r.IsInt() {
		return r.Num().String()
	}
	return r.Num().String() + "/" + r.Denom().String()
}

func HexAtom(s string) string { return fmt.Sprintf("#%x", s) }

// DumpVal prints a cty value canonically: type-tagged, sets/maps sorted, marks as
// sorted label lists, unknowns with their refinements.
func DumpVal(v cty.Value) string {
	if v == cty.NilVal {
		return "(nilval)"
	}
	if v.IsMarked() {
		u, m := v.Unmark()
		var ls []string
		for k := range m {
			ls = append(ls, fmt.Sprintf("%v", k))
		}
		sort.Strings(ls)
		return "(mark (" + strings.Join(ls, " ") + ") " + DumpVal(u) + ")"
	}
	ty := v.Type()
	if !v.IsKnown() {
		return "(unk " + DumpType(ty) + DumpRefinements(v) + ")"
	}
	if v.IsNull() {
		return "(null " + DumpType(ty) + ")"
	}
	switch {
	case ty == cty.String:
		return "(s " + HexAtom(v.AsString()) + ")"
	case ty == cty.Number:
		return "(n " + RatString(v.AsBigFloat()) + ")"
	case ty == cty.Bool:
		if v.True() {
			return "(b t)"
		}
		return "(b f)"
	case ty.IsListType() || ty.IsSetType() || ty.IsTupleType():
		kind := "list"
		if ty.IsSetType() {
			kind = "set"
		} else if ty.IsTupleType() {
			kind = "tuple"
		}
		var parts []string
		for it := v.ElementIterator(); it.Next(); {
			_, ev := it.Element()
			parts = append(parts, DumpVal(ev))
		}
		if ty.IsSetType() {
			sort.Strings(parts)
		}
		hdr := kind
		if !ty.IsTupleType() {
			hdr += " " + DumpType(ty.ElementType())
		}
		if len(parts) == 0 {
			return "(" + hdr + ")"
		}
		return "(" + hdr + " " + strings.Join(parts, " ") + ")"
	case ty.IsMapType() || ty.IsObjectType():
		kind := "map " + DumpType(ty)
		if ty.IsObjectType() {
			kind = "obj"
		} else {
			kind = "map " + DumpType(ty.ElementType())
		}
		var parts []string
		for it := v.ElementIterator(); it.Next(); {
			kv, ev := it.Element()
			ks, _ := kv.Unmark()
			parts = append(parts, "("+HexAtom(ks.AsString())+" "+DumpVal(ev)+")")
		}
		sort.Strings(parts)
		if len(parts) == 0 {
			return "(" + kind + ")"
		}
		return "(" + kind + " " + strings.Join(parts, " ") + ")"
	case ty.IsCapsuleType():
		return "(capsule " + ty.FriendlyName() + ")"
	}
	return "(?val " + ty.FriendlyName() + ")"
}

func DumpRefinements(v cty.Value) string {
	if v.Type() == cty.DynamicPseudoType {
		return ""
	}
	Rng := v.Range()
	var parts []string
	if Rng.DefinitelyNotNull() {
		parts = append(parts, "notnull")
	}
	ty := v.Type()
	switch {
	case ty == cty.String:
		if p := Rng.StringPrefix(); p != "" {
			parts = append(parts, "(prefix "+HexAtom(p)+")")
		}
	case ty == cty.Number:
		lo, loInc := Rng.NumberLowerBound()
		hi, hiInc := Rng.NumberUpperBound()
		if lo.IsKnown() && !lo.RawEquals(cty.NegativeInfinity) {
			parts = append(parts, fmt.Sprintf("(lo %s %v)", RatString(lo.AsBigFloat()), loInc))
		}
		if hi.IsKnown() && !hi.RawEquals(cty.PositiveInfinity) {
			parts = append(parts, fmt.Sprintf("(hi %s %v)", RatString(hi.AsBigFloat()), hiInc))
		}
	case ty.IsCollectionType():
		lo := Rng.LengthLowerBound()
		hi := Rng.LengthUpperBound()
		if lo != 0 {
			parts = append(parts, fmt.Sprintf("(lenlo %d)", lo))
		}
		if hi != int(^uint(0)>>1) {
			parts = append(parts, fmt.Sprintf("(lenhi %d)", hi))
		}
	}
	if len(parts) == 0 {
		return ""
	}
	return " " + strings.Join(parts, " ")
}

func DumpType(ty cty.Type) string {
	switch {
	case ty == cty.String:
		return "str"
	case ty == cty.Number:
		return "num"
	case ty == cty.Bool:
		return "bool"
	case ty == cty.DynamicPseudoType:
		return "dyn"
	case ty.IsListType():
		return "(list " + DumpType(ty.ElementType()) + ")"
	case ty.IsSetType():
		return "(set " + DumpType(ty.ElementType()) + ")"
	case ty.IsMapType():
		return "(map " + DumpType(ty.ElementType()) + ")"
	case ty.IsTupleType():
		parts := []string{"tuple"}
		for _, e := range ty.TupleElementTypes() {
			parts = append(parts, DumpType(e))
		}
		return "(" + strings.Join(parts, " ") + ")"
	case ty.IsObjectType():
		at := ty.AttributeTypes()
		keys := make([]string, 0, len(at))
		for k := range at {
			keys = append(keys, k)
		}
		sort.Strings(keys)
		parts := []string{"obj"}
		for _, k := range keys {
			opt := ""
			if ty.AttributeOptional(k) {
				opt = "?"
			}
			parts = append(parts, "("+HexAtom(k)+opt+" "+DumpType(at[k])+")")
		}
		return "(" + strings.Join(parts, " ") + ")"
	case ty.IsCapsuleType():
		return "(capsule " + ty.FriendlyName() + ")"
	}
	return "?ty"
}

func DumpTraversal(t hcl.Traversal) string {
	var parts []string
	for _, s := range t {
		switch st := s.(type) {
		case hcl.TraverseRoot:
			parts = append(parts, "(root "+HexAtom(st.Name)+")")
		case hcl.TraverseAttr:
			parts = append(parts, "(attr "+HexAtom(st.Name)+")")
		case hcl.TraverseIndex:
			parts = append(parts, "(index "+DumpVal(st.Key)+")")
		case hcl.TraverseSplat:
			parts = append(parts, "(splat)")
		default:
			parts = append(parts, "(?step)")
		}
	}
	return strings.Join(parts, " ")
}

func DumpExpr(sb *strings.Builder, e hclsyntax.Expression) {
	switch x := e.(type) {
	case nil:
		sb.WriteString("(nil)")
	case *hclsyntax.LiteralValueExpr:
		sb.WriteString("(lit " + DumpVal(x.Val) + ")")
	case *hclsyntax.ScopeTraversalExpr:
		sb.WriteString("(trav " + DumpTraversal(x.Traversal) + ")")
	case *hclsyntax.RelativeTraversalExpr:
		sb.WriteString("(reltrav ")
		DumpExpr(sb, x.Source)
		sb.WriteString(" " + DumpTraversal(x.Traversal) + ")")
	case *hclsyntax.FunctionCallExpr:
		sb.WriteString("(call " + HexAtom(x.Name))
		if x.ExpandFinal {
			sb.WriteString(" expand")
		}
		for _, a := range x.Args {
			sb.WriteString(" ")
			DumpExpr(sb, a)
		}
		sb.WriteString(")")
	case *hclsyntax.ConditionalExpr:
		sb.WriteString("(cond ")
		DumpExpr(sb, x.Condition)
		sb.WriteString(" ")
		DumpExpr(sb, x.TrueResult)
		sb.WriteString(" ")
		DumpExpr(sb, x.FalseResult)
		sb.WriteString(")")
	case *hclsyntax.IndexExpr:
		sb.WriteString("(Idx ")
		DumpExpr(sb, x.Collection)
		sb.WriteString(" ")
		DumpExpr(sb, x.Key)
		sb.WriteString(")")
	case *hclsyntax.TupleConsExpr:
		sb.WriteString("(tuple")
		for _, a := range x.Exprs {
			sb.WriteString(" ")
			DumpExpr(sb, a)
		}
		sb.WriteString(")")
	case *hclsyntax.ObjectConsExpr:
		sb.WriteString("(objcons")
		for _, it := range x.Items {
			sb.WriteString(" (")
			DumpExpr(sb, it.KeyExpr)
			sb.WriteString(" ")
			DumpExpr(sb, it.ValueExpr)
			sb.WriteString(")")
		}
		sb.WriteString(")")
	case *hclsyntax.ObjectConsKeyExpr:
		sb.WriteString("(key ")
		if x.ForceNonLiteral {
			sb.WriteString("force ")
		}
		DumpExpr(sb, x.Wrapped)
		sb.WriteString(")")
	case *hclsyntax.ForExpr:
		sb.WriteString("(for " + HexAtom(x.KeyVar) + " " + HexAtom(x.ValVar) + " ")
		DumpExpr(sb, x.CollExpr)
		sb.WriteString(" ")
		DumpExpr(sb, x.KeyExpr)
		sb.WriteString(" ")
		DumpExpr(sb, x.ValExpr)
		sb.WriteString(" ")
		DumpExpr(sb, x.CondExpr)
		if x.Group {
			sb.WriteString(" group")
		}
		sb.WriteString(")")
	case *hclsyntax.SplatExpr:
		sb.WriteString("(splat ")
		DumpExpr(sb, x.Source)
		sb.WriteString(" ")
		DumpExpr(sb, x.Each)
		sb.WriteString(")")
	case *hclsyntax.AnonSymbolExpr:
		sb.WriteString("(anon)")
	case *hclsyntax.BinaryOpExpr:
		sb.WriteString("(binop " + OpName(x.Op) + " ")
		DumpExpr(sb, x.LHS)
		sb.WriteString(" ")
		DumpExpr(sb, x.RHS)
		sb.WriteString(")")
	case *hclsyntax.UnaryOpExpr:
		sb.WriteString("(unop " + OpName(x.Op) + " ")
		DumpExpr(sb, x.Val)
		sb.WriteString(")")
	case *hclsyntax.TemplateExpr:
		sb.WriteString("(tmpl")
		for _, p := range x.Parts {
			sb.WriteString(" ")
			DumpExpr(sb, p)
		}
		sb.WriteString(")")
	case *hclsyntax.TemplateJoinExpr:
		sb.WriteString("(join ")
		DumpExpr(sb, x.Tuple)
		sb.WriteString(")")
	case *hclsyntax.TemplateWrapExpr:
		sb.WriteString("(wrap ")
		DumpExpr(sb, x.Wrapped)
		sb.WriteString(")")
	case *hclsyntax.ParenthesesExpr:
		sb.WriteString("(paren ")
		DumpExpr(sb, x.Expression)
		sb.WriteString(")")
	case *hclsyntax.ExprSyntaxError:
		sb.WriteString("(syntaxerror)")
	default:
		fmt.Fprintf(sb, "(?expr %T)", e)
	}
}

func DumpExprS(e hclsyntax.Expression) string {
	var sb strings.Builder
	DumpExpr(&sb, e)
	return sb.String()
}

func DumpBody(sb *strings.Builder, b *hclsyntax.Body) {
	sb.WriteString("(body")
	// attributes in source order
	names := make([]string, 0, len(b.Attributes))
	for n := range b.Attributes {
		names = append(names, n)
	}
	sort.Slice(names, func(i, j int) bool {
		return b.Attributes[names[i]].SrcRange.Start.Byte < b.Attributes[names[j]].SrcRange.Start.Byte
	})
	for _, n := range names {
		sb.WriteString(" (attr " + HexAtom(n) + " ")
		DumpExpr(sb, b.Attributes[n].Expr)
		sb.WriteString(")")
	}
	for _, bl := range b.Blocks {
		sb.WriteString(" (block " + HexAtom(bl.Type) + " (")
		for i, l := range bl.Labels {
			if i > 0 {
				sb.WriteString(" ")
			}
			sb.WriteString(HexAtom(l))
		}
		sb.WriteString(") ")
		DumpBody(sb, bl.Body)
		sb.WriteString(")")
	}
	sb.WriteString(")")
}
