package hv

import (
	"flag"
	"fmt"
	"os"
)

// RunCfg are the common command-line parameters of every harness command.
type RunCfg struct {
	Seed   uint64
	N      int
	Out    string
	Replay string
	Tier   string
}

// Main parses the common flags and calls the sub-command named by os.Args[1].
func Main(commands map[string]func(cfg *RunCfg) error) {
	if len(os.Args) < 2 {
		fmt.Fprintln(os.Stderr, "usage: <harness> <cmd> [-seed N] [-n N] [-out DIR] [-replay FILE] [-tier quick|thorough]")
		os.Exit(2)
	}
	cmd := os.Args[1]
	fs := flag.NewFlagSet(cmd, flag.ExitOnError)
	cfg := &RunCfg{}
	fs.Uint64Var(&cfg.Seed, "seed", 0, "PRNG seed")
	fs.IntVar(&cfg.N, "n", 1000, "number of generated cases")
	fs.StringVar(&cfg.Out, "out", ".", "output directory")
	fs.StringVar(&cfg.Replay, "replay", "", "replay file (raw bytes of the failing input)")
	fs.StringVar(&cfg.Tier, "tier", "quick", "quick|thorough")
	fs.Parse(os.Args[2:])
	f, ok := commands[cmd]
	if !ok {
		fmt.Fprintln(os.Stderr, "unknown command", cmd)
		os.Exit(2)
	}
	if err := os.MkdirAll(cfg.Out, 0o755); err != nil {
		fmt.Fprintln(os.Stderr, err)
		os.Exit(2)
	}
	if err := f(cfg); err != nil {
		fmt.Fprintln(os.Stderr, "error:", err)
		os.Exit(2)
	}
}
