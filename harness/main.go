// hclverif: Go side of the correspondence checks. One sub-command per property.
// Every random choice derives from one PCG state seeded by -seed.
package main

import (
	"flag"
	"fmt"
	"os"
)

type runCfg struct {
	seed   uint64
	n      int
	out    string
	replay string
	tier   string
}

var commands = map[string]func(cfg *runCfg) error{}

func main() {
	if len(os.Args) < 2 {
		fmt.Fprintln(os.Stderr, "usage: hclverif <cmd> [-seed N] [-n N] [-out DIR] [-replay FILE]")
		os.Exit(2)
	}
	cmd := os.Args[1]
	fs := flag.NewFlagSet(cmd, flag.ExitOnError)
	cfg := &runCfg{}
	fs.Uint64Var(&cfg.seed, "seed", 0, "PRNG seed")
	fs.IntVar(&cfg.n, "n", 1000, "number of generated cases")
	fs.StringVar(&cfg.out, "out", ".", "output directory")
	fs.StringVar(&cfg.replay, "replay", "", "replay file")
	fs.StringVar(&cfg.tier, "tier", "quick", "quick|thorough")
	fs.Parse(os.Args[2:])
	f, ok := commands[cmd]
	if !ok {
		fmt.Fprintln(os.Stderr, "unknown command", cmd)
		os.Exit(2)
	}
	if err := os.MkdirAll(cfg.out, 0o755); err != nil {
		fmt.Fprintln(os.Stderr, err)
		os.Exit(2)
	}
	if err := f(cfg); err != nil {
		fmt.Fprintln(os.Stderr, "error:", err)
		os.Exit(2)
	}
}
