module hclverif

go 1.24.0

require (
	github.com/apparentlymart/go-textseg/v15 v15.0.0
	github.com/hashicorp/hcl/v2 v2.0.0
	github.com/zclconf/go-cty v1.16.3
	golang.org/x/text v0.31.0
)

require (
	github.com/agext/levenshtein v1.2.1 // indirect
	github.com/google/go-cmp v0.6.0 // indirect
	github.com/mitchellh/go-wordwrap v1.0.1 // indirect
	golang.org/x/mod v0.29.0 // indirect
	golang.org/x/sync v0.18.0 // indirect
	golang.org/x/tools v0.38.0 // indirect
)

replace github.com/hashicorp/hcl/v2 => /repo
