package main

// C10 — Loading a file into the writer AST and saving it loses nothing.
//
// Correspondence: hclwrite.ParseConfig on generated configurations against the
// Coq model Write/Loader.v, which is given Go's own tokens (with byte ranges)
// and the ranges of Go's native AST: flattened tokens before formatting
// (hook VerifFileTokens), tree shape (hook VerifLoadTree), accessors via the
// public API, File.Bytes().
// Direct oracle (real code only): see oracle.go and vars.go (variable references
// against an AST-derived reference, RenameVariablePrefix token check).

import (
	"fmt"
	"os"
	"path/filepath"
	"sort"

	"github.com/hashicorp/hcl/v2"
	"github.com/hashicorp/hcl/v2/hclsyntax"
	"hclverif/hv"
)

func main() { hv.Main(map[string]func(*hv.RunCfg) error{"c10": runC10}) }

var c10Corpus = []string{
	"",
	"a = 1\n",
	"a=1",
	"# c\na=1",
	"a = foo[true]\n",
	"a = foo[null]\n",
	"a = foo[ /* k */ false ].b\n",
	"b \"a$b\" {}\n",
	"b \"x%y\" \"l\" lbl {\n}\n",
	"b /*c*/ \"l\" {}\n",
	"b \"l\" /*c*/ \"m\" /*d*/ {}\n",
	"b /*c*/ {}\n",
	"b { a = 1 /* c */ }\n",
	"b { /* c */ a = 1 }\n",
	"b \"a$b\" x {\n a = foo . bar /*c*/ [ 0 ] # c\n}\n",
	"a = foo.0.bar\n",
	"a = foo.*.bar.0\nb = foo[*].bar[0][\"k\"]\n",
	"a = foo[bar.baz].qux\n",
	"a = foo[\"k\"][1][\n  2\n]\n",
	"a = [for k, v in coll.x : k => v.y if cond[0]]\n",
	"a = {for k, v in coll : k => other[k]...}\n",
	"a = \"${foo.bar}-${baz[0]}\"\n",
	"a = \"%{ if x.y }${z}%{ endif }\"\n",
	"a = <<EOT\n  ${foo.bar}\nEOT\nb = 2\n",
	"a = <<-EOT\n  ${foo[\"k\"]}\n  EOT\n",
	"a = f(x.y, z...)\n",
	"a = x ? y.z : w[0]\n",
	"a = { (k.e) = v, a.b = c }\n",
	"a = (\n  foo\n  .bar\n)\n",
	"a = (foo # c\n .bar)\n",
	"/* head */ a = 1 /* tail */ # end\nb = 2",
	"# one\n# two\n\n# three\na = 1\n\n# trailing\n",
	"a {\n  # only a comment\n}\n",
	"a {\n  b {\n    c = d.e # x\n  } # after b\n  # end\n}",
	"z = 1\ny = 2\nx {\n}\nw = 3\n",
	"\xef\xbb\xbfa = b.c\n",
	"a = foo[\"a${1}\"]\n",
	"a = foo[\"\"]\n",
	"a = foo[-1]\n",
	"a = foo[true][null].x[false]\n",
	"a = b\r\nc = d # e\r\n",
	"a = 1 /* c\n d */\n",
	"a = foo[1.5]\n",
	"a = foo[<<EOT\nk\nEOT\n]\n",
	"a = true.b\n",
	"a = null[0]\n",
}

func runC10(cfg *hv.RunCfg) error {
	rep := hv.NewReport("C10", cfg.Seed)
	rep.Rule = "hand corpus; then per generated case: 40% hv.GenConfig (grammar-directed, 4 wildness levels), 40% targeted generator (every traversal shape x every expression position x comments before/inside/after items, cmd/c10/gen.go), 10% for-scope generator (a name that is a for iterator in one place and a root-scope reference before/after/beside the for, nested and sibling fors re-using names, template for directives, object keys; cmd/c10/forscope.go), 10% byte-mutated (kept to check no panic and the nil-file contract); non-trivial = error-free parse with at least one item; distinct by SHA-256 of the input"
	r := hv.NewRng(cfg.Seed, 10)
	cf := &hv.CaseFile{Dir: cfg.Out, Name: "c10cases",
		Imports: "From Coq Require Import String.\nFrom HclV Require Import Base.Prelude Write.Format Write.Loader Write.LoaderCheck.",
		Ctype:   "case", Checker: "check_load_cases"}

	var srcs []string
	forScopeSrc := map[string]bool{} // inputs made by the for-scope generator (also mutated ones)
	if cfg.Replay != "" {
		b, err := os.ReadFile(cfg.Replay)
		if err != nil {
			return err
		}
		srcs = []string{string(b)}
	} else {
		srcs = append(srcs, c10Corpus...)
		srcs = append(srcs, c10ScopeCorpus...)
		if extra, err := filepath.Glob("/verif/corpus/C10/*.hcl"); err == nil {
			for _, p := range extra {
				if b, err := os.ReadFile(p); err == nil {
					srcs = append(srcs, string(b))
				}
			}
		}
		for i := 0; i < cfg.N; i++ {
			var s string
			var feat map[string]int
			switch x := r.Intn(20); {
			case x < 8:
				s, feat = hv.GenConfig(r)
				rep.Hist("gen:GenConfig")
			case x < 16:
				s, feat = genTargeted(r)
				rep.Hist("gen:targeted")
			case x < 18:
				s, feat = genForScope(r)
				rep.Hist("gen:forscope")
			default:
				switch r.Intn(5) {
				case 0, 1:
					s, feat = hv.GenConfig(r)
				case 2, 3:
					s, feat = genTargeted(r)
				default:
					s, feat = genForScope(r)
				}
				s = hv.Mutate(r, s)
				rep.Hist("gen:mutated")
			}
			for k, v := range feat {
				rep.Histogram["feat:"+k] += v
			}
			srcs = append(srcs, s)
			if feat["fs:for-tuple"]+feat["fs:for-object"] > 0 {
				forScopeSrc[s] = true
			}
		}
	}
	for _, s := range srcs {
		src := []byte(s)
		var nativeBody *hclsyntax.Body
		nf, diags := hclsyntax.ParseConfig(src, "t.hcl", hcl.InitialPos)
		if !diags.HasErrors() {
			nativeBody = nf.Body.(*hclsyntax.Body)
			rep.Hist("input:valid")
			if forScopeSrc[s] {
				rep.Hist("input:valid-forscope")
			}
		} else {
			rep.Hist("input:has-parse-errors")
		}
		o := observe(src)
		cf.Add(c10Case(src, nativeBody, o, rep.Histogram))
		rep.Idx(s)
		rep.Count(s, nativeBody != nil && len(nativeBody.Attributes)+len(nativeBody.Blocks) > 0)
		if len(s) < 100 && nativeBody != nil {
			rep.Sample(s)
		}
		fails := c10Oracle(src, nativeBody, o)
		// variable references against an AST-derived reference (vars.go)
		vfails, vfeats := c10VarsOracle(src, nativeBody, o)
		fails = append(fails, vfails...)
		vkeys := make([]string, 0, len(vfeats))
		for k := range vfeats {
			vkeys = append(vkeys, k)
		}
		sort.Strings(vkeys)
		for _, k := range vkeys {
			rep.Hist(k)
		}
		if len(fails) == 0 {
			rep.Hist("oracle-ok")
		}
		for _, f := range fails {
			rep.Fail(hv.Failure{Kind: f.kind, Detail: f.detail, Input: s})
			rep.Hist("oracle-fail:" + f.kind)
		}
	}
	names, err := cf.Flush(150)
	if err != nil {
		return err
	}
	rep.CaseFiles = names
	if err := rep.Write(cfg.Out); err != nil {
		return err
	}
	fmt.Fprintf(os.Stderr, "c10: %d cases, %d oracle failures recorded\n", rep.Evaluations, len(rep.Failures))
	return nil
}
