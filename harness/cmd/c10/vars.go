package main

// Variable-reference oracle for C10, independent of hclsyntax.Variables (the
// walker hclwrite's loader relies on):
//
//   - refVars computes, from the native AST alone and with its OWN scope
//     handling, the root-scope variable references of an expression, as an
//     ordered list of (source byte range, root name);
//   - the tree side is read through the public hclwrite API
//     (Attribute.Expr().Variables(), Traversal.BuildTokens) and positioned in
//     the source by the identity of the token objects in the file's token list;
//   - RenameVariablePrefix is run on a freshly loaded tree for every root name
//     (and some two-step prefixes, and for-iterator names) and must change
//     exactly the identifier tokens of the reference traversals that have the
//     prefix, and no other token of the file.
//
// Scope rules of the HCL native syntax, written out here on purpose:
//   for expressions: KeyVar/ValVar are local in KeyExpr, ValExpr and CondExpr,
//     NOT in CollExpr; an inner for shadows, and the names are free again
//     after the closing bracket; template %{for} directives are for
//     expressions under a TemplateJoinExpr;
//   splat: the anonymous symbol is not a variable;
//   object constructor: a key that is a bare identifier (no parentheses) is a
//     literal name, not a reference; `(k)`, `"${k}"` and `a.b` are walked;
//   function names are not variables; only the traversal ROOT decides.

import (
	"bytes"
	"fmt"
	"sort"
	"strings"

	"github.com/hashicorp/hcl/v2"
	"github.com/hashicorp/hcl/v2/hclsyntax"
	"github.com/hashicorp/hcl/v2/hclwrite"
)

type scopeEnv struct {
	names  map[string]bool
	parent *scopeEnv
}

func (s *scopeEnv) bound(n string) bool {
	for e := s; e != nil; e = e.parent {
		if e.names[n] {
			return true
		}
	}
	return false
}

type forInfo struct {
	names      []string
	rng, coll  hcl.Range
	shadowing  bool // binds a name an enclosing for already binds
	inTemplate bool
}

type refWalker struct {
	out     []hcl.Traversal
	fors    []forInfo
	locals  int      // references resolved to a for iterator
	unknown []string // node types this walker does not know
}

func travRange(t hcl.Traversal) hcl.Range {
	return hcl.Range{Start: t[0].SourceRange().Start, End: t[len(t)-1].SourceRange().End}
}

func (w *refWalker) walk(e hclsyntax.Expression, env *scopeEnv, inTemplate bool) {
	switch n := e.(type) {
	case nil:
	case *hclsyntax.LiteralValueExpr, *hclsyntax.AnonSymbolExpr, *hclsyntax.ExprSyntaxError:
	case *hclsyntax.ScopeTraversalExpr:
		if len(n.Traversal) == 0 {
			return
		}
		root, ok := n.Traversal[0].(hcl.TraverseRoot)
		if !ok {
			w.unknown = append(w.unknown, "ScopeTraversalExpr without root step")
			return
		}
		if env.bound(root.Name) {
			w.locals++
			return
		}
		w.out = append(w.out, n.Traversal)
	case *hclsyntax.ParenthesesExpr:
		w.walk(n.Expression, env, inTemplate)
	case *hclsyntax.RelativeTraversalExpr:
		w.walk(n.Source, env, inTemplate)
	case *hclsyntax.FunctionCallExpr:
		for _, a := range n.Args {
			w.walk(a, env, inTemplate)
		}
	case *hclsyntax.ConditionalExpr:
		w.walk(n.Condition, env, inTemplate)
		w.walk(n.TrueResult, env, inTemplate)
		w.walk(n.FalseResult, env, inTemplate)
	case *hclsyntax.IndexExpr:
		w.walk(n.Collection, env, inTemplate)
		w.walk(n.Key, env, inTemplate)
	case *hclsyntax.TupleConsExpr:
		for _, x := range n.Exprs {
			w.walk(x, env, inTemplate)
		}
	case *hclsyntax.ObjectConsExpr:
		for _, it := range n.Items {
			w.walk(it.KeyExpr, env, inTemplate)
			w.walk(it.ValueExpr, env, inTemplate)
		}
	case *hclsyntax.ObjectConsKeyExpr:
		if !n.ForceNonLiteral {
			if st, ok := n.Wrapped.(*hclsyntax.ScopeTraversalExpr); ok && len(st.Traversal) == 1 {
				return // bare identifier: a literal key
			}
		}
		w.walk(n.Wrapped, env, inTemplate)
	case *hclsyntax.ForExpr:
		w.walk(n.CollExpr, env, inTemplate)
		fi := forInfo{rng: n.SrcRange, coll: n.CollExpr.Range(), inTemplate: inTemplate}
		child := &scopeEnv{names: map[string]bool{}, parent: env}
		for _, v := range []string{n.KeyVar, n.ValVar} {
			if v != "" {
				if env.bound(v) {
					fi.shadowing = true
				}
				child.names[v] = true
				fi.names = append(fi.names, v)
			}
		}
		w.fors = append(w.fors, fi)
		w.walk(n.KeyExpr, child, inTemplate)
		w.walk(n.ValExpr, child, inTemplate)
		w.walk(n.CondExpr, child, inTemplate)
	case *hclsyntax.SplatExpr:
		w.walk(n.Source, env, inTemplate)
		w.walk(n.Each, env, inTemplate)
	case *hclsyntax.BinaryOpExpr:
		w.walk(n.LHS, env, inTemplate)
		w.walk(n.RHS, env, inTemplate)
	case *hclsyntax.UnaryOpExpr:
		w.walk(n.Val, env, inTemplate)
	case *hclsyntax.TemplateExpr:
		for _, p := range n.Parts {
			w.walk(p, env, true)
		}
	case *hclsyntax.TemplateJoinExpr:
		w.walk(n.Tuple, env, true)
	case *hclsyntax.TemplateWrapExpr:
		w.walk(n.Wrapped, env, true)
	default:
		// a typed nil inside an interface (e.g. (*ForExpr).KeyExpr == nil is an
		// untyped nil and is handled above) or a node type added to hclsyntax
		w.unknown = append(w.unknown, fmt.Sprintf("%T", e))
	}
}

// refVars: the root-scope references of e, in source order.
func refVars(e hclsyntax.Expression) (*refWalker, []hcl.Traversal) {
	w := &refWalker{}
	w.walk(e, nil, false)
	out := append([]hcl.Traversal(nil), w.out...)
	sort.SliceStable(out, func(i, j int) bool {
		return travRange(out[i]).Start.Byte < travRange(out[j]).Start.Byte
	})
	return w, out
}

// refVarsOrNative is what the Coq case is given as the native expression's
// traversals: the independent computation (dump.go), so that the loader model
// is not fed by the walker under test.
func refVarsOrNative(e hclsyntax.Expression) []hcl.Traversal {
	w, out := refVars(e)
	if len(w.unknown) > 0 {
		return e.Variables()
	}
	return out
}

// scopeFeatures: which for-scope situations an expression exercises (evidence
// histogram; once per case and label).
func scopeFeatures(w *refWalker, refs []hcl.Traversal, feats map[string]bool) {
	if len(w.fors) > 0 {
		feats["vars:has-for"] = true
	}
	if w.locals > 0 {
		feats["vars:iterator-use-inside-for"] = true
	}
	seen := map[string]int{}
	for _, f := range w.fors {
		if f.shadowing {
			feats["vars:nested-for-shadows-name"] = true
		}
		if f.inTemplate {
			feats["vars:template-for-directive"] = true
		}
		for _, n := range f.names {
			seen[n]++
			if seen[n] > 1 {
				feats["vars:iterator-name-reused-by-another-for"] = true
			}
		}
	}
	for _, t := range refs {
		r := travRange(t)
		name := t.RootName()
		for _, f := range w.fors {
			is := false
			for _, n := range f.names {
				if n == name {
					is = true
				}
			}
			if !is {
				continue
			}
			pos := "inside-other-scope"
			switch {
			case r.Start.Byte >= f.rng.End.Byte:
				pos = "after-for"
			case r.End.Byte <= f.rng.Start.Byte:
				pos = "before-for"
			case r.Start.Byte >= f.coll.Start.Byte && r.End.Byte <= f.coll.End.Byte:
				pos = "in-coll-of-for"
			}
			feats["vars:root-ref-named-as-iterator:"+pos] = true
			if f.inTemplate && pos == "after-for" {
				feats["vars:root-ref-named-as-iterator:after-template-for"] = true
			}
		}
	}
}

type refSig struct {
	start, end int
	root       string
}

func (s refSig) String() string { return fmt.Sprintf("%s@[%d,%d)", s.root, s.start, s.end) }

func sigsOf(ts []hcl.Traversal) []refSig {
	out := make([]refSig, len(ts))
	for i, t := range ts {
		r := travRange(t)
		out[i] = refSig{r.Start.Byte, r.End.Byte, t.RootName()}
	}
	return out
}

func sigsEqual(a, b []refSig) bool {
	if len(a) != len(b) {
		return false
	}
	for i := range a {
		if a[i] != b[i] {
			return false
		}
	}
	return true
}

// alignTreeTokens maps every token of the loaded tree to the index of the
// source token it was made from (same type and bytes, same order); ok=false
// when the tree's tokens are not a subsequence of the source's (reported by the
// token oracle, positions are meaningless then).
func alignTreeTokens(tree hclwrite.Tokens, src hclsyntax.Tokens) (map[*hclwrite.Token]int, bool) {
	m := make(map[*hclwrite.Token]int, len(tree))
	j := 0
	for _, t := range tree {
		for j < len(src) && !(src[j].Type == t.Type && bytes.Equal(src[j].Bytes, t.Bytes)) {
			j++
		}
		if j == len(src) {
			return nil, false
		}
		m[t] = j
		j++
	}
	return m, true
}

// treeSigs positions the traversals a loaded expression exposes.
func treeSigs(e *hclwrite.Expression, pos map[*hclwrite.Token]int, src hclsyntax.Tokens) ([]refSig, error) {
	var out []refSig
	for _, t := range e.Variables() {
		toks := t.BuildTokens(nil)
		if len(toks) == 0 {
			return nil, fmt.Errorf("a traversal without tokens")
		}
		first, ok1 := pos[toks[0]]
		last, ok2 := pos[toks[len(toks)-1]]
		if !ok1 || !ok2 {
			return nil, fmt.Errorf("traversal token %q is not a token of the file", toks[0].Bytes)
		}
		root := ""
		for _, tok := range toks {
			if tok.Type == hclsyntax.TokenIdent {
				root = string(tok.Bytes)
				break
			}
		}
		out = append(out, refSig{src[first].Range.Start.Byte, src[last].Range.End.Byte, root})
	}
	return out, nil
}

type attrRefs struct {
	path string
	refs []hcl.Traversal
}

// identTokenIn: index of the single identifier token inside r.
func identTokenIn(src hclsyntax.Tokens, r hcl.Range) int {
	found := -1
	for i, t := range src {
		if t.Type == hclsyntax.TokenIdent && t.Range.Start.Byte >= r.Start.Byte && t.Range.End.Byte <= r.End.Byte {
			if found >= 0 {
				return -1
			}
			found = i
		}
	}
	return found
}

func stepName(s hcl.Traverser) (string, bool) {
	switch ts := s.(type) {
	case hcl.TraverseRoot:
		return ts.Name, true
	case hcl.TraverseAttr:
		return ts.Name, true
	}
	return "", false
}

func hasPrefix(t hcl.Traversal, p []string) bool {
	if len(t) < len(p) {
		return false
	}
	for i, n := range p {
		if sn, ok := stepName(t[i]); !ok || sn != n {
			return false
		}
	}
	return true
}

func renameAll(b *hclwrite.Body, search, repl []string) {
	names := make([]string, 0)
	attrs := b.Attributes()
	for n := range attrs {
		names = append(names, n)
	}
	sort.Strings(names)
	for _, n := range names {
		attrs[n].Expr().RenameVariablePrefix(search, repl)
	}
	for _, bl := range b.Blocks() {
		renameAll(bl.Body(), search, repl)
	}
}

// checkRename: on a fresh load, RenameVariablePrefix(search -> repl) in every
// attribute must change exactly the expected identifier tokens.
func checkRename(src []byte, srcToks hclsyntax.Tokens, all []attrRefs, search []string) (f *fail) {
	defer func() {
		if r := recover(); r != nil {
			f = &fail{"rename-prefix-wrong-tokens", fmt.Sprintf("RenameVariablePrefix(%q) panicked: %v", search, r)}
		}
	}()
	repl := make([]string, len(search))
	for i, s := range search {
		repl[i] = "zq" + fmt.Sprint(i) + "_" + s
	}
	want := map[int]string{} // source token index -> new bytes
	for _, a := range all {
		for _, t := range a.refs {
			if !hasPrefix(t, search) {
				continue
			}
			for i := range search {
				k := identTokenIn(srcToks, t[i].SourceRange())
				if k < 0 {
					return &fail{"c10-ref-walker-unknown-node", fmt.Sprintf("no single identifier token in step %d of %s", i, sigsOf([]hcl.Traversal{t})[0])}
				}
				want[k] = repl[i]
			}
		}
	}
	f2, diags := hclwrite.ParseConfig(src, "t.hcl", hcl.InitialPos)
	if f2 == nil {
		return &fail{"rename-prefix-wrong-tokens", "second load failed: " + diags.Error()}
	}
	before := hclwrite.VerifFileTokens(f2)
	pos, ok := alignTreeTokens(before, srcToks)
	if !ok {
		return nil
	}
	type snap struct {
		ty hclsyntax.TokenType
		b  string
	}
	snaps := make([]snap, len(before))
	for i, t := range before {
		snaps[i] = snap{t.Type, string(t.Bytes)}
	}
	renameAll(f2.Body(), search, repl)
	after := hclwrite.VerifFileTokens(f2)
	if len(after) != len(before) {
		return &fail{"rename-prefix-wrong-tokens", fmt.Sprintf("RenameVariablePrefix(%q): %d tokens before, %d after", search, len(before), len(after))}
	}
	var missed, extra []string
	for i, t := range after {
		k := pos[before[i]] // by index: the tree has the same number of tokens as before
		w, expect := want[k]
		changed := t.Type != snaps[i].ty || string(t.Bytes) != snaps[i].b
		switch {
		case expect && (string(t.Bytes) != w || t.Type != hclsyntax.TokenIdent):
			missed = append(missed, fmt.Sprintf("%q at byte %d (now %q)", snaps[i].b, srcToks[k].Range.Start.Byte, t.Bytes))
		case !expect && changed:
			extra = append(extra, fmt.Sprintf("%q at byte %d became %q", snaps[i].b, srcToks[k].Range.Start.Byte, t.Bytes))
		}
		delete(want, k)
	}
	for k := range want {
		missed = append(missed, fmt.Sprintf("token at byte %d not in the tree", srcToks[k].Range.Start.Byte))
	}
	sort.Strings(missed)
	if len(missed) > 0 || len(extra) > 0 {
		return &fail{"rename-prefix-wrong-tokens", fmt.Sprintf("RenameVariablePrefix(%q -> %q): root-scope references not renamed: %v; tokens renamed that are not such references: %v", search, repl, missed, extra)}
	}
	return nil
}

func collectAttrRefs(src []byte, wb *hclwrite.Body, nb *hclsyntax.Body, path string, pos map[*hclwrite.Token]int,
	srcToks hclsyntax.Tokens, all *[]attrRefs, iters *[]string, feats map[string]bool, out *[]fail) {
	var wattrs map[string]*hclwrite.Attribute
	if wb != nil {
		wattrs = wb.Attributes()
	}
	for _, na := range nativeAttrsInOrder(nb) {
		w, refs := refVars(na.Expr)
		if len(w.unknown) > 0 {
			*out = append(*out, fail{"c10-ref-walker-unknown-node", fmt.Sprintf("%sattribute %q: %v", path, na.Name, w.unknown)})
			continue
		}
		scopeFeatures(w, refs, feats)
		for _, f := range w.fors {
			*iters = append(*iters, f.names...)
		}
		*all = append(*all, attrRefs{path + na.Name, refs})
		want := sigsOf(refs)
		if len(want) > 0 {
			feats["vars:attr-with-refs"] = true
		}
		nat := sigsOf(na.Expr.Variables())
		wa, ok := wattrs[na.Name]
		if !ok || pos == nil {
			if !sigsEqual(nat, want) {
				*out = append(*out, fail{"variable-refs-differ-from-ast", fmt.Sprintf("%sattribute %q: references by the AST %v, hclsyntax.Variables %v", path, na.Name, want, nat)})
			}
			continue
		}
		got, err := treeSigs(wa.Expr(), pos, srcToks)
		if err != nil {
			*out = append(*out, fail{"variable-refs-differ-from-ast", fmt.Sprintf("%sattribute %q: %v", path, na.Name, err)})
			continue
		}
		if !sigsEqual(got, want) {
			*out = append(*out, fail{"variable-refs-differ-from-ast", fmt.Sprintf("%sattribute %q = %s: root-scope references by the AST %v, exposed by the tree %v (hclsyntax.Variables %v)",
				path, na.Name, strings.TrimSpace(string(na.Expr.Range().SliceBytes(src))), want, got, nat)})
		}
	}
	var wblocks []*hclwrite.Block
	if wb != nil {
		wblocks = wb.Blocks()
	}
	for i, nbl := range nb.Blocks {
		var cb *hclwrite.Body
		if i < len(wblocks) && len(wblocks) == len(nb.Blocks) {
			cb = wblocks[i].Body()
		}
		collectAttrRefs(src, cb, nbl.Body, fmt.Sprintf("%s%s[%d].", path, nbl.Type, i), pos, srcToks, all, iters, feats, out)
	}
}

const maxRenameProbes = 8

// c10VarsOracle: the tree exposes exactly the root-scope variable references
// of the source, and RenameVariablePrefix reaches exactly those.
func c10VarsOracle(src []byte, nativeBody *hclsyntax.Body, o observed) (out []fail, feats map[string]bool) {
	feats = map[string]bool{}
	if nativeBody == nil || o.file == nil || o.panicked != nil {
		return nil, feats
	}
	defer func() {
		if r := recover(); r != nil {
			out = append(out, fail{"panic", fmt.Sprintf("variable accessors: %v", r)})
		}
	}()
	srcToks := lexToks(src)
	pos, ok := alignTreeTokens(hclwrite.VerifFileTokens(o.file), srcToks)
	if !ok {
		pos = nil
		feats["vars:tree-tokens-not-aligned"] = true
	}
	var all []attrRefs
	var iters []string
	collectAttrRefs(src, o.file.Body(), nativeBody, "", pos, srcToks, &all, &iters, feats, &out)

	// rename probes: every root name, for-iterator names, two-step prefixes
	var probes [][]string
	seen := map[string]bool{}
	add := func(p ...string) {
		k := strings.Join(p, "\x00")
		if !seen[k] && len(probes) < maxRenameProbes {
			seen[k] = true
			probes = append(probes, p)
		}
	}
	for _, n := range iters {
		add(n)
	}
	two := 0
	for _, a := range all {
		for _, t := range a.refs {
			add(t.RootName())
			if len(t) > 1 && two < 2 {
				if n, ok := stepName(t[1]); ok {
					two++
					add(t.RootName(), n)
				}
			}
		}
	}
	for _, p := range probes {
		if f := checkRename(src, srcToks, all, p); f != nil {
			out = append(out, *f)
			break
		}
		feats["vars:rename-probe-ok"] = true
	}
	return out, feats
}
