package main

// Targeted generator for C10: every traversal shape in every expression
// position, with comments before, inside and after items.

import (
	"fmt"
	"strings"

	"hclverif/hv"
)

type tgen struct {
	r    *hv.Rng
	feat map[string]int
	wild float64
}

func (g *tgen) f(k string) { g.feat[k]++ }

var tNames = []string{"foo", "bar", "a", "b_1", "x-y", "ünï", "var", "each", "true1", "nullx"}

func (g *tgen) name() string { return tNames[g.r.Intn(len(tNames))] }

// gap between two tokens where newlines are insignificant iff nl
func (g *tgen) gap(nl bool) string {
	if !g.r.Chance(g.wild) {
		return ""
	}
	switch g.r.Intn(6) {
	case 0:
		return " "
	case 1:
		return "  \t"
	case 2:
		g.f("t:inline-comment-in-traversal")
		return " /* c */ "
	case 3:
		if nl {
			g.f("t:newline-in-traversal")
			return "\n  "
		}
		return " "
	case 4:
		if nl {
			g.f("t:line-comment-in-traversal")
			return g.r.Pick(" # c\n", " // c\n")
		}
		return "/**/"
	default:
		return " "
	}
}

// one traversal; nl says whether newlines between steps are legal here
func (g *tgen) traversal(nl bool, depth int) string {
	var sb strings.Builder
	sb.WriteString(g.name())
	n := 1 + g.r.Small(4)
	if g.r.Chance(0.1) {
		n = 0
	}
	for i := 0; i < n; i++ {
		sb.WriteString(g.gap(nl))
		switch g.r.Intn(13) {
		case 0, 1:
			g.f("t:step-attr")
			sb.WriteString("." + g.gap(nl) + g.name())
		case 2:
			g.f("t:step-index-string")
			sb.WriteString("[" + g.gap(true) + `"` + g.r.Pick("k", "a b", "", "x.y", `q\"q`, "ü", "a]b") + `"` + g.gap(true) + "]")
		case 3:
			g.f("t:step-index-number")
			sb.WriteString("[" + g.gap(true) + g.r.Pick("0", "1", "42", "1.5", "1e2") + g.gap(true) + "]")
		case 4:
			g.f("t:step-index-bool")
			sb.WriteString("[" + g.gap(true) + g.r.Pick("true", "false") + g.gap(true) + "]")
		case 5:
			g.f("t:step-index-null")
			sb.WriteString("[" + g.gap(true) + "null" + g.gap(true) + "]")
		case 6:
			g.f("t:step-legacy-index")
			sb.WriteString("." + g.gap(nl) + g.r.Pick("0", "1", "12"))
		case 7:
			g.f("t:step-attr-splat")
			sb.WriteString(".*")
			for k := g.r.Small(2); k > 0; k-- {
				sb.WriteString(g.r.Pick("."+g.name(), ".0"))
			}
		case 8:
			g.f("t:step-full-splat")
			sb.WriteString("[*]")
		case 9:
			if depth < 2 {
				g.f("t:step-index-expr")
				sb.WriteString("[" + g.gap(true) + g.traversal(true, depth+1) + g.gap(true) + "]")
			} else {
				sb.WriteString("[0]")
			}
		case 10:
			g.f("t:step-index-heredoc-or-template")
			sb.WriteString(g.r.Pick(`["a${"b"}"]`, `["${k}"]`, "[\"k\"\n]"))
		case 11:
			g.f("t:step-index-unary")
			sb.WriteString(g.r.Pick("[-1]", "[!true]", "[(1)]", "[(null)]"))
		default:
			g.f("t:step-attr")
			sb.WriteString("." + g.name())
		}
	}
	return sb.String()
}

// an expression with traversals in a given position
func (g *tgen) expr(depth int) string {
	T := func(nl bool) string { return g.traversal(nl, depth) }
	sub := func() string {
		if depth < 2 && g.r.Chance(0.3) {
			return g.expr(depth + 1)
		}
		return g.traversal(true, depth)
	}
	choice := g.r.Intn(16)
	if depth >= 2 {
		choice = 0
	}
	switch choice {
	case 0:
		g.f("p:bare")
		return T(depth > 0)
	case 1:
		g.f("p:tuple")
		return "[" + g.gap(true) + sub() + "," + g.gap(true) + sub() + g.gap(true) + "]"
	case 2:
		g.f("p:object")
		return "{ k = " + T(false) + ", (" + sub() + ") = " + T(false) + " }"
	case 3:
		g.f("p:object-multiline")
		return "{\n    k = " + T(false) + " # c\n    " + g.name() + "." + g.name() + " = " + T(false) + "\n  }"
	case 4:
		g.f("p:call")
		return g.r.Pick("f", "ns::g") + "(" + g.gap(true) + sub() + "," + g.gap(true) + sub() + g.r.Pick("", "...", ",") + ")"
	case 5:
		g.f("p:conditional")
		return T(false) + " ? " + T(false) + " : " + T(false)
	case 6:
		g.f("p:template-interp")
		return `"x${` + g.gap(true) + sub() + g.gap(true) + `}y$${z}${` + T(true) + `}"`
	case 7:
		g.f("p:template-if-for")
		return `"%{ if ` + T(true) + ` }${` + T(true) + `}%{ else }b%{ endif }%{ for v in ` + T(true) + ` }${v.` + g.name() + `}${` + T(true) + `}%{ endfor }"`
	case 8:
		g.f("p:for-tuple")
		return "[for v in " + sub() + " : " + g.r.Pick("v", "v.x", T(true)) + g.r.Pick("", " if "+T(true)) + "]"
	case 9:
		g.f("p:for-object")
		return "{for k, v in " + sub() + " : " + g.r.Pick("k", T(true)) + " => " + g.r.Pick("v", T(true)) + g.r.Pick("", "...") + g.r.Pick("", " if "+T(true)) + "}"
	case 10:
		g.f("p:paren")
		return "(" + g.gap(true) + sub() + g.gap(true) + ")" + g.r.Pick("", "."+g.name(), "[0]", "[true]")
	case 11:
		g.f("p:unary-binary")
		return g.r.Pick("-", "!", "") + T(false) + " " + g.r.Pick("+", "==", "&&", "*") + " " + T(false)
	case 12:
		g.f("p:heredoc")
		return "<<" + g.r.Pick("", "-") + "EOT\n  a ${" + T(true) + "} b\n  %{ if " + T(true) + " }x%{ endif }\n  EOT"
	case 13:
		g.f("p:index-of-call")
		return "f(" + T(true) + ")[" + T(true) + "]." + g.name()
	case 14:
		g.f("p:splat-source")
		return "[" + T(true) + "][*]." + g.name() + "[" + g.r.Pick("0", "true", `"k"`, T(true)) + "]"
	default:
		g.f("p:bare")
		return T(false)
	}
}

func (g *tgen) lead(sb *strings.Builder, ind string) {
	for g.r.Chance(0.25) {
		g.f("c:lead-comment")
		sb.WriteString(ind + g.r.Pick("# lead\n", "// lead\n", "/* lead */\n", "/* two\n lines */\n", "#\n"))
	}
	if g.r.Chance(0.05) {
		g.f("c:inline-lead-comment")
		sb.WriteString(ind + "/* l */ ")
	} else {
		sb.WriteString(ind)
	}
}

func (g *tgen) lineEnd(sb *strings.Builder, last bool) {
	switch g.r.Intn(8) {
	case 0:
		g.f("c:line-comment")
		sb.WriteString(g.r.Pick(" # end\n", " // end\n", "#\n"))
	case 1:
		g.f("c:inline-then-newline")
		sb.WriteString(" /* end */\n")
	case 2:
		g.f("c:inline-then-line-comment")
		sb.WriteString(" /* a */ /* b */ # end\n")
	case 3:
		if last {
			g.f("c:eof-without-newline")
			sb.WriteString(g.r.Pick("", " /* eof */"))
			return
		}
		sb.WriteString("\n")
	case 4:
		sb.WriteString("\r\n")
	default:
		sb.WriteString("\n")
	}
}

func (g *tgen) label() string {
	return g.r.Pick(`"l"`, `"a b"`, "lbl", `""`, `"a$b"`, `"p%q"`, `"$"`, `"q\"q"`, `"x.y"`, `"ü"`, `"$${a}"`, `"a%%{b"`)
}

func (g *tgen) attr(sb *strings.Builder, ind string, last bool) {
	g.lead(sb, ind)
	g.f("i:attr")
	sb.WriteString(fmt.Sprintf("%s%s=%s", g.name()+fmt.Sprint(g.r.Intn(1000)), g.r.Pick(" ", "", " /* n */ ", "  "), g.r.Pick(" ", "", " /* e */ ")))
	sb.WriteString(g.expr(0))
	g.lineEnd(sb, last)
}

func (g *tgen) block(sb *strings.Builder, level int, last bool) {
	ind := strings.Repeat("  ", level)
	g.lead(sb, ind)
	g.f("i:block")
	sb.WriteString(g.name())
	nl := g.r.Small(3)
	for i := 0; i < nl; i++ {
		if g.r.Chance(0.15) {
			g.f("c:comment-before-label")
			if i == 0 {
				g.f("c:comment-before-first-label")
			}
			sb.WriteString(" /* k */")
		}
		sb.WriteString(" " + g.label())
	}
	if g.r.Chance(0.1) {
		g.f("c:comment-before-open-brace")
		sb.WriteString(" /* o */")
	}
	sb.WriteString(" {")
	switch g.r.Intn(6) {
	case 0:
		g.f("i:empty-block")
		sb.WriteString("}")
	case 1, 2:
		g.f("i:oneline-block")
		sb.WriteString(g.r.Pick(" ", " /* i */ ") + g.name() + " = " + g.traversal(false, 1) + g.r.Pick(" ", " /* j */ ") + "}")
	default:
		if g.r.Chance(0.2) {
			g.f("c:comment-after-open-brace")
			sb.WriteString(g.r.Pick(" # open\n", " /* open */\n"))
		} else {
			sb.WriteString("\n")
		}
		n := g.r.Small(3)
		for i := 0; i < n; i++ {
			if level < 2 && g.r.Chance(0.3) {
				g.block(sb, level+1, false)
			} else {
				g.attr(sb, ind+"  ", false)
			}
			if g.r.Chance(0.1) {
				sb.WriteString("\n")
			}
		}
		if g.r.Chance(0.15) {
			g.f("c:trailing-comment-in-body")
			sb.WriteString(ind + "  # trailing\n")
		}
		sb.WriteString(ind + "}")
	}
	g.lineEnd(sb, last)
}

// genTargeted returns one configuration.
func genTargeted(r *hv.Rng) (string, map[string]int) {
	g := &tgen{r: r, feat: map[string]int{}, wild: []float64{0, 0.15, 0.4}[r.Intn(3)]}
	var sb strings.Builder
	if r.Chance(0.1) {
		g.f("c:file-header-comment")
		sb.WriteString(r.Pick("# header\n\n", "/* header */\n", "// h\n"))
	}
	n := 1 + r.Small(3)
	for i := 0; i < n; i++ {
		last := i == n-1
		if r.Chance(0.3) {
			g.block(&sb, 0, last)
		} else {
			g.attr(&sb, "", last)
		}
		if r.Chance(0.1) {
			sb.WriteString("\n")
		}
	}
	if r.Chance(0.1) {
		g.f("c:file-trailing-comment")
		sb.WriteString(r.Pick("# bye\n", "/* bye */", "\n\n# bye"))
	}
	return sb.String(), g.feat
}
