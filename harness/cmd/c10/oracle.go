package main

// Direct oracle for C10 on the real code, independent of the Coq model:
// loading does not panic; File.Bytes() == hclwrite.Format(src); re-lexing the
// bytes gives the source's (type, bytes) token sequence; the tree exposes
// every attribute, block, label and variable reference of the native parse.

import (
	"bytes"
	"fmt"
	"strings"

	"github.com/hashicorp/hcl/v2"
	"github.com/hashicorp/hcl/v2/hclsyntax"
	"github.com/hashicorp/hcl/v2/hclwrite"
	"github.com/zclconf/go-cty/cty"
)

type fail struct{ kind, detail string }

type tokSig struct {
	Type  hclsyntax.TokenType
	Bytes string
}

func lexToks(src []byte) hclsyntax.Tokens {
	toks, _ := hclsyntax.LexConfig(src, "t.hcl", hcl.InitialPos)
	return toks
}

// facts about the native parse used to classify three shapes precisely:
// "index-key-bool-null-dropped", "label-with-template-char-dropped" and
// "comment-before-first-label-dropped". They were genuine defects, repaired in
// /repo by d13351c, 984f1c6 and 1b2807b; they are ordinary failures now and
// must no longer occur.
type nativeFacts struct {
	unsupportedKeys []hcl.Range // bracket ranges of TraverseIndex steps with bool/null keys
	preLabelGaps    []hcl.Range // [TypeRange.End, LabelRanges[0].Start) of every labelled block
}

func unsupportedKey(s hcl.Traverser) bool {
	ti, ok := s.(hcl.TraverseIndex)
	if !ok {
		return false
	}
	ty := ti.Key.Type()
	return ty != cty.String && ty != cty.Number
}

func collectFacts(b *hclsyntax.Body, f *nativeFacts) {
	for _, a := range b.Attributes {
		for _, t := range a.Expr.Variables() {
			for _, s := range t {
				if unsupportedKey(s) {
					f.unsupportedKeys = append(f.unsupportedKeys, s.SourceRange())
				}
			}
		}
	}
	for _, bl := range b.Blocks {
		if len(bl.LabelRanges) > 0 {
			f.preLabelGaps = append(f.preLabelGaps, hcl.Range{Start: bl.TypeRange.End, End: bl.LabelRanges[0].Start})
		}
		collectFacts(bl.Body, f)
	}
}

// droppedTokens aligns out (a subsequence of in, if tokens were only dropped)
// and returns the source tokens that are missing; ok=false if out is not a
// subsequence of in.
func droppedTokens(in, out hclsyntax.Tokens) (dropped hclsyntax.Tokens, ok bool) {
	j := 0
	for _, t := range in {
		if j < len(out) && out[j].Type == t.Type && bytes.Equal(out[j].Bytes, t.Bytes) {
			j++
		} else {
			dropped = append(dropped, t)
		}
	}
	return dropped, j == len(out)
}

func inside(r hcl.Range, t hclsyntax.Token) bool {
	return t.Range.Start.Byte > r.Start.Byte && t.Range.End.Byte < r.End.Byte
}

// travText renders the source text of a traversal without comments/newlines;
// with dropKeys the tokens inside the brackets of bool/null keys are left out.
func travText(src []byte, t hcl.Traversal, dropKeys bool) string {
	rng := t.SourceRange()
	var sb strings.Builder
	for _, tok := range lexToks(src) {
		if tok.Range.Start.Byte < rng.Start.Byte || tok.Range.Start.Byte >= rng.End.Byte {
			continue
		}
		if tok.Type == hclsyntax.TokenComment || tok.Type == hclsyntax.TokenNewline {
			continue
		}
		skip := false
		if dropKeys {
			for _, s := range t {
				if unsupportedKey(s) && inside(s.SourceRange(), tok) {
					skip = true
				}
			}
		}
		if !skip {
			sb.Write(tok.Bytes)
		}
	}
	return sb.String()
}

func writerTravText(t *hclwrite.Traversal) string {
	var sb strings.Builder
	for _, tok := range t.BuildTokens(nil) {
		if tok.Type == hclsyntax.TokenComment || tok.Type == hclsyntax.TokenNewline {
			continue
		}
		sb.Write(tok.Bytes)
	}
	return sb.String()
}

// multiLiteralLabel: the label's source lexes into something other than an
// identifier, "" or one quoted literal.
func multiLiteralLabel(src []byte, r hcl.Range) bool {
	n := 0
	for _, tok := range lexToks(src) {
		if tok.Range.Start.Byte >= r.Start.Byte && tok.Range.Start.Byte < r.End.Byte && tok.Type != hclsyntax.TokenEOF {
			n++
		}
	}
	return n > 3
}

func compareBodies(src []byte, wb *hclwrite.Body, nb *hclsyntax.Body, path string, out *[]fail) {
	wattrs := wb.Attributes()
	for name, na := range nb.Attributes {
		wa, ok := wattrs[name]
		if !ok {
			*out = append(*out, fail{"accessor-missing-attr", fmt.Sprintf("%sattribute %q not exposed", path, name)})
			continue
		}
		nvars := na.Expr.Variables()
		wvars := wa.Expr().Variables()
		var ns, nsDrop, ws []string
		for _, t := range nvars {
			ns = append(ns, travText(src, t, false))
			nsDrop = append(nsDrop, travText(src, t, true))
		}
		for _, t := range wvars {
			ws = append(ws, writerTravText(t))
		}
		if strings.Join(ns, "\x00") != strings.Join(ws, "\x00") {
			kind := "variables-differ"
			if strings.Join(nsDrop, "\x00") == strings.Join(ws, "\x00") {
				kind = "index-key-bool-null-dropped"
			}
			*out = append(*out, fail{kind, fmt.Sprintf("%sattribute %q: native variables %q, tree variables %q", path, name, ns, ws)})
		}
	}
	if len(wattrs) != len(nb.Attributes) {
		*out = append(*out, fail{"accessor-missing-attr", fmt.Sprintf("%s%d attributes exposed, %d parsed", path, len(wattrs), len(nb.Attributes))})
	}
	wblocks := wb.Blocks()
	if len(wblocks) != len(nb.Blocks) {
		*out = append(*out, fail{"accessor-missing-block", fmt.Sprintf("%s%d blocks exposed, %d parsed", path, len(wblocks), len(nb.Blocks))})
		return
	}
	for i, nbl := range nb.Blocks {
		wbl := wblocks[i]
		p := fmt.Sprintf("%s%s[%d].", path, nbl.Type, i)
		if wbl.Type() != nbl.Type {
			*out = append(*out, fail{"accessor-missing-block", fmt.Sprintf("%stype %q exposed as %q", p, nbl.Type, wbl.Type())})
		}
		wl := wbl.Labels()
		if strings.Join(wl, "\x00") != strings.Join(nbl.Labels, "\x00") || len(wl) != len(nbl.Labels) {
			var simple []string
			for j, l := range nbl.Labels {
				if !multiLiteralLabel(src, nbl.LabelRanges[j]) {
					simple = append(simple, l)
				}
			}
			kind := "labels-differ"
			if len(simple) == len(wl) && strings.Join(simple, "\x00") == strings.Join(wl, "\x00") {
				kind = "label-with-template-char-dropped"
			}
			*out = append(*out, fail{kind, fmt.Sprintf("%slabels %q exposed as %q", p, nbl.Labels, wl)})
		}
		compareBodies(src, wbl.Body(), nbl.Body, p, out)
	}
}

// c10Oracle checks the property on the real code for one source text.
func c10Oracle(src []byte, nativeBody *hclsyntax.Body, o observed) []fail {
	if o.panicked != nil {
		return []fail{{"panic", fmt.Sprint(o.panicked)}}
	}
	if nativeBody == nil {
		// not a subject of the property (totality belongs to C15); a file must
		// not be returned for an erroneous parse
		if o.file != nil {
			return []fail{{"file-for-erroneous-input", "ParseConfig returned a file although the native parse has errors"}}
		}
		return nil
	}
	if o.file == nil {
		return []fail{{"nil-file-for-valid-input", o.diags.Error()}}
	}
	var out []fail
	var facts nativeFacts
	collectFacts(nativeBody, &facts)

	got := o.file.Bytes()
	want := hclwrite.Format(src)
	in, outToks := lexToks(src), lexToks(got)
	dropped, isSub := droppedTokens(in, outToks)
	switch {
	case !isSub:
		out = append(out, fail{"tokens-lost", "token sequence of File.Bytes() is not a subsequence of the source's"})
	case len(dropped) > 0:
		kinds := map[string]string{}
		for _, t := range dropped {
			k := "tokens-lost"
			for _, r := range facts.unsupportedKeys {
				if inside(r, t) {
					k = "index-key-bool-null-dropped"
				}
			}
			if t.Type == hclsyntax.TokenComment {
				for _, r := range facts.preLabelGaps {
					if t.Range.Start.Byte >= r.Start.Byte && t.Range.End.Byte <= r.End.Byte {
						k = "comment-before-first-label-dropped"
					}
				}
			}
			if _, dup := kinds[k]; !dup {
				kinds[k] = fmt.Sprintf("token %s %q at byte %d missing from File.Bytes()", t.Type, t.Bytes, t.Range.Start.Byte)
			}
		}
		for _, k := range []string{"tokens-lost", "index-key-bool-null-dropped", "comment-before-first-label-dropped"} {
			if d, ok := kinds[k]; ok {
				out = append(out, fail{k, d})
			}
		}
	case !bytes.Equal(got, want):
		out = append(out, fail{"bytes-differ-from-format", fmt.Sprintf("File.Bytes() %q, Format(src) %q", got, want)})
	}
	compareBodies(src, o.file.Body(), nativeBody, "", &out)
	// one failure per kind is enough
	seen := map[string]bool{}
	var uniq []fail
	for _, f := range out {
		if !seen[f.kind] {
			seen[f.kind] = true
			uniq = append(uniq, f)
		}
	}
	return uniq
}
