package main

// Printing of one C10 case as a Coq term (see Write/LoaderCheck.v):
// tokens with ranges as lexed by Go, the native AST reduced to its ranges, and
// what hclwrite.ParseConfig was observed to build.

import (
	"fmt"
	"sort"
	"strings"

	"github.com/apparentlymart/go-textseg/v15/textseg"
	"github.com/hashicorp/hcl/v2"
	"github.com/hashicorp/hcl/v2/hclsyntax"
	"github.com/hashicorp/hcl/v2/hclwrite"
	"github.com/zclconf/go-cty/cty"
	"hclverif/hv"
)

func gcount(b []byte) int {
	n, _ := textseg.TokenCount(b, textseg.ScanGraphemeClusters)
	return n
}

func coqR(r hcl.Range) string { return fmt.Sprintf("(R %d %d)", r.Start.Byte, r.End.Byte) }

// coqTokens prints the native tokens with the SpacesBefore writerTokens derives.
func coqTokens(native hclsyntax.Tokens) string {
	items := make([]string, len(native))
	last := 0
	for i, t := range native {
		items[i] = fmt.Sprintf("L %s %s %d %s %d %d", hv.CoqZ(int(t.Type)), hv.Hexs(t.Bytes), gcount(t.Bytes),
			hv.CoqZ(t.Range.Start.Byte-last), t.Range.Start.Byte, t.Range.End.Byte)
		last = t.Range.End.Byte
	}
	return hv.CoqList(items)
}

func keyKind(v cty.Value) string {
	ty := v.Type()
	switch {
	case ty == cty.String:
		return "KString"
	case ty == cty.Number:
		return "KNumber"
	case ty == cty.Bool:
		return "KBool"
	case ty == cty.DynamicPseudoType && v.IsNull():
		return "KNull"
	}
	return "KOtherKey"
}

func coqTraversal(t hcl.Traversal) string {
	steps := make([]string, len(t))
	for i, s := range t {
		var k string
		switch ts := s.(type) {
		case hcl.TraverseRoot:
			k = "SRoot"
		case hcl.TraverseAttr:
			k = "SAttr"
		case hcl.TraverseIndex:
			k = "(SIndex " + keyKind(ts.Key) + ")"
		default:
			k = "SSplat"
		}
		steps[i] = fmt.Sprintf("St %s %s", k, coqR(s.SourceRange()))
	}
	return hv.CoqList(steps)
}

func coqExpr(e hclsyntax.Expression) string {
	// the root-scope references computed from the AST by the harness (vars.go),
	// NOT e.Variables(): the loader model must expose every reference of the
	// source, so a walker that drops one shows up as a disagreement
	vars := refVarsOrNative(e)
	ts := make([]string, len(vars))
	for i, v := range vars {
		ts[i] = coqTraversal(v)
	}
	return fmt.Sprintf("(E %s %s)", coqR(e.Range()), hv.CoqList(ts))
}

// coqItems prints the items in Go's PRE-SORT order: attributes (map order is
// random in Go; here by name, which is generally not source order) then blocks.
func coqItems(b *hclsyntax.Body) string {
	names := make([]string, 0, len(b.Attributes))
	for n := range b.Attributes {
		names = append(names, n)
	}
	sort.Strings(names)
	var items []string
	for _, n := range names {
		a := b.Attributes[n]
		items = append(items, fmt.Sprintf("NAttr %s %s %s %s", coqR(a.SrcRange), coqR(a.NameRange), coqR(a.EqualsRange), coqExpr(a.Expr)))
	}
	for _, bl := range b.Blocks {
		lrs := make([]string, len(bl.LabelRanges))
		for i, r := range bl.LabelRanges {
			lrs[i] = coqR(r)
		}
		items = append(items, fmt.Sprintf("NBlock %s %s %s %s %s %s", coqR(bl.TypeRange), hv.CoqList(lrs),
			coqR(bl.OpenBraceRange), coqR(bl.CloseBraceRange), coqR(bl.Body.SrcRange), coqItems(bl.Body)))
	}
	return hv.CoqList(items)
}

func coqFile(b *hclsyntax.Body) string {
	return fmt.Sprintf("(mkFile %s %s)", coqR(b.SrcRange), coqItems(b))
}

var kindCode = map[string]int{
	"file": 0, "body": 1, "attribute": 2, "block": 3, "labels": 4, "expression": 5,
	"traversal": 6, "traverseName": 7, "traverseIndex": 8,
	"tokens": 10, "comments": 11, "identifier": 12, "number": 13, "quoted": 14, "unknown": 99,
}

func coqShape(n hclwrite.VerifLoadNode, hist map[string]int) string {
	hist["node:"+n.Kind]++
	cs := make([]string, len(n.Children))
	for i, c := range n.Children {
		cs[i] = coqShape(c, hist)
	}
	return fmt.Sprintf("Sh %d %d %s", kindCode[n.Kind], n.NTokens, hv.CoqList(cs))
}

func nativeAttrsInOrder(b *hclsyntax.Body) []*hclsyntax.Attribute {
	out := make([]*hclsyntax.Attribute, 0, len(b.Attributes))
	for _, a := range b.Attributes {
		out = append(out, a)
	}
	sort.Slice(out, func(i, j int) bool { return out[i].SrcRange.Start.Byte < out[j].SrcRange.Start.Byte })
	return out
}

// coqAccessors prints what the PUBLIC API of the loaded body exposes: the
// attributes (native source order, looked up by name), then Blocks().
func coqAccessors(wb *hclwrite.Body, nb *hclsyntax.Body) string {
	var items []string
	wattrs := wb.Attributes()
	seen := map[string]bool{}
	emit := func(name string, a *hclwrite.Attribute) {
		var vars []string
		for _, t := range a.Expr().Variables() {
			var ts []string
			for _, tok := range t.BuildTokens(nil) {
				ts = append(ts, fmt.Sprintf("(%s, %s)", hv.CoqZ(int(tok.Type)), hv.Hexs(tok.Bytes)))
			}
			vars = append(vars, hv.CoqList(ts))
		}
		items = append(items, fmt.Sprintf("OA %s %s", hv.Hexs([]byte(name)), hv.CoqList(vars)))
	}
	if nb != nil {
		for _, na := range nativeAttrsInOrder(nb) {
			if a, ok := wattrs[na.Name]; ok && !seen[na.Name] {
				seen[na.Name] = true
				emit(na.Name, a)
			}
		}
	}
	var extra []string
	for n := range wattrs {
		if !seen[n] {
			extra = append(extra, n)
		}
	}
	sort.Strings(extra)
	for _, n := range extra {
		emit(n, wattrs[n])
	}
	for i, bl := range wb.Blocks() {
		var nbody *hclsyntax.Body
		if nb != nil && i < len(nb.Blocks) {
			nbody = nb.Blocks[i].Body
		}
		var ls []string
		for _, l := range bl.Labels() {
			ls = append(ls, hv.Hexs([]byte(l)))
		}
		items = append(items, fmt.Sprintf("OB %s %s %s", hv.Hexs([]byte(bl.Type())), hv.CoqList(ls), coqAccessors(bl.Body(), nbody)))
	}
	return hv.CoqList(items)
}

// observation of the real loader on one source text
type observed struct {
	panicked any
	file     *hclwrite.File // nil: diagnostics with errors
	diags    hcl.Diagnostics
}

func observe(src []byte) (o observed) {
	defer func() {
		if r := recover(); r != nil {
			o.panicked = r
			o.file = nil
		}
	}()
	o.file, o.diags = hclwrite.ParseConfig(src, "t.hcl", hcl.InitialPos)
	return
}

// c10Case renders the Coq case. native may be nil when the native parse had errors.
func c10Case(src []byte, nativeBody *hclsyntax.Body, o observed, hist map[string]int) string {
	native, _ := hclsyntax.LexConfig(src, "t.hcl", hcl.InitialPos)
	var sb strings.Builder
	sb.WriteString("mkCase ")
	sb.WriteString(coqTokens(native))
	if nativeBody == nil {
		sb.WriteString(" None ")
	} else {
		sb.WriteString(" (Some " + coqFile(nativeBody) + ") ")
	}
	switch {
	case o.panicked != nil:
		sb.WriteString("ObsPanic")
	case o.file == nil:
		sb.WriteString("ObsNil")
	default:
		flat := hclwrite.VerifFileTokens(o.file)
		fl := make([]string, len(flat))
		for i, t := range flat {
			fl[i] = fmt.Sprintf("(%s, %s, %s)", hv.CoqZ(int(t.Type)), hv.Hexs(t.Bytes), hv.CoqZ(t.SpacesBefore))
		}
		fmt.Fprintf(&sb, "(ObsOk %s (%s) %s %s)", hv.CoqList(fl),
			coqShape(hclwrite.VerifLoadTree(o.file), hist),
			coqAccessors(o.file.Body(), nativeBody), hv.Hexs(o.file.Bytes()))
	}
	return sb.String()
}
