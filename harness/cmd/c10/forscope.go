package main

// For-scope generator for C10: expressions in which a name is a `for` iterator
// in one place and a ROOT-scope reference in another — before the for, after
// its closing bracket, in its collection expression, next to it in a tuple /
// call / binary operation / conditional / object constructor, after a template
// %{for} directive — plus nested fors and sibling fors that re-use names. All
// names of one expression come from a pool of 2-4 identifiers, so collisions
// between iterator names and root names are the normal case.

import (
	"fmt"
	"strings"

	"hclverif/hv"
)

// hand cases: iterator names that are root-scope references elsewhere
var c10ScopeCorpus = []string{
	"a = [item.pre, [for item in var.items : item.id], item.post]\n",
	"a = [for k, v in v.list : k => v][k.idx].z\nb = f([for i in xs : i], i.n, [for i in i.ys : [for i in i : i.q]])\n",
	"a = \"${x}%{ for i, x in xs }${i}=${x.y}%{ endfor }${i} ${x[0]}\"\n",
	"a = { each = { for each, v in m : each => v }, (each) = each.key, \"${v}\" = v.w }\n",
	"a = each.ok ? [for each in each.all : each.id if each.on] : each.alt\n",
}

type fsgen struct {
	r    *hv.Rng
	feat map[string]int
	pool []string
}

var fsNames = []string{"v", "k", "each", "x", "i", "item", "foo", "var", "ünï", "b_1"}

func (g *fsgen) f(k string) { g.feat["fs:"+k]++ }

func (g *fsgen) name() string { return g.pool[g.r.Intn(len(g.pool))] }

func (g *fsgen) steps() string {
	var sb strings.Builder
	legacy := false
	for n := g.r.Small(3); n > 0; n-- {
		st := g.r.Pick(".id", ".a", "."+g.name(), "[0]", `["k"]`, ".0", "[true]")
		if st == ".0" && legacy {
			st = "[1]" // two chained legacy indexes are a syntax error
		}
		legacy = st == ".0"
		sb.WriteString(st)
	}
	return sb.String()
}

// a reference whose root is a pool name
func (g *fsgen) ref() string { return g.name() + g.steps() }

func (g *fsgen) iterVars() string {
	a := g.name()
	if g.r.Chance(0.45) {
		b := g.name()
		for b == a {
			b = fsNames[g.r.Intn(len(fsNames))]
		}
		return a + ", " + b
	}
	return a
}

func (g *fsgen) coll(depth int) string {
	switch g.r.Intn(6) {
	case 0:
		return g.r.Pick("var.list", "local.m", "[1, 2]")
	case 1:
		if depth < 3 {
			g.f("for-in-coll-of-for")
			return g.forExpr(depth + 1)
		}
	case 2:
		return "f(" + g.ref() + ")"
	}
	return g.ref()
}

func (g *fsgen) body(depth int) string {
	switch g.r.Intn(10) {
	case 0:
		if depth < 3 {
			g.f("nested-for")
			return g.forExpr(depth + 1)
		}
	case 1:
		return g.ref() + g.r.Pick(" + ", " == ", " && ") + g.ref()
	case 2:
		return "f(" + g.ref() + ", " + g.ref() + ")"
	case 3:
		return `"${` + g.ref() + `}-${` + g.ref() + `}"`
	case 4:
		g.f("object-keys-in-for")
		return g.objCons(depth)
	case 5:
		return "(" + g.ref() + " ? " + g.ref() + " : " + g.ref() + ")"
	case 6:
		return g.ref() + "[*]." + g.name()
	}
	return g.ref()
}

func (g *fsgen) objCons(depth int) string {
	// bare key (literal), parenthesised key (reference), template key (reference)
	return "{ " + g.name() + " = " + g.ref() + ", (" + g.ref() + ") = " + g.ref() + `, "${` + g.ref() + `}" = ` + g.ref() + " }"
}

func (g *fsgen) forExpr(depth int) string {
	cond := ""
	if g.r.Chance(0.3) {
		cond = " if " + g.body(depth)
	}
	if g.r.Chance(0.55) {
		g.f("for-tuple")
		return "[for " + g.iterVars() + " in " + g.coll(depth) + " : " + g.body(depth) + cond + "]"
	}
	g.f("for-object")
	return "{for " + g.iterVars() + " in " + g.coll(depth) + " : " + g.body(depth) + " => " + g.body(depth) + g.r.Pick("", "", "...") + cond + "}"
}

func (g *fsgen) tmplFor(heredoc bool) string {
	q := `"`
	if heredoc {
		q = ""
	}
	inner := "${" + g.ref() + "}" + g.r.Pick("", ",", `%{ if `+g.ref()+` }y%{ endif }`)
	if g.r.Chance(0.2) {
		g.f("template-for-nested")
		inner += "%{ for " + g.iterVars() + " in " + g.ref() + " }${" + g.ref() + "}%{ endfor }"
	}
	s := g.r.Pick("", "${"+g.ref()+"}", "a ") +
		g.r.Pick("%{for ", "%{ for ", "%{~ for ") + g.iterVars() + " in " + g.coll(2) + g.r.Pick("}", " }", " ~}") +
		inner + g.r.Pick("%{endfor}", "%{ endfor }", "%{~ endfor ~}") +
		g.r.Pick("${"+g.ref()+"}", "${"+g.ref()+"} ${"+g.ref()+"}", `${`+g.name()+`["last"]}`, "")
	return q + s + q
}

// one attribute expression
func (g *fsgen) expr() string {
	F := func() string { return g.forExpr(0) }
	switch g.r.Intn(14) {
	case 0:
		g.f("tuple-sibling-after")
		return "[" + F() + ", " + g.ref() + "]"
	case 1:
		g.f("tuple-sibling-before-and-after")
		return "[" + g.ref() + ", " + F() + ", " + g.ref() + "]"
	case 2:
		g.f("index-key-after-close")
		return F() + "[" + g.ref() + "]" + g.r.Pick("", "."+g.name(), "["+g.ref()+"]")
	case 3:
		g.f("binary-operands")
		return g.ref() + g.r.Pick(" + ", " == ", " || ") + "length(" + F() + ")" + g.r.Pick(" + ", " != ", " && ") + g.ref()
	case 4:
		g.f("binary-for-operand")
		return F() + g.r.Pick(" == ", " != ") + g.ref()
	case 5:
		g.f("call-args")
		return g.r.Pick("f", "ns::g") + "(" + g.ref() + ", " + F() + ", " + g.ref() + g.r.Pick("", "...") + ")"
	case 6:
		g.f("template-for-then-interp")
		return g.tmplFor(false)
	case 7:
		g.f("heredoc-for-then-interp")
		return "<<" + g.r.Pick("", "-") + "EOT\n  " + g.tmplFor(true) + "\n  EOT"
	case 8:
		g.f("conditional-around-for")
		return g.ref() + " ? " + F() + " : " + g.ref()
	case 9:
		g.f("object-cons-around-for")
		return "{ " + g.name() + " = " + F() + ", (" + g.ref() + ") = " + g.ref() + `, "${` + g.ref() + `}" = ` + g.ref() + ", " + g.name() + "." + g.name() + " = " + g.ref() + " }"
	case 10:
		g.f("sibling-fors-reusing-names")
		return "[" + F() + ", " + F() + ", " + g.ref() + "]"
	case 11:
		g.f("paren-for-then-index")
		return "(" + F() + ")" + g.r.Pick("[", "[0][") + g.ref() + "]"
	case 12:
		g.f("splat-after-for")
		return F() + "[*]." + g.name() + g.r.Pick(" + ", " == ") + g.ref() + "[*]." + g.name()
	default:
		g.f("template-in-tuple-with-for")
		return "[" + g.tmplFor(false) + ", " + g.ref() + ", " + F() + "]"
	}
}

// genForScope returns one configuration of 1-3 attributes (some inside a
// block), every expression a for-scope shape.
func genForScope(r *hv.Rng) (string, map[string]int) {
	g := &fsgen{r: r, feat: map[string]int{}}
	var sb strings.Builder
	n := 1 + r.Small(2)
	inBlock := r.Chance(0.25)
	ind := ""
	if inBlock {
		g.f("in-block")
		sb.WriteString("blk " + r.Pick("", `"l" `) + "{\n")
		ind = "  "
	}
	for i := 0; i < n; i++ {
		// a fresh small pool per expression: 2-4 names
		g.pool = g.pool[:0]
		for k := 2 + r.Intn(3); k > 0; k-- {
			g.pool = append(g.pool, fsNames[r.Intn(len(fsNames))])
		}
		if r.Chance(0.15) {
			sb.WriteString(ind + "# lead\n")
		}
		sb.WriteString(fmt.Sprintf("%sa%d %s ", ind, i, r.Pick("=", "=", "= /* c */")))
		e := g.expr()
		sb.WriteString(e)
		if strings.HasPrefix(e, "<<") {
			sb.WriteString("\n") // nothing may follow a heredoc's closing marker
		} else {
			sb.WriteString(r.Pick("\n", "\n", " # end\n", "\r\n"))
		}
	}
	if inBlock {
		sb.WriteString("}\n")
	}
	return sb.String(), g.feat
}
