package main

// Tree-shaped histories: bodies are VALUES.
//
// The laws of C04 speak of bodies as values: Content / PartialContent /
// JustAttributes must not change the body they are called on. A tree-shaped
// history is a list of operations over a growing table of bodies (slot 0 = the
// case's body, operation i fills slot i+1 when it produces a body): every
// operation picks ANY slot — also one that has been used before — and applies
// PartialContent (the remaining body becomes a new slot), Content,
// JustAttributes, dynblock.Expand (new slot) or takes the Body of a returned
// block (new slot). All operations run on the SAME Go objects.
//
// Checked here on the real code only (the Coq model runs the same tree as a
// pure function, Body/BodyCheck.v check_tree):
//   (a) purity: the same call on the same body object, repeated immediately and
//       again after the whole tree has run, returns the same complete result
//       (kind body-call-not-repeatable);
//   (b) branch independence: what a body returns is what a freshly parsed copy
//       returns on which ONLY the path from the root to that body is replayed
//       (kind body-state-shared-between-remainders when no other call was made
//       on the very same body, body-call-not-repeatable otherwise);
//   (c) an absolute reference for native bodies reached by PartialContent steps
//       only: the visible items computed from the generator's abstract
//       configuration (kinds item-lost / extra-item, classes tree-*).

import (
	"fmt"
	"sort"
	"strings"

	"github.com/hashicorp/hcl/v2"
	"github.com/hashicorp/hcl/v2/ext/dynblock"
	"hclverif/hv"
)

// TOp is one operation of a tree-shaped history (replay form).
type TOp struct {
	On   int     `json:"on"`            // slot the operation is applied to (0 = the case's body, operation i owns slot i+1)
	Kind string  `json:"kind"`          // partial | content | just | expand | child
	S    *Schema `json:"s,omitempty"`   // partial, content; child: schema of the producing call
	Via  string  `json:"via,omitempty"` // child: the producing call, "partial" | "content"
	Blk  int     `json:"blk,omitempty"` // child: index of the block (modulo the number of blocks returned)
}

func isExpandBody(b hcl.Body) bool { return strings.Contains(fmt.Sprintf("%T", b), "expandBody") }

type opOut struct {
	o    obs
	ja   jaObs
	out  hcl.Body // body produced (partial: remainder; expand; child)
	blk  int      // child: resolved block index
	file string   // child: file the block is defined in
	skip string
}

func (r opOut) sig() string {
	return fmt.Sprintf("attrs=%q blocks=%q diags=%v | just-attributes=%q diags=%v", r.o.Attrs, r.o.Blocks, r.o.Diags, r.ja.Names, r.ja.Diags)
}

func opSchema(op TOp) Schema {
	if op.S == nil {
		return Schema{}
	}
	return *op.S
}

// applyOp executes one operation on a body (never touches the slot table).
func applyOp(b hcl.Body, op TOp) (r opOut, panicked any) {
	defer func() {
		if p := recover(); p != nil {
			panicked = p
		}
	}()
	switch op.Kind {
	case "partial":
		c, rem, ds := b.PartialContent(toHCLSchema(opSchema(op)))
		r.o = observe(c, ds)
		r.ja = observeJA(rem)
		r.out = rem
	case "content":
		c, ds := b.Content(toHCLSchema(opSchema(op)))
		r.o = observe(c, ds)
	case "just":
		r.ja = observeJA(b)
	case "expand":
		if isExpandBody(b) {
			r.skip = "expand-of-expanded"
			return
		}
		r.out = dynblock.Expand(b, nil)
	case "child":
		var c *hcl.BodyContent
		var ds hcl.Diagnostics
		if op.Via == "content" {
			c, ds = b.Content(toHCLSchema(opSchema(op)))
		} else {
			c, _, ds = b.PartialContent(toHCLSchema(opSchema(op)))
		}
		r.o = observe(c, ds)
		if len(c.Blocks) == 0 {
			r.skip = "child-of-no-blocks"
			return
		}
		k := op.Blk
		if k < 0 {
			k = -k
		}
		r.blk = k % len(c.Blocks)
		r.out = c.Blocks[r.blk].Body
		r.file = c.Blocks[r.blk].DefRange.Filename
	default:
		r.skip = "unknown-kind"
	}
	return
}

type tnode struct {
	body   hcl.Body
	parent int // slot; -1 for the root
	via    TOp // resolved producing operation
	coq    int // index in the Coq table
	// expandBody layers of this body over the blocks of a file (constant for the Body of a block)
	depthOf func(file string) int
}

type texec struct {
	idx int // operation index in cs.Tree
	op  TOp // resolved (On = real slot, Blk = real index)
	r1  opOut
}

// probeSchema: every name the case talks about (attribute names once).
func probeSchema(cs *CaseSpec) Schema {
	var all []Schema
	all = append(all, cs.Parts...)
	all = append(all, cs.Child)
	for _, op := range cs.Tree {
		all = append(all, opSchema(op))
	}
	u := unionSchema(all)
	out := Schema{Attrs: []SAttr{}, Blocks: []SBlock{}}
	seenA, seenB := map[string]bool{}, map[string]bool{}
	for _, a := range u.Attrs {
		if !seenA[a.Name] {
			seenA[a.Name] = true
			out.Attrs = append(out.Attrs, SAttr{Name: a.Name})
		}
	}
	for _, b := range u.Blocks {
		if !seenB[b.Type] {
			seenB[b.Type] = true
			out.Blocks = append(out.Blocks, b)
		}
	}
	return out
}

func probe(b hcl.Body, ps Schema) (s string, panicked any) {
	defer func() {
		if p := recover(); p != nil {
			panicked = p
		}
	}()
	ja := observeJA(b)
	c, ds := b.Content(toHCLSchema(ps))
	o := observe(c, ds)
	return opOut{o: o, ja: ja}.sig(), nil
}

func describeOp(op TOp) string {
	switch op.Kind {
	case "partial", "content":
		sj := opSchema(op)
		return fmt.Sprintf("%s(%s) on body #%d", op.Kind, schemaText(sj), op.On)
	case "child":
		return fmt.Sprintf("Body of block %d of %s(%s) on body #%d", op.Blk, op.Via, schemaText(opSchema(op)), op.On)
	}
	return fmt.Sprintf("%s on body #%d", op.Kind, op.On)
}

func schemaText(s Schema) string {
	var xs []string
	for _, a := range s.Attrs {
		if a.Required {
			xs = append(xs, a.Name+"!")
		} else {
			xs = append(xs, a.Name)
		}
	}
	for _, b := range s.Blocks {
		xs = append(xs, fmt.Sprintf("%s{%d}", b.Type, b.Labels))
	}
	return "{" + strings.Join(xs, " ") + "}"
}

func sameSchema(a, b Schema) bool {
	return schemaText(a) == schemaText(b)
}

// runTree executes cs.Tree on root (the very object the linear history ran on),
// applies the oracles and returns the Coq terms of the executed operations.
func runTree(cs *CaseSpec, root hcl.Body, f *failer, input string, rep *hv.Report) []string {
	if len(cs.Tree) == 0 {
		return nil
	}
	rep.Hist("stream:tree-history")
	slots := []*tnode{{body: root, parent: -1, coq: 0, depthOf: func(file string) int { return layerDepth(cs, file) }}}
	ncoq := 1
	var coq []string
	var done []texec
	usedAt := map[int][]int{} // slot -> indices (into done) of the operations applied to it
	reused, sameAgain, remReused, expRem := false, false, false, false

	for i, op := range cs.Tree {
		// resolve the slot: clamp, then the nearest lower slot that holds a body
		on := op.On
		if on < 0 {
			on = 0
		}
		if on >= len(slots) {
			on = len(slots) - 1
		}
		for slots[on] == nil {
			on--
		}
		op.On = on
		if op.S != nil {
			s := *op.S
			if s.Attrs == nil {
				s.Attrs = []SAttr{}
			}
			if s.Blocks == nil {
				s.Blocks = []SBlock{}
			}
			op.S = &s
		}
		node := slots[on]
		r1, p := applyOp(node.body, op)
		if p != nil {
			f.fail("panic", "tree-op", fmt.Sprintf("operation %d (%s): %v", i, describeOp(op), p), input)
			slots = append(slots, nil)
			continue
		}
		if r1.skip != "" {
			rep.Hist("tree:skipped:" + r1.skip)
			slots = append(slots, nil)
			continue
		}
		op.Blk = r1.blk
		rep.Hist("tree:op:" + op.Kind)
		if len(usedAt[on]) > 0 {
			reused = true
			if on > 0 {
				remReused = true
			}
			for _, j := range usedAt[on] {
				if done[j].op.Kind == op.Kind && (op.Kind == "partial" || op.Kind == "content") && sameSchema(opSchema(done[j].op), opSchema(op)) {
					sameAgain = true
				}
			}
		}
		if op.Kind == "expand" && on > 0 {
			expRem = true
		}

		// (a) purity, immediate repeat on the same object
		r2, p2 := applyOp(node.body, op)
		rep.Hist("oracle:tree-immediate-repeat-checked")
		if p2 != nil {
			f.fail("panic", "tree-op-repeat", fmt.Sprintf("operation %d (%s), repeated: %v", i, describeOp(op), p2), input)
		} else if r1.sig() != r2.sig() || r1.skip != r2.skip {
			f.fail("body-call-not-repeatable", "immediate-repeat",
				fmt.Sprintf("operation %d, %s: first call returns %s; the same call repeated on the same body returns %s", i, describeOp(op), r1.sig(), r2.sig()), input)
		}

		// the Coq term
		cn := node.coq
		childDepth := 0
		switch op.Kind {
		case "partial":
			coq = append(coq, fmt.Sprintf("TPartial %d (%s) (%s) %s", cn, coqSchema(opSchema(op)), coqObs(r1.o), coqJA(r1.ja)))
		case "content":
			coq = append(coq, fmt.Sprintf("TContent %d (%s) (%s)", cn, coqSchema(opSchema(op)), coqObs(r1.o)))
		case "just":
			coq = append(coq, fmt.Sprintf("TJust %d %s", cn, coqJA(r1.ja)))
		case "expand":
			coq = append(coq, fmt.Sprintf("TExpand %d", cn))
		case "child":
			childDepth = settleDepth(node.depthOf(r1.file), isExpandBody(r1.out), rep)
			if childDepth >= 2 {
				rep.Hist("tree:child-under-two-expand-layers")
			}
			coq = append(coq, fmt.Sprintf("TChild %d %s (%s) %d %d", cn, hv.CoqBool(op.Via != "content"), coqSchema(opSchema(op)), op.Blk, childDepth))
		}

		usedAt[on] = append(usedAt[on], len(done))
		done = append(done, texec{idx: i, op: op, r1: r1})
		if r1.out != nil {
			nn := &tnode{body: r1.out, parent: on, via: op, coq: ncoq, depthOf: node.depthOf}
			switch op.Kind {
			case "expand":
				pd := node.depthOf
				nn.depthOf = func(file string) int {
					if d := pd(file); d >= 0 {
						return d + 1
					}
					return -1
				}
			case "child":
				cd := childDepth
				nn.depthOf = func(string) int { return cd }
			}
			slots = append(slots, nn)
			ncoq++
		} else {
			slots = append(slots, nil)
		}
	}
	rep.Hist(fmt.Sprintf("tree:ops-executed:%d", min(len(done), 9)))
	if reused {
		rep.Hist("tree:some-body-used-more-than-once")
	}
	if remReused {
		rep.Hist("tree:derived-body-used-more-than-once")
	}
	if sameAgain {
		rep.Hist("tree:same-schema-twice-on-one-body")
	}
	if expRem {
		rep.Hist("tree:expand-of-derived-body")
	}

	// replay of the path root -> slot on a freshly parsed copy
	var replay func(fresh hcl.Body, slot int) (hcl.Body, any)
	replay = func(fresh hcl.Body, slot int) (hcl.Body, any) {
		n := slots[slot]
		if n.parent < 0 {
			return fresh, nil
		}
		pb, p := replay(fresh, n.parent)
		if p != nil {
			return nil, p
		}
		r, p := applyOp(pb, n.via)
		if p != nil {
			return nil, p
		}
		if r.out == nil {
			return nil, fmt.Sprintf("replaying %s on a fresh copy produces no body (%s)", describeOp(n.via), r.skip)
		}
		return r.out, nil
	}
	ps := probeSchema(cs)
	nativeRef := treeRefApplies(cs)

	for di, e := range done {
		op := e.op
		others, earlier := false, false
		for _, j := range usedAt[op.On] {
			if j != di {
				others = true
				if j < di {
					earlier = true
				}
			}
		}
		// (a') purity, late repeat: after every other operation of the tree has run
		r4, p4 := applyOp(slots[op.On].body, op)
		rep.Hist("oracle:tree-late-repeat-checked")
		if p4 != nil {
			f.fail("panic", "tree-op-repeat", fmt.Sprintf("operation %d (%s), repeated after the tree: %v", e.idx, describeOp(op), p4), input)
		} else if r4.sig() != e.r1.sig() {
			kind := "body-state-shared-between-remainders"
			if others {
				kind = "body-call-not-repeatable"
			}
			f.fail(kind, "late-repeat",
				fmt.Sprintf("operation %d, %s: when it ran it returned %s; the same call on the same body after the other operations of the history returns %s", e.idx, describeOp(op), e.r1.sig(), r4.sig()), input)
		}

		// (b) branch independence: fresh parse, only the path to the body replayed
		pf2, err := parseFiles(cs)
		if err != nil {
			continue
		}
		fb, p := replay(buildBody(cs, pf2), op.On)
		if p != nil {
			f.fail("body-state-shared-between-remainders", "fresh-path-not-replayable", fmt.Sprintf("operation %d, %s: %v", e.idx, describeOp(op), p), input)
			continue
		}
		r3, p3 := applyOp(fb, op)
		rep.Hist("oracle:tree-fresh-path-checked")
		if p3 != nil {
			f.fail("panic", "tree-op-fresh", fmt.Sprintf("operation %d (%s) on a fresh copy: %v", e.idx, describeOp(op), p3), input)
			continue
		}
		if r3.sig() != e.r1.sig() || r3.skip != e.r1.skip {
			kind := "body-state-shared-between-remainders"
			if earlier {
				kind = "body-call-not-repeatable"
			}
			f.fail(kind, "vs-fresh-path",
				fmt.Sprintf("operation %d, %s: in the history it returned %s; on a freshly parsed copy where only the path to that body was replayed it returns %s", e.idx, describeOp(op), e.r1.sig(), r3.sig()), input)
		}
		// the remainder of a repeated PartialContent behaves like the remainder on the fresh copy
		if op.Kind == "partial" && p4 == nil && r4.out != nil && r3.out != nil {
			s4, q4 := probe(r4.out, ps)
			s3, q3 := probe(r3.out, ps)
			rep.Hist("oracle:tree-remainder-probe-checked")
			if q4 != nil || q3 != nil {
				f.fail("panic", "tree-probe", fmt.Sprint(q4, q3), input)
			} else if s4 != s3 {
				f.fail("body-call-not-repeatable", "remainder-of-repeated-call",
					fmt.Sprintf("operation %d, %s: the remaining body of the repeated call answers the probe %s with %s; the remaining body on a freshly parsed copy with %s", e.idx, describeOp(op), schemaText(ps), s4, s3), input)
			}
		}

		// (c) absolute reference from the abstract configuration
		if nativeRef && (op.Kind == "partial" || op.Kind == "content") {
			treeRefCheck(cs, slots, e, f, input, rep)
		}
	}
	return coq
}

// ---- absolute reference (native files, not expanded, PartialContent paths) --------

func treeRefApplies(cs *CaseSpec) bool {
	if anyExpand(cs) {
		return false
	}
	for _, fs := range cs.Files {
		if fs.Syntax != "hcl" || fs.Cfg == nil {
			return false
		}
	}
	return true
}

func treeRefCheck(cs *CaseSpec, slots []*tnode, e texec, f *failer, input string, rep *hv.Report) {
	hidA, hidB := map[string]bool{}, map[string]bool{}
	for s := e.op.On; slots[s].parent >= 0; s = slots[s].parent {
		v := slots[s].via
		if v.Kind != "partial" {
			return
		}
		for _, a := range opSchema(v).Attrs {
			hidA[a.Name] = true
		}
		for _, b := range opSchema(v).Blocks {
			hidB[b.Type] = true
		}
	}
	S := opSchema(e.op)
	rep.Hist("oracle:tree-abstract-reference-checked")
	have := map[string]bool{}
	for _, fi := range fileOrder(cs) {
		for _, it := range cs.Files[fi].Cfg.Items {
			if it.IsAttr() {
				have[it.Attr] = true
			}
		}
	}
	exp := map[string]bool{}
	for _, a := range S.Attrs {
		if have[a.Name] && !hidA[a.Name] {
			exp[a.Name] = true
		}
	}
	lost, extra, _ := diffNames(sortedKeys(exp), e.r1.o.Attrs)
	if len(lost) > 0 {
		f.fail("item-lost", "tree-attributes", fmt.Sprintf("operation %d, %s: attributes %v are visible in that body and named by the schema but were not returned", e.idx, describeOp(e.op), lost), input)
	}
	if len(extra) > 0 {
		f.fail("extra-item", "tree-attributes", fmt.Sprintf("operation %d, %s: attributes %v were returned although they were consumed on the way to that body (or do not exist)", e.idx, describeOp(e.op), extra), input)
	}
	// blocks, per type, in source order; the LAST schema entry of a type decides the label count
	want := map[string]int{}
	for _, b := range S.Blocks {
		want[b.Type] = b.Labels
	}
	types := make([]string, 0, len(want))
	for t := range want {
		types = append(types, t)
	}
	sort.Strings(types)
	for _, t := range types {
		var expB []string
		if !hidB[t] {
			for _, fi := range fileOrder(cs) {
				for _, it := range cs.Files[fi].Cfg.Items {
					if !it.IsAttr() && it.Type == t && len(it.Labels) == want[t] {
						expB = append(expB, strings.Join(it.Labels, "\x00"))
					}
				}
			}
		}
		var act []string
		for _, b := range e.r1.o.Blocks {
			if b.Type == t {
				act = append(act, strings.Join(b.Labels, "\x00"))
			}
		}
		if sameStrings(expB, act) {
			continue
		}
		kind := "extra-item"
		switch {
		case sameStrings(sortedCopy(expB), sortedCopy(act)):
			kind = "order-changed"
		case len(act) < len(expB):
			kind = "item-lost"
		case len(act) > len(expB) && len(expB) > 0:
			kind = "item-duplicated"
		}
		f.fail(kind, "tree-blocks", fmt.Sprintf("operation %d, %s: blocks of type %q visible in that body %q, returned %q", e.idx, describeOp(e.op), t, expB, act), input)
	}
	for _, b := range e.r1.o.Blocks {
		if _, ok := want[b.Type]; !ok {
			f.fail("extra-item", "tree-blocks", fmt.Sprintf("operation %d, %s: a block of type %q was returned although the schema does not name it", e.idx, describeOp(e.op), b.Type), input)
		}
	}
}

// ---- generator ----------------------------------------------------------------------

func subSchema(g *gen, pool Schema, p float64) *Schema {
	s := &Schema{Attrs: []SAttr{}, Blocks: []SBlock{}}
	seen := map[string]bool{}
	for _, a := range pool.Attrs {
		if !seen[a.Name] && g.r.Chance(p) {
			seen[a.Name] = true
			s.Attrs = append(s.Attrs, a)
		}
	}
	for _, b := range pool.Blocks {
		if g.r.Chance(p) {
			s.Blocks = append(s.Blocks, b)
		}
	}
	return s
}

// genTree draws a tree-shaped history for the case: every operation picks any
// slot that (as far as the generator can tell) holds a body, with a preference
// for derived bodies and for bodies that have been used already; schemata are
// sub-schemata of the union of the case's parts (child schema for block
// bodies), often overlapping earlier ones or repeating one exactly.
func (g *gen) genTree(cs *CaseSpec) []TOp {
	type slot struct {
		body, child, expanded bool
		uses                  int
	}
	rootExp := cs.ExpandTop || (!cs.Merged && len(cs.Children) > 0 && cs.Children[0].Expand)
	slots := []slot{{body: true, expanded: rootExp}}
	pool := unionSchema(cs.Parts)
	n := 3 + g.r.Intn(6)
	var ops []TOp
	for i := 0; i < n; i++ {
		var all, derived, used []int
		for si, s := range slots {
			if !s.body {
				continue
			}
			all = append(all, si)
			if si > 0 {
				derived = append(derived, si)
				if s.uses > 0 {
					used = append(used, si)
				}
			}
		}
		on := all[g.r.Intn(len(all))]
		switch {
		case len(used) > 0 && g.r.Chance(0.45):
			on = used[g.r.Intn(len(used))]
		case len(derived) > 0 && g.r.Chance(0.6):
			on = derived[g.r.Intn(len(derived))]
		}
		pl := pool
		if slots[on].child {
			pl = cs.Child
		}
		// schema: an earlier one again, or a fresh sub-schema
		var sch *Schema
		if len(ops) > 0 && g.r.Chance(0.3) {
			j := g.r.Intn(len(ops))
			if ops[j].S != nil && (ops[j].Kind == "partial" || ops[j].Kind == "content") && slots[ops[j].On].child == slots[on].child {
				c := *ops[j].S
				sch = &c
				g.f("tree:schema-repeated")
			}
		}
		if sch == nil {
			sch = subSchema(g, pl, 0.3+0.5*g.r.Float64())
		}
		k := g.r.Intn(100)
		if i == 0 && k >= 40 && g.r.Chance(0.6) {
			k = 0
		}
		op := TOp{On: on}
		ns := slot{}
		switch {
		case k < 40:
			op.Kind, op.S = "partial", sch
			ns = slot{body: true, child: slots[on].child, expanded: slots[on].expanded}
		case k < 65:
			op.Kind, op.S = "content", sch
		case k < 72:
			op.Kind = "just"
		case k < 84 && !slots[on].expanded:
			op.Kind = "expand"
			ns = slot{body: true, child: slots[on].child, expanded: true}
		case k < 84:
			op.Kind, op.S = "partial", sch
			ns = slot{body: true, child: slots[on].child, expanded: true}
		default:
			op.Kind, op.S, op.Blk = "child", sch, g.r.Intn(3)
			op.Via = g.r.Pick("partial", "content")
			if g.r.Chance(0.7) {
				// ask for every block type of the pool: some block is likely to come back
				sch.Blocks = append([]SBlock{}, pl.Blocks...)
			} else if len(sch.Blocks) == 0 && len(pl.Blocks) > 0 {
				sch.Blocks = append(sch.Blocks, pl.Blocks[g.r.Intn(len(pl.Blocks))])
			}
			ns = slot{body: true, child: true, expanded: slots[on].expanded}
		}
		slots[on].uses++
		slots = append(slots, ns)
		ops = append(ops, op)
	}
	g.f("tree:generated")
	return ops
}

// ---- hand corpus ----------------------------------------------------------------------

func tP(on int, s Schema) TOp { return TOp{On: on, Kind: "partial", S: &s} }
func tC(on int, s Schema) TOp { return TOp{On: on, Kind: "content", S: &s} }
func tJ(on int) TOp           { return TOp{On: on, Kind: "just"} }
func tX(on int) TOp           { return TOp{On: on, Kind: "expand"} }
func tK(on int, via string, s Schema, blk int) TOp {
	return TOp{On: on, Kind: "child", Via: via, S: &s, Blk: blk}
}
func withTree(cs *CaseSpec, child Schema, ops ...TOp) *CaseSpec {
	cs.Child = child
	cs.Tree = ops
	return cs
}

// treeCorpus: non-linear uses of bodies (operation i owns slot i+1).
func treeCorpus() []*CaseSpec {
	rule0 := []SBlock{{"rule", 0}}
	other1 := []SBlock{{"other", 1}}
	both := []SBlock{{"rule", 0}, {"other", 1}}
	static := "name = \"x\"\nsize = 1\nrule {\n  port = 1\n}\nother \"a\" {\n}\nrule {\n  port = 2\n}\n"
	staticItems := []Item{{Attr: "name", Val: 4}, {Attr: "size", Val: 2},
		{Type: "rule", Body: &Cfg{Items: []Item{{Attr: "port", Val: 2}}}},
		{Type: "other", Labels: []string{"a"}, Body: &Cfg{}},
		{Type: "rule", Body: &Cfg{Items: []Item{{Attr: "port", Val: 2}}}}}
	dynamic := static + "dynamic \"other\" {\n  for_each = [0, 1]\n  labels = [\"b\"]\n  content {\n  }\n}\n"
	dynItems := append(append([]Item{}, staticItems...),
		Item{Type: "dynamic", Labels: []string{"other"}, Body: &Cfg{}, Dyn: &DynSpec{N: 2, HasLabels: true, Labels: []string{"b"}}})
	port := Schema{Attrs: sa("port"), Blocks: []SBlock{}}
	return []*CaseSpec{
		// a remainder used for two different continuations, and the same schema twice
		withTree(single(withCfg(hclFile(static), staticItems...), false,
			Schema{Attrs: sa("name")}, Schema{Blocks: rule0}, Schema{Attrs: sa("size"), Blocks: other1}), port,
			tP(0, Schema{Attrs: sa("name")}), tP(1, Schema{Blocks: rule0}), tC(2, Schema{Attrs: sa("size"), Blocks: other1}),
			tC(1, Schema{Attrs: sa("size"), Blocks: both}), tC(1, Schema{Attrs: sa("size"), Blocks: both}), tJ(1), tJ(2)),
		// two remainders of the same remainder; calls on one must not be seen by the other
		withTree(single(withCfg(hclFile(static), staticItems...), false,
			Schema{Attrs: sa("name")}, Schema{Blocks: rule0}, Schema{Attrs: sa("size"), Blocks: other1}), port,
			tP(0, Schema{Attrs: sa("name")}), tP(1, Schema{Blocks: rule0}), tP(1, Schema{Blocks: other1}),
			tC(2, Schema{Attrs: sa("size"), Blocks: other1}), tC(3, Schema{Attrs: sa("size"), Blocks: rule0}),
			tK(3, "partial", Schema{Blocks: rule0}, 1), tC(6, port), tC(6, port)),
		// Expand of a remainder processed in two steps while the remainder itself is also used
		withTree(single(withCfg(hclFile(dynamic), dynItems...), false,
			Schema{Attrs: sa("name")}, Schema{Blocks: rule0}, Schema{Attrs: sa("size"), Blocks: other1}), port,
			tP(0, Schema{Attrs: sa("name")}), tX(1), tP(2, Schema{Blocks: rule0}), tC(3, Schema{Attrs: sa("size"), Blocks: other1}),
			tC(1, Schema{Attrs: sa("size"), Blocks: []SBlock{{"rule", 0}, {"other", 1}, {"dynamic", 1}}}),
			tC(2, Schema{Attrs: sa("size"), Blocks: both}), tC(3, Schema{Attrs: sa("size"), Blocks: other1})),
		// the same for JSON and for a merge of both syntaxes
		withTree(single(jsonFile(`{"name": "x", "size": 1, "rule": [{"port": 1}, {"port": 2}], "other": {"a": {}}}`), false,
			Schema{Attrs: sa("name")}, Schema{Blocks: rule0}, Schema{Attrs: sa("size"), Blocks: other1}), port,
			tP(0, Schema{Attrs: sa("name")}), tP(1, Schema{Blocks: rule0}), tC(1, Schema{Attrs: sa("size"), Blocks: both}),
			tC(1, Schema{Attrs: sa("size"), Blocks: both}), tC(2, Schema{Attrs: sa("size"), Blocks: other1}), tX(1), tC(6, Schema{Attrs: sa("size"), Blocks: both})),
		withTree(merged([]FileSpec{hclFile(static), jsonFile(`{"rule": {"port": 3}, "c": 1}`)}, false,
			Schema{Attrs: sa("name")}, Schema{Blocks: rule0}, Schema{Attrs: sa("size", "c"), Blocks: other1}), port,
			tP(0, Schema{Attrs: sa("name")}), tP(1, Schema{Blocks: rule0}), tP(1, Schema{Attrs: sa("c")}),
			tC(1, Schema{Attrs: sa("size", "c"), Blocks: both}), tC(3, Schema{Attrs: sa("size"), Blocks: both}),
			tC(2, Schema{Attrs: sa("size", "c"), Blocks: other1}), tK(1, "content", Schema{Attrs: sa("size", "c"), Blocks: both}, 2), tC(7, port)),
	}
}
