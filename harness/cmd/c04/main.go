package main

// C04 — Schema-driven body processing accounts for every item exactly once.
//
// Correspondence: histories [PartialContent S1; ...; Content Sk] (+ JustAttributes
// of every remaining body) over native, JSON, merged and dynblock-expanded
// bodies, against the Coq models Body/{Native,Json,Merged,BodyCheck}.v.
// Direct oracle (real code only): the two-step law of spec.md at every split
// point, exactly-once against the generator's abstract configuration, and
// "the remainder is the original minus the consumed items".

import (
	"encoding/json"
	"fmt"
	"os"
	"path/filepath"
	"regexp"
	"sort"
	"strings"

	"github.com/hashicorp/hcl/v2"
	"github.com/hashicorp/hcl/v2/ext/dynblock"
	"github.com/hashicorp/hcl/v2/hclsyntax"
	hcljson "github.com/hashicorp/hcl/v2/json"
	"hclverif/hv"
)

func main() { hv.Main(map[string]func(*hv.RunCfg) error{"c04": runC04}) }

// ---- observations -----------------------------------------------------------------

type dg struct{ Kind, Name string }
type blk struct {
	Type   string
	Labels []string
}
type obs struct {
	Attrs  []string
	Blocks []blk
	Diags  []dg
}
type jaObs struct {
	Names []string
	Diags []dg
}

// childObs: Content(child schema) on the Body of one returned block
type childObs struct {
	Expanded bool // the Go body is a dynblock expandBody
	Depth    int  // number of expandBody layers around it (filled in from the case's shape: layerDepth)
	O        obs
	body     hcl.Body
	file     string // file the block is defined in
}

// layerDepth: how many dynblock.Expand layers of the case's root body cover the
// file (every layer wraps the Body of every block it passes on once more).
func layerDepth(cs *CaseSpec, filename string) int {
	var fi int
	if _, err := fmt.Sscanf(filename, "f%d.", &fi); err != nil {
		return -1
	}
	d := 0
	if cs.ExpandTop {
		d++
	}
	for _, ch := range cs.Children {
		if !ch.Nested && ch.Expand && len(ch.Files) > 0 && ch.Files[0] == fi {
			d++
		}
	}
	return d
}

// settleDepth reconciles the structural depth with what the Go value shows.
func settleDepth(d int, expanded bool, rep *hv.Report) int {
	if d < 0 || (d > 0) != expanded {
		rep.Hist("child:layer-depth-not-derivable")
		if expanded {
			return 1
		}
		return 0
	}
	return d
}

var quoted = regexp.MustCompile(`"([^"]*)"`)
var blockOf = regexp.MustCompile(`represents the (.*) block's `)

func firstQuoted(s string) string {
	if m := quoted.FindStringSubmatch(s); m != nil {
		return m[1]
	}
	return ""
}

// classify maps a diagnostic to the model's (kind, name).
func classify(d *hcl.Diagnostic) dg {
	if d.Severity != hcl.DiagError {
		return dg{"DynOther", "warning:" + d.Summary}
	}
	s := d.Summary
	switch {
	case s == "Missing required argument":
		return dg{"MissingRequired", firstQuoted(d.Detail)}
	case s == "Unsupported argument":
		return dg{"UnsupportedAttr", firstQuoted(d.Detail)}
	case s == "Unsupported block type":
		return dg{"UnsupportedBlock", firstQuoted(d.Detail)}
	case s == "Extraneous JSON object property":
		return dg{"ExtraneousProp", firstQuoted(d.Detail)}
	case s == "Duplicate argument", s == "Duplicate attribute definition":
		return dg{"Duplicate", firstQuoted(d.Detail)}
	case strings.HasPrefix(s, "Extraneous label for "):
		return dg{"ExtraLabel", strings.TrimPrefix(s, "Extraneous label for ")}
	case s == "Missing block label":
		if m := blockOf.FindStringSubmatch(d.Detail); m != nil {
			return dg{"MissingBlockLabel", m[1]}
		}
		return dg{"MissingBlockLabel", ""}
	case s == "Incorrect JSON value type":
		return dg{"BadType", ""}
	case strings.HasPrefix(s, "Unexpected \""):
		return dg{"UnexpectedBlock", firstQuoted(s)}
	case s == "Extraneous dynamic block label":
		return dg{"ExtraDynLabel", firstQuoted(d.Detail)}
	case s == "Insufficient dynamic block labels":
		return dg{"InsufficientDynLabel", firstQuoted(d.Detail)}
	case strings.HasPrefix(s, "Missing ") && strings.Contains(s, " for "):
		// hclsyntax "Missing <label name> for <block type>"; the block type may be "dynamic"
		// itself when a schema names it (with more labels than the block has)
		i := strings.LastIndex(s, " for ")
		return dg{"MissingLabel", s[i+5:]}
	}
	return dg{"DynOther", s}
}

func canonDiags(ds hcl.Diagnostics) []dg {
	seen := map[dg]bool{}
	var out []dg
	for _, d := range ds {
		c := classify(d)
		if !seen[c] {
			seen[c] = true
			out = append(out, c)
		}
	}
	sort.Slice(out, func(i, j int) bool {
		if out[i].Kind != out[j].Kind {
			return out[i].Kind < out[j].Kind
		}
		return out[i].Name < out[j].Name
	})
	return out
}

func observe(c *hcl.BodyContent, ds hcl.Diagnostics) obs {
	var o obs
	for n := range c.Attributes {
		o.Attrs = append(o.Attrs, n)
	}
	sort.Strings(o.Attrs)
	for _, b := range c.Blocks {
		o.Blocks = append(o.Blocks, blk{b.Type, append([]string{}, b.Labels...)})
	}
	o.Diags = canonDiags(ds)
	return o
}

func observeJA(b hcl.Body) jaObs {
	at, ds := b.JustAttributes()
	var o jaObs
	for n := range at {
		o.Names = append(o.Names, n)
	}
	sort.Strings(o.Names)
	o.Diags = canonDiags(ds)
	return o
}

func coqDiags(ds []dg) string {
	s := make([]string, len(ds))
	for i, d := range ds {
		s[i] = fmt.Sprintf("(%s, %s)", d.Kind, hv.CoqString(d.Name))
	}
	return hv.CoqList(s)
}
func coqObs(o obs) string {
	bs := make([]string, len(o.Blocks))
	for i, b := range o.Blocks {
		bs[i] = fmt.Sprintf("(%s, %s)", hv.CoqString(b.Type), coqStrList(b.Labels))
	}
	return fmt.Sprintf("Ob %s %s %s", coqStrList(o.Attrs), hv.CoqList(bs), coqDiags(o.Diags))
}
func coqJA(o jaObs) string {
	return fmt.Sprintf("(%s, %s)", coqStrList(o.Names), coqDiags(o.Diags))
}

func coqChildren(cs []childObs) string {
	out := make([]string, len(cs))
	for i, c := range cs {
		out[i] = fmt.Sprintf("(%d, %s)", c.Depth, coqObs(c.O))
	}
	return hv.CoqList(out)
}

func observeChildren(c *hcl.BodyContent, child Schema) []childObs {
	var out []childObs
	for _, b := range c.Blocks {
		cc, ds := b.Body.Content(toHCLSchema(child))
		out = append(out, childObs{
			Expanded: strings.Contains(fmt.Sprintf("%T", b.Body), "expandBody"),
			O:        observe(cc, ds),
			body:     b.Body,
			file:     b.DefRange.Filename,
		})
	}
	return out
}

func toHCLSchema(s Schema) *hcl.BodySchema {
	out := &hcl.BodySchema{}
	for _, a := range s.Attrs {
		out.Attributes = append(out.Attributes, hcl.AttributeSchema{Name: a.Name, Required: a.Required})
	}
	for _, b := range s.Blocks {
		var ln []string
		for i := 0; i < b.Labels; i++ {
			ln = append(ln, fmt.Sprintf("n%d", i))
		}
		out.Blocks = append(out.Blocks, hcl.BlockHeaderSchema{Type: b.Type, LabelNames: ln})
	}
	return out
}

// ---- building the real bodies -----------------------------------------------------

type parsedFile struct {
	file   *hcl.File
	native *hclsyntax.Body
	jroot  *jn
}

func parseFiles(cs *CaseSpec) ([]parsedFile, error) {
	out := make([]parsedFile, len(cs.Files))
	for i, f := range cs.Files {
		switch f.Syntax {
		case "hcl":
			hf, diags := hclsyntax.ParseConfig([]byte(f.Src), fmt.Sprintf("f%d.hcl", i), hcl.InitialPos)
			if diags.HasErrors() {
				return nil, fmt.Errorf("file %d: native parse errors: %s", i, diags.Error())
			}
			out[i] = parsedFile{file: hf, native: hf.Body.(*hclsyntax.Body)}
		case "json":
			hf, diags := hcljson.Parse([]byte(f.Src), fmt.Sprintf("f%d.json", i))
			if diags.HasErrors() {
				return nil, fmt.Errorf("file %d: JSON parse errors: %s", i, diags.Error())
			}
			root, err := readJSON(f.Src)
			if err != nil {
				return nil, fmt.Errorf("file %d: %v", i, err)
			}
			out[i] = parsedFile{file: hf, jroot: root}
		default:
			return nil, fmt.Errorf("file %d: unknown syntax %q", i, f.Syntax)
		}
	}
	return out, nil
}

func buildBody(cs *CaseSpec, pf []parsedFile) hcl.Body {
	childBody := func(ch Child) hcl.Body {
		if ch.Nested {
			var bs []hcl.Body
			for _, i := range ch.Files {
				bs = append(bs, pf[i].file.Body)
			}
			return hcl.MergeBodies(bs)
		}
		b := pf[ch.Files[0]].file.Body
		if ch.Expand {
			b = dynblock.Expand(b, nil)
		}
		return b
	}
	if !cs.Merged {
		return childBody(cs.Children[0])
	}
	var body hcl.Body
	if cs.UseFiles {
		var fs []*hcl.File
		for _, ch := range cs.Children {
			fs = append(fs, pf[ch.Files[0]].file)
		}
		body = hcl.MergeFiles(fs)
	} else {
		var bs []hcl.Body
		for _, ch := range cs.Children {
			bs = append(bs, childBody(ch))
		}
		body = hcl.MergeBodies(bs)
	}
	if cs.ExpandTop {
		body = dynblock.Expand(body, nil)
	}
	return body
}

func coqFile(pf parsedFile) string {
	if pf.native != nil {
		return "(" + coqNativeBody(pf.native) + ")"
	}
	return "(Js (" + coqJ(pf.jroot) + "))"
}

func coqBody(cs *CaseSpec, pf []parsedFile) string {
	child := func(ch Child) string {
		if ch.Expand {
			return "Xp " + coqFile(pf[ch.Files[0]])
		}
		return "Pl " + coqFile(pf[ch.Files[0]])
	}
	if !cs.Merged {
		return "Single (" + child(cs.Children[0]) + ")"
	}
	var cs2 []string
	for _, ch := range cs.Children {
		if ch.Nested {
			var in []string
			for _, i := range ch.Files {
				in = append(in, "Pl "+coqFile(pf[i]))
			}
			cs2 = append(cs2, "Nested "+hv.CoqList(in))
		} else {
			cs2 = append(cs2, "Plain ("+child(ch)+")")
		}
	}
	if cs.ExpandTop {
		return "XMrg " + hv.CoqList(cs2)
	}
	return "Mrg " + hv.CoqList(cs2)
}

// ---- running a history ------------------------------------------------------------

type histResult struct {
	JA0   jaObs
	Steps []obs   // one per part (the last one is Content)
	JAs   []jaObs // JustAttributes of the remainder after every partial step
	Kids  [][]childObs
}

// runHistory: PartialContent(parts[0..split-1]) then Content(union(parts[split..])).
func runHistory(body hcl.Body, parts []Schema, split int, child *Schema) (res histResult, panicked any) {
	defer func() {
		if p := recover(); p != nil {
			panicked = p
		}
	}()
	res.JA0 = observeJA(body)
	cur := body
	for i := 0; i < split; i++ {
		c, rem, ds := cur.PartialContent(toHCLSchema(parts[i]))
		res.Steps = append(res.Steps, observe(c, ds))
		res.JAs = append(res.JAs, observeJA(rem))
		if child != nil {
			res.Kids = append(res.Kids, observeChildren(c, *child))
		}
		cur = rem
	}
	c, ds := cur.Content(toHCLSchema(unionSchema(parts[split:])))
	res.Steps = append(res.Steps, observe(c, ds))
	if child != nil {
		res.Kids = append(res.Kids, observeChildren(c, *child))
	}
	return
}

func accumulate(steps []obs) (attrs []string, blocks map[string][]string, diags map[dg]bool) {
	blocks = map[string][]string{}
	diags = map[dg]bool{}
	for _, s := range steps {
		attrs = append(attrs, s.Attrs...)
		for _, b := range s.Blocks {
			blocks[b.Type] = append(blocks[b.Type], strings.Join(b.Labels, "\x00"))
		}
		for _, d := range s.Diags {
			diags[d] = true
		}
	}
	sort.Strings(attrs)
	return
}

type failer struct {
	rep   *hv.Report
	count map[string]int
}

func (f *failer) fail(kind, class, detail, input string) {
	key := kind + "/" + class
	f.rep.Hist("oracle-fail:" + key)
	f.count[key]++
	if f.count[key] <= 4 {
		f.rep.Fail(hv.Failure{Kind: kind, Detail: detail, Input: input, Extra: map[string]string{"class": class}})
	}
}

// ---- the direct oracle ------------------------------------------------------------

func expandedFile(cs *CaseSpec, fi int) bool {
	if cs.ExpandTop {
		return true
	}
	for _, ch := range cs.Children {
		if !ch.Nested && ch.Expand && ch.Files[0] == fi {
			return true
		}
	}
	return false
}

func anyExpand(cs *CaseSpec) bool {
	if cs.ExpandTop {
		return true
	}
	for _, ch := range cs.Children {
		if ch.Expand {
			return true
		}
	}
	return false
}

func fileOrder(cs *CaseSpec) []int {
	var out []int
	for _, ch := range cs.Children {
		out = append(out, ch.Files...)
	}
	return out
}

func sameStrings(a, b []string) bool {
	if len(a) != len(b) {
		return false
	}
	for i := range a {
		if a[i] != b[i] {
			return false
		}
	}
	return true
}

func sortedCopy(a []string) []string {
	b := append([]string{}, a...)
	sort.Strings(b)
	return b
}

func diffNames(expected, actual []string) (lost, extra, dup []string) {
	e := map[string]bool{}
	for _, n := range expected {
		e[n] = true
	}
	a := map[string]int{}
	for _, n := range actual {
		a[n]++
	}
	for n := range e {
		if a[n] == 0 {
			lost = append(lost, n)
		}
	}
	for n, c := range a {
		if !e[n] {
			extra = append(extra, n)
		} else if c > 1 {
			dup = append(dup, n)
		}
	}
	sort.Strings(lost)
	sort.Strings(extra)
	sort.Strings(dup)
	return
}

func oracle(cs *CaseSpec, pf []parsedFile, main histResult, f *failer, input string, rep *hv.Report) {
	k := len(cs.Parts)
	// (O1) the two-step law at every split point, against one exhaustive step
	if !cs.Overlap {
		full, p := runHistory(buildBody(cs, pf), cs.Parts, 0, nil)
		if p != nil {
			f.fail("panic", "content-union", fmt.Sprint(p), input)
			return
		}
		ua, ub, ud := accumulate(full.Steps)
		for split := 1; split < k; split++ {
			var h histResult
			if split == k-1 {
				h = main
			} else {
				var p any
				h, p = runHistory(buildBody(cs, pf), cs.Parts, split, nil)
				if p != nil {
					f.fail("panic", "history", fmt.Sprint(p), input)
					continue
				}
			}
			rep.Hist("oracle:two-step-checked")
			ha, hb, hd := accumulate(h.Steps)
			if !sameStrings(ua, ha) {
				f.fail("two-step-differs", "attributes", fmt.Sprintf("split after %d parts: one step returns attributes %v, the steps together %v", split, ua, ha), input)
			}
			types := map[string]bool{}
			for t := range ub {
				types[t] = true
			}
			for t := range hb {
				types[t] = true
			}
			for t := range types {
				if !sameStrings(ub[t], hb[t]) {
					kind := "two-step-differs"
					f.fail(kind, "blocks", fmt.Sprintf("split after %d parts: blocks of type %q differ: one step %q, steps %q", split, t, ub[t], hb[t]), input)
				}
			}
			if (len(ud) == 0) != (len(hd) == 0) {
				f.fail("two-step-differs", "error-ness", fmt.Sprintf("split after %d parts: one step has %d diagnostics, the steps %d", split, len(ud), len(hd)), input)
			}
			var onlyU, onlyH []string
			for d := range ud {
				if !hd[d] {
					onlyU = append(onlyU, d.Kind+":"+d.Name)
				}
			}
			for d := range hd {
				if !ud[d] {
					onlyH = append(onlyH, d.Kind+":"+d.Name)
				}
			}
			if len(onlyU)+len(onlyH) > 0 {
				sort.Strings(onlyU)
				sort.Strings(onlyH)
				// (a schema part naming one block type twice with different label counts used to make
				// a stacked dynblock.Expand re-decode a dynamic block under another header in the
				// later step — repaired by /repo 5052f97; the symptom is an ordinary violation)
				kind := "two-step-differs"
				f.fail(kind, "diagnostics", fmt.Sprintf("split after %d parts: only in one step %v, only in steps %v", split, onlyU, onlyH), input)
			}
		}
	}

	// (O1c) one level down: the two-step law on the Body of every returned block
	{
		var c1, c2 Schema
		for i, a := range cs.Child.Attrs {
			if i%2 == 0 {
				c1.Attrs = append(c1.Attrs, a)
			} else {
				c2.Attrs = append(c2.Attrs, a)
			}
		}
		for i, b := range cs.Child.Blocks {
			if i%2 == 1 {
				c1.Blocks = append(c1.Blocks, b)
			} else {
				c2.Blocks = append(c2.Blocks, b)
			}
		}
		if partsDisjoint([]Schema{c1, c2}) {
			for _, ks := range main.Kids {
				for _, kd := range ks {
					func() {
						defer func() {
							if p := recover(); p != nil {
								f.fail("panic", "child-history", fmt.Sprint(p), input)
							}
						}()
						one, p1 := runHistory(kd.body, []Schema{c1, c2}, 0, nil)
						two, p2 := runHistory(kd.body, []Schema{c1, c2}, 1, nil)
						if p1 != nil || p2 != nil {
							f.fail("panic", "child-history", fmt.Sprint(p1, p2), input)
							return
						}
						rep.Hist("oracle:child-two-step-checked")
						ua, ub, ud := accumulate(one.Steps)
						ha, hb, hd := accumulate(two.Steps)
						same := sameStrings(ua, ha) && len(ud) == len(hd)
						for d := range ud {
							if !hd[d] {
								same = false
							}
						}
						for t := range ub {
							if !sameStrings(ub[t], hb[t]) {
								same = false
							}
						}
						for t := range hb {
							if !sameStrings(ub[t], hb[t]) {
								same = false
							}
						}
						if !same {
							f.fail("two-step-differs", "child-body", fmt.Sprintf("body of a returned %T: one step %v / %v / %v, two steps %v / %v / %v", kd.body, ua, ub, ud, ha, hb, hd), input)
						}
					}()
				}
			}
		}
	}

	// the remaining oracles need the abstract configuration
	for _, fs := range cs.Files {
		if fs.Cfg == nil {
			return
		}
	}

	// names each file can give as an attribute
	attrCapable := func(fi int) []string {
		var out []string
		if pf[fi].native != nil {
			for _, it := range cs.Files[fi].Cfg.Items {
				if it.IsAttr() {
					out = append(out, it.Attr)
				}
			}
			return out
		}
		for _, m := range rootMembers(pf[fi].jroot) {
			out = append(out, m.name)
		}
		return out
	}
	attrEntry := func(n string, upto int) bool { // upto exclusive
		for i := 0; i < upto; i++ {
			for _, a := range cs.Parts[i].Attrs {
				if a.Name == n {
					return true
				}
			}
		}
		return false
	}
	blockEntry := func(n string, upto int) bool {
		for i := 0; i < upto; i++ {
			for _, b := range cs.Parts[i].Blocks {
				if b.Type == n {
					return true
				}
			}
		}
		return false
	}

	// (O3) remainder untouched: JustAttributes of the remainder after step i
	for i, ja := range main.JAs {
		exp := map[string]bool{}
		for _, fi := range fileOrder(cs) {
			if pf[fi].native != nil {
				for _, n := range attrCapable(fi) {
					if !attrEntry(n, i+1) {
						exp[n] = true
					}
				}
			} else if pf[fi].jroot.kind == 'o' {
				for _, n := range attrCapable(fi) {
					if n != "//" && !attrEntry(n, i+1) && !blockEntry(n, i+1) {
						exp[n] = true
					}
				}
			}
		}
		lost, extra, _ := diffNames(sortedKeys(exp), ja.Names)
		rep.Hist("oracle:remainder-checked")
		class := "remainder"
		if anyExpand(cs) {
			class = "remainder-under-expand"
		}
		if len(lost) > 0 {
			f.fail("item-lost", class, fmt.Sprintf("after %d partial steps the remainder's JustAttributes lacks %v (has %v)", i+1, lost, ja.Names), input)
		}
		if len(extra) > 0 {
			onlyBlockNames := true
			for _, n := range extra {
				if attrEntry(n, i+1) || !blockEntry(n, i+1) {
					onlyBlockNames = false
				}
			}
			if onlyBlockNames {
				rep.Hist("detail:remainder-extra:names-consumed-as-block-types-only")
			} else {
				rep.Hist("detail:remainder-extra:includes-names-consumed-as-attributes")
			}
			f.fail("extra-item", class, fmt.Sprintf("after %d partial steps the remainder's JustAttributes returns %v, which an earlier step consumed (or which do not exist)", i+1, extra), input)
		}
		// a remainder whose blocks were all consumed must not complain about blocks
		if !cs.Merged && pf[0].native != nil {
			all := true
			for _, it := range cs.Files[0].Cfg.Items {
				if !it.IsAttr() && !blockEntry(it.Type, i+1) {
					all = false
				}
			}
			if all {
				for _, d := range ja.Diags {
					if d.Kind == "UnexpectedBlock" {
						if anyExpand(cs) {
							rep.Hist("detail:consumed-block-reported:under-expand")
						} else {
							rep.Hist("detail:consumed-block-reported:plain-native")
						}
						f.fail("extra-item", "justattributes-reports-consumed-block", fmt.Sprintf("after %d partial steps every block is consumed, yet remain.JustAttributes reports an unexpected %q block", i+1, d.Name), input)
					}
				}
			}
		}
	}

	if cs.Overlap {
		return
	}

	// (O2) exactly once: attributes
	{
		exp := map[string]bool{}
		for _, fi := range fileOrder(cs) {
			for _, n := range attrCapable(fi) {
				if attrEntry(n, k) {
					exp[n] = true
				}
			}
		}
		var actual []string
		for _, s := range main.Steps {
			actual = append(actual, s.Attrs...)
		}
		lost, extra, dup := diffNames(sortedKeys(exp), actual)
		rep.Hist("oracle:exactly-once-attrs-checked")
		if len(lost) > 0 {
			f.fail("item-lost", "attributes", fmt.Sprintf("attributes %v exist and are named by the schema but were not returned", lost), input)
		}
		if len(extra) > 0 {
			f.fail("extra-item", "attributes", fmt.Sprintf("attributes %v were returned but are not expected", extra), input)
		}
		if len(dup) > 0 {
			f.fail("item-duplicated", "attributes", fmt.Sprintf("attributes %v were returned by more than one step", dup), input)
		}
	}

	// required attributes: reported iff no file can give the attribute
	{
		have := map[string]bool{}
		for _, fi := range fileOrder(cs) {
			for _, n := range attrCapable(fi) {
				have[n] = true
			}
		}
		for i, p := range cs.Parts {
			rep.Hist("oracle:required-checked")
			reported := map[string]bool{}
			for _, d := range main.Steps[i].Diags {
				if d.Kind == "MissingRequired" {
					reported[d.Name] = true
				}
			}
			for _, a := range p.Attrs {
				if a.Required && !have[a.Name] && !reported[a.Name] {
					f.fail("item-lost", "missing-required-not-reported", fmt.Sprintf("step %d: required attribute %q is absent but no diagnostic says so", i+1, a.Name), input)
				}
				if have[a.Name] && reported[a.Name] {
					f.fail("extra-item", "missing-required-reported-for-present-attribute", fmt.Sprintf("step %d: attribute %q is present (and not consumed before) but reported as missing", i+1, a.Name), input)
				}
			}
		}
	}

	// (O2) exactly once: blocks, per type, in source order
	entries := map[string][]SBlock{}
	for _, p := range cs.Parts {
		for _, b := range p.Blocks {
			entries[b.Type] = append(entries[b.Type], b)
		}
	}
	for t, es := range entries {
		if len(es) != 1 || t == "dynamic" {
			continue
		}
		kk := es[0].Labels
		skip := false
		var exp []string
		var expChild []*Cfg // the abstract body of each expected block
		var expJSON []bool
		for _, fi := range fileOrder(cs) {
			fs := cs.Files[fi]
			isJSON := pf[fi].native == nil
			if isJSON {
				if fs.Wild || attrEntry(t, k) {
					skip = true
					break
				}
				hasAttr, hasBlock := false, false
				for _, it := range fs.Cfg.Items {
					if it.IsAttr() && it.Attr == t {
						hasAttr = true
					}
					if !it.IsAttr() && it.Type == t {
						hasBlock = true
					}
				}
				if hasAttr || (hasBlock && fs.TypeLabels[t] != kk) {
					skip = true
					break
				}
			}
			for _, it := range fs.Cfg.Items {
				if it.IsAttr() {
					continue
				}
				if it.Type == t && it.Dyn == nil {
					if isJSON || len(it.Labels) == kk {
						exp = append(exp, strings.Join(it.Labels, "\x00"))
						expChild = append(expChild, it.Body)
						expJSON = append(expJSON, isJSON)
					}
				}
				if it.Dyn != nil && it.Labels[0] == t && expandedFile(cs, fi) {
					ok := (kk == 0 && !it.Dyn.HasLabels) || (kk > 0 && it.Dyn.HasLabels && len(it.Dyn.Labels) == kk)
					if ok {
						for n := 0; n < it.Dyn.N; n++ {
							exp = append(exp, strings.Join(it.Dyn.Labels, "\x00"))
							expChild = append(expChild, it.Body)
							expJSON = append(expJSON, isJSON)
						}
					}
				}
			}
		}
		if skip {
			rep.Hist("oracle:exactly-once-blocks-skipped")
			continue
		}
		var actual []string
		for _, s := range main.Steps {
			for _, b := range s.Blocks {
				if b.Type == t {
					actual = append(actual, strings.Join(b.Labels, "\x00"))
				}
			}
		}
		rep.Hist("oracle:exactly-once-blocks-checked")
		if sameStrings(exp, actual) {
			// one level down: the attributes of every returned block's body
			var kids []childObs
			for i, st := range main.Steps {
				for j, b := range st.Blocks {
					if b.Type == t && i < len(main.Kids) && j < len(main.Kids[i]) {
						kids = append(kids, main.Kids[i][j])
					}
				}
			}
			if len(kids) == len(expChild) {
				for i, kd := range kids {
					if expChild[i] == nil {
						continue
					}
					want := map[string]bool{}
					for _, it := range expChild[i].Items {
						n := it.Attr
						if !it.IsAttr() {
							if !expJSON[i] {
								continue
							}
							n = it.Type // JSON: any property can be read as an attribute
						}
						for _, a := range cs.Child.Attrs {
							if a.Name == n {
								want[n] = true
							}
						}
					}
					lost, extra, _ := diffNames(sortedKeys(want), kd.O.Attrs)
					rep.Hist("oracle:child-exactly-once-checked")
					if len(lost) > 0 {
						f.fail("item-lost", "child-attributes", fmt.Sprintf("body of the %d. block of type %q: attributes %v exist and are named by the child schema but were not returned", i+1, t, lost), input)
					}
					if len(extra) > 0 {
						f.fail("extra-item", "child-attributes", fmt.Sprintf("body of the %d. block of type %q: attributes %v were returned but are not in that body", i+1, t, extra), input)
					}
				}
			}
			continue
		}
		se, sa := sortedCopy(exp), sortedCopy(actual)
		switch {
		case sameStrings(se, sa):
			f.fail("order-changed", "blocks", fmt.Sprintf("blocks of type %q: source order %q, returned %q", t, exp, actual), input)
		case len(actual) < len(exp):
			f.fail("item-lost", "blocks", fmt.Sprintf("blocks of type %q: expected %q, returned %q", t, exp, actual), input)
		case len(actual) > len(exp):
			f.fail("item-duplicated", "blocks", fmt.Sprintf("blocks of type %q: expected %q, returned %q", t, exp, actual), input)
		default:
			f.fail("extra-item", "blocks", fmt.Sprintf("blocks of type %q: expected %q, returned %q", t, exp, actual), input)
		}
	}
	// blocks of types the schema does not name must not be returned
	for _, s := range main.Steps {
		for _, b := range s.Blocks {
			if len(entries[b.Type]) == 0 {
				f.fail("extra-item", "blocks", fmt.Sprintf("a block of type %q was returned although no part names it", b.Type), input)
			}
		}
	}

	// (O3b) exhaustive processing reports every leftover
	if !anyExpand(cs) {
		exp := map[dg]bool{}
		for _, fi := range fileOrder(cs) {
			if pf[fi].native != nil {
				for _, it := range cs.Files[fi].Cfg.Items {
					if it.IsAttr() && !attrEntry(it.Attr, k) {
						exp[dg{"UnsupportedAttr", it.Attr}] = true
					}
					if !it.IsAttr() && !blockEntry(it.Type, k) {
						exp[dg{"UnsupportedBlock", it.Type}] = true
					}
				}
			} else {
				for _, m := range rootMembers(pf[fi].jroot) {
					if m.name != "//" && !attrEntry(m.name, k) && !blockEntry(m.name, k) {
						exp[dg{"ExtraneousProp", m.name}] = true
					}
				}
			}
		}
		act := map[dg]bool{}
		for _, d := range main.Steps[len(main.Steps)-1].Diags {
			if d.Kind == "UnsupportedAttr" || d.Kind == "UnsupportedBlock" || d.Kind == "ExtraneousProp" {
				act[d] = true
			}
		}
		rep.Hist("oracle:leftovers-checked")
		for d := range exp {
			if !act[d] {
				f.fail("item-lost", "leftover-not-reported", fmt.Sprintf("%s %q is not consumed by any part but the exhaustive step does not report it", d.Kind, d.Name), input)
			}
		}
		for d := range act {
			if !exp[d] {
				f.fail("extra-item", "leftover-reported-twice", fmt.Sprintf("%s %q is reported by the exhaustive step although it was consumed (or does not exist)", d.Kind, d.Name), input)
			}
		}
	}
}

// ---- hand corpus ------------------------------------------------------------------

func hclFile(src string) FileSpec  { return FileSpec{Syntax: "hcl", Src: src} }
func jsonFile(src string) FileSpec { return FileSpec{Syntax: "json", Src: src} }
func withCfg(f FileSpec, items ...Item) FileSpec {
	f.Cfg = &Cfg{Items: items}
	f.TypeLabels = map[string]int{}
	for _, it := range items {
		if !it.IsAttr() {
			f.TypeLabels[it.Type] = len(it.Labels)
		}
	}
	return f
}
func single(f FileSpec, expand bool, parts ...Schema) *CaseSpec {
	return &CaseSpec{Files: []FileSpec{f}, Children: []Child{{Files: []int{0}, Expand: expand}}, Parts: parts}
}
func merged(fs []FileSpec, expandTop bool, parts ...Schema) *CaseSpec {
	cs := &CaseSpec{Files: fs, Merged: true, ExpandTop: expandTop, Parts: parts}
	for i := range fs {
		cs.Children = append(cs.Children, Child{Files: []int{i}})
	}
	return cs
}
func sa(names ...string) []SAttr {
	var out []SAttr
	for _, n := range names {
		req := strings.HasSuffix(n, "!")
		out = append(out, SAttr{Name: strings.TrimSuffix(n, "!"), Required: req})
	}
	return out
}

func corpus() []*CaseSpec {
	blk0 := []SBlock{{"blk", 0}}
	return []*CaseSpec{
		// minimal forms of the two findings (with abstract configuration, so the oracle applies)
		single(withCfg(hclFile("a = 1\nblk {}\n"), Item{Attr: "a", Val: 1}, Item{Type: "blk", Body: &Cfg{}}), false,
			Schema{Blocks: blk0}, Schema{Attrs: sa("a")}),
		single(withCfg(hclFile("a = 1\nb = 2\n"), Item{Attr: "a", Val: 1}, Item{Attr: "b", Val: 2}), true,
			Schema{Attrs: sa("a")}, Schema{Attrs: sa("b")}),
		// the same two questions for a remainder of an Expand-wrapped body whose BLOCK was consumed
		single(withCfg(hclFile("blk {}\n"), Item{Type: "blk", Body: &Cfg{}}), true, Schema{Blocks: blk0}, Schema{}),
		single(withCfg(jsonFile(`{"blk": {}}`), Item{Type: "blk", Body: &Cfg{}}), true, Schema{Blocks: blk0}, Schema{}),
		single(withCfg(jsonFile(`{"blk": {}}`), Item{Type: "blk", Body: &Cfg{}}), false, Schema{Blocks: blk0}, Schema{}),
		single(jsonFile(`{"x": {"l": {}}}`), false, Schema{Blocks: []SBlock{{"x", 1}}}, Schema{Attrs: sa("x")}),
		single(jsonFile(`{"x": {"l": {}}}`), false, Schema{Attrs: sa("x")}, Schema{Blocks: []SBlock{{"x", 1}}}),
		merged([]FileSpec{hclFile("a = 1\n"), jsonFile(`{"b": 2, "a": 3}`)}, false, Schema{Attrs: sa("b!", "c!")}, Schema{Attrs: sa("a!")}),
		single(jsonFile(`{"a": 1, "a": 2, "//": "c"}`), false, Schema{}, Schema{Attrs: sa("a")}),
		single(hclFile("blk \"l\" {}\nblk {}\nblk \"p\" \"q\" {}\n"), false, Schema{Blocks: blk0}, Schema{Blocks: []SBlock{{"foo", 1}}}),
		single(hclFile("blk \"l\" {}\nblk {}\nblk \"p\" \"q\" {}\n"), true, Schema{Blocks: []SBlock{{"blk", 2}}}, Schema{Attrs: sa("z!")}, Schema{}),
		single(jsonFile(`[{"a": 1}, 5, {"blk": [{"l": {}}, {"m": [{}, {}]}]}]`), false, Schema{Attrs: sa("a")}, Schema{Blocks: []SBlock{{"blk", 1}}}),
		single(jsonFile(`{"blk": {"l": {}}, "foo": null, "bar": 5}`), false, Schema{Blocks: []SBlock{{"blk", 2}, {"foo", 1}}}, Schema{Blocks: []SBlock{{"bar", 0}}}),
		single(hclFile("a = 1\ndynamic \"blk\" {\n  for_each = [1, 2]\n  labels = [\"k\"]\n  content {\n    b = 1\n  }\n}\nblk \"s\" {}\n"), true,
			Schema{Attrs: sa("a")}, Schema{Blocks: []SBlock{{"blk", 1}}}),
		single(jsonFile(`{"a": 1, "dynamic": {"blk": {"for_each": [1, 2, 3], "content": {"b": 1}}}, "blk": {}}`), true,
			Schema{Blocks: blk0}, Schema{Attrs: sa("a")}),
		single(hclFile("dynamic \"blk\" {\n  for_each = [1]\n  labels = [\"k\"]\n  content {}\n}\n"), true, Schema{}, Schema{Blocks: blk0}),
		single(hclFile("dynamic \"blk\" {\n  for_each = [1]\n  content {}\n}\n"), true, Schema{}, Schema{Blocks: []SBlock{{"blk", 1}}}),
		merged([]FileSpec{hclFile("a = 1\nblk {}\n"), hclFile("a = 2\nblk \"x\" {}\n"), jsonFile(`{"blk": [{}, {}], "c": 1}`)}, true,
			Schema{Attrs: sa("a")}, Schema{Blocks: blk0}, Schema{Attrs: sa("c!")}),
		func() *CaseSpec {
			cs := merged([]FileSpec{hclFile("a = 1\n"), hclFile("b = 1\n"), jsonFile(`{"c": 1}`)}, false, Schema{Attrs: sa("a", "c")}, Schema{Attrs: sa("b")})
			cs.Children = []Child{{Files: []int{0, 1}, Nested: true}, {Files: []int{2}, Expand: true}, {Nested: true}}
			return cs
		}(),
	}
}

// ---- main loop ----------------------------------------------------------------------

func runC04(cfg *hv.RunCfg) error {
	rep := hv.NewReport("C04", cfg.Seed)
	rep.Rule = "abstract configurations (attributes, blocks with 0..3 labels and - types deep/wide/octo and, in the many-labels stream (14 % of the cases), one more type - 4..8 labels, nesting, a few dynamic blocks; many-labels stream: label FAMILIES = consecutive blocks of one long-header type whose label vectors form a tree with 2-4 sibling names at every level along a spine, also at the innermost level, repeated vectors and repeated sibling names, rendered in JSON as nested label objects / arrays of label objects with several keys per level, also in nested block bodies, under dynamic blocks with labels lists of that length and merged with native files of the same types) rendered as native text and/or as JSON text in randomly chosen admissible encodings (object / array-of-objects bodies, label objects / arrays, duplicate property names, \"//\" comments, plus a mutated stream with null / mistyped / duplicate properties); single files, dynblock.Expand of them, hcl.MergeBodies / MergeFiles of 2-3 files of mixed syntax (nested merges, expanded children, expanded merges); histories of 1-4 schema parts (required attributes, absent names, label-count mismatches, kind confusion), name-disjoint or (overlap stream) not; about 40 % of the cases also carry a tree-shaped history of 3-8 operations over a table of bodies (any body obtained so far - root, remainder, Expand of it, Body of a returned block - may be picked again; PartialContent / Content / JustAttributes / dynblock.Expand / block body; overlapping and repeated schemata), all run on the same Go objects; non-trivial = at least one item and at least one schema entry; distinct by SHA-256 of the replay form"
	r := hv.NewRng(cfg.Seed, 4)
	cf := &hv.CaseFile{Dir: cfg.Out, Name: "c04cases",
		Imports: "From Coq Require Import String.\nFrom HclV Require Import Base.Prelude Body.Laws Body.Native Body.Json Body.Merged Body.BodyCheck.",
		Ctype:   "case", Checker: "check_body_cases"}
	g := &gen{r: r, feat: map[string]int{}}
	f := &failer{rep: rep, count: map[string]int{}}

	var cases []*CaseSpec
	if cfg.Replay != "" {
		b, err := os.ReadFile(cfg.Replay)
		if err != nil {
			return err
		}
		cs := &CaseSpec{}
		if err := json.Unmarshal(b, cs); err != nil {
			return fmt.Errorf("replay file: %v", err)
		}
		cases = []*CaseSpec{cs}
	} else {
		cases = append(cases, corpus()...)
		cases = append(cases, treeCorpus()...)
		cases = append(cases, labelCorpus()...)
		if extra, err := filepath.Glob("/verif/corpus/C04/*.json"); err == nil {
			sort.Strings(extra)
			for _, p := range extra {
				if b, err := os.ReadFile(p); err == nil {
					cs := &CaseSpec{}
					if json.Unmarshal(b, cs) == nil {
						cases = append(cases, cs)
					}
				}
			}
		}
		for i := 0; i < cfg.N; i++ {
			cases = append(cases, g.genCase())
		}
	}

	for _, cs := range cases {
		if !partsDisjoint(cs.Parts) {
			cs.Overlap = true
		}
		if len(cs.Parts) == 0 {
			cs.Parts = []Schema{{}}
		}
		inb, _ := json.Marshal(cs)
		input := string(inb)
		pf, err := parseFiles(cs)
		if err != nil {
			rep.Notes = append(rep.Notes, "skipped case: "+err.Error())
			rep.Hist("skipped:unparseable-input")
			continue
		}
		k := len(cs.Parts)
		rootBody := buildBody(cs, pf)
		main, p := runHistory(rootBody, cs.Parts, k-1, &cs.Child)
		if p != nil {
			f.fail("panic", "history", fmt.Sprint(p), input)
			continue
		}
		for i := range main.Kids {
			for j := range main.Kids[i] {
				kd := &main.Kids[i][j]
				kd.Depth = settleDepth(layerDepth(cs, kd.file), kd.Expanded, rep)
				if kd.Depth >= 2 {
					rep.Hist("child:under-two-expand-layers")
				}
			}
		}
		// tree-shaped history on the SAME root object (bodies are values)
		treeOps := runTree(cs, rootBody, f, input, rep)
		// the Coq case
		var steps []string
		for i := 0; i < k-1; i++ {
			steps = append(steps, fmt.Sprintf("(%s, %s, %s, %s)", coqSchema(cs.Parts[i]), coqObs(main.Steps[i]), coqJA(main.JAs[i]), coqChildren(main.Kids[i])))
		}
		cf.Add(fmt.Sprintf("Case (%s) (%s) %s %s (%s, %s, %s) %s", coqBody(cs, pf), coqSchema(cs.Child), coqJA(main.JA0), hv.CoqList(steps),
			coqSchema(cs.Parts[k-1]), coqObs(main.Steps[k-1]), coqChildren(main.Kids[k-1]), hv.CoqList(treeOps)))
		rep.Idx(input)
		nitems, nentries := 0, 0
		for _, fs := range cs.Files {
			if fs.Cfg != nil {
				nitems += len(fs.Cfg.Items)
			} else {
				nitems++
			}
		}
		for _, pt := range cs.Parts {
			nentries += len(pt.Attrs) + len(pt.Blocks)
		}
		rep.Count(input, nitems > 0 && nentries > 0)
		if len(input) < 400 {
			rep.Sample(json.RawMessage(inb))
		}
		// histogram
		rep.Hist(fmt.Sprintf("parts:%d", k))
		if cs.Overlap {
			rep.Hist("stream:overlapping-parts")
		} else {
			rep.Hist("stream:disjoint-parts")
		}
		for _, s := range main.Steps {
			for _, d := range s.Diags {
				rep.Hist("diag:" + d.Kind)
			}
			if len(s.Blocks) > 0 {
				rep.Hist("step:returns-blocks")
			}
			if len(s.Attrs) > 0 {
				rep.Hist("step:returns-attrs")
			}
		}
		for _, ja := range main.JAs {
			for _, d := range ja.Diags {
				rep.Hist("ja-diag:" + d.Kind)
			}
		}
		for _, ks := range main.Kids {
			for _, kd := range ks {
				rep.Hist("child:content-applied")
				if kd.Expanded {
					rep.Hist("child:expand-wrapped")
				}
				if len(kd.O.Attrs)+len(kd.O.Blocks) > 0 {
					rep.Hist("child:returns-items")
				}
				for _, d := range kd.O.Diags {
					rep.Hist("child-diag:" + d.Kind)
				}
			}
		}
		oracle(cs, pf, main, f, input, rep)
		// block identity (type, labels in order, label ranges), held across later calls (labels.go)
		labelStats(cs, rep)
		runLabelOracle(cs, pf, f, input, rep)
	}
	for k, v := range g.feat {
		rep.Histogram["feat:"+k] += v
	}
	names, err := cf.Flush(300)
	if err != nil {
		return err
	}
	rep.CaseFiles = names
	return rep.Write(cfg.Out)
}
