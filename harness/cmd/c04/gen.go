package main

// Abstract configurations, schemata and histories for C04, and their generator.

import (
	"fmt"
	"sort"

	"hclverif/hv"
)

// Item is one item of an abstract body, in source order.
type Item struct {
	// attribute
	Attr string `json:"attr,omitempty"`
	Val  int    `json:"val,omitempty"`
	// block
	Type   string   `json:"type,omitempty"`
	Labels []string `json:"labels,omitempty"`
	Body   *Cfg     `json:"body,omitempty"`
	// dynamic block (Type == "dynamic", Labels == [real type])
	Dyn *DynSpec `json:"dyn,omitempty"`
}

// DynSpec: dynamic "T" { for_each = [0..N-1]; labels = [L...]; content {...} }
type DynSpec struct {
	N         int      `json:"n"`
	HasLabels bool     `json:"has_labels"`
	Labels    []string `json:"labels"`
}

type Cfg struct {
	Items []Item `json:"items"`
}

func (it *Item) IsAttr() bool { return it.Attr != "" }

// Schema mirrors hcl.BodySchema.
type SAttr struct {
	Name     string `json:"name"`
	Required bool   `json:"required,omitempty"`
}
type SBlock struct {
	Type   string `json:"type"`
	Labels int    `json:"labels"`
}
type Schema struct {
	Attrs  []SAttr  `json:"attrs"`
	Blocks []SBlock `json:"blocks"`
}

func (s Schema) names() map[string]bool {
	m := map[string]bool{}
	for _, a := range s.Attrs {
		m[a.Name] = true
	}
	for _, b := range s.Blocks {
		m[b.Type] = true
	}
	return m
}

func unionSchema(parts []Schema) Schema {
	var u Schema
	for _, p := range parts {
		u.Attrs = append(u.Attrs, p.Attrs...)
		u.Blocks = append(u.Blocks, p.Blocks...)
	}
	return u
}

// FileSpec is one source file of a case.
type FileSpec struct {
	Syntax string `json:"syntax"` // "hcl" | "json"
	Src    string `json:"src"`
	Cfg    *Cfg   `json:"cfg"`  // abstract configuration the file was rendered from
	Wild   bool   `json:"wild"` // JSON text was mutated: the abstract cfg no longer describes it exactly
	// label count each block type was ENCODED with (JSON needs the schema to agree)
	TypeLabels map[string]int `json:"type_labels"`
}

// Child of a merge: a single file (possibly under dynblock.Expand) or a nested
// MergeBodies of several files.
type Child struct {
	Files  []int `json:"files"`
	Nested bool  `json:"nested,omitempty"`
	Expand bool  `json:"expand,omitempty"`
}

// CaseSpec is the replayable input of one case.
type CaseSpec struct {
	Files     []FileSpec `json:"files"`
	Children  []Child    `json:"children"`
	Merged    bool       `json:"merged"`     // hcl.MergeBodies / MergeFiles over Children
	UseFiles  bool       `json:"use_files"`  // MergeFiles instead of MergeBodies (all children plain, not expanded)
	ExpandTop bool       `json:"expand_top"` // dynblock.Expand around the merge
	Parts     []Schema   `json:"parts"`      // PartialContent for all but the last, Content for the last
	Overlap   bool       `json:"overlap"`    // parts are NOT name-disjoint: observed, not subject to the law
	// schema applied (Content) to the Body of every block a step returns
	Child Schema `json:"child"`
	// tree-shaped history over the same body (tree.go): operations that pick any
	// body obtained so far, also one that was used before
	Tree []TOp `json:"tree,omitempty"`
}

var attrPool = []string{"a", "b", "c", "d", "e", "f"}
var blockPool = []string{"blk", "foo", "bar", "svc"}
var labelPool = []string{"l1", "l2", "l3", "l1", "l2", "//"}

// block types with long headers (every case's type_labels table has them)
var deepPool = []string{"deep", "wide", "octo"}
var deepLabels = map[string]int{"deep": 4, "wide": 6, "octo": 8}

// sibling names of a label family (distinct picks at one label level)
var famLabelPool = []string{"l1", "l2", "l3", "l4", "l5", "k", "m", "n-1", "//", "p.q"}

const manyLabelsMin = 4 // a header is "long" from this label count on

const sharedName = "x" // may be an attribute in one place and a block type in another

type gen struct {
	r    *hv.Rng
	feat map[string]int
	// label count per block type for the current case
	typeLabels map[string]int
	allowDyn   bool
	// many-labels stream: the case has label FAMILIES (blocks of one long-header
	// type whose label vectors form a tree with several siblings at every level)
	many    bool
	famLeft int // families still allowed in this case
}

func (g *gen) f(k string) { g.feat[k]++ }

// longTypes: the block types of the current case with >= manyLabelsMin labels.
func (g *gen) longTypes() []string {
	var out []string
	for _, t := range append(append([]string{}, blockPool...), deepPool...) {
		if g.typeLabels[t] >= manyLabelsMin {
			out = append(out, t)
		}
	}
	return out
}

// pickBlockType draws the type of a block / dynamic block.
func (g *gen) pickBlockType() string {
	if g.many && g.r.Chance(0.45) {
		lt := g.longTypes()
		return lt[g.r.Intn(len(lt))]
	}
	if g.r.Chance(0.05) {
		return deepPool[g.r.Intn(len(deepPool))]
	}
	return blockPool[g.r.Intn(len(blockPool))]
}

// labelFamily draws the label vectors of a family of blocks with k labels, in
// depth-first order of a label TREE: along a random spine every level has 2-4
// sibling names (also the innermost one, so some blocks differ only in the last
// label); side branches mostly continue as chains, sometimes fork again; a few
// vectors occur twice (several block instances under one innermost label) and a
// sibling name may come back after another one (a repeated key at that level).
func (g *gen) labelFamily(k int) [][]string {
	var out [][]string
	var rec func(prefix []string, level int, spine bool)
	rec = func(prefix []string, level int, spine bool) {
		if level == k {
			n := 1
			if g.r.Chance(0.12) {
				n = 2
			}
			for i := 0; i < n; i++ {
				out = append(out, append([]string{}, prefix...))
			}
			return
		}
		fan := 1
		switch {
		case len(out) > 12:
		case spine:
			fan = 2
			if g.r.Chance(0.25) {
				fan = 3 + g.r.Intn(2)
			}
		case g.r.Chance(0.2):
			fan = 2
		}
		perm := g.r.Perm(len(famLabelPool))
		names := make([]string, fan)
		for i := range names {
			names[i] = famLabelPool[perm[i]]
		}
		if fan >= 3 && g.r.Chance(0.15) {
			names[fan-1] = names[0]
		}
		on := g.r.Intn(fan)
		for i, nm := range names {
			rec(append(append([]string{}, prefix...), nm), level+1, spine && i == on)
		}
	}
	rec(nil, 0, true)
	return out
}

func (g *gen) labels(n int) []string {
	out := make([]string, n)
	for i := range out {
		out[i] = labelPool[g.r.Intn(len(labelPool))]
	}
	return out
}

func (g *gen) freshTypeLabels() {
	g.typeLabels = map[string]int{}
	for _, t := range append(append([]string{}, blockPool...), sharedName) {
		k := g.r.Small(3)
		g.typeLabels[t] = k
	}
	for _, t := range deepPool {
		g.typeLabels[t] = deepLabels[t]
	}
	if g.many {
		// one of the ordinary types gets a long header too (4..8: also the odd counts)
		g.typeLabels[blockPool[g.r.Intn(len(blockPool))]] = manyLabelsMin + g.r.Intn(5)
	}
}

// genCfg generates an abstract body. exact=true keeps every block of a type at
// the type's label count (so that a JSON rendering denotes the same thing).
func (g *gen) genCfg(depth int, exact bool) *Cfg {
	c := &Cfg{}
	n := g.r.Small(5)
	if depth == 0 {
		n += g.r.Intn(3)
	}
	usedAttr := map[string]bool{}
	usedBlock := map[string]bool{}
	nfam := 0
	for i := 0; i < n; i++ {
		if g.r.Chance(0.5) {
			name := attrPool[g.r.Intn(len(attrPool))]
			if g.r.Chance(0.12) && !usedBlock[sharedName] {
				name = sharedName
			}
			if usedAttr[name] {
				continue
			}
			usedAttr[name] = true
			c.Items = append(c.Items, Item{Attr: name, Val: 1 + g.r.Intn(9)})
			continue
		}
		if g.many && g.famLeft > 0 && g.r.Chance(0.45) {
			g.addFamily(c, depth, exact)
			usedBlock[c.Items[len(c.Items)-1].Type] = true
			nfam++
			continue
		}
		if g.allowDyn && g.r.Chance(0.22) {
			t := g.pickBlockType()
			k := g.typeLabels[t]
			if k >= manyLabelsMin {
				g.f("cfg:dynamic-block-with>=4-labels")
			}
			d := &DynSpec{N: g.r.Intn(4)}
			if k > 0 {
				d.HasLabels = true
				d.Labels = g.labels(k)
			}
			if g.r.Chance(0.3) {
				// label trouble
				switch g.r.Intn(3) {
				case 0:
					d.HasLabels = !d.HasLabels
					if d.HasLabels {
						d.Labels = g.labels(1)
					} else {
						d.Labels = nil
					}
				case 1:
					d.HasLabels = true
					d.Labels = g.labels(k + 1)
				case 2:
					if k > 0 {
						d.Labels = g.labels(k - 1)
					}
				}
				g.f("cfg:dynamic-label-trouble")
			}
			var body *Cfg
			if depth < 2 {
				body = g.genCfg(depth+1, exact)
			} else {
				body = &Cfg{}
			}
			usedBlock["dynamic"] = true
			c.Items = append(c.Items, Item{Type: "dynamic", Labels: []string{t}, Body: body, Dyn: d})
			g.f("cfg:dynamic-block")
			continue
		}
		t := g.pickBlockType()
		if g.r.Chance(0.1) && !usedAttr[sharedName] {
			t = sharedName
		}
		k := g.typeLabels[t]
		if !exact && g.r.Chance(0.12) {
			if k > 0 && g.r.Chance(0.5) {
				k--
			} else {
				k++
			}
			g.f("cfg:block-label-count-deviates")
		}
		var body *Cfg
		if depth < 2 && g.r.Chance(0.6) {
			body = g.genCfg(depth+1, exact)
		} else {
			body = &Cfg{}
		}
		usedBlock[t] = true
		c.Items = append(c.Items, Item{Type: t, Labels: g.labels(k), Body: body})
	}
	if depth == 0 && g.many && g.famLeft > 0 && nfam == 0 && g.r.Chance(0.8) {
		g.addFamily(c, depth, exact)
	}
	return c
}

// addFamily appends a label family: consecutive blocks of one long-header type.
func (g *gen) addFamily(c *Cfg, depth int, exact bool) {
	g.famLeft--
	lt := g.longTypes()
	t := lt[g.r.Intn(len(lt))]
	fam := g.labelFamily(g.typeLabels[t])
	for _, ls := range fam {
		body := &Cfg{}
		switch {
		case depth < 1 && g.r.Chance(0.08):
			body = g.genCfg(depth+1, exact)
		case g.r.Chance(0.3):
			body.Items = []Item{{Attr: attrPool[g.r.Intn(len(attrPool))], Val: 1 + g.r.Intn(9)}}
		}
		c.Items = append(c.Items, Item{Type: t, Labels: ls, Body: body})
	}
	g.f("cfg:label-family")
	g.f(fmt.Sprintf("cfg:label-family:labels=%d", g.typeLabels[t]))
	if depth > 0 {
		g.f("cfg:label-family-in-nested-body")
	}
}

// genSchema draws a total schema related to the given configurations and splits
// it into k parts.
func (g *gen) genParts(cfgs []*Cfg, overlap bool) []Schema {
	attrCand := map[string]bool{}
	blockCand := map[string]bool{}
	for _, c := range cfgs {
		for _, it := range c.Items {
			if it.IsAttr() {
				attrCand[it.Attr] = true
			} else if it.Type == "dynamic" {
				blockCand[it.Labels[0]] = true
			} else {
				blockCand[it.Type] = true
			}
		}
	}
	var total Schema
	usedA := map[string]bool{}
	addAttr := func(n string) {
		if usedA[n] {
			return
		}
		usedA[n] = true
		req := g.r.Chance(0.3)
		if req {
			g.f("schema:required-attr")
		}
		total.Attrs = append(total.Attrs, SAttr{Name: n, Required: req})
	}
	for _, n := range sortedKeys(attrCand) {
		if g.r.Chance(0.7) {
			addAttr(n)
		}
	}
	if g.r.Chance(0.4) {
		addAttr(g.r.Pick("zz", "yy", "f", "e")) // probably absent
		g.f("schema:maybe-absent-attr")
	}
	addBlock := func(t string) {
		k := g.typeLabels[t]
		if g.r.Chance(0.15) {
			if k > 0 && g.r.Chance(0.5) {
				k--
			} else {
				k++
			}
			g.f("schema:label-count-mismatch")
		}
		total.Blocks = append(total.Blocks, SBlock{Type: t, Labels: k})
	}
	for _, t := range sortedKeys(blockCand) {
		if g.r.Chance(0.7) {
			addBlock(t)
			if g.r.Chance(0.03) {
				addBlock(t) // same type twice: the last entry wins
				g.f("schema:block-type-twice")
			}
		}
	}
	if g.r.Chance(0.3) {
		addBlock(g.r.Pick("nob", "svc", "bar"))
		g.f("schema:maybe-absent-block")
	}
	if g.r.Chance(0.1) {
		// kind confusion: ask for a block type as attribute / an attribute as block
		if len(blockCand) > 0 && g.r.Chance(0.5) {
			addAttr(sortedKeys(blockCand)[0])
		} else if len(attrCand) > 0 {
			t := sortedKeys(attrCand)[0]
			total.Blocks = append(total.Blocks, SBlock{Type: t, Labels: g.r.Intn(2)})
		}
		g.f("schema:kind-confusion")
	}
	if g.r.Chance(0.03) {
		total.Blocks = append(total.Blocks, SBlock{Type: "dynamic", Labels: 1})
		g.f("schema:names-dynamic")
	}

	k := 2 + g.r.Small(2)
	if g.r.Chance(0.08) {
		k = 1
	}
	parts := make([]Schema, k)
	for i := range parts {
		parts[i] = Schema{Attrs: []SAttr{}, Blocks: []SBlock{}}
	}
	where := map[string]int{}
	place := func(n string) int {
		if p, ok := where[n]; ok {
			return p
		}
		p := g.r.Intn(k)
		where[n] = p
		return p
	}
	for _, a := range total.Attrs {
		p := place(a.Name)
		parts[p].Attrs = append(parts[p].Attrs, a)
	}
	for _, b := range total.Blocks {
		p := place(b.Type)
		parts[p].Blocks = append(parts[p].Blocks, b)
	}
	if overlap && k > 1 {
		// copy some entries into another part as well
		n := 1 + g.r.Intn(2)
		for i := 0; i < n; i++ {
			from, to := g.r.Intn(k), g.r.Intn(k)
			if from == to {
				to = (to + 1) % k
			}
			if len(parts[from].Attrs) > 0 && g.r.Chance(0.5) {
				a := parts[from].Attrs[g.r.Intn(len(parts[from].Attrs))]
				dup := false
				for _, x := range parts[to].Attrs {
					if x.Name == a.Name {
						dup = true
					}
				}
				if !dup {
					a.Required = g.r.Chance(0.4)
					parts[to].Attrs = append(parts[to].Attrs, a)
				}
			} else if len(parts[from].Blocks) > 0 {
				b := parts[from].Blocks[g.r.Intn(len(parts[from].Blocks))]
				if g.r.Chance(0.3) {
					b.Labels++
				}
				parts[to].Blocks = append(parts[to].Blocks, b)
			} else if len(parts[from].Attrs) > 0 {
				// same NAME as attribute in one part and block type in the other
				a := parts[from].Attrs[0]
				parts[to].Blocks = append(parts[to].Blocks, SBlock{Type: a.Name, Labels: 0})
			}
		}
	}
	return parts
}

func sortedKeys(m map[string]bool) []string {
	ks := make([]string, 0, len(m))
	for k := range m {
		ks = append(ks, k)
	}
	sort.Strings(ks)
	return ks
}

// partsDisjoint reports whether the parts are pairwise NAME-disjoint and every
// part lists each attribute name once.
func partsDisjoint(parts []Schema) bool {
	seen := map[string]int{}
	for i, p := range parts {
		an := map[string]bool{}
		for _, a := range p.Attrs {
			if an[a.Name] {
				return false
			}
			an[a.Name] = true
		}
		for n := range p.names() {
			if j, ok := seen[n]; ok && j != i {
				return false
			}
			seen[n] = i
		}
	}
	return true
}

// genCase draws a whole case.
func (g *gen) genCase() *CaseSpec {
	g.many = g.r.Chance(0.14)
	g.famLeft = 0
	if g.many {
		g.f("stream:many-labels")
	}
	g.freshTypeLabels()
	cs := &CaseSpec{}
	shape := g.r.Intn(100)
	nfiles := 1
	switch {
	case shape < 22:
		g.f("shape:native")
	case shape < 44:
		g.f("shape:json")
	case shape < 56:
		g.f("shape:expand(single)")
	default:
		nfiles = 2 + g.r.Intn(2)
		cs.Merged = true
	}
	anyExpand := false
	if !cs.Merged {
		ch := Child{Files: []int{0}}
		if shape >= 44 {
			ch.Expand = true
			anyExpand = true
		}
		cs.Children = []Child{ch}
	} else {
		cs.ExpandTop = g.r.Chance(0.25)
		anyExpand = cs.ExpandTop
		i := 0
		for i < nfiles {
			if nfiles-i >= 2 && g.r.Chance(0.2) {
				cs.Children = append(cs.Children, Child{Files: []int{i, i + 1}, Nested: true})
				g.f("merge:nested-child")
				i += 2
				continue
			}
			ch := Child{Files: []int{i}}
			if g.r.Chance(0.2) {
				ch.Expand = true
				anyExpand = true
				g.f("merge:expanded-child")
			}
			cs.Children = append(cs.Children, ch)
			i++
		}
		if g.r.Chance(0.05) {
			cs.Children = append(cs.Children, Child{Nested: true}) // an empty merged body
			g.f("merge:empty-child")
		}
		plain := true
		for _, ch := range cs.Children {
			if ch.Nested || ch.Expand {
				plain = false
			}
		}
		cs.UseFiles = plain && g.r.Chance(0.5)
		switch {
		case cs.ExpandTop:
			g.f("shape:expand(merged)")
		default:
			g.f("shape:merged")
		}
	}
	g.allowDyn = anyExpand || g.r.Chance(0.1)
	wantTree := g.r.Chance(0.4)
	if wantTree && g.r.Chance(0.5) {
		g.allowDyn = true // the tree may apply dynblock.Expand to a derived body
	}
	var cfgs []*Cfg
	for i := 0; i < nfiles; i++ {
		syntax := "hcl"
		switch {
		case !cs.Merged && shape >= 22 && shape < 44:
			syntax = "json"
		case !cs.Merged && shape >= 44:
			if g.r.Chance(0.35) {
				syntax = "json"
			}
		case cs.Merged:
			if g.r.Chance(0.5) {
				syntax = "json"
			}
		}
		exact := syntax == "json" || g.r.Chance(0.5)
		if g.many {
			g.famLeft = 1 + g.r.Intn(3)/2 // per file
		}
		cfg := g.genCfg(0, exact)
		fs := FileSpec{Syntax: syntax, Cfg: cfg, TypeLabels: g.typeLabels}
		if syntax == "json" {
			fs.Src, fs.Wild = g.renderJSONFile(cfg)
			g.f("file:json")
		} else {
			fs.Src = renderNative(cfg, g.r)
			g.f("file:native")
		}
		cs.Files = append(cs.Files, fs)
		cfgs = append(cfgs, cfg)
	}
	if cs.Merged {
		hasN, hasJ := false, false
		for _, f := range cs.Files {
			if f.Syntax == "json" {
				hasJ = true
			} else {
				hasN = true
			}
		}
		if hasN && hasJ {
			g.f("merge:mixed-syntax")
		}
	}
	cs.Overlap = g.r.Chance(0.15)
	cs.Parts = g.genParts(cfgs, cs.Overlap)
	if cs.Overlap && partsDisjoint(cs.Parts) {
		cs.Overlap = false
	}
	if !cs.Overlap && !partsDisjoint(cs.Parts) {
		cs.Overlap = true
	}
	cs.Child = g.genChildSchema()
	if wantTree {
		cs.Tree = g.genTree(cs)
	}
	return cs
}

// genChildSchema draws the schema applied to the bodies of returned blocks.
func (g *gen) genChildSchema() Schema {
	s := Schema{Attrs: []SAttr{}, Blocks: []SBlock{}}
	for _, n := range append(append([]string{}, attrPool...), sharedName) {
		if g.r.Chance(0.5) {
			s.Attrs = append(s.Attrs, SAttr{Name: n, Required: g.r.Chance(0.2)})
		}
	}
	for _, t := range blockPool {
		if g.r.Chance(0.5) {
			k := g.typeLabels[t]
			if g.r.Chance(0.15) {
				k++
			}
			s.Blocks = append(s.Blocks, SBlock{Type: t, Labels: k})
		}
	}
	for _, t := range deepPool {
		if g.r.Chance(0.2) || (g.many && g.r.Chance(0.5)) {
			s.Blocks = append(s.Blocks, SBlock{Type: t, Labels: g.typeLabels[t]})
		}
	}
	return s
}
