package main

// Rendering of abstract configurations as native-syntax text and as JSON text
// (choosing among the admissible JSON encodings), and as Coq terms.

import (
	"fmt"
	"sort"
	"strings"

	"github.com/hashicorp/hcl/v2/hclsyntax"
	"github.com/zclconf/go-cty/cty"
	"hclverif/hv"
)

// ---- native ---------------------------------------------------------------------

func renderNative(c *Cfg, r *hv.Rng) string {
	var sb strings.Builder
	renderNativeBody(&sb, c, 0, r)
	return sb.String()
}

func ind(sb *strings.Builder, d int) { sb.WriteString(strings.Repeat("  ", d)) }

func isIdent(s string) bool {
	if s == "" {
		return false
	}
	for i, c := range s {
		if !(c == '_' || (c >= 'a' && c <= 'z') || (c >= 'A' && c <= 'Z') || (i > 0 && c >= '0' && c <= '9')) {
			return false
		}
	}
	return true
}

func renderNativeBody(sb *strings.Builder, c *Cfg, d int, r *hv.Rng) {
	for _, it := range c.Items {
		ind(sb, d)
		if it.IsAttr() {
			switch it.Val % 4 {
			case 0:
				fmt.Fprintf(sb, "%s = \"s%d\"\n", it.Attr, it.Val)
			case 1:
				fmt.Fprintf(sb, "%s = [%d, 2]\n", it.Attr, it.Val)
			default:
				fmt.Fprintf(sb, "%s = %d\n", it.Attr, it.Val)
			}
			continue
		}
		sb.WriteString(it.Type)
		for _, l := range it.Labels {
			if isIdent(l) && r.Chance(0.3) {
				sb.WriteString(" " + l)
			} else {
				fmt.Fprintf(sb, " %q", l)
			}
		}
		sb.WriteString(" {\n")
		if it.Dyn != nil {
			ind(sb, d+1)
			var xs []string
			for i := 0; i < it.Dyn.N; i++ {
				xs = append(xs, fmt.Sprint(i))
			}
			fmt.Fprintf(sb, "for_each = [%s]\n", strings.Join(xs, ", "))
			if it.Dyn.HasLabels {
				ind(sb, d+1)
				var ls []string
				for _, l := range it.Dyn.Labels {
					ls = append(ls, fmt.Sprintf("%q", l))
				}
				fmt.Fprintf(sb, "labels = [%s]\n", strings.Join(ls, ", "))
			}
			ind(sb, d+1)
			sb.WriteString("content {\n")
			renderNativeBody(sb, it.Body, d+2, r)
			ind(sb, d+1)
			sb.WriteString("}\n")
		} else {
			renderNativeBody(sb, it.Body, d+1, r)
		}
		ind(sb, d)
		sb.WriteString("}\n")
	}
}

// ---- JSON tree --------------------------------------------------------------------

type jn struct {
	kind  byte // 'o' object, 'a' array, 's' string, 'n' number, 'z' null, 'b' bool
	mem   []jm
	elems []*jn
	s     string
	n     int
}
type jm struct {
	name string
	val  *jn
}

func jnum(n int) *jn    { return &jn{kind: 'n', n: n} }
func jstr(s string) *jn { return &jn{kind: 's', s: s} }
func jnull() *jn        { return &jn{kind: 'z'} }
func jobj(m []jm) *jn   { return &jn{kind: 'o', mem: m} }
func jarr(e []*jn) *jn  { return &jn{kind: 'a', elems: e} }

func (g *gen) attrVal(v int) *jn {
	switch v % 4 {
	case 0:
		return jstr(fmt.Sprintf("s%d", v))
	case 1:
		return jarr([]*jn{jnum(v), jnum(2)})
	default:
		return jnum(v)
	}
}

// body node of one block item
func (g *gen) blockBody(it *Item, allowArray bool) *jn {
	if it.Dyn != nil {
		var m []jm
		var xs []*jn
		for i := 0; i < it.Dyn.N; i++ {
			xs = append(xs, jnum(i))
		}
		m = append(m, jm{"for_each", jarr(xs)})
		if it.Dyn.HasLabels {
			var ls []*jn
			for _, l := range it.Dyn.Labels {
				ls = append(ls, jstr(l))
			}
			m = append(m, jm{"labels", jarr(ls)})
		}
		m = append(m, jm{"content", g.encBody(it.Body, false)})
		return jobj(m)
	}
	return g.encBody(it.Body, allowArray)
}

// encRun encodes consecutive blocks of one type below label level `level`.
func (g *gen) encRun(blocks []*Item, level int) *jn {
	k := len(blocks[0].Labels)
	if level == k {
		if len(blocks) == 1 && g.r.Chance(0.7) {
			return g.blockBody(blocks[0], false)
		}
		g.f("json:block-array")
		var es []*jn
		for _, b := range blocks {
			es = append(es, g.blockBody(b, g.r.Chance(0.3)))
		}
		return jarr(es)
	}
	// maximal groups of consecutive blocks with the same label at this level
	type group struct {
		label string
		items []*Item
	}
	var groups []group
	for _, b := range blocks {
		l := b.Labels[level]
		if n := len(groups); n > 0 && groups[n-1].label == l {
			groups[n-1].items = append(groups[n-1].items, b)
		} else {
			groups = append(groups, group{l, []*Item{b}})
		}
	}
	// sibling fan-out at this label level (histogram: by header length class)
	{
		cls := "labels<4"
		if k >= manyLabelsMin {
			cls = "labels>=4"
		}
		g.f(fmt.Sprintf("json:label-level-fanout(%s):%d", cls, min(len(groups), 5)))
		if level == k-1 && len(groups) > 1 {
			g.f(fmt.Sprintf("json:innermost-label-level-has-siblings(%s)", cls))
		}
	}
	if len(groups) > 1 && g.r.Chance(0.4) || g.r.Chance(0.1) {
		// array of label objects, each holding one or more consecutive groups
		g.f("json:label-array")
		var es []*jn
		var cur []jm
		for i, gr := range groups {
			cur = append(cur, jm{gr.label, g.encRun(gr.items, level+1)})
			if g.r.Chance(0.6) || i == len(groups)-1 {
				es = append(es, jobj(cur))
				cur = nil
			}
		}
		return jarr(es)
	}
	var m []jm
	for _, gr := range groups {
		m = append(m, jm{gr.label, g.encRun(gr.items, level+1)})
	}
	if len(groups) > 1 {
		g.f("json:label-object-several-keys")
	}
	return jobj(m)
}

func (g *gen) encMembers(c *Cfg) []jm {
	var m []jm
	i := 0
	for i < len(c.Items) {
		it := &c.Items[i]
		if it.IsAttr() {
			m = append(m, jm{it.Attr, g.attrVal(it.Val)})
			i++
			continue
		}
		j := i + 1
		for j < len(c.Items) && !c.Items[j].IsAttr() && c.Items[j].Type == it.Type &&
			len(c.Items[j].Labels) == len(it.Labels) {
			j++
		}
		pMerge := 0.5
		if len(it.Labels) >= manyLabelsMin {
			pMerge = 0.9 // long headers: the siblings of a label level share one object
		}
		if j-i > 1 && g.r.Chance(pMerge) {
			var run []*Item
			for k := i; k < j; k++ {
				run = append(run, &c.Items[k])
			}
			m = append(m, jm{it.Type, g.encRun(run, 0)})
			g.f("json:blocks-merged-under-one-property")
		} else {
			for k := i; k < j; k++ {
				m = append(m, jm{it.Type, g.encRun([]*Item{&c.Items[k]}, 0)})
			}
			if j-i > 1 {
				g.f("json:duplicate-property-names")
			}
		}
		i = j
	}
	return m
}

func (g *gen) encBody(c *Cfg, allowArray bool) *jn {
	m := g.encMembers(c)
	if g.r.Chance(0.12) {
		at := g.r.Intn(len(m) + 1)
		m = append(m[:at:at], append([]jm{{"//", jstr("comment")}}, m[at:]...)...)
		g.f("json:comment-property")
	}
	if allowArray && g.r.Chance(0.25) {
		g.f("json:body-array-of-objects")
		var es []*jn
		var cur []jm
		for i, x := range m {
			cur = append(cur, x)
			if g.r.Chance(0.5) || i == len(m)-1 {
				es = append(es, jobj(cur))
				cur = nil
			}
		}
		if g.r.Chance(0.2) {
			es = append(es, jobj(nil))
		}
		return jarr(es)
	}
	return jobj(m)
}

// renderJSONFile renders the configuration as JSON text; with some probability
// the tree is mutated into something the abstract configuration does not
// describe any more (null / mistyped values, duplicate attribute definitions).
func (g *gen) renderJSONFile(c *Cfg) (string, bool) {
	root := g.encBody(c, true)
	wild := false
	if g.r.Chance(0.2) {
		wild = true
		switch g.r.Intn(5) {
		case 0: // a property value becomes null ("no blocks" / null attribute)
			if ms := rootMembers(root); len(ms) > 0 {
				ms[g.r.Intn(len(ms))].val = jnull()
				g.f("json:wild-null-value")
			}
		case 1: // a property value becomes a number
			if ms := rootMembers(root); len(ms) > 0 {
				ms[g.r.Intn(len(ms))].val = jnum(5)
				g.f("json:wild-number-value")
			}
		case 2: // root array with an element that is not an object
			if root.kind == 'o' {
				root = jarr([]*jn{root})
			}
			at := g.r.Intn(len(root.elems) + 1)
			bad := []*jn{jnum(7), jnull(), jstr("q"), jarr(nil)}[g.r.Intn(4)]
			root.elems = append(root.elems[:at:at], append([]*jn{bad}, root.elems[at:]...)...)
			g.f("json:wild-root-array-bad-element")
		case 3: // an attribute is defined twice
			if ms := rootMembers(root); len(ms) > 0 {
				src := ms[g.r.Intn(len(ms))]
				obj := lastObject(root)
				obj.mem = append(obj.mem, jm{src.name, jnum(99)})
				g.f("json:wild-duplicate-property")
			}
		case 4: // a label level is an empty object / a leaf
			if ms := rootMembers(root); len(ms) > 0 {
				m := ms[g.r.Intn(len(ms))]
				if m.val.kind == 'o' || m.val.kind == 'a' {
					if g.r.Chance(0.5) {
						m.val = jobj(nil)
					} else {
						m.val = jarr([]*jn{jobj(nil), jnum(3)})
					}
					g.f("json:wild-empty-label-level")
				}
			}
		}
	}
	var sb strings.Builder
	writeJSON(&sb, root, g.r)
	sb.WriteString("\n")
	return sb.String(), wild
}

func rootMembers(root *jn) []*jm {
	var out []*jm
	switch root.kind {
	case 'o':
		for i := range root.mem {
			out = append(out, &root.mem[i])
		}
	case 'a':
		for _, e := range root.elems {
			if e.kind == 'o' {
				for i := range e.mem {
					out = append(out, &e.mem[i])
				}
			}
		}
	}
	return out
}

func lastObject(root *jn) *jn {
	if root.kind == 'o' {
		return root
	}
	for i := len(root.elems) - 1; i >= 0; i-- {
		if root.elems[i].kind == 'o' {
			return root.elems[i]
		}
	}
	o := jobj(nil)
	root.elems = append(root.elems, o)
	return o
}

func sp(sb *strings.Builder, r *hv.Rng) {
	if r.Chance(0.3) {
		sb.WriteString([]string{" ", "\n", "  ", "\t"}[r.Intn(4)])
	}
}

func writeJSON(sb *strings.Builder, n *jn, r *hv.Rng) {
	switch n.kind {
	case 'o':
		sb.WriteString("{")
		for i, m := range n.mem {
			if i > 0 {
				sb.WriteString(",")
			}
			sp(sb, r)
			fmt.Fprintf(sb, "%q:", m.name)
			sp(sb, r)
			writeJSON(sb, m.val, r)
		}
		sp(sb, r)
		sb.WriteString("}")
	case 'a':
		sb.WriteString("[")
		for i, e := range n.elems {
			if i > 0 {
				sb.WriteString(",")
			}
			sp(sb, r)
			writeJSON(sb, e, r)
		}
		sb.WriteString("]")
	case 's':
		fmt.Fprintf(sb, "%q", n.s)
	case 'n':
		fmt.Fprintf(sb, "%d", n.n)
	case 'z':
		sb.WriteString("null")
	case 'b':
		if n.n != 0 {
			sb.WriteString("true")
		} else {
			sb.WriteString("false")
		}
	}
}

// ---- reading JSON text back into an ordered tree (duplicates kept) ----------------
// A tiny reader for the JSON this generator writes (and for replay files): it
// is independent of hcl's parser.

type jreader struct {
	s string
	i int
}

func (p *jreader) ws() {
	for p.i < len(p.s) && strings.ContainsRune(" \t\r\n", rune(p.s[p.i])) {
		p.i++
	}
}

func (p *jreader) str() (string, error) {
	if p.i >= len(p.s) || p.s[p.i] != '"' {
		return "", fmt.Errorf("expected string at %d", p.i)
	}
	j := p.i + 1
	var out strings.Builder
	for j < len(p.s) && p.s[j] != '"' {
		if p.s[j] == '\\' && j+1 < len(p.s) {
			j++
			switch p.s[j] {
			case 'n':
				out.WriteByte('\n')
			case 't':
				out.WriteByte('\t')
			default:
				out.WriteByte(p.s[j])
			}
		} else {
			out.WriteByte(p.s[j])
		}
		j++
	}
	if j >= len(p.s) {
		return "", fmt.Errorf("unterminated string")
	}
	p.i = j + 1
	return out.String(), nil
}

func (p *jreader) value() (*jn, error) {
	p.ws()
	if p.i >= len(p.s) {
		return nil, fmt.Errorf("eof")
	}
	switch c := p.s[p.i]; {
	case c == '{':
		p.i++
		n := jobj(nil)
		p.ws()
		if p.i < len(p.s) && p.s[p.i] == '}' {
			p.i++
			return n, nil
		}
		for {
			p.ws()
			k, err := p.str()
			if err != nil {
				return nil, err
			}
			p.ws()
			if p.i >= len(p.s) || p.s[p.i] != ':' {
				return nil, fmt.Errorf("expected : at %d", p.i)
			}
			p.i++
			v, err := p.value()
			if err != nil {
				return nil, err
			}
			n.mem = append(n.mem, jm{k, v})
			p.ws()
			if p.i < len(p.s) && p.s[p.i] == ',' {
				p.i++
				continue
			}
			if p.i < len(p.s) && p.s[p.i] == '}' {
				p.i++
				return n, nil
			}
			return nil, fmt.Errorf("expected , or } at %d", p.i)
		}
	case c == '[':
		p.i++
		n := jarr(nil)
		p.ws()
		if p.i < len(p.s) && p.s[p.i] == ']' {
			p.i++
			return n, nil
		}
		for {
			v, err := p.value()
			if err != nil {
				return nil, err
			}
			n.elems = append(n.elems, v)
			p.ws()
			if p.i < len(p.s) && p.s[p.i] == ',' {
				p.i++
				continue
			}
			if p.i < len(p.s) && p.s[p.i] == ']' {
				p.i++
				return n, nil
			}
			return nil, fmt.Errorf("expected , or ] at %d", p.i)
		}
	case c == '"':
		s, err := p.str()
		if err != nil {
			return nil, err
		}
		return jstr(s), nil
	case strings.HasPrefix(p.s[p.i:], "null"):
		p.i += 4
		return jnull(), nil
	case strings.HasPrefix(p.s[p.i:], "true"):
		p.i += 4
		return &jn{kind: 'b', n: 1}, nil
	case strings.HasPrefix(p.s[p.i:], "false"):
		p.i += 5
		return &jn{kind: 'b'}, nil
	default:
		j := p.i
		for j < len(p.s) && strings.ContainsRune("-+.eE0123456789", rune(p.s[j])) {
			j++
		}
		if j == p.i {
			return nil, fmt.Errorf("unexpected %q at %d", c, p.i)
		}
		var v int
		fmt.Sscanf(p.s[p.i:j], "%d", &v)
		p.i = j
		return jnum(v), nil
	}
}

func readJSON(src string) (*jn, error) {
	p := &jreader{s: src}
	v, err := p.value()
	if err != nil {
		return nil, err
	}
	p.ws()
	if p.i != len(p.s) {
		return nil, fmt.Errorf("trailing data at %d", p.i)
	}
	return v, nil
}

// ---- Coq terms ----------------------------------------------------------------------

func coqStrList(xs []string) string {
	s := make([]string, len(xs))
	for i, x := range xs {
		s[i] = hv.CoqString(x)
	}
	return hv.CoqList(s)
}

func coqJ(n *jn) string {
	switch n.kind {
	case 'o':
		ms := make([]string, len(n.mem))
		for i, m := range n.mem {
			ms[i] = fmt.Sprintf("(%s, %s)", hv.CoqString(m.name), coqJ(m.val))
		}
		return "JObj " + hv.CoqList(ms)
	case 'a':
		es := make([]string, len(n.elems))
		for i, e := range n.elems {
			es[i] = coqJ(e)
		}
		return "JArr " + hv.CoqList(es)
	case 's':
		return "JStr " + hv.CoqString(n.s)
	case 'z':
		return "JNull"
	case 'b':
		return "JLeaf " + hv.CoqZ(-1-n.n)
	default:
		return "JLeaf " + hv.CoqZ(n.n)
	}
}

// coqNativeBody renders the parsed native body (what the modelled functions
// receive): attributes in source order, blocks in order. The body of every
// block is carried as an encoding (see BodyCheck.v, decode_child).
func coqNativeBody(b *hclsyntax.Body) string {
	as := sortedAttrs(b)
	attrs := make([]string, len(as))
	for i, a := range as {
		attrs[i] = fmt.Sprintf("At %s %d", hv.CoqString(a), i)
	}
	blocks := make([]string, len(b.Blocks))
	for i, bl := range b.Blocks {
		blocks[i] = fmt.Sprintf("Bk %s %s (%s)", hv.CoqString(bl.Type), coqStrList(bl.Labels), coqJ(encodeNativeBody(bl.Body, bl.Labels)))
	}
	return fmt.Sprintf("Nt %s %s", hv.CoqList(attrs), hv.CoqList(blocks))
}

func sortedAttrs(b *hclsyntax.Body) []string {
	type na struct {
		name string
		pos  int
	}
	var as []na
	for n, a := range b.Attributes {
		as = append(as, na{n, a.NameRange.Start.Byte})
	}
	sort.Slice(as, func(i, j int) bool { return as[i].pos < as[j].pos })
	out := make([]string, len(as))
	for i, a := range as {
		out[i] = a.name
	}
	return out
}

// encodeNativeBody encodes a native block body: marker, the block's labels,
// then attributes (a tuple constructor becomes an array whose string elements
// are kept, anything else a number) and nested blocks (objects, same encoding).
func encodeNativeBody(b *hclsyntax.Body, labels []string) *jn {
	var ls []*jn
	for _, l := range labels {
		ls = append(ls, jstr(l))
	}
	m := []jm{{"#native", jnull()}, {"#labels", jarr(ls)}}
	for _, name := range sortedAttrs(b) {
		expr := b.Attributes[name].Expr
		val := jnum(0)
		if t, ok := expr.(*hclsyntax.TupleConsExpr); ok {
			var es []*jn
			for _, e := range t.Exprs {
				v, d := e.Value(nil)
				if !d.HasErrors() && v.Type() == cty.String && v.IsKnown() && !v.IsNull() {
					es = append(es, jstr(v.AsString()))
				} else {
					es = append(es, jnum(0))
				}
			}
			val = jarr(es)
		}
		m = append(m, jm{name, val})
	}
	for _, bl := range b.Blocks {
		m = append(m, jm{bl.Type, encodeNativeBody(bl.Body, bl.Labels)})
	}
	return jobj(m)
}

func coqSchema(s Schema) string {
	as := make([]string, len(s.Attrs))
	for i, a := range s.Attrs {
		as[i] = fmt.Sprintf("(%s, %s)", hv.CoqString(a.Name), hv.CoqBool(a.Required))
	}
	bs := make([]string, len(s.Blocks))
	for i, b := range s.Blocks {
		bs[i] = fmt.Sprintf("(%s, %d)", hv.CoqString(b.Type), b.Labels)
	}
	return fmt.Sprintf("Sch %s %s", hv.CoqList(as), hv.CoqList(bs))
}
