package main

// Body modes: the generated expression as the attribute of a native body decoded
// by hcldec against a type that forces a conversion, and dynamic blocks expanded by
// dynblock with secret-bearing for_each / labels.  The spec is a function of the
// case header (want type, number of labels) so that a case replays from its text.

import (
	stdjson "encoding/json"
	"fmt"

	"github.com/hashicorp/hcl/v2"
	"github.com/hashicorp/hcl/v2/ext/dynblock"
	"github.com/hashicorp/hcl/v2/hcldec"
	"github.com/zclconf/go-cty/cty"
	"hclverif/hv"
)

var wantTypes = []cty.Type{
	cty.Number, cty.Number, cty.String, cty.Bool,
	cty.List(cty.Number), cty.Map(cty.Number), cty.Set(cty.String),
	cty.Object(map[string]cty.Type{"a": cty.Number}),
	cty.List(cty.Object(map[string]cty.Type{"a": cty.Number})),
	cty.Tuple([]cty.Type{cty.Number}),
	cty.Map(cty.Map(cty.Number)),
	cty.Map(cty.Object(map[string]cty.Type{"a": cty.Number})),
	cty.Object(map[string]cty.Type{"a": cty.Map(cty.Number), "b": cty.String}),
	cty.DynamicPseudoType,
}

func genDecode(r *hv.Rng, ci *caseInput, cg *cgen, e string) {
	ci.mode = "decode"
	ci.want = wantTypes[r.Intn(len(wantTypes))]
	if r.Chance(0.4) {
		// an expression whose value carries the secret, so that the conversion to
		// the wanted type is where things go wrong
		cg.memo = map[string]string{}
		e = cg.expand(r.Pick(`%S`, `%N`, `%L`, `%O`, `%K`, `[%K]`, `{a = %K}`, `{a = %S}`, `{(%S) = {(%S) = [1]}}`, `[%S, [%S]]`, `{(%S) = %X}`), "")
	}
	switch r.Intn(3) {
	case 0:
		ci.src = "x = " + e + "\n"
	case 1:
		ci.src = "x = " + e + "\ny = " + cg.expand(r.Pick(`%S`, `%K`, `%X`, `1`), "") + "\n"
	default:
		ci.src = "blk {\n  x = " + e + "\n}\n"
	}
}

func genDynblock(r *hv.Rng, ci *caseInput, cg *cgen, e string) {
	ci.mode = "dynblock"
	ci.want = wantTypes[r.Intn(len(wantTypes))]
	cg.memo = map[string]string{}
	fe := cg.expand(r.Pick(`secl`, `secml`, `secmm`, `secmap`, `seclo`, `secnl`, `secst`, `seco`, `secmo`, `sectp`, `%L`, `%O`, `%K`, `[%S, %S]`, `%S`, `%N`, `null`, `[%K]`, `%X`), "")
	it := "b"
	iter := ""
	if r.Chance(0.25) {
		it = "it"
		iter = "  iterator = it\n"
	}
	lbl := ""
	ci.labels = 0
	if r.Chance(0.6) {
		ci.labels = 1
		l := cg.expand(r.Pick(`IT.value`, `IT.key`, `%S`, `"${IT.value}"`, `pub`, `[IT.value]`, `null`, `IT.value.a`, `IT.value.zz`, `upper(IT.value)`, `IT.value + 1`, `{(IT.value) = 1}`, `%K`, `"l"`), "")
		lbl = "  labels = [" + l + "]\n"
		if r.Chance(0.1) {
			lbl = "  labels = [" + l + ", pub]\n"
		}
	}
	x := e
	if r.Chance(0.75) {
		x = cg.expand(r.Pick(`IT.value + 1`, `IT.value.zz`, `IT.key + 1`, `IT.key.zz`, `upper(IT.value)`, `IT.value[0]`, `"${IT.value}"`, `{(IT.value) = [1]}`,
			`{(IT.key) = [1]}`, `IT.value`, `IT.key`, `[IT.value, [IT.value]]`, `true ? {(IT.value) = 1} : {b = [2]}`, `{for v in [IT.value, IT.value] : v => 1}`,
			`takesmap({(IT.value) = [1]})`, `IT.value.a.zz`, `IT.nosuch`, `l[IT.value]`, `%S + IT.value`, `IT.value[%S]`, `[for v in [IT.value] : v.zz]`), "")
	}
	rep := func(s string) string {
		out := ""
		for i := 0; i < len(s); i++ {
			if i+1 < len(s) && s[i] == 'I' && s[i+1] == 'T' {
				out += it
				i++
			} else {
				out += string(s[i])
			}
		}
		return out
	}
	nested := ""
	if r.Chance(0.2) {
		nested = fmt.Sprintf("    dynamic \"c\" {\n      for_each = %s\n      content {\n        y = %s\n      }\n    }\n",
			rep(r.Pick(`[IT.value]`, `IT.value`, `secml`)), rep(r.Pick(`c.value.zz`, `c.value + 1`, `IT.value.zz`, `"${c.value}"`)))
	}
	ci.src = "dynamic \"b\" {\n  for_each = " + fe + "\n" + iter + rep(lbl) + "  content {\n    x = " + rep(x) + "\n" + nested + "  }\n}\n"
}

// specFor derives the hcldec spec of a case from its header.
func specFor(ci *caseInput) hcldec.Spec {
	x := &hcldec.AttrSpec{Name: "x", Type: ci.want, Required: false}
	switch ci.mode {
	case "decode":
		return hcldec.ObjectSpec{
			"x": x,
			"y": &hcldec.AttrSpec{Name: "y", Type: cty.Map(cty.Number)},
			"blk": &hcldec.BlockSpec{TypeName: "blk", Nested: hcldec.ObjectSpec{
				"x": &hcldec.AttrSpec{Name: "x", Type: ci.want},
			}},
		}
	default:
		inner := hcldec.ObjectSpec{
			"x": x,
			"c": &hcldec.BlockListSpec{TypeName: "c", Nested: hcldec.ObjectSpec{
				"y": &hcldec.AttrSpec{Name: "y", Type: cty.Number},
			}},
		}
		if ci.labels > 0 {
			inner["l"] = &hcldec.BlockLabelSpec{Index: 0, Name: "l"}
		}
		return hcldec.ObjectSpec{"b": &hcldec.BlockListSpec{TypeName: "b", Nested: inner}}
	}
}

func decodeBody(ci *caseInput, body hcl.Body, ctx *hcl.EvalContext) hcl.Diagnostics {
	spec := specFor(ci)
	if ci.mode == "dynblock" {
		body = dynblock.Expand(body, ctx)
	}
	_, diags := hcldec.Decode(body, spec, ctx)
	return diags
}

// genJSON: the expression in JSON syntax — a template string, an object with
// template keys (duplicates, marked keys, non-string keys), an array.
func genJSON(r *hv.Rng, ci *caseInput, cg *cgen, e string) {
	ci.mode = "json"
	q := func(tmpl string) string {
		b, _ := stdjson.Marshal(tmpl)
		return string(b)
	}
	cg.memo = map[string]string{}
	x := func(shape string) string { return cg.expand(shape, "") }
	switch r.Intn(8) {
	case 0, 1, 2:
		ci.src = q("${" + e + "}")
	case 3:
		ci.src = q(x(r.Pick("a ${%S} %{ for x in %L }${x}%{ endfor }", "%{ for k, x in %O }${k}${x + 1}%{ endfor }", "${%S}${null}", "%{ if %S }a%{ endif }", "pre-${"+e+"}")))
	case 4:
		k := q(x("${%S1}"))
		ci.src = "{" + k + ": 1, " + k + ": 2}"
	case 5:
		ci.src = "{" + q(x(r.Pick("${%S}", "${%N}", "${%L}", "${null}", "${%K}", "k${%S}", "${%S}${%S}"))) + ": " + q("${"+e+"}") + ", " + q(x("${%S}")) + ": [" + q(x("${%N}")) + "]}"
	case 6:
		ci.src = "[" + q("${"+e+"}") + ", " + q(x("${%S}")) + ", {" + q(x("${%S1}")) + ": null, " + q(x("${%S1}")) + ": 1}]"
	default:
		ci.src = "{\"a\": {" + q(x("${%S}")) + ": " + q("${"+e+"}") + "}, \"b\": " + q(x("%{ for x in %L }${x.zz}%{ endfor }")) + "}"
	}
}
