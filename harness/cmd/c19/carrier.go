package main

// Carrier stream: the secret reaches the sink through a VALUE-PRESERVING construct.
//
// The sinks of C19 (diagnostics that quote values) decide what to print from the
// marks of the value at hand, so a construct that hands them a value whose marks
// were dropped one or two evaluation steps upstream leaks the secret.  This file
// adds
//
//   - scope shapes (carVar): for every collection kind (tuple, list, set, map,
//     object) and a plain string, the canary in four markings — the elements marked
//     one by one (elem), the collection marked AS A WHOLE (whole), marked leaves
//     inside unmarked element objects (leaf), a whole-marked collection nested in
//     an unmarked object or tuple (nested) — always with TWO EQUAL secret strings,
//     so that key collisions are possible;
//   - a generator of carrier expressions (carGen.gen): the reference to such a
//     variable taken through 1-3 value-preserving constructs (bare splat, attribute
//     splat, splat + index, identity for expressions, conditional arms, parentheses,
//     [x][0], {a = x}.a, single-interpolation template wrap, first(x) / first(x...),
//     try(x), singleton for / splat, auto-upgrading splat) and projected down to
//     what the sink needs (a secret string, a sequence of secret strings, a map of
//     secret strings).  The cgen holes %S / %L / %O are filled with carriers, so
//     EVERY sink shape of gen.go / bodies.go (native, JSON templates, hcldec
//     attributes, dynblock for_each / labels / content) composes with them, plus
//     the dedicated sinks of carSinks;
//   - next to the text of each carrier its DIRECT counterpart (same projections, no
//     carrier): the case text carries the source with every carrier replaced by it
//     ("## direct"), used by the classifier to decide whether a hit filed under one
//     of the for / dynblock known findings is really caused by the binder (it must
//     persist with direct references) or by the carrier;
//   - the oracle "marks preserved" (marksOracle, kind carrier-drops-marks): every
//     closed sub-expression of the source (not under a for / splat binder) is
//     evaluated in the case's scope; wherever the content of a secret occurs in
//     the result — as a string, a number, a map key or an attribute name — it must
//     lie under the marks it lies under in the scope.  The reference is the scope
//     itself (which canary sits under which marks), not the evaluator;
//   - ceval cases of the carrier expressions (evalcases for Eval/EvalCheck.v): the
//     evaluator model computes value AND marks of each carrier independently.

import (
	stdjson "encoding/json"
	"fmt"
	"regexp"
	"sort"
	"strings"

	"github.com/hashicorp/hcl/v2"
	"github.com/hashicorp/hcl/v2/ext/tryfunc"
	"github.com/hashicorp/hcl/v2/hclsyntax"
	hcljson "github.com/hashicorp/hcl/v2/json"
	"github.com/zclconf/go-cty/cty"
	"hclverif/hv"
)

const kindCarrier = "carrier-drops-marks"

func init() {
	caseFuncs["try"] = tryfunc.TryFunc
}

// ---- shapes ------------------------------------------------------------------------

// cshape: what an expression of the carrier generator evaluates to.
type cshape struct {
	k   byte    // 's' secret string | 'q' sequence of el | 'm' map / object with keys a, b of el | 'v' object {v = el}
	el  *cshape // element shape
	n   int     // 'q': number of elements
	set bool    // 'q': a set (cannot be indexed)
}

var shStr = &cshape{k: 's'}

func (s *cshape) isSeqOfStr() bool { return s.k == 'q' && s.el.k == 's' }
func (s *cshape) isMapOfStr() bool { return s.k == 'm' && s.el.k == 's' }

// carVar is one scope variable of the carrier family.
type carVar struct {
	name, kind, marking string
	val                 cty.Value
	sh                  *cshape
}

var carKinds = []string{"tuple", "list", "set", "map", "object", "string"}
var carMarkings = []string{"elem", "whole", "leaf", "nested"}

// mkCarVar builds the variable of one (kind, marking); s is the duplicated secret,
// t a second one (sets need two distinct elements).
func mkCarVar(r *hv.Rng, kind, marking, s, t string) carVar {
	mk := r.Pick("m1", "m2", "m3")
	cv := carVar{name: "c" + kind[:1] + "_" + marking, kind: kind, marking: marking}
	if kind == "string" {
		// a string has no elements: marked itself, or nested in an unmarked holder
		v := cty.StringVal(s).Mark(mk)
		switch marking {
		case "nested", "leaf":
			cv.val, cv.sh = cty.ObjectVal(map[string]cty.Value{"v": v, "pub": cty.StringVal("p")}), &cshape{k: 'v', el: shStr}
		default:
			cv.val, cv.sh = v, shStr
		}
		return cv
	}
	leaf := func(x string) (cty.Value, *cshape) {
		switch marking {
		case "elem":
			return cty.StringVal(x).Mark(mk), shStr
		case "leaf":
			return cty.ObjectVal(map[string]cty.Value{"v": cty.StringVal(x).Mark(mk)}), &cshape{k: 'v', el: shStr}
		}
		return cty.StringVal(x), shStr
	}
	second := s
	if kind == "set" {
		second = t
	}
	e0, esh := leaf(s)
	e1, _ := leaf(second)
	var coll cty.Value
	var sh *cshape
	switch kind {
	case "tuple":
		coll, sh = cty.TupleVal([]cty.Value{e0, e1}), &cshape{k: 'q', el: esh, n: 2}
	case "list":
		coll, sh = cty.ListVal([]cty.Value{e0, e1}), &cshape{k: 'q', el: esh, n: 2}
	case "set":
		coll, sh = cty.SetVal([]cty.Value{e0, e1}), &cshape{k: 'q', el: esh, n: 2, set: true}
	case "map":
		coll, sh = cty.MapVal(map[string]cty.Value{"a": e0, "b": e1}), &cshape{k: 'm', el: esh}
	default:
		coll, sh = cty.ObjectVal(map[string]cty.Value{"a": e0, "b": e1}), &cshape{k: 'm', el: esh}
	}
	switch marking {
	case "whole":
		coll = coll.Mark(mk)
	case "nested":
		coll = coll.Mark(mk)
		if r.Chance(0.5) {
			coll, sh = cty.ObjectVal(map[string]cty.Value{"v": coll, "pub": cty.StringVal("p")}), &cshape{k: 'v', el: sh}
		} else {
			coll, sh = cty.TupleVal([]cty.Value{coll}), &cshape{k: 'q', el: sh, n: 1}
		}
	}
	cv.val, cv.sh = coll, sh
	return cv
}

// ---- carrier expressions -------------------------------------------------------------

type carExpr struct {
	text   string // with carriers
	direct string // same projections, no carrier
	sh     *cshape
	steps  []string // names of the carriers applied (projections excluded)
}

// carInst is one carrier placed into the source (through a placeholder).
type carInst struct {
	carExpr
	src    carVar
	target byte
	ph     string
}

type carGen struct {
	r       *hv.Rng
	ci      *caseInput
	s, t    string
	vars    map[string]carVar
	insts   []*carInst
	nofuncs bool
}

func newCarGen(r *hv.Rng, ci *caseInput) *carGen {
	p := &planter{r: r}
	ci.novars = false
	g := &carGen{r: r, ci: ci, s: p.str(), t: p.str(), vars: map[string]carVar{}, nofuncs: ci.nofuncs}
	// public collections for the index sinks
	f := ci.frames[0]
	f["pubm"] = cty.MapVal(map[string]cty.Value{"zz": cty.NumberIntVal(1)})
	f["pubo"] = cty.ObjectVal(map[string]cty.Value{"zz": cty.NumberIntVal(1)})
	f["publ2"] = cty.ListVal([]cty.Value{cty.NumberIntVal(1), cty.NumberIntVal(2)})
	return g
}

var simpleRef = regexp.MustCompile(`^[A-Za-z_][A-Za-z0-9_]*([.][A-Za-z_0-9]+|\[[0-9]+\]|\["[a-z]+"\])*$`)

// post appends a postfix operator to an expression text.
func post(e, suffix string) string {
	if simpleRef.MatchString(e) || strings.HasPrefix(e, "(") && strings.HasSuffix(e, ")") && balanced(e[1:len(e)-1]) {
		return e + suffix
	}
	return "(" + e + ")" + suffix
}

func balanced(s string) bool {
	d := 0
	for _, c := range s {
		switch c {
		case '(':
			d++
		case ')':
			d--
			if d < 0 {
				return false
			}
		}
	}
	return d == 0
}

// pure applies one value-preserving carrier; the direct counterpart is unchanged
// (sets: a set that is turned into a sequence stays a set in the direct text).
func (g *carGen) pure(e carExpr) carExpr {
	type cand struct {
		name string
		f    func(string) string
		sh   *cshape
	}
	w := func(format string) func(string) string {
		return func(x string) string { return strings.ReplaceAll(format, "%s", x) }
	}
	cs := []cand{
		{"paren", w(`(%s)`), e.sh},
		{"tuple-index", w(`[%s][0]`), e.sh},
		{"object-attr", w(`{a = %s}.a`), e.sh},
		{"cond-true-arm", w(`(true ? %s : null)`), e.sh},
		{"cond-false-arm", w(`(false ? null : %s)`), e.sh},
		{"cond-computed", w(`(pub == "public" ? %s : null)`), e.sh},
		{"template-wrap", w(`"${%s}"`), e.sh},
		{"for-singleton", w(`[for x in [%s] : x][0]`), e.sh},
		{"objfor-singleton", w(`{for k, x in {a = %s} : k => x}.a`), e.sh},
		{"splat-singleton", w(`([%s][*])[0]`), e.sh},
	}
	if !g.nofuncs {
		cs = append(cs,
			cand{"first", w(`first(%s)`), e.sh},
			cand{"first-variadic", w(`first(%s, 1)`), e.sh},
			cand{"first-expand", w(`first([%s]...)`), e.sh},
			cand{"try", w(`try(%s)`), e.sh},
			cand{"try-fallback", w(`try(nosuch_, %s)`), e.sh},
		)
	}
	seq := func(sh *cshape) *cshape { c := *sh; c.set = false; return &c }
	switch e.sh.k {
	case 'q':
		// weighted: these are the constructs that rebuild the collection
		for i := 0; i < 3; i++ {
			cs = append(cs,
				cand{"bare-splat", func(x string) string { return post(x, "[*]") }, seq(e.sh)},
				cand{"bare-attr-splat", func(x string) string { return post(x, ".*") }, seq(e.sh)},
				cand{"for-identity", w(`[for x in %s : x]`), seq(e.sh)},
			)
		}
		cs = append(cs,
			cand{"for-identity-if", w(`[for x in %s : x if true]`), seq(e.sh)},
			cand{"for-identity-index", w(`[for i, x in %s : x]`), seq(e.sh)},
		)
	case 'm', 'v':
		for i := 0; i < 3; i++ {
			cs = append(cs, cand{"objfor-identity", w(`{for k, x in %s : k => x}`), e.sh})
		}
		cs = append(cs,
			cand{"objfor-identity-if", w(`{for k, x in %s : k => x if true}`), e.sh},
			cand{"splat-upgrade", func(x string) string { return "(" + post(x, "[*]") + ")[0]" }, e.sh},
		)
	case 's':
		cs = append(cs, cand{"splat-upgrade", func(x string) string { return "(" + post(x, "[*]") + ")[0]" }, e.sh})
	}
	c := cs[g.r.Intn(len(cs))]
	out := carExpr{text: c.f(e.text), direct: e.direct, sh: c.sh, steps: append(append([]string{}, e.steps...), c.name)}
	if e.sh.k == 'q' && e.sh.set && !c.sh.set {
		// the direct counterpart of "a set turned into a sequence"
		out.direct = "[for x in " + e.direct + " : x]"
	}
	return out
}

func reached(sh *cshape, target byte) bool {
	switch target {
	case 's':
		return sh.k == 's'
	case 'q':
		return sh.isSeqOfStr()
	default:
		return sh.isMapOfStr()
	}
}

// step moves one projection / conversion closer to the target; both texts change.
func (g *carGen) step(e carExpr, target byte) carExpr {
	both := func(f func(string) string, sh *cshape, names ...string) carExpr {
		return carExpr{text: f(e.text), direct: f(e.direct), sh: sh, steps: append(append([]string{}, e.steps...), names...)}
	}
	sfx := func(s string) func(string) string { return func(x string) string { return post(x, s) } }
	w := func(format string) func(string) string {
		return func(x string) string { return strings.ReplaceAll(format, "%s", x) }
	}
	sh := e.sh
	switch sh.k {
	case 'v':
		return both(sfx(g.r.Pick(".v", `["v"]`)), sh.el)
	case 'm':
		if target == 'q' && sh.el.k == 's' {
			return both(w(`[for k, x in %s : x]`), &cshape{k: 'q', el: shStr, n: 2})
		}
		return both(sfx(g.r.Pick(".a", ".b", `["a"]`, `["b"]`)), sh.el)
	case 'q':
		if sh.set {
			// a set cannot be indexed: through a sequence-building carrier
			for {
				c := g.pure(e)
				if !c.sh.set {
					return c
				}
			}
		}
		if target != 's' && sh.el.k != 's' && g.r.Chance(0.7) {
			// per-element projection: splat + traversal, or a for expression
			var p string
			switch sh.el.k {
			case 'v':
				p = ".v"
			case 'm':
				p = g.r.Pick(".a", `["b"]`)
			default:
				p = "[0]"
			}
			nsh := &cshape{k: 'q', el: sh.el.el, n: sh.n}
			if g.r.Chance(0.6) {
				return both(func(x string) string { return post(x, "[*]"+p) }, nsh, "splat-traversal")
			}
			return both(func(x string) string { return "[for x in " + x + " : x" + p + "]" }, nsh, "for-traversal")
		}
		if target == 'm' && sh.el.k == 's' {
			return both(w(`{for i, x in %s : "k${i}" => x}`), &cshape{k: 'm', el: shStr})
		}
		if !g.nofuncs && g.r.Chance(0.15) {
			// x... through an identity-like variadic function: the first element
			out := both(func(x string) string { return x }, sh.el, "expand-first")
			out.text, out.direct = "first("+e.text+"...)", post(e.direct, "[0]")
			return out
		}
		i := 0
		if sh.n > 1 {
			i = g.r.Intn(sh.n)
		}
		return both(sfx(fmt.Sprintf("[%d]", i)), sh.el)
	default: // 's'
		if target == 'q' {
			return both(w(`[%s, %s]`), &cshape{k: 'q', el: shStr, n: 2})
		}
		return both(w(`{a = %s, b = %s}`), &cshape{k: 'm', el: shStr})
	}
}

// gen builds one carrier expression of the target shape ('s' secret string, 'q'
// sequence of secret strings, 'm' map / object of secret strings).
func (g *carGen) gen(target byte) *carInst {
	kind := carKinds[g.r.Intn(len(carKinds))]
	// bias the source towards the wanted shape
	switch {
	case target == 'q' && g.r.Chance(0.6):
		kind = g.r.Pick("tuple", "tuple", "list", "set")
	case target == 'm' && g.r.Chance(0.6):
		kind = g.r.Pick("map", "object")
	}
	marking := carMarkings[g.r.Intn(len(carMarkings))]
	if kind == "string" && marking == "whole" {
		marking = "elem"
	}
	name := "c" + kind[:1] + "_" + marking
	cv, ok := g.vars[name]
	if !ok {
		cv = mkCarVar(g.r, kind, marking, g.s, g.t)
		g.vars[name] = cv
		g.ci.frames[0][cv.name] = cv.val
	}
	e := carExpr{text: cv.name, direct: cv.name, sh: cv.sh}
	n := 1
	switch x := g.r.Intn(10); {
	case x >= 9:
		n = 3
	case x >= 6:
		n = 2
	}
	applied := 0
	for iter := 0; iter < 16; iter++ {
		done := reached(e.sh, target)
		if done && applied >= n {
			break
		}
		if applied < n && (done || g.r.Chance(0.5)) {
			e = g.pure(e)
			applied++
			continue
		}
		before := len(e.steps)
		e = g.step(e, target)
		if len(e.steps) > before {
			applied++
		}
	}
	in := &carInst{carExpr: e, src: cv, target: target, ph: fmt.Sprintf("car__%d__", len(g.insts))}
	g.insts = append(g.insts, in)
	return in
}

// hole is called by cgen.hole for %S / %L / %O.
func (g *carGen) hole(kind byte) string {
	target := map[byte]byte{'S': 's', 'L': 'q', 'O': 'm'}[kind]
	return g.gen(target).ph
}

// ---- sinks ---------------------------------------------------------------------------------

// carSinks: the sink constructors named in the class description, composed with
// carriers through the holes (in addition to every shape of shapeCats).
var carSinks = []struct{ name, shape string }{
	{"dupkey-keyed-by-carrier", `{for n in ["a", "b"] : %S1 => n}`},
	{"dupkey-keyed-by-carrier", `{for n in ["a", "b"] : %S1 => n if true}`},
	{"dupkey-keyed-by-carrier-index", `{for n in ["a", "b"] : (%L1)[0] => n}`},
	{"dupkey-keyed-by-carrier-attr", `{for n in ["a", "b"] : (%O1).a => n}`},
	{"dupkey-keyed-by-carrier-template", `{for n in ["a", "b"] : "${%S1}" => n}`},
	{"dupkey-iterating-carrier", `{for v in %L : v => 1}`},
	{"dupkey-iterating-carrier", `{for t in %L : t => true}`},
	{"dupkey-iterating-carrier", `{for k, v in %O : v => k}`},
	{"dupkey-iterating-carrier", `{for v in %L : "${v}" => 1}`},
	{"dupkey-two-carriers", `{for v in [%S1, %S1] : v => 1}`},
	{"dupkey-two-carriers", `{for v in [[%S1], [%S1]] : v[0] => 1}`},
	{"index-map-lacking-key", `pubm[%S]`},
	{"index-map-lacking-key", `{for k in ["zz"] : k => 1}[%S]`},
	{"index-object-lacking-attr", `pubo[%S]`},
	{"index-object-lacking-attr", `{a = 1}[%S]`},
	{"index-list-by-carrier", `publ2[%S]`},
	{"index-into-carrier", `%O[%S]`},
	{"index-into-carrier", `%L[%S]`},
	{"index-by-collection", `pubm[%L]`},
	{"funcarg-wrong-type", `takesmap(%S)`},
	{"funcarg-wrong-type", `sum(%S)`},
	{"funcarg-wrong-type", `upper(%L)`},
	{"funcarg-wrong-type", `upper(%O)`},
	{"funcarg-wrong-type", `takeslist(%S)`},
	{"funcarg-wrong-type", `takesobj(%L)`},
	{"funcarg-wrong-type", `takestuple(%L)`},
	{"funcarg-wrong-type", `sum(%L...)`},
	{"funcarg-failing-call", `fail(%S)`},
	{"funcarg-failing-call", `failarg(%L)`},
	{"template-needs-string", `"pre-${%L}"`},
	{"template-needs-string", `"pre-${%O}"`},
	{"template-needs-string", `"${%S}${%L}"`},
	{"template-needs-string", `"%{ for x in [%L] }${x}%{ endfor }"`},
	{"attrname-from-carrier", `true ? {(%S) = 1} : {b = [2]}`},
	{"attrname-from-carrier", `true ? [{(%S) = 1}] : [{b = [2]}]`},
	{"attrname-from-carrier", `{(%S) = 1}.zz`},
	{"attrname-from-carrier", `takesmap({(%S) = [1]})`},
	{"attrname-from-carrier", `{for v in %L : v => 1}.zz`},
	{"conversion", `%S + 1`},
	{"conversion", `-%S`},
	{"conversion", `%S && true`},
	{"conversion", `%L + 1`},
	{"conversion", `%S ? 1 : 2`},
	{"objkey-not-string", `{(%L) = 1}`},
	{"objkey-not-string", `{(%O) = 1}`},
	{"unsupported-attribute", `%O.zz`},
	{"unsupported-attribute", `%L.zz`},
	{"unsupported-attribute", `%S.a`},
	{"for-body-error", `[for v in %L : v.zz]`},
	{"for-body-error", `[for k, v in %O : v.zz]`},
	{"for-body-error", `[for v in %L : upper(v, v)]`},
	{"for-body-error", `[for v in %L : v + 1]`},
	{"for-body-error", `"%{ for x in %L }${x.zz}%{ endfor }"`},
	{"splat-body-error", `%L[*].zz`},
	{"iterate-non-collection", `[for v in %S : v]`},
}

// genCarExpr: the expression of a carrier case; returns (category, sink, text with
// placeholders).  At least one hole of the shape is a carrier hole.
func (c *cgen) genCarExpr() (cat, sink, e string) {
	for tries := 0; ; tries++ {
		c.memo = map[string]string{}
		c.dep = 0
		before := len(c.car.insts)
		if c.r.Chance(0.55) {
			s := carSinks[c.r.Intn(len(carSinks))]
			cat, sink = "carsink", s.name
			e = c.expand(s.shape, "")
		} else {
			sc := shapeCats[c.r.Intn(len(shapeCats))]
			cat, sink = sc.name, sc.name
			e = c.expand(sc.shapes[c.r.Intn(len(sc.shapes))], "")
		}
		if len(c.car.insts) > before || tries > 8 {
			break
		}
	}
	c.feat["shape:"+cat]++
	if c.r.Chance(0.15) {
		c.feat["shape:wrapped"]++
		e = c.expand(wrapShapes[c.r.Intn(len(wrapShapes))], e)
	}
	return cat, sink, e
}

func jsonEsc(s string) string {
	b, _ := stdjson.Marshal(s)
	return string(b[1 : len(b)-1])
}

// finish replaces the placeholders: ci.src gets the carriers, ci.direct the direct
// counterparts.  Returns the instances that occur in the source.
func (g *carGen) finish(ci *caseInput) []*carInst {
	var used []*carInst
	src, direct := ci.src, ci.src
	for i := len(g.insts) - 1; i >= 0; i-- {
		in := g.insts[i]
		if !strings.Contains(src, in.ph) {
			continue
		}
		used = append(used, in)
		t, d := in.text, in.direct
		if ci.mode == "json" {
			t, d = jsonEsc(t), jsonEsc(d)
		}
		src = strings.ReplaceAll(src, in.ph, t)
		direct = strings.ReplaceAll(direct, in.ph, d)
	}
	ci.src = src
	if len(used) > 0 && direct != src {
		ci.direct = direct
	}
	// variables of instances that did not make it into the source are dropped
	keep := map[string]bool{}
	for _, in := range used {
		keep[in.src.name] = true
	}
	for name := range g.vars {
		if !keep[name] {
			delete(ci.frames[0], name)
		}
	}
	return used
}

// ---- the oracle "marks preserved" --------------------------------------------------------

// secretMarks: for every canary token of the scope the mark sets it lies under
// (one per occurrence).
func secretMarks(frames []map[string]cty.Value) map[string][]cty.ValueMarks {
	out := map[string][]cty.ValueMarks{}
	add := func(tok string, m cty.ValueMarks) {
		if tok == "" || len(m) == 0 {
			return
		}
		for _, old := range out[tok] {
			if old.Equal(m) {
				return
			}
		}
		out[tok] = append(out[tok], m)
	}
	var walk func(v cty.Value, inh cty.ValueMarks)
	walk = func(v cty.Value, inh cty.ValueMarks) {
		u, m := v.Unmark()
		all := cty.ValueMarks{}
		for k := range inh {
			all[k] = struct{}{}
		}
		for k := range m {
			all[k] = struct{}{}
		}
		if !u.IsKnown() || u.IsNull() {
			return
		}
		ty := u.Type()
		switch {
		case ty == cty.String:
			if strings.HasPrefix(u.AsString(), canaryPrefix) {
				add(strings.ToLower(u.AsString()), all)
			}
		case ty == cty.Number:
			add(numToken(u.AsBigFloat()), all)
		case ty.IsCollectionType() || ty.IsTupleType() || ty.IsObjectType():
			for it := u.ElementIterator(); it.Next(); {
				kv, ev := it.Element()
				if ty.IsMapType() && strings.HasPrefix(kv.AsString(), canaryPrefix) {
					add(strings.ToLower(kv.AsString()), all)
				}
				walk(ev, all)
			}
		}
	}
	for _, f := range frames {
		for _, v := range f {
			walk(v, nil)
		}
	}
	return out
}

// uncovered returns a canary whose content occurs in v outside the marks it has in
// the scope ("" if none), with the path of the occurrence.
func uncovered(v cty.Value, sec map[string][]cty.ValueMarks, toks []string) (string, string) {
	covered := func(tok string, have cty.ValueMarks) bool {
		for _, need := range sec[tok] {
			ok := true
			for k := range need {
				if _, has := have[k]; !has {
					ok = false
					break
				}
			}
			if ok {
				return true
			}
		}
		return false
	}
	text := func(s string, have cty.ValueMarks) string {
		low := strings.ToLower(s)
		for _, tok := range toks {
			if strings.Contains(low, tok) && !covered(tok, have) {
				return tok
			}
		}
		return ""
	}
	var bad, where string
	var walk func(v cty.Value, inh cty.ValueMarks, path string)
	walk = func(v cty.Value, inh cty.ValueMarks, path string) {
		if bad != "" {
			return
		}
		u, m := v.Unmark()
		have := cty.ValueMarks{}
		for k := range inh {
			have[k] = struct{}{}
		}
		for k := range m {
			have[k] = struct{}{}
		}
		ty := u.Type()
		if ty.IsObjectType() {
			// attribute names are part of the type: visible even for unknown / null
			for name := range ty.AttributeTypes() {
				if t := text(name, have); t != "" {
					bad, where = t, path+" attribute name"
					return
				}
			}
		}
		if !u.IsKnown() || u.IsNull() {
			return
		}
		switch {
		case ty == cty.String:
			if t := text(u.AsString(), have); t != "" {
				bad, where = t, path
			}
		case ty == cty.Number:
			if tok := numToken(u.AsBigFloat()); tok != "" && len(sec[tok]) > 0 && !covered(tok, have) {
				bad, where = tok, path
			}
		case ty.IsCollectionType() || ty.IsTupleType() || ty.IsObjectType():
			i := 0
			for it := u.ElementIterator(); it.Next(); i++ {
				kv, ev := it.Element()
				p := fmt.Sprintf("%s[%d]", path, i)
				if ty.IsMapType() || ty.IsObjectType() {
					ku, _ := kv.Unmark()
					if ty.IsMapType() {
						if t := text(ku.AsString(), have); t != "" {
							bad, where = t, path+" map key"
							return
						}
					}
					p = path + "." + ku.AsString()
				}
				walk(ev, have, p)
			}
		}
	}
	walk(v, nil, "result")
	return bad, where
}

// closedWalker collects the sub-expressions that are evaluated in the scope of the
// case itself: nothing below a for expression (except its collection) or below a
// splat (except its source).
type closedWalker struct {
	out  []hclsyntax.Expression
	skip int
	more []hclsyntax.Expression
}

func (w *closedWalker) Enter(n hclsyntax.Node) hcl.Diagnostics {
	if w.skip == 0 {
		if e, ok := n.(hclsyntax.Expression); ok {
			switch n.(type) {
			case *hclsyntax.AnonSymbolExpr, *hclsyntax.ExprSyntaxError:
			default:
				w.out = append(w.out, e)
			}
		}
	}
	switch x := n.(type) {
	case *hclsyntax.ForExpr:
		if w.skip == 0 {
			w.more = append(w.more, x.CollExpr)
		}
		w.skip++
	case *hclsyntax.SplatExpr:
		if w.skip == 0 {
			w.more = append(w.more, x.Source)
		}
		w.skip++
	}
	return nil
}

func (w *closedWalker) Exit(n hclsyntax.Node) hcl.Diagnostics {
	switch n.(type) {
	case *hclsyntax.ForExpr, *hclsyntax.SplatExpr:
		w.skip--
	}
	return nil
}

func closedSubexprs(n hclsyntax.Node) []hclsyntax.Expression {
	w := &closedWalker{}
	hclsyntax.Walk(n, w)
	for len(w.more) > 0 {
		m := w.more[0]
		w.more = w.more[1:]
		hclsyntax.Walk(m, w)
	}
	return w.out
}

// jsonStrings lists every string (keys and values) of a JSON document.
func jsonStrings(src string) []string {
	var out []string
	dec := stdjson.NewDecoder(strings.NewReader(src))
	for {
		tok, err := dec.Token()
		if err != nil {
			return out
		}
		if s, ok := tok.(string); ok {
			out = append(out, s)
		}
	}
}

type subExpr struct {
	text string
	node string
	eval func(ctx *hcl.EvalContext) (cty.Value, hcl.Diagnostics)
}

// caseSubexprs: the closed sub-expressions of the case's source, per mode.
func caseSubexprs(ci *caseInput) []subExpr {
	var out []subExpr
	native := func(src []byte, es []hclsyntax.Expression) {
		for _, e := range es {
			e := e
			r := e.Range()
			t := ""
			if r.Start.Byte >= 0 && r.End.Byte <= len(src) && r.Start.Byte <= r.End.Byte {
				t = string(src[r.Start.Byte:r.End.Byte])
			}
			out = append(out, subExpr{text: t, node: strings.TrimPrefix(fmt.Sprintf("%T", e), "*hclsyntax."), eval: e.Value})
		}
	}
	src := []byte(ci.src)
	switch ci.mode {
	case "expr":
		if e, d := hclsyntax.ParseExpression(src, fileName, hcl.InitialPos); !d.HasErrors() {
			native(src, closedSubexprs(e))
		}
	case "json":
		if e, d := hcljson.ParseExpression(src, fileName); !d.HasErrors() {
			out = append(out, subExpr{text: ci.src, node: "json", eval: e.Value})
		}
		for _, s := range jsonStrings(ci.src) {
			if e, d := hclsyntax.ParseTemplate([]byte(s), fileName, hcl.InitialPos); !d.HasErrors() {
				native([]byte(s), closedSubexprs(e))
			}
		}
	default:
		if f, d := hclsyntax.ParseConfig(src, fileName, hcl.InitialPos); !d.HasErrors() {
			// dynamic block content refers to iterators: only sub-expressions whose free
			// variables are all scope variables are evaluated (the others fail with
			// "Unknown variable" and are skipped below)
			native(src, closedSubexprs(f.Body.(*hclsyntax.Body)))
		}
	}
	return out
}

// marksOracle: wherever the content of a secret occurs in the value of a closed
// sub-expression, it lies under its marks.
func marksOracle(ci *caseInput, note func(string)) []hit {
	sec := secretMarks(ci.frames)
	if len(sec) == 0 {
		return nil
	}
	toks := make([]string, 0, len(sec))
	for k := range sec {
		toks = append(toks, k)
	}
	sort.Strings(toks)
	ctx := ci.evalCtx()
	var hits []hit
	var best *hit
	bestLen := 0
	seen := map[string]bool{}
	for _, se := range caseSubexprs(ci) {
		if seen[se.node+"\x00"+se.text] {
			continue
		}
		seen[se.node+"\x00"+se.text] = true
		var v cty.Value
		var diags hcl.Diagnostics
		ok := func() (ok bool) {
			defer func() {
				if recover() != nil {
					ok = false
				}
			}()
			v, diags = se.eval(ctx)
			return true
		}()
		if !ok || diags.HasErrors() || v == cty.NilVal {
			continue
		}
		note("marks-oracle:evaluated")
		if tok, where := uncovered(v, sec, toks); tok != "" {
			// one per case: the innermost (shortest) offending sub-expression
			if best == nil || len(se.text) < bestLen {
				bestLen = len(se.text)
				best = &hit{kind: kindCarrier, summary: se.node, canary: tok,
					where: fmt.Sprintf("sub-expression %s evaluates to %s: the content of the secret at %s is not under the marks it has in the scope", se.text, hv.DumpVal(v), where)}
			}
		}
	}
	if best != nil {
		note("marks-oracle:FAIL:" + best.summary)
		hits = append(hits, *best)
	}
	return hits
}

// ---- classification: is the binder really the cause? ------------------------------------------

// directRefutes: a hit filed under a for / dynblock known finding in a carrier case
// must persist when every carrier is replaced by its direct counterpart; otherwise
// the carrier is the cause and the hit goes back to its generic kind.
func directRefutes(ci *caseInput, hits []hit, note func(string)) []hit {
	if ci.direct == "" {
		return hits
	}
	need := false
	for _, h := range hits {
		if h.kind == kindFor || h.kind == kindDyn {
			need = true
		}
	}
	if !need {
		return hits
	}
	v := *ci
	v.src, v.direct = ci.direct, ""
	_, dh, ok := runCase(&v)
	if !ok {
		note("classify:direct-source-unusable")
		return hits
	}
	ds := hitSet(dh)
	for i := range hits {
		h := &hits[i]
		if h.kind != kindFor && h.kind != kindDyn {
			continue
		}
		if ds[hitKey{h.kind0, h.summary, h.canary}] {
			note("classify:persists-with-direct-reference")
			continue
		}
		note("classify:carrier-is-the-cause(back to generic)")
		h.kind, h.kind0 = h.kind0, ""
	}
	return hits
}

// ---- ceval cases ------------------------------------------------------------------------------

// maxEvalCases bounds the model evaluation time of one run (thorough tier).
const maxEvalCases = 1800

type evalCases struct {
	cases []string
	texts []string // printable inputs; appended to the report's case index at flush time (after the calibration cases)
	seen  map[string]bool
}

func calledFuncs(e hclsyntax.Expression) []string {
	var out []string
	hclsyntax.VisitAll(e, func(n hclsyntax.Node) hcl.Diagnostics {
		if c, ok := n.(*hclsyntax.FunctionCallExpr); ok {
			out = append(out, c.Name)
		}
		return nil
	})
	return out
}

// add emits one expression of the case as a case of Eval/EvalCheck.v: the scope is
// pruned to the variables the expression mentions, the function table is the
// model's twin table (expressions calling anything else are left out).
func (ec *evalCases) add(rep *hv.Report, ci *caseInput, text, label string) {
	if ci.novars || len(ec.cases) >= maxEvalCases {
		return
	}
	expr, pd := hclsyntax.ParseExpression([]byte(text), "e.hcl", hcl.InitialPos)
	if pd.HasErrors() {
		return
	}
	for _, f := range calledFuncs(expr) {
		if _, ok := hv.HarnessFuncs[f]; !ok {
			rep.Hist("carrier-model-case:skipped(function outside the model table)")
			return
		}
	}
	roots := map[string]bool{}
	for _, tr := range expr.Variables() {
		roots[tr.RootName()] = true
	}
	var ctx *hcl.EvalContext
	for i, f := range ci.frames {
		vars := map[string]cty.Value{}
		for k, v := range f {
			if roots[k] {
				vars[k] = v
			}
		}
		if i == 0 {
			ctx = &hcl.EvalContext{Variables: vars}
			if !ci.nofuncs {
				ctx.Functions = hv.HarnessFuncs
			}
		} else {
			ctx = ctx.NewChild()
			ctx.Variables = vars
		}
	}
	var v cty.Value
	var diags hcl.Diagnostics
	ok := func() (ok bool) {
		defer func() {
			if recover() != nil {
				ok = false
			}
		}()
		v, diags = expr.Value(ctx)
		return true
	}()
	if !ok {
		return
	}
	info := &hv.ValInfo{}
	// the function table is the same term in every case: named once per file (c19_ft)
	ctxs := strings.ReplaceAll(hv.CoqCtx(ctx, info), hv.CoqFuncs(hv.HarnessFuncs), "c19_ft")
	if ec.seen == nil {
		ec.seen = map[string]bool{}
	}
	if ec.seen[text+ctxs] {
		return
	}
	ec.seen[text+ctxs] = true
	es := hv.CoqExpr(expr, info)
	vs := hv.CoqVal(v, info)
	mode := 0
	risk := hv.NumRisk(expr, ctx)
	if info.Inexact || risk == 1 {
		mode = 1
	}
	if risk == 2 || info.Unsupported {
		mode = 2
	}
	rep.Hist(fmt.Sprintf("carrier-model-case:%s:mode-%d", label, mode))
	ec.cases = append(ec.cases, fmt.Sprintf("mkCase %s\n  %s\n  %d %s %s\n  %s", ctxs, es, mode, vs, hv.CoqDiagSummaries(diags), hv.CoqTraversals(expr.Variables(), info)))
	ec.texts = append(ec.texts, "ceval "+text+"   ## ctx: "+strings.ReplaceAll(ctxs, "\n", " "))
}

func (ec *evalCases) flush(rep *hv.Report, dir string, per int) ([]string, error) {
	var names []string
	idx := make([]int, len(ec.cases))
	for i, t := range ec.texts {
		idx[i] = len(rep.CaseIndex)
		rep.Idx(t)
	}
	for i, sh := 0, 0; i < len(ec.cases); sh++ {
		j := min(i+per, len(ec.cases))
		cf := &hv.CaseFile{Dir: dir, Name: fmt.Sprintf("carriercases%d", sh),
			Imports: "From Coq Require Import QArith String.\nFrom HclV Require Import Base.Prelude Cty.Values Cty.Convert Cty.Ops Eval.Impl Eval.Funcs Eval.EvalCheck.\n" +
				"Definition c19_index : list Z := " + hv.CoqZList(idx[i:j]) + "%Z.\n" +
				"Definition c19_reindex (l : list Z) : list Z := List.map (fun i => List.nth (Z.to_nat i) c19_index (-1)%Z) l.\n" +
				"Definition c19_ft := " + strings.ReplaceAll(hv.CoqFuncs(hv.HarnessFuncs), "\")", "\"%string)") + ".",
			Ctype: "ecase", Checker: "(fun cs => c19_reindex (check_eval_cases cs))"}
		for _, s := range ec.cases[i:j] {
			cf.Add(s)
		}
		ns, err := cf.Flush(per)
		if err != nil {
			return nil, err
		}
		names = append(names, ns...)
		i = j
	}
	return names, nil
}

// ---- hand corpus ----------------------------------------------------------------------------

// carrierCorpus: complete case texts (scope + source).
var carrierCorpus = []string{
	"## c19 mode=expr want=any labels=0\n## frame\nct_whole = mark([\"CNRYcorpusAAAA01\", \"CNRYcorpusAAAA01\"], \"m1\")\n---\n{ for n in [\"a\", \"b\"] : (ct_whole.*)[1] => n if true }",
	"## c19 mode=expr want=any labels=0\n## direct \"{ for k, t in ct_whole : \\\"${t}\\\" => k }\"\n## frame\nct_whole = mark([\"CNRYcorpusAAAA02\", \"CNRYcorpusAAAA02\"], \"m1\")\n---\n{ for k, t in (true ? ct_whole : null)[*] : \"${t}\" => k }",
	"## c19 mode=expr want=any labels=0\n## frame\nco_nested = {pub = \"p\", v = mark([\"CNRYcorpusAAAA03\", \"CNRYcorpusAAAA03\"], \"m2\")}\npubm = typed({zz = 1}, \"map(number)\")\n---\npubm[(co_nested.v.*)[1]]",
	"## c19 mode=expr want=any labels=0\n## frame\ncl_whole = mark(typed([\"CNRYcorpusAAAA04\", \"CNRYcorpusAAAA04\"], \"list(string)\"), \"m3\")\n---\n{ for n in [\"a\", \"b\"] : [for x in cl_whole : x][0] => n }",
	"## c19 mode=json want=any labels=0\n## frame\ncm_whole = mark(typed({a = \"CNRYcorpusAAAA05\", b = \"CNRYcorpusAAAA05\"}, \"map(string)\"), \"m1\")\n---\n{\"${ {for k, x in cm_whole : k => x}.a }\": 1, \"${ (true ? cm_whole : null)[\\\"b\\\"] }\": 2, \"x\": \"${ {for n in [1, 2] : (cm_whole[*])[0].a => n} }\"}",
}

// carrierCase finishes a carrier case (placeholders -> carriers, direct text, note),
// records the histogram (carrier kind x sink kind x marking) and emits the ceval
// cases of its carriers.
func carrierCase(rep *hv.Report, ec *evalCases, ci *caseInput, cg *cgen, sink string) {
	used := cg.car.finish(ci)
	if len(used) == 0 {
		rep.Hist("stream:carrier-requested-but-no-carrier-in-source")
		return
	}
	rep.Hist("stream:carrier")
	rep.Hist("carrier-mode:" + ci.mode)
	if ci.mode != "expr" && ci.mode != "json" {
		sink = ci.mode + "/" + sink
	} else if ci.mode == "json" {
		sink = "json/" + sink
	}
	rep.Hist("carrier-sink:" + sink)
	var notes []string
	for _, in := range used {
		first := "projection-only"
		if len(in.steps) > 0 {
			first = in.steps[0]
		}
		for _, s := range in.steps {
			rep.Hist("carrier:" + s)
		}
		rep.Hist(fmt.Sprintf("carrier-depth:%d", len(in.steps)))
		rep.Hist("carrier-source:" + in.src.kind + "/" + in.src.marking)
		rep.Hist("carrier-x-sink-x-marking:" + carrierClass(first) + " | " + sinkClass(sink) + " | " + in.src.marking)
		notes = append(notes, fmt.Sprintf("%s over %s (%s, %s)", strings.Join(in.steps, "+"), in.src.name, in.src.kind, in.src.marking))
	}
	sort.Strings(notes)
	ci.note = "sink " + sink + "; " + strings.Join(notes, "; ")
	// ceval: the whole expression (native expression mode) and every carrier on its own
	if ci.mode == "expr" && cg.r.Chance(0.15) {
		ec.add(rep, ci, ci.src, "whole-expression")
	}
	for _, in := range used {
		if cg.r.Chance(0.33) {
			ec.add(rep, ci, in.text, "carrier")
		}
	}
}

// carrierClass / sinkClass: the coarse labels of the three-way histogram (the fine
// labels have their own one-way tables carrier:, carrier-sink:, carrier-source:).
func carrierClass(step string) string {
	switch {
	case strings.Contains(step, "splat"):
		return "splat"
	case strings.HasPrefix(step, "for-") || strings.HasPrefix(step, "objfor-"):
		return "for"
	case strings.HasPrefix(step, "cond-"):
		return "conditional"
	case strings.HasPrefix(step, "first") || strings.HasPrefix(step, "try") || step == "expand-first":
		return "call"
	case step == "projection-only":
		return step
	}
	return "wrap" // parentheses, [x][0], {a = x}.a, template wrap
}

func sinkClass(sink string) string {
	if i := strings.LastIndex(sink, "/"); i >= 0 {
		sink = sink[i+1:]
	}
	switch {
	case strings.HasPrefix(sink, "dupkey"):
		return "duplicate-key"
	case strings.HasPrefix(sink, "index"):
		return "index"
	case strings.HasPrefix(sink, "funcarg") || sink == "args":
		return "function-argument"
	case sink == "tmpl" || sink == "template-needs-string":
		return "template"
	case sink == "cond" || sink == "attrname-from-carrier":
		return "attribute-names"
	case sink == "conv" || sink == "conversion":
		return "conversion"
	case strings.HasPrefix(sink, "objkey"):
		return "object-key"
	case sink == "iter" || sink == "for-body-error" || sink == "splat-body-error":
		return "binder-body"
	}
	return "other"
}
