package main

// Error-biased expression generator on top of hv.EvalGen.
//
// The scope comes from hv.EvalGen.GenScope plus a fixed family of "sec*" variables
// (secrets at top level, nested in unmarked collections, inside marked collections,
// as keys of a marked map); canaries are planted afterwards (scope.go).  The
// expression is an instance of one of the erroneous shapes below, whose holes are
// filled with references to secret strings (%S), secret numbers (%N), iterable
// collections holding secrets (%L), objects/maps holding secrets (%O), objects
// whose ATTRIBUTE NAMES are built from secrets (%K), booleans (%B) and arbitrary
// typed sub-expressions from hv.EvalGen (%X).  %S1/%S2/%N1 are memoised holes
// (same text at every occurrence: duplicate keys).

import (
	"fmt"
	"sort"
	"strings"

	"github.com/hashicorp/hcl/v2"
	"github.com/zclconf/go-cty/cty"
	"github.com/zclconf/go-cty/cty/function"
	"hclverif/hv"
)

// ---- functions available to the cases ----------------------------------------------
// hv.HarnessFuncs plus functions with structural parameter types (to reach
// conversions whose target is a collection/object type).  None of them ever
// prints an argument.

func typedFn(name string, ty cty.Type) function.Function {
	return function.New(&function.Spec{
		Params: []function.Parameter{{Name: name, Type: ty}},
		Type:   function.StaticReturnType(cty.Bool),
		Impl:   func(args []cty.Value, rt cty.Type) (cty.Value, error) { return cty.True, nil },
	})
}

var caseFuncs = func() map[string]function.Function {
	m := map[string]function.Function{}
	for k, v := range hv.HarnessFuncs {
		m[k] = v
	}
	m["takesmap"] = typedFn("m", cty.Map(cty.Number))
	m["takesobj"] = typedFn("o", cty.Object(map[string]cty.Type{"a": cty.Number}))
	m["takeslist"] = typedFn("l", cty.List(cty.Number))
	m["takesset"] = typedFn("st", cty.Set(cty.String))
	m["takeslistobj"] = typedFn("lo", cty.List(cty.Object(map[string]cty.Type{"a": cty.Number})))
	m["takesmapmap"] = typedFn("mm", cty.Map(cty.Map(cty.Number)))
	m["takestuple"] = typedFn("tp", cty.Tuple([]cty.Type{cty.Number, cty.Bool}))
	m["failarg"] = function.New(&function.Spec{
		Params: []function.Parameter{{Name: "v", Type: cty.DynamicPseudoType, AllowMarked: true}},
		Type:   function.StaticReturnType(cty.Bool),
		Impl: func(args []cty.Value, rt cty.Type) (cty.Value, error) {
			return cty.NilVal, function.NewArgErrorf(0, "this argument is not acceptable")
		},
	})
	m["failtype"] = function.New(&function.Spec{
		Params: []function.Parameter{{Name: "v", Type: cty.DynamicPseudoType, AllowMarked: true}},
		Type:   func(args []cty.Value) (cty.Type, error) { return cty.NilType, fmt.Errorf("no result type") },
		Impl:   func(args []cty.Value, rt cty.Type) (cty.Value, error) { return cty.NilVal, nil },
	})
	return m
}()

// ---- scope -----------------------------------------------------------------------------

// secFamily adds the fixed secret-bearing variables (their contents are replaced
// by canaries afterwards; what matters here is shape and where the marks sit).
func secFamily(r *hv.Rng, vars map[string]cty.Value) {
	mk := func(v cty.Value) cty.Value { return v.Mark(r.Pick("m1", "m2", "m3")) }
	s := func() cty.Value { return mk(cty.StringVal("x")) }
	n := func() cty.Value { return mk(cty.NumberIntVal(1)) }
	add := func(name string, v cty.Value) {
		if r.Chance(0.85) {
			vars[name] = v
		}
	}
	add("sec", s())
	add("sec2", s())
	add("secn", n())
	add("secf", n())
	add("secl", cty.ListVal([]cty.Value{s(), s(), s()}))
	add("secml", mk(cty.ListVal([]cty.Value{cty.StringVal("x"), cty.StringVal("y"), cty.StringVal("z")})))
	add("secnl", mk(cty.ListVal([]cty.Value{cty.NumberIntVal(1), cty.NumberIntVal(2)})))
	add("seco", cty.ObjectVal(map[string]cty.Value{"a": s(), "b": n(), "c": cty.StringVal("pub")}))
	add("secmo", mk(cty.ObjectVal(map[string]cty.Value{"a": cty.StringVal("x"), "b": cty.NumberIntVal(1)})))
	add("secmap", cty.MapVal(map[string]cty.Value{"a": s(), "b": s()}))
	add("secmm", mk(cty.MapVal(map[string]cty.Value{"a": cty.StringVal("x"), "b": cty.StringVal("y")})))
	add("seclo", mk(cty.ListVal([]cty.Value{cty.ObjectVal(map[string]cty.Value{"a": cty.StringVal("x")}), cty.ObjectVal(map[string]cty.Value{"a": cty.StringVal("y")})})))
	add("sectp", cty.TupleVal([]cty.Value{s(), n(), cty.StringVal("pub")}))
	add("secst", mk(cty.SetVal([]cty.Value{cty.StringVal("x"), cty.StringVal("y")})))
	vars["pub"] = cty.StringVal("public")
	vars["publ"] = cty.ListVal([]cty.Value{cty.StringVal("p"), cty.StringVal("q")})
}

// duplicate makes the first two elements of the secret lists equal (duplicate keys).
func duplicate(vars map[string]cty.Value) {
	for _, name := range []string{"secl", "secml"} {
		v, ok := vars[name]
		if !ok {
			continue
		}
		u, m := v.Unmark()
		var vs []cty.Value
		for it := u.ElementIterator(); it.Next(); {
			_, ev := it.Element()
			vs = append(vs, ev)
		}
		if len(vs) >= 2 {
			vs[1] = vs[0]
			vars[name] = cty.ListVal(vs).WithMarks(m)
		}
	}
}

type cgen struct {
	r    *hv.Rng
	g    *hv.EvalGen
	S, N []string // reference expressions reaching secret strings / numbers
	L, O []string // variables: iterable holders / object-or-map holders of secrets
	memo map[string]string
	feat map[string]int
	dep  int
	car  *carGen // carrier stream (carrier.go): %S / %L / %O are filled with carrier expressions
}

func isIdent(s string) bool {
	if s == "" {
		return false
	}
	for i, c := range s {
		if !(c == '_' || c >= 'a' && c <= 'z' || c >= 'A' && c <= 'Z' || i > 0 && c >= '0' && c <= '9') {
			return false
		}
	}
	return true
}

// collect finds reference expressions for the secrets of the (planted) scope.
func (c *cgen) collect(vars map[string]cty.Value) {
	var walk func(path string, v cty.Value, under bool, depth int) bool
	walk = func(path string, v cty.Value, under bool, depth int) bool {
		u, m := v.Unmark()
		under = under || len(m) > 0
		if !u.IsKnown() || u.IsNull() {
			return false
		}
		ty := u.Type()
		switch {
		case ty == cty.String:
			if under {
				c.S = append(c.S, path)
			}
			return under
		case ty == cty.Number:
			if under {
				c.N = append(c.N, path)
			}
			return under
		case ty.IsSetType():
			has := false
			for it := u.ElementIterator(); it.Next(); {
				_, ev := it.Element()
				if walk("", ev, under, 9) {
					has = true
				}
			}
			return has
		case ty.IsListType() || ty.IsTupleType() || ty.IsMapType() || ty.IsObjectType():
			has := false
			i := 0
			for it := u.ElementIterator(); it.Next(); i++ {
				kv, ev := it.Element()
				var p string
				switch {
				case path == "" || depth >= 3:
					p = ""
				case ty.IsListType() || ty.IsTupleType():
					p = fmt.Sprintf("%s[%d]", path, i)
				case strings.HasPrefix(kv.AsString(), canaryPrefix):
					p = "" // a canary key cannot be written in the expression text
				case isIdent(kv.AsString()):
					p = path + "." + kv.AsString()
				default:
					p = path + "[" + quote(kv.AsString()) + "]"
				}
				if p == "" {
					// still find out whether there is a secret below
					save := [2]int{len(c.S), len(c.N)}
					if walk("", ev, under, 9) {
						has = true
					}
					c.S, c.N = c.S[:save[0]], c.N[:save[1]]
					continue
				}
				if walk(p, ev, under, depth+1) {
					has = true
				}
			}
			return has
		}
		return false
	}
	for _, name := range hv.SortedKeys(vars) {
		v := vars[name]
		if walk(name, v, false, 0) {
			ty := v.Type()
			switch {
			case ty.IsListType() || ty.IsTupleType() || ty.IsSetType():
				c.L = append(c.L, name)
			case ty.IsMapType() || ty.IsObjectType():
				c.O = append(c.O, name)
			}
		}
	}
	// drop the "" paths produced for unreachable leaves
	keep := func(xs []string) []string {
		var out []string
		for _, x := range xs {
			if x != "" {
				out = append(out, x)
			}
		}
		sort.Strings(out)
		return out
	}
	c.S, c.N = keep(c.S), keep(c.N)
}

func (c *cgen) pick(xs []string, fallback string) string {
	if len(xs) == 0 {
		return fallback
	}
	return xs[c.r.Intn(len(xs))]
}

func (c *cgen) hole(kind byte) string {
	if c.car != nil && (kind == 'S' || kind == 'L' || kind == 'O') && c.r.Chance(0.85) {
		return c.car.hole(kind)
	}
	c.dep++
	defer func() { c.dep-- }()
	deep := c.dep > 3
	switch kind {
	case 'S':
		base := c.pick(c.S, "sec")
		if deep || c.r.Chance(0.55) {
			return base
		}
		return c.expand(c.r.Pick(`"${%s}"`, `"pre-${%s}"`, `upper(%s)`, `(%s)`, `first(%s)`, `(true ? %s : "x")`, `[%s][0]`, `{a = %s}.a`, `"${%s}${%N}"`, `"${%N}"`), base)
	case 'N':
		base := c.pick(c.N, "secn")
		if deep || c.r.Chance(0.6) {
			return base
		}
		return c.expand(c.r.Pick(`(%s)`, `-%s`, `(%s + 1)`, `(%s * 1)`, `first(%s)`, `(false ? 0 : %s)`, `[%s][0]`, `sum(%s, 0)`), base)
	case 'L':
		if len(c.L) > 0 && (deep || c.r.Chance(0.6)) {
			return c.pick(c.L, "secl")
		}
		return c.expand(c.r.Pick(`[%S, %S]`, `[%S]`, `[%N, %N]`, `[for v in [%S] : v]`, `[%S1, %S1]`, `[%S, null]`, `[[%S]]`, `[%K]`, `[%S, %N]`), "")
	case 'O':
		if len(c.O) > 0 && (deep || c.r.Chance(0.6)) {
			return c.pick(c.O, "seco")
		}
		return c.expand(c.r.Pick(`{a = %S}`, `{a = %S, b = %N}`, `{a = [%S]}`, `{a = %K}`), "")
	case 'K':
		return c.expand(c.r.Pick(`{(%S) = 1}`, `{(%S) = [1]}`, `{(%S) = "x"}`, `{(%S) = {}}`, `{for v in [%S] : v => 1}`,
			`{for v in [%S] : v => [1]}`, `{a = {(%S) = [1]}}`, `{(%S) = 1, (%S) = [2]}`, `{for k, v in %O : "${k}x" => [1]}`,
			`{("${%N}") = [1]}`, `{for v in %L : "${v}" => [v]...}`), "")
	case 'B':
		return c.expand(c.r.Pick(`true`, `false`, `true`, `%S == "q"`, `%N > 1`, `!(%S != "q")`), "")
	case 'X':
		c.feat["hole:typed-subexpr"]++
		return "(" + c.g.GenTopExpr() + ")"
	}
	return "null"
}

// expand fills the holes of a shape; %s is replaced by arg.
func (c *cgen) expand(shape, arg string) string {
	var sb strings.Builder
	for i := 0; i < len(shape); i++ {
		if shape[i] != '%' || i+1 >= len(shape) {
			sb.WriteByte(shape[i])
			continue
		}
		k := shape[i+1]
		switch k {
		case 's':
			sb.WriteString(arg)
			i++
		case 'S', 'N', 'L', 'O', 'K', 'B', 'X':
			if i+2 < len(shape) && shape[i+2] >= '1' && shape[i+2] <= '9' {
				key := shape[i+1 : i+3]
				if _, ok := c.memo[key]; !ok {
					c.memo[key] = c.hole(k)
				}
				sb.WriteString(c.memo[key])
				i += 2
			} else {
				sb.WriteString(c.hole(k))
				i++
			}
		default:
			sb.WriteByte('%') // template directive "%{"
		}
	}
	return sb.String()
}

type shapeCat struct {
	name   string
	shapes []string
}

var shapeCats = []shapeCat{
	{"index", []string{
		`%L[%S]`, `%O[%S]`, `%L[%N]`, `%O[%N]`, `l[%S]`, `o[%S]`, `tp[%N]`, `mp[%S]`, `l[%N]`, `[1, 2][%N]`, `[1, 2][%S]`,
		`{a = 1}[%S]`, `{a = 1}[%N]`, `%S[0]`, `%S["a"]`, `%N[0]`, `%S.a`, `%N.a`, `%L.zz`, `%O.zz`, `%O[null]`, `null[%S]`,
		`st[%S]`, `secst[%S]`, `[%S, %S][%S]`, `%K[%S]`, `%K["zz"]`, `%K.zz`, `%K[%N]`, `%L[%L]`, `%O[%O]`, `%L[%K]`, `%O[%K]`,
		`%L[0][%S]`, `%O.a[%N]`, `%L[-1]`, `%L[0.5]`, `%L[%N / 2]`, `secmm[%S]`, `secmm.zz`, `secmo.zz`, `secmo[%S]`, `seclo[0].zz`,
		`seclo.a`, `seclo[%N].a`, `sectp[%N]`, `sectp[%S]`, `%X[%S]`, `%X[%N]`,
	}},
	{"dupkey", []string{
		`{for v in [%S1, %S1] : v => 1}`, `{for v in [%S1, %S1] : "${v}" => 1}`, `{for v in [%S1, %S1] : upper(v) => 1}`,
		`{for k, v in {a = %S1, b = %S1} : v => k}`, `{for v in secl : v => 1}`, `{for v in secml : v => 1}`,
		`{for k, v in secmm : "x" => v}`, `{for k, v in secmm : k => v if true}`, `{for v in %L : v => 1}`, `{for k, v in %O : v => k}`,
		`{for v in [%N1, %N1] : v => 1}`, `{for v in %L : "k" => v}`, `{for v in [1, 1] : %S1 => v}`, `{for v in ["a", "a"] : v => %S if %B}`,
		`{for v in ["a", "a"] : v => 1 if %S1 != "q"}`, `{for v in [%S1, "a", "a"] : v => 1}`, `{for v in ["a", "a", %S] : v => 1}`,
		`{for v in secml : "${v}${v}" => 1}`, `{for v in seclo : v.a => 1}`, `{for v in [seclo[0], seclo[0]] : v.a => 1}`,
		`{for v in [secmo, secmo] : v.a => 1}`, `{for v in secnl : v => 1}`, `{for v in [secnl[0], secnl[0]] : v => 1}`,
		`{for v in [%S1, %S1] : v => v...}`, `{for v in [[%S1], [%S1]] : v[0] => 1}`, `{for v in [{a = %S1}, {a = %S1}] : v.a => 1}`,
		`{for v in [%K, %K] : keys_(v) => 1}`, `{for v in secst : "k" => v}`, `{for i, v in secml : secml[0] => i}`,
	}},
	{"cond", []string{
		`true ? {(%S) = 1} : {b = [2]}`, `%B ? {(%S) = 1} : [1]`, `true ? [%S] : {a = 1}`, `true ? {(%S1) = "x"} : {(%S1) = [1]}`,
		`true ? {a = {(%S) = 1}} : {a = {zz = [2]}}`, `true ? [{(%S) = 1}] : [{b = [2]}]`, `false ? %K : {q = {}}`, `true ? %O : %L`,
		`true ? %L : %O`, `true ? %K : %O`, `%S ? 1 : 2`, `%N ? 1 : 2`, `null ? %S : 1`, `true ? %S : [1]`, `true ? [%S, 1] : [1]`,
		`true ? {a = %S} : {a = [1]}`, `true ? {for v in [%S] : v => 1} : {b = [1]}`, `true ? {for v in [%S] : v => 1} : {for v in ["b"] : v => [1]}`,
		`true ? [for v in %L : v] : {a = 1}`, `%B ? %K : %K`, `%B ? [%K] : [%K]`, `%B ? {a = %K} : {a = %K}`, `true ? %K : [for v in [1] : {b = [2]}][0]`,
		`true ? {(%S1) = "abc"} : {(%S1) = 1}`, `true ? {(%S1) = ["abc"]} : {(%S1) = [1]}`, `true ? {(%S1) = %S} : {(%S1) = %N}`,
		`%B ? {(%S1) = %X} : {(%S1) = %X}`, `%B ? %X : %K`, `%B ? first(%K) : {b = [2]}`, `true ? secmo : {zz = [1]}`, `true ? [secmo] : [{zz = [1]}]`,
		`true ? {a = secmo} : {a = {zz = [1]}}`, `true ? seclo : [{zz = [1]}]`, `true ? first({(%S) = 1}...) : 1`,
	}},
	{"conv", []string{
		`%S + 1`, `1 + %S`, `-%S`, `!%S`, `%S && true`, `%N && true`, `%L + 1`, `%K + 1`, `%K * %K`, `!%K`, `upper(%L)`, `upper(%K)`,
		`"${%L}"`, `"${%O}"`, `"${%K}"`, `"${[%S]}"`, `"a${ {(%S) = 1} }"`, `sum(%S)`, `sum(%K)`, `sum(%S, %N)`, `takesmap(%K)`,
		`takesmap({(%S) = "x"})`, `takesmap({(%S) = {}})`, `takesmap({(%S) = [1]})`, `takesobj(%K)`, `takesobj({(%S) = 1, a = "x"})`,
		`takesobj({(%S) = 1, a = [1]})`, `takeslist([%S, [%S]])`, `takeslist(%K)`, `takesset(%K)`, `takeslistobj([%K])`, `takesmapmap({a = %K})`,
		`takesmapmap({(%S) = {(%S) = [1]}})`, `takesmapmap(%K)`, `takestuple(%K)`, `takestuple([%S, %S])`, `takestuple(%L)`, `takesmap(%O)`,
		`takesobj(%O)`, `takeslist(%L)`, `takeslistobj(%L)`, `takesmap(secmm)`, `takesobj(secmm)`, `takesmap(secmo)`, `takesmapmap(secmm)`,
		`pair(%K, 1)`, `pair(%S, %S)`, `%S < 1`, `%K < 1`, `%K == 1`, `takesmap(%X)`, `takesobj(%X)`, `takeslistobj(%X)`,
	}},
	{"null", []string{
		`{(null) = %S}`, `"${null}${%S}"`, `%S + null`, `null + %S`, `upper(null, %S)`, `[for v in null : %S]`, `null.a`,
		`%S == null ? null[0] : 1`, `{(%S) = null}.zz`, `[%S, null][1].a`, `first(null, %S).a`, `null[*].a`, `{(%S) = null}[null]`,
	}},
	{"names", []string{
		`nosuchfn(%S)`, `nosuch[%S]`, `nosuch.a`, `uppr(%S)`, `sec1`, `secx.a`, `ns::f(%S)`, `secc`, `firs(%K)`, `{(%S) = nosuch}`,
	}},
	{"args", []string{
		`upper()`, `upper(%S, %S)`, `pair(%S)`, `upper(null)`, `fail(%S)`, `sum(%S...)`, `upper([%S]...)`, `upper(%S...)`, `sum(%L...)`,
		`sum(%O...)`, `upper(%L...)`, `first()`, `isnull(%S, 1)`, `sum(null...)`, `failarg(%S)`, `failtype(%S)`, `failarg(%K)`, `failtype(%K)`,
		`fail(%K)`, `first(%K...)`, `upper(%K...)`, `takesmap(%K...)`, `pair(%S, %K)`, `isnull(%K, %K)`, `failarg(%L...)`,
	}},
	{"iter", []string{
		`[for v in %S : v]`, `[for v in %N : v]`, `{for k, v in %S : k => v}`, `%S[*].a`, `%S.*.a`, `%N[*][0]`, `%L[*].zz`, `%L.*.zz`,
		`%O[*].zz`, `[for v in %L : v.zz]`, `[for v in %L : v + 1]`, `[for v in %L : upper(v)]`, `[for v in %L : v[0]]`, `[for k, v in %O : v.zz]`,
		`[for k, v in %O : k + 1]`, `[for k, v in %O : "${k}" + v]`, `[for v in %L : v if v]`, `[for v in %L : v if null]`,
		`[for v in %L : v if v == nosuch]`, `{for k, v in %O : k => v.zz}`, `{for v in %L : v.zz => v}`, `{for v in %L : null => v}`,
		`{for v in %L : [v] => v}`, `{for v in %L : {(v) = 1} => v}`, `[for v in %L : {(v) = 1}.zz]`, `[for v in %L : true ? {(v) = 1} : {b = [2]}]`,
		`[for v in %L : takesmap({(v) = [1]})]`, `%L[*][%S]`, `[for v in [%L] : v[%S]]`, `[for k, v in secmm : k.zz]`, `[for k, v in secmm : v.zz]`,
		`[for k, v in secmm : k + 1]`, `[for k, v in secmm : v + 1]`, `[for v in secml : v.zz]`, `[for v in secml : v + 1]`, `[for v in secnl : v.zz]`,
		`[for v in secnl : upper([v])]`, `[for v in secst : v.zz]`, `[for v in seclo : v.zz]`, `[for v in seclo : v.a.zz]`, `[for k, v in secmo : v.zz]`,
		`[for k, v in secmo : k.zz]`, `{for k, v in secmm : v.zz => k}`, `{for k, v in secmm : k => v if v.zz}`, `[for v in secml : v if v.zz]`,
		`[for v in secml : nosuch]`, `[for v in secml : uppr(v)]`, `[for v in secml : upper(v, v)]`, `[for v in secml : {(v) = 1}.zz]`,
		`[for v in secml : l[v]]`, `[for v in secnl : l[v]]`, `[for v in secml : true ? {(v) = 1} : {b = [2]}]`, `[for v in secml : takesmap({(v) = [1]})]`,
		`[for v in secml : [for w in [v] : w.zz]]`, `[for v in secml : "${v.zz}"]`, `[for v in secml : v[*].zz]`, `secml[*].zz`, `seclo[*].zz`, `secmm[*].zz`,
		`[for v in secml : %X + v]`, `[for v in %L : %X[v]]`,
	}},
	{"tmpl", []string{
		`"%{ for x in %S }${x}%{ endfor }"`, `"%{ if %S }a%{ endif }"`, `"%{ if %N }a%{ endif }"`, `"%{ for x in [%S, null] }${x}%{ endfor }"`,
		`"%{ for x in [[%S]] }${x}%{ endfor }"`, `"%{ for x in %L }${x.zz}%{ endfor }"`, `"%{ for x in %L }${x + 1}%{ endfor }"`,
		`"%{ for k, x in %O }${k}${x.zz}%{ endfor }"`, `"%{ for x in %L }${x}%{ endfor }${%K}"`, `"%{ if null }${%S}%{ endif }"`, `"${%S}${null}"`,
		`"%{ for x in %N }x%{ endfor }"`, `"%{ for x in secml }${x.zz}%{ endfor }"`, `"%{ for x in secml }${x + 1}%{ endfor }"`,
		`"%{ for k, x in secmm }${k.zz}%{ endfor }"`, `"%{ for x in seclo }${x}%{ endfor }"`, `"%{ for x in secml }${[x]}%{ endfor }"`,
		`"%{ if %K }a%{ endif }"`, `"%{ for x in secml }%{ if x }a%{ endif }%{ endfor }"`,
	}},
	{"objkey", []string{
		`{(%S1) = 1, (%S1) = 2}`, `{(%N) = 1}`, `{([%S]) = 1}`, `{(%K) = 1}`, `{(%L) = 1}`, `{seco.a = 1}`, `{(null) = %S}`, `{(%O) = %S}`,
		`{for v in %L : v => 1}.zz`, `{(%S) = 1, (%X) = 2}`,
	}},
}

var wrapShapes = []string{`[%s, %X]`, `{a = %s}`, `first(%s)`, `(%s)`, `"${%s}"`, `[for q in [1] : %s]`, `%B ? %s : %X`, `isnull(%s)`, `[%s][0]`, `{for q in ["a"] : q => %s}`}

// genExpr returns (category, expression text).
func (c *cgen) genExpr() (string, string) {
	c.memo = map[string]string{}
	c.dep = 0
	if c.r.Chance(0.2) {
		c.feat["shape:typed-generator"]++
		return "typed", c.g.GenTopExpr()
	}
	cat := shapeCats[c.r.Intn(len(shapeCats))]
	shape := cat.shapes[c.r.Intn(len(cat.shapes))]
	c.feat["shape:"+cat.name]++
	e := c.expand(shape, "")
	if c.r.Chance(0.2) {
		c.feat["shape:wrapped"]++
		e = c.expand(wrapShapes[c.r.Intn(len(wrapShapes))], e)
	}
	return cat.name, e
}

// newCase builds a scope (hv.EvalGen + sec family), plants canaries and returns the
// case with a generator primed on the planted scope.
func newCase(r *hv.Rng) (*caseInput, *cgen, int) {
	g := hv.NewEvalGen(r)
	g.Unknowns, g.Marks, g.Nulls = 0.04, 0.35, 0.04
	ctx := g.GenScope()
	ci := &caseInput{mode: "expr", want: cty.DynamicPseudoType}
	var chain []*hcl.EvalContext
	for c := ctx; c != nil; c = c.Parent() {
		chain = append(chain, c)
	}
	for i := len(chain) - 1; i >= 0; i-- {
		f := map[string]cty.Value{}
		for k, v := range chain[i].Variables {
			f[k] = v
		}
		ci.frames = append(ci.frames, f)
		if chain[i].Variables == nil && len(chain) == 1 {
			ci.novars = r.Chance(0.5)
		}
	}
	if chain[len(chain)-1].Functions == nil {
		ci.nofuncs = true
	}
	secFamily(r, ci.frames[0])
	p := &planter{r: r}
	for _, f := range ci.frames {
		for _, k := range hv.SortedKeys(f) {
			f[k] = p.plant(f[k], false)
		}
	}
	if r.Chance(0.7) {
		duplicate(ci.frames[0])
	}
	cg := &cgen{r: r, g: g, feat: g.Feat}
	flat := ci.flat()
	g.Vars = flat
	cg.collect(flat)
	return ci, cg, p.n
}
