package main

// Calibration cases for the Coq text model (Diag/LeakCheck.v): FriendlyName,
// valueStr (observed through a rendered diagnostic), convert.MismatchMessage and
// describeConditionalTypeMismatch (observed through the conditional's detail).

import (
	"bytes"
	"fmt"
	"strings"

	"github.com/hashicorp/hcl/v2"
	"github.com/hashicorp/hcl/v2/hclsyntax"
	"github.com/zclconf/go-cty/cty"
	"github.com/zclconf/go-cty/cty/convert"
	"hclverif/hv"
)

// goValueStr returns what diagnosticTextWriter.valueStr prints for v ("" if the
// writer makes no "as" statement for it).
func goValueStr(v cty.Value) (string, bool) {
	expr, _ := hclsyntax.ParseExpression([]byte("x"), "v.hcl", hcl.InitialPos)
	rng := expr.Range()
	d := &hcl.Diagnostic{Severity: hcl.DiagError, Summary: "s", Subject: &rng, Expression: expr,
		EvalContext: &hcl.EvalContext{Variables: map[string]cty.Value{"x": v}}}
	var buf bytes.Buffer
	w := hcl.NewDiagnosticTextWriter(&buf, map[string]*hcl.File{"v.hcl": {Bytes: []byte("x")}}, 0, false)
	if err := w.WriteDiagnostic(d); err != nil {
		return "", false
	}
	out := buf.String()
	const pre = "with x as "
	i := strings.Index(out, pre)
	if i < 0 {
		return "", false
	}
	rest := out[i+len(pre):]
	j := strings.Index(rest, ".\n\n")
	if j < 0 {
		return "", false
	}
	return rest[:j], true
}

func goDescribe(t, f cty.Type) (string, bool) {
	expr, d := hclsyntax.ParseExpression([]byte("true ? a : b"), "d.hcl", hcl.InitialPos)
	if d.HasErrors() {
		return "", false
	}
	_, diags := expr.Value(&hcl.EvalContext{Variables: map[string]cty.Value{"a": cty.UnknownVal(t), "b": cty.UnknownVal(f)}})
	for _, dg := range diags {
		const pre = "The true and false result expressions must have consistent types. "
		if dg.Summary == "Inconsistent conditional result types" && strings.HasPrefix(dg.Detail, pre) {
			return strings.TrimSuffix(dg.Detail[len(pre):], "."), true
		}
	}
	return "", false
}

// orderDependent: MismatchMessage(got, want) reports "the first offending
// attribute" while ranging over a Go map, so with two or more offenders its text
// depends on the map iteration order (the model reports the first in name order).
func orderDependent(got, want cty.Type) bool {
	bad := func(g, w cty.Type) bool { return !g.Equals(w) && convert.GetConversionUnsafe(g, w) == nil }
	switch {
	case got.IsObjectType() && (want.IsMapType() || want.IsObjectType()):
		var offenders []cty.Type
		var wants []cty.Type
		for name, g := range got.AttributeTypes() {
			var w cty.Type
			if want.IsMapType() {
				w = want.ElementType()
			} else if want.HasAttribute(name) {
				w = want.AttributeType(name)
			} else {
				continue
			}
			if bad(g, w) {
				offenders, wants = append(offenders, g), append(wants, w)
			}
		}
		if len(offenders) > 1 {
			return true
		}
		if len(offenders) == 1 {
			return orderDependent(offenders[0], wants[0])
		}
	case got.IsTupleType() && (want.IsListType() || want.IsSetType()):
		for _, g := range got.TupleElementTypes() {
			if bad(g, want.ElementType()) {
				return orderDependent(g, want.ElementType())
			}
		}
	case got.IsCollectionType() && want.IsCollectionType():
		return orderDependent(got.ElementType(), want.ElementType())
	}
	return false
}

func stableMismatch(got, want cty.Type) (string, bool) {
	if got.Equals(want) || convert.GetConversionUnsafe(got, want) != nil || orderDependent(got, want) {
		return "", false
	}
	m := convert.MismatchMessage(got, want)
	for i := 0; i < 40; i++ {
		if convert.MismatchMessage(got, want) != m {
			return "", false
		}
	}
	return m, true
}

func typeSupported(ty cty.Type) bool {
	return !strings.Contains(hv.CoqType(ty), "unsupported")
}

// emitCalib adds calibration cases drawn from the (planted) scope of one case.
func emitCalib(r *hv.Rng, cf *hv.CaseFile, rep *hv.Report, vars map[string]cty.Value) {
	names := hv.SortedKeys(vars)
	if len(names) == 0 {
		return
	}
	pickTy := func() cty.Type {
		ty := vars[names[r.Intn(len(names))]].Type()
		// sometimes a nested component, to get element / attribute types
		for r.Chance(0.3) {
			switch {
			case ty.IsCollectionType():
				ty = ty.ElementType()
			case ty.IsTupleType() && len(ty.TupleElementTypes()) > 0:
				ty = ty.TupleElementTypes()[0]
			default:
				return ty
			}
		}
		return ty
	}
	add := func(kind, s string) {
		cf.Add(s)
		rep.Hist("calib:" + kind)
		rep.Idx("calib " + kind + " " + s)
	}
	// FriendlyName
	if ty := pickTy(); typeSupported(ty) {
		c := r.Chance(0.5)
		txt := ty.FriendlyName()
		if c {
			txt = ty.FriendlyNameForConstraint()
		}
		add("LTy", fmt.Sprintf("LTy %s %s %s", hv.CoqType(ty), hv.CoqBool(c), hv.Hexs([]byte(txt))))
	}
	// valueStr
	for tries := 0; tries < 3; tries++ {
		v := vars[names[r.Intn(len(names))]]
		if v.IsMarked() || !v.IsKnown() || v.IsNull() {
			continue
		}
		info := &hv.ValInfo{}
		cv := hv.CoqVal(v, info)
		if info.Unsupported || info.Inexact {
			continue
		}
		if txt, ok := goValueStr(v); ok {
			add("LVal", fmt.Sprintf("LVal %s %s", cv, hv.Hexs([]byte(txt))))
		}
		break
	}
	// MismatchMessage: a scope type against a wanted type (or another scope type)
	for tries := 0; tries < 4; tries++ {
		got := pickTy()
		want := wantTypes[r.Intn(len(wantTypes))]
		if r.Chance(0.3) {
			want = pickTy()
		}
		if !typeSupported(got) || !typeSupported(want) {
			continue
		}
		if txt, ok := stableMismatch(got, want); ok {
			add("LMis", fmt.Sprintf("LMis %s %s %s", hv.CoqType(got), hv.CoqType(want), hv.Hexs([]byte(txt))))
			break
		}
	}
	// describeConditionalTypeMismatch
	for tries := 0; tries < 4; tries++ {
		t, f := pickTy(), pickTy()
		if r.Chance(0.3) {
			f = wantTypes[r.Intn(len(wantTypes))]
		}
		if !typeSupported(t) || !typeSupported(f) || t == cty.DynamicPseudoType || f == cty.DynamicPseudoType {
			continue
		}
		if txt, ok := goDescribe(t, f); ok {
			add("LDesc", fmt.Sprintf("LDesc %s %s %s", hv.CoqType(t), hv.CoqType(f), hv.Hexs([]byte(txt))))
			break
		}
	}
}
