package main

import (
	"testing"
)

func TestRebind(t *testing.T) {
	for _, c := range []struct{ mode, src string }{
		{"expr", `[for v in secml : v + 1]`},
		{"expr", `{for k, v in secmm : "${k}" => [for w in [v] : w.zz] if v != k}`},
		{"expr", `"%{ for k, x in secmm }${k}${x.zz}%{ endfor }"`},
		{"json", `{"${sec}": "%{ for x in secml }${x + 1}%{ endfor }", "a": ["${[for v in l : v]}", 1, null, true]}`},
		{"dynblock", "dynamic \"b\" {\n  for_each = secml\n  iterator = it\n  labels = [it.key]\n  content {\n    x = it.value + 1\n    dynamic \"c\" {\n      for_each = [it.value]\n      content {\n        y = [for v in secml : c.value]\n      }\n    }\n  }\n}\n"},
	} {
		ci := &caseInput{mode: c.mode, src: c.src}
		a, ok := rebound(ci, true, false)
		t.Logf("FOR ok=%v\n%s\n", ok, a)
		b, ok := rebound(ci, false, true)
		t.Logf("DYN ok=%v\n%s\n", ok, b)
	}
}
