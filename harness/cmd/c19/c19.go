package main

// c19 — canary sweep for property C19 "Diagnostics never reveal the content of
// marked values", on the REAL code.
//
// Per case: a scope in which high-entropy strings / numbers / map keys occur only
// under marks (scope.go), an erroneous expression (gen.go) evaluated directly, as
// the attribute of a native body decoded with hcldec against a type that forces
// conversions, and inside a dynblock-expanded dynamic block (bodies.go).  Every
// diagnostic's Summary and Detail, and its rendering by
// hcl.NewDiagnosticTextWriter (width 80 and 0, colour off and on, source snippets
// and "with x as ..." value summaries), is searched for every canary.
//
// Carrier stream (carrier.go): the secret reaches the sink through a
// value-preserving construct (bare splat, identity for, conditional arm, ...), with
// its own oracle "marks preserved" one step before the diagnostic.
//
// Message text is the observable and the oracle is the property itself; the Coq
// case files emitted (leakcases_*.v, calib.go) only calibrate the text model of
// Diag/Leak.v and Diag/TextWriter.v (FriendlyName, valueStr, MismatchMessage,
// describeConditionalTypeMismatch) against the Go code.

import (
	"bytes"
	"fmt"
	"os"
	"sort"
	"strings"

	"github.com/hashicorp/hcl/v2"
	"github.com/hashicorp/hcl/v2/hclsyntax"
	hcljson "github.com/hashicorp/hcl/v2/json"
	"github.com/zclconf/go-cty/cty"
	"hclverif/hv"
)

func main() { hv.Main(map[string]func(*hv.RunCfg) error{"c19": run}) }

const fileName = "c19.hcl"

// hit is one canary occurrence.
type hit struct {
	kind    string // canary-in-summary | canary-in-detail | canary-in-rendering | panic, or a precise kind (classify.go)
	kind0   string // the generic kind before classification
	summary string
	where   string // the offending text
	canary  string
}

func render(d *hcl.Diagnostic, files map[string]*hcl.File, width uint, color bool) (out string, panicked any) {
	defer func() { panicked = recover() }()
	var buf bytes.Buffer
	w := hcl.NewDiagnosticTextWriter(&buf, files, width, color)
	if err := w.WriteDiagnostic(d); err != nil {
		return buf.String() + "\n<write error: " + err.Error() + ">", nil
	}
	return buf.String(), nil
}

// checkDiags is the direct oracle.
func checkDiags(diags hcl.Diagnostics, files map[string]*hcl.File, cans []string) []hit {
	var hits []hit
	for _, d := range diags {
		inText := false
		if c := findCanary(d.Summary, cans); c != "" {
			hits = append(hits, hit{kind: "canary-in-summary", summary: d.Summary, where: d.Summary, canary: c})
			inText = true
		}
		if c := findCanary(d.Detail, cans); c != "" {
			hits = append(hits, hit{kind: "canary-in-detail", summary: d.Summary, where: d.Detail, canary: c})
			inText = true
		}
		for _, cfg := range []struct {
			w uint
			c bool
		}{{80, false}, {0, false}, {80, true}, {0, true}} {
			out, p := render(d, files, cfg.w, cfg.c)
			if p != nil {
				hits = append(hits, hit{kind: "panic", summary: d.Summary, where: fmt.Sprintf("text writer (width %d colour %v) panicked: %v", cfg.w, cfg.c, p)})
				break
			}
			if inText {
				continue // the rendering repeats summary and detail
			}
			if c := findCanary(out, cans); c != "" {
				hits = append(hits, hit{kind: "canary-in-rendering", summary: d.Summary, where: out, canary: c})
				break
			}
		}
	}
	return hits
}

// runCase executes one case on the real code; returns the diagnostics, the hits
// and whether the source was usable.
func runCase(ci *caseInput) (diags hcl.Diagnostics, hits []hit, ok bool) {
	cans := canaries(ci.frames)
	ctx := ci.evalCtx()
	src := []byte(ci.src)
	if c := findCanary(ci.src, cans); c != "" {
		// generator invariant: the source text never contains a canary
		return nil, []hit{{kind: "harness-canary-in-source", where: ci.src, canary: c}}, false
	}
	var files map[string]*hcl.File
	func() {
		defer func() {
			if p := recover(); p != nil {
				hits = append(hits, hit{kind: "panic", where: fmt.Sprint(p)})
			}
		}()
		switch ci.mode {
		case "expr":
			expr, pd := hclsyntax.ParseExpression(src, fileName, hcl.InitialPos)
			if pd.HasErrors() {
				return
			}
			ok = true
			files = map[string]*hcl.File{fileName: {Bytes: src}}
			_, diags = expr.Value(ctx)
		case "json":
			expr, pd := hcljson.ParseExpression(src, fileName)
			if pd.HasErrors() {
				return
			}
			ok = true
			files = map[string]*hcl.File{fileName: {Bytes: src}}
			_, diags = expr.Value(ctx)
		case "decode", "dynblock":
			f, pd := hclsyntax.ParseConfig(src, fileName, hcl.InitialPos)
			if pd.HasErrors() {
				return
			}
			ok = true
			files = map[string]*hcl.File{fileName: f}
			diags = decodeBody(ci, f.Body, ctx)
		}
	}()
	if !ok {
		return nil, hits, false
	}
	hits = append(hits, checkDiags(diags, files, cans)...)
	return diags, hits, true
}

var corpus = []string{
	// the two repaired defects (DESIGN §9 rows 7 and 14) and their neighbours
	`{for v in [sec, sec] : v => 1}`,
	`true ? {(sec) = 1} : {b = [2]}`,
	`{for v in secl : v => 1}`,
	`{for v in secml : v => 1}`,
	`{for k, v in secmm : "x" => k}`,
	`true ? [{(sec) = 1}] : [{b = [2]}]`,
	`true ? {a = {(sec) = 1}} : {a = {zz = [2]}}`,
	// the remaining path of that defect (known finding conditional-mismatch-quotes-attribute-name): an
	// inner conditional that FAILS hands the outer one a typed unknown without its arms' marks
	`true ? {a = 1} : ([] ? null : {for v in secst : upper(v) => "x"})`,
	// every other kind of erroneous use of a secret
	`secl[sec]`, `seco[sec]`, `sectp[secn]`, `secmap[sec]`, `sec + 1`, `upper(secl)`, `"${seco}"`, `sec[0]`, `sec.a`,
	`{(sec) = 1}.zz`, `{(sec) = 1}["zz"]`, `takesmap({(sec) = [1]})`, `takesobj({(sec) = 1})`, `takeslistobj([{(sec) = 1}])`,
	`[for v in secml : v.zz]`, `[for k, v in secmm : k.zz]`, `"%{ for x in secml }${x.zz}%{ endfor }"`,
	`[for v in sec : v]`, `sec[*].a`, `{(secn) = 1}`, `{([sec]) = 1}`, `nosuchfn(sec)`, `upper(sec, sec)`, `fail(sec)`, `failarg(sec)`,
	`null[sec]`, `{(null) = sec}`, `"${sec}${null}"`, `sec ? 1 : 2`, `-sec`, `!secn`,
}

func run(cfg *hv.RunCfg) error {
	rep := hv.NewReport("C19", cfg.Seed)
	rep.Rule = "scope: hv.EvalGen scope (marks 0.35) + fixed sec* family (secrets top-level, nested in unmarked collections, inside marked collections, as keys of a marked map), every string/number/map key under a mark replaced by a fresh canary; expression: one of ~330 erroneous shapes in 10 categories (index, dupkey, cond, conv, null, names, args, iter, tmpl, objkey) with holes filled by references to secrets, 20% wrapped, 20% from the typed generator; modes expr (50%), JSON-syntax expression (template strings, objects with template keys, 10%), hcldec.Decode of a body with a typed AttrSpec (20%), dynblock.Expand+Decode (20%); hits are refined by classify.go into the three known mechanisms (for-binds-unmarked-elements, dynblock-iterator-unmarked, conversion-error-quotes-attribute-name) by re-evaluation / message shape, everything else keeps the generic kind; carrier stream (carrier.go, ~30% of the cases, all modes): scope variables of every collection kind (tuple, list, set, map, object, string) x marking (elements marked, WHOLE collection marked, marked leaves in unmarked elements, whole-marked collection nested in an unmarked object/tuple) holding two EQUAL secrets, referenced through 1-3 value-preserving carriers (bare splat, attribute splat, splat + traversal, identity for / object-for, conditional arms, parentheses, [x][0], {a = x}.a, template wrap, first(x) / first(x...), try, singleton for / splat, auto-upgrading splat) that fill the %S/%L/%O holes of every sink shape plus dedicated sinks (duplicate key keyed by / iterating the carrier, index into a map lacking the key, wrong-typed function argument, template needing a string, attribute names from values, ...); a hit filed under a for / dynblock known finding must persist when the carriers are replaced by direct references (## direct), otherwise it goes back to the generic kind; oracle carrier-drops-marks: in the value of every closed sub-expression the content of a secret lies under the marks it has in the scope; the carrier expressions are also emitted as ceval cases (carriercases*.v, Eval/EvalCheck.v); non-trivial = parses and yields at least one diagnostic; distinct by SHA-256 of the case text"
	r := hv.NewRng(cfg.Seed, 1901)
	rc := hv.NewRng(cfg.Seed, 1902) // calibration stream
	cf := &hv.CaseFile{Dir: cfg.Out, Name: "leakcases",
		Imports: "From Coq Require Import QArith String.\nFrom HclV Require Import Base.Prelude Cty.Values Cty.Convert Cty.Ops Eval.Impl Diag.Leak Diag.TextWriter Diag.LeakCheck.",
		Ctype:   "lcase", Checker: "check_leak_cases", Extras: [][2]string{{"skipped", "skipped_leak_cases"}}}

	ec := &evalCases{} // ceval cases of the carrier stream (carrier.go)

	type classKey struct{ kind, summary string }
	best := map[classKey]hv.Failure{} // shortest reproducer per (kind, summary)
	count := map[classKey]int{}

	do := func(ci *caseInput, cat string, planted int) {
		text := ci.text()
		// the case is always executed on the scope parsed back from its text
		back, err := parseCase(text)
		if err != nil {
			rep.Hist("harness:scope-text-unparseable")
			rep.Fail(hv.Failure{Kind: "harness-scope-roundtrip", Detail: err.Error(), Input: text})
			return
		}
		diags, hits, ok := runCase(back)
		if ok {
			hits = classify(back, hits, rep.Hist)
			hits = directRefutes(back, hits, rep.Hist)
			hits = append(hits, marksOracle(back, rep.Hist)...)
		}
		if !ok && len(hits) == 0 {
			rep.Hist("parse-error")
			rep.Count(text, false)
			return
		}
		rep.Count(text, len(diags) > 0)
		rep.Hist("mode:" + ci.mode)
		rep.Hist(fmt.Sprintf("canaries-searched:%02d", min(len(canaries(back.frames)), 40)/5*5))
		if diags.HasErrors() {
			rep.Hist("result:error")
			rep.Hist("error-cases-by-category:" + cat)
		} else {
			rep.Hist("result:no-error")
		}
		seen := map[string]bool{}
		for _, d := range diags {
			rep.Hist("diag:" + d.Summary)
			if !seen[d.Summary] {
				seen[d.Summary] = true
				rep.Hist("cases-with-diag:" + d.Summary)
			}
		}
		for _, h := range hits {
			k := classKey{h.kind, h.summary}
			count[k]++
			rep.Hist("HIT:" + h.kind + ":" + h.summary)
			rep.Hist("HITMODE:" + ci.mode + ":" + h.kind)
			rep.Hist("HITTEXT:" + h.kind + ":" + hitSkeleton(h, canaries(back.frames)))
			detail := fmt.Sprintf("diagnostic %q: canary %q found in: %s", h.summary, h.canary, h.where)
			if h.kind == kindCarrier {
				detail = fmt.Sprintf("marks not preserved (%s): %s", h.summary, h.where)
			}
			f := hv.Failure{Kind: h.kind, Input: text,
				Detail: detail,
				Extra:  map[string]string{"source": ci.src, "summary": h.summary, "canary": h.canary, "scope": dumpScope(back), "generic_kind": h.kind0}}
			if old, ok := best[k]; !ok || len(ci.src) < len(old.Extra["source"]) {
				best[k] = f
			}
		}
		if len(ci.src) < 60 {
			rep.Sample(ci.src)
		}
	}

	if cfg.Replay != "" {
		b, err := os.ReadFile(cfg.Replay)
		if err != nil {
			return err
		}
		ci, err := parseCase(string(b))
		if err != nil {
			return err
		}
		do(ci, "replay", 0)
	} else {
		for _, src := range corpus {
			ci, _, n := newCase(r)
			secFamilyAll(r, ci)
			ci.src = src
			do(ci, "corpus", n)
		}
		for _, text := range carrierCorpus {
			ci, err := parseCase(text)
			if err != nil {
				return fmt.Errorf("carrier corpus: %v", err)
			}
			do(ci, "carrier-corpus", 0)
			if ci.mode == "expr" {
				ec.add(rep, ci, ci.src, "corpus")
			}
		}
		for i := 0; i < cfg.N; i++ {
			ci, cg, n := newCase(r)
			carrier := r.Chance(0.34)
			var cat, e, sink string
			if carrier {
				cg.car = newCarGen(r, ci)
				cat, sink, e = cg.genCarExpr()
			} else {
				cat, e = cg.genExpr()
			}
			switch x := r.Intn(10); {
			case x < 5:
				ci.src = e
			case x < 6:
				cat = "json/" + cat
				genJSON(r, ci, cg, e)
			case x < 8:
				cat = "decode/" + cat
				genDecode(r, ci, cg, e)
			default:
				cat = "dynblock"
				genDynblock(r, ci, cg, e)
			}
			if carrier {
				carrierCase(rep, ec, ci, cg, sink)
			}
			rep.Hist(fmt.Sprintf("canaries-planted:%02d", min(n, 60)/5*5))
			do(ci, cat, n)
			emitCalib(rc, cf, rep, ci.flat())
			for k, v := range cg.feat {
				rep.Histogram["gen:"+k] += v
			}
		}
	}

	keys := make([]classKey, 0, len(best))
	for k := range best {
		keys = append(keys, k)
	}
	sort.Slice(keys, func(i, j int) bool {
		if keys[i].kind != keys[j].kind {
			return keys[i].kind < keys[j].kind
		}
		return keys[i].summary < keys[j].summary
	})
	for _, k := range keys {
		f := best[k]
		f.Extra["occurrences"] = fmt.Sprint(count[k])
		rep.Fail(f)
	}
	names := []string{}
	if cfg.Replay == "" {
		var err error
		if names, err = cf.Flush(400); err != nil {
			return err
		}
		more, err := ec.flush(rep, cfg.Out, 60)
		if err != nil {
			return err
		}
		names = append(names, more...)
	}
	rep.CaseFiles = names
	return rep.Write(cfg.Out)
}

// secFamilyAll makes sure the whole sec* family is present (hand corpus).
func secFamilyAll(r *hv.Rng, ci *caseInput) {
	for tries := 0; tries < 20; tries++ {
		missing := false
		for _, n := range []string{"sec", "sec2", "secn", "secf", "secl", "secml", "secnl", "seco", "secmo", "secmap", "secmm", "seclo", "sectp", "secst"} {
			if _, ok := ci.frames[0][n]; !ok {
				missing = true
			}
		}
		if !missing && len(ci.frames) == 1 && !ci.nofuncs && !ci.novars {
			return
		}
		ci.frames = ci.frames[:1]
		ci.nofuncs, ci.novars = false, false
		fresh := map[string]cty.Value{}
		secFamily(r, fresh)
		p := &planter{r: r}
		for k, v := range fresh {
			if _, ok := ci.frames[0][k]; !ok {
				ci.frames[0][k] = p.plant(v, false)
			}
		}
		duplicate(ci.frames[0])
	}
}

func dumpScope(ci *caseInput) string {
	var sb strings.Builder
	for i, f := range ci.frames {
		for _, k := range hv.SortedKeys(f) {
			fmt.Fprintf(&sb, "frame%d %s = %s\n", i, k, hv.DumpVal(f[k]))
		}
	}
	return sb.String()
}

// hitSkeleton reduces the offending text to its format: for summary/detail hits the
// text with every canary replaced by <C>; for rendering hits the offending line(s)
// of the "with ..." block.
func hitSkeleton(h hit, cans []string) string {
	mask := func(t string) string {
		low := strings.ToLower(t)
		for _, c := range cans {
			for {
				i := strings.Index(low, c)
				if i < 0 {
					break
				}
				j := i + len(c)
				// swallow the rest of a number / canary word
				for j < len(low) && (low[j] >= '0' && low[j] <= '9' || low[j] >= 'a' && low[j] <= 'z' || low[j] == '.' && j+1 < len(low) && low[j+1] >= '0' && low[j+1] <= '9') {
					j++
				}
				t = t[:i] + "<C>" + t[j:]
				low = low[:i] + "<C>" + low[j:]
			}
		}
		return t
	}
	if h.kind != "canary-in-rendering" {
		return mask(h.where)
	}
	var out []string
	for _, line := range strings.Split(h.where, "\n") {
		if findCanary(line, cans) != "" {
			out = append(out, strings.TrimSpace(mask(line)))
		}
	}
	sort.Strings(out)
	if len(out) > 2 {
		out = out[:2]
	}
	return strings.Join(out, " | ")
}
