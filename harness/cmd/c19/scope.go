package main

// Scopes as text (so that every case is replayable from Failure.Input alone) and
// canary planting.
//
// A case input is
//
//	## c19 mode=<expr|decode|dynblock> want=<type> labels=<n> [nofuncs] [novars]
//	## carrier: <what the generator composed>      (carrier cases, comment)
//	## direct "<source with the carriers replaced by direct references>"   (carrier cases, JSON string)
//	## frame                         (outermost frame first)
//	name = <value expression>
//	...
//	---
//	<source text: one expression, or a body>
//
// Value expressions are HCL, evaluated with the helper functions mark(v, "m1", ..),
// typed(v, "<type>"), nullof("<type>"), unknown("<type>").  The harness always
// evaluates the case on the scope parsed back from this text, so a replay sees
// byte-for-byte the same scope as the sweep did.

import (
	stdjson "encoding/json"
	"fmt"
	"math/big"
	"sort"
	"strings"

	"github.com/hashicorp/hcl/v2"
	"github.com/hashicorp/hcl/v2/ext/typeexpr"
	"github.com/hashicorp/hcl/v2/hclsyntax"
	"github.com/hashicorp/hcl/v2/hclwrite"
	"github.com/zclconf/go-cty/cty"
	"github.com/zclconf/go-cty/cty/convert"
	"github.com/zclconf/go-cty/cty/function"
	"hclverif/hv"
)

// ---- value -> text ---------------------------------------------------------------

func tyStr(ty cty.Type) string { return typeexpr.TypeString(ty) }

func quote(s string) string { return string(hclwrite.TokensForValue(cty.StringVal(s)).Bytes()) }

func valText(v cty.Value) string {
	if v.IsMarked() {
		u, m := v.Unmark()
		var ls []string
		for k := range m {
			ls = append(ls, quote(fmt.Sprint(k)))
		}
		sort.Strings(ls)
		return "mark(" + valText(u) + ", " + strings.Join(ls, ", ") + ")"
	}
	ty := v.Type()
	if !v.IsKnown() {
		return "unknown(" + quote(tyStr(ty)) + ")"
	}
	if v.IsNull() {
		return "nullof(" + quote(tyStr(ty)) + ")"
	}
	switch {
	case ty == cty.String:
		return quote(v.AsString())
	case ty == cty.Number:
		bf := v.AsBigFloat()
		if bf.IsInf() {
			return "unknown(\"number\")"
		}
		s := bf.Text('f', -1)
		if strings.HasPrefix(s, "-") {
			return "(" + s + ")"
		}
		return s
	case ty == cty.Bool:
		if v.True() {
			return "true"
		}
		return "false"
	case ty.IsListType() || ty.IsSetType() || ty.IsTupleType():
		var parts []string
		for it := v.ElementIterator(); it.Next(); {
			_, ev := it.Element()
			parts = append(parts, valText(ev))
		}
		s := "[" + strings.Join(parts, ", ") + "]"
		if ty.IsTupleType() {
			return s
		}
		return "typed(" + s + ", " + quote(tyStr(ty)) + ")"
	case ty.IsMapType() || ty.IsObjectType():
		var parts []string
		for it := v.ElementIterator(); it.Next(); {
			kv, ev := it.Element()
			parts = append(parts, quote(kv.AsString())+" = "+valText(ev))
		}
		s := "{" + strings.Join(parts, ", ") + "}"
		if ty.IsObjectType() {
			return s
		}
		return "typed(" + s + ", " + quote(tyStr(ty)) + ")"
	}
	return "unknown(\"any\")"
}

type caseInput struct {
	mode    string // expr | decode | dynblock
	want    cty.Type
	labels  int
	nofuncs bool
	novars  bool
	onlyMk  bool                   // classification re-runs of a nofuncs case: only the rebinding helpers are callable
	rebind  bool                   // classification re-run: pairs__ / dyn__ are callable
	frames  []map[string]cty.Value // outermost first
	src     string
	direct  string // carrier cases (carrier.go): the source with every carrier replaced by a direct reference
	note    string // carrier cases: what the generator composed (comment line of the case text)
}

func (c *caseInput) text() string {
	var sb strings.Builder
	fmt.Fprintf(&sb, "## c19 mode=%s want=%s labels=%d", c.mode, strings.ReplaceAll(tyStr(c.want), " ", ""), c.labels)
	if c.nofuncs {
		sb.WriteString(" nofuncs")
	}
	if c.novars {
		sb.WriteString(" novars")
	}
	sb.WriteString("\n")
	if c.note != "" {
		sb.WriteString("## carrier: " + strings.ReplaceAll(c.note, "\n", " ") + "\n")
	}
	if c.direct != "" {
		b, _ := stdjson.Marshal(c.direct)
		sb.WriteString("## direct " + string(b) + "\n")
	}
	for _, f := range c.frames {
		sb.WriteString("## frame\n")
		for _, k := range hv.SortedKeys(f) {
			sb.WriteString(k + " = " + valText(f[k]) + "\n")
		}
	}
	sb.WriteString("---\n")
	sb.WriteString(c.src)
	return sb.String()
}

// ---- text -> value ---------------------------------------------------------------

func parseTy(s string) (cty.Type, error) {
	e, d := hclsyntax.ParseExpression([]byte(s), "type", hcl.InitialPos)
	if d.HasErrors() {
		return cty.NilType, d
	}
	ty, d := typeexpr.TypeConstraint(e)
	if d.HasErrors() {
		return cty.NilType, d
	}
	return ty, nil
}

var anyParam = function.Parameter{Name: "v", Type: cty.DynamicPseudoType, AllowNull: true, AllowUnknown: true, AllowDynamicType: true, AllowMarked: true}

var scopeFuncs = map[string]function.Function{
	"mark": function.New(&function.Spec{
		Params:   []function.Parameter{anyParam},
		VarParam: &function.Parameter{Name: "labels", Type: cty.String},
		Type:     func(args []cty.Value) (cty.Type, error) { return args[0].Type(), nil },
		Impl: func(args []cty.Value, rt cty.Type) (cty.Value, error) {
			v := args[0]
			for _, l := range args[1:] {
				v = v.Mark(l.AsString())
			}
			return v, nil
		},
	}),
	"typed": function.New(&function.Spec{
		Params: []function.Parameter{anyParam, {Name: "t", Type: cty.String}},
		Type: func(args []cty.Value) (cty.Type, error) {
			return parseTy(args[1].AsString())
		},
		Impl: func(args []cty.Value, rt cty.Type) (cty.Value, error) {
			return convert.Convert(args[0], rt)
		},
	}),
	"nullof": function.New(&function.Spec{
		Params: []function.Parameter{{Name: "t", Type: cty.String}},
		Type:   func(args []cty.Value) (cty.Type, error) { return parseTy(args[0].AsString()) },
		Impl:   func(args []cty.Value, rt cty.Type) (cty.Value, error) { return cty.NullVal(rt), nil },
	}),
	"unknown": function.New(&function.Spec{
		Params: []function.Parameter{{Name: "t", Type: cty.String}},
		Type:   func(args []cty.Value) (cty.Type, error) { return parseTy(args[0].AsString()) },
		Impl:   func(args []cty.Value, rt cty.Type) (cty.Value, error) { return cty.UnknownVal(rt), nil },
	}),
}

func parseCase(text string) (*caseInput, error) {
	head, src, ok := strings.Cut(text, "\n---\n")
	if !ok {
		return nil, fmt.Errorf("no --- separator")
	}
	c := &caseInput{src: src, mode: "expr", want: cty.DynamicPseudoType}
	var frameTexts []string
	for _, line := range strings.Split(head, "\n") {
		switch {
		case strings.HasPrefix(line, "## c19"):
			for _, w := range strings.Fields(line)[2:] {
				k, v, _ := strings.Cut(w, "=")
				switch k {
				case "mode":
					c.mode = v
				case "want":
					ty, err := parseTy(v)
					if err != nil {
						return nil, err
					}
					c.want = ty
				case "labels":
					fmt.Sscanf(v, "%d", &c.labels)
				case "nofuncs":
					c.nofuncs = true
				case "novars":
					c.novars = true
				}
			}
		case strings.HasPrefix(line, "## direct "):
			if err := stdjson.Unmarshal([]byte(strings.TrimPrefix(line, "## direct ")), &c.direct); err != nil {
				return nil, fmt.Errorf("direct: %v", err)
			}
		case strings.HasPrefix(line, "## frame"):
			frameTexts = append(frameTexts, "")
		case strings.HasPrefix(line, "##"):
			// comment
		default:
			if len(frameTexts) == 0 {
				frameTexts = append(frameTexts, "")
			}
			frameTexts[len(frameTexts)-1] += line + "\n"
		}
	}
	for _, ft := range frameTexts {
		f, d := hclsyntax.ParseConfig([]byte(ft), "scope", hcl.InitialPos)
		if d.HasErrors() {
			return nil, fmt.Errorf("scope: %s", d.Error())
		}
		attrs, d := f.Body.JustAttributes()
		if d.HasErrors() {
			return nil, fmt.Errorf("scope: %s", d.Error())
		}
		frame := map[string]cty.Value{}
		ectx := &hcl.EvalContext{Functions: scopeFuncs}
		for n, a := range attrs {
			v, d := a.Expr.Value(ectx)
			if d.HasErrors() {
				return nil, fmt.Errorf("scope value %s: %s", n, d.Error())
			}
			frame[n] = v
		}
		c.frames = append(c.frames, frame)
	}
	return c, nil
}

// evalCtx builds the hcl.EvalContext chain of the case (innermost returned).
func (c *caseInput) evalCtx() *hcl.EvalContext {
	funcs := caseFuncs
	if c.nofuncs {
		funcs = nil
	}
	if c.onlyMk {
		funcs = rebindFuncs
	} else if c.rebind && funcs != nil {
		all := map[string]function.Function{}
		for k, f := range funcs {
			all[k] = f
		}
		for k, f := range rebindFuncs {
			all[k] = f
		}
		funcs = all
	}
	if c.novars || len(c.frames) == 0 {
		return &hcl.EvalContext{Functions: funcs}
	}
	var ctx *hcl.EvalContext
	for i, f := range c.frames {
		if i == 0 {
			ctx = &hcl.EvalContext{Variables: f, Functions: funcs}
		} else {
			ctx = ctx.NewChild()
			ctx.Variables = f
		}
	}
	return ctx
}

// flat returns the innermost-wins view of all frames.
func (c *caseInput) flat() map[string]cty.Value {
	out := map[string]cty.Value{}
	for _, f := range c.frames {
		for k, v := range f {
			out[k] = v
		}
	}
	return out
}

// ---- canaries --------------------------------------------------------------------

const canaryPrefix = "CNRY"

type planter struct {
	r *hv.Rng
	n int
}

func (p *planter) str() string {
	const al = "abcdefghijkmnopqrstuvwxyzABCDEFGHJKLMNPQRSTUVWXYZ23456789"
	b := make([]byte, 12)
	for i := range b {
		b[i] = al[p.r.Intn(len(al))]
	}
	p.n++
	return canaryPrefix + string(b)
}

func (p *planter) num() cty.Value {
	// nine-digit integer part (never in the small pools used for public values and
	// expression text); half of them with a fraction.
	ip := int64(1+p.r.Intn(9))*100000000 + int64(p.r.Intn(100000000))
	s := fmt.Sprintf("%d", ip)
	if p.r.Chance(0.5) {
		s += p.r.Pick(".125", ".375", ".625", ".875")
	}
	if p.r.Chance(0.15) {
		s = "-" + s
	}
	p.n++
	return cty.MustParseNumberVal(s)
}

// plant replaces every known string and number that lies under a mark (at any
// depth; "under" = the value itself or one of its ancestors is marked), and every
// key of a map that lies under a mark, by fresh canaries.  Object attribute names
// belong to the type and are left alone.
func (p *planter) plant(v cty.Value, under bool) cty.Value {
	u, m := v.Unmark()
	under = under || len(m) > 0
	ty := u.Type()
	if !u.IsKnown() || u.IsNull() {
		return v
	}
	var out cty.Value
	switch {
	case ty == cty.String:
		out = u
		if under {
			out = cty.StringVal(p.str())
		}
	case ty == cty.Number:
		out = u
		if under {
			out = p.num()
		}
	case ty.IsListType() || ty.IsSetType() || ty.IsTupleType():
		var vs []cty.Value
		for it := u.ElementIterator(); it.Next(); {
			_, ev := it.Element()
			vs = append(vs, p.plant(ev, under))
		}
		switch {
		case ty.IsTupleType():
			out = cty.TupleVal(vs)
		case len(vs) == 0:
			out = u
		case ty.IsListType():
			out = cty.ListVal(vs)
		default:
			out = cty.SetVal(vs)
		}
	case ty.IsMapType() || ty.IsObjectType():
		vs := map[string]cty.Value{}
		for it := u.ElementIterator(); it.Next(); {
			kv, ev := it.Element()
			k := kv.AsString()
			if under && ty.IsMapType() {
				k = p.str()
			}
			vs[k] = p.plant(ev, under)
		}
		switch {
		case ty.IsObjectType():
			out = cty.ObjectVal(vs)
		case len(vs) == 0:
			out = u
		default:
			out = cty.MapVal(vs)
		}
	default:
		out = u
	}
	return out.WithMarks(m)
}

// numToken: the first seven digits of the integer part of a canary number; the
// text is searched with '.' and ',' removed as well, so that %g / exponent
// renderings are found too.
func numToken(bf *big.Float) string {
	var a big.Float
	a.Abs(bf)
	if a.IsInf() || a.Cmp(big.NewFloat(1e8)) < 0 {
		return ""
	}
	s := a.Text('f', 0)
	return s[:7]
}

// canaries lists the search tokens (lower case) of a scope: every secret string,
// map key and number under a mark.
func canaries(frames []map[string]cty.Value) []string {
	set := map[string]bool{}
	var walk func(v cty.Value, under bool)
	walk = func(v cty.Value, under bool) {
		u, m := v.Unmark()
		under = under || len(m) > 0
		if !u.IsKnown() || u.IsNull() {
			return
		}
		ty := u.Type()
		switch {
		case ty == cty.String:
			if under && strings.HasPrefix(u.AsString(), canaryPrefix) {
				set[strings.ToLower(u.AsString())] = true
			}
		case ty == cty.Number:
			if under {
				if t := numToken(u.AsBigFloat()); t != "" {
					set[t] = true
				}
			}
		case ty.IsCollectionType() || ty.IsTupleType() || ty.IsObjectType():
			for it := u.ElementIterator(); it.Next(); {
				kv, ev := it.Element()
				if under && ty.IsMapType() && strings.HasPrefix(kv.AsString(), canaryPrefix) {
					set[strings.ToLower(kv.AsString())] = true
				}
				walk(ev, under)
			}
		}
	}
	for _, f := range frames {
		for _, v := range f {
			walk(v, false)
		}
	}
	out := make([]string, 0, len(set))
	for k := range set {
		out = append(out, k)
	}
	sort.Strings(out)
	return out
}

// findCanary returns the first canary occurring in text ("" if none).
func findCanary(text string, cans []string) string {
	if len(cans) == 0 || text == "" {
		return ""
	}
	low := strings.ToLower(text)
	squeezed := strings.NewReplacer(".", "", ",", "", "_", "").Replace(low)
	for _, c := range cans {
		if strings.Contains(low, c) || strings.Contains(squeezed, c) {
			return c
		}
	}
	return ""
}
