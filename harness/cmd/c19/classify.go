package main

// Precise classification of canary hits into the three KNOWN mechanisms.  A hit
// gets a precise kind when — and only when — the exact cause is established:
//
//   conversion-error-quotes-attribute-name
//       a canary-in-detail hit whose Detail embeds a conversion error (one of the
//       HCL sites that format convert.Convert's error) and in which EVERY canary
//       occurrence sits inside the quotes of a go-cty MismatchMessage name
//       (element "…", attribute "…", attributes "…" and "…", unexpected attribute "…").
//
//   for-binds-unmarked-elements / dynblock-iterator-unmarked
//       decided by RE-EVALUATION: the same case is run again with the iteration
//       variables carrying the marks of their collection, and the hit is gone.
//       Two independent re-evaluations are made:
//        (a) "pushdown": same source, scope rebuilt with every collection-level mark
//            pushed down onto each element (recursively);
//        (b) "rebind": same scope, source rewritten so that the binder binds marked
//            variables:  for k, v in C : … k … v …   becomes
//            for p__N in pairs__(C) : … p__N[0] … p__N[1] …   where pairs__ yields
//            the (key, value) pairs of C with C's top-level marks on both; and
//            dynamic "b" { for_each = FE … b.key … b.value … }   becomes
//            for_each = dyn__(FE) … b.value.k … b.value.v …   likewise.  This is the
//            repaired binding expressed in the language itself (it also covers map
//            keys and set elements).  It is applied to for-expressions only, then to
//            dynamic blocks only: this attributes the hit to the one or the other.
//       (b) decides the kind; (a) must agree, except when the canary is a map KEY
//       or a SET element of the scope, which cannot carry marks of their own in
//       cty (then pushdown cannot express the repaired binding and only (b) is
//       available).  A hit that (b) removes but (a) does not, with a canary that is
//       neither, stays generic.
//
// Everything else keeps its generic kind.

import (
	"bytes"
	stdjson "encoding/json"
	"regexp"
	"sort"
	"strings"

	"github.com/hashicorp/hcl/v2"
	"github.com/hashicorp/hcl/v2/hclsyntax"
	"github.com/zclconf/go-cty/cty"
	"github.com/zclconf/go-cty/cty/function"
)

const (
	kindFor  = "for-binds-unmarked-elements"
	kindDyn  = "dynblock-iterator-unmarked"
	kindConv = "conversion-error-quotes-attribute-name"
	kindCond = "conditional-mismatch-quotes-attribute-name"
)

var collParam = function.Parameter{Name: "coll", Type: cty.DynamicPseudoType, AllowNull: true, AllowUnknown: true, AllowDynamicType: true, AllowMarked: true}

func iterable(u cty.Value) bool {
	return u.IsKnown() && !u.IsNull() && u.Type() != cty.DynamicPseudoType && u.CanIterateElements()
}

// pairs__(coll): the tuple of [key, value] pairs of coll, both carrying coll's
// top-level marks (as does the tuple); coll itself when it cannot be iterated.
var pairsFunc = function.New(&function.Spec{
	Params: []function.Parameter{collParam},
	Type:   func(args []cty.Value) (cty.Type, error) { return cty.DynamicPseudoType, nil },
	Impl: func(args []cty.Value, rt cty.Type) (cty.Value, error) {
		u, m := args[0].Unmark()
		if !iterable(u) {
			return args[0], nil
		}
		var ps []cty.Value
		for it := u.ElementIterator(); it.Next(); {
			k, v := it.Element()
			ps = append(ps, cty.TupleVal([]cty.Value{k.WithMarks(m), v.WithMarks(m)}))
		}
		return cty.TupleVal(ps).WithMarks(m), nil
	},
})

// dyn__(coll): coll with every element e replaced by {k = key, v = e}, both carrying
// coll's top-level marks; keys are kept for maps and objects (lists, tuples and
// sets become tuples).
var dynFunc = function.New(&function.Spec{
	Params: []function.Parameter{collParam},
	Type:   func(args []cty.Value) (cty.Type, error) { return cty.DynamicPseudoType, nil },
	Impl: func(args []cty.Value, rt cty.Type) (cty.Value, error) {
		u, m := args[0].Unmark()
		if !iterable(u) {
			return args[0], nil
		}
		byKey := u.Type().IsMapType() || u.Type().IsObjectType()
		var seq []cty.Value
		obj := map[string]cty.Value{}
		for it := u.ElementIterator(); it.Next(); {
			k, v := it.Element()
			e := cty.ObjectVal(map[string]cty.Value{"k": k.WithMarks(m), "v": v.WithMarks(m)})
			if byKey {
				obj[k.AsString()] = e
			} else {
				seq = append(seq, e)
			}
		}
		if byKey {
			return cty.ObjectVal(obj).WithMarks(m), nil
		}
		return cty.TupleVal(seq).WithMarks(m), nil
	},
})

var rebindFuncs = map[string]function.Function{"pairs__": pairsFunc, "dyn__": dynFunc}

// ---- (3) conversion errors ---------------------------------------------------------

var convSites = []*regexp.Regexp{
	regexp.MustCompile(`^Invalid value for "[^"]*" parameter: `),
	regexp.MustCompile(`^Inappropriate value for attribute "[^"]*": `),
	regexp.MustCompile(`^Invalid value for attribute of "[^"]*" block: `),
	regexp.MustCompile(`^Unsuitable value`),
	regexp.MustCompile(`^Cannot include the given value in a string template: `),
	regexp.MustCompile(`^Cannot include one of the interpolation results into the string template: `),
	regexp.MustCompile(`^Can't use this value as a key: `),
	regexp.MustCompile(`^Cannot use this expression as an object key: `),
	regexp.MustCompile(`^The key expression produced an invalid result: `),
	regexp.MustCompile(`^The (true|false) result value has the wrong type: `),
	regexp.MustCompile(`^The 'if' clause value is invalid: `),
	regexp.MustCompile(`^The given key does not identify an element in this collection value: `),
	regexp.MustCompile(`^Cannot use this value as a dynamic block label: `),
}

var mismatchName = regexp.MustCompile(`(element|attribute|attributes|unexpected attribute|and|,) "((?:[^"\\]|\\.)*)"`)

func isConvQuote(detail string, cans []string) bool {
	site := false
	for _, re := range convSites {
		if loc := re.FindStringIndex(detail); loc != nil {
			if findCanary(detail[:loc[1]], cans) != "" {
				return false // the canary sits in HCL's own part of the message, not in go-cty's
			}
			site = true
			detail = detail[loc[1]:] // the embedded conversion error
			break
		}
	}
	if !site {
		return false
	}
	found := false
	rest := mismatchName.ReplaceAllStringFunc(detail, func(m string) string {
		sub := mismatchName.FindStringSubmatch(m)
		if findCanary(sub[2], cans) != "" {
			found = true
			return sub[1] + " <name>"
		}
		return m
	})
	return found && findCanary(rest, cans) == ""
}

// ---- (4) the conditional's own type-mismatch description --------------------------------
//
// hclsyntax describeConditionalTypeMismatch names the object attributes in which the two
// result TYPES differ ("includes object attribute %q", "Type mismatch for object attribute
// %q: ..."); an object built from a marked key has the marked content as an attribute name.
// The kind is given only when the diagnostic is that one and EVERY canary occurrence sits
// inside such a quoted attribute name.

var condAttrName = regexp.MustCompile(`object attribute "((?:[^"\\]|\\.)*)"`)

func isCondMismatchQuote(summary, detail string, cans []string) bool {
	const head = "The true and false result expressions must have consistent types. "
	if summary != "Inconsistent conditional result types" || !strings.HasPrefix(detail, head) {
		return false
	}
	found := false
	rest := condAttrName.ReplaceAllStringFunc(detail[len(head):], func(m string) string {
		if sub := condAttrName.FindStringSubmatch(m); findCanary(sub[1], cans) != "" {
			found = true
			return "object attribute <name>"
		}
		return m
	})
	return found && findCanary(rest, cans) == ""
}

// condArmsUnmarked establishes the CAUSE of that finding on the real code: some conditional
// of the source has two results NEITHER of which carries a mark anywhere - so the guard of
// fix d4cc54a (describe only when no result is marked) rightly lets the description through -
// while the TYPE of one of them names an attribute that contains a canary (a typed unknown an
// inner failing expression returned without its operands' marks).  A description printed
// although a result IS marked (e.g. a shallow instead of a deep mark test) is not this
// finding and keeps the generic kind.
func condArmsUnmarked(ci *caseInput, cans []string) (found bool) {
	if ci.mode != "expr" {
		return false
	}
	expr, pd := hclsyntax.ParseExpression([]byte(ci.src), fileName, hcl.InitialPos)
	if pd.HasErrors() {
		return false
	}
	ctx := ci.evalCtx()
	var names func(t cty.Type) bool
	names = func(t cty.Type) bool {
		switch {
		case t.IsObjectType():
			for n, at := range t.AttributeTypes() {
				if findCanary(n, cans) != "" || names(at) {
					return true
				}
			}
		case t.IsTupleType():
			for _, et := range t.TupleElementTypes() {
				if names(et) {
					return true
				}
			}
		case t.IsCollectionType():
			return names(t.ElementType())
		}
		return false
	}
	_ = hclsyntax.VisitAll(expr, func(n hclsyntax.Node) hcl.Diagnostics {
		ce, ok := n.(*hclsyntax.ConditionalExpr)
		if !ok {
			return nil
		}
		func() {
			defer func() { _ = recover() }()
			tv, _ := ce.TrueResult.Value(ctx)
			fv, _ := ce.FalseResult.Value(ctx)
			if tv.ContainsMarked() || fv.ContainsMarked() {
				return
			}
			if names(tv.Type()) || names(fv.Type()) {
				found = true
			}
		}()
		return nil
	})
	return found
}

// ---- (a) pushdown --------------------------------------------------------------------

func pushdown(v cty.Value, inherited cty.ValueMarks) cty.Value {
	u, m := v.Unmark()
	all := cty.ValueMarks{}
	for k := range inherited {
		all[k] = struct{}{}
	}
	for k := range m {
		all[k] = struct{}{}
	}
	ty := u.Type()
	if !u.IsKnown() || u.IsNull() {
		return u.WithMarks(all)
	}
	var out cty.Value
	switch {
	case ty.IsListType() || ty.IsSetType() || ty.IsTupleType():
		var vs []cty.Value
		for it := u.ElementIterator(); it.Next(); {
			_, ev := it.Element()
			vs = append(vs, pushdown(ev, all))
		}
		switch {
		case ty.IsTupleType():
			out = cty.TupleVal(vs)
		case len(vs) == 0:
			out = u
		case ty.IsListType():
			out = cty.ListVal(vs)
		default:
			out = cty.SetVal(vs)
		}
	case ty.IsMapType() || ty.IsObjectType():
		vs := map[string]cty.Value{}
		for it := u.ElementIterator(); it.Next(); {
			kv, ev := it.Element()
			vs[kv.AsString()] = pushdown(ev, all)
		}
		switch {
		case ty.IsObjectType():
			out = cty.ObjectVal(vs)
		case len(vs) == 0:
			out = u
		default:
			out = cty.MapVal(vs)
		}
	default:
		out = u
	}
	return out.WithMarks(all)
}

// keyOrSetCanaries: the canaries that occur in the scope as a map key or inside a
// set: positions that cannot carry marks of their own.
func keyOrSetCanaries(frames []map[string]cty.Value) map[string]bool {
	out := map[string]bool{}
	var walk func(v cty.Value, inSet bool)
	walk = func(v cty.Value, inSet bool) {
		u, _ := v.Unmark()
		if !u.IsKnown() || u.IsNull() {
			return
		}
		ty := u.Type()
		switch {
		case ty == cty.String:
			if inSet {
				out[strings.ToLower(u.AsString())] = true
			}
		case ty == cty.Number:
			if inSet {
				if t := numToken(u.AsBigFloat()); t != "" {
					out[t] = true
				}
			}
		case ty.IsCollectionType() || ty.IsTupleType() || ty.IsObjectType():
			for it := u.ElementIterator(); it.Next(); {
				kv, ev := it.Element()
				if ty.IsMapType() {
					out[strings.ToLower(kv.AsString())] = true
				}
				walk(ev, inSet || ty.IsSetType())
			}
		}
	}
	for _, f := range frames {
		for _, v := range f {
			walk(v, false)
		}
	}
	return out
}

// derivedKeyCanaries: the canaries that are a key, attribute name or set element of
// a collection the source iterates over (for collections and for_each values,
// evaluated in the case's own scope): e.g. for_each = {(sec) = 1}.
func derivedKeyCanaries(ci *caseInput, cans []string) map[string]bool {
	out := map[string]bool{}
	var colls []hclsyntax.Expression
	collect := func(n hclsyntax.Node) {
		hclsyntax.VisitAll(n, func(nd hclsyntax.Node) hcl.Diagnostics {
			if fe, ok := nd.(*hclsyntax.ForExpr); ok {
				colls = append(colls, fe.CollExpr)
			}
			if a, ok := nd.(*hclsyntax.Attribute); ok && a.Name == "for_each" {
				colls = append(colls, a.Expr)
			}
			return nil
		})
	}
	src := []byte(ci.src)
	switch ci.mode {
	case "expr":
		if e, d := hclsyntax.ParseExpression(src, fileName, hcl.InitialPos); !d.HasErrors() {
			collect(e)
		}
	case "json":
		return out
	default:
		if f, d := hclsyntax.ParseConfig(src, fileName, hcl.InitialPos); !d.HasErrors() {
			collect(f.Body.(*hclsyntax.Body))
		}
	}
	var walk func(v cty.Value, inSet bool)
	walk = func(v cty.Value, inSet bool) {
		u, _ := v.Unmark()
		if !u.IsKnown() || u.IsNull() {
			return
		}
		ty := u.Type()
		switch {
		case ty == cty.String:
			if c := findCanary(u.AsString(), cans); inSet && c != "" {
				out[c] = true
			}
		case ty.IsCollectionType() || ty.IsTupleType() || ty.IsObjectType():
			for it := u.ElementIterator(); it.Next(); {
				kv, ev := it.Element()
				if ty.IsMapType() || ty.IsObjectType() {
					ku, _ := kv.Unmark()
					if c := findCanary(ku.AsString(), cans); c != "" {
						out[c] = true
					}
				}
				walk(ev, inSet || ty.IsSetType())
			}
		}
	}
	ctx := ci.evalCtx()
	for _, e := range colls {
		func() {
			defer func() { recover() }()
			if v, d := e.Value(ctx); !d.HasErrors() {
				walk(v, false)
			}
		}()
	}
	return out
}

// ---- (b) rebind: source rewriting ------------------------------------------------------

type edit struct {
	start, end int
	text       string
}

func applyEdits(src string, edits []edit) string {
	sort.Slice(edits, func(i, j int) bool { return edits[i].start > edits[j].start })
	last := len(src) + 1
	for _, e := range edits {
		if e.end > last || e.start < 0 || e.end > len(src) { // overlapping / duplicate
			continue
		}
		src = src[:e.start] + e.text + src[e.end:]
		last = e.start
	}
	return src
}

var forHeader = regexp.MustCompile(`for\s+[A-Za-z_][A-Za-z0-9_-]*\s*(,\s*[A-Za-z_][A-Za-z0-9_-]*\s*)?\s+in\s*$`)

// rootEdits replaces the root identifier of every free reference to one of names.
func rootEdits(src []byte, expr hclsyntax.Expression, names map[string]string, edits *[]edit) {
	if expr == nil {
		return
	}
	for _, tr := range hclsyntax.Variables(expr) {
		root, ok := tr[0].(hcl.TraverseRoot)
		if !ok {
			continue
		}
		repl, ok := names[root.Name]
		if !ok {
			continue
		}
		r := root.SrcRange
		if r.End.Byte > len(src) || string(r.SliceBytes(src)) != root.Name {
			continue
		}
		*edits = append(*edits, edit{r.Start.Byte, r.End.Byte, repl})
	}
}

// forEdits rewrites every for expression (native and template) of node.
func forEdits(src []byte, node hclsyntax.Node) []edit {
	var edits []edit
	n := 0
	hclsyntax.VisitAll(node, func(nd hclsyntax.Node) hcl.Diagnostics {
		fe, ok := nd.(*hclsyntax.ForExpr)
		if !ok {
			return nil
		}
		cr := fe.CollExpr.Range()
		if cr.End.Byte > len(src) {
			return nil
		}
		loc := forHeader.FindIndex(src[:cr.Start.Byte])
		if loc == nil {
			return nil
		}
		n++
		p := "p__" + string(rune('a'+n%26)) + string(rune('a'+(n/26)%26))
		edits = append(edits, edit{loc[0], loc[1], "for " + p + " in "})
		edits = append(edits, edit{cr.Start.Byte, cr.Start.Byte, "pairs__("})
		edits = append(edits, edit{cr.End.Byte, cr.End.Byte, ")"})
		names := map[string]string{fe.ValVar: p + "[1]"}
		if fe.KeyVar != "" {
			names[fe.KeyVar] = p + "[0]"
		}
		for _, sub := range []hclsyntax.Expression{fe.KeyExpr, fe.ValExpr, fe.CondExpr} {
			rootEdits(src, sub, names, &edits)
		}
		return nil
	})
	return edits
}

func bodyExprs(b *hclsyntax.Body, out *[]hclsyntax.Expression) {
	for _, a := range b.Attributes {
		*out = append(*out, a.Expr)
	}
	for _, blk := range b.Blocks {
		bodyExprs(blk.Body, out)
	}
}

// iterEdits replaces it.key / it.value by it.value.k / it.value.v
func iterEdits(src []byte, expr hclsyntax.Expression, it string, edits *[]edit) {
	for _, tr := range hclsyntax.Variables(expr) {
		root, ok := tr[0].(hcl.TraverseRoot)
		if !ok || root.Name != it || len(tr) < 2 {
			continue
		}
		at, ok := tr[1].(hcl.TraverseAttr)
		if !ok || (at.Name != "key" && at.Name != "value") {
			continue
		}
		s, e := root.SrcRange.Start.Byte, at.SrcRange.End.Byte
		if e > len(src) || !strings.HasSuffix(string(src[s:e]), at.Name) {
			continue
		}
		*edits = append(*edits, edit{s, e, it + ".value." + at.Name[:1]})
	}
}

// dynEdits rewrites every dynamic block of body.
func dynEdits(src []byte, body *hclsyntax.Body, edits *[]edit) {
	for _, blk := range body.Blocks {
		if blk.Type != "dynamic" || len(blk.Labels) != 1 {
			dynEdits(src, blk.Body, edits)
			continue
		}
		it := blk.Labels[0]
		if a, ok := blk.Body.Attributes["iterator"]; ok {
			if tr, d := hcl.AbsTraversalForExpr(a.Expr); !d.HasErrors() {
				it = tr.RootName()
			}
		}
		if fe, ok := blk.Body.Attributes["for_each"]; ok {
			r := fe.Expr.Range()
			*edits = append(*edits, edit{r.Start.Byte, r.Start.Byte, "dyn__("}, edit{r.End.Byte, r.End.Byte, ")"})
			var exprs []hclsyntax.Expression
			if l, ok := blk.Body.Attributes["labels"]; ok {
				exprs = append(exprs, l.Expr)
			}
			for _, cb := range blk.Body.Blocks {
				if cb.Type == "content" {
					bodyExprs(cb.Body, &exprs)
				}
			}
			for _, e := range exprs {
				iterEdits(src, e, it, edits)
			}
		}
		for _, cb := range blk.Body.Blocks {
			if cb.Type == "content" {
				dynEdits(src, cb.Body, edits)
			}
		}
	}
}

// jsonRebind rewrites the for expressions inside every template string (values
// and keys) of a JSON expression.
func jsonRebind(src string) (string, bool) {
	dec := stdjson.NewDecoder(strings.NewReader(src))
	dec.UseNumber()
	var out bytes.Buffer
	changed := false
	str := func(s string) {
		if e, d := hclsyntax.ParseTemplate([]byte(s), fileName, hcl.InitialPos); !d.HasErrors() {
			if eds := forEdits([]byte(s), e); len(eds) > 0 {
				s = applyEdits(s, eds)
				changed = true
			}
		}
		b, _ := stdjson.Marshal(s)
		out.Write(b)
	}
	var val func() bool
	val = func() bool {
		tok, err := dec.Token()
		if err != nil {
			return false
		}
		switch t := tok.(type) {
		case stdjson.Delim:
			switch t {
			case '{':
				out.WriteByte('{')
				for first := true; dec.More(); first = false {
					if !first {
						out.WriteByte(',')
					}
					k, err := dec.Token()
					ks, ok := k.(string)
					if err != nil || !ok {
						return false
					}
					str(ks)
					out.WriteByte(':')
					if !val() {
						return false
					}
				}
				dec.Token()
				out.WriteByte('}')
			case '[':
				out.WriteByte('[')
				for first := true; dec.More(); first = false {
					if !first {
						out.WriteByte(',')
					}
					if !val() {
						return false
					}
				}
				dec.Token()
				out.WriteByte(']')
			}
		case string:
			str(t)
		case stdjson.Number:
			out.WriteString(t.String())
		case bool:
			if t {
				out.WriteString("true")
			} else {
				out.WriteString("false")
			}
		case nil:
			out.WriteString("null")
		}
		return true
	}
	if !val() {
		return src, false
	}
	return out.String(), changed
}

// rebound returns the source with the for variables (forOnly) or the dynamic
// iterators (dynOnly) re-marked; ok = false when there is nothing to rewrite.
func rebound(ci *caseInput, doFor, doDyn bool) (string, bool) {
	src := []byte(ci.src)
	var edits []edit
	switch ci.mode {
	case "json":
		if !doFor {
			return "", false
		}
		return jsonRebind(ci.src)
	case "expr":
		e, d := hclsyntax.ParseExpression(src, fileName, hcl.InitialPos)
		if d.HasErrors() {
			return "", false
		}
		if doFor {
			edits = forEdits(src, e)
		}
	default:
		f, d := hclsyntax.ParseConfig(src, fileName, hcl.InitialPos)
		if d.HasErrors() {
			return "", false
		}
		body := f.Body.(*hclsyntax.Body)
		if doFor {
			edits = append(edits, forEdits(src, body)...)
		}
		if doDyn {
			dynEdits(src, body, &edits)
		}
	}
	if len(edits) == 0 {
		return "", false
	}
	return applyEdits(ci.src, edits), true
}

// ---- the classifier ------------------------------------------------------------------------

type hitKey struct{ kind, summary, canary string }

func hitSet(hits []hit) map[hitKey]bool {
	m := map[hitKey]bool{}
	for _, h := range hits {
		m[hitKey{h.kind, h.summary, h.canary}] = true
	}
	return m
}

// classify refines the generic kinds of the hits of one case; note receives
// bookkeeping keys for the histogram.
func classify(ci *caseInput, hits []hit, note func(string)) []hit {
	generic := false
	cans := canaries(ci.frames)
	for i := range hits {
		h := &hits[i]
		if h.kind == "canary-in-detail" && isConvQuote(h.where, cans) {
			h.kind0, h.kind = h.kind, kindConv
			continue
		}
		if h.kind == "canary-in-detail" && isCondMismatchQuote(h.summary, h.where, cans) && condArmsUnmarked(ci, cans) {
			h.kind0, h.kind = h.kind, kindCond
			continue
		}
		if strings.HasPrefix(h.kind, "canary-") {
			generic = true
		}
	}
	if !generic {
		return hits
	}
	variant := func(src string, frames []map[string]cty.Value) (map[hitKey]bool, bool) {
		v := *ci
		v.src, v.frames = src, frames
		if v.nofuncs {
			v.nofuncs, v.onlyMk = false, true
		}
		v.rebind = true
		_, vh, ok := runCase(&v)
		if !ok {
			return nil, false
		}
		return hitSet(vh), true
	}
	// (a) pushdown
	var pd []map[string]cty.Value
	for _, f := range ci.frames {
		nf := map[string]cty.Value{}
		for k, v := range f {
			nf[k] = pushdown(v, nil)
		}
		pd = append(pd, nf)
	}
	pdHits, pdOK := variant(ci.src, pd)
	// (b) rebind
	type rb struct {
		hits map[hitKey]bool
		ok   bool
	}
	run := func(doFor, doDyn bool) rb {
		src, ok := rebound(ci, doFor, doDyn)
		if !ok {
			return rb{}
		}
		hs, ok := variant(src, ci.frames)
		if !ok {
			note("classify:rewritten-source-unusable")
		}
		return rb{hs, ok}
	}
	rbFor, rbDyn, rbBoth := run(true, false), run(false, true), rb{}
	if rbFor.ok && rbDyn.ok {
		rbBoth = run(true, true)
	}
	keyset := keyOrSetCanaries(ci.frames)
	for i := range hits {
		h := &hits[i]
		if !strings.HasPrefix(h.kind, "canary-") {
			continue
		}
		k := hitKey{h.kind, h.summary, h.canary}
		precise := ""
		switch {
		case rbFor.ok && !rbFor.hits[k]:
			precise = kindFor
		case rbDyn.ok && !rbDyn.hits[k]:
			precise = kindDyn
		case rbBoth.ok && !rbBoth.hits[k]:
			precise = kindDyn // needs both binders repaired; the outermost is the dynamic block
			note("classify:needs-both-binders")
		}
		if precise == "" {
			continue
		}
		switch {
		case pdOK && !pdHits[k]:
			note("classify:pushdown-agrees")
		case keyset[h.canary]:
			note("classify:pushdown-inexpressible(map key or set element)")
		case derivedKeyCanaries(ci, cans)[h.canary]:
			note("classify:pushdown-inexpressible(key of an iterated collection built by the expression)")
		default:
			note("classify:rebind-only(left generic)")
			continue
		}
		h.kind0, h.kind = h.kind, precise
	}
	return hits
}
