package main

// Observation of the real code and its rendering as Coq case terms.

import (
	"fmt"
	"strings"
	"unicode"
	"unicode/utf8"

	"github.com/hashicorp/hcl/v2"
	"github.com/hashicorp/hcl/v2/hclsyntax"
	"github.com/hashicorp/hcl/v2/hclwrite"
	"github.com/zclconf/go-cty/cty"
	"hclverif/hv"
)

func cps(s string) string {
	var xs []int
	for _, r := range s {
		xs = append(xs, int(r))
	}
	return hv.CoqZList(xs)
}

func coqToks(ts hclwrite.Tokens) string {
	items := make([]string, len(ts))
	for i, t := range ts {
		items[i] = fmt.Sprintf("GT %s %s", hv.CoqZ(int(t.Type)), hv.Hexs(t.Bytes))
	}
	return hv.CoqList(items)
}

func coqSynToks(ts []hclsyntax.Token) string {
	items := make([]string, len(ts))
	for i, t := range ts {
		items[i] = fmt.Sprintf("GT %s %s", hv.CoqZ(int(t.Type)), hv.Hexs(t.Bytes))
	}
	return hv.CoqList(items)
}

// valInfo collects what the model needs besides the value: ValidIdentifier
// answers for keys and the non-printable runes of all strings.
type valInfo struct {
	idents map[string]bool
	np     map[rune]bool
}

func newInfo() *valInfo { return &valInfo{idents: map[string]bool{}, np: map[rune]bool{}} }

func (vi *valInfo) str(s string) {
	for _, r := range s {
		if !unicode.IsPrint(r) {
			vi.np[r] = true
		}
	}
}

func (vi *valInfo) coqIdents() string {
	var items []string
	for _, k := range hv.SortedKeys(vi.idents) {
		items = append(items, fmt.Sprintf("(%s, %s)", cps(k), hv.CoqBool(vi.idents[k])))
	}
	return hv.CoqList(items)
}

func (vi *valInfo) coqNP() string {
	var xs []int
	for r := range vi.np {
		xs = append(xs, int(r))
	}
	// deterministic order
	for i := range xs {
		for j := i + 1; j < len(xs); j++ {
			if xs[j] < xs[i] {
				xs[i], xs[j] = xs[j], xs[i]
			}
		}
	}
	return hv.CoqZList(xs)
}

// coqVal renders a wholly-known cty value as a term of Generate.val, elements
// in Go's ElementIterator order.
func coqVal(v cty.Value, vi *valInfo) string {
	ty := v.Type()
	switch {
	case v.IsNull():
		return "VNull"
	case ty == cty.Bool:
		return "VBool " + hv.CoqBool(v.True())
	case ty == cty.Number:
		return "VNum (unhex " + hv.Hexs([]byte(v.AsBigFloat().Text('f', -1))) + ")"
	case ty == cty.String:
		vi.str(v.AsString())
		return "VStr " + cps(v.AsString())
	case ty.IsListType() || ty.IsSetType() || ty.IsTupleType():
		var items []string
		for it := v.ElementIterator(); it.Next(); {
			_, ev := it.Element()
			items = append(items, coqVal(ev, vi))
		}
		return "VSeq " + hv.CoqList(items)
	case ty.IsMapType() || ty.IsObjectType():
		var items []string
		for it := v.ElementIterator(); it.Next(); {
			kv, ev := it.Element()
			k := kv.AsString()
			vi.str(k)
			vi.idents[k] = hclsyntax.ValidIdentifier(k)
			items = append(items, fmt.Sprintf("(%s, %s)", cps(k), coqVal(ev, vi)))
		}
		return "VMap " + hv.CoqList(items)
	}
	panic("unsupported value")
}

func coqTraversal(t hcl.Traversal, vi *valInfo) string {
	var items []string
	for _, st := range t {
		switch s := st.(type) {
		case hcl.TraverseRoot:
			items = append(items, "TRoot "+cps(s.Name))
		case hcl.TraverseAttr:
			items = append(items, "TAttr "+cps(s.Name))
		case hcl.TraverseIndex:
			items = append(items, "TIndex ("+coqVal(s.Key, vi)+")")
		default:
			items = append(items, "TSplat")
		}
	}
	return hv.CoqList(items)
}

func hexList(ss []string) string {
	items := make([]string, len(ss))
	for i, s := range ss {
		items[i] = hv.Hexs([]byte(s))
	}
	return hv.CoqList(items)
}

// ---- observations ---------------------------------------------------------------

func errCode(d *hcl.Diagnostic) int {
	switch {
	case strings.HasPrefix(d.Detail, "Backslash must be followed"):
		return 1
	case strings.HasPrefix(d.Detail, "The \\u escape sequence"):
		return 2
	case strings.HasPrefix(d.Detail, "The \\U escape sequence"):
		return 3
	case strings.HasPrefix(d.Detail, "Cannot encode character"):
		return 4
	case strings.HasSuffix(d.Detail, "is not a valid escape sequence selector."):
		return 5
	}
	return 99
}

// unescCase: ParseStringLiteralToken on a QuotedLit token holding b.
func unescCase(b []byte) (string, bool) {
	if !utf8.Valid(b) {
		return "", false // outside the modelled domain
	}
	var out string
	var codes []int
	func() {
		defer func() {
			if recover() != nil {
				codes = []int{-1}
			}
		}()
		s, diags := hclsyntax.ParseStringLiteralToken(hclsyntax.Token{Type: hclsyntax.TokenQuotedLit, Bytes: b})
		out = s
		for _, d := range diags {
			codes = append(codes, errCode(d))
		}
	}()
	return fmt.Sprintf("(%s, %s, %s)", hv.Hexs(b), hv.Hexs([]byte(out)), hv.CoqZList(codes)), true
}

// lexCase: tokens the real lexer produces for `"` + body, after the opening
// quote, up to and including the first CQuote / TemplateInterp / TemplateControl.
func lexCase(body []byte) string {
	src := append([]byte{'"'}, body...)
	toks, _ := hclsyntax.LexExpression(src, "", hcl.InitialPos)
	var sel []hclsyntax.Token
	for i, t := range toks {
		if i == 0 {
			continue
		}
		if t.Type == hclsyntax.TokenEOF {
			break
		}
		sel = append(sel, t)
		if t.Type == hclsyntax.TokenCQuote || t.Type == hclsyntax.TokenTemplateInterp || t.Type == hclsyntax.TokenTemplateControl {
			break
		}
	}
	return fmt.Sprintf("(%s, %s)", hv.Hexs(body), coqSynToks(sel))
}
