package main

// Direct oracles on the real code (independent of the Coq model).

import (
	"bytes"
	"fmt"
	"sort"
	"strings"

	"github.com/hashicorp/hcl/v2"
	"github.com/hashicorp/hcl/v2/hclsyntax"
	"github.com/hashicorp/hcl/v2/hclwrite"
	"github.com/zclconf/go-cty/cty"
	"github.com/zclconf/go-cty/cty/convert"
)

type verdict struct {
	kind, detail string
}

func ok() verdict { return verdict{} }

// readBack parses and evaluates expression source and converts the result to
// the type of the original.
func readBack(src []byte, want cty.Value) verdict {
	expr, diags := hclsyntax.ParseExpression(src, "gen.hcl", hcl.InitialPos)
	if diags.HasErrors() {
		return verdict{"value-readback-parse-error", diags.Error()}
	}
	got, diags := expr.Value(nil)
	if diags.HasErrors() {
		return verdict{"value-readback-parse-error", "evaluation: " + diags.Error()}
	}
	conv, err := convert.Convert(got, want.Type())
	if err != nil {
		return verdict{"value-readback-differs", "convert: " + err.Error()}
	}
	if !conv.RawEquals(want) {
		return verdict{"value-readback-differs", fmt.Sprintf("got %s", conv.GoString())}
	}
	return ok()
}

// firstKeyFor reports whether v contains (at any depth) a map/object whose
// first key in iteration order is the identifier `for`.
func firstKeyFor(v cty.Value) bool {
	if v.IsNull() || !v.IsKnown() {
		return false
	}
	ty := v.Type()
	if !(ty.IsCollectionType() || ty.IsTupleType() || ty.IsObjectType()) {
		return false
	}
	first := true
	found := false
	for it := v.ElementIterator(); it.Next(); {
		k, ev := it.Element()
		if first && (ty.IsMapType() || ty.IsObjectType()) && k.AsString() == "for" {
			found = true
		}
		first = false
		if firstKeyFor(ev) {
			found = true
		}
	}
	return found
}

const bom = "\ufeff"

// hasBomKey reports whether v contains (at any depth) a map/object key that
// starts with U+FEFF and that hclsyntax.ValidIdentifier nevertheless accepts
// (its scanner strips a leading byte-order mark).
func hasBomKey(v cty.Value) bool {
	if v.IsNull() || !v.IsKnown() {
		return false
	}
	ty := v.Type()
	if !(ty.IsCollectionType() || ty.IsTupleType() || ty.IsObjectType()) {
		return false
	}
	found := false
	for it := v.ElementIterator(); it.Next(); {
		k, ev := it.Element()
		if ty.IsMapType() || ty.IsObjectType() {
			if ks := k.AsString(); strings.HasPrefix(ks, bom) && hclsyntax.ValidIdentifier(ks) {
				found = true
			}
		}
		if hasBomKey(ev) {
			found = true
		}
	}
	return found
}

// renameBomKeys returns v with the leading U+FEFF of every such key replaced
// by "b_" (ok=false when that collides with another key).
func renameBomKeys(v cty.Value) (cty.Value, bool) {
	if v.IsNull() {
		return v, true
	}
	ty := v.Type()
	switch {
	case ty.IsListType() || ty.IsSetType() || ty.IsTupleType():
		var vs []cty.Value
		for it := v.ElementIterator(); it.Next(); {
			_, ev := it.Element()
			nv, ok := renameBomKeys(ev)
			if !ok {
				return v, false
			}
			vs = append(vs, nv)
		}
		return cty.TupleVal(vs), true
	case ty.IsMapType() || ty.IsObjectType():
		m := map[string]cty.Value{}
		for it := v.ElementIterator(); it.Next(); {
			k, ev := it.Element()
			ks := k.AsString()
			nv, ok := renameBomKeys(ev)
			if !ok {
				return v, false
			}
			if strings.HasPrefix(ks, bom) && hclsyntax.ValidIdentifier(ks) {
				ks = "b_" + strings.TrimPrefix(ks, bom)
			}
			if _, dup := m[ks]; dup {
				return v, false
			}
			m[ks] = nv
		}
		return cty.ObjectVal(m), true
	}
	return v, true
}

func valueOracle(v cty.Value) (vd verdict, src []byte) {
	defer func() {
		if r := recover(); r != nil {
			vd = verdict{"panic", fmt.Sprint(r)}
		}
	}()
	src = hclwrite.TokensForValue(v).Bytes()
	vd = readBack(src, v)
	if vd.kind == "value-readback-parse-error" && hasBomKey(v) {
		// exact cause: the same value with the byte-order marks of those keys
		// replaced reads back fine
		if w, ok := renameBomKeys(v); ok && !hasBomKey(w) {
			if readBack(hclwrite.TokensForValue(w).Bytes(), w).kind == "" {
				vd.kind = "key-leading-bom"
			}
		}
	}
	return vd, src
}

func stepsEqual(a, b hcl.Traversal) (bool, string) {
	if len(a) != len(b) {
		return false, fmt.Sprintf("%d steps, want %d", len(b), len(a))
	}
	for i := range a {
		switch x := a[i].(type) {
		case hcl.TraverseRoot:
			y, ok := b[i].(hcl.TraverseRoot)
			if !ok || x.Name != y.Name {
				return false, fmt.Sprintf("step %d", i)
			}
		case hcl.TraverseAttr:
			y, ok := b[i].(hcl.TraverseAttr)
			if !ok || x.Name != y.Name {
				return false, fmt.Sprintf("step %d", i)
			}
		case hcl.TraverseIndex:
			y, ok := b[i].(hcl.TraverseIndex)
			if !ok || !x.Key.RawEquals(y.Key) {
				return false, fmt.Sprintf("step %d", i)
			}
		default:
			return false, "unsupported step"
		}
	}
	return true, ""
}

func hasNegativeKey(t hcl.Traversal) bool {
	for _, st := range t {
		if ix, ok := st.(hcl.TraverseIndex); ok && ix.Key.Type() == cty.Number && !ix.Key.IsNull() && ix.Key.AsBigFloat().Sign() < 0 {
			return true
		}
	}
	return false
}

func absKeys(t hcl.Traversal) hcl.Traversal {
	out := make(hcl.Traversal, len(t))
	for i, st := range t {
		out[i] = st
		if ix, ok := st.(hcl.TraverseIndex); ok && ix.Key.Type() == cty.Number && !ix.Key.IsNull() && ix.Key.AsBigFloat().Sign() < 0 {
			out[i] = hcl.TraverseIndex{Key: ix.Key.Negate()}
		}
	}
	return out
}

// negKeyTokens: TokensForTraversal(t) is, token for token, TokensForTraversal(absKeys(t)) except that the
// number literal of each negative index key starts with '-': the text of the finding (a[-1]), nothing else.
func negKeyTokens(t hcl.Traversal) bool {
	a, b := hclwrite.TokensForTraversal(t), hclwrite.TokensForTraversal(absKeys(t))
	if len(a) != len(b) {
		return false
	}
	neg := 0
	for i := range a {
		switch {
		case a[i].Type != b[i].Type:
			return false
		case bytes.Equal(a[i].Bytes, b[i].Bytes):
		case a[i].Type == hclsyntax.TokenNumberLit && len(a[i].Bytes) > 1 && a[i].Bytes[0] == '-' && bytes.Equal(a[i].Bytes[1:], b[i].Bytes) &&
			i > 0 && a[i-1].Type == hclsyntax.TokenOBrack:
			neg++
		default:
			return false
		}
	}
	want := 0
	for _, st := range t {
		if ix, ok := st.(hcl.TraverseIndex); ok && ix.Key.Type() == cty.Number && !ix.Key.IsNull() && ix.Key.AsBigFloat().Sign() < 0 {
			want++
		}
	}
	return neg == want && want > 0
}

// isNegativeKeyFinding: the traversal has a negative number key, its generated text differs from that of
// the traversal with the keys negated only by the '-' signs, and THAT traversal reads back exactly.
func isNegativeKeyFinding(t hcl.Traversal) bool {
	if !hasNegativeKey(t) || !negKeyTokens(t) {
		return false
	}
	v2, _ := traversalReadBack(absKeys(t))
	return v2.kind == ""
}

// readAsNegatedIndexExprs: the symptom on the expression side: the parser turned every "[-N]" into an
// index EXPRESSION whose key is the unary negation of the literal N (so the attribute is no static
// traversal any more), one per negative key of t, with exactly those magnitudes.
func readAsNegatedIndexExprs(e hclsyntax.Expression, t hcl.Traversal) bool {
	var want []string
	for _, st := range t {
		if ix, ok := st.(hcl.TraverseIndex); ok && ix.Key.Type() == cty.Number && !ix.Key.IsNull() && ix.Key.AsBigFloat().Sign() < 0 {
			want = append(want, ix.Key.Negate().AsBigFloat().Text('f', -1))
		}
	}
	var got []string
	okAll := true
	hclsyntax.VisitAll(e, func(n hclsyntax.Node) hcl.Diagnostics {
		ix, isIx := n.(*hclsyntax.IndexExpr)
		if !isIx {
			return nil
		}
		u, isU := ix.Key.(*hclsyntax.UnaryOpExpr)
		if !isU || u.Op != hclsyntax.OpNegate {
			okAll = false
			return nil
		}
		lit, isLit := u.Val.(*hclsyntax.LiteralValueExpr)
		if !isLit || lit.Val.Type() != cty.Number || !lit.Val.IsKnown() || lit.Val.IsNull() {
			okAll = false
			return nil
		}
		got = append(got, lit.Val.AsBigFloat().Text('f', -1))
		return nil
	})
	if !okAll || len(got) != len(want) {
		return false
	}
	sort.Strings(got)
	sort.Strings(want)
	for i := range got {
		if got[i] != want[i] {
			return false
		}
	}
	return true
}

func onlyDiag(ds hcl.Diagnostics, summary string) bool {
	n := 0
	for _, d := range ds {
		if d.Severity != hcl.DiagError {
			continue
		}
		if d.Summary != summary {
			return false
		}
		n++
	}
	return n > 0
}

func traversalReadBack(t hcl.Traversal) (verdict, []byte) {
	src := hclwrite.TokensForTraversal(t).Bytes()
	full := src
	want := t
	if t.IsRelative() {
		full = append([]byte("r"), src...)
		want = append(hcl.Traversal{hcl.TraverseRoot{Name: "r"}}, t...)
	}
	got, diags := hclsyntax.ParseTraversalAbs(full, "gen.hcl", hcl.InitialPos)
	if diags.HasErrors() {
		// the symptom of the negative-key finding: ParseTraversalAbs rejects the '-' with exactly this error
		if onlyDiag(diags, "Index value required") && isNegativeKeyFinding(t) {
			return verdict{"traversal-negative-number-key", "parse: " + diags.Error()}, src
		}
		return verdict{"traversal-readback-differs", "parse: " + diags.Error()}, src
	}
	if same, why := stepsEqual(want, got); !same {
		return verdict{"traversal-readback-differs", why}, src
	}
	return ok(), src
}

func traversalOracle(t hcl.Traversal) (vd verdict, src []byte) {
	defer func() {
		if r := recover(); r != nil {
			vd = verdict{"panic", fmt.Sprint(r)}
		}
	}()
	// (the known kind is decided inside traversalReadBack, on the parse error itself: a traversal with a
	// negative key that parses but reads back DIFFERENTLY is not the finding)
	vd, src = traversalReadBack(t)
	return vd, src
}

// lexesToOneLiteral: does the quoted form of the label lex as exactly
// OQuote QuotedLit CQuote (or OQuote CQuote)?
func lexesToOneLiteral(label string) bool {
	src := hclwrite.TokensForValue(cty.StringVal(label)).Bytes()
	toks, _ := hclsyntax.LexExpression(src, "", hcl.InitialPos)
	n := 0
	for _, t := range toks {
		if t.Type == hclsyntax.TokenQuotedLit {
			n++
		}
	}
	return n <= 1
}

// evenRunBeforeBrace: a maximal run of '$' (or '%') of even length >= 2
// directly followed by '{'.
func evenRunBeforeBrace(s string) bool {
	b := []byte(s)
	for i := 0; i < len(b); i++ {
		if b[i] != '{' {
			continue
		}
		for _, c := range []byte{'$', '%'} {
			n := 0
			for j := i - 1; j >= 0 && b[j] == c; j-- {
				n++
			}
			if n >= 2 && n%2 == 0 {
				return true
			}
		}
	}
	return false
}

type labelObs struct {
	fresh, relexed, syn []string
	src                 []byte
}

// labelOracle builds a block with the given labels through the writer API and
// reads the labels back three ways.
func labelOracle(typeName string, labels []string, viaNewBlock bool) (vds []verdict, obs labelObs) {
	defer func() {
		if r := recover(); r != nil {
			vds = append(vds, verdict{"panic", fmt.Sprint(r)})
		}
	}()
	f := hclwrite.NewEmptyFile()
	var blk *hclwrite.Block
	if viaNewBlock {
		blk = hclwrite.NewBlock(typeName, labels)
		f.Body().AppendBlock(blk)
	} else {
		blk = f.Body().AppendNewBlock(typeName, labels)
	}
	obs.fresh = blk.Labels()
	obs.src = f.Bytes()

	// (1) Labels() of the block just built
	if !strsEqual(obs.fresh, labels) {
		kind := "label-readback-differs"
		vds = append(vds, verdict{kind, fmt.Sprintf("Block.Labels() of the new block = %q", obs.fresh)})
	}
	// (2) hclsyntax parse of File.Bytes()
	sf, diags := hclsyntax.ParseConfig(obs.src, "gen.hcl", hcl.InitialPos)
	if diags.HasErrors() {
		vds = append(vds, verdict{"label-readback-differs", "hclsyntax.ParseConfig: " + diags.Error()})
	} else {
		blocks := sf.Body.(*hclsyntax.Body).Blocks
		if len(blocks) != 1 {
			vds = append(vds, verdict{"label-readback-differs", fmt.Sprintf("%d blocks parsed", len(blocks))})
		} else {
			obs.syn = blocks[0].Labels
			if !strsEqual(obs.syn, labels) || blocks[0].Type != typeName {
				vds = append(vds, verdict{"label-readback-differs", fmt.Sprintf("hclsyntax labels = %q", obs.syn)})
			}
		}
	}
	// (3) hclwrite.ParseConfig of File.Bytes(), then Labels()
	wf, diags := hclwrite.ParseConfig(obs.src, "gen.hcl", hcl.InitialPos)
	if diags.HasErrors() || len(wf.Body().Blocks()) != 1 {
		vds = append(vds, verdict{"label-readback-differs", "hclwrite.ParseConfig failed or block count differs"})
	} else {
		obs.relexed = wf.Body().Blocks()[0].Labels()
		if !strsEqual(obs.relexed, labels) {
			kind := "label-readback-differs"
			vds = append(vds, verdict{kind, fmt.Sprintf("Labels() after hclwrite.ParseConfig(Bytes()) = %q", obs.relexed)})
		}
	}
	return vds, obs
}

func strsEqual(a, b []string) bool {
	if len(a) != len(b) {
		return false
	}
	for i := range a {
		if a[i] != b[i] {
			return false
		}
	}
	return true
}

// fileOracle writes attributes and blocks through the Body API and reads the
// whole file back with hclsyntax.
type fileSpec struct {
	attrs  []string // names in order
	vals   map[string]cty.Value
	travs  map[string]hcl.Traversal
	btype  string
	labels []string
	inner  map[string]cty.Value
}

func fileOracle(fs *fileSpec) (vds []verdict, src []byte) {
	defer func() {
		if r := recover(); r != nil {
			vds = append(vds, verdict{"panic", fmt.Sprint(r)})
		}
	}()
	f := hclwrite.NewEmptyFile()
	body := f.Body()
	for _, n := range fs.attrs {
		if v, ok := fs.vals[n]; ok {
			body.SetAttributeValue(n, v)
		} else {
			body.SetAttributeTraversal(n, fs.travs[n])
		}
	}
	blk := body.AppendNewBlock(fs.btype, fs.labels)
	for n, v := range fs.inner {
		blk.Body().SetAttributeValue(n, v)
	}
	src = f.Bytes()
	sf, diags := hclsyntax.ParseConfig(src, "gen.hcl", hcl.InitialPos)
	if diags.HasErrors() {
		kind := "value-readback-parse-error"
		anyBom := false
		for _, v := range fs.vals {
			anyBom = anyBom || hasBomKey(v)
		}
		for _, v := range fs.inner {
			anyBom = anyBom || hasBomKey(v)
		}
		if anyBom {
			// the exact cause is established per value by valueOracle
			kind = "key-leading-bom"
			for _, v := range fs.vals {
				if vd, _ := valueOracle(v); vd.kind != "" && vd.kind != "key-leading-bom" {
					kind = "value-readback-parse-error"
				}
			}
			for _, v := range fs.inner {
				if vd, _ := valueOracle(v); vd.kind != "" && vd.kind != "key-leading-bom" {
					kind = "value-readback-parse-error"
				}
			}
		}
		return append(vds, verdict{kind, "file: " + diags.Error()}), src
	}
	sb := sf.Body.(*hclsyntax.Body)
	check := func(attrs hclsyntax.Attributes, name string, want cty.Value) {
		a, ok := attrs[name]
		if !ok {
			vds = append(vds, verdict{"value-readback-differs", "attribute " + name + " missing"})
			return
		}
		got, d := a.Expr.Value(nil)
		if d.HasErrors() {
			vds = append(vds, verdict{"value-readback-parse-error", "evaluation: " + d.Error()})
			return
		}
		conv, err := convert.Convert(got, want.Type())
		if err != nil || !conv.RawEquals(want) {
			vds = append(vds, verdict{"value-readback-differs", "attribute " + name})
		}
	}
	for n, v := range fs.vals {
		check(sb.Attributes, n, v)
	}
	for n, t := range fs.travs {
		a, ok := sb.Attributes[n]
		if !ok {
			vds = append(vds, verdict{"traversal-readback-differs", "attribute " + n + " missing"})
			continue
		}
		got, d := hcl.AbsTraversalForExpr(a.Expr)
		if d.HasErrors() {
			kind := "traversal-readback-differs"
			if ae, isSyn := a.Expr.(hclsyntax.Expression); isSyn && onlyDiag(d, "Invalid expression") &&
				isNegativeKeyFinding(t) && readAsNegatedIndexExprs(ae, t) {
				kind = "traversal-negative-number-key"
			}
			vds = append(vds, verdict{kind, "attribute " + n + ": " + d.Error()})
			continue
		}
		if same, why := stepsEqual(t, got); !same {
			vds = append(vds, verdict{"traversal-readback-differs", "attribute " + n + ": " + why})
		}
	}
	if len(sb.Blocks) != 1 {
		vds = append(vds, verdict{"label-readback-differs", "block count"})
		return vds, src
	}
	if !strsEqual(sb.Blocks[0].Labels, fs.labels) {
		vds = append(vds, verdict{"label-readback-differs", fmt.Sprintf("hclsyntax labels = %q", sb.Blocks[0].Labels)})
	}
	for n, v := range fs.inner {
		check(sb.Blocks[0].Body.Attributes, n, v)
	}
	return vds, src
}
