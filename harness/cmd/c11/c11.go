package main

// C11 — Generated source reads back as the value it was generated from.
//
// Correspondence (against Write/Generate.v, Write/StringLit.v via
// Write/GenerateCheck.v): escapeQuotedStringLit, TokensForValue,
// TokensForTraversal, TokensForTuple/Object/FunctionCall, the stringTemplate
// scanner, ParseStringLiteralToken, blockLabels.Replace/Current.
// Direct oracle (real code only): generate -> parse -> evaluate -> convert ->
// RawEquals; traversal steps; block labels three ways; writer-API files.

import (
	"fmt"
	"os"
	"path/filepath"
	"strings"
	"unicode"
	"unicode/utf8"

	"github.com/hashicorp/hcl/v2"
	"github.com/hashicorp/hcl/v2/hclsyntax"
	"github.com/hashicorp/hcl/v2/hclwrite"
	"github.com/zclconf/go-cty/cty"
	"golang.org/x/text/unicode/norm"
	"hclverif/hv"
)

func main() { hv.Main(map[string]func(*hv.RunCfg) error{"c11": runC11, "c11table": runC11Table}) }

const imports = "From Coq Require Import String.\nFrom HclV Require Import Base.Prelude Base.Utf8 Write.Generate Write.StringLit Write.GenerateCheck."

type files struct {
	esc, val, trav, comp, unesc, lex, label *hv.CaseFile
}

func newFiles(dir string) *files {
	mk := func(name, ctype, checker string) *hv.CaseFile {
		return &hv.CaseFile{Dir: dir, Name: name, Imports: imports, Ctype: ctype, Checker: checker}
	}
	return &files{
		esc:   mk("c11esc", "esc_case", "check_escape_cases"),
		val:   mk("c11val", "val_case", "check_value_cases"),
		trav:  mk("c11trav", "trav_case", "check_trav_cases"),
		comp:  mk("c11comp", "comp_case", "check_comp_cases"),
		unesc: mk("c11unesc", "unesc_case", "check_unescape_cases"),
		lex:   mk("c11lex", "lex_case", "check_lex_cases"),
		label: mk("c11label", "label_case", "check_label_cases"),
	}
}

type runner struct {
	nval, ntrav, nlabel int
	nshrunk             int  // histories minimised so far (history.go)
	histCoq             bool // send the survivors of this history to the Coq correspondence
	rep                 *hv.Report
	cf                  *files
	g                   *gen
}

func (x *runner) fail(vd verdict, input string, extra map[string]string) {
	if vd.kind == "" {
		return
	}
	x.rep.Fail(hv.Failure{Kind: vd.kind, Detail: vd.detail, Input: input, Extra: extra})
	x.rep.Hist("oracle-fail:" + vd.kind)
}

func strFeatures(rep *hv.Report, s string) {
	has := func(sub string) bool { return strings.Contains(s, sub) }
	if has("${") || has("%{") {
		rep.Hist("str:introducer")
	}
	if has("$${") || has("%%{") {
		rep.Hist("str:doubled-introducer")
	}
	if strings.ContainsAny(s, "$%") {
		rep.Hist("str:template-char")
	}
	if strings.ContainsAny(s, "\"\\") {
		rep.Hist("str:quote-or-backslash")
	}
	if strings.ContainsAny(s, "\n\r\t") {
		rep.Hist("str:newline-tab")
	}
	np, astral := false, false
	for _, r := range s {
		if !unicode.IsPrint(r) && r != '\n' && r != '\r' && r != '\t' {
			np = true
			if r >= 0x10000 {
				rep.Hist("str:nonprintable-astral")
			}
		}
		if r >= 0x10000 {
			astral = true
		}
	}
	if np {
		rep.Hist("str:nonprintable")
	}
	if astral {
		rep.Hist("str:astral")
	}
	if s == "" {
		rep.Hist("str:empty")
	}
}

// stringCase: everything about one string: escape correspondence, unescape and
// lexing of the escaped text, and the value oracle.
func (x *runner) stringCase(s string) {
	rep := x.rep
	esc := hclwrite.VerifEscapeQuotedStringLit(s)
	x.cf.esc.Add(fmt.Sprintf("(%s, %s, %s)", cps(s), hv.CoqZList(nonPrintables(s)), hv.Hexs(esc)))
	if c, ok := unescCase(esc); ok {
		x.cf.unesc.Add(c)
	}
	x.cf.lex.Add(lexCase(append(append([]byte{}, esc...), '"')))
	strFeatures(rep, s)
	rep.Hist("case:string")
	rep.Count("s:"+s, len(s) > 0)
}

// mutate an escaped text at rune level into something the writer would not
// produce (error paths of the two scanners).
func (x *runner) mutateEscaped(esc []byte) []byte {
	r := x.g.r
	ins := []string{"\"", "\\", "${", "%{", "$", "%", "{", "~", "\n", "\r", "\r\n", "\\u12", "\\u", "\\U0011000", "\\U00110000", "\\ud800", "\\uD7FF", "\\UFFFFFFFF",
		"\\x", "\\$", "\\é", "\\u00e9", "\\U0001F600", "\\a", "$${", "%%{", "\\\\", "\\\"", "\\n", "é", "😀"}
	rs := []rune(string(esc))
	n := 1 + r.Intn(3)
	for i := 0; i < n; i++ {
		pos := r.Intn(len(rs) + 1)
		switch r.Intn(3) {
		case 0, 1:
			rs = append(rs[:pos:pos], append([]rune(ins[r.Intn(len(ins))]), rs[pos:]...)...)
		default:
			if pos < len(rs) {
				rs = append(rs[:pos:pos], rs[pos+1:]...)
			}
		}
	}
	return []byte(string(rs))
}

func (x *runner) valueCase(v cty.Value) {
	rep := x.rep
	vi := newInfo()
	term := coqVal(v, vi)
	var toks hclwrite.Tokens
	var p any
	func() {
		defer func() { p = recover() }()
		toks = hclwrite.TokensForValue(v)
	}()
	dump := hv.DumpVal(v)
	if p != nil {
		x.fail(verdict{"panic", fmt.Sprint(p)}, dump, nil)
		return
	}
	x.cf.val.Add(fmt.Sprintf("(%s, %s, %s, %s, %s)", term, vi.coqIdents(), vi.coqNP(), coqToks(toks), hv.CoqBool(parsedAsFor(toks.Bytes()))))
	rep.Idx(fmt.Sprintf("c11val[%d] value %s", x.nval, dump))
	x.nval++
	ty := v.Type()
	nontrivial := ty.IsCollectionType() || ty.IsTupleType() || ty.IsObjectType() || ty == cty.String
	rep.Count("v:"+dump, nontrivial)
	rep.Hist("case:value")
	rep.Hist("value-kind:" + kindName(v))
	for k, id := range vi.idents {
		if id {
			rep.Hist("key:identifier")
			if k == "for" || k == "if" || k == "null" || k == "true" || k == "false" || k == "in" || k == "else" || k == "endif" || k == "endfor" {
				rep.Hist("key:keyword")
			}
			if !isASCII(k) {
				rep.Hist("key:unicode-identifier")
			}
		} else {
			rep.Hist("key:quoted")
			if k == "" {
				rep.Hist("key:empty")
			}
		}
	}
	if firstKeyFor(v) {
		rep.Hist("value:first-key-for")
	}
	if hasBomKey(v) {
		rep.Hist("value:key-leading-bom")
	}
	vd, src := valueOracle(v)
	if vd.kind == "" {
		rep.Hist("oracle-ok:value")
	}
	x.fail(vd, dump, map[string]string{"source": string(src)})
	if len(src) < 100 {
		rep.Sample(string(src))
	}
}

// parsedAsFor: did the real parser take the source for a for-expression
// (successfully or with the "Invalid 'for' expression" diagnostics)?
func parsedAsFor(src []byte) bool {
	expr, diags := hclsyntax.ParseExpression(src, "gen.hcl", hcl.InitialPos)
	if _, ok := expr.(*hclsyntax.ForExpr); ok {
		return true
	}
	for _, d := range diags {
		if d.Summary == "Invalid 'for' expression" {
			return true
		}
	}
	return false
}

func isASCII(s string) bool {
	for i := 0; i < len(s); i++ {
		if s[i] >= 128 {
			return false
		}
	}
	return true
}

func kindName(v cty.Value) string {
	ty := v.Type()
	switch {
	case v.IsNull():
		return "null"
	case ty == cty.String:
		return "string"
	case ty == cty.Number:
		return "number"
	case ty == cty.Bool:
		return "bool"
	case ty.IsListType():
		return "list"
	case ty.IsSetType():
		return "set"
	case ty.IsMapType():
		return "map"
	case ty.IsTupleType():
		return "tuple"
	case ty.IsObjectType():
		return "object"
	}
	return "other"
}

func dumpTraversal(t hcl.Traversal) string {
	var sb strings.Builder
	for _, st := range t {
		switch s := st.(type) {
		case hcl.TraverseRoot:
			sb.WriteString("root:" + s.Name)
		case hcl.TraverseAttr:
			sb.WriteString(" attr:" + s.Name)
		case hcl.TraverseIndex:
			sb.WriteString(" index:" + hv.DumpVal(s.Key))
		default:
			sb.WriteString(" other")
		}
	}
	return sb.String()
}

func (x *runner) traversalCase(t hcl.Traversal) {
	rep := x.rep
	vi := newInfo()
	term := coqTraversal(t, vi)
	var toks hclwrite.Tokens
	var p any
	func() {
		defer func() { p = recover() }()
		toks = hclwrite.TokensForTraversal(t)
	}()
	obs := "None"
	if p == nil {
		obs = "Some " + coqToks(toks)
	}
	x.cf.trav.Add(fmt.Sprintf("(%s, %s, %s, %s)", term, vi.coqIdents(), vi.coqNP(), obs))
	d := dumpTraversal(t)
	rep.Idx(fmt.Sprintf("c11trav[%d] traversal %s", x.ntrav, d))
	x.ntrav++
	rep.Count("t:"+d, len(t) > 1)
	rep.Hist("case:traversal")
	if t.IsRelative() {
		rep.Hist("traversal:relative")
	} else {
		rep.Hist("traversal:absolute")
	}
	for _, st := range t {
		switch s := st.(type) {
		case hcl.TraverseAttr:
			rep.Hist("step:attr")
		case hcl.TraverseIndex:
			if s.Key.Type() == cty.String {
				rep.Hist("step:string-key")
			} else {
				rep.Hist("step:number-key")
			}
		}
	}
	if p != nil {
		if _, isSplat := t[len(t)-1].(hcl.TraverseSplat); !isSplat {
			x.fail(verdict{"panic", fmt.Sprint(p)}, d, nil)
		}
		return
	}
	vd, src := traversalOracle(t)
	if vd.kind == "" {
		rep.Hist("oracle-ok:traversal")
	}
	x.fail(vd, d, map[string]string{"source": string(src)})
}

func (x *runner) labelCase(labels []string, viaNew bool) {
	rep := x.rep
	vds, obs := labelOracle("blk", labels, viaNew)
	np := nonPrintables(strings.Join(labels, ""))
	var lt []string
	for _, l := range labels {
		lt = append(lt, cps(l))
		strFeatures(rep, l)
		if evenRunBeforeBrace(l) {
			rep.Hist("label:even-template-run-before-brace")
		}
		if !lexesToOneLiteral(l) {
			rep.Hist("label:lexes-to-several-literals")
		}
	}
	x.cf.label.Add(fmt.Sprintf("(%s, %s, (%s, %s, %s))", hv.CoqList(lt), hv.CoqZList(np), hexList(obs.fresh), hexList(obs.relexed), hexList(obs.syn)))
	in := fmt.Sprintf("%q", labels)
	rep.Idx(fmt.Sprintf("c11label[%d] labels %s", x.nlabel, in))
	x.nlabel++
	rep.Count("l:"+in, len(labels) > 0)
	rep.Hist("case:labels")
	if len(vds) == 0 {
		rep.Hist("oracle-ok:labels")
	}
	for _, vd := range vds {
		x.fail(vd, in, map[string]string{"source": string(obs.src)})
	}
}

func (x *runner) fileCase() {
	g, rep := x.g, x.rep
	fs := &fileSpec{vals: map[string]cty.Value{}, travs: map[string]hcl.Traversal{}, inner: map[string]cty.Value{}}
	n := 1 + g.r.Small(3)
	for i := 0; i < n; i++ {
		name := fmt.Sprintf("%s_%d", g.r.Pick("a", "b", "attr", "for", "x-y"), i)
		fs.attrs = append(fs.attrs, name)
		if g.r.Chance(0.3) {
			fs.travs[name] = g.traversal(true)
		} else {
			fs.vals[name] = g.value()
		}
	}
	fs.btype = g.r.Pick("blk", "resource", "for", "a-b")
	fs.labels = g.labels()
	if g.r.Chance(0.6) {
		fs.inner["inner"] = g.value()
	}
	vds, src := fileOracle(fs)
	rep.Hist("case:file")
	rep.Count("f:"+string(src), true)
	if len(vds) == 0 {
		rep.Hist("oracle-ok:file")
	}
	for _, vd := range vds {
		x.fail(vd, string(src), nil)
	}
}

func (x *runner) compCase() {
	g := x.g
	mkPart := func() hclwrite.Tokens {
		if g.r.Chance(0.3) {
			return hclwrite.TokensForTraversal(g.traversal(true))
		}
		return hclwrite.TokensForValue(g.val(g.typ(1), false))
	}
	kind := g.r.Intn(3)
	n := g.r.Small(4)
	var parts []hclwrite.Tokens
	var items []string
	var toks hclwrite.Tokens
	name := g.ident()
	switch kind {
	case 0:
		for i := 0; i < n; i++ {
			parts = append(parts, mkPart())
		}
		for _, p := range parts {
			items = append(items, coqToks(p))
		}
		toks = hclwrite.TokensForTuple(parts)
	case 1:
		var attrs []hclwrite.ObjectAttrTokens
		for i := 0; i < n; i++ {
			nm := hclwrite.TokensForIdentifier(g.ident())
			v := mkPart()
			items = append(items, coqToks(nm), coqToks(v))
			attrs = append(attrs, hclwrite.ObjectAttrTokens{Name: nm, Value: v})
		}
		toks = hclwrite.TokensForObject(attrs)
	default:
		for i := 0; i < n; i++ {
			parts = append(parts, mkPart())
		}
		for _, p := range parts {
			items = append(items, coqToks(p))
		}
		toks = hclwrite.TokensForFunctionCall(name, parts...)
	}
	x.cf.comp.Add(fmt.Sprintf("(%d, %s, %s, %s)", kind, cps(name), hv.CoqList(items), coqToks(toks)))
	x.rep.Hist("case:compose")
	x.rep.Count(fmt.Sprintf("c:%d:%s", kind, toks.Bytes()), true)
	// oracle: composed expressions parse
	if _, d := hclsyntax.ParseExpression(toks.Bytes(), "gen.hcl", hcl.InitialPos); d.HasErrors() {
		// a part may itself be one of the known failing shapes; report only
		// when every part parses alone
		allOK := true
		for _, p := range parts {
			if _, d := hclsyntax.ParseExpression(p.Bytes(), "", hcl.InitialPos); d.HasErrors() {
				allOK = false
			}
		}
		// TokensForTuple / TokensForObject include the element tokens VERBATIM and document that no
		// validation is done: a first element that begins with the identifier `for` makes the
		// constructor read as a for expression (a property of the language, not of the generator;
		// the caller has to parenthesise). Outside what the property quantifies over: counted only.
		forFirst := kind == 0 && len(parts) > 0 && len(parts[0]) > 0 &&
			parts[0][0].Type == hclsyntax.TokenIdent && string(parts[0][0].Bytes) == "for"
		if forFirst {
			x.rep.Hist("compose:first-element-begins-with-for(outside the quantifier)")
		}
		if allOK && kind != 1 && !forFirst {
			x.fail(verdict{"value-readback-parse-error", "composed: " + d.Error()}, string(toks.Bytes()), nil)
		}
	}
}

var handStrings = []string{
	"", "a", "hello world", "\"", "\\", "\n", "\r", "\t", "\r\n", "$", "%", "${", "%{", "$${", "%%{", "$$${", "$$$${", "%%%{", "$${~", "${~",
	"$$", "%%", "a$b", "x%y", "a${b}c", "a%{if x}b%{endif}", "$%{", "%${", "$\\{", "\\${", "\\\\${", "$\"", "\"${", "${\"", "$\n{",
	"\x00", "\x01\x02", "\x7f", "\u0080", "\u00a0", "\u00ad", "\u200b", "\u2028", "\ufeff", "\ufffd", "\ue000", "\uffff",
	"\U0001f600", "\U000e0001", "\U0010ffff", "\U00010000", "é", "名前", "a\u0001b", "\u00010", "\u0001f", "\U000e00010", "\\u0041", "\\n", "{", "}", "~", "{$", "{%",
	"for", "line1\nline2\n", "tab\there", "q\"uo\"te", "$${${%%{%{", "$$$$$$${", "%%%%{",
}

var handKeysets = [][]string{
	{"for"}, {"for", "if"}, {"a", "for"}, {"for", "zz"}, {"if"}, {"null"}, {"true"}, {"false"}, {"in"},
	{"\ufeffbom"}, {"a", "\ufeffbom"}, {"\ufefffor"}, {"\ufeff"},
	{""}, {"a b"}, {"1a"}, {"ünï"}, {"名前"}, {"a-b"}, {"-a"}, {"${"}, {"a$b"}, {"\""}, {"\n"}, {"for "}, {"FOR"}, {"fo", "for"},
}

func runC11(cfg *hv.RunCfg) error {
	rep := hv.NewReport("C11", cfg.Seed)
	rep.Rule = "hand corpus, then generated: strings over all of Unicode (template sequences, quotes, control characters, non-printables, astral runes; NFC-normalised as cty does), typed nested values (list/set/map/tuple/object, nulls, big/fractional numbers, keyword / non-identifier / unicode keys), absolute and relative traversals, block labels, writer-API files, writer-API HISTORIES (set/replace/rename/remove/re-add/append/move/clear over fresh and loaded bodies at depth 0-2, biased to removing the last or only item and writing again; expectation kept by the harness; read back after every operation), composed tuple/object/call expressions, plus mutated escaped texts and ALL strings of length <= 3 (quick) / 4 (thorough) over a 10-letter alphabet for the two scanners; non-trivial = non-empty string, collection, multi-step traversal, labelled block, file; distinct by SHA-256 of the canonical dump"
	r := hv.NewRng(cfg.Seed, 11)
	x := &runner{rep: rep, cf: newFiles(cfg.Out), g: &gen{r: r, rep: rep}}

	if cfg.Replay != "" {
		b, err := os.ReadFile(cfg.Replay)
		if err != nil {
			return err
		}
		if isHistoryReplay(b) {
			// a failing input of the `history` stream: the history itself (JSON)
			c, err := parseHistory(b)
			if err != nil {
				return fmt.Errorf("replay file is not a C11 history (JSON): %v", err)
			}
			x.histCoq = true
			x.historyCase(c, false)
			return x.finish(cfg)
		}
		s := norm.NFC.String(string(b))
		x.stringCase(s)
		x.valueCase(cty.StringVal(s))
		x.valueCase(cty.ObjectVal(map[string]cty.Value{s: cty.StringVal(s)}))
		x.traversalCase(hcl.Traversal{hcl.TraverseRoot{Name: "a"}, hcl.TraverseIndex{Key: cty.StringVal(s)}})
		x.labelCase([]string{s}, false)
		return x.finish(cfg)
	}

	// ---- hand corpus ----
	strs := append([]string{}, handStrings...)
	if extra, err := filepath.Glob("/verif/corpus/C11/*.txt"); err == nil {
		for _, p := range extra {
			if b, err := os.ReadFile(p); err == nil {
				strs = append(strs, norm.NFC.String(string(b)))
			}
		}
	}
	for _, s := range strs {
		if !utf8.ValidString(s) {
			continue
		}
		x.stringCase(s)
		x.valueCase(cty.StringVal(s))
		x.labelCase([]string{s}, false)
		x.labelCase([]string{"k", s}, true)
		x.traversalCase(hcl.Traversal{hcl.TraverseRoot{Name: "a"}, hcl.TraverseIndex{Key: cty.StringVal(s)}})
		x.valueCase(cty.MapVal(map[string]cty.Value{s: cty.StringVal(s)}))
	}
	for _, ks := range handKeysets {
		m := map[string]cty.Value{}
		for i, k := range ks {
			m[k] = cty.NumberIntVal(int64(i + 1))
		}
		x.valueCase(cty.ObjectVal(m))
		x.valueCase(cty.MapVal(m))
		x.valueCase(cty.TupleVal([]cty.Value{cty.ObjectVal(m)}))
	}
	for _, n := range numPool {
		if v, err := cty.ParseNumberVal(n); err == nil {
			x.valueCase(v)
		}
	}
	for _, v := range []cty.Value{
		cty.NullVal(cty.DynamicPseudoType), cty.NullVal(cty.String), cty.True, cty.False, cty.EmptyObjectVal, cty.EmptyTupleVal,
		cty.ListValEmpty(cty.String), cty.SetValEmpty(cty.Number), cty.MapValEmpty(cty.Bool),
		cty.SetVal([]cty.Value{cty.StringVal("b"), cty.StringVal("a"), cty.StringVal("${")}),
		cty.ListVal([]cty.Value{cty.NullVal(cty.String), cty.StringVal("x")}),
	} {
		x.valueCase(v)
	}
	x.traversalCase(hcl.Traversal{hcl.TraverseRoot{Name: "a"}, hcl.TraverseSplat{}})
	x.traversalCase(hcl.Traversal{hcl.TraverseRoot{Name: "a"}, hcl.TraverseIndex{Key: cty.NumberIntVal(-1)}})
	x.traversalCase(hcl.Traversal{hcl.TraverseRoot{Name: "a"}, hcl.TraverseIndex{Key: cty.NumberFloatVal(1.5)}, hcl.TraverseAttr{Name: "b"}})
	x.traversalCase(hcl.Traversal{hcl.TraverseAttr{Name: "b"}, hcl.TraverseIndex{Key: cty.NumberIntVal(0)}})

	// all strings of length <= 3 (quick tier) or 4 (thorough) over a small alphabet: both scanners
	alpha := []byte{'$', '%', '{', '~', 'a', '\\', '"', '\n', 'u', '0'}
	var rec func(prefix []byte, depth int)
	nsmall := 0
	rec = func(prefix []byte, depth int) {
		if c, ok := unescCase(prefix); ok {
			x.cf.unesc.Add(c)
		}
		x.cf.lex.Add(lexCase(append(append([]byte{}, prefix...), '"')))
		nsmall++
		if depth == 0 {
			return
		}
		for _, a := range alpha {
			rec(append(append([]byte{}, prefix...), a), depth-1)
		}
	}
	depth := 3
	if cfg.Tier == "thorough" {
		depth = 4
	}
	rec(nil, depth)
	rep.Exhaustive[fmt.Sprintf("scanner_inputs_len_le_%d_over_10_letters", depth)] = nsmall
	rep.Evaluations += nsmall

	// ---- generated ----
	for i := 0; i < cfg.N; i++ {
		switch k := r.Intn(20); {
		case k < 5:
			s := x.g.str()
			x.stringCase(s)
			// error paths of the scanners: mutated escaped text
			if r.Chance(0.6) {
				m := x.mutateEscaped(hclwrite.VerifEscapeQuotedStringLit(s))
				if c, ok := unescCase(m); ok {
					x.cf.unesc.Add(c)
					x.cf.lex.Add(lexCase(append(append([]byte{}, m...), '"')))
					rep.Hist("case:mutated-escaped-text")
				}
			}
			x.valueCase(cty.StringVal(s))
		case k < 11:
			x.valueCase(x.g.value())
		case k < 14:
			x.traversalCase(x.g.traversal(r.Chance(0.7)))
		case k < 17:
			x.labelCase(x.g.labels(), r.Chance(0.5))
		case k < 19:
			x.fileCase()
		default:
			x.compCase()
		}
	}

	// ---- stream `history` (history.go): the writer API on a body with a history.
	// Its own PRNG stream, so the cases above are what they were; 18 % on top of
	// cfg.N (>= 15 % of all generated cases).
	x.histCoq = true
	for _, c := range handHistories() {
		x.historyCase(c, true)
	}
	hg := &gen{r: hv.NewRng(cfg.Seed, 1104), rep: rep}
	nh := (cfg.N*18 + 99) / 100
	for i := 0; i < nh; i++ {
		// the oracle runs on every history; the Coq correspondence of the survivors on
		// every history (quick) / every third (thorough: case files are parse-bound)
		x.histCoq = cfg.Tier != "thorough" || i%3 == 0
		x.historyCase(x.genHistory(hg), x.nshrunk < 6)
	}
	return x.finish(cfg)
}

func (x *runner) finish(cfg *hv.RunCfg) error {
	var names []string
	for _, p := range []struct {
		cf  *hv.CaseFile
		per int
	}{{x.cf.esc, 2000}, {x.cf.val, 600}, {x.cf.trav, 1000}, {x.cf.comp, 600}, {x.cf.unesc, 4000}, {x.cf.lex, 4000}, {x.cf.label, 1000}} {
		ns, err := p.cf.Flush(p.per)
		if err != nil {
			return err
		}
		names = append(names, ns...)
	}
	x.rep.CaseFiles = names
	return x.rep.Write(cfg.Out)
}

// ---- exhaustive rune table, by class ---------------------------------------------

// expectEscape is the class formula, written independently of both the real
// code and the Coq model.
func expectEscape(r rune, ctx int) (string, string) {
	var e, class string
	switch {
	case r == '\n':
		e, class = "\\n", "ascii-special"
	case r == '\r':
		e, class = "\\r", "ascii-special"
	case r == '\t':
		e, class = "\\t", "ascii-special"
	case r == '"':
		e, class = "\\\"", "ascii-special"
	case r == '\\':
		e, class = "\\\\", "ascii-special"
	case r == '$' || r == '%':
		class = "ascii-special"
		e = string(r)
		if ctx == 0 {
			e += string(r)
		}
	case !unicode.IsPrint(r) && r < 0x10000:
		e, class = fmt.Sprintf("\\u%04x", r), "nonprintable-bmp"
	case !unicode.IsPrint(r):
		e, class = fmt.Sprintf("\\U%08x", r), "nonprintable-astral"
	case r < 0x10000:
		e, class = string(r), "printable-bmp"
	default:
		e, class = string(r), "printable-astral"
	}
	switch ctx {
	case 0:
		e += "{"
	case 1:
		e += "a"
	}
	return e, class
}

func runC11Table(cfg *hv.RunCfg) error {
	rep := hv.NewReport("C11", cfg.Seed)
	rep.Rule = "escapeQuotedStringLit on every Unicode scalar value in three contexts (followed by '{', followed by 'a', last): all rows checked in Go against the class formula; all ASCII runes and a sample of every class compared with the Coq model"
	r := hv.NewRng(cfg.Seed, 1111)
	per := 1500
	if cfg.Tier == "thorough" {
		per = 6000
	}
	classes := map[string][]rune{}
	rows := 0
	suffix := []string{"{", "a", ""}
	for c := rune(0); c <= 0x10FFFF; c++ {
		if c >= 0xD800 && c <= 0xDFFF {
			continue
		}
		var class string
		for ctx := 0; ctx < 3; ctx++ {
			want, cl := expectEscape(c, ctx)
			class = cl
			got := hclwrite.VerifEscapeQuotedStringLit(string(c) + suffix[ctx])
			rows++
			if string(got) != want {
				rep.Fail(hv.Failure{Kind: "escape-class-mismatch", Detail: fmt.Sprintf("U+%04X ctx %d: got %q want %q", c, ctx, got, want), Input: string(c) + suffix[ctx]})
			}
		}
		if c < 128 {
			class = "ascii"
		}
		classes[class] = append(classes[class], c)
	}
	rep.Exhaustive["escape_rows_checked_in_go"] = rows
	cf := &hv.CaseFile{Dir: cfg.Out, Name: "c11runes", Imports: imports, Ctype: "rune_case", Checker: "check_rune_cases"}
	boundary := map[rune]bool{0x7f: true, 0x80: true, 0x7ff: true, 0x800: true, 0xffff: true, 0x10000: true, 0x10ffff: true, 0xd7ff: true, 0xe000: true, 0xfffd: true, 0xa0: true, 0xad: true, 0xfffe: true, 0x1ffff: true, 0xe0001: true}
	sent := 0
	for _, class := range hv.SortedKeys(classes) {
		rs := classes[class]
		rep.Exhaustive["class_size:"+class] = len(rs)
		pick := map[rune]bool{}
		if class == "ascii" || len(rs) <= per {
			for _, c := range rs {
				pick[c] = true
			}
		} else {
			for _, c := range rs {
				if boundary[c] {
					pick[c] = true
				}
			}
			pick[rs[0]], pick[rs[len(rs)-1]] = true, true
			for len(pick) < per {
				pick[rs[r.Intn(len(rs))]] = true
			}
		}
		n := 0
		for _, c := range rs {
			if !pick[c] {
				continue
			}
			n++
			cf.Add(fmt.Sprintf("(%d, %s, (%s, %s, %s))", c, hv.CoqBool(unicode.IsPrint(c)),
				hv.Hexs(hclwrite.VerifEscapeQuotedStringLit(string(c)+"{")),
				hv.Hexs(hclwrite.VerifEscapeQuotedStringLit(string(c)+"a")),
				hv.Hexs(hclwrite.VerifEscapeQuotedStringLit(string(c)))))
		}
		rep.Exhaustive["sent_to_coq:"+class] = n
		sent += n
	}
	rep.Exhaustive["escape_runes_sent_to_coq"] = sent
	rep.Evaluations = rows
	names, err := cf.Flush(3000)
	if err != nil {
		return err
	}
	rep.CaseFiles = names
	dir := filepath.Join(cfg.Out, "table")
	os.MkdirAll(dir, 0o755)
	return rep.Write(dir)
}
