package main

// Generators for C11: strings over all of Unicode, numbers, typed nested
// values, object/map keys, traversals, labels.

import (
	"math/big"
	"strings"
	"unicode"

	"github.com/hashicorp/hcl/v2"
	"github.com/zclconf/go-cty/cty"
	"golang.org/x/text/unicode/norm"
	"hclverif/hv"
)

type gen struct {
	r   *hv.Rng
	rep *hv.Report
}

var strPieces = []string{
	"a", "b", "x", "foo", " ", "é", "ü", "名", "Ω", "0", "9", "f", "u", "U", "n", "-", "_", ".", "=", "#", "/", "*",
	"\"", "\"", "\\", "\\", "\n", "\r", "\t", "\r\n",
	"$", "$", "%", "%", "{", "{", "}", "~", "${", "%{", "$${", "%%{", "$$", "%%", "$$${", "%%%{", "$$$${", "${~", "%{~", "$%{", "%${",
	"\\n", "\\u0041", "\\${", "\\\"",
	"\x00", "\x01", "\x07", "\x1b", "\x1f", "\x7f", "\u0080", "\u0085", "\u009f", "\u00a0", "\u00ad",
	"\u200b", "\u2028", "\u2029", "\ufeff", "\ufffd", "\ue000", "\uffff", "\ufffe", "\u3000", "\u0378",
	"😀", "𝄞", "\U000e0001", "\U0010ffff", "\U000f0000", "\U0001f9ff", "\U00010000", "\U0002a6df", "\U000e01ef",
}

// randRune returns an arbitrary Unicode scalar value (any plane).
func (g *gen) randRune() rune {
	for {
		var r rune
		switch g.r.Intn(4) {
		case 0:
			r = rune(g.r.Intn(0x100))
		case 1:
			r = rune(g.r.Intn(0x10000))
		default:
			r = rune(g.r.Intn(0x110000))
		}
		if r >= 0xD800 && r <= 0xDFFF {
			continue
		}
		return r
	}
}

// str generates a string and normalises it to NFC (cty.StringVal does the
// same; the property is about the string the value holds).
func (g *gen) str() string {
	n := g.r.Small(8)
	if g.r.Chance(0.08) {
		n += 6 + g.r.Intn(20)
	}
	var sb strings.Builder
	for i := 0; i < n; i++ {
		if g.r.Chance(0.12) {
			sb.WriteRune(g.randRune())
		} else {
			sb.WriteString(strPieces[g.r.Intn(len(strPieces))])
		}
	}
	return norm.NFC.String(sb.String())
}

var keyPool = []string{
	"for", "for", "for", "if", "null", "true", "false", "in", "else", "endif", "endfor", "each",
	"a", "b", "zz", "foo-bar", "_x", "a1", "A", "ünï", "名前", "fo", "forx", "fор", "Ωmega",
	"\ufeffbom", "\ufeffbom", "\ufefffor", "\ufeff", "\ufeff1", "a\ufeff",
	"", "1a", "a b", "a.b", "-a", "a$b", "${", "%{x}", "\"", "\n", "for ", " for", "a=b", "0", "a\\b", "é́x",
}

func (g *gen) key() string {
	if g.r.Chance(0.2) {
		return g.str()
	}
	return norm.NFC.String(keyPool[g.r.Intn(len(keyPool))])
}

var numPool = []string{
	"0", "1", "-1", "2", "10", "255", "-42", "0.5", "-0.5", "0.1", "3.14159", "1e3", "1e-3",
	"12345678901234567890", "-98765432109876543210987654321", "340282366920938463463374607431768211456",
	"0.000000000000000000001", "123456789.987654321", "1e100", "-1e100", "1e400", "1e-400", "2.5e-30",
	"0.1234567890123456789012345678901234567890", "9007199254740993", "1.7976931348623157e308",
	"4.9e-324", "-0.000001", "1e21", "1e20", "99999999999999999999.99999999999999999999",
}

func (g *gen) num() cty.Value {
	if g.r.Chance(0.6) {
		v, err := cty.ParseNumberVal(numPool[g.r.Intn(len(numPool))])
		if err == nil {
			return v
		}
	}
	// random big integer or decimal
	digits := 1 + g.r.Small(40)
	var sb strings.Builder
	if g.r.Chance(0.3) {
		sb.WriteByte('-')
	}
	sb.WriteByte(byte('1' + g.r.Intn(9)))
	for i := 1; i < digits; i++ {
		sb.WriteByte(byte('0' + g.r.Intn(10)))
	}
	if g.r.Chance(0.4) {
		sb.WriteByte('.')
		fd := 1 + g.r.Small(30)
		for i := 0; i < fd; i++ {
			sb.WriteByte(byte('0' + g.r.Intn(10)))
		}
	}
	if g.r.Chance(0.15) {
		sb.WriteString("e")
		if g.r.Chance(0.5) {
			sb.WriteByte('-')
		}
		sb.WriteString(big.NewInt(int64(g.r.Intn(300))).String())
	}
	v, err := cty.ParseNumberVal(sb.String())
	if err != nil {
		return cty.NumberIntVal(int64(g.r.Intn(1000)))
	}
	return v
}

func (g *gen) typ(depth int) cty.Type {
	k := g.r.Intn(10)
	if depth <= 0 && k >= 4 {
		k = g.r.Intn(4)
	}
	switch k {
	case 0, 1:
		return cty.String
	case 2:
		return cty.Number
	case 3:
		return cty.Bool
	case 4:
		return cty.List(g.typ(depth - 1))
	case 5:
		return cty.Set(g.typ(depth - 1))
	case 6:
		return cty.Map(g.typ(depth - 1))
	case 7:
		n := g.r.Small(4)
		ts := make([]cty.Type, n)
		for i := range ts {
			ts[i] = g.typ(depth - 1)
		}
		return cty.Tuple(ts)
	default:
		n := g.r.Small(4)
		at := map[string]cty.Type{}
		for i := 0; i < n; i++ {
			at[g.key()] = g.typ(depth - 1)
		}
		return cty.Object(at)
	}
}

func (g *gen) val(t cty.Type, top bool) cty.Value {
	if g.r.Chance(0.04) {
		return cty.NullVal(t)
	}
	switch {
	case t == cty.String:
		return cty.StringVal(g.str())
	case t == cty.Number:
		return g.num()
	case t == cty.Bool:
		return cty.BoolVal(g.r.Chance(0.5))
	case t.IsListType():
		n := g.r.Small(4)
		if n == 0 {
			return cty.ListValEmpty(t.ElementType())
		}
		vs := make([]cty.Value, n)
		for i := range vs {
			vs[i] = g.val(t.ElementType(), false)
		}
		return cty.ListVal(vs)
	case t.IsSetType():
		n := g.r.Small(4)
		if n == 0 {
			return cty.SetValEmpty(t.ElementType())
		}
		vs := make([]cty.Value, n)
		for i := range vs {
			vs[i] = g.val(t.ElementType(), false)
		}
		return cty.SetVal(vs)
	case t.IsMapType():
		n := g.r.Small(4)
		if n == 0 {
			return cty.MapValEmpty(t.ElementType())
		}
		m := map[string]cty.Value{}
		for i := 0; i < n; i++ {
			m[g.key()] = g.val(t.ElementType(), false)
		}
		return cty.MapVal(m)
	case t.IsTupleType():
		ets := t.TupleElementTypes()
		vs := make([]cty.Value, len(ets))
		for i := range vs {
			vs[i] = g.val(ets[i], false)
		}
		return cty.TupleVal(vs)
	case t.IsObjectType():
		m := map[string]cty.Value{}
		ats := t.AttributeTypes()
		for _, k := range hv.SortedKeys(ats) { // deterministic use of the PRNG
			m[k] = g.val(ats[k], false)
		}
		return cty.ObjectVal(m)
	}
	return cty.NullVal(cty.DynamicPseudoType)
}

func (g *gen) value() cty.Value {
	if g.r.Chance(0.02) {
		return cty.NullVal(cty.DynamicPseudoType)
	}
	d := g.r.Small(4)
	if g.r.Chance(0.5) && d == 0 {
		d = 1
	}
	return g.val(g.typ(d), true)
}

var identPool = []string{"a", "b", "foo", "bar_1", "x-y", "_z", "ünï", "名前", "for", "if", "null", "true", "in", "var", "local", "Ω"}

func (g *gen) ident() string { return norm.NFC.String(identPool[g.r.Intn(len(identPool))]) }

func (g *gen) indexKey() cty.Value {
	switch g.r.Intn(10) {
	case 0, 1, 2, 3:
		return cty.StringVal(g.str())
	case 4:
		return cty.StringVal(g.key())
	case 5, 6, 7:
		return cty.NumberIntVal(int64(g.r.Intn(100)))
	case 8:
		v, _ := cty.ParseNumberVal(g.r.Pick("12345678901234567890", "0", "1.5", "0.25", "1e30", "340282366920938463463374607431768211456"))
		return v
	default:
		if g.r.Chance(0.3) {
			return cty.NumberIntVal(-int64(1 + g.r.Intn(9)))
		}
		return g.num()
	}
}

func (g *gen) traversal(abs bool) hcl.Traversal {
	var t hcl.Traversal
	if abs {
		t = append(t, hcl.TraverseRoot{Name: g.ident()})
	}
	n := g.r.Small(5)
	if !abs && n == 0 {
		n = 1
	}
	for i := 0; i < n; i++ {
		if g.r.Chance(0.45) {
			t = append(t, hcl.TraverseAttr{Name: g.ident()})
		} else {
			t = append(t, hcl.TraverseIndex{Key: g.indexKey()})
		}
	}
	return t
}

func (g *gen) labels() []string {
	n := g.r.Small(3)
	ls := make([]string, n)
	for i := range ls {
		if g.r.Chance(0.3) {
			ls[i] = g.key()
		} else {
			ls[i] = g.str()
		}
	}
	return ls
}

func nonPrintables(s string) []int {
	seen := map[rune]bool{}
	var out []int
	for _, r := range s {
		if !unicode.IsPrint(r) && !seen[r] {
			seen[r] = true
			out = append(out, int(r))
		}
	}
	return out
}
