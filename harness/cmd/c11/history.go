package main

// C11, stream `history`: the writer API on a body that has a HISTORY.
//
// "An attribute / block written through the writer API parses without errors
// and evaluates back to the value" is checked for bodies built by a short
// random history of set / replace / rename / remove / re-add / append /
// move / clear operations (biased towards removing the LAST or the ONLY item
// and writing again afterwards), over fresh files and files obtained from
// hclwrite.ParseConfig, in bodies at nesting depth 0-2 and in detached blocks.
//
// The expectation (an ordered list of items per body: attribute name -> value
// or traversal, block type + labels + nested body) is maintained by the harness
// alone, from the meaning of the operations; it is never read back from an
// hclwrite accessor.  hclwrite handles (*Block) are kept only to navigate to
// the body an operation is applied to.  The read-back is hclsyntax.ParseConfig
// of File.Bytes(): no errors; every expected item present exactly once, in the
// expected order; values evaluate (after conversion) to the expected value;
// traversals read back step by step; labels read back; nothing else present.
// The read-back is done after EVERY operation.

import (
	"bytes"
	"encoding/json"
	"fmt"
	"sort"
	"strings"

	"github.com/hashicorp/hcl/v2"
	"github.com/hashicorp/hcl/v2/hclsyntax"
	"github.com/hashicorp/hcl/v2/hclwrite"
	"github.com/zclconf/go-cty/cty"
	"github.com/zclconf/go-cty/cty/convert"
	ctyjson "github.com/zclconf/go-cty/cty/json"
	"hclverif/hv"
)

// ---- serialisable history -----------------------------------------------------------

const (
	hSetVal       = "set-value"       // SetAttributeValue(name, val)
	hSetTrav      = "set-traversal"   // SetAttributeTraversal(name, trav)
	hSetRaw       = "set-raw"         // SetAttributeRaw(name, TokensForValue(val))
	hRename       = "rename"          // RenameAttribute(name, to)
	hRemoveAttr   = "remove-attr"     // RemoveAttribute(name)
	hRemoveBlock  = "remove-block"    // RemoveBlock(blk-th block of the body); the block becomes detached block #next
	hRemoveOther  = "remove-foreign"  // RemoveBlock(detached block #blk) on a body that does not hold it: false, no change
	hAppendNew    = "append-new"      // AppendNewBlock(name, labels)
	hNewDetached  = "new-detached"    // NewBlock(name, labels): detached block #next
	hAttach       = "attach"          // AppendBlock(detached block #blk)
	hSetLabels    = "set-labels"      // blk-th block of the body: SetLabels(labels)
	hSetType      = "set-type"        // blk-th block of the body: SetType(name)
	hNewline      = "newline"         // AppendNewline()
	hClear        = "clear"           // Clear()
	hNoopMarker   = "c11history"
	hRootFile     = -1
	hMaxTargetDep = 2
)

type hstep struct {
	K    string          `json:"k"` // root | attr | index
	Name string          `json:"name,omitempty"`
	Key  json.RawMessage `json:"key,omitempty"`
}

type hop struct {
	Op     string          `json:"op"`
	Root   int             `json:"root"`           // -1: the file's body; d >= 0: the body of detached block #d
	Path   []int           `json:"path,omitempty"` // from there: ordinal of the block (among the blocks of the body) to descend into
	Name   string          `json:"name,omitempty"`
	To     string          `json:"to,omitempty"`
	Val    json.RawMessage `json:"val,omitempty"` // cty/json with type
	Trav   []hstep         `json:"trav,omitempty"`
	Labels []string        `json:"labels,omitempty"`
	Blk    int             `json:"blk,omitempty"`

	val  cty.Value
	trav hcl.Traversal
}

// hinit: one line group of the source a parsed history starts from.
type hinit struct {
	K      string  `json:"k"` // attr | block | comment | blank
	Name   string  `json:"name,omitempty"`
	Lit    int     `json:"lit,omitempty"`    // index into initLits
	Labels []int   `json:"labels,omitempty"` // indices into initLabels
	Body   []hinit `json:"body,omitempty"`
	Lead   bool    `json:"lead,omitempty"`  // a lead comment line
	Trail  bool    `json:"trail,omitempty"` // a line comment after the expression
}

type hcase struct {
	Marker int     `json:"c11history"`
	Parsed bool    `json:"parsed"` // start from hclwrite.ParseConfig(render(Init)) instead of NewEmptyFile()
	Init   []hinit `json:"init,omitempty"`
	Ops    []*hop  `json:"ops"`
}

func (c *hcase) JSON() string {
	c.Marker = 1
	b, _ := json.Marshal(c)
	return string(b)
}

func encVal(v cty.Value) json.RawMessage {
	b, err := ctyjson.Marshal(v, cty.DynamicPseudoType)
	if err != nil {
		return nil
	}
	return b
}

func decVal(b json.RawMessage) (cty.Value, error) {
	return ctyjson.Unmarshal(b, cty.DynamicPseudoType)
}

func encTrav(t hcl.Traversal) []hstep {
	var out []hstep
	for _, st := range t {
		switch s := st.(type) {
		case hcl.TraverseRoot:
			out = append(out, hstep{K: "root", Name: s.Name})
		case hcl.TraverseAttr:
			out = append(out, hstep{K: "attr", Name: s.Name})
		case hcl.TraverseIndex:
			out = append(out, hstep{K: "index", Key: encVal(s.Key)})
		}
	}
	return out
}

func (o *hop) decode() error {
	if len(o.Val) > 0 {
		v, err := decVal(o.Val)
		if err != nil {
			return err
		}
		o.val = v
	}
	o.trav = nil
	for _, s := range o.Trav {
		switch s.K {
		case "root":
			o.trav = append(o.trav, hcl.TraverseRoot{Name: s.Name})
		case "attr":
			o.trav = append(o.trav, hcl.TraverseAttr{Name: s.Name})
		case "index":
			k, err := decVal(s.Key)
			if err != nil {
				return err
			}
			o.trav = append(o.trav, hcl.TraverseIndex{Key: k})
		default:
			return fmt.Errorf("unknown traversal step kind %q", s.K)
		}
	}
	return nil
}

func parseHistory(b []byte) (*hcase, error) {
	c := &hcase{}
	if err := json.Unmarshal(b, c); err != nil {
		return nil, err
	}
	for _, o := range c.Ops {
		if err := o.decode(); err != nil {
			return nil, err
		}
	}
	return c, nil
}

func isHistoryReplay(b []byte) bool {
	return bytes.HasPrefix(bytes.TrimSpace(b), []byte(`{"`+hNoopMarker+`"`))
}

func (o *hop) String() string {
	tgt := "file"
	if o.Root >= 0 {
		tgt = fmt.Sprintf("detached#%d", o.Root)
	}
	for _, p := range o.Path {
		tgt += fmt.Sprintf("/block[%d]", p)
	}
	switch o.Op {
	case hSetVal, hSetRaw:
		return fmt.Sprintf("%s: %s %s = %s", tgt, o.Op, o.Name, hv.DumpVal(o.val))
	case hSetTrav:
		return fmt.Sprintf("%s: %s %s = %s", tgt, o.Op, o.Name, dumpTraversal(o.trav))
	case hRename:
		return fmt.Sprintf("%s: rename %s -> %s", tgt, o.Name, o.To)
	case hRemoveAttr:
		return fmt.Sprintf("%s: remove-attr %s", tgt, o.Name)
	case hRemoveBlock, hRemoveOther, hAttach:
		return fmt.Sprintf("%s: %s #%d", tgt, o.Op, o.Blk)
	case hAppendNew, hNewDetached:
		return fmt.Sprintf("%s: %s %s %q", tgt, o.Op, o.Name, o.Labels)
	case hSetLabels:
		return fmt.Sprintf("%s: set-labels block[%d] %q", tgt, o.Blk, o.Labels)
	case hSetType:
		return fmt.Sprintf("%s: set-type block[%d] %s", tgt, o.Blk, o.Name)
	}
	return tgt + ": " + o.Op
}

// ---- the source a parsed history starts from (written out by the harness) -------------

type initLit struct {
	src  string
	val  cty.Value
	trav hcl.Traversal
}

// literal expressions with the value they denote, both written by hand
var initLits = []initLit{
	{src: `1`, val: cty.NumberIntVal(1)},
	{src: `"x"`, val: cty.StringVal("x")},
	{src: `true`, val: cty.True},
	{src: `null`, val: cty.NullVal(cty.DynamicPseudoType)},
	{src: `[1, "two"]`, val: cty.TupleVal([]cty.Value{cty.NumberIntVal(1), cty.StringVal("two")})},
	{src: `{ k = "v" }`, val: cty.ObjectVal(map[string]cty.Value{"k": cty.StringVal("v")})},
	{src: `"a$${b}%%{c}"`, val: cty.StringVal("a${b}%{c}")},
	{src: `-2.5`, val: cty.NumberFloatVal(-2.5)},
	{src: `var.in[0]`, trav: hcl.Traversal{hcl.TraverseRoot{Name: "var"}, hcl.TraverseAttr{Name: "in"}, hcl.TraverseIndex{Key: cty.NumberIntVal(0)}}},
	{src: "{\n  k = 1\n  \"q r\" = [true]\n}", val: cty.ObjectVal(map[string]cty.Value{"k": cty.NumberIntVal(1), "q r": cty.TupleVal([]cty.Value{cty.True})})},
	{src: `"q\"t\\n"`, val: cty.StringVal("q\"t\\n")},
	{src: `local.x["k"]`, trav: hcl.Traversal{hcl.TraverseRoot{Name: "local"}, hcl.TraverseAttr{Name: "x"}, hcl.TraverseIndex{Key: cty.StringVal("k")}}},
}

var initLabels = []struct{ src, label string }{
	{`"a"`, "a"}, {`b`, "b"}, {`"x y"`, "x y"}, {`"$${q}"`, "${q}"}, {`"q\"t"`, "q\"t"}, {`"ünï"`, "ünï"}, {`""`, ""},
}

func renderInit(items []hinit, indent string, sb *strings.Builder) {
	for _, it := range items {
		switch it.K {
		case "blank":
			sb.WriteString("\n")
		case "comment":
			sb.WriteString(indent + "# note\n")
		case "attr":
			if it.Lead {
				sb.WriteString(indent + "# about " + it.Name + "\n")
			}
			sb.WriteString(indent + it.Name + " = " + initLits[it.Lit%len(initLits)].src)
			if it.Trail {
				sb.WriteString(" # t")
			}
			sb.WriteString("\n")
		case "block":
			if it.Lead {
				sb.WriteString(indent + "// block\n")
			}
			sb.WriteString(indent + it.Name)
			for _, l := range it.Labels {
				sb.WriteString(" " + initLabels[l%len(initLabels)].src)
			}
			sb.WriteString(" {\n")
			renderInit(it.Body, indent+"  ", sb)
			sb.WriteString(indent + "}\n")
		}
	}
}

// ---- the expectation ------------------------------------------------------------------

type hItem struct {
	block  bool
	name   string // attribute name / block type
	val    cty.Value
	trav   hcl.Traversal // non-nil: the attribute is a traversal
	labels []string
	body   *hBody

	// whether the current content was produced by the generator functions
	// (TokensForValue / TokensForTraversal / label quoting) rather than loaded
	genContent, genLabels bool

	// navigation only (never consulted for the expectation)
	realBlock *hclwrite.Block
	realAttr  *hclwrite.Attribute
}

type hBody struct {
	items  []*hItem
	loaded bool // the body of a block that came out of hclwrite.ParseConfig
}

func (b *hBody) attr(name string) (int, *hItem) {
	for i, it := range b.items {
		if !it.block && it.name == name {
			return i, it
		}
	}
	return -1, nil
}

func (b *hBody) blocks() []*hItem {
	var out []*hItem
	for _, it := range b.items {
		if it.block {
			out = append(out, it)
		}
	}
	return out
}

func (b *hBody) removeAt(i int) { b.items = append(b.items[:i:i], b.items[i+1:]...) }

func expectInit(items []hinit) *hBody {
	b := &hBody{}
	for _, it := range items {
		switch it.K {
		case "attr":
			if _, dup := b.attr(it.Name); dup != nil {
				continue // the renderer is given a de-duplicated list (see dedupInit)
			}
			l := initLits[it.Lit%len(initLits)]
			b.items = append(b.items, &hItem{name: it.Name, val: l.val, trav: l.trav})
		case "block":
			var ls []string
			for _, l := range it.Labels {
				ls = append(ls, initLabels[l%len(initLabels)].label)
			}
			nb := expectInit(it.Body)
			nb.loaded = true
			b.items = append(b.items, &hItem{block: true, name: it.Name, labels: ls, body: nb})
		}
	}
	return b
}

// dedupInit drops attributes whose name was already used in the same body
// (the source must be valid), recursively.
func dedupInit(items []hinit) []hinit {
	seen := map[string]bool{}
	var out []hinit
	for _, it := range items {
		if it.K == "attr" {
			if seen[it.Name] {
				continue
			}
			seen[it.Name] = true
		}
		if it.K == "block" {
			it.Body = dedupInit(it.Body)
		}
		out = append(out, it)
	}
	return out
}

// ---- running one history ----------------------------------------------------------------

type hrun struct {
	c        *hcase
	file     *hclwrite.File
	exp      *hBody
	detached []*hItem // nil entry: re-attached
	fails    []verdict
	src      []byte // last File.Bytes()
	initSrc  string
	skipped  int
	// counterfactual run: Clear() of a loaded block's body is done by removing
	// the items one by one (see classifyClear)
	clearByRemoval bool
	clearedLoaded  int // Clear() calls on the body of a loaded block
	// features for the histogram
	feat map[string]int
}

func (h *hrun) failf(kind, format string, a ...any) {
	h.fails = append(h.fails, verdict{kind, fmt.Sprintf(format, a...)})
}

func pairHandles(exp *hBody, real *hclwrite.Body) bool {
	bs := real.Blocks()
	eb := exp.blocks()
	if len(bs) != len(eb) {
		return false
	}
	for i, it := range eb {
		it.realBlock = bs[i]
		if !pairHandles(it.body, bs[i].Body()) {
			return false
		}
	}
	return true
}

// resolve finds the expectation body and the real body an operation targets.
func (h *hrun) resolve(o *hop) (*hBody, *hclwrite.Body, int) {
	var eb *hBody
	var rb *hclwrite.Body
	if o.Root < 0 {
		eb, rb = h.exp, h.file.Body()
	} else {
		if o.Root >= len(h.detached) || h.detached[o.Root] == nil {
			return nil, nil, 0
		}
		d := h.detached[o.Root]
		eb, rb = d.body, d.realBlock.Body()
	}
	for _, p := range o.Path {
		bl := eb.blocks()
		if p < 0 || p >= len(bl) {
			return nil, nil, 0
		}
		eb, rb = bl[p].body, bl[p].realBlock.Body()
	}
	return eb, rb, len(o.Path)
}

func cloneStrs(s []string) []string { return append([]string{}, s...) }

// apply performs one operation on the real tree and on the expectation.
func (h *hrun) apply(o *hop) {
	eb, rb, _ := h.resolve(o)
	if eb == nil {
		h.skipped++
		return
	}
	blockAt := func() *hItem {
		bl := eb.blocks()
		if o.Blk < 0 || o.Blk >= len(bl) {
			return nil
		}
		return bl[o.Blk]
	}
	setAttr := func(call func() *hclwrite.Attribute, v cty.Value, t hcl.Traversal) {
		a := call()
		if a == nil {
			h.failf("history-api-result-differs", "%s returned nil", o.Op)
		}
		_, it := eb.attr(o.Name)
		if it == nil {
			it = &hItem{name: o.Name}
			eb.items = append(eb.items, it)
		}
		it.val, it.trav, it.genContent, it.realAttr = v, t, true, a
	}
	switch o.Op {
	case hSetVal:
		setAttr(func() *hclwrite.Attribute { return rb.SetAttributeValue(o.Name, o.val) }, o.val, nil)
	case hSetRaw:
		setAttr(func() *hclwrite.Attribute { return rb.SetAttributeRaw(o.Name, hclwrite.TokensForValue(o.val)) }, o.val, nil)
	case hSetTrav:
		if len(o.trav) == 0 {
			h.skipped++
			return
		}
		setAttr(func() *hclwrite.Attribute { return rb.SetAttributeTraversal(o.Name, o.trav) }, cty.NilVal, o.trav)
	case hRename:
		_, from := eb.attr(o.Name)
		_, to := eb.attr(o.To)
		want := from != nil && to == nil
		got := rb.RenameAttribute(o.Name, o.To)
		if got != want {
			h.failf("history-api-result-differs", "RenameAttribute(%q, %q) = %v, want %v", o.Name, o.To, got, want)
		}
		if want {
			from.name = o.To
		}
	case hRemoveAttr:
		i, it := eb.attr(o.Name)
		got := rb.RemoveAttribute(o.Name)
		if (got != nil) != (it != nil) {
			h.failf("history-api-result-differs", "RemoveAttribute(%q) returned nil: %v, attribute expected present: %v", o.Name, got == nil, it != nil)
		}
		if it != nil {
			eb.removeAt(i)
		}
	case hRemoveBlock:
		it := blockAt()
		if it == nil {
			h.skipped++
			return
		}
		if !rb.RemoveBlock(it.realBlock) {
			h.failf("history-api-result-differs", "RemoveBlock of block %d (%s %q) of the body returned false", o.Blk, it.name, it.labels)
		}
		for i, x := range eb.items {
			if x == it {
				eb.removeAt(i)
				break
			}
		}
		h.detached = append(h.detached, it)
	case hRemoveOther:
		if o.Blk < 0 || o.Blk >= len(h.detached) || h.detached[o.Blk] == nil {
			h.skipped++
			return
		}
		if rb.RemoveBlock(h.detached[o.Blk].realBlock) {
			h.failf("history-api-result-differs", "RemoveBlock of a block that is not in the body returned true")
		}
	case hAppendNew:
		blk := rb.AppendNewBlock(o.Name, cloneStrs(o.Labels))
		if blk == nil {
			h.failf("history-api-result-differs", "AppendNewBlock returned nil")
			return
		}
		eb.items = append(eb.items, &hItem{block: true, name: o.Name, labels: cloneStrs(o.Labels), body: &hBody{}, genLabels: true, realBlock: blk})
	case hNewDetached:
		blk := hclwrite.NewBlock(o.Name, cloneStrs(o.Labels))
		h.detached = append(h.detached, &hItem{block: true, name: o.Name, labels: cloneStrs(o.Labels), body: &hBody{}, genLabels: true, realBlock: blk})
	case hAttach:
		if o.Blk < 0 || o.Blk >= len(h.detached) || h.detached[o.Blk] == nil || (o.Root == o.Blk) {
			h.skipped++
			return
		}
		it := h.detached[o.Blk]
		if containsItem(it, eb) {
			h.skipped++ // would make the block its own ancestor
			return
		}
		rb.AppendBlock(it.realBlock)
		eb.items = append(eb.items, it)
		h.detached[o.Blk] = nil
	case hSetLabels:
		it := blockAt()
		if it == nil {
			h.skipped++
			return
		}
		it.realBlock.SetLabels(cloneStrs(o.Labels))
		it.labels, it.genLabels = cloneStrs(o.Labels), true
	case hSetType:
		it := blockAt()
		if it == nil {
			h.skipped++
			return
		}
		it.realBlock.SetType(o.Name)
		it.name = o.Name
	case hNewline:
		rb.AppendNewline()
	case hClear:
		if eb.loaded {
			h.clearedLoaded++
		}
		if eb.loaded && h.clearByRemoval {
			for _, it := range eb.items {
				if it.block {
					rb.RemoveBlock(it.realBlock)
				} else {
					rb.RemoveAttribute(it.name)
				}
			}
		} else {
			rb.Clear()
		}
		eb.items = nil
	default:
		h.skipped++
	}
}

// containsItem: is body b the body of it or of a block nested in it?
func containsItem(it *hItem, b *hBody) bool {
	if it.body == b {
		return true
	}
	for _, x := range it.body.items {
		if x.block && containsItem(x, b) {
			return true
		}
	}
	return false
}

type synItem struct {
	block bool
	name  string
	attr  *hclsyntax.Attribute
	blk   *hclsyntax.Block
	pos   int
}

func synItems(b *hclsyntax.Body) []synItem {
	var out []synItem
	for n, a := range b.Attributes {
		out = append(out, synItem{name: n, attr: a, pos: a.SrcRange.Start.Byte})
	}
	for _, bl := range b.Blocks {
		out = append(out, synItem{block: true, name: bl.Type, blk: bl, pos: bl.TypeRange.Start.Byte})
	}
	sort.Slice(out, func(i, j int) bool { return out[i].pos < out[j].pos })
	return out
}

func itemKey(block bool, name string) string {
	if block {
		return "block " + name
	}
	return "attribute " + name
}

// compareBody: the read-back oracle for one body, recursively.
func (h *hrun) compareBody(exp *hBody, got *hclsyntax.Body, where string) {
	gi := synItems(got)
	want := map[string]int{}
	have := map[string]int{}
	for _, it := range exp.items {
		want[itemKey(it.block, it.name)]++
	}
	for _, it := range gi {
		have[itemKey(it.block, it.name)]++
	}
	bad := false
	for _, k := range hv.SortedKeys(want) {
		if have[k] < want[k] {
			h.failf("history-item-missing", "%s: %s written through the writer API %d time(s), present %d time(s) in the generated source", where, k, want[k], have[k])
			bad = true
		}
	}
	for _, k := range hv.SortedKeys(have) {
		if have[k] > want[k] {
			h.failf("history-item-unexpected", "%s: %s expected %d time(s), present %d time(s) in the generated source", where, k, want[k], have[k])
			bad = true
		}
	}
	if bad {
		return
	}
	for i, it := range exp.items {
		if gi[i].block != it.block || gi[i].name != it.name {
			var a, b []string
			for _, x := range exp.items {
				a = append(a, itemKey(x.block, x.name))
			}
			for _, x := range gi {
				b = append(b, itemKey(x.block, x.name))
			}
			h.failf("history-order-differs", "%s: items read back in the order %q, want %q", where, b, a)
			return
		}
	}
	for i, it := range exp.items {
		g := gi[i]
		at := where + "/" + itemKey(it.block, it.name)
		switch {
		case it.block:
			if !strsEqual(g.blk.Labels, it.labels) {
				h.failf("history-label-differs", "%s: labels read back as %q, want %q", at, g.blk.Labels, it.labels)
			}
			h.compareBody(it.body, g.blk.Body, at)
		case it.trav != nil:
			t, d := hcl.AbsTraversalForExpr(g.attr.Expr)
			if d.HasErrors() {
				h.failf("history-traversal-differs", "%s: %s", at, d.Error())
			} else if same, why := stepsEqual(it.trav, t); !same {
				h.failf("history-traversal-differs", "%s: %s", at, why)
			}
		default:
			v, d := g.attr.Expr.Value(nil)
			if d.HasErrors() {
				h.failf("history-value-differs", "%s: evaluation: %s", at, d.Error())
				continue
			}
			conv, err := convert.Convert(v, it.val.Type())
			if err != nil {
				h.failf("history-value-differs", "%s: convert: %s", at, err)
			} else if !conv.RawEquals(it.val) {
				h.failf("history-value-differs", "%s: reads back as %s, want %s", at, hv.DumpVal(conv), hv.DumpVal(it.val))
			}
		}
	}
}

func (h *hrun) readBack(when string) *hclsyntax.Body {
	h.src = h.file.Bytes()
	sf, diags := hclsyntax.ParseConfig(h.src, "gen.hcl", hcl.InitialPos)
	if diags.HasErrors() {
		h.failf("history-parse-error", "%s: the generated source does not parse: %s", when, diags.Error())
		return nil
	}
	sb := sf.Body.(*hclsyntax.Body)
	n := len(h.fails)
	h.compareBody(h.exp, sb, "file")
	for i := n; i < len(h.fails); i++ {
		h.fails[i].detail = when + ": " + h.fails[i].detail
	}
	return sb
}

// runHistory executes the case; the read-back oracle runs after the load and
// after every operation (it stops at the first operation with a failure).
func runHistory(c *hcase) *hrun { return runHistoryMode(c, false) }

func runHistoryMode(c *hcase, clearByRemoval bool) (h *hrun) {
	h = &hrun{c: c, feat: map[string]int{}, clearByRemoval: clearByRemoval}
	defer func() {
		if r := recover(); r != nil {
			h.fails = append(h.fails, verdict{"panic", fmt.Sprint(r)})
		}
	}()
	if c.Parsed {
		var sb strings.Builder
		renderInit(c.Init, "", &sb)
		h.initSrc = sb.String()
		f, diags := hclwrite.ParseConfig([]byte(h.initSrc), "init.hcl", hcl.InitialPos)
		if diags.HasErrors() {
			h.failf("history-harness-error", "initial source does not parse: %s", diags.Error())
			return h
		}
		h.file = f
		h.exp = expectInit(c.Init)
		if !pairHandles(h.exp, f.Body()) {
			h.failf("history-api-result-differs", "Blocks() of the loaded file does not list the blocks of the source")
			return h
		}
	} else {
		h.file = hclwrite.NewEmptyFile()
		h.exp = &hBody{}
	}
	if h.readBack("after load"); len(h.fails) > 0 {
		return h
	}
	for i, o := range c.Ops {
		h.apply(o)
		h.readBack(fmt.Sprintf("after op %d (%s)", i, o.String()))
		if len(h.fails) > 0 {
			if !clearByRemoval {
				classifyClear(h)
			}
			return h
		}
	}
	return h
}

// classifyClear gives one genuine defect of the unchanged tree its own narrow
// kind, decided by its cause: in a block that came out of ParseConfig the line
// break after "{" is a child of the block's BODY, so Body.Clear() deletes it
// and the next item written lands on the brace line ("b { c = 1\n}": does not
// parse).  A history-parse-error is that defect when the history cleared the
// body of a loaded block and the SAME history with those Clear() calls done as
// item-by-item removals reads back clean at every step.
const kindClearLoaded = "clear-of-loaded-block-body-glues-next-item-to-brace"

func classifyClear(h *hrun) {
	if h.clearedLoaded == 0 {
		return
	}
	only := len(h.fails) > 0
	for _, f := range h.fails {
		if f.kind != "history-parse-error" {
			only = false
		}
	}
	if !only {
		return
	}
	if cf := runHistoryMode(h.c, true); len(cf.fails) != 0 {
		return
	}
	for i := range h.fails {
		h.fails[i].kind = kindClearLoaded
	}
}

func describeBody(b *hBody, indent string, sb *strings.Builder) {
	for _, it := range b.items {
		switch {
		case it.block:
			fmt.Fprintf(sb, "%s%s %q {\n", indent, it.name, it.labels)
			describeBody(it.body, indent+"  ", sb)
			fmt.Fprintf(sb, "%s}\n", indent)
		case it.trav != nil:
			fmt.Fprintf(sb, "%s%s = traversal %s\n", indent, it.name, dumpTraversal(it.trav))
		default:
			fmt.Fprintf(sb, "%s%s = %s\n", indent, it.name, hv.DumpVal(it.val))
		}
	}
}

func (h *hrun) pretty() string {
	var sb strings.Builder
	if h.c.Parsed {
		fmt.Fprintf(&sb, "hclwrite.ParseConfig of:\n%s---\n", h.initSrc)
	} else {
		sb.WriteString("hclwrite.NewEmptyFile()\n")
	}
	for i, o := range h.c.Ops {
		fmt.Fprintf(&sb, "%d. %s\n", i, o.String())
	}
	sb.WriteString("--- expected content (harness bookkeeping) at the point of failure / end:\n")
	if h.exp != nil {
		describeBody(h.exp, "", &sb)
	}
	fmt.Fprintf(&sb, "--- File.Bytes():\n%s", h.src)
	return sb.String()
}

// shrinkHistory drops operations (and then initial items) one at a time while
// a failure of the same kind remains.
func shrinkHistory(c *hcase, kind string) *hcase {
	still := func(x *hcase) bool {
		for _, f := range runHistory(x).fails {
			if f.kind == kind {
				return true
			}
		}
		return false
	}
	cur := &hcase{Parsed: c.Parsed, Init: c.Init, Ops: append([]*hop{}, c.Ops...)}
	for changed := true; changed; {
		changed = false
		for i := len(cur.Ops) - 1; i >= 0; i-- {
			try := &hcase{Parsed: cur.Parsed, Init: cur.Init}
			try.Ops = append(append([]*hop{}, cur.Ops[:i]...), cur.Ops[i+1:]...)
			if still(try) {
				cur, changed = try, true
			}
		}
		for i := len(cur.Init) - 1; i >= 0; i-- {
			try := &hcase{Parsed: cur.Parsed, Ops: cur.Ops}
			try.Init = append(append([]hinit{}, cur.Init[:i]...), cur.Init[i+1:]...)
			if still(try) {
				cur, changed = try, true
			}
		}
	}
	return cur
}

// ---- generator ------------------------------------------------------------------------

var hAttrNames = []string{"a", "b", "c", "name", "for", "x-y", "ünï", "tags", "in"}
var hBlockTypes = []string{"blk", "resource", "for", "a-b", "data"}

type hgen struct {
	g     *gen
	x     *runner
	c     *hcase
	sim   *hrun // the expectation is simulated while generating, by running the ops for real
	force string
}

// value draws a generated value that reads back when written ALONE (the
// shapes that do not are the business of the value stream, which reports them
// under their own kinds; here they would only hide what the history does).
func (hg *hgen) value() cty.Value {
	for i := 0; i < 20; i++ {
		var v cty.Value
		if hg.g.r.Chance(0.35) {
			v = cty.StringVal(hg.g.str())
		} else {
			v = hg.g.value()
		}
		if vd, _ := valueOracle(v); vd.kind != "" {
			hg.x.valueCase(v) // reported where it belongs
			hg.x.rep.Hist("history:value-not-used(fails-alone)")
			continue
		}
		if len(encVal(v)) == 0 {
			continue
		}
		if w, err := decVal(encVal(v)); err != nil || !w.RawEquals(v) {
			hg.x.rep.Hist("history:value-not-used(no-exact-json-form-for-the-replay)")
			continue
		}
		return v
	}
	return cty.StringVal("fallback")
}

func (hg *hgen) traversal() hcl.Traversal {
	for i := 0; i < 20; i++ {
		t := hg.g.traversal(true)
		if vd, _ := traversalOracle(t); vd.kind != "" {
			hg.x.traversalCase(t)
			hg.x.rep.Hist("history:traversal-not-used(fails-alone)")
			continue
		}
		ok := true
		for _, st := range t {
			if ix, isIx := st.(hcl.TraverseIndex); isIx {
				if w, err := decVal(encVal(ix.Key)); err != nil || !w.RawEquals(ix.Key) {
					ok = false
				}
			}
		}
		if ok {
			return t
		}
	}
	return hcl.Traversal{hcl.TraverseRoot{Name: "fallback"}}
}

func (hg *hgen) labels() []string {
	for i := 0; i < 20; i++ {
		ls := hg.g.labels()
		if vds, _ := labelOracle("blk", ls, false); len(vds) > 0 {
			hg.x.labelCase(ls, false)
			hg.x.rep.Hist("history:labels-not-used(fail-alone)")
			continue
		}
		return ls
	}
	return []string{"fallback"}
}

func (hg *hgen) genInit(depth int) []hinit {
	r := hg.g.r
	n := r.Small(4)
	if depth == 0 && n == 0 && r.Chance(0.7) {
		n = 1 + r.Intn(3)
	}
	var out []hinit
	for i := 0; i < n; i++ {
		switch k := r.Intn(10); {
		case k < 5:
			out = append(out, hinit{K: "attr", Name: hAttrNames[r.Intn(len(hAttrNames))], Lit: r.Intn(len(initLits)), Lead: r.Chance(0.2), Trail: r.Chance(0.2)})
		case k < 8 && depth < 2:
			var ls []int
			for j := r.Small(2); j > 0; j-- {
				ls = append(ls, r.Intn(len(initLabels)))
			}
			out = append(out, hinit{K: "block", Name: hBlockTypes[r.Intn(len(hBlockTypes))], Labels: ls, Body: hg.genInit(depth + 1), Lead: r.Chance(0.15)})
		case k < 9:
			out = append(out, hinit{K: "comment"})
		default:
			out = append(out, hinit{K: "blank"})
		}
	}
	return dedupInit(out)
}

// pickTarget walks from the file body (or, rarely, a detached block) down to
// depth <= 2.
func (hg *hgen) pickTarget() (root int, path []int, eb *hBody) {
	r := hg.g.r
	root, eb = hRootFile, hg.sim.exp
	if r.Chance(0.12) {
		var live []int
		for i, d := range hg.sim.detached {
			if d != nil {
				live = append(live, i)
			}
		}
		if len(live) > 0 {
			root = live[r.Intn(len(live))]
			eb = hg.sim.detached[root].body
		}
	}
	for d := 0; d < hMaxTargetDep; d++ {
		bl := eb.blocks()
		if len(bl) == 0 || !r.Chance(0.45) {
			break
		}
		p := r.Intn(len(bl))
		if r.Chance(0.4) {
			p = len(bl) - 1
		}
		path = append(path, p)
		eb = bl[p].body
	}
	return root, path, eb
}

func (hg *hgen) emit(o *hop) {
	o.Val = nil
	if o.Op == hSetVal || o.Op == hSetRaw {
		o.Val = encVal(o.val)
	}
	o.Trav = encTrav(o.trav)
	hg.c.Ops = append(hg.c.Ops, o)
	hg.sim.apply(o)
}

// position of item i among the items of its body
func posName(i, n int) string {
	switch {
	case n == 1:
		return "only"
	case i == n-1:
		return "last"
	case i == 0:
		return "first"
	}
	return "middle"
}

func (hg *hgen) setOp(root int, path []int, name string) *hop {
	r := hg.g.r
	o := &hop{Root: root, Path: path, Name: name}
	switch k := r.Intn(10); {
	case k < 6:
		o.Op, o.val = hSetVal, hg.value()
	case k < 8:
		o.Op, o.trav = hSetTrav, hg.traversal()
	default:
		o.Op, o.val = hSetRaw, hg.value()
	}
	return o
}

func (hg *hgen) freshName(eb *hBody) string {
	r := hg.g.r
	for i := 0; i < 10; i++ {
		n := hAttrNames[r.Intn(len(hAttrNames))]
		if _, it := eb.attr(n); it == nil {
			return n
		}
	}
	return fmt.Sprintf("n%d", len(hg.c.Ops))
}

// step appends one operation (or a short idiom of two or three).
func (hg *hgen) step() {
	r, rep := hg.g.r, hg.x.rep
	root, path, eb := hg.pickTarget()
	n := len(eb.items)
	pickItem := func() int { // biased towards the end of the body
		switch k := r.Intn(10); {
		case k < 6:
			return n - 1
		case k < 8:
			return 0
		}
		return r.Intn(n)
	}
	blkOrdinal := func(i int) int {
		k := 0
		for j := 0; j < i; j++ {
			if eb.items[j].block {
				k++
			}
		}
		return k
	}
	removeItem := func(i int) {
		it := eb.items[i]
		rep.Hist("history:remove-position:" + posName(i, n))
		if it.block {
			hg.emit(&hop{Op: hRemoveBlock, Root: root, Path: path, Blk: blkOrdinal(i)})
		} else {
			hg.emit(&hop{Op: hRemoveAttr, Root: root, Path: path, Name: it.name})
		}
	}
	writeAfter := func(pos string) {
		rep.Hist("history:write-after-remove-" + pos)
		if r.Chance(0.7) {
			hg.emit(hg.setOp(root, path, hg.freshName(eb)))
		} else {
			hg.emit(&hop{Op: hAppendNew, Root: root, Path: path, Name: hBlockTypes[r.Intn(len(hBlockTypes))], Labels: hg.labels()})
		}
	}
	k := r.Intn(100)
	if n == 0 && k >= 20 && k < 70 {
		k = r.Intn(20) // an empty body: mostly write
	}
	switch {
	case k < 14: // new attribute
		hg.emit(hg.setOp(root, path, hg.freshName(eb)))
	case k < 20: // new block
		hg.emit(&hop{Op: hAppendNew, Root: root, Path: path, Name: hBlockTypes[r.Intn(len(hBlockTypes))], Labels: hg.labels()})
	case k < 28: // replace an existing attribute in place
		i := pickItem()
		if eb.items[i].block {
			hg.emit(hg.setOp(root, path, hg.freshName(eb)))
			return
		}
		rep.Hist("history:replace-in-place:" + posName(i, n))
		hg.emit(hg.setOp(root, path, eb.items[i].name))
	case k < 46: // remove, then usually write again
		i := pickItem()
		pos := posName(i, n)
		removeItem(i)
		if r.Chance(0.8) {
			writeAfter(pos)
		}
	case k < 60: // the idiom: remove x, set x again (moves it to the end)
		i := pickItem()
		it := eb.items[i]
		pos := posName(i, n)
		if it.block {
			// the same for a block: remove it, append it (or a new one in its place) again
			blk := blkOrdinal(i)
			rep.Hist("history:remove-position:" + pos)
			hg.emit(&hop{Op: hRemoveBlock, Root: root, Path: path, Blk: blk})
			if r.Chance(0.5) {
				rep.Hist("history:idiom-remove-block-then-append-it-again:" + pos)
				hg.emit(&hop{Op: hAttach, Root: root, Path: path, Blk: len(hg.sim.detached) - 1})
			} else {
				rep.Hist("history:idiom-remove-block-then-append-new:" + pos)
				hg.emit(&hop{Op: hAppendNew, Root: root, Path: path, Name: it.name, Labels: hg.labels()})
			}
		} else {
			rep.Hist("history:remove-position:" + pos)
			rep.Hist("history:idiom-remove-then-set-again:" + pos)
			hg.emit(&hop{Op: hRemoveAttr, Root: root, Path: path, Name: it.name})
			hg.emit(hg.setOp(root, path, it.name))
		}
		if r.Chance(0.5) {
			writeAfter(pos)
		}
	case k < 66: // rename
		i := pickItem()
		if eb.items[i].block {
			o := &hop{Root: root, Path: path, Blk: blkOrdinal(i)}
			if r.Chance(0.5) {
				o.Op, o.Name = hSetType, hBlockTypes[r.Intn(len(hBlockTypes))]
			} else {
				o.Op, o.Labels = hSetLabels, hg.labels()
			}
			hg.emit(o)
			return
		}
		to := hg.freshName(eb)
		if r.Chance(0.15) {
			to = hAttrNames[r.Intn(len(hAttrNames))] // possibly taken: a refused rename
		}
		rep.Hist("history:rename:" + posName(i, n))
		hg.emit(&hop{Op: hRename, Root: root, Path: path, Name: eb.items[i].name, To: to})
	case k < 70: // remove something that is not there
		rep.Hist("history:remove-position:absent")
		hg.emit(&hop{Op: hRemoveAttr, Root: root, Path: path, Name: hg.freshName(eb)})
		for i, d := range hg.sim.detached {
			if d != nil && r.Chance(0.5) && root != i {
				hg.emit(&hop{Op: hRemoveOther, Root: root, Path: path, Blk: i})
				break
			}
		}
	case k < 78: // a block built detached, filled, then attached
		hg.emit(&hop{Op: hNewDetached, Root: hRootFile, Name: hBlockTypes[r.Intn(len(hBlockTypes))], Labels: hg.labels()})
		d := len(hg.sim.detached) - 1
		for j := r.Small(3); j > 0; j-- {
			hg.emit(hg.setOp(d, nil, hAttrNames[r.Intn(len(hAttrNames))]))
		}
		if r.Chance(0.3) && len(hg.sim.detached[d].body.items) > 0 {
			// the history of the detached body itself: drop its last item, write again
			last := hg.sim.detached[d].body.items[len(hg.sim.detached[d].body.items)-1]
			rep.Hist("history:remove-position:" + posName(len(hg.sim.detached[d].body.items)-1, len(hg.sim.detached[d].body.items)))
			hg.emit(&hop{Op: hRemoveAttr, Root: d, Name: last.name})
			hg.emit(hg.setOp(d, nil, hg.freshName(hg.sim.detached[d].body)))
		}
		if root != d && r.Chance(0.85) {
			hg.emit(&hop{Op: hAttach, Root: root, Path: path, Blk: d})
		}
	case k < 84: // re-attach a block removed earlier
		for i, d := range hg.sim.detached {
			if d != nil && i != root {
				hg.emit(&hop{Op: hAttach, Root: root, Path: path, Blk: i})
				return
			}
		}
		hg.emit(hg.setOp(root, path, hg.freshName(eb)))
	case k < 90:
		hg.emit(&hop{Op: hNewline, Root: root, Path: path})
	case k < 93:
		hg.emit(&hop{Op: hClear, Root: root, Path: path})
		if r.Chance(0.8) {
			writeAfter("all(clear)")
		}
	default: // write into a nested body directly: make sure one exists
		bl := eb.blocks()
		if len(bl) == 0 || len(path) >= hMaxTargetDep {
			hg.emit(&hop{Op: hAppendNew, Root: root, Path: path, Name: hBlockTypes[r.Intn(len(hBlockTypes))], Labels: hg.labels()})
			bl = eb.blocks()
		}
		if len(path) < hMaxTargetDep && len(bl) > 0 {
			p := append(append([]int{}, path...), len(bl)-1)
			hg.emit(hg.setOp(root, p, hAttrNames[r.Intn(len(hAttrNames))]))
		}
	}
}

func (x *runner) genHistory(hr *gen) *hcase {
	c := &hcase{}
	hg := &hgen{g: hr, x: x, c: c}
	r := hr.r
	if r.Chance(0.4) {
		c.Parsed = true
		c.Init = hg.genInit(0)
	}
	hg.sim = runHistory(&hcase{Parsed: c.Parsed, Init: c.Init})
	if len(hg.sim.fails) > 0 {
		return c // reported when the case is run
	}
	steps := 2 + r.Small(7)
	for i := 0; i < steps && len(c.Ops) < 24; i++ {
		hg.step()
	}
	return c
}

// ---- the case -------------------------------------------------------------------------

func (x *runner) historyCase(c *hcase, shrink bool) {
	rep := x.rep
	h := runHistory(c)
	js := c.JSON()
	rep.Hist("case:history")
	rep.Count("h:"+js, len(c.Ops) > 1)
	if c.Parsed {
		rep.Hist("history:body:from-ParseConfig")
	} else {
		rep.Hist("history:body:fresh")
	}
	maxDepth, detachedTarget := 0, false
	for _, o := range c.Ops {
		rep.Hist("history:op:" + o.Op)
		if len(o.Path) > maxDepth {
			maxDepth = len(o.Path)
		}
		if o.Root >= 0 {
			detachedTarget = true
		}
	}
	rep.Hist(fmt.Sprintf("history:deepest-target-body-depth:%d", maxDepth))
	if detachedTarget {
		rep.Hist("history:writes-into-detached-block")
	}
	rep.Hist("history:length:" + map[bool]string{true: "1-4", false: "5+"}[len(c.Ops) <= 4])
	if h.skipped > 0 {
		rep.Hist("history:has-inapplicable-op(skipped)")
	}
	if len(h.fails) == 0 {
		rep.Hist("oracle-ok:history")
		if len(h.src) < 200 && len(c.Ops) > 2 {
			rep.Sample("history -> " + string(h.src))
		}
		if x.histCoq {
			x.historyCoqCases(h)
		}
		return
	}
	seen := map[string]bool{}
	for _, f := range h.fails {
		if seen[f.kind] {
			continue
		}
		seen[f.kind] = true
		in, det, extra := js, f.detail, map[string]string{"history": h.pretty()}
		if shrink && f.kind != "history-harness-error" {
			x.nshrunk++
			min := shrinkHistory(c, f.kind)
			mh := runHistory(min)
			for _, mf := range mh.fails {
				if mf.kind == f.kind {
					in, det = min.JSON(), mf.detail
					extra = map[string]string{"history": mh.pretty(), "found_in": js}
					break
				}
			}
		}
		x.fail(verdict{f.kind, det}, in, extra)
	}
}

// ---- model correspondence for what survives -------------------------------------------------
//
// The Coq model of C11 (Write/Generate.v) has no notion of a history: it says
// which tokens TokensForValue / TokensForTraversal / label quoting produce.
// So each item that survives a history and whose content was produced by those
// generators is sent through the EXISTING correspondence: the tokens found in
// the final tree for the attribute's expression are compared with gen_value /
// gen_traversal of the expected value (c11val / c11trav), the labels with
// replace_labels (c11label).  The tie between "tokens in the tree" and "bytes
// in the file" is checked here in Go: re-lexing the expression's range of
// File.Bytes() gives the same tokens up to the splitting of quoted literals
// (kind history-item-tokens-differ-from-file).

func mergeLits(ts []hclsyntax.Token) [][2]string {
	var out [][2]string
	for _, t := range ts {
		if t.Type == hclsyntax.TokenEOF {
			continue
		}
		if t.Type == hclsyntax.TokenNumberLit && len(t.Bytes) > 1 && t.Bytes[0] == '-' {
			// TokensForValue writes a negative number as ONE number token; the scanner reads "-" and the digits
			out = append(out, [2]string{string(rune(hclsyntax.TokenMinus)), "-"}, [2]string{string(rune(t.Type)), string(t.Bytes[1:])})
			continue
		}
		if t.Type == hclsyntax.TokenQuotedLit {
			if len(t.Bytes) == 0 {
				continue
			}
			if n := len(out); n > 0 && out[n-1][0] == string(rune(t.Type)) {
				out[n-1][1] += string(t.Bytes)
				continue
			}
		}
		out = append(out, [2]string{string(rune(t.Type)), string(t.Bytes)})
	}
	return out
}

func writerToSyn(ts hclwrite.Tokens) []hclsyntax.Token {
	out := make([]hclsyntax.Token, len(ts))
	for i, t := range ts {
		out[i] = hclsyntax.Token{Type: t.Type, Bytes: t.Bytes}
	}
	return out
}

func (x *runner) historyCoqCases(h *hrun) {
	sf, diags := hclsyntax.ParseConfig(h.src, "gen.hcl", hcl.InitialPos)
	if diags.HasErrors() {
		return
	}
	wf, wdiags := hclwrite.ParseConfig(h.src, "gen.hcl", hcl.InitialPos)
	var wb *hclwrite.Body
	if !wdiags.HasErrors() {
		wb = wf.Body()
	}
	x.historyCoqBody(h, h.exp, sf.Body.(*hclsyntax.Body), wb)
}

func (x *runner) historyCoqBody(h *hrun, exp *hBody, got *hclsyntax.Body, wb *hclwrite.Body) {
	rep := x.rep
	gi := synItems(got)
	if len(gi) != len(exp.items) {
		return
	}
	var wblocks []*hclwrite.Block
	if wb != nil {
		wblocks = wb.Blocks()
	}
	nb := 0
	for i, it := range exp.items {
		g := gi[i]
		switch {
		case it.block:
			var reloaded *hclwrite.Block
			if nb < len(wblocks) {
				reloaded = wblocks[nb]
			}
			nb++
			if it.genLabels && reloaded != nil {
				np := nonPrintables(strings.Join(it.labels, ""))
				var lt []string
				for _, l := range it.labels {
					lt = append(lt, cps(l))
				}
				x.cf.label.Add(fmt.Sprintf("(%s, %s, (%s, %s, %s))", hv.CoqList(lt), hv.CoqZList(np),
					hexList(it.realBlock.Labels()), hexList(reloaded.Labels()), hexList(g.blk.Labels)))
				rep.Idx(fmt.Sprintf("c11label[%d] labels %q (survivor of a history)", x.nlabel, it.labels))
				x.nlabel++
				rep.Hist("history:survivor-to-coq:labels")
			}
			var rbody *hclwrite.Body
			if reloaded != nil {
				rbody = reloaded.Body()
			}
			x.historyCoqBody(h, it.body, g.blk.Body, rbody)
		case !it.genContent || it.realAttr == nil:
			// loaded from source, never written through the generators
		default:
			toks := it.realAttr.Expr().BuildTokens(nil)
			rng := g.attr.Expr.Range()
			if rng.Start.Byte >= 0 && rng.End.Byte <= len(h.src) && rng.Start.Byte <= rng.End.Byte {
				lexed, _ := hclsyntax.LexExpression(h.src[rng.Start.Byte:rng.End.Byte], "gen.hcl", hcl.InitialPos)
				a, b := mergeLits(writerToSyn(toks)), mergeLits(lexed)
				same := len(a) == len(b)
				for j := 0; same && j < len(a); j++ {
					same = a[j] == b[j]
				}
				if !same {
					x.fail(verdict{"history-item-tokens-differ-from-file", fmt.Sprintf("attribute %s: the tokens of its expression in the tree are not the tokens of its range in File.Bytes()", it.name)},
						h.c.JSON(), map[string]string{"history": h.pretty()})
				}
			}
			vi := newInfo()
			if it.trav != nil {
				term := coqTraversal(it.trav, vi)
				x.cf.trav.Add(fmt.Sprintf("(%s, %s, %s, Some %s)", term, vi.coqIdents(), vi.coqNP(), coqToks(toks)))
				rep.Idx(fmt.Sprintf("c11trav[%d] traversal %s (survivor of a history)", x.ntrav, dumpTraversal(it.trav)))
				x.ntrav++
				rep.Hist("history:survivor-to-coq:traversal")
			} else {
				term := coqVal(it.val, vi)
				x.cf.val.Add(fmt.Sprintf("(%s, %s, %s, %s, %s)", term, vi.coqIdents(), vi.coqNP(), coqToks(toks), hv.CoqBool(parsedAsFor(toks.Bytes()))))
				rep.Idx(fmt.Sprintf("c11val[%d] value %s (survivor of a history)", x.nval, hv.DumpVal(it.val)))
				x.nval++
				rep.Hist("history:survivor-to-coq:value")
			}
		}
	}
}

// ---- hand corpus ----------------------------------------------------------------------

func hv1(op, name string, v cty.Value) *hop {
	return &hop{Op: op, Root: hRootFile, Name: name, val: v, Val: encVal(v)}
}

func handHistories() []*hcase {
	s := func(v string) cty.Value { return cty.StringVal(v) }
	list := cty.ListVal([]cty.Value{cty.NumberIntVal(80), cty.NumberIntVal(443)})
	obj := cty.MapVal(map[string]cty.Value{"for": s("a\"b"), "if": s("%{x}")})
	return []*hcase{
		// move-to-end idiom on an attribute that already is the last one, then write more
		{Ops: []*hop{hv1(hSetVal, "name", s("svc-${env}")), hv1(hSetVal, "ports", cty.ListVal([]cty.Value{cty.NumberIntVal(1)})),
			{Op: hRemoveAttr, Root: hRootFile, Name: "ports"}, hv1(hSetVal, "ports", list), hv1(hSetVal, "tags", obj)}},
		// the only item removed, then written again
		{Ops: []*hop{hv1(hSetVal, "a", cty.True), {Op: hRemoveAttr, Root: hRootFile, Name: "a"}, hv1(hSetVal, "a", s("$${")), hv1(hSetRaw, "b", obj)}},
		// the last BLOCK dropped and another appended in its place, written into afterwards
		{Ops: []*hop{hv1(hSetVal, "version", cty.NumberIntVal(2)), {Op: hAppendNew, Root: hRootFile, Name: "old", Labels: []string{"a"}},
			{Op: hSetVal, Root: hRootFile, Path: []int{0}, Name: "x", val: cty.True, Val: encVal(cty.True)},
			{Op: hRemoveBlock, Root: hRootFile, Blk: 0}, {Op: hAppendNew, Root: hRootFile, Name: "new", Labels: []string{"$${lit}", "quo\"te"}},
			{Op: hSetVal, Root: hRootFile, Path: []int{0}, Name: "x", val: cty.False, Val: encVal(cty.False)}}},
		// a loaded file: last attribute of a nested body removed and re-added, a block moved to the end
		{Parsed: true, Init: []hinit{{K: "attr", Name: "a", Lit: 0}, {K: "block", Name: "blk", Labels: []int{0, 3}, Body: []hinit{{K: "attr", Name: "b", Lit: 4}, {K: "attr", Name: "c", Lit: 6, Trail: true}}}, {K: "attr", Name: "z", Lit: 8}},
			Ops: []*hop{{Op: hRemoveAttr, Root: hRootFile, Path: []int{0}, Name: "c"}, {Op: hSetVal, Root: hRootFile, Path: []int{0}, Name: "c", val: obj, Val: encVal(obj)},
				{Op: hRemoveAttr, Root: hRootFile, Name: "z"}, {Op: hRemoveBlock, Root: hRootFile, Blk: 0}, {Op: hAttach, Root: hRootFile, Blk: 0},
				hv1(hSetVal, "z", list), {Op: hRename, Root: hRootFile, Name: "a", To: "first"}}},
	}
}
