package main

// ceval — correspondence of the evaluator model (Eval/Impl.v) with
// hclsyntax expression evaluation.  Shared by C01, C05, C06, C07, C19, C20.

import (
	"fmt"
	"os"
	"strings"

	"github.com/hashicorp/hcl/v2"
	"github.com/hashicorp/hcl/v2/hclsyntax"
	"github.com/zclconf/go-cty/cty"
	"hclverif/hv"
)

func main() { hv.Main(map[string]func(*hv.RunCfg) error{"ceval": run}) }

func evalSafe(e hclsyntax.Expression, ctx *hcl.EvalContext) (v cty.Value, d hcl.Diagnostics, panicked any) {
	defer func() { panicked = recover() }()
	v, d = e.Value(ctx)
	return
}

// computedAttrNames: some object attribute name of the result may be computed from a value
// (object constructor key that is not a literal/keyword, or an object for-expression).
func computedAttrNames(e hclsyntax.Expression) bool {
	found := false
	hclsyntax.VisitAll(e, func(n hclsyntax.Node) hcl.Diagnostics {
		switch x := n.(type) {
		case *hclsyntax.ForExpr:
			if x.KeyExpr != nil {
				found = true
			}
		case *hclsyntax.ObjectConsKeyExpr:
			if !x.ForceNonLiteral && hcl.ExprAsKeyword(x.Wrapped) != "" {
				return nil
			}
			if t, ok := x.Wrapped.(*hclsyntax.TemplateExpr); ok && t.IsStringLiteral() {
				return nil
			}
			if _, ok := x.Wrapped.(*hclsyntax.LiteralValueExpr); ok {
				return nil
			}
			found = true
		}
		return nil
	})
	return found
}

var corpus = []string{
	`1 + 2 * 3`, `"a${1}b"`, `true ? 1 : "a"`, `[for v in [1,2,3] : v * 2 if v != 2]`,
	`{for k, v in {a = 1, b = 2} : v => k...}`, `[1,2,3][*]`, `null`, `!true || false && true`,
	`sum(1, 2, 3)`, `upper("abc")`, `first([1,2]...)`, `{a = 1}.a`, `[1,2][5]`, `{a = 1}["b"]`,
	`"x" == 1`, `1 / 0`, `5 % 3`, `-(1)`, `"${true}"`, `"%{ for x in [1,2] }${x}%{ endfor }"`,
	`"%{ if true }y%{ else }n%{ endif }"`, `null == null`, `[null][0]`, `{(null) = 1}`, `{"a" = 1, a = 2}`,
	`true ? null : 1`, `true ? [1] : ["a"]`, `fail("x")`, `nosuchfn(1)`, `pair("a", null)`, `isnull(null)`,
	`[for v in null : v]`, `[for v in 1 : v]`, `{for v in ["a","a"] : v => 1}`, `"a" + 1`, `"1" + 1`,
	`1 < "2"`, `null + 1`, `[1,2,3].0`, `"abc".x`, `[{a=1},{a=2}][*].a`, `[{a=1},{a=2}].*.a`, `null[*]`, `1[*]`,
}

func run(cfg *hv.RunCfg) error {
	rep := hv.NewReport("EVAL", cfg.Seed)
	rep.Rule = "typed generator: scopes of 1-3 context frames with variables of every cty kind (null, unknown with refinements, marked, nested), expression text mostly well-typed for the scope with deliberate ill-typed positions; parsed by hclsyntax.ParseExpression; non-trivial = parses and has at least one operator/traversal/call/template node; distinct by SHA-256 of (scope, text)"
	r := hv.NewRng(cfg.Seed, 101)
	cf := &hv.CaseFile{Dir: cfg.Out, Name: "evalcases",
		Imports: "From Coq Require Import QArith String.\nFrom HclV Require Import Base.Prelude Cty.Values Cty.Convert Cty.Ops Eval.Impl Eval.Funcs Eval.EvalCheck.",
		Ctype:   "ecase", Checker: "check_eval_cases", Extras: [][2]string{{"skipped", "skipped_eval_cases"}}}

	type job struct {
		text string
		ctx  *hcl.EvalContext
	}
	var jobs []job
	mk := func(u, m, n float64) *hv.EvalGen {
		g := hv.NewEvalGen(r)
		g.Unknowns, g.Marks, g.Nulls = u, m, n
		return g
	}
	if cfg.Replay != "" {
		b, err := os.ReadFile(cfg.Replay)
		if err != nil {
			return err
		}
		g := mk(0, 0, 0)
		jobs = append(jobs, job{string(b), g.GenScope()})
	} else {
		for _, c := range corpus {
			g := mk(0, 0, 0.02)
			jobs = append(jobs, job{c, g.GenScope()})
		}
		for i := 0; i < cfg.N; i++ {
			var g *hv.EvalGen
			switch r.Intn(4) {
			case 0:
				g = mk(0, 0, 0.03) // wholly known, unmarked (C01)
			case 1:
				g = mk(0.15, 0, 0.03) // unknowns (C05)
			case 2:
				g = mk(0, 0.2, 0.03) // marks (C06)
			default:
				g = mk(0.1, 0.1, 0.05)
			}
			ctx := g.GenScope()
			txt := g.GenTopExpr()
			for k, v := range g.Feat {
				rep.Histogram[k] += v
			}
			jobs = append(jobs, job{txt, ctx})
		}
	}
	for _, j := range jobs {
		expr, pd := hclsyntax.ParseExpression([]byte(j.text), "e.hcl", hcl.InitialPos)
		if pd.HasErrors() {
			rep.Hist("parse-error")
			rep.Evaluations++
			continue
		}
		v, diags, p := evalSafe(expr, j.ctx)
		if p != nil {
			rep.Fail(hv.Failure{Kind: "panic", Detail: fmt.Sprint(p), Input: j.text})
			continue
		}
		// evaluation is an observation: a second evaluation of the SAME expression object in the same
		// scope, and the expression itself (its AST dump), must be unchanged (no state kept in the tree)
		astBefore := hv.DumpExprS(expr)
		if v2, diags2, p2 := evalSafe(expr, j.ctx); p2 != nil || hv.DumpVal(v2) != hv.DumpVal(v) || hv.CoqDiagSummaries(diags2) != hv.CoqDiagSummaries(diags) {
			rep.Fail(hv.Failure{Kind: "evaluation-not-repeatable", Detail: fmt.Sprintf("first %s %s, second %s %s (panic %v)", hv.DumpVal(v), hv.CoqDiagSummaries(diags), hv.DumpVal(v2), hv.CoqDiagSummaries(diags2), p2), Input: j.text})
			continue
		}
		_ = hclsyntax.Variables(expr)
		if hv.DumpExprS(expr) != astBefore {
			rep.Fail(hv.Failure{Kind: "evaluation-mutates-expression", Detail: "the AST dump changed under Value/Variables", Input: j.text})
			continue
		}
		info := &hv.ValInfo{}
		ctxs := hv.CoqCtx(j.ctx, info)
		es := hv.CoqExpr(expr, info)
		vs := hv.CoqVal(v, info)
		mode := 0
		risk := hv.NumRisk(expr, j.ctx)
		if info.Inexact || risk == 1 {
			mode = 1
			rep.Hist("mode:type-only(inexact number)")
		}
		if mode == 1 && computedAttrNames(expr) {
			// type-only comparison is meaningless when the digits of an inexact number can
			// become an object attribute NAME (the name is part of the type): `{(1/3) = x}`
			mode = 2
			rep.Hist("mode:skipped(inexact number may become an attribute name)")
		}
		if risk == 2 {
			mode = 2
			rep.Hist("mode:skipped(infinity or division by zero)")
		}
		if info.Unsupported {
			mode = 2
			rep.Hist("mode:skipped(outside value universe)")
		}
		cf.Add(fmt.Sprintf("mkCase %s\n  %s\n  %d %s %s\n  %s", ctxs, es, mode, vs, hv.CoqDiagSummaries(diags), hv.CoqTraversals(expr.Variables(), info)))
		rep.Idx(j.text + "   ## ctx: " + strings.ReplaceAll(ctxs, "\n", " "))
		rep.Count(j.text+ctxs, len(j.text) > 3)
		if diags.HasErrors() {
			rep.Hist("result:error")
		} else if !v.IsWhollyKnown() {
			rep.Hist("result:unknown")
		} else {
			rep.Hist("result:known")
		}
		if len(j.text) < 80 {
			rep.Sample(j.text)
		}
	}
	names, err := cf.Flush(150)
	if err != nil {
		return err
	}
	rep.CaseFiles = names
	return rep.Write(cfg.Out)
}
