package main

// probe: scratch tool to replay model witnesses on the real evaluator.
import (
	"fmt"

	"github.com/hashicorp/hcl/v2"
	"github.com/hashicorp/hcl/v2/hclsyntax"
	"github.com/zclconf/go-cty/cty"
	"hclverif/hv"
)

func run(src string, vars map[string]cty.Value) {
	e, d := hclsyntax.ParseExpression([]byte(src), "p.hcl", hcl.InitialPos)
	if d.HasErrors() {
		fmt.Println("parse:", d)
		return
	}
	ctx := &hcl.EvalContext{Variables: vars, Functions: hv.HarnessFuncs}
	v, diags := e.Value(ctx)
	fmt.Printf("%-28s => %#v   diags=%v\n", src, v, diags)
}

func main() {
	m := func(v cty.Value) cty.Value { return v.Mark("s") }
	n := func(i int64) cty.Value { return cty.NumberIntVal(i) }
	for _, s := range []cty.Value{m(n(0)), m(n(5))} {
		run(`true || t[s]`, map[string]cty.Value{"t": cty.TupleVal([]cty.Value{cty.False}), "s": s})
		run(`true ? 1 : t[s]`, map[string]cty.Value{"t": cty.TupleVal([]cty.Value{n(7)}), "s": s})
	}
	for _, s := range []cty.Value{m(n(0)), m(n(1))} {
		run(`false ? [t[s]] : l`, map[string]cty.Value{"t": cty.TupleVal([]cty.Value{n(1), cty.StringVal("a")}), "l": cty.ListVal([]cty.Value{n(1), n(2)}), "s": s})
		run(`l[*][s]`, map[string]cty.Value{"l": cty.ListVal([]cty.Value{cty.TupleVal([]cty.Value{cty.StringVal("a"), n(1)})}), "s": s})
	}
	for _, s := range []cty.Value{m(cty.ListValEmpty(cty.Number)), m(cty.ListVal([]cty.Value{n(1)}))} {
		run(`sum(s...)`, map[string]cty.Value{"s": s})
	}
	for _, s := range []cty.Value{m(cty.NullVal(cty.Bool)), m(cty.True)} {
		run(`[for x in t : 1 if x]`, map[string]cty.Value{"t": cty.TupleVal([]cty.Value{cty.UnknownVal(cty.Bool), s})})
	}
	for _, s := range []cty.Value{m(cty.UnknownVal(cty.Number)), m(n(0))} {
		run(`l[t[s]]`, map[string]cty.Value{"t": cty.TupleVal([]cty.Value{n(0), n(1)}), "l": cty.ListVal([]cty.Value{n(10), n(20)}), "s": s})
	}
}
