package main

// probe: scratch tool to ask go-cty questions while calibrating the model.
import (
	"fmt"

	"github.com/zclconf/go-cty/cty"
	"github.com/zclconf/go-cty/cty/convert"
)

func main() {
	a := cty.Tuple([]cty.Type{cty.List(cty.Bool), cty.String, cty.DynamicPseudoType})
	b := cty.List(cty.DynamicPseudoType)
	t, _ := convert.UnifyUnsafe([]cty.Type{a, b})
	fmt.Printf("%#v\n", t)
	t, _ = convert.UnifyUnsafe([]cty.Type{cty.List(cty.Bool), cty.String, cty.DynamicPseudoType})
	fmt.Printf("%#v\n", t)
	fmt.Println(convert.GetConversionUnsafe(a, cty.List(cty.DynamicPseudoType)) != nil)
	t, _ = convert.UnifyUnsafe([]cty.Type{a})
	fmt.Printf("%#v\n", t)
}
