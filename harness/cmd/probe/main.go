package main

// probe: scratch tool to replay model witnesses on the real evaluator.
import (
	"fmt"

	"github.com/hashicorp/hcl/v2"
	"github.com/hashicorp/hcl/v2/hclsyntax"
	hcljson "github.com/hashicorp/hcl/v2/json"
	"github.com/zclconf/go-cty/cty"
	"hclverif/hv"
)

func run(src string, vars map[string]cty.Value) {
	e, d := hclsyntax.ParseExpression([]byte(src), "p.hcl", hcl.InitialPos)
	if d.HasErrors() {
		fmt.Println("parse:", d)
		return
	}
	ctx := &hcl.EvalContext{Variables: vars, Functions: hv.HarnessFuncs}
	v, diags := e.Value(ctx)
	fmt.Printf("%-28s => %#v   diags=%v\n", src, v, diags)
}

func main() {
	for _, t := range []string{"\"\\r'a$$${\"", "\"'a$$${\"", "\"\\ra$$${\"", "\"a\\r$$${\"", "\"\\n$$${\"", "\"\\r$${\"", "\"\\r%%%{\"", "\"\\r\\n$$${\""} {
		e, d := hcljson.ParseExpression([]byte(t), "p.json")
		if d.HasErrors() { fmt.Println(t, d); continue }
		v, dd := e.Value(&hcl.EvalContext{})
		fmt.Printf("%-20s => %#v %v\n", t, v, dd)
	}
	run("\"\\r$$${\"", nil)
	run("<<EOT\n\r$$${\nEOT\n", nil)
}
