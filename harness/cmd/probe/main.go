package main

// probe: scratch tool to replay model witnesses on the real evaluator.
import (
	"fmt"

	"github.com/hashicorp/hcl/v2"
	"github.com/hashicorp/hcl/v2/hclsyntax"
	"github.com/zclconf/go-cty/cty"
	"hclverif/hv"
)

func run(src string, vars map[string]cty.Value) {
	e, d := hclsyntax.ParseExpression([]byte(src), "p.hcl", hcl.InitialPos)
	if d.HasErrors() {
		fmt.Println("parse:", d)
		return
	}
	ctx := &hcl.EvalContext{Variables: vars, Functions: hv.HarnessFuncs}
	v, diags := e.Value(ctx)
	fmt.Printf("%-28s => %#v   diags=%v\n", src, v, diags)
}

func main() {
	for _, t := range []string{"a\r${x}", "${x}\r${x}", "\r%{if true}y%{endif}", "\r$$${", "\rabc\n$$${", "$\rX", "a$\r${x}", "\r\r", "a\r", "\r\n${x}"} {
		e, d := hclsyntax.ParseTemplate([]byte(t), "p.tmpl", hcl.InitialPos)
		if d.HasErrors() { fmt.Printf("%q parse: %v\n", t, d); continue }
		v, dd := e.Value(&hcl.EvalContext{Variables: map[string]cty.Value{"x": cty.StringVal("X")}})
		fmt.Printf("%-28q => %#v %v\n", t, v, dd)
	}
}
