package main

// probe: scratch tool to replay model witnesses on the real evaluator.
import (
	"fmt"

	"github.com/hashicorp/hcl/v2"
	"github.com/hashicorp/hcl/v2/hclsyntax"
	"github.com/zclconf/go-cty/cty"
	"hclverif/hv"
)

func run(src string, vars map[string]cty.Value) {
	e, d := hclsyntax.ParseExpression([]byte(src), "p.hcl", hcl.InitialPos)
	if d.HasErrors() {
		fmt.Println("parse:", d)
		return
	}
	ctx := &hcl.EvalContext{Variables: vars, Functions: hv.HarnessFuncs}
	v, diags := e.Value(ctx)
	fmt.Printf("%-28s => %#v   diags=%v\n", src, v, diags)
}

func main() {
	for _, st := range []cty.Value{cty.UnknownVal(cty.Set(cty.String)), cty.NullVal(cty.Set(cty.String))} {
		vars := map[string]cty.Value{"st": st}
		run("st.*.a", vars)
		run("false ? st.*.a : []", vars)
	}
}
