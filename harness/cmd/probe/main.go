package main

// probe: scratch tool to replay model witnesses on the real evaluator.
import (
	"fmt"

	"github.com/hashicorp/hcl/v2"
	"github.com/hashicorp/hcl/v2/hclsyntax"
	"github.com/zclconf/go-cty/cty"
	"hclverif/hv"
)

func run(src string, vars map[string]cty.Value) {
	e, d := hclsyntax.ParseExpression([]byte(src), "p.hcl", hcl.InitialPos)
	if d.HasErrors() {
		fmt.Println("parse:", d)
		return
	}
	ctx := &hcl.EvalContext{Variables: vars, Functions: hv.HarnessFuncs}
	v, diags := e.Value(ctx)
	fmt.Printf("%-28s => %#v   diags=%v\n", src, v, diags)
}

func main() {
	m := func(v cty.Value) cty.Value { return v.Mark("s") }
	n := func(i int64) cty.Value { return cty.NumberIntVal(i) }
	lt := cty.ListVal([]cty.Value{cty.TupleVal([]cty.Value{cty.StringVal("a"), n(1)})})
	mo := cty.ObjectVal(map[string]cty.Value{"a": n(1), "b": cty.StringVal("x")})
	for _, k := range []cty.Value{m(cty.UnknownVal(cty.String)), m(cty.StringVal("a"))} {
		vars := map[string]cty.Value{"lt": lt, "mo": mo, "k": k, "tp": cty.TupleVal([]cty.Value{cty.StringVal("a"), n(1)})}
		run(`mo[k]`, vars)
		run(`tp[mo[k]]`, vars)
		run(`lt[*][mo[k]]`, vars)
		run(`lt[0][mo[k]]`, vars)
		run(`[for x in lt : x[mo[k]]]`, vars)
	}
}
