package main

// C20, stand-alone traversal texts: an INDEPENDENT reference and the index-key stream.
//
// The oracle of standaloneCase compared the stand-alone traversal parsers with the expression
// parser only (two users of the same numberLitValue), and the generators spelled a numeric index
// key in a handful of ways (never a leading zero that changes the value in another base).
// This file adds
//   * refNumber / refTraversal: a reading of the traversal text written here from the grammar
//     (spec.md: NumericLit = decimal+ ("." decimal+)? (expmark decimal+)?, always base 10;
//     identifiers, attribute steps, number / quoted-string index keys, [*], legacy .N,
//     whitespace, newlines and comments anywhere between tokens). It shares no code with
//     hclsyntax and decides, from the text alone, acceptance by ParseTraversalAbs /
//     ParseTraversalPartial / the JSON static traversal / AbsTraversalForExpr(ParseExpression)
//     and the exact steps (names, key VALUES as rationals, NFC strings). Outside its fragment
//     (non-ASCII identifiers, control characters, exotic `$`/`%` runs) it says "unknown".
//   * refStandalone: (a) acceptance, (b) the steps of every traversal obtained from the text
//     against the reference, (c) each traversal applied to a scope with long lists against the
//     evaluation of the expression.
//   * numKeyText: a generator over the scope that spells index keys over the whole number
//     literal grammar (leading zeros, fractions, exponents, huge integers, near misses), legacy
//     indexes, string keys with escapes / template-looking content, whitespace and comments
//     inside brackets, splats.

import (
	"fmt"
	"math/big"
	"sort"
	"strings"
	"unicode/utf8"

	"github.com/hashicorp/hcl/v2"
	"github.com/hashicorp/hcl/v2/hclsyntax"
	"github.com/hashicorp/hcl/v2/json"
	"github.com/zclconf/go-cty/cty"
	"golang.org/x/text/unicode/norm"
	"hclverif/hv"
)

// ---- independent reading of a number literal -------------------------------------------------------

const (
	numNot     = 0 // not a number text
	numLenient = 1 // digits with an empty fraction ("1.", "1.e5"): outside spec.md, some float readers take it
	numSpec    = 2 // spec.md NumericLit
)

func isDigit(c byte) bool { return c >= '0' && c <= '9' }

// refNumber reads the WHOLE text s as a base-10 number literal, digit by digit.
// val == nil with class != numNot: the exponent is too large to expand here.
func refNumber(s string) (val *big.Rat, class int) {
	i := 0
	ten := big.NewInt(10)
	mant := new(big.Int)
	nInt := 0
	for i < len(s) && isDigit(s[i]) {
		mant.Mul(mant, ten).Add(mant, big.NewInt(int64(s[i]-'0')))
		i++
		nInt++
	}
	if nInt == 0 {
		return nil, numNot
	}
	class = numSpec
	nFrac := 0
	if i < len(s) && s[i] == '.' {
		i++
		for i < len(s) && isDigit(s[i]) {
			mant.Mul(mant, ten).Add(mant, big.NewInt(int64(s[i]-'0')))
			i++
			nFrac++
		}
		if nFrac == 0 {
			class = numLenient
		}
	}
	exp := 0
	if i < len(s) && (s[i] == 'e' || s[i] == 'E') {
		i++
		neg := false
		if i < len(s) && (s[i] == '+' || s[i] == '-') {
			neg = s[i] == '-'
			i++
		}
		nExp := 0
		for i < len(s) && isDigit(s[i]) {
			if exp < 1000000 {
				exp = exp*10 + int(s[i]-'0')
			}
			i++
			nExp++
		}
		if nExp == 0 {
			return nil, numNot
		}
		if neg {
			exp = -exp
		}
	}
	if i != len(s) {
		return nil, numNot
	}
	exp -= nFrac
	if exp > 5000 || exp < -5000 {
		return nil, class
	}
	val = new(big.Rat).SetInt(mant)
	if exp != 0 {
		p := new(big.Int).Exp(ten, big.NewInt(int64(abs(exp))), nil)
		if exp > 0 {
			val.Mul(val, new(big.Rat).SetInt(p))
		} else {
			val.Quo(val, new(big.Rat).SetInt(p))
		}
	}
	return val, class
}

func abs(n int) int {
	if n < 0 {
		return -n
	}
	return n
}

// numKeyMatches: is the cty number the value `want`? Exactly, when `want` has an exact binary
// representation in the 512 bits cty keeps; otherwise within 2^-500 relative (the decimal
// conversion of math/big is not promised to be correctly rounded).
func numKeyMatches(key cty.Value, want *big.Rat) (bool, string) {
	if key.IsMarked() || !key.IsKnown() || key.IsNull() || key.Type() != cty.Number {
		return false, "key is " + hv.DumpVal(key) + ", not a known number"
	}
	bf := key.AsBigFloat()
	if bf.IsInf() {
		return false, "key is infinite"
	}
	got, _ := bf.Rat(nil)
	if got.Cmp(want) == 0 {
		return true, ""
	}
	f := new(big.Float).SetPrec(512).SetMode(big.ToNearestEven).SetRat(want)
	if f.Acc() != big.Exact && want.Sign() != 0 {
		diff := new(big.Rat).Sub(got, want)
		diff.Abs(diff)
		tol := new(big.Rat).Abs(want)
		tol.Quo(tol, new(big.Rat).SetInt(new(big.Int).Lsh(big.NewInt(1), 500)))
		if diff.Cmp(tol) <= 0 {
			return true, ""
		}
	}
	return false, "key is " + hv.RatString(bf) + ", the literal denotes " + ratText(want)
}

func ratText(r *big.Rat) string {
	if r.IsInt() {
		return r.Num().String()
	}
	return r.RatString()
}

// ---- independent reading of a traversal text -------------------------------------------------------

const (
	refUnknown = iota
	refAccept
	refReject
)

type refStep struct {
	kind string   // root attr num str splat legacy
	name string   // root/attr name; value of a string key
	num  *big.Rat // num / legacy (nil: exponent too large to expand)
	text string   // the key as written
}

type refResult struct {
	status        int
	steps         []refStep
	splat, legacy bool
	lenient       bool // a number key outside spec.md ("1."): acceptance is not claimed, its value is
	why           string
}

type refP struct {
	s string
	i int
}

func (p *refP) eof() bool { return p.i >= len(p.s) }

// skip whitespace, newlines and comments; false: an unterminated /* comment
func (p *refP) skip() bool {
	for p.i < len(p.s) {
		c := p.s[p.i]
		switch {
		case c == ' ' || c == '\t' || c == '\n':
			p.i++
		case c == '#' || (c == '/' && p.i+1 < len(p.s) && p.s[p.i+1] == '/'):
			j := strings.IndexByte(p.s[p.i:], '\n')
			if j < 0 {
				p.i = len(p.s)
			} else {
				p.i += j + 1
			}
		case c == '/' && p.i+1 < len(p.s) && p.s[p.i+1] == '*':
			j := strings.Index(p.s[p.i+2:], "*/")
			if j < 0 {
				return false
			}
			p.i += j + 4
		default:
			return true
		}
	}
	return true
}

func isIdentStart(c byte) bool {
	return c == '_' || (c >= 'a' && c <= 'z') || (c >= 'A' && c <= 'Z')
}
func isIdentCont(c byte) bool { return isIdentStart(c) || isDigit(c) || c == '-' }

// ident reads an ASCII identifier; ok=false: none here; unk=true: touches a non-ASCII byte
func (p *refP) ident() (name string, ok, unk bool) {
	if p.eof() {
		return "", false, false
	}
	if p.s[p.i] >= 0x80 {
		return "", false, true
	}
	if !isIdentStart(p.s[p.i]) {
		return "", false, false
	}
	j := p.i
	for j < len(p.s) && isIdentCont(p.s[j]) {
		j++
	}
	if j < len(p.s) && p.s[j] >= 0x80 {
		return "", false, true
	}
	name = p.s[p.i:j]
	p.i = j
	return name, true, false
}

// numRun: the maximal run of number-ish / word characters starting at a digit ("0x10", "1e+5", "1_000", "1.5.2")
func (p *refP) numRun() string {
	j := p.i
	for j < len(p.s) {
		c := p.s[j]
		if isIdentStart(c) || isDigit(c) || c == '.' {
			j++
			continue
		}
		if (c == '+' || c == '-') && j > p.i+0 && (p.s[j-1] == 'e' || p.s[j-1] == 'E') && j+1 < len(p.s) && isDigit(p.s[j+1]) {
			j++
			continue
		}
		break
	}
	r := p.s[p.i:j]
	p.i = j
	return r
}

// quoted reads a quoted string literal after the opening quote. st: refAccept / refReject / refUnknown
func (p *refP) quoted() (val string, st int, why string) {
	var sb strings.Builder
	for {
		if p.eof() {
			return "", refReject, "unterminated string"
		}
		c := p.s[p.i]
		switch {
		case c == '"':
			p.i++
			return norm.NFC.String(sb.String()), refAccept, ""
		case c == '\n':
			return "", refUnknown, "newline in a quoted string"
		case c == '\\':
			if p.i+1 >= len(p.s) {
				return "", refUnknown, "backslash at the end"
			}
			e := p.s[p.i+1]
			p.i += 2
			switch e {
			case 'n':
				sb.WriteByte('\n')
			case 'r':
				sb.WriteByte('\r')
			case 't':
				sb.WriteByte('\t')
			case '"':
				sb.WriteByte('"')
			case '\\':
				sb.WriteByte('\\')
			case 'u', 'U':
				n := 4
				if e == 'U' {
					n = 8
				}
				if p.i+n > len(p.s) {
					return "", refReject, "short unicode escape"
				}
				var r rune
				for _, h := range []byte(p.s[p.i : p.i+n]) {
					var d byte
					switch {
					case isDigit(h):
						d = h - '0'
					case h >= 'a' && h <= 'f':
						d = h - 'a' + 10
					case h >= 'A' && h <= 'F':
						d = h - 'A' + 10
					default:
						return "", refReject, "short unicode escape"
					}
					r = r<<4 | rune(d)
				}
				p.i += n
				if r > 0x10FFFF || (r >= 0xD800 && r <= 0xDFFF) || r == 0 {
					return "", refUnknown, "escape of a non-scalar value"
				}
				sb.WriteRune(r)
			default:
				return "", refReject, "invalid escape"
			}
		case c == '$' || c == '%':
			k := 0
			for p.i+k < len(p.s) && p.s[p.i+k] == c {
				k++
			}
			brace := p.i+k < len(p.s) && p.s[p.i+k] == '{'
			switch {
			case !brace:
				sb.WriteString(p.s[p.i : p.i+k])
				p.i += k
			case k == 1:
				return "", refReject, "template sequence in a key"
			case k == 2:
				sb.WriteByte(c)
				sb.WriteByte('{')
				p.i += 3
			default:
				return "", refUnknown, "run of three or more $ / % before a brace"
			}
		default:
			r, n := utf8.DecodeRuneInString(p.s[p.i:])
			sb.WriteRune(r)
			p.i += n
		}
	}
}

func refTraversal(src string) (res refResult) {
	unknown := func(why string) refResult { res.status, res.why = refUnknown, why; return res }
	reject := func(why string) refResult { res.status, res.why = refReject, why; return res }
	if !utf8.ValidString(src) {
		return unknown("invalid UTF-8")
	}
	for i := 0; i < len(src); i++ {
		if c := src[i]; (c < 0x20 && c != '\t' && c != '\n') || c == 0x7f {
			return unknown("control character")
		}
	}
	p := &refP{s: src}
	// "reject"/"unknown" for a byte where a token was expected
	bad := func(what string) refResult {
		if !p.eof() && p.s[p.i] >= 0x80 {
			return unknown("non-ASCII character outside a string")
		}
		return reject(what)
	}
	if !p.skip() {
		return unknown("unterminated comment")
	}
	name, ok, unk := p.ident()
	if unk {
		return unknown("non-ASCII identifier")
	}
	if !ok {
		return bad("no root name")
	}
	res.steps = append(res.steps, refStep{kind: "root", name: name})
	for {
		if !p.skip() {
			return unknown("unterminated comment")
		}
		if p.eof() {
			res.status = refAccept
			return res
		}
		switch c := p.s[p.i]; {
		case c == '.':
			p.i++
			if !p.skip() {
				return unknown("unterminated comment")
			}
			if p.eof() {
				return reject("dot at the end")
			}
			switch c2 := p.s[p.i]; {
			case isDigit(c2):
				// legacy index: expression parser only
				j := p.i
				for j < len(p.s) && isDigit(p.s[j]) {
					j++
				}
				// a number token may go on with an exponent (a.1e1 is a[10])
				if k := j; k < len(p.s) && (p.s[k] == 'e' || p.s[k] == 'E') {
					k++
					if k < len(p.s) && (p.s[k] == '+' || p.s[k] == '-') {
						k++
					}
					k0 := k
					for k < len(p.s) && isDigit(p.s[k]) {
						k++
					}
					if k > k0 {
						j = k
					}
				}
				digits := p.s[p.i:j]
				switch {
				case j == len(p.s) || strings.IndexByte(" \t\n[#/", p.s[j]) >= 0:
				case p.s[j] == '.' && j+1 < len(p.s) && isDigit(p.s[j+1]):
					res.legacy = true
					return reject("chained legacy index")
				case p.s[j] == '.':
				default:
					return unknown("legacy index followed by a word character")
				}
				v, _ := refNumber(digits)
				res.legacy = true
				res.steps = append(res.steps, refStep{kind: "legacy", num: v, text: digits})
				p.i = j
			case c2 == '*':
				return reject("attribute splat")
			default:
				n, ok, unk := p.ident()
				if unk {
					return unknown("non-ASCII identifier")
				}
				if !ok {
					return bad("no attribute name after the dot")
				}
				res.steps = append(res.steps, refStep{kind: "attr", name: n})
			}
		case c == '[':
			p.i++
			if !p.skip() {
				return unknown("unterminated comment")
			}
			if p.eof() {
				return reject("bracket at the end")
			}
			switch c2 := p.s[p.i]; {
			case isDigit(c2):
				run := p.numRun()
				if !p.eof() && p.s[p.i] >= 0x80 {
					return unknown("non-ASCII character after a number")
				}
				v, class := refNumber(run)
				if class == numNot {
					return reject("not a number literal: " + run)
				}
				if class == numLenient {
					res.lenient = true
				}
				res.steps = append(res.steps, refStep{kind: "num", num: v, text: run})
			case c2 == '"':
				p.i++
				v, st, why := p.quoted()
				if st == refUnknown {
					return unknown(why)
				}
				if st == refReject {
					return reject(why)
				}
				res.steps = append(res.steps, refStep{kind: "str", name: v})
			case c2 == '*':
				p.i++
				res.splat = true
				res.steps = append(res.steps, refStep{kind: "splat"})
			default:
				return bad("neither a number nor a quoted string nor * in brackets")
			}
			if !p.skip() {
				return unknown("unterminated comment")
			}
			if p.eof() || p.s[p.i] != ']' {
				return bad("no closing bracket after the key")
			}
			p.i++
		default:
			return bad("neither a dot nor a bracket after a step")
		}
	}
}

// cmpSteps: the traversal against the reference steps. keyProblem: the structure agrees, a key VALUE does not.
func cmpSteps(tr hcl.Traversal, ref []refStep) (problem string, keyProblem bool) {
	if len(tr) != len(ref) {
		return fmt.Sprintf("%d steps, the text has %d", len(tr), len(ref)), false
	}
	for i, rs := range ref {
		switch rs.kind {
		case "root":
			st, ok := tr[i].(hcl.TraverseRoot)
			if !ok || st.Name != rs.name {
				return fmt.Sprintf("step %d is not the root %q", i, rs.name), false
			}
		case "attr":
			st, ok := tr[i].(hcl.TraverseAttr)
			if !ok || st.Name != rs.name {
				return fmt.Sprintf("step %d is not the attribute %q", i, rs.name), false
			}
		case "splat":
			if _, ok := tr[i].(hcl.TraverseSplat); !ok {
				return fmt.Sprintf("step %d is not a splat", i), false
			}
		case "str":
			st, ok := tr[i].(hcl.TraverseIndex)
			if !ok {
				return fmt.Sprintf("step %d is not an index", i), false
			}
			k := st.Key
			if k.IsMarked() || !k.IsKnown() || k.IsNull() || k.Type() != cty.String || k.AsString() != rs.name {
				return fmt.Sprintf("step %d: key is %s, the text says the string %q", i, hv.DumpVal(k), rs.name), true
			}
		case "num", "legacy":
			st, ok := tr[i].(hcl.TraverseIndex)
			if !ok {
				return fmt.Sprintf("step %d is not an index", i), false
			}
			if rs.num == nil {
				continue
			}
			if ok, why := numKeyMatches(st.Key, rs.num); !ok {
				return fmt.Sprintf("step %d, key written %s: %s", i, rs.text, why), true
			}
		}
	}
	return "", false
}

// keyTextOf: the text between the brackets of an index step (by its source range), without
// whitespace and comments. Used where the reference does not cover the whole text.
func keyTextOf(src string, rng hcl.Range) (string, bool) {
	if rng.Start.Byte < 0 || rng.End.Byte > len(src) || rng.Start.Byte >= rng.End.Byte {
		return "", false
	}
	s := src[rng.Start.Byte:rng.End.Byte]
	if len(s) < 2 || s[0] != '[' || s[len(s)-1] != ']' {
		return "", false
	}
	p := &refP{s: s[1 : len(s)-1]}
	if !p.skip() || p.eof() || !isDigit(p.s[p.i]) {
		return "", false
	}
	run := p.numRun()
	if !p.skip() || !p.eof() {
		return "", false
	}
	return run, true
}

// ---- the scope the traversals are applied to -----------------------------------------------------------

func numList(n int, f func(i int) int64) cty.Value {
	vs := make([]cty.Value, n)
	for i := range vs {
		vs[i] = cty.NumberIntVal(f(i))
	}
	return cty.ListVal(vs)
}

func numKeyScope() *hcl.EvalContext {
	items := numList(1100, func(i int) int64 { return int64(i) })
	a := numList(1100, func(i int) int64 { return int64(3*i + 1) })
	rows := make([]cty.Value, 12)
	objs := make([]cty.Value, 12)
	for i := range rows {
		i := i
		rows[i] = numList(12, func(j int) int64 { return int64(100*i + j) })
		objs[i] = cty.ObjectVal(map[string]cty.Value{
			"v": cty.NumberIntVal(int64(i)),
			"l": numList(12, func(j int) int64 { return int64(1000 + 100*i + j) }),
			"s": cty.StringVal(fmt.Sprintf("b%d", i)),
		})
	}
	grid := cty.ListVal(rows)
	mv := map[string]cty.Value{}
	for k := 0; k <= 40; k++ {
		mv[fmt.Sprint(k)] = cty.NumberIntVal(int64(7 * k))
	}
	for i, k := range []string{"a", "b", "k", "x y", "010", "1.5", "0.5", "100", "1000", "08", "é"} {
		mv[k] = cty.NumberIntVal(int64(-1 - i))
	}
	m := cty.MapVal(mv)
	t := cty.TupleVal([]cty.Value{
		cty.StringVal("t0"), cty.NumberIntVal(1), cty.True, cty.StringVal("t3"), cty.NumberIntVal(4), cty.False,
		cty.StringVal("t6"), cty.NumberIntVal(7), cty.ListVal([]cty.Value{cty.NumberIntVal(70), cty.NumberIntVal(71)}), cty.StringVal("t9"),
		cty.ObjectVal(map[string]cty.Value{"k": cty.StringVal("t10")}), cty.NumberIntVal(11),
	})
	foo := cty.ObjectVal(map[string]cty.Value{
		"items": items, "name": cty.StringVal("foo"), "grid": grid, "mp": m, "tp": t, "a-b": cty.StringVal("dash"), "k": cty.StringVal("kk"), "b": cty.ListVal(objs),
	})
	return &hcl.EvalContext{Variables: map[string]cty.Value{
		"foo": foo, "a": a, "b": cty.ListVal(objs), "m": m, "t": t, "name": foo, "x1": grid, "_": items,
	}}
}

func (x *runner) numScope() *hcl.EvalContext {
	if x.nk == nil {
		x.nk = numKeyScope()
	}
	return x.nk
}

// ---- the oracle ------------------------------------------------------------------------------------------

func (x *runner) refStandalone(src, input string, ta hcl.Traversal, da hcl.Diagnostics, tp hcl.Traversal, dp hcl.Diagnostics,
	e hclsyntax.Expression, de hcl.Diagnostics, et hcl.Traversal, etd hcl.Diagnostics) {
	ref := refTraversal(src)
	switch ref.status {
	case refAccept:
		x.rep.Hist("standalone:ref:accept")
	case refReject:
		x.rep.Hist("standalone:ref:reject")
	default:
		x.rep.Hist("standalone:ref:outside-the-reference(" + ref.why + ")")
	}
	if ref.lenient {
		x.rep.Hist("standalone:ref:number-outside-spec-grammar")
	}
	absOK, partOK := !da.HasErrors(), !dp.HasErrors()
	exprOK := !de.HasErrors() && !etd.HasErrors()

	// the JSON syntax: a string viewed statically
	var jt hcl.Traversal
	jsonTried, jsonOK := false, false
	if utf8Valid(src) {
		if je, jd := json.ParseExpression(jsonString(src), "t.json"); !jd.HasErrors() {
			jsonTried = true
			var jtd hcl.Diagnostics
			if p := guard(func() { jt, jtd = hcl.AbsTraversalForExpr(je) }); p != nil {
				x.fail("panic", fmt.Sprint("AbsTraversalForExpr of a JSON string panicked: ", p), input, nil)
				return
			}
			jsonOK = !jtd.HasErrors()
		}
	}

	// (a) acceptance, decided from the text
	if ref.status != refUnknown && !ref.lenient {
		acc := ref.status == refAccept
		wantAbs := acc && !ref.splat && !ref.legacy
		wantPart := acc && !ref.legacy
		verdict := func(b bool) string {
			if b {
				return "accepts"
			}
			return "rejects"
		}
		why := ""
		if ref.why != "" {
			why = " (" + ref.why + ")"
		}
		if absOK != wantAbs {
			x.fail("standalone-acceptance-differs-from-reference", "ParseTraversalAbs "+verdict(absOK)+" the text; read from the grammar it "+verdict(wantAbs)+why+" "+da.Error(), input, nil)
		}
		if partOK != wantPart {
			x.fail("standalone-acceptance-differs-from-reference", "ParseTraversalPartial "+verdict(partOK)+" the text; read from the grammar it "+verdict(wantPart)+why+" "+dp.Error(), input, nil)
		}
		if jsonTried && jsonOK != wantAbs {
			x.fail("json-traversal-differs", "the static traversal of the JSON string "+verdict(jsonOK)+" the text; read from the grammar it "+verdict(wantAbs)+why, input, nil)
		}
		if acc && !ref.splat && !exprOK {
			x.fail("standalone-acceptance-differs-from-reference", "the text is a traversal by the grammar; as an expression it has no static traversal: "+de.Error()+" "+etd.Error(), input, nil)
		}
	}

	// (b) the steps, with key values read from the digits
	if ref.status == refAccept {
		check := func(who string, tr hcl.Traversal) {
			if problem, keyProblem := cmpSteps(tr, ref.steps); problem != "" {
				kind := "standalone-steps-differ-from-reference"
				if keyProblem {
					kind = "traversal-key-value-differs-from-literal"
				}
				x.fail(kind, who+": "+hv.DumpTraversal(tr)+": "+problem, input, nil)
			}
		}
		if absOK {
			check("ParseTraversalAbs", ta)
		}
		if partOK {
			check("ParseTraversalPartial", tp)
		}
		if jsonOK {
			check("static traversal of the JSON string", jt)
		}
		if exprOK && !ref.splat {
			check("AbsTraversalForExpr(ParseExpression)", et)
		}
	} else if ref.status == refUnknown {
		// where the reference does not read the whole text: every number key against its own digits
		for _, c := range []struct {
			who string
			ok  bool
			tr  hcl.Traversal
		}{{"ParseTraversalAbs", absOK, ta}, {"ParseTraversalPartial", partOK, tp}} {
			if !c.ok {
				continue
			}
			for i, st := range c.tr {
				ix, isIx := st.(hcl.TraverseIndex)
				if !isIx || ix.Key.IsMarked() || !ix.Key.IsKnown() || ix.Key.IsNull() || ix.Key.Type() != cty.Number {
					continue
				}
				txt, ok := keyTextOf(src, ix.SrcRange)
				if !ok {
					x.rep.Hist("standalone:ref:key-text-not-found")
					continue
				}
				v, class := refNumber(txt)
				if class == numNot {
					x.fail("traversal-key-value-differs-from-literal", fmt.Sprintf("%s step %d: the key %s is written %q, which is not a decimal number literal", c.who, i, hv.DumpVal(ix.Key), txt), input, nil)
				} else if v != nil {
					if ok, why := numKeyMatches(ix.Key, v); !ok {
						x.fail("traversal-key-value-differs-from-literal", fmt.Sprintf("%s step %d, key written %s: %s", c.who, i, txt, why), input, nil)
					}
				}
			}
		}
	}

	// (c) every traversal of the text applied to the scope against the evaluation of the expression
	if de.HasErrors() || etd.HasErrors() || shapeOf(e) != "plain" {
		return
	}
	sc := x.numScope()
	var ev cty.Value
	var edg hcl.Diagnostics
	if p := guard(func() { ev, edg = e.Value(sc) }); p != nil {
		x.fail("panic", fmt.Sprint("Value panicked: ", p), input, nil)
		return
	}
	apply := func(who string, tr hcl.Traversal) {
		var tv cty.Value
		var tdg hcl.Diagnostics
		if p := guard(func() { tv, tdg = tr.TraverseAbs(sc) }); p != nil {
			x.fail("panic", fmt.Sprint(who, ": TraverseAbs panicked: ", p), input, nil)
			return
		}
		if hv.DumpVal(tv) != hv.DumpVal(ev) || tdg.HasErrors() != edg.HasErrors() {
			x.fail("standalone-apply-differs-from-evaluation", fmt.Sprintf("%s %s applied to the scope gives %s (errors %v); the expression evaluates to %s (errors %v)",
				who, hv.DumpTraversal(tr), short(hv.DumpVal(tv)), tdg.HasErrors(), short(hv.DumpVal(ev)), edg.HasErrors()), input, nil)
		}
	}
	if edg.HasErrors() {
		x.rep.Hist("standalone:apply-vs-eval:error")
	} else {
		x.rep.Hist("standalone:apply-vs-eval:value")
	}
	apply("AbsTraversalForExpr(ParseExpression)", et)
	if absOK {
		apply("ParseTraversalAbs", ta)
	}
	if partOK && !hasSplat(tp) {
		apply("ParseTraversalPartial", tp)
	}
	if jsonOK {
		apply("static traversal of the JSON string", jt)
	}
}

func short(s string) string {
	if len(s) > 160 {
		return s[:160] + "…"
	}
	return s
}

// ---- generator: index keys over the number-literal grammar ---------------------------------------------

var handNumKey = []string{
	`foo.items[010]`, `a[0017]`, "foo\n.items[\n0777\n]", `a[08]`, `a[00]`, `a[1.0]`, `a[1.50]`, `a[1e1]`, `a[1E+2]`, `a[10e-1]`, `a[0.1e1]`,
	`a[9223372036854775808]`, `a[9007199254740993]`, `a[18446744073709551616.0]`, `a[0x10]`, `a[0b1]`, `a[0o7]`, `a[1_000]`, `a[1.]`, `a[.5]`, `a[+1]`, `a[1e]`,
	`a.010`, `a.08`, `a.1e1`, `a.0.b`, `a.0.1`, `x1[010][011]`, `m[010]`, `m["010"]`, `t[ /* c */ 010 # d` + "\n]", `b[*].l[010]`, `b[011].l[ 010 ]`, `a[1.e1]`, `a[010.0]`, `a[0010e0]`,
}

func allOctalDigits(s string) bool {
	for i := 0; i < len(s); i++ {
		if s[i] < '0' || s[i] > '7' {
			return false
		}
	}
	return true
}

// wholeSpelling spells the whole number i as a number literal.
func (g *gen) wholeSpelling(i int) string {
	d := fmt.Sprint(i)
	zeros := func() string { return strings.Repeat("0", 1+g.r.Intn(3)) }
	switch k := g.r.Intn(100); {
	case k < 30:
		g.f("numkey:plain")
		return d
	case k < 58:
		g.f("numkey:leading-zero")
		if i >= 8 && allOctalDigits(d) {
			g.f("numkey:leading-zero:value-differs-in-base-8")
		}
		return zeros() + d
	case k < 68:
		g.f("numkey:fraction-zero")
		return d + "." + strings.Repeat("0", 1+g.r.Intn(3))
	case k < 84:
		g.f("numkey:exponent")
		switch g.r.Intn(7) {
		case 0:
			return d + g.r.Pick("e0", "E0", "e+0", "E-0", "e00")
		case 1:
			return d + "0" + g.r.Pick("e-1", "E-1", "e-01")
		case 2:
			return d + "00" + g.r.Pick("e-2", "E-02")
		case 3:
			if i > 0 && i%10 == 0 {
				return fmt.Sprint(i/10) + g.r.Pick("e1", "E1", "e+1", "E+01")
			}
			return d + ".0e0"
		case 4:
			// d1.d2…e(n-1)
			if len(d) > 1 {
				return d[:1] + "." + d[1:] + g.r.Pick("e", "E", "e+") + fmt.Sprint(len(d)-1)
			}
			return d + ".0E0"
		case 5:
			return "0." + d + g.r.Pick("e", "E+", "e0") + fmt.Sprint(len(d))
		default:
			return d + ".00" + g.r.Pick("e0", "E+0")
		}
	default:
		g.f("numkey:leading-zero+fraction/exponent")
		if i >= 8 && allOctalDigits(d) {
			g.f("numkey:leading-zero:value-differs-in-base-8")
		}
		return zeros() + d + g.r.Pick(".0", "e0", ".00", "E+0", ".0e0")
	}
}

func (g *gen) digits(n int) string {
	b := make([]byte, n)
	for i := range b {
		b[i] = byte('0' + g.r.Intn(10))
	}
	return string(b)
}

// wildNumber: a literal from the number grammar without regard to what it indexes
func (g *gen) wildNumber() string {
	g.f("numkey:wild-number")
	var ip string
	switch g.r.Intn(10) {
	case 0, 1, 2:
		ip = g.r.Pick("0", "00", "1", "7", "08", "09", "010", "0017", "0777", "012", "12", "255", "0255", "999", "0100", "0o", "07")
		if ip == "0o" {
			ip = "0"
		}
	case 3, 4:
		ip = g.digits(1 + g.r.Intn(4))
	case 5:
		ip = "0" + g.digits(1+g.r.Intn(3))
	case 6, 7:
		g.f("numkey:big-integer")
		ip = g.r.Pick("9223372036854775807", "9223372036854775808", "18446744073709551615", "18446744073709551616", "9007199254740992", "9007199254740993",
			"340282366920938463463374607431768211456", "4294967296", "2147483648", "09223372036854775808", "13407807929942597099574024998205846127479365820592393377723561443721764030073546976801874298166903427690031858186486050853753882811946569946433649006084097")
	case 8:
		g.f("numkey:big-integer")
		ip = g.digits(20 + g.r.Intn(30))
	default:
		g.f("numkey:big-integer")
		ip = g.digits(150 + g.r.Intn(40))
	}
	fp := ""
	if g.r.Chance(0.4) {
		g.f("numkey:fraction")
		fp = "." + g.r.Pick("0", "5", "50", "000", "25", "125", "0001", "1", "9", g.digits(1+g.r.Intn(6)))
	}
	ep := ""
	if g.r.Chance(0.35) {
		g.f("numkey:exponent")
		ep = g.r.Pick("e", "E") + g.r.Pick("", "+", "-") + g.r.Pick("0", "1", "2", "01", "3", "10", "17", "30", "308", "400", "1", "2")
	}
	return ip + fp + ep
}

var numNearMisses = []string{
	"0x10", "0X1F", "0x", "0b1", "0b", "0o7", "0O17", "1_000", "1_0", "0_1", "1__0", "1.", "0.", "1.e1", ".5", "+1", "-1", "- 1", "+010", "-010",
	"1e", "1e+", "1E-", "1.5.2", "1..2", "1e1.5", "1e1e1", "00x1", "1f", "1d", "1L", "0e0", "１", "٣", "1 2", "1,2", "1e+ 1", "0 x10", "1.0.", "1 .5", "1. 5",
	"010x", "0x010", "1e0x1", "0.0.0", "1e 1", "1 e1", "1'000", "0b102", "08.", "08.e0",
}

func (g *gen) bracket(key string) string {
	switch g.r.Intn(20) {
	case 0:
		g.f("numkey:whitespace-in-brackets")
		return "[ " + key + " ]"
	case 1:
		g.f("numkey:newline-in-brackets")
		return "[\n" + key + "\n]"
	case 2:
		g.f("numkey:whitespace-in-brackets")
		return "[\t" + key + "]"
	case 3:
		g.f("numkey:comment-in-brackets")
		return "[ /* c */ " + key + "]"
	case 4:
		g.f("numkey:comment-in-brackets")
		return "[" + key + " # c\n]"
	case 5:
		g.f("numkey:comment-in-brackets")
		return "[// 0x10\n" + key + "/*]*/]"
	case 6:
		g.f("numkey:newline-in-brackets")
		return "[\n\n  " + key + "]"
	}
	return "[" + key + "]"
}

var numStrKeys = []string{
	`a\nb`, `\t`, `\"q\"`, `\\`, `\u00e9`, `\U0001F600`, "\u00e9", "e\u0301", `e\u0301`, `$${x}`, `%%{x}`, `$`, `%`, `$$`, `%%`, `$x`, `100%`, `${x}`, `%{if x}`, `$${`, `\x`, `\u12`,
	`a$${b}c%%{d}`, `0`, `010`, `1.0`, ` 1`, `08`, `1e1`, `x y`, ``, `é`, `é`, `$$$`, `%%%{`, `\U00110000`, `\ud800`, `a]`, `[0]`, `*`,
}

func sortedVarNames(m map[string]cty.Value) []string {
	ks := make([]string, 0, len(m))
	for k := range m {
		ks = append(ks, k)
	}
	sort.Strings(ks)
	return ks
}

// numKeyStep: a step into v (cty.NilVal: nothing known), and the value after it
func (g *gen) numKeyStep(v cty.Value) (string, cty.Value) {
	wild := v.Type() == cty.NilType || g.r.Chance(0.10)
	if !wild {
		ty := v.Type()
		switch {
		case ty.IsListType() || ty.IsTupleType():
			n := v.LengthInt()
			if n == 0 {
				break
			}
			var i int
			switch k := g.r.Intn(100); {
			case k < 40:
				i = g.r.Intn(min(n, 12))
			case k < 75:
				i = g.r.Intn(min(n, 100))
			case k < 95:
				i = g.r.Intn(n)
			default:
				i = n + g.r.Intn(4)
			}
			next := cty.NilVal
			if i < n {
				next = v.Index(cty.NumberIntVal(int64(i)))
			}
			switch k := g.r.Intn(100); {
			case k < 8:
				g.f("numkey:legacy-index")
				if g.r.Chance(0.5) {
					g.f("numkey:legacy-index:leading-zero")
					return ".0" + fmt.Sprint(i), next
				}
				return "." + g.r.Pick("", " ") + fmt.Sprint(i), next
			case k < 12:
				g.f("numkey:string-key-digits")
				return g.bracket(`"` + fmt.Sprint(i) + `"`), next
			case k < 16:
				g.f("numkey:splat")
				return g.r.Pick("[*]", "[*]", "[ * ]", "[\n*\n]", ".*"), v.Index(cty.NumberIntVal(0))
			}
			return g.bracket(g.wholeSpelling(i)), next
		case ty.IsMapType():
			keys := sortedVarNames(v.AsValueMap())
			if len(keys) == 0 {
				break
			}
			k := keys[g.r.Intn(len(keys))]
			next := v.Index(cty.StringVal(k))
			_, class := refNumber(k)
			switch {
			case class == numSpec && k[0] != '0' && !strings.ContainsAny(k, ".eE") && g.r.Chance(0.7):
				// a map key that is the canonical text of a whole number: index by number
				var i int
				fmt.Sscan(k, &i)
				g.f("numkey:map-by-number")
				return g.bracket(g.wholeSpelling(i)), next
			case class == numSpec && g.r.Chance(0.5):
				g.f("numkey:map-by-number")
				return g.bracket(k), cty.NilVal
			case hclsyntaxIdent(k) && g.r.Chance(0.4):
				return "." + k, next
			}
			g.f("numkey:string-key")
			return g.bracket(`"` + k + `"`), next
		case ty.IsObjectType():
			names := hv.SortedKeys(ty.AttributeTypes())
			if len(names) == 0 {
				break
			}
			n := names[g.r.Intn(len(names))]
			if g.r.Chance(0.7) {
				return "." + n, v.GetAttr(n)
			}
			g.f("numkey:string-key")
			return g.bracket(`"` + n + `"`), v.GetAttr(n)
		}
	}
	switch k := g.r.Intn(100); {
	case k < 45:
		return g.bracket(g.wildNumber()), cty.NilVal
	case k < 65:
		g.f("numkey:near-miss")
		return g.bracket(numNearMisses[g.r.Intn(len(numNearMisses))]), cty.NilVal
	case k < 82:
		g.f("numkey:string-key-escapes/template-like")
		return g.bracket(`"` + numStrKeys[g.r.Intn(len(numStrKeys))] + `"`), cty.NilVal
	case k < 88:
		g.f("numkey:legacy-index")
		return "." + g.r.Pick("0", "00", "010", "08", "1e1", "0.1", "1.5", "0x1", "12", "0777", "1_0"), cty.NilVal
	case k < 93:
		g.f("numkey:splat")
		return g.r.Pick("[*]", ".*", "[ *]", "[*"), cty.NilVal
	default:
		return "." + attrNames[g.r.Intn(len(attrNames))], cty.NilVal
	}
}

func hclsyntaxIdent(s string) bool {
	if s == "" || !isIdentStart(s[0]) {
		return false
	}
	for i := 1; i < len(s); i++ {
		if !isIdentCont(s[i]) {
			return false
		}
	}
	return true
}

// numKeyText: a traversal text over the numKeyScope variables whose index keys range over the
// number-literal grammar.
func (g *gen) numKeyText(sc *hcl.EvalContext) string {
	g.f("numkey:texts")
	var sb strings.Builder
	names := sortedVarNames(sc.Variables)
	root := names[g.r.Intn(len(names))]
	v := sc.Variables[root]
	switch g.r.Intn(25) {
	case 0:
		root, v = g.r.Pick("nosuch", "for", "in", "a-b", "A_B"), cty.NilVal
	case 1:
		root, v = g.r.Pick("true", "false", "null"), cty.NilVal
	}
	if g.r.Chance(0.05) {
		sb.WriteString(g.r.Pick(" ", "\n", "/* c */", "# c\n"))
	}
	sb.WriteString(root)
	n := 1 + g.r.Small(4)
	for i := 0; i < n; i++ {
		st, nv := g.numKeyStep(v)
		sb.WriteString(g.sep())
		sb.WriteString(st)
		v = nv
	}
	if g.r.Chance(0.05) {
		sb.WriteString(g.r.Pick(" ", "\n", " # c", "/* c */"))
	}
	return sb.String()
}
