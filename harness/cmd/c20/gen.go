package main

// Generators for C20: traversal-shaped expression texts for a scope, texts for the
// stand-alone traversal parsers, tuple/object/call expressions (native and JSON),
// cty types of the type-constraint language and type-expression texts.

import (
	"fmt"
	"sort"
	"strings"

	"github.com/zclconf/go-cty/cty"
	"hclverif/hv"
)

type gen struct {
	r    *hv.Rng
	feat map[string]int
}

func (g *gen) f(s string) { g.feat[s]++ }

// ---- traversal-shaped expressions ---------------------------------------------------

var attrNames = []string{"a", "b", "k", "name", "x", "zz", "a-b", "ünï", "for", "null"}
var strKeys = []string{"a", "b", "k", "name", "x y", "0", "1", "ü", "", "true", `q\"t`, `n\nl`, "$${x}", "é"}
var numKeys = []string{"0", "1", "2", "5", "0.5", "1e0", "10", "1.0", "007"}

// sep returns optional whitespace / newline / comment between traversal steps.
func (g *gen) sep() string {
	switch g.r.Intn(12) {
	case 0:
		g.f("trav:newline-between-steps")
		return "\n"
	case 1:
		g.f("trav:newline-between-steps")
		return "\n  "
	case 2:
		return " "
	case 3:
		g.f("trav:comment-between-steps")
		return " /* c */ "
	case 4:
		g.f("trav:comment-between-steps")
		g.f("trav:newline-between-steps")
		return " # c\n"
	}
	return ""
}

// root picks a root for a traversal in the scope vars.
func (g *gen) root(vars map[string]cty.Value, wantColl bool) string {
	switch g.r.Intn(20) {
	case 0:
		g.f("trav:root-keyword")
		return g.r.Pick("true", "false", "null")
	case 1:
		g.f("trav:root-undefined")
		return g.r.Pick("nosuch", "for", "if", "in", "ünï", "a-b", "_")
	}
	var cands []string
	for n, v := range vars {
		ty := v.Type()
		if !wantColl || ty.IsListType() || ty.IsMapType() || ty.IsTupleType() || ty.IsObjectType() || ty == cty.DynamicPseudoType {
			cands = append(cands, n)
		}
	}
	if len(cands) == 0 {
		for n := range vars {
			cands = append(cands, n)
		}
	}
	if len(cands) == 0 {
		return "nosuch"
	}
	sort.Strings(cands)
	return cands[g.r.Intn(len(cands))]
}

// stepFor returns a step text suited to the (statically known) type, and the type after it.
func (g *gen) stepFor(ty cty.Type) (string, cty.Type) {
	next := cty.DynamicPseudoType
	if g.r.Chance(0.12) {
		// a step chosen without regard to the type
		ty = cty.DynamicPseudoType
	}
	switch {
	case ty.IsObjectType():
		names := hv.SortedKeys(ty.AttributeTypes())
		if len(names) > 0 && g.r.Chance(0.85) {
			n := names[g.r.Intn(len(names))]
			next = ty.AttributeType(n)
			if g.r.Chance(0.6) {
				g.f("trav:step-attr")
				return "." + n, next
			}
			g.f("trav:step-index-string")
			return `["` + n + `"]`, next
		}
	case ty.IsMapType():
		next = ty.ElementType()
		k := g.r.Pick("a", "b", "k", "x y", "0", "1")
		if g.r.Chance(0.4) && !strings.Contains(k, " ") && (k[0] < '0' || k[0] > '9') {
			g.f("trav:step-attr")
			return "." + k, next
		}
		g.f("trav:step-index-string")
		return `["` + k + `"]`, next
	case ty.IsListType() || ty.IsTupleType():
		if ty.IsListType() {
			next = ty.ElementType()
		}
		i := g.r.Intn(3)
		if ty.IsTupleType() {
			ets := ty.TupleElementTypes()
			if i < len(ets) {
				next = ets[i]
			}
		}
		switch g.r.Intn(6) {
		case 0:
			g.f("trav:step-legacy-index")
			return fmt.Sprintf(".%d", i), next
		case 1:
			g.f("trav:step-index-string")
			return fmt.Sprintf(`["%d"]`, i), next
		default:
			g.f("trav:step-index-number")
			return fmt.Sprintf("[%d]", i), next
		}
	}
	switch g.r.Intn(16) {
	case 0, 1, 2, 3:
		g.f("trav:step-attr")
		return "." + attrNames[g.r.Intn(len(attrNames))], next
	case 4, 5, 6:
		g.f("trav:step-index-string")
		return `["` + strKeys[g.r.Intn(len(strKeys))] + `"]`, next
	case 7, 8, 9:
		g.f("trav:step-index-number")
		return "[" + numKeys[g.r.Intn(len(numKeys))] + "]", next
	case 10:
		g.f("trav:step-legacy-index")
		return "." + g.r.Pick("0", "1", "2", "10"), next
	case 11:
		g.f("trav:step-index-bool")
		return "[" + g.r.Pick("true", "false") + "]", next
	case 12:
		g.f("trav:step-index-null")
		return "[null]", next
	case 13:
		g.f("trav:step-splat")
		return g.r.Pick("[*]", ".*"), next
	case 14:
		g.f("trav:step-index-expr")
		return "[" + g.r.Pick("n", "s", "-1", "1+1", `"${s}"`, "(0)", "[0][0]", "b ? 0 : 1") + "]", next
	default:
		g.f("trav:step-index-newline-inside")
		return "[\n" + g.r.Pick("0", `"a"`, "1") + "\n]", next
	}
}

// travText returns a traversal-shaped expression text for the scope.
func (g *gen) travText(vars map[string]cty.Value) string {
	root := g.root(vars, true)
	var sb strings.Builder
	sb.WriteString(root)
	ty := cty.DynamicPseudoType
	if v, ok := vars[root]; ok {
		ty = v.Type()
	}
	n := g.r.Small(5)
	if g.r.Chance(0.9) {
		n = 1 + g.r.Small(5)
	}
	for i := 0; i < n; i++ {
		st, nt := g.stepFor(ty)
		sb.WriteString(g.sep())
		sb.WriteString(st)
		ty = nt
	}
	return sb.String()
}

// ---- stand-alone traversal texts -------------------------------------------------------

var idents = []string{"a", "b", "foo", "name", "x1", "_", "_a", "a-b", "a-", "ünï", "日本", "αβ", "for", "if", "in", "null", "true", "false", "else", "endfor", "string", "A_B"}

func (g *gen) standaloneText() string {
	var sb strings.Builder
	if g.r.Chance(0.03) {
		sb.WriteString(g.r.Pick("", "0", `"a"`, "(", "-", "[", "*", ".", "${"))
		g.f("standalone:bad-root")
	} else {
		if g.r.Chance(0.1) {
			sb.WriteString(g.r.Pick(" ", "\n", "/* c */", "# c\n", "\t"))
		}
		sb.WriteString(idents[g.r.Intn(len(idents))])
	}
	n := g.r.Small(6)
	for i := 0; i < n; i++ {
		sb.WriteString(g.sep())
		switch g.r.Intn(24) {
		case 0, 1, 2, 3, 4, 5, 6:
			sb.WriteString("." + g.sep() + idents[g.r.Intn(len(idents))])
		case 7, 8, 9, 10:
			sb.WriteString("[" + g.sep() + numKeys[g.r.Intn(len(numKeys))] + g.sep() + "]")
		case 11, 12, 13, 14:
			sb.WriteString(`["` + strKeys[g.r.Intn(len(strKeys))] + `"]`)
		case 15:
			g.f("standalone:splat")
			sb.WriteString("[*]")
		case 16:
			g.f("standalone:attr-splat")
			sb.WriteString(".*")
		case 17:
			g.f("standalone:legacy-index")
			sb.WriteString("." + g.r.Pick("0", "1", "12"))
		case 18:
			sb.WriteString("[" + g.r.Pick("true", "null", "a", "-1", `"a${b}"`, `"%{if x}"`, "1,2", "", "0x1", "1e", "1.", "[0]") + "]")
			g.f("standalone:odd-key")
		case 19:
			sb.WriteString(g.r.Pick("(", ")", "]", "[", "..", " b", "?", "+1", "()", "{", `"`, "'", "\\", "\x00", "\xff", "..."))
			g.f("standalone:garbage")
		case 20:
			sb.WriteString(`["` + g.r.Pick(`é`, `\U0001F600`, `é`, `\\`, `\t`, `\x`, `\u12`, "é", "$$", "%%", "$${", "%%{", "${", "$") + `"]`)
			g.f("standalone:escape-key")
		case 21:
			sb.WriteString("[" + g.r.Pick("1e400", "0.1", "1e-3", "00", "1_0", "１") + "]")
			g.f("standalone:odd-number")
		case 22:
			sb.WriteString(`[<<EOT
a
EOT
]`)
			g.f("standalone:heredoc-key")
		default:
			sb.WriteString("." + idents[g.r.Intn(len(idents))])
		}
	}
	if g.r.Chance(0.08) {
		sb.WriteString(g.r.Pick(" ", "\n", " # c", " // c\n", "/* c */", ";", ","))
	}
	return sb.String()
}

// ---- tuple / object / call expressions ----------------------------------------------------

func (g *gen) partsText(eg *hv.EvalGen) string {
	arg := func() string {
		if g.r.Chance(0.4) {
			return g.travText(eg.Vars)
		}
		return eg.GenTopExpr()
	}
	switch g.r.Intn(10) {
	case 0, 1, 2:
		g.f("parts:tuple")
		n := g.r.Small(4)
		ps := make([]string, n)
		for i := range ps {
			ps[i] = arg()
		}
		nl := ""
		if g.r.Chance(0.2) {
			nl = "\n"
		}
		return "[" + nl + strings.Join(ps, ","+nl+" ") + nl + "]"
	case 3, 4, 5:
		g.f("parts:object")
		n := g.r.Small(4)
		ps := make([]string, n)
		for i := range ps {
			var key string
			switch g.r.Intn(10) {
			case 0, 1, 2, 3:
				key = g.r.Pick("a", "b", "k", "name", "for", "a-b", "ünï")
			case 4:
				key = `"` + g.r.Pick("a", "b", "x y", "k", "") + `"`
			case 5:
				key = "(" + g.r.Pick("s", "t", `"a"`, "n", "nosuch", "null", "upper(s)", `"${s}"`) + ")"
				g.f("parts:object-key-expr")
			case 6:
				key = g.r.Pick("null", "true", "false", "1", "1.5")
			case 7:
				key = g.r.Pick("o.a", "a.b", "mp.k", "l[0]", "s.x")
				g.f("parts:object-key-traversal")
			case 8:
				key = `"${` + g.r.Pick("s", "t", "n", "b") + `}"`
				g.f("parts:object-key-template")
			default:
				key = g.r.Pick("s", "t", "a")
			}
			eq := g.r.Pick(" = ", " = ", ": ", "=")
			ps[i] = key + eq + arg()
		}
		sepr := g.r.Pick(", ", ", ", "\n", ",\n")
		return "{" + strings.Join(ps, sepr) + "}"
	case 6, 7, 8:
		g.f("parts:call")
		fn := g.r.Pick("upper", "sum", "first", "fail", "isnull", "pair", "nosuchfn", "first", "sum")
		n := g.r.Small(3)
		switch fn {
		case "upper", "fail", "isnull":
			if g.r.Chance(0.85) {
				n = 1
			}
		case "pair":
			if g.r.Chance(0.85) {
				n = 2
			}
		case "first":
			if n == 0 && g.r.Chance(0.9) {
				n = 1
			}
		}
		ps := make([]string, n)
		for i := range ps {
			switch fn {
			case "upper", "fail":
				ps[i] = g.r.Pick("s", "t", `"abc"`, "n", "null", arg())
			case "sum":
				ps[i] = g.r.Pick("n", "m", "1", "2.5", `"3"`, "s", arg())
			case "pair":
				ps[i] = g.r.Pick("s", "n", "null", `"a"`, "1", arg())
			default:
				ps[i] = arg()
			}
		}
		ell := ""
		if n > 0 && g.r.Chance(0.15) {
			g.f("parts:call-expand")
			ell = "..."
			ps[n-1] = g.r.Pick("l", "tp", "st", "[1, 2]", `["a"]`, "[]", "null", "s", "d", "u", ps[n-1])
		}
		return fn + "(" + strings.Join(ps, ", ") + ell + ")"
	default:
		g.f("parts:other")
		return eg.GenTopExpr()
	}
}

// jsonText returns a JSON expression text (array / object / string / scalar).
func (g *gen) jsonText(depth int) string {
	k := g.r.Intn(10)
	if depth <= 0 && k < 5 {
		k = 5 + g.r.Intn(5)
	}
	switch k {
	case 0, 1, 2:
		n := g.r.Small(4)
		ps := make([]string, n)
		for i := range ps {
			ps[i] = g.jsonText(depth - 1)
		}
		return "[" + strings.Join(ps, ", ") + "]"
	case 3, 4:
		n := g.r.Small(4)
		ps := make([]string, n)
		for i := range ps {
			key := g.r.Pick("a", "b", "k", "x y", "", "${s}", "${t}", "${n}", "a${s}", "${nosuch}", "${null}", "for")
			ps[i] = `"` + key + `": ` + g.jsonText(depth-1)
		}
		return "{" + strings.Join(ps, ", ") + "}"
	case 5, 6:
		return `"` + g.r.Pick("", "a", "hello", "${s}", "${n}", "${n + 1}", "x${t}y", "${l}", "${nosuch}", "${o.a}", "%{ if b }y%{ endif }", "$${s}", "${upper(s)}", "a.b") + `"`
	case 7:
		return g.r.Pick("0", "1", "2.5", "-3", "1e2")
	case 8:
		return g.r.Pick("true", "false")
	default:
		return "null"
	}
}

// ---- types ------------------------------------------------------------------------------------

var identAttrNames = []string{
	"a", "b", "c", "name", "x1", "_", "_a", "a-b", "a-", "a--b", "A", "Zed",
	"for", "if", "in", "else", "endif", "endfor", "null", "true", "false",
	"string", "number", "bool", "any", "list", "set", "map", "object", "tuple", "optional",
	"ünï", "é", "日本", "αβ", "ф", "fo", "forx", "fоr", /* Cyrillic o */ "é", /* NFD */ "ﬁ", "ª", "x٣", "a·b",
}

// names that are not identifiers: outside the quantifier of the property (TypeString quotes them)
var nonIdentAttrNames = []string{
	"", "x y", "0", "0a", "-a", "a.b", "a b", "a\"b", "a\\b", "a$b", "${x}", "%{x}", "$${x}", "a\nb", "a\tb", " ", "é é", "a=b", "a,b",
	"\ufeffa", "\ufeff", "a\ufeff", "\x7f", "a\x00b", "😀", "1", "[0]", "(a)", "a{", " ",
}

func (g *gen) attrName() string {
	if g.r.Chance(0.1) {
		g.f("type:name-nonident")
		return nonIdentAttrNames[g.r.Intn(len(nonIdentAttrNames))]
	}
	n := identAttrNames[g.r.Intn(len(identAttrNames))]
	if g.r.Chance(0.1) {
		n += g.r.Pick("1", "_", "-", "x", "é")
	}
	return n
}

func (g *gen) genType(depth int) cty.Type {
	n := 10
	if depth <= 0 {
		n = 4
	}
	switch g.r.Intn(n) {
	case 0:
		return cty.String
	case 1:
		return cty.Number
	case 2:
		return cty.Bool
	case 3:
		return cty.DynamicPseudoType
	case 4:
		return cty.List(g.genType(depth - 1))
	case 5:
		return cty.Set(g.genType(depth - 1))
	case 6:
		return cty.Map(g.genType(depth - 1))
	case 7:
		k := g.r.Small(4)
		ts := make([]cty.Type, k)
		for i := range ts {
			ts[i] = g.genType(depth - 1)
		}
		return cty.Tuple(ts)
	default:
		k := g.r.Small(4)
		at := map[string]cty.Type{}
		var names []string
		for i := 0; i < k; i++ {
			n := g.attrName()
			at[n] = g.genType(depth - 1)
			names = append(names, n)
		}
		if k > 0 && g.r.Chance(0.04) {
			// optional attributes: produced by TypeConstraint for optional(T), not printed by TypeString
			g.f("type:gen-optional-attribute")
			return cty.ObjectWithOptionalAttrs(at, []string{names[g.r.Intn(len(names))]})
		}
		return cty.Object(at)
	}
}

// genTopType: mostly composite at the top
func (g *gen) genTopType() cty.Type {
	d := 1 + g.r.Intn(4)
	for i := 0; i < 3; i++ {
		ty := g.genType(d)
		if !ty.IsPrimitiveType() && ty != cty.DynamicPseudoType {
			return ty
		}
	}
	return g.genType(d)
}

// typeExprText returns a type-expression text, mostly with some error in it.
func (g *gen) typeExprText(depth int) string {
	if depth <= 0 || g.r.Chance(0.3) {
		return g.r.Pick("string", "number", "bool", "any", "string", "number", "list", "set", "map", "object", "tuple",
			"optional", "foo", "null", "true", "1", `"string"`, "a.b", "string.x", "[string]", "{a=string}", "(string)", "string()", "any()", "-1", "!bool")
	}
	sub := func() string { return g.typeExprText(depth - 1) }
	switch g.r.Intn(14) {
	case 0, 1:
		return g.r.Pick("list", "set", "map") + "(" + sub() + ")"
	case 2:
		return g.r.Pick("list", "set", "map", "object", "tuple", "foo", "optional", "string", "bool", "number", "any") + "(" + g.r.Pick("", sub()+", "+sub(), sub()+", "+sub()+", "+sub()) + ")"
	case 3, 4:
		n := g.r.Small(3)
		ps := make([]string, n)
		for i := range ps {
			ps[i] = sub()
		}
		return "tuple([" + strings.Join(ps, ", ") + "])"
	case 5, 6, 7, 8:
		n := g.r.Small(4)
		ps := make([]string, n)
		for i := range ps {
			key := g.r.Pick("a", "b", "a", "c", "for", "null", "true", `"a"`, "(a)", "a.b", "1", "a-b", "ünï", "optional", `"${a}"`, "a[0]")
			val := sub()
			switch g.r.Intn(8) {
			case 0:
				val = "optional(" + val + ")"
			case 1:
				val = "optional(" + g.r.Pick("", val+", 1", val+`, "x"`, val+", 1, 2", val+", nosuch") + ")"
			}
			ps[i] = key + g.r.Pick(" = ", "=", ": ") + val
		}
		return "object({" + strings.Join(ps, g.r.Pick(", ", ",", "\n")) + "})"
	case 9:
		return g.r.Pick("object", "tuple") + "(" + g.r.Pick("[]", "{}", "string", "[string]", "{a=string}", "null", `"x"`, "[for x in y: x]", "{for k, v in y: k => v}") + ")"
	case 10:
		return g.r.Pick("list", "set", "map", "tuple", "object") + "(" + sub() + "...)"
	case 11:
		return "(" + sub() + ")"
	case 12:
		return g.r.Pick("list", "set") + g.r.Pick(" (", "\n(", "(\n") + sub() + g.r.Pick(")", "\n)", ",)")
	default:
		return sub()
	}
}
