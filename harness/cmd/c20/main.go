package main

import "hclverif/hv"

func main() { hv.Main(map[string]func(*hv.RunCfg) error{"probe": probe}) }
