package main

// C20, JSON syntax, non-nil EvalContext: the static list/map/call parts of a JSON expression
// evaluate to the elements/arguments of the whole for EVERY kind of template content in object
// keys, object values, array elements and call-like strings — `${…}` interpolations,
// `%{ if }…%{ else }…%{ endif }`, `%{ for }…%{ endfor }`, the escapes `$${` and `%%{`, strip
// markers, keys that are only a directive, keys mixing literal text and sequences, malformed
// sequences (the whole and the parts must then fail alike).
//
// Three things are compared for one JSON document, once with the fixed scope jtScope() and once
// with a nil context (strings are then verbatim):
//   (1) the whole against its hcl.ExprList / hcl.ExprMap parts at every level (listOracle /
//       mapOracle of c20.go: both sides are the implementation);
//   (2) the whole AND every key / value / element against an INDEPENDENT expectation: the
//       document is read with encoding/json (token stream; order and duplicates kept), every
//       string is read by the template reader of this file (jtLex / jtParse: written from
//       hclsyntax/spec.md § Templates, shares no code with the hclsyntax scanner or parser) and
//       evaluated over a fixed table of expression sources whose values are written down here
//       (jtExprTable, scope variables, loop variables).  A consistent change of the whole and of
//       the parts together is therefore seen as well.  Where the reader has no opinion (an
//       expression outside the table, `$$${`, a strip marker that eats a newline — the known
//       C01 deviation —, unknown or marked values inside a template) only (1) applies;
//   (3) Variables() of the whole against the concatenation of the parts' and against the
//       variables the reference reads from the template text.
// A failing input is the JSON text alone (class line `jsontmpl`): everything else is recomputed.

import (
	"bytes"
	encjson "encoding/json"
	"fmt"
	"io"
	"regexp"
	"sort"
	"strings"
	"unicode"

	"github.com/hashicorp/hcl/v2"
	"github.com/hashicorp/hcl/v2/hclsyntax"
	"github.com/hashicorp/hcl/v2/json"
	"github.com/zclconf/go-cty/cty"
	"github.com/zclconf/go-cty/cty/convert"
	"hclverif/hv"
)

// ---- the fixed scope -------------------------------------------------------------------------------

var jtVars = map[string]cty.Value{
	"a": cty.StringVal("A"), "b": cty.StringVal("B"), "s": cty.StringVal("str"),
	"n": cty.NumberIntVal(7), "m": cty.NumberFloatVal(2.5),
	"t": cty.True, "f": cty.False, "flag": cty.True,
	"nul": cty.NullVal(cty.String),
	"xs":  cty.TupleVal([]cty.Value{cty.StringVal("x"), cty.StringVal("y")}),
	"e":   cty.EmptyTupleVal,
	"one": cty.TupleVal([]cty.Value{cty.StringVal("p")}),
	"mp":  cty.ObjectVal(map[string]cty.Value{"k1": cty.StringVal("v1"), "k2": cty.StringVal("v2")}),
	"unk": cty.UnknownVal(cty.String),
	"sec": cty.StringVal("S").Mark("secret"),
}

func jtScope() *hcl.EvalContext {
	return &hcl.EvalContext{Variables: jtVars, Functions: hv.HarnessFuncs}
}

// ---- reference: expressions ---------------------------------------------------------------------------

const (
	jtOK     = iota
	jtErr    // evaluation / parsing certainly reports an error
	jtNoIdea // the reference has no opinion
)

// expression sources with their values and the root names of the variables they mention
var jtExprTable = map[string]struct {
	v    cty.Value
	vars []string
}{
	`"lit"`:        {cty.StringVal("lit"), nil},
	`"  "`:         {cty.StringVal("  "), nil},
	`" w "`:        {cty.StringVal(" w "), nil},
	`"q"`:          {cty.StringVal("q"), nil},
	`1 + 2`:        {cty.NumberIntVal(3), nil},
	`upper("q")`:   {cty.StringVal("Q"), nil},
	`n * 2`:        {cty.NumberIntVal(14), []string{"n"}},
	`true`:         {cty.True, nil},
	`false`:        {cty.False, nil},
	`null`:         {cty.NullVal(cty.DynamicPseudoType), nil},
	`1`:            {cty.NumberIntVal(1), nil},
	`n == 7`:       {cty.True, []string{"n"}},
	`n > 9 || !t`:  {cty.False, []string{"n", "t"}},
	`!flag`:        {cty.False, []string{"flag"}},
	`mp.k1`:        {cty.StringVal("v1"), []string{"mp"}},
	`xs[0]`:        {cty.StringVal("x"), []string{"xs"}},
	`[" s ", "m"]`: {cty.TupleVal([]cty.Value{cty.StringVal(" s "), cty.StringVal("m")}), nil},
	`["a", "b"]`:   {cty.TupleVal([]cty.Value{cty.StringVal("a"), cty.StringVal("b")}), nil},
}

var jtIdentRe = regexp.MustCompile(`^[a-z_][a-z0-9_]*$`)
var jtEqRe = regexp.MustCompile(`^([a-z_][a-z0-9_]*) == "([a-z0-9]*)"$`)
var jtUpperRe = regexp.MustCompile(`^upper\(([a-z_][a-z0-9_]*)\)$`)

type jtEnv map[string]cty.Value

func jtLookup(name string, env jtEnv) (v cty.Value, vars []string, st int) {
	if v, ok := env[name]; ok {
		return v, nil, jtOK
	}
	if v, ok := jtVars[name]; ok {
		return v, []string{name}, jtOK
	}
	switch name {
	case "if", "else", "endif", "for", "endfor", "in":
		return cty.NilVal, nil, jtNoIdea
	}
	return cty.DynamicVal, []string{name}, jtErr // no such variable
}

func jtPlain(v cty.Value) bool { return v.IsKnown() && !v.IsMarked() }

func jtExpr(src string, env jtEnv) (v cty.Value, vars []string, st int) {
	if e, ok := jtExprTable[src]; ok {
		return e.v, e.vars, jtOK
	}
	if jtIdentRe.MatchString(src) {
		return jtLookup(src, env)
	}
	if m := jtEqRe.FindStringSubmatch(src); m != nil {
		l, vars, st := jtLookup(m[1], env)
		if st != jtOK || !jtPlain(l) || l.IsNull() || l.Type() != cty.String {
			return cty.NilVal, vars, jtNoIdea
		}
		return cty.BoolVal(l.AsString() == m[2]), vars, jtOK
	}
	if m := jtUpperRe.FindStringSubmatch(src); m != nil {
		l, vars, st := jtLookup(m[1], env)
		if st != jtOK || !jtPlain(l) || l.IsNull() || l.Type() != cty.String {
			return cty.NilVal, vars, jtNoIdea
		}
		return cty.StringVal(strings.ToUpper(l.AsString())), vars, jtOK
	}
	return cty.NilVal, nil, jtNoIdea
}

// jtKnownSrc: the expression source belongs to the fragment the reference evaluates
func jtKnownSrc(src string) bool {
	if _, ok := jtExprTable[src]; ok {
		return true
	}
	return jtIdentRe.MatchString(src) || jtEqRe.MatchString(src) || jtUpperRe.MatchString(src)
}

// ---- reference: template text -----------------------------------------------------------------------

type jtTok struct {
	kind           int // 0 literal, 1 interpolation, 2 directive
	text           string
	kw             string // if else endif for endfor
	keyVar, valVar string
	l, r           bool
}

var jtForRe = regexp.MustCompile(`^for\s+([a-z_][a-z0-9_]*)(?:\s*,\s*([a-z_][a-z0-9_]*))?\s+in\s+(.+)$`)

// jtLex cuts a template into literals and sequences.  st = jtErr: certainly malformed.
func jtLex(s string) (toks []jtTok, st int, why string) {
	if strings.HasPrefix(s, "\ufeff") || strings.ContainsAny(s, "\r") {
		return nil, jtNoIdea, "BOM / carriage return"
	}
	var lit strings.Builder
	flush := func() {
		if lit.Len() > 0 {
			toks = append(toks, jtTok{kind: 0, text: lit.String()})
			lit.Reset()
		}
	}
	for i := 0; i < len(s); {
		c := s[i]
		if c != '$' && c != '%' {
			lit.WriteByte(c)
			i++
			continue
		}
		j := i
		for j < len(s) && s[j] == c {
			j++
		}
		if j >= len(s) || s[j] != '{' {
			lit.WriteString(s[i:j])
			i = j
			continue
		}
		switch j - i {
		case 1:
		case 2:
			lit.WriteByte(c)
			lit.WriteByte('{')
			i = j + 1
			continue
		default:
			return nil, jtNoIdea, "three or more markers before a brace"
		}
		flush()
		p := j + 1
		t := jtTok{kind: 1}
		if c == '%' {
			t.kind = 2
		}
		if p < len(s) && s[p] == '~' {
			t.l = true
			p++
		}
		q, quote := p, false
		for q < len(s) && s[q] != '}' {
			switch s[q] {
			case '"':
				quote = true
				q++
				for q < len(s) && s[q] != '"' {
					if s[q] == '\\' {
						q++
					}
					q++
				}
				if q < len(s) {
					q++
				}
			case '{', '$', '%', '\n':
				return nil, jtNoIdea, "nested brace / marker / newline inside a sequence"
			default:
				q++
			}
		}
		if q >= len(s) {
			if quote {
				return nil, jtNoIdea, "unterminated sequence with a quote"
			}
			return nil, jtErr, "unterminated sequence"
		}
		inner := s[p:q]
		if strings.HasSuffix(inner, "~") {
			t.r = true
			inner = inner[:len(inner)-1]
		}
		inner = strings.Trim(inner, " \t")
		i = q + 1
		if strings.Contains(inner, "~") {
			return nil, jtNoIdea, "tilde inside a sequence"
		}
		if t.kind == 1 {
			if inner == "" {
				return nil, jtErr, "empty interpolation"
			}
			t.text = inner
			toks = append(toks, t)
			continue
		}
		word := inner
		if k := strings.IndexAny(inner, " \t"); k >= 0 {
			word = inner[:k]
		}
		rest := strings.Trim(inner[len(word):], " \t")
		switch word {
		case "if":
			if rest == "" {
				return nil, jtErr, "if without a condition"
			}
			t.kw, t.text = "if", rest
		case "else", "endif", "endfor":
			if rest != "" {
				return nil, jtErr, "extra characters after " + word
			}
			t.kw = word
		case "for":
			m := jtForRe.FindStringSubmatch(inner)
			if m == nil {
				return nil, jtNoIdea, "for header outside the fragment"
			}
			t.kw = "for"
			if m[2] != "" {
				t.keyVar, t.valVar = m[1], m[2]
			} else {
				t.valVar = m[1]
			}
			t.text = strings.Trim(m[3], " \t")
		default:
			if word == "" || jtIdentRe.MatchString(word) {
				return nil, jtErr, "no such directive: " + word
			}
			return nil, jtNoIdea, "directive keyword outside the fragment"
		}
		toks = append(toks, t)
	}
	flush()
	return toks, jtOK, ""
}

func jtIsSpace(r rune) bool { return unicode.IsSpace(r) }

// strip markers: the adjacent literal loses its white space on that side.  A marker that removes
// a line break is left to C01 (the implementation trims only up to the line break there).
func jtStrip(toks []jtTok) (st int) {
	st = jtOK
	for i := range toks {
		if toks[i].kind == 0 {
			continue
		}
		if toks[i].l && i > 0 && toks[i-1].kind == 0 {
			old := toks[i-1].text
			toks[i-1].text = strings.TrimRightFunc(old, jtIsSpace)
			if strings.Contains(old[len(toks[i-1].text):], "\n") {
				st = jtNoIdea
			}
		}
		if toks[i].r && i+1 < len(toks) && toks[i+1].kind == 0 {
			old := toks[i+1].text
			toks[i+1].text = strings.TrimLeftFunc(old, jtIsSpace)
			if strings.Contains(old[:len(old)-len(toks[i+1].text)], "\n") {
				st = jtNoIdea
			}
		}
	}
	return st
}

type jtNode struct {
	tok             jtTok
	then, els, body []*jtNode
}

// jtParse builds the tree; stop = the directive that ended the sequence of items ("" at the end)
func jtParse(toks []jtTok, pos *int, inside string) (items []*jtNode, stop string, st int, why string) {
	for *pos < len(toks) {
		t := toks[*pos]
		*pos++
		if t.kind != 2 {
			items = append(items, &jtNode{tok: t})
			continue
		}
		switch t.kw {
		case "else", "endif", "endfor":
			if inside == "" {
				return nil, "", jtErr, "unexpected " + t.kw
			}
			return items, t.kw, jtOK, ""
		case "if":
			n := &jtNode{tok: t}
			var stop string
			n.then, stop, st, why = jtParse(toks, pos, "if")
			if st != jtOK {
				return nil, "", st, why
			}
			if stop == "else" {
				n.els, stop, st, why = jtParse(toks, pos, "if")
				if st != jtOK {
					return nil, "", st, why
				}
			}
			if stop != "endif" {
				return nil, "", jtErr, "if not closed by endif"
			}
			items = append(items, n)
		case "for":
			n := &jtNode{tok: t}
			var stop string
			n.body, stop, st, why = jtParse(toks, pos, "for")
			if st != jtOK {
				return nil, "", st, why
			}
			if stop != "endfor" {
				return nil, "", jtErr, "for not closed by endfor"
			}
			items = append(items, n)
		}
	}
	if inside != "" {
		return nil, "", jtErr, inside + " not closed"
	}
	return items, "", jtOK, ""
}

// jtExp is what the reference expects of one evaluation
type jtExp struct {
	st  int       // jtOK: val without errors; jtErr: errors; jtNoIdea
	val cty.Value // jtOK only
	why string
}

func (e jtExp) String() string {
	switch e.st {
	case jtErr:
		return "error (" + e.why + ")"
	case jtNoIdea:
		return "no expectation (" + e.why + ")"
	}
	return hv.DumpVal(e.val)
}

func jtToString(v cty.Value) (string, int, string) {
	if !jtPlain(v) {
		return "", jtNoIdea, "unknown or marked value inside a template"
	}
	if v.IsNull() {
		return "", jtErr, "null in a template"
	}
	sv, err := convert.Convert(v, cty.String)
	if err != nil {
		return "", jtErr, "value of this type in a template"
	}
	return sv.AsString(), jtOK, ""
}

func jtEval(items []*jtNode, env jtEnv, sb *strings.Builder) (int, string) {
	for _, n := range items {
		switch {
		case n.tok.kind == 0:
			sb.WriteString(n.tok.text)
		case n.tok.kind == 1:
			v, _, st := jtExpr(n.tok.text, env)
			if st != jtOK {
				return st, "interpolation " + n.tok.text
			}
			s, st, why := jtToString(v)
			if st != jtOK {
				return st, why
			}
			sb.WriteString(s)
		case n.tok.kw == "if":
			v, _, st := jtExpr(n.tok.text, env)
			if st != jtOK {
				return st, "condition " + n.tok.text
			}
			if !jtPlain(v) {
				return jtNoIdea, "unknown or marked condition"
			}
			if v.IsNull() {
				return jtErr, "null condition"
			}
			bv, err := convert.Convert(v, cty.Bool)
			if err != nil {
				return jtErr, "condition is not a bool"
			}
			br := n.els
			if bv.True() {
				br = n.then
			}
			if st, why := jtEval(br, env, sb); st != jtOK {
				return st, why
			}
		case n.tok.kw == "for":
			v, _, st := jtExpr(n.tok.text, env)
			if st != jtOK {
				return st, "collection " + n.tok.text
			}
			if !jtPlain(v) {
				return jtNoIdea, "unknown or marked collection"
			}
			if v.IsNull() {
				return jtErr, "null collection"
			}
			if !v.CanIterateElements() {
				return jtErr, "for over a value that has no elements"
			}
			for it := v.ElementIterator(); it.Next(); {
				kv, ev := it.Element()
				e2 := jtEnv{}
				for k, x := range env {
					e2[k] = x
				}
				e2[n.tok.valVar] = ev
				if n.tok.keyVar != "" {
					e2[n.tok.keyVar] = kv
				}
				if st, why := jtEval(n.body, e2, sb); st != jtOK {
					return st, why
				}
			}
		}
	}
	return jtOK, ""
}

func jtTemplate(s string) (items []*jtNode, toks []jtTok, st int, why string) {
	toks, st, why = jtLex(s)
	if st != jtOK {
		return nil, nil, st, why
	}
	pos := 0
	items, _, st, why = jtParse(append([]jtTok(nil), toks...), &pos, "")
	if st != jtOK {
		return nil, toks, st, why
	}
	return items, toks, jtOK, ""
}

// jtExpectTemplate: the value of a JSON string read as a template in the scope jtScope()
func jtExpectTemplate(s string) jtExp {
	toks, st, why := jtLex(s)
	if st != jtOK {
		return jtExp{st: st, why: why}
	}
	if len(toks) == 1 && toks[0].kind == 1 {
		// a template that is a single interpolation is its value, whatever the type
		v, _, st := jtExpr(toks[0].text, jtEnv{})
		if st != jtOK {
			return jtExp{st: st, why: "interpolation " + toks[0].text}
		}
		return jtExp{val: v}
	}
	stripSt := jtStrip(toks)
	pos := 0
	items, _, st, why := jtParse(toks, &pos, "")
	if st != jtOK {
		return jtExp{st: st, why: why}
	}
	// an unknown or marked value ANYWHERE in the template (also in a branch that is not taken: both
	// results of a conditional contribute their marks) is outside what the reference speaks about
	var mentioned []string
	if !jtVarsOf(items, map[string]bool{}, &mentioned) {
		return jtExp{st: jtNoIdea, why: "expression outside the table"}
	}
	for _, v := range mentioned {
		if val, ok := jtVars[v]; ok && !jtPlain(val) {
			return jtExp{st: jtNoIdea, why: "unknown or marked value inside a template"}
		}
	}
	if stripSt != jtOK {
		return jtExp{st: jtNoIdea, why: "a strip marker removes a line break"}
	}
	var sb strings.Builder
	if st, why := jtEval(items, jtEnv{}, &sb); st != jtOK {
		return jtExp{st: st, why: why}
	}
	return jtExp{val: cty.StringVal(sb.String())}
}

func jtVarsOf(items []*jtNode, bound map[string]bool, out *[]string) bool {
	add := func(src string) bool {
		_, vars, st := jtExpr(src, jtEnv{})
		if st == jtNoIdea {
			// a loop variable is not in the empty environment: look again with it bound
			env := jtEnv{}
			for b := range bound {
				env[b] = cty.StringVal("x")
			}
			_, vars, st = jtExpr(src, env)
			if st == jtNoIdea {
				return false
			}
		}
		for _, v := range vars {
			if !bound[v] {
				*out = append(*out, v)
			}
		}
		return true
	}
	for _, n := range items {
		switch {
		case n.tok.kind == 0:
		case n.tok.kind == 1:
			if !add(n.tok.text) {
				return false
			}
		case n.tok.kw == "if":
			if !add(n.tok.text) || !jtVarsOf(n.then, bound, out) || !jtVarsOf(n.els, bound, out) {
				return false
			}
		case n.tok.kw == "for":
			if !add(n.tok.text) {
				return false
			}
			b2 := map[string]bool{n.tok.valVar: true}
			if n.tok.keyVar != "" {
				b2[n.tok.keyVar] = true
			}
			for b := range bound {
				b2[b] = true
			}
			if !jtVarsOf(n.body, b2, out) {
				return false
			}
		}
	}
	return true
}

// jtTemplateVars: root names of the variables a template mentions (none when it is malformed)
func jtTemplateVars(s string) ([]string, bool) {
	items, _, st, _ := jtTemplate(s)
	switch st {
	case jtErr:
		return nil, true
	case jtNoIdea:
		return nil, false
	}
	var out []string
	if !jtVarsOf(items, map[string]bool{}, &out) {
		return nil, false
	}
	return out, true
}

// ---- reference: the JSON document ------------------------------------------------------------------------

type jtJ struct {
	kind  byte // s n b z a o
	str   string
	b     bool
	elems []*jtJ
	keys  []string
	vals  []*jtJ
}

func jtReadJSON(text string) (*jtJ, bool) {
	dec := encjson.NewDecoder(bytes.NewReader([]byte(text)))
	dec.UseNumber()
	var rd func() (*jtJ, bool)
	rd = func() (*jtJ, bool) {
		tok, err := dec.Token()
		if err != nil {
			return nil, false
		}
		switch t := tok.(type) {
		case string:
			return &jtJ{kind: 's', str: t}, true
		case encjson.Number:
			return &jtJ{kind: 'n', str: string(t)}, true
		case bool:
			return &jtJ{kind: 'b', b: t}, true
		case nil:
			return &jtJ{kind: 'z'}, true
		case encjson.Delim:
			switch t {
			case '[':
				n := &jtJ{kind: 'a'}
				for dec.More() {
					e, ok := rd()
					if !ok {
						return nil, false
					}
					n.elems = append(n.elems, e)
				}
				if _, err := dec.Token(); err != nil {
					return nil, false
				}
				return n, true
			case '{':
				n := &jtJ{kind: 'o'}
				for dec.More() {
					kt, err := dec.Token()
					if err != nil {
						return nil, false
					}
					k, ok := kt.(string)
					if !ok {
						return nil, false
					}
					v, ok := rd()
					if !ok {
						return nil, false
					}
					n.keys = append(n.keys, k)
					n.vals = append(n.vals, v)
				}
				if _, err := dec.Token(); err != nil {
					return nil, false
				}
				return n, true
			}
		}
		return nil, false
	}
	n, ok := rd()
	if !ok {
		return nil, false
	}
	if _, err := dec.Token(); err != io.EOF {
		return nil, false
	}
	return n, true
}

func jtExpectString(s string, tmpl bool) jtExp {
	if !tmpl {
		return jtExp{val: cty.StringVal(s)}
	}
	return jtExpectTemplate(s)
}

// jtExpect: the value of the JSON expression j; tmpl = a non-nil context (jtScope()) is given
func jtExpect(j *jtJ, tmpl bool) jtExp {
	switch j.kind {
	case 's':
		return jtExpectString(j.str, tmpl)
	case 'n':
		v, err := cty.ParseNumberVal(j.str)
		if err != nil {
			return jtExp{st: jtNoIdea, why: "number"}
		}
		return jtExp{val: v}
	case 'b':
		return jtExp{val: cty.BoolVal(j.b)}
	case 'z':
		return jtExp{val: cty.NullVal(cty.DynamicPseudoType)}
	case 'a':
		ret := jtExp{}
		vals := []cty.Value{}
		for _, e := range j.elems {
			x := jtExpect(e, tmpl)
			switch {
			case x.st == jtNoIdea:
				return x
			case x.st == jtErr:
				ret = x
			default:
				vals = append(vals, x.val)
			}
		}
		if ret.st == jtOK {
			ret.val = cty.TupleVal(vals)
		}
		return ret
	case 'o':
		ret := jtExp{}
		attrs := map[string]cty.Value{}
		for i, k := range j.keys {
			kx := jtExpectString(k, tmpl)
			vx := jtExpect(j.vals[i], tmpl)
			if kx.st == jtNoIdea {
				return kx
			}
			if vx.st == jtNoIdea {
				return vx
			}
			if vx.st == jtErr {
				ret = vx
			}
			if kx.st == jtErr {
				ret = kx
				continue
			}
			if !jtPlain(kx.val) {
				return jtExp{st: jtNoIdea, why: "unknown or marked key"}
			}
			if kx.val.IsNull() {
				ret = jtExp{st: jtErr, why: "null key"}
				continue
			}
			ks, err := convert.Convert(kx.val, cty.String)
			if err != nil {
				ret = jtExp{st: jtErr, why: "key is not a string"}
				continue
			}
			if _, dup := attrs[ks.AsString()]; dup {
				ret = jtExp{st: jtErr, why: "duplicate key"}
				continue
			}
			if vx.st == jtOK {
				attrs[ks.AsString()] = vx.val
			}
		}
		if ret.st == jtOK {
			ret.val = cty.ObjectVal(attrs)
		}
		return ret
	}
	return jtExp{st: jtNoIdea, why: "?"}
}

func jtDocVars(j *jtJ, out *[]string) bool {
	switch j.kind {
	case 's':
		v, ok := jtTemplateVars(j.str)
		*out = append(*out, v...)
		return ok
	case 'a':
		for _, e := range j.elems {
			if !jtDocVars(e, out) {
				return false
			}
		}
	case 'o':
		for i, k := range j.keys {
			v, ok := jtTemplateVars(k)
			if !ok {
				return false
			}
			*out = append(*out, v...)
			if !jtDocVars(j.vals[i], out) {
				return false
			}
		}
	}
	return true
}

// ---- reference: call-like strings ---------------------------------------------------------------------------

var jtCallRe = regexp.MustCompile(`^([a-z]+)\((.*)\)$`)

// jtReadCall reads name("tmpl", "tmpl", …): the arguments as template texts (quoted-literal escapes
// undone).  ok = false: outside the fragment.
func jtReadCall(s string) (name string, args []string, ok bool) {
	m := jtCallRe.FindStringSubmatch(s)
	if m == nil {
		return "", nil, false
	}
	name = m[1]
	rest := m[2]
	for strings.TrimSpace(rest) != "" {
		rest = strings.TrimLeft(rest, " ")
		if !strings.HasPrefix(rest, `"`) {
			return "", nil, false
		}
		var sb strings.Builder
		i := 1
		for ; i < len(rest) && rest[i] != '"'; i++ {
			if rest[i] == '\\' {
				i++
				if i >= len(rest) {
					return "", nil, false
				}
				switch rest[i] {
				case '"':
					sb.WriteByte('"')
				case '\\':
					sb.WriteByte('\\')
				case 'n':
					sb.WriteByte('\n')
				case 't':
					sb.WriteByte('\t')
				default:
					return "", nil, false
				}
				continue
			}
			sb.WriteByte(rest[i])
		}
		if i >= len(rest) {
			return "", nil, false
		}
		arg := sb.String()
		// sequences of the argument must be free of quotes and backslashes (they would not have been
		// escapes there) and the literal part free of line breaks (not allowed in a quoted template)
		toks, st, _ := jtLex(arg)
		if st == jtNoIdea {
			return "", nil, false
		}
		for _, t := range toks {
			if t.kind != 0 && strings.ContainsAny(t.text, "\"\\") {
				return "", nil, false
			}
			if t.kind != 0 && t.text != "" && !jtKnownSrc(t.text) {
				return "", nil, false
			}
		}
		args = append(args, arg)
		rest = strings.TrimLeft(rest[i+1:], " ")
		if rest == "" {
			break
		}
		if !strings.HasPrefix(rest, ",") {
			return "", nil, false
		}
		rest = rest[1:]
		if strings.TrimSpace(rest) == "" {
			return "", nil, false
		}
	}
	return name, args, true
}

// ---- the case ---------------------------------------------------------------------------------------------

func jtSame(x jtExp, v cty.Value, d hcl.Diagnostics) bool {
	switch x.st {
	case jtNoIdea:
		return true
	case jtErr:
		return d.HasErrors()
	}
	return !d.HasErrors() && hv.DumpVal(v) == hv.DumpVal(x.val)
}

func jtDescribe(v cty.Value, d hcl.Diagnostics) string {
	if d.HasErrors() {
		return "error (" + d.Error() + ")"
	}
	return hv.DumpVal(v)
}

func jtVarNames(ts []hcl.Traversal) []string {
	out := make([]string, len(ts))
	for i, t := range ts {
		out[i] = hv.DumpTraversal(t)
	}
	return out
}

// jtWalk compares the expression e (the reference reads it as j) with its static parts, level by level
func (x *runner) jtWalk(e hcl.Expression, j *jtJ, ctx *hcl.EvalContext, where, input string) {
	tmpl := ctx != nil
	mode := "scope"
	if !tmpl {
		mode = "nil-context"
	}
	whole, wd := e.Value(ctx)
	if exp := jtExpect(j, tmpl); !jtSame(exp, whole, wd) {
		x.fail("json-template-value-differs-from-reference", fmt.Sprintf("%s (%s): evaluation gives %s, the reference reading of the text gives %s", where, mode, jtDescribe(whole, wd), exp), input, nil)
	} else if exp.st == jtNoIdea {
		x.rep.Hist("jsontmpl:no-expectation:" + mode)
	} else {
		x.rep.Hist("jsontmpl:expectation-met:" + mode)
	}
	l, ld := hcl.ExprList(e)
	m, md := hcl.ExprMap(e)
	switch j.kind {
	case 'a':
		if ld.HasErrors() || !md.HasErrors() || len(l) != len(j.elems) {
			x.fail("json-static-parts-shape-differs", fmt.Sprintf("%s: a JSON array of %d elements has ExprList errors=%v len=%d, ExprMap errors=%v", where, len(j.elems), ld.HasErrors(), len(l), md.HasErrors()), input, nil)
			return
		}
		x.listOracle(l, whole, wd, ctx, input)
		for i, el := range l {
			x.jtWalk(el, j.elems[i], ctx, fmt.Sprintf("%s[%d]", where, i), input)
		}
	case 'o':
		if md.HasErrors() || !ld.HasErrors() || len(m) != len(j.keys) {
			x.fail("json-static-parts-shape-differs", fmt.Sprintf("%s: a JSON object of %d members has ExprMap errors=%v len=%d, ExprList errors=%v", where, len(j.keys), md.HasErrors(), len(m), ld.HasErrors()), input, nil)
			return
		}
		x.mapOracle(m, whole, wd, ctx, true, input)
		for i, kv := range m {
			kval, kd := kv.Key.Value(ctx)
			if exp := jtExpectString(j.keys[i], tmpl); !jtSame(exp, kval, kd) {
				x.fail("json-static-part-differs-from-reference", fmt.Sprintf("%s key %d %q (%s): the ExprMap key evaluates to %s, the reference reading of the text gives %s", where, i, j.keys[i], mode, jtDescribe(kval, kd), exp), input, nil)
			}
			x.jtWalk(kv.Value, j.vals[i], ctx, fmt.Sprintf("%s.%d", where, i), input)
		}
	default:
		if !ld.HasErrors() || !md.HasErrors() {
			x.fail("json-static-parts-shape-differs", where+": a JSON scalar has static list or map parts", input, nil)
		}
		if j.kind == 's' && tmpl {
			x.jtCall(e, j.str, ctx, where, input)
		}
	}
}

// jtCall: a string that reads as a call in the native syntax: hcl.ExprCall of the JSON expression must
// give the name and arguments the reference reads, the arguments evaluate to the reference's values,
// and applying the function to them gives what the native call expression evaluates to
func (x *runner) jtCall(e hcl.Expression, s string, ctx *hcl.EvalContext, where, input string) {
	name, args, ok := jtReadCall(s)
	if !ok {
		return
	}
	x.rep.Hist("jsontmpl:call-like-string")
	call, cd := hcl.ExprCall(e)
	malformed := false
	for _, a := range args {
		// a malformed template in an argument: the native expression does not parse, no static call
		if _, st, _ := jtLex(a); st == jtErr {
			malformed = true
		} else if _, _, st, _ := jtTemplate(a); st == jtErr {
			malformed = true
		}
		if strings.Contains(a, "\n") {
			return // a decoded line break inside a quoted template: left to the parser properties
		}
	}
	if malformed {
		if !cd.HasErrors() {
			x.fail("json-static-call-differs-from-reference", fmt.Sprintf("%s: %q has a malformed template argument, yet ExprCall reports nothing", where, s), input, nil)
		}
		return
	}
	if cd.HasErrors() || call == nil {
		x.fail("json-static-call-differs-from-reference", fmt.Sprintf("%s: %q reads as a call of %s with %d arguments, ExprCall reports: %s", where, s, name, len(args), cd.Error()), input, nil)
		return
	}
	if call.Name != name || len(call.Arguments) != len(args) {
		x.fail("json-static-call-differs-from-reference", fmt.Sprintf("%s: %q reads as %s/%d, ExprCall gives %s/%d", where, s, name, len(args), call.Name, len(call.Arguments)), input, nil)
		return
	}
	for i, a := range call.Arguments {
		av, ad := a.Value(ctx)
		if exp := jtExpectTemplate(args[i]); !jtSame(exp, av, ad) {
			x.fail("json-static-call-differs-from-reference", fmt.Sprintf("%s: argument %d of %q evaluates to %s, the reference reading gives %s", where, i, s, jtDescribe(av, ad), exp), input, nil)
		}
	}
	// the whole: the same text as a native call expression
	if ne, pd := hclsyntax.ParseExpression([]byte(s), "e.hcl", hcl.InitialPos); !pd.HasErrors() {
		whole, wd := ne.Value(ctx)
		x.callOracle(call, false, whole, wd, ctx, input)
	} else {
		x.fail("json-static-call-differs-from-reference", fmt.Sprintf("%s: ExprCall accepts %q, the native parser reports: %s", where, s, pd.Error()), input, nil)
	}
}

func (x *runner) jsonTmplCase(text string) {
	input := "jsontmpl\n" + text
	je, jd := json.ParseExpression([]byte(text), "e.json")
	j, ok := jtReadJSON(text)
	if jd.HasErrors() || !ok {
		if jd.HasErrors() == ok {
			x.rep.Hist("jsontmpl:json-acceptance-differs(left to C13)")
		}
		x.rep.Hist("jsontmpl:json-parse-error")
		x.rep.Evaluations++
		return
	}
	if p := guard(func() {
		x.jtWalk(je, j, jtScope(), "$", input)
		x.jtWalk(je, j, nil, "$", input)
		// Variables(): whole against parts against the reference
		whole := jtVarNames(je.Variables())
		var parts []string
		if l, ld := hcl.ExprList(je); !ld.HasErrors() {
			for _, el := range l {
				parts = append(parts, jtVarNames(el.Variables())...)
			}
		} else if m, md := hcl.ExprMap(je); !md.HasErrors() {
			for _, kv := range m {
				parts = append(parts, jtVarNames(kv.Key.Variables())...)
				parts = append(parts, jtVarNames(kv.Value.Variables())...)
			}
		} else {
			parts = whole
		}
		if strings.Join(whole, "|") != strings.Join(parts, "|") {
			x.fail("json-variables-differ-from-parts", "Variables() of the whole: ["+strings.Join(whole, " | ")+"]; of the static parts in order: ["+strings.Join(parts, " | ")+"]", input, nil)
		}
		var ref []string
		if jtDocVars(j, &ref) {
			var got []string
			for _, t := range je.Variables() {
				got = append(got, t.RootName())
			}
			sort.Strings(got)
			sort.Strings(ref)
			if strings.Join(got, " ") != strings.Join(ref, " ") {
				x.fail("json-variables-differ-from-reference", "Variables() of the whole has the roots ["+strings.Join(got, " ")+"], the reference reading of the templates ["+strings.Join(ref, " ")+"]", input, nil)
			} else if len(ref) > 0 {
				x.rep.Hist("jsontmpl:variables-agree(non-empty)")
			}
		} else {
			x.rep.Hist("jsontmpl:variables-no-expectation")
		}
	}); p != nil {
		x.fail("panic", fmt.Sprint("JSON template parts: ", p), input, nil)
	}
	x.rep.Count("jsontmpl|"+text, j.kind == 'a' || j.kind == 'o')
}

// ---- generator -------------------------------------------------------------------------------------------------

type jtGen struct {
	r    *hv.Rng
	feat map[string]int
}

func (g *jtGen) f(s string) { g.feat["jsontmpl:"+s]++ }

func jtSeq(open string, l bool, inner string, r bool, pad string) string {
	s := open
	if l {
		s += "~"
	}
	s += pad + inner + pad
	if r {
		s += "~"
	}
	return s + "}"
}

func (g *jtGen) strip() (bool, bool) { return g.r.Chance(0.2), g.r.Chance(0.2) }

func (g *jtGen) pad() string { return g.r.Pick(" ", " ", " ", "", "  ") }

// word: literal text as it stands in the template source (escapes written out)
func (g *jtGen) word(noDollar bool) string {
	ws := func() string { return g.r.Pick(" ", " ", "  ", "\t", "") }
	w := g.r.Pick("w", "foo", "on", "off", "k", "p q", "-", "é", "x=1", ",", "z", "a", "100", "\\", "'")
	switch g.r.Intn(12) {
	case 0:
		if !noDollar {
			g.f("escape-dollar")
			w = g.r.Pick("$${a}", "$${", "pre-$${x}", "$${ a }b")
		}
	case 1:
		g.f("escape-percent")
		w = g.r.Pick("100%%{done}", "%%{", "%%{ if t }", "x%%{y")
	case 2:
		w = g.r.Pick("$", "%", "$$", "%%", "5%", "$a", "a$b", "{", "}", "{}", "~", "~}") // not sequences
		g.f("lone-marker-characters")
		if noDollar && strings.Contains(w, "$") {
			w = "%"
		}
	case 3:
		if g.r.Chance(0.25) {
			g.f("literal-newline")
			w += "\n"
		}
	}
	switch g.r.Intn(6) {
	case 0:
		return ws() + w + ws()
	case 1:
		return ws() + w
	case 2:
		return w + ws()
	}
	return w
}

func (g *jtGen) interp(loop []string) string {
	src := ""
	if len(loop) > 0 && g.r.Chance(0.5) {
		src = loop[g.r.Intn(len(loop))]
		if g.r.Chance(0.15) {
			src = "upper(" + src + ")"
		}
	} else {
		src = g.r.Pick("a", "a", "b", "s", "n", "m", "t", "flag", `"lit"`, `" w "`, "1 + 2", `upper("q")`, "n * 2", "mp.k1", "xs[0]", "upper(a)",
			"nul", "nosuch", "unk", "sec", "xs", "null")
		switch src {
		case "nul", "null":
			g.f("interp-null")
		case "nosuch":
			g.f("interp-undefined-variable")
		case "unk":
			g.f("interp-unknown")
		case "sec":
			g.f("interp-marked")
		case "xs":
			g.f("interp-tuple")
		}
	}
	l, r := g.strip()
	if l || r {
		g.f("strip-marker")
	}
	return jtSeq("${", l, src, r, g.pad())
}

// items renders a sequence of template items.  noDollar: no `${` anywhere (directives with literal bodies)
func (g *jtGen) items(depth int, loop []string, noDollar bool, max int) string {
	var sb strings.Builder
	n := 1 + g.r.Small(max)
	lastLit := false
	for i := 0; i < n; i++ {
		k := g.r.Intn(10)
		switch {
		case (k < 4 && !lastLit) || (noDollar && k < 7 && !lastLit):
			sb.WriteString(g.word(noDollar))
			lastLit = true
			continue
		case k < 7 && !noDollar:
			sb.WriteString(g.interp(loop))
		case k < 9 && depth < 2:
			sb.WriteString(g.ifDir(depth, loop, noDollar))
		case depth < 2:
			sb.WriteString(g.forDir(depth, loop, noDollar))
		default:
			sb.WriteString(g.word(noDollar))
			lastLit = true
			continue
		}
		lastLit = false
	}
	return sb.String()
}

func (g *jtGen) ifDir(depth int, loop []string, noDollar bool) string {
	g.f("if-directive")
	cond := g.r.Pick("t", "f", "flag", "!flag", "true", "false", "n == 7", "n > 9 || !t", "t", "flag")
	if g.r.Chance(0.06) {
		cond = g.r.Pick("nul", "nosuch", "unk", "sec", "a", "n")
		g.f("if-odd-condition")
	}
	if len(loop) > 0 && g.r.Chance(0.4) {
		cond = loop[len(loop)-1] + ` == "` + g.r.Pick("x", "y", "p", "v1", "a") + `"`
		g.f("if-on-loop-variable")
	}
	var sb strings.Builder
	l, r := g.strip()
	sb.WriteString(jtSeq("%{", l, "if "+cond, r, g.pad()))
	if !g.r.Chance(0.12) {
		sb.WriteString(g.items(depth+1, loop, noDollar, 2))
	}
	if g.r.Chance(0.55) {
		g.f("if-with-else")
		l2, r2 := g.strip()
		sb.WriteString(jtSeq("%{", l2, "else", r2, g.pad()))
		if !g.r.Chance(0.15) {
			sb.WriteString(g.items(depth+1, loop, noDollar, 2))
		}
		l, r = l || l2, r || r2
	}
	l3, r3 := g.strip()
	sb.WriteString(jtSeq("%{", l3, "endif", r3, g.pad()))
	if l || r || l3 || r3 {
		g.f("strip-marker")
	}
	return sb.String()
}

func (g *jtGen) forDir(depth int, loop []string, noDollar bool) string {
	g.f("for-directive")
	coll := g.r.Pick("xs", "xs", "one", "e", "mp", `["a", "b"]`, `[" s ", "m"]`)
	if g.r.Chance(0.06) {
		coll = g.r.Pick("nul", "nosuch", "a", "unk", "sec")
		g.f("for-odd-collection")
	}
	val := []string{"x", "y", "z", "u"}[depth%4]
	hdr := val
	inner := append([]string{}, loop...)
	if g.r.Chance(0.35) && coll == "mp" {
		key := []string{"i", "j", "k", "q"}[depth%4]
		hdr = key + ", " + val
		inner = append(inner, key)
		g.f("for-with-key")
	} else if g.r.Chance(0.2) {
		key := []string{"i", "j", "k", "q"}[depth%4]
		hdr = key + ", " + val
		g.f("for-with-key")
	}
	// the value variable last: ifDir builds its loop-variable conditions on it
	switch coll {
	case "xs", "one", "mp", `["a", "b"]`, `[" s ", "m"]`, "e":
		inner = append(inner, val)
	}
	var sb strings.Builder
	l, r := g.strip()
	sb.WriteString(jtSeq("%{", l, "for "+hdr+" in "+coll, r, g.pad()))
	if !g.r.Chance(0.08) {
		sb.WriteString(g.items(depth+1, inner, noDollar, 2))
	}
	l3, r3 := g.strip()
	sb.WriteString(jtSeq("%{", l3, "endfor", r3, g.pad()))
	if l || r || l3 || r3 {
		g.f("strip-marker")
	}
	return sb.String()
}

// damage makes a template malformed (mostly)
func (g *jtGen) damage(s string) string {
	switch g.r.Intn(14) {
	case 0:
		if i := strings.LastIndex(s, "}"); i >= 0 {
			return s[:i] + s[i+1:]
		}
	case 1:
		return strings.Replace(s, "endif", "endfor", 1)
	case 2:
		return strings.Replace(s, "endfor", "endif", 1)
	case 3:
		return strings.Replace(s, "if ", "iff ", 1)
	case 4:
		return s + g.r.Pick("%{ endif }", "%{ endfor }", "%{ else }", "%{else}")
	case 5:
		return g.r.Pick("%{ else }", "%{ endif }", "%{ if t }", "%{ for x in xs }") + s
	case 6:
		return s + g.r.Pick("${", "%{", "${}", "%{}", "${ }", "%{ }", "${~}", "%{~ ~}")
	case 7:
		return strings.Replace(s, "%{ else }", "%{ else }%{ else }", 1)
	case 8:
		return strings.Replace(s, " in ", " of ", 1)
	case 9:
		return s + g.r.Pick("%{ if }", "%{ for }", "%{ for x }", "%{ endif x }", "%{ bogus }", "%{ if t ", "%{ IF t }x%{ endif }")
	case 10:
		return strings.Replace(s, "%{", "%{ ", 1) + "%{ if t }"
	case 11:
		return s + g.r.Pick("${a", "${a +}", "${a b}", "${1 +}", "${)}")
	case 12:
		return g.r.Pick("%{ if t }", "%{ for x in xs }", "%{ if t }a%{ else }") // key that is only an open directive
	}
	return s + "%{"
}

// tmplText returns one template text (the content of a JSON string) and the label of its shape
func (g *jtGen) tmplText() (string, string) {
	k := g.r.Intn(100)
	switch {
	case k < 10:
		return g.r.Pick("a", "b", "k", "x y", "name", "for", "é", "", "on", "A", "str", "7"), "plain"
	case k < 18:
		// only escapes and lone marker characters
		return g.r.Pick("$${a}", "100%%{done}", "%%{ if t }x%%{ endif }", "$${", "%%{", "pre-$${a}-post", "5%", "$a", "$$", "%%", "$${a}%%{b}", "a%%{b}$${c}"), "escapes-only"
	case k < 26:
		return g.interp(nil), "single-interpolation"
	case k < 42:
		// a key that is ONLY a directive, literal bodies: no `${` anywhere
		if g.r.Chance(0.7) {
			return g.ifDir(0, nil, true), "directive-only(no-interpolation)"
		}
		return g.forDir(0, nil, true), "directive-only(no-interpolation)"
	case k < 54:
		// literal text mixed with directives, no `${`
		return g.items(0, nil, true, 3), "literal-and-directives(no-interpolation)"
	case k < 62:
		if g.r.Chance(0.5) {
			return g.ifDir(0, nil, false), "directive-only"
		}
		return g.forDir(0, nil, false), "directive-only"
	case k < 90:
		return g.items(0, nil, false, 3), "mixed"
	default:
		var base string
		if g.r.Chance(0.5) {
			base = g.items(0, nil, true, 3)
		} else {
			base = g.items(0, nil, false, 3)
		}
		return g.damage(base), "malformed"
	}
}

func jtQuote(s string) string { return string(jsonString(s)) }

func (g *jtGen) callText() string {
	g.f("gen:call-like-string")
	fn := g.r.Pick("upper", "upper", "first", "pair", "sum", "nosuchfn")
	n := 1
	if fn == "pair" || (fn != "upper" && g.r.Chance(0.4)) {
		n = 2
	}
	args := make([]string, n)
	for i := range args {
		var t string
		for try := 0; ; try++ {
			t, _ = g.tmplText()
			if !strings.ContainsAny(t, "\"\n") || try > 8 {
				break
			}
		}
		if strings.ContainsAny(t, "\"\n") {
			t = "%{ if t }q%{ endif }"
		}
		t = strings.ReplaceAll(t, `\`, `\\`)
		args[i] = `"` + t + `"`
	}
	return fn + "(" + strings.Join(args, ", ") + ")"
}

func (g *jtGen) value(depth int) string {
	k := g.r.Intn(20)
	switch {
	case k < 11:
		t, shape := g.tmplText()
		g.f("value:" + shape)
		return jtQuote(t)
	case k < 13:
		return g.r.Pick("0", "1", "2.5", "-3", "1e2", "true", "false", "null")
	case k < 15:
		return jtQuote(g.callText())
	case k < 18 && depth > 0:
		return g.array(depth - 1)
	case depth > 0:
		return g.object(depth - 1)
	}
	return jtQuote(g.r.Pick("x", "y", ""))
}

func (g *jtGen) array(depth int) string {
	n := g.r.Small(3)
	ps := make([]string, n)
	for i := range ps {
		ps[i] = g.value(depth)
	}
	return "[" + strings.Join(ps, ", ") + "]"
}

func (g *jtGen) object(depth int) string {
	n := 1 + g.r.Small(2)
	ps := make([]string, n)
	for i := range ps {
		t, shape := g.tmplText()
		g.f("key:" + shape)
		if !strings.Contains(t, "${") && strings.Contains(t, "%{") {
			g.f("key:has-directive-marker-but-no-interpolation-marker")
		}
		if i > 0 && g.r.Chance(0.06) {
			g.f("key:repeated")
			ps[i] = ps[g.r.Intn(i)]
			continue
		}
		ps[i] = jtQuote(t) + ": " + g.value(depth)
	}
	return "{" + strings.Join(ps, ", ") + "}"
}

// doc returns one JSON expression text
func (g *jtGen) doc() string {
	switch k := g.r.Intn(20); {
	case k < 13:
		g.f("doc:object")
		return g.object(1)
	case k < 18:
		g.f("doc:array")
		return g.array(1)
	default:
		g.f("doc:string")
		return g.value(0)
	}
}

// hand corpus (class jsontmpl)
var handJSONTmpl = []string{
	`{"%{ if flag }on%{ else }off%{ endif }": "x"}`,
	`{"%{ if f }on%{ endif }": "%{ if f }on%{ endif }", "k": ["%{ for x in xs }${x},%{ endfor }"]}`,
	`{"%{ for k, v in mp }${k}=${v};%{ endfor }": 1, "%{ for x in xs ~} ${x} %{~ endfor }": 2}`,
	`{"100%%{done}": "x", "$${a}": "y", "%%{ if t }": "%%{", "5%": "$"}`,
	`{"pre-%{ if t }${a}%{ else }${b}%{ endif }-post": "${~ n ~}", " ${~ n}": "${n}"}`,
	`{"%{ if t }": 1}`,
	`{"%{ endif }": 1, "ok": "%{ else }"}`,
	`{"%{ bogus }": "x"}`,
	`{"%{ if t ~}  k  %{~ endif }": "v", "%{ if nul }a%{ endif }": "w"}`,
	`{"%{ if t }k%{ endif }": 1, "k": 2}`,
	`["%{ if flag }on%{ endif }", "%{ for x in e }never%{ endfor }", "${xs}", "${nul}", "x${nul}"]`,
	`"upper(\"%{ if t }q%{ endif }\")"`,
	`["upper(\"${a}-%{ for x in xs }${x}%{ endfor }\")", "pair(\"%%{\", \"$${a}\")"]`,
	`"%{ for x in xs }%{ if x == \"x\" }X%{ else }${x}%{ endif }%{ endfor }"`,
}

var jtFeatRe = regexp.MustCompile(`\$\{|%\{`)

// jtFeatures: histogram of what one generated document contains
func (x *runner) jtFeatures(text string) {
	if strings.Contains(text, "%{") {
		x.rep.Hist("jsontmpl:doc-with-directive")
	}
	if strings.Contains(text, "$${") || strings.Contains(text, "%%{") {
		x.rep.Hist("jsontmpl:doc-with-escape")
	}
	if strings.Contains(text, "~") {
		x.rep.Hist("jsontmpl:doc-with-strip-marker")
	}
	if !jtFeatRe.MatchString(text) {
		x.rep.Hist("jsontmpl:doc-without-sequences")
	}
}
