package main

// C20 — Static analysis of an expression agrees with its evaluation and round-trips.
//
// Correspondence (against Eval/Static.v via Eval/StaticCheck.v and Ext/TypeExpr.v via
// Ext/TypeExprCheck.v): hcl.AbsTraversalForExpr / RelTraversalForExpr / ExprAsKeyword /
// ExprList / ExprMap / ExprCall on the implementation's own parse, Traversal.TraverseAbs,
// typeexpr.TypeString, the AST hclsyntax.ParseExpression builds for its output,
// typeexpr.TypeConstraint / Type.
// Direct oracle (real code only): static traversal applied to the scope vs evaluation;
// stand-alone traversal parsers vs the expression parser; static list/map/call parts vs
// the whole (native and JSON); TypeString -> parse (native, JSON) -> TypeConstraint.

import (
	"bytes"
	encjson "encoding/json"
	"fmt"
	"os"
	"path/filepath"
	"regexp"
	"sort"
	"strconv"
	"strings"

	"github.com/hashicorp/hcl/v2"
	"github.com/hashicorp/hcl/v2/ext/typeexpr"
	"github.com/hashicorp/hcl/v2/hclsyntax"
	"github.com/hashicorp/hcl/v2/json"
	"github.com/zclconf/go-cty/cty"
	"github.com/zclconf/go-cty/cty/convert"
	"github.com/zclconf/go-cty/cty/function"
	ctyjson "github.com/zclconf/go-cty/cty/json"
	"hclverif/hv"
)

func main() { hv.Main(map[string]func(*hv.RunCfg) error{"c20": run}) }

const importsStatic = "From Coq Require Import QArith String.\nFrom HclV Require Import Base.Prelude Cty.Values Cty.Convert Cty.Ops Eval.Impl Eval.Funcs Eval.Vars Eval.EvalCheck Eval.Static Eval.StaticCheck."
const importsType = "From Coq Require Import QArith String.\nFrom HclV Require Import Base.Prelude Cty.Values Cty.Ops Eval.Impl Eval.Vars Eval.Static Eval.StaticCheck Ext.TypeExpr Ext.TypeExprCheck."

type runner struct {
	rep                  *hv.Report
	cfTrav, cfParts, cfT *hv.CaseFile
	nTrav, nParts, nT    int
	idxTrav, idxParts, idxT []string // printable inputs per family; concatenated into report.case_index at the end
	g                    *gen
	gk                   *gen             // index-key stream (numkey.go), its own random stream
	nk                   *hcl.EvalContext // the scope stand-alone traversals are applied to (numkey.go)
	gj                   *jtGen           // JSON template documents (jsontmpl.go), its own random stream
	nameTable            map[string]string
}

func (x *runner) fail(kind, detail, input string, extra map[string]string) {
	x.rep.Fail(hv.Failure{Kind: kind, Detail: detail, Input: input, Extra: extra})
	x.rep.Hist("oracle-fail:" + kind)
}

func guard(f func()) (p any) {
	defer func() { p = recover() }()
	f()
	return nil
}

// ---- traversal cases ---------------------------------------------------------------------------

// shape of an expression with a static traversal: what its chain of traversal nodes ends in
func shapeOf(e hclsyntax.Expression) string {
	switch t := e.(type) {
	case *hclsyntax.ScopeTraversalExpr:
		return "plain"
	case *hclsyntax.RelativeTraversalExpr:
		return shapeOf(t.Source)
	case *hclsyntax.LiteralValueExpr:
		return "keyword"
	case *hclsyntax.ObjectConsKeyExpr:
		return "objkey"
	}
	return "none"
}

func coqOptTraversal(t hcl.Traversal, info *hv.ValInfo) string {
	if t == nil {
		return "None"
	}
	if t.IsRelative() {
		info.Unsupported = true
		return "None"
	}
	s := hv.CoqTraversals([]hcl.Traversal{t}, info)
	return "(Some " + strings.TrimSuffix(strings.TrimPrefix(s, "["), "]") + ")"
}

// travCase: expr is the subject expression (obtained from parsing `text`), ctx the scope.
func (x *runner) travCase(expr hclsyntax.Expression, text, wrap string, ctx *hcl.EvalContext) {
	// the whole case runs guarded: a static-analysis call that damages the expression (e.g. by writing
	// into the traversal it shares with the expression) shows up as a panic in a LATER call on the same
	// expression, and must be reported with this input rather than abort the run
	if p := guard(func() { x.travCase0(expr, text, wrap, ctx) }); p != nil {
		x.fail("panic", fmt.Sprint("static analysis followed by evaluation panicked: ", p), "trav\n"+text, nil)
	}
}

func (x *runner) travCase0(expr hclsyntax.Expression, text, wrap string, ctx *hcl.EvalContext) {
	input := "trav\n" + text
	var trav, rel hcl.Traversal
	var td, rd hcl.Diagnostics
	var kw string
	before := hv.DumpExprS(expr)
	if p := guard(func() {
		trav, td = hcl.AbsTraversalForExpr(expr)
		rel, rd = hcl.RelTraversalForExpr(expr)
		kw = hcl.ExprAsKeyword(expr)
	}); p != nil {
		x.fail("panic", fmt.Sprint("static analysis panicked: ", p), input, nil)
		return
	}
	// static analysis is a VIEW: it must leave the expression as it was (the value returned may share
	// storage with the expression, so writing into it changes what is evaluated afterwards)
	if after := hv.DumpExprS(expr); after != before {
		x.fail("static-analysis-mutates-expression", "the expression changed under AbsTraversalForExpr/RelTraversalForExpr/ExprAsKeyword: "+before+" => "+after, input, nil)
		return
	}
	x.rep.Hist("trav:wrap:" + wrap)
	// internal consistency of the three front ends
	if (trav == nil) != td.HasErrors() || (rel == nil) != rd.HasErrors() || (trav == nil) != (rel == nil) {
		x.fail("traversal-frontends-differ", "AbsTraversalForExpr / RelTraversalForExpr disagree about having a traversal", input, nil)
	}
	if trav != nil {
		want := hcl.Traversal{hcl.TraverseAttr{Name: trav.RootName()}}
		want = append(want, trav[1:]...)
		if hv.DumpTraversal(rel) != hv.DumpTraversal(want) {
			x.fail("traversal-frontends-differ", "RelTraversalForExpr is not AbsTraversalForExpr with the root as an attribute: "+hv.DumpTraversal(rel), input, nil)
		}
		wantKw := ""
		if len(trav) == 1 {
			wantKw = trav.RootName()
		}
		if kw != wantKw {
			x.fail("traversal-frontends-differ", fmt.Sprintf("ExprAsKeyword = %q, traversal %s", kw, hv.DumpTraversal(trav)), input, nil)
		}
	} else if kw != "" {
		x.fail("traversal-frontends-differ", fmt.Sprintf("ExprAsKeyword = %q without a traversal", kw), input, nil)
	}

	info := &hv.ValInfo{}
	tvS, tdS := "dyn_val", "[]"
	mode := 2
	shape := "none"
	if trav != nil {
		shape = shapeOf(expr)
		x.rep.Hist("trav:shape:" + shape)
		x.rep.Hist(fmt.Sprintf("trav:steps:%d", min(len(trav)-1, 6)))
		var tv, ev cty.Value
		var tdg, edg hcl.Diagnostics
		if p := guard(func() { tv, tdg = trav.TraverseAbs(ctx) }); p != nil {
			x.fail("panic", fmt.Sprint("TraverseAbs panicked: ", p), input, nil)
			return
		}
		if p := guard(func() { ev, edg = expr.Value(ctx) }); p != nil {
			x.fail("panic", fmt.Sprint("Value panicked: ", p), input, nil)
			return
		}
		same := hv.DumpVal(tv) == hv.DumpVal(ev) && tdg.HasErrors() == edg.HasErrors()
		switch shape {
		case "plain":
			if !same {
				x.fail("traversal-eval-differs", fmt.Sprintf("static traversal %s gives %s (errors %v), evaluation gives %s (errors %v)",
					hv.DumpTraversal(trav), hv.DumpVal(tv), tdg.HasErrors(), hv.DumpVal(ev), edg.HasErrors()), input, map[string]string{"scope": hv.CoqCtx(ctx, &hv.ValInfo{})})
			}
			if tdg.HasErrors() {
				x.rep.Hist("trav:plain:error")
			} else {
				x.rep.Hist("trav:plain:ok")
			}
		default:
			// documented deviations: keyword literals and object keys
			if same {
				x.rep.Hist("trav:" + shape + ":deviation-not-visible")
			} else {
				x.rep.Hist("trav:" + shape + ":documented-deviation")
			}
		}
		tvS = hv.CoqVal(tv, info)
		tdS = hv.CoqDiagSummaries(tdg)
		mode = 0
		if info.Inexact {
			mode = 1
		}
	} else {
		x.rep.Hist("trav:shape:none")
	}
	ctxS := hv.CoqCtx(ctx, info)
	es := hv.CoqExpr(expr, info)
	ts := coqOptTraversal(trav, info)
	if info.Unsupported {
		x.rep.Hist("trav:skipped(outside value universe)")
		x.rep.Evaluations++
		return
	}
	x.cfTrav.Add(fmt.Sprintf("mkTC %s\n  %s %s\n  %s\n  %d %s %s", es, ts, hv.CoqStr(kw), ctxS, mode, tvS, tdS))
	x.idxTrav = append(x.idxTrav, fmt.Sprintf("c20trav (%s) %s", wrap, text))
	x.nTrav++
	x.rep.Count("trav|"+text+"|"+wrap+"|"+ctxS, trav != nil && len(trav) > 1)
	if len(text) < 60 && trav != nil && len(trav) > 2 {
		x.rep.Sample(text)
	}
}

// wrapped parses the text in one of the wrapper forms and returns the subject expression.
func wrapText(text, wrap string) (string, func(hclsyntax.Expression) hclsyntax.Expression) {
	id := func(e hclsyntax.Expression) hclsyntax.Expression { return e }
	key := func(e hclsyntax.Expression) hclsyntax.Expression {
		if oc, ok := e.(*hclsyntax.ObjectConsExpr); ok && len(oc.Items) > 0 {
			return oc.Items[0].KeyExpr
		}
		return nil
	}
	switch wrap {
	case "paren":
		return "(" + text + ")", id
	case "template":
		return `"${` + text + `}"`, id
	case "objkey":
		return "{" + text + " = 1}", key
	case "objkey-paren":
		return "{(" + text + ") = 1}", key
	case "tuple-elem":
		return "[\n" + text + "\n,\n 1]", func(e hclsyntax.Expression) hclsyntax.Expression {
			if tc, ok := e.(*hclsyntax.TupleConsExpr); ok && len(tc.Exprs) > 0 {
				return tc.Exprs[0]
			}
			return nil
		}
	case "call-arg":
		return "first(" + text + "\n)", func(e hclsyntax.Expression) hclsyntax.Expression {
			if fc, ok := e.(*hclsyntax.FunctionCallExpr); ok && len(fc.Args) > 0 {
				return fc.Args[0]
			}
			return nil
		}
	}
	return text, id
}

func (x *runner) travText(text, wrap string, ctx *hcl.EvalContext) {
	full, sel := wrapText(text, wrap)
	e, pd := hclsyntax.ParseExpression([]byte(full), "e.hcl", hcl.InitialPos)
	if pd.HasErrors() {
		x.rep.Hist("trav:parse-error")
		x.rep.Evaluations++
		return
	}
	sub := sel(e)
	if sub == nil {
		x.rep.Hist("trav:parse-other-shape")
		x.rep.Evaluations++
		return
	}
	x.travCase(sub, full, wrap, ctx)
}

// ---- stand-alone traversal parsers ---------------------------------------------------------------

// flatten an expression into traversal steps with splats, as ParseTraversalPartial sees it
func flattenPartial(e hclsyntax.Expression, rel bool) (hcl.Traversal, bool) {
	switch t := e.(type) {
	case *hclsyntax.AnonSymbolExpr:
		if rel {
			return hcl.Traversal{}, true
		}
		return nil, false
	case *hclsyntax.SplatExpr:
		src, ok := flattenPartial(t.Source, rel)
		if !ok {
			return nil, false
		}
		each, ok := flattenPartial(t.Each, true)
		if !ok {
			return nil, false
		}
		ret := append(hcl.Traversal{}, src...)
		ret = append(ret, hcl.TraverseSplat{})
		return append(ret, each...), true
	case *hclsyntax.RelativeTraversalExpr:
		src, ok := flattenPartial(t.Source, rel)
		if !ok {
			return nil, false
		}
		return append(append(hcl.Traversal{}, src...), t.Traversal...), true
	default:
		if rel {
			return nil, false
		}
		tr, d := hcl.AbsTraversalForExpr(e)
		if d.HasErrors() {
			return nil, false
		}
		return tr, true
	}
}

func hasSplat(t hcl.Traversal) bool {
	for _, s := range t {
		if _, ok := s.(hcl.TraverseSplat); ok {
			return true
		}
	}
	return false
}

func (x *runner) standaloneCase(src string) {
	input := "standalone\n" + src
	var ta, tp hcl.Traversal
	var da, dp, de hcl.Diagnostics
	var e hclsyntax.Expression
	if p := guard(func() {
		ta, da = hclsyntax.ParseTraversalAbs([]byte(src), "t.hcl", hcl.InitialPos)
		tp, dp = hclsyntax.ParseTraversalPartial([]byte(src), "t.hcl", hcl.InitialPos)
		e, de = hclsyntax.ParseExpression([]byte(src), "t.hcl", hcl.InitialPos)
	}); p != nil {
		x.fail("panic", fmt.Sprint("traversal/expression parser panicked: ", p), input, nil)
		return
	}
	nontrivial := false
	var et hcl.Traversal
	var etd hcl.Diagnostics = hcl.Diagnostics{{Severity: hcl.DiagError}}
	if !de.HasErrors() {
		et, etd = hcl.AbsTraversalForExpr(e)
	}
	if !da.HasErrors() {
		x.rep.Hist("standalone:abs-accepted")
		nontrivial = len(ta) > 1
		switch {
		case de.HasErrors():
			x.fail("standalone-traversal-differs", "ParseTraversalAbs accepts the text, ParseExpression reports: "+de.Error(), input, nil)
		case etd.HasErrors():
			x.fail("standalone-traversal-differs", "ParseTraversalAbs accepts the text, the expression "+hv.DumpExprS(e)+" has no static traversal", input, nil)
		case hv.DumpTraversal(et) != hv.DumpTraversal(ta):
			x.fail("standalone-traversal-differs", "ParseTraversalAbs: "+hv.DumpTraversal(ta)+"; expression: "+hv.DumpTraversal(et), input, nil)
		}
		// the JSON syntax reads a string as a traversal through the same parser
		if utf8Valid(src) {
			if je, jd := json.ParseExpression(jsonString(src), "t.json"); !jd.HasErrors() {
				jt, jtd := hcl.AbsTraversalForExpr(je)
				if jtd.HasErrors() || hv.DumpTraversal(jt) != hv.DumpTraversal(ta) {
					x.fail("json-traversal-differs", "JSON string: "+hv.DumpTraversal(jt)+"; ParseTraversalAbs: "+hv.DumpTraversal(ta), input, nil)
				}
				x.rep.Hist("standalone:json-string-as-traversal")
			}
		}
	} else {
		x.rep.Hist("standalone:abs-rejected")
		if !etd.HasErrors() {
			// the other direction is not claimed: legacy index, bool/null keys, ...
			x.rep.Hist("standalone:expression-only-traversal")
		}
	}
	if !dp.HasErrors() {
		if !hasSplat(tp) {
			if da.HasErrors() || hv.DumpTraversal(tp) != hv.DumpTraversal(ta) {
				x.fail("standalone-traversal-differs", "ParseTraversalPartial (no splat): "+hv.DumpTraversal(tp)+"; ParseTraversalAbs: "+hv.DumpTraversal(ta)+" errors="+fmt.Sprint(da.HasErrors()), input, nil)
			}
		} else {
			x.rep.Hist("standalone:partial-with-splat")
			nontrivial = true
			if de.HasErrors() {
				x.fail("standalone-traversal-differs", "ParseTraversalPartial accepts the text, ParseExpression reports: "+de.Error(), input, nil)
			} else if ft, ok := flattenPartial(e, false); !ok || hv.DumpTraversal(ft) != hv.DumpTraversal(tp) {
				x.fail("standalone-traversal-differs", "ParseTraversalPartial: "+hv.DumpTraversal(tp)+"; expression "+hv.DumpExprS(e)+" flattens to "+hv.DumpTraversal(ft), input, nil)
			}
		}
	} else if !da.HasErrors() {
		x.fail("standalone-traversal-differs", "ParseTraversalAbs accepts the text, ParseTraversalPartial reports: "+dp.Error(), input, nil)
	}
	// against the independent reading of the text, and applied to a scope (numkey.go)
	if p := guard(func() { x.refStandalone(src, input, ta, da, tp, dp, e, de, et, etd) }); p != nil {
		x.fail("panic", fmt.Sprint("traversal of a stand-alone text: ", p), input, nil)
	}
	x.rep.Count("standalone|"+src, nontrivial)
}

func utf8Valid(s string) bool { return strings.ToValidUTF8(s, "�") == s }

func jsonString(s string) []byte {
	var buf bytes.Buffer
	enc := encjson.NewEncoder(&buf)
	enc.SetEscapeHTML(false)
	_ = enc.Encode(s)
	return bytes.TrimSpace(buf.Bytes())
}

// ---- list / map / call cases -----------------------------------------------------------------------

func lookupFn(ctx *hcl.EvalContext, name string) (function.Function, bool) {
	for c := ctx; c != nil; c = c.Parent() {
		if c.Functions == nil {
			continue
		}
		if f, ok := c.Functions[name]; ok {
			return f, true
		}
	}
	return function.Function{}, false
}

// mapOracle: pairs evaluated one by one against the value of the whole object expression.
func (x *runner) mapOracle(pairs []hcl.KeyValuePair, whole cty.Value, wd hcl.Diagnostics, ctx *hcl.EvalContext, jsonMode bool, input string) {
	anyErr, nice, dup := false, true, false
	m := map[string]cty.Value{}
	for _, p := range pairs {
		kv, kd := p.Key.Value(ctx)
		vv, vd := p.Value.Value(ctx)
		if kd.HasErrors() || vd.HasErrors() {
			anyErr = true
		}
		if kd.HasErrors() || kv.IsMarked() || !kv.IsKnown() || kv.IsNull() {
			nice = false
			continue
		}
		ks, err := convert.Convert(kv, cty.String)
		if err != nil || !ks.IsKnown() || ks.IsNull() {
			nice = false
			continue
		}
		name := ks.AsString()
		if _, ok := m[name]; ok {
			dup = true
			if jsonMode {
				continue // JSON: "Duplicate object attribute", first one stays
			}
		}
		m[name] = vv
	}
	kind := "exprmap-differs"
	if anyErr && !wd.HasErrors() {
		x.fail(kind, "a key or value has errors, the whole object has none", input, nil)
		return
	}
	if !nice {
		x.rep.Hist("parts:map:keys-not-plain")
		return
	}
	wantErr := anyErr || (jsonMode && dup)
	if wd.HasErrors() != wantErr {
		x.fail(kind, fmt.Sprintf("errors: whole %v, pairs %v", wd.HasErrors(), wantErr), input, nil)
		return
	}
	if dup {
		x.rep.Hist("parts:map:duplicate-key")
	}
	want := cty.ObjectVal(m)
	if hv.DumpVal(whole) != hv.DumpVal(want) {
		x.fail(kind, "whole "+hv.DumpVal(whole)+" pairs "+hv.DumpVal(want), input, nil)
	}
}

func (x *runner) listOracle(elems []hcl.Expression, whole cty.Value, wd hcl.Diagnostics, ctx *hcl.EvalContext, input string) {
	vals := make([]cty.Value, len(elems))
	n := 0
	var sums []string
	for i, el := range elems {
		v, d := el.Value(ctx)
		vals[i] = v
		n += len(d)
		for _, dd := range d {
			sums = append(sums, dd.Summary)
		}
	}
	var wsums []string
	for _, dd := range wd {
		wsums = append(wsums, dd.Summary)
	}
	want := cty.TupleVal(vals)
	if hv.DumpVal(whole) != hv.DumpVal(want) {
		x.fail("exprlist-differs", "whole "+hv.DumpVal(whole)+" elements "+hv.DumpVal(want), input, nil)
	} else if strings.Join(sums, "|") != strings.Join(wsums, "|") {
		x.fail("exprlist-differs", "diagnostics of the whole ["+strings.Join(wsums, "|")+"] are not those of the elements in order ["+strings.Join(sums, "|")+"]", input, nil)
	}
}

// applyStatic applies f to the given argument values the way a call expression does (arity, conversion
// to the parameter types, f.Call) and compares with what the whole call expression gave.  problem is ""
// when they agree; panicked reports that the direct application could not be made.
func applyStatic(f function.Function, name string, vals []cty.Value, argErr bool, whole cty.Value, wd hcl.Diagnostics) (problem string, panicked bool) {
	params, varp := f.Params(), f.VarParam()
	wantErr := argErr || len(vals) < len(params) || (varp == nil && len(vals) > len(params))
	vals = append([]cty.Value(nil), vals...)
	for i, v := range vals {
		var p *function.Parameter
		if i < len(params) {
			p = &params[i]
		} else {
			p = varp
		}
		if p != nil {
			cv, err := convert.Convert(v, p.Type)
			if err != nil {
				wantErr = true
			} else {
				v = cv
			}
		}
		vals[i] = v
	}
	var rv cty.Value
	if !wantErr {
		var err error
		if p := guard(func() { rv, err = f.Call(vals) }); p != nil {
			return "", true
		}
		if err != nil {
			wantErr = true
		}
	}
	if wantErr {
		if !wd.HasErrors() {
			return fmt.Sprintf("applying %s to the static arguments fails, the whole call gives %s without errors", name, hv.DumpVal(whole)), false
		}
		return "", false
	}
	if wd.HasErrors() {
		return fmt.Sprintf("applying %s to the static arguments gives %s, the whole call reports: %s", name, hv.DumpVal(rv), wd.Error()), false
	}
	if hv.DumpVal(rv) != hv.DumpVal(whole) {
		return fmt.Sprintf("applying %s to the static arguments gives %s, the whole call gives %s", name, hv.DumpVal(rv), hv.DumpVal(whole)), false
	}
	return "", false
}

// expandedAgrees: the repaired reading of f(a, ..., xs...): the final argument is expanded the way
// FunctionCallExpr.Value expands it (null or not a list/set/tuple: an error; unknown or dynamically typed:
// the whole call is unknown; otherwise one argument per element, carrying the collection's marks) and
// THEN the static application agrees with the whole call.
// (FunctionCallExpr.Value looks at the expansion argument BEFORE it evaluates the others, so an unknown
// xs makes the whole call unknown even when another argument is in error: lastErr / otherErr.)
func expandedAgrees(f function.Function, name string, vals []cty.Value, lastErr, otherErr bool, whole cty.Value, wd hcl.Diagnostics) bool {
	if len(vals) == 0 {
		return false
	}
	if lastErr {
		return wd.HasErrors()
	}
	last, marks := vals[len(vals)-1].Unmark()
	ty := last.Type()
	unknownWhole := func() bool {
		u, _ := whole.Unmark()
		return !wd.HasErrors() && !u.IsKnown() && u.Type() == cty.DynamicPseudoType
	}
	switch {
	case ty == cty.DynamicPseudoType:
		if last.IsNull() {
			return wd.HasErrors()
		}
		return unknownWhole()
	case ty.IsListType() || ty.IsSetType() || ty.IsTupleType():
		if last.IsNull() {
			return wd.HasErrors()
		}
		if !last.IsKnown() {
			return unknownWhole()
		}
		ex := append([]cty.Value(nil), vals[:len(vals)-1]...)
		for it := last.ElementIterator(); it.Next(); {
			_, ev := it.Element()
			ex = append(ex, ev.WithMarks(marks))
		}
		cmp := whole
		if last.LengthInt() == 0 && len(marks) > 0 && !wd.HasErrors() {
			// an EMPTY marked collection has no element to carry its marks: FunctionCallExpr.Value puts
			// them on the call's result instead (fix 663246c); the static application cannot know them
			u, wm := whole.Unmark()
			rest := cty.NewValueMarks()
			for m := range wm {
				if _, fromColl := marks[m]; !fromColl {
					rest[m] = struct{}{}
				}
			}
			cmp = u.WithMarks(rest)
		}
		problem, panicked := applyStatic(f, name, ex, otherErr, cmp, wd)
		return !panicked && problem == ""
	}
	return wd.HasErrors()
}

func (x *runner) callOracle(call *hcl.StaticCall, expand bool, whole cty.Value, wd hcl.Diagnostics, ctx *hcl.EvalContext, input string) {
	f, ok := lookupFn(ctx, call.Name)
	if !ok {
		if !wd.HasErrors() {
			x.fail("exprcall-differs", "no such function, yet the whole call has no errors", input, nil)
		}
		return
	}
	vals := make([]cty.Value, len(call.Arguments))
	argErr, lastErr, otherErr := false, false, false
	for i, a := range call.Arguments {
		v, d := a.Value(ctx)
		if d.HasErrors() {
			argErr = true
			if i == len(call.Arguments)-1 {
				lastErr = true
			} else {
				otherErr = true
			}
		}
		vals[i] = v
	}
	problem, panicked := applyStatic(f, call.Name, vals, argErr, whole, wd)
	if panicked {
		x.rep.Hist("parts:call:direct-call-panicked")
		return
	}
	if problem == "" {
		return
	}
	// The pinned finding: hcl.ExprCall drops the "..." of f(xs...).  The disagreement is filed under it
	// only when it is explained by exactly that: with the final argument expanded, name and arguments of
	// the StaticCall do give what the whole call gives.  Any other disagreement of a call that happens
	// to use "..." keeps the generic kind.
	kind := "exprcall-differs"
	if expand && expandedAgrees(f, call.Name, vals, lastErr, otherErr, whole, wd) {
		kind = "exprcall-expand-dropped"
	}
	x.fail(kind, problem, input, nil)
}

func (x *runner) partsCase(e hclsyntax.Expression, text string, ctx *hcl.EvalContext) {
	input := "parts\n" + text
	var l []hcl.Expression
	var m []hcl.KeyValuePair
	var c *hcl.StaticCall
	var ld, md, cd hcl.Diagnostics
	var whole cty.Value
	var wd hcl.Diagnostics
	if p := guard(func() {
		l, ld = hcl.ExprList(e)
		m, md = hcl.ExprMap(e)
		c, cd = hcl.ExprCall(e)
		whole, wd = e.Value(ctx)
	}); p != nil {
		x.fail("panic", fmt.Sprint(p), input, nil)
		return
	}
	if (l == nil) != ld.HasErrors() || (m == nil) != md.HasErrors() || (c == nil) != cd.HasErrors() {
		x.fail("parts-frontends-differ", "nil result without diagnostics or the reverse", input, nil)
	}
	info := &hv.ValInfo{}
	ls, ms, cs := "None", "None", "None"
	nontrivial := false
	if p := guard(func() {
		if l != nil {
			x.rep.Hist("parts:native:list")
			nontrivial = len(l) > 0
			x.listOracle(l, whole, wd, ctx, input)
			var ps []string
			for _, el := range l {
				ps = append(ps, hv.CoqExpr(el.(hclsyntax.Expression), info))
			}
			ls = "(Some " + hv.CoqList(ps) + ")"
		}
		if m != nil {
			x.rep.Hist("parts:native:map")
			nontrivial = len(m) > 0
			x.mapOracle(m, whole, wd, ctx, false, input)
			var ps []string
			for _, kv := range m {
				ps = append(ps, "("+hv.CoqExpr(kv.Key.(hclsyntax.Expression), info)+", "+hv.CoqExpr(kv.Value.(hclsyntax.Expression), info)+")")
			}
			ms = "(Some " + hv.CoqList(ps) + ")"
		}
		if c != nil {
			x.rep.Hist("parts:native:call")
			nontrivial = true
			fc, _ := e.(*hclsyntax.FunctionCallExpr)
			expand := fc != nil && fc.ExpandFinal
			if expand {
				x.rep.Hist("parts:native:call-with-expansion")
			}
			x.callOracle(c, expand, whole, wd, ctx, input)
			var ps []string
			for _, a := range c.Arguments {
				ps = append(ps, hv.CoqExpr(a.(hclsyntax.Expression), info))
			}
			cs = "(Some (" + hv.CoqStr(c.Name) + ", " + hv.CoqList(ps) + "))"
		}
	}); p != nil {
		x.fail("panic", fmt.Sprint("evaluating parts panicked: ", p), input, nil)
		return
	}
	if l == nil && m == nil && c == nil {
		x.rep.Hist("parts:native:none")
	}
	es := hv.CoqExpr(e, info)
	if info.Unsupported {
		x.rep.Evaluations++
		return
	}
	x.cfParts.Add(fmt.Sprintf("mkPC %s\n  %s\n  %s\n  %s", es, ls, ms, cs))
	x.idxParts = append(x.idxParts, "c20parts "+text)
	x.nParts++
	x.rep.Count("parts|"+text+"|"+hv.CoqCtx(ctx, &hv.ValInfo{}), nontrivial)
}

func (x *runner) partsText(text string, ctx *hcl.EvalContext) {
	e, pd := hclsyntax.ParseExpression([]byte(text), "e.hcl", hcl.InitialPos)
	if pd.HasErrors() {
		x.rep.Hist("parts:parse-error")
		x.rep.Evaluations++
		return
	}
	x.partsCase(e, text, ctx)
	// the keys of an object constructor do not unwrap (ObjectConsKeyExpr.UnwrapExpression has
	// the wrong signature for hcl.unwrapExpression): record what the front ends say about them
	if oc, ok := e.(*hclsyntax.ObjectConsExpr); ok {
		for _, it := range oc.Items {
			k := it.KeyExpr.(*hclsyntax.ObjectConsKeyExpr)
			_, ld := hcl.ExprList(k)
			_, ld2 := hcl.ExprList(k.Wrapped)
			_, cd := hcl.ExprCall(k)
			_, cd2 := hcl.ExprCall(k.Wrapped)
			if ld.HasErrors() != ld2.HasErrors() || cd.HasErrors() != cd2.HasErrors() {
				x.rep.Hist("parts:objkey-does-not-unwrap")
			}
		}
	}
}

func (x *runner) jsonPartsCase(text string, ctx *hcl.EvalContext) {
	input := "jsonparts\n" + text
	je, jd := json.ParseExpression([]byte(text), "e.json")
	if jd.HasErrors() {
		x.rep.Hist("parts:json:parse-error")
		x.rep.Evaluations++
		return
	}
	if p := guard(func() {
		whole, wd := je.Value(ctx)
		if l, ld := hcl.ExprList(je); !ld.HasErrors() {
			x.rep.Hist("parts:json:list")
			x.listOracle(l, whole, wd, ctx, input)
		}
		if m, md := hcl.ExprMap(je); !md.HasErrors() {
			x.rep.Hist("parts:json:map")
			x.mapOracle(m, whole, wd, ctx, true, input)
		}
	}); p != nil {
		if strings.Contains(fmt.Sprint(p), "value is marked") {
			x.fail("json-object-marked-key-panic", fmt.Sprint("json expression.Value panicked: ", p), input, map[string]string{"scope": hv.CoqCtx(ctx, &hv.ValInfo{})})
		} else {
			x.fail("panic", fmt.Sprint(p), input, nil)
		}
	}
	x.rep.Count("jsonparts|"+text, strings.HasPrefix(text, "[") || strings.HasPrefix(text, "{"))
}

// a JSON string holding a native call: the static call is the native one
func (x *runner) jsonCallCase(native string) {
	input := "jsoncall\n" + native
	if !utf8Valid(native) {
		return
	}
	e, pd := hclsyntax.ParseExpression([]byte(native), "e.hcl", hcl.InitialPos)
	je, jd := json.ParseExpression(jsonString(native), "e.json")
	if jd.HasErrors() {
		return
	}
	var nc, jc *hcl.StaticCall
	var ncd, jcd hcl.Diagnostics
	if p := guard(func() {
		if !pd.HasErrors() {
			nc, ncd = hcl.ExprCall(e)
		} else {
			ncd = pd
		}
		jc, jcd = hcl.ExprCall(je)
	}); p != nil {
		x.fail("panic", fmt.Sprint(p), input, nil)
		return
	}
	dump := func(c *hcl.StaticCall) string {
		if c == nil {
			return "nil"
		}
		s := c.Name
		for _, a := range c.Arguments {
			s += " " + hv.DumpExprS(a.(hclsyntax.Expression))
		}
		return s
	}
	if ncd.HasErrors() != jcd.HasErrors() || dump(nc) != dump(jc) {
		x.fail("exprcall-differs", "native: "+dump(nc)+"; JSON string: "+dump(jc), input, nil)
	}
	if jc != nil {
		x.rep.Hist("parts:json:call")
	}
}

// ---- types -----------------------------------------------------------------------------------------

func walkNames(ty cty.Type, f func(string)) {
	switch {
	case ty.IsCollectionType():
		walkNames(ty.ElementType(), f)
	case ty.IsTupleType():
		for _, e := range ty.TupleElementTypes() {
			walkNames(e, f)
		}
	case ty.IsObjectType():
		for n, a := range ty.AttributeTypes() {
			f(n)
			walkNames(a, f)
		}
	}
}

func realIdent(n string) bool {
	return hclsyntax.ValidIdentifier(n) && !strings.HasPrefix(n, "\ufeff")
}

func namesIdent(ty cty.Type) bool {
	ok := true
	walkNames(ty, func(n string) {
		if !realIdent(n) {
			ok = false
		}
	})
	return ok
}

// quoted names that survive Go quoting + HCL unquoting unchanged
func namesComparable(ty cty.Type) bool {
	ok := true
	walkNames(ty, func(n string) {
		if realIdent(n) {
			return
		}
		if hclsyntax.ValidIdentifier(n) {
			ok = false // (before /repo 470ca2c: BOM + identifier was printed bare)
			return
		}
		for _, b := range []byte(n) {
			if b < 0x20 || b > 0x7e || b == '"' || b == '\\' || b == '$' || b == '%' {
				ok = false
			}
		}
	})
	return ok
}

func firstAttrFor(ty cty.Type) bool {
	switch {
	case ty.IsCollectionType():
		return firstAttrFor(ty.ElementType())
	case ty.IsTupleType():
		for _, e := range ty.TupleElementTypes() {
			if firstAttrFor(e) {
				return true
			}
		}
	case ty.IsObjectType():
		names := hv.SortedKeys(ty.AttributeTypes())
		if len(names) > 0 && names[0] == "for" {
			return true
		}
		for _, n := range names {
			if firstAttrFor(ty.AttributeType(n)) {
				return true
			}
		}
	}
	return false
}

func hasOptional(ty cty.Type) bool {
	switch {
	case ty.IsCollectionType():
		return hasOptional(ty.ElementType())
	case ty.IsTupleType():
		for _, e := range ty.TupleElementTypes() {
			if hasOptional(e) {
				return true
			}
		}
	case ty.IsObjectType():
		if len(ty.OptionalAttributes()) > 0 {
			return true
		}
		for _, a := range ty.AttributeTypes() {
			if hasOptional(a) {
				return true
			}
		}
	}
	return false
}

var typeDiagIDs = []struct {
	sub string
	id  int
}{
	{"cannot be used in this type specification", 1},
	{"type constructor requires one argument specifying the element type.", 2},
	{"The object type constructor requires one argument", 3},
	{"The tuple type constructor requires one argument", 4},
	{"is not a valid type specification.", 5},
	{"A type specification is either", 6},
	{"Primitive type keyword", 7},
	{"Type constraint keyword", 8},
	{"Object type constructor requires a map", 9},
	{"Object constructor map keys must be attribute names.", 10},
	{"Object constructor map keys must be unique.", 11},
	{"Optional attribute modifier requires the attribute type", 12},
	{"Optional attribute modifier expects at most two", 13},
	{"Optional attribute modifier expects only one", 14},
	{"Optional attribute modifier is only for type constraints", 15},
	{"Tuple type constructor requires a list", 16},
	{"is valid only as a modifier for object type attributes.", 17},
	{"is not a valid type constructor.", 18},
}

func typeDiags(ds hcl.Diagnostics) []int {
	var ids []int
	for _, d := range ds {
		id := 999
		if d.Summary == "Invalid type specification" {
			for _, t := range typeDiagIDs {
				if strings.Contains(d.Detail, t.sub) {
					id = t.id
					break
				}
			}
		}
		if d.Severity != hcl.DiagError {
			id = -id
		}
		ids = append(ids, id)
	}
	return ids
}

// getTypeCase: typeexpr.Type / TypeConstraint on a native expression -> Coq cases
func (x *runner) getTypeCase(e hclsyntax.Expression, label string) {
	for _, constraint := range []bool{true, false} {
		var ty cty.Type
		var ds hcl.Diagnostics
		if p := guard(func() {
			if constraint {
				ty, ds = typeexpr.TypeConstraint(e)
			} else {
				ty, ds = typeexpr.Type(e)
			}
		}); p != nil {
			x.fail("panic", fmt.Sprint("typeexpr panicked: ", p), "typeexpr\n"+label, nil)
			return
		}
		info := &hv.ValInfo{}
		es := hv.CoqExpr(e, info)
		if info.Unsupported {
			return
		}
		for _, id := range typeDiags(ds) {
			x.rep.Hist(fmt.Sprintf("gettype:diag:%d", id))
		}
		if !ds.HasErrors() {
			x.rep.Hist("gettype:ok")
		}
		x.cfT.Add(fmt.Sprintf("TGet %s %s\n  %s %s %s", hv.CoqBool(constraint), es, hv.CoqType(ty), hv.CoqZList(typeDiags(ds)), hv.CoqBool(hasOptional(ty))))
		x.idxT = append(x.idxT, fmt.Sprintf("c20type TGet constraint=%v %s", constraint, label))
		x.nT++
	}
}

func typeFeatures(rep *hv.Report, ty cty.Type, depth int) int {
	max := depth
	up := func(d int) {
		if d > max {
			max = d
		}
	}
	switch {
	case ty == cty.DynamicPseudoType:
		rep.Hist("type:any")
	case ty.IsPrimitiveType():
		rep.Hist("type:primitive")
	case ty.IsListType():
		rep.Hist("type:list")
		up(typeFeatures(rep, ty.ElementType(), depth+1))
	case ty.IsSetType():
		rep.Hist("type:set")
		up(typeFeatures(rep, ty.ElementType(), depth+1))
	case ty.IsMapType():
		rep.Hist("type:map")
		up(typeFeatures(rep, ty.ElementType(), depth+1))
	case ty.IsTupleType():
		rep.Hist("type:tuple")
		for _, e := range ty.TupleElementTypes() {
			up(typeFeatures(rep, e, depth+1))
		}
	case ty.IsObjectType():
		rep.Hist("type:object")
		for n, a := range ty.AttributeTypes() {
			switch {
			case n == "for" || n == "if" || n == "in" || n == "else" || n == "endif" || n == "endfor" || n == "null" || n == "true" || n == "false":
				rep.Hist("type:name-keyword")
			case !realIdent(n):
				rep.Hist("type:name-nonident")
			case len(n) != len([]rune(n)):
				rep.Hist("type:name-unicode")
			case strings.Contains(n, "-"):
				rep.Hist("type:name-dash")
			default:
				rep.Hist("type:name-plain")
			}
			up(typeFeatures(rep, a, depth+1))
		}
	}
	return max
}

// roundTrip: TypeString -> parse (native / JSON) -> TypeConstraint; "" = identical type
func roundTrip(ty cty.Type, s string, viaJSON bool) (problem string, parseDiags hcl.Diagnostics) {
	var e hcl.Expression
	var pd hcl.Diagnostics
	if viaJSON {
		e, pd = json.ParseExpression(jsonString(s), "t.json")
	} else {
		e, pd = hclsyntax.ParseExpression([]byte(s), "t.hcl", hcl.InitialPos)
	}
	if pd.HasErrors() {
		return "does not parse: " + pd.Error(), pd
	}
	var got cty.Type
	var gd hcl.Diagnostics
	if p := guard(func() { got, gd = typeexpr.TypeConstraint(e) }); p != nil {
		return fmt.Sprint("TypeConstraint panicked: ", p), nil
	}
	if gd.HasErrors() {
		return "TypeConstraint reports: " + gd.Error(), gd
	}
	if !got.Equals(ty) {
		return "parses back to a different type: " + hv.DumpType(got), nil
	}
	return "", nil
}

// stripOptional returns the type with every optional attribute made required.
func stripOptional(ty cty.Type) cty.Type {
	switch {
	case ty.IsListType():
		return cty.List(stripOptional(ty.ElementType()))
	case ty.IsSetType():
		return cty.Set(stripOptional(ty.ElementType()))
	case ty.IsMapType():
		return cty.Map(stripOptional(ty.ElementType()))
	case ty.IsTupleType():
		ets := ty.TupleElementTypes()
		out := make([]cty.Type, len(ets))
		for i, e := range ets {
			out[i] = stripOptional(e)
		}
		return cty.Tuple(out)
	case ty.IsObjectType():
		out := map[string]cty.Type{}
		for n, a := range ty.AttributeTypes() {
			out[n] = stripOptional(a)
		}
		return cty.Object(out)
	}
	return ty
}

// the only difference after the round trip is that optional attributes became required
func roundTripIgnoringOptional(ty cty.Type, s string, viaJSON bool) bool {
	p, _ := roundTrip(stripOptional(ty), s, viaJSON)
	return p == ""
}

// renameAttr returns ty with every object attribute called from renamed to to (optionality kept).
func renameAttr(ty cty.Type, from, to string) cty.Type {
	switch {
	case ty.IsListType():
		return cty.List(renameAttr(ty.ElementType(), from, to))
	case ty.IsSetType():
		return cty.Set(renameAttr(ty.ElementType(), from, to))
	case ty.IsMapType():
		return cty.Map(renameAttr(ty.ElementType(), from, to))
	case ty.IsTupleType():
		ets := ty.TupleElementTypes()
		out := make([]cty.Type, len(ets))
		for i, e := range ets {
			out[i] = renameAttr(e, from, to)
		}
		return cty.Tuple(out)
	case ty.IsObjectType():
		out := map[string]cty.Type{}
		var opt []string
		for n, a := range ty.AttributeTypes() {
			nn := n
			if n == from {
				nn = to
			}
			out[nn] = renameAttr(a, from, to)
			if ty.AttributeOptional(n) {
				opt = append(opt, nn)
			}
		}
		return cty.ObjectWithOptionalAttrs(out, opt)
	}
	return ty
}

// forIsTheCause decides the pinned finding typestring-first-attr-for for one type: (1) the native parser
// reports a 'for' expression error exactly where TypeString wrote "{for" (an object whose first attribute
// is called for), and (2) with that one name replaced by a fresh identifier - nothing else changed - the
// type round-trips through both syntaxes (up to the other pinned finding, dropped optional markers).
// Any other round-trip failure of a type that merely contains such an object keeps the generic kind.
func forIsTheCause(ty cty.Type, s string, npd hcl.Diagnostics) bool {
	at := false
	for _, d := range npd {
		if d.Severity == hcl.DiagError && strings.Contains(d.Summary, "'for' expression") && d.Subject != nil &&
			d.Subject.Start.Byte <= len(s) && strings.HasSuffix(strings.TrimRight(s[:d.Subject.Start.Byte], " "), "{for") {
			at = true
		}
	}
	if !at {
		return false
	}
	fresh := "for_"
	for used := true; used; {
		used = false
		walkNames(ty, func(n string) {
			if n == fresh {
				used = true
			}
		})
		if used {
			fresh += "x"
		}
	}
	ty2 := renameAttr(ty, "for", fresh)
	var s2 string
	if p := guard(func() { s2 = typeexpr.TypeString(ty2) }); p != nil {
		return false
	}
	for _, viaJSON := range []bool{false, true} {
		if p, _ := roundTrip(ty2, s2, viaJSON); p != "" && !(hasOptional(ty2) && roundTripIgnoringOptional(ty2, s2, viaJSON)) {
			return false
		}
	}
	return true
}

func isForDiag(ds hcl.Diagnostics) bool {
	for _, d := range ds {
		if strings.Contains(d.Summary, "'for' expression") {
			return true
		}
	}
	return false
}

func typeInput(ty cty.Type) string {
	b, err := ctyjson.MarshalType(ty)
	if err != nil {
		return "type\n" + hv.DumpType(ty)
	}
	return "type\n" + string(b)
}

func (x *runner) typeCase(ty cty.Type) {
	input := typeInput(ty)
	var s string
	if p := guard(func() { s = typeexpr.TypeString(ty) }); p != nil {
		x.fail("panic", fmt.Sprint("TypeString panicked: ", p), input, nil)
		return
	}
	depth := typeFeatures(x.rep, ty, 0)
	x.rep.Hist(fmt.Sprintf("type:depth:%d", min(depth, 6)))
	ident := namesIdent(ty)
	forFirst := firstAttrFor(ty)
	if forFirst {
		x.rep.Hist("type:first-attr-for")
	}
	if !ident {
		x.rep.Hist("type:outside-quantifier(non-identifier name)")
	}
	// direct oracle
	_, npd := hclsyntax.ParseExpression([]byte(s), "t.hcl", hcl.InitialPos)
	// the native parser reads "{for" as a for-expression (the JSON syntax parses the string natively)
	forCause := forFirst && isForDiag(npd) && forIsTheCause(ty, s, npd)
	opt := hasOptional(ty)
	if opt {
		x.rep.Hist("type:optional-attribute")
	}
	for _, viaJSON := range []bool{false, true} {
		syn := "native"
		if viaJSON {
			syn = "json"
		}
		problem, _ := roundTrip(ty, s, viaJSON)
		switch {
		case problem == "":
			x.rep.Hist("type:roundtrip-" + syn + ":ok")
		case !ident:
			// TypeString quotes such names and getType accepts no quoted key: outside the property
			x.rep.Hist("type:roundtrip-" + syn + ":fails(non-identifier name)")
		case forCause:
			x.fail("typestring-first-attr-for", syn+": "+s+" "+problem, input, map[string]string{"typestring": s})
		case opt && roundTripIgnoringOptional(ty, s, viaJSON):
			x.fail("typestring-optional-dropped", syn+": "+s+" "+problem, input, map[string]string{"typestring": s})
		default:
			x.fail("type-roundtrip-"+syn+"-differs", s+" "+problem, input, map[string]string{"typestring": s})
		}
	}
	// Coq cases
	x.cfT.Add(fmt.Sprintf("TString %s %s", hv.CoqType(ty), hv.Hexs([]byte(s))))
	x.idxT = append(x.idxT, "c20type TString "+s)
	x.nT++
	e, pd := hclsyntax.ParseExpression([]byte(s), "t.hcl", hcl.InitialPos)
	ast := "None"
	info := &hv.ValInfo{}
	if !pd.HasErrors() {
		ast = "(Some " + hv.CoqExpr(e, info) + ")"
	}
	if !info.Unsupported {
		x.cfT.Add(fmt.Sprintf("TExpr %s %s %s\n  %s", hv.CoqType(ty), hv.CoqBool(ident), hv.CoqBool(namesComparable(ty)), ast))
		x.idxT = append(x.idxT, "c20type TExpr "+s)
		x.nT++
	}
	if !pd.HasErrors() {
		x.getTypeCase(e, s)
	}
	x.rep.Count(input, depth > 0)
	if len(s) < 70 && depth > 1 {
		x.rep.Sample(s)
	}
}

// typeExprCase: a type-expression text (mostly erroneous): Coq cases + native/JSON agreement
func (x *runner) typeExprCase(text string) {
	input := "typeexpr\n" + text
	e, pd := hclsyntax.ParseExpression([]byte(text), "t.hcl", hcl.InitialPos)
	if pd.HasErrors() {
		x.rep.Hist("gettype:parse-error")
		x.rep.Evaluations++
		return
	}
	x.getTypeCase(e, text)
	if utf8Valid(text) {
		if je, jd := json.ParseExpression(jsonString(text), "t.json"); !jd.HasErrors() {
			var nt, jt cty.Type
			var nd, jdg hcl.Diagnostics
			if p := guard(func() {
				nt, nd = typeexpr.TypeConstraint(e)
				jt, jdg = typeexpr.TypeConstraint(je)
			}); p != nil {
				x.fail("panic", fmt.Sprint(p), input, nil)
				return
			}
			if nd.HasErrors() != jdg.HasErrors() || !nt.Equals(jt) {
				x.fail("type-json-native-differs", fmt.Sprintf("native: %s errors=%v; JSON string: %s errors=%v", hv.DumpType(nt), nd.HasErrors(), hv.DumpType(jt), jdg.HasErrors()), input, nil)
			}
		}
	}
	x.rep.Count(input, strings.Contains(text, "("))
}

// nameSurvey: for one attribute name, does object({name=string}) / object({a=…,name=…}) round-trip?
func (x *runner) nameSurvey(n string) {
	res := func(ty cty.Type) string {
		s := typeexpr.TypeString(ty)
		out := []string{}
		for _, viaJSON := range []bool{false, true} {
			p, _ := roundTrip(ty, s, viaJSON)
			if p == "" {
				out = append(out, "ok")
			} else {
				out = append(out, "FAILS")
			}
		}
		return fmt.Sprintf("%s native=%s json=%s", s, out[0], out[1])
	}
	alone := cty.Object(map[string]cty.Type{n: cty.String})
	second := cty.Object(map[string]cty.Type{"A": cty.Bool, n: cty.String})
	x.nameTable[n] = fmt.Sprintf("name %q identifier=%v | first: %s | after A: %s", n, realIdent(n), res(alone), res(second))
}

// ---- run ----------------------------------------------------------------------------------------------

var handTrav = []string{
	`a`, `a.b`, `a.b.c`, `a[0]`, `a["x"]`, `a.0`, `a.b[0]["x"].0`, `a[null]`, `a[true]`, `a[false]`, `a[1.5]`, `a[-1]`,
	`true`, `false`, `null`, `true.a`, `null[0]`, `false["x"].y`, `a[*]`, `a.*`, `a[*].b`, `a.*.b`, `a[b]`, `a["x${1}"]`,
	"a\n.b\n[0]", "a /* c */ .b", `o.name`, `o.a`, `l[0]`, `l.0`, `mp.k`, `mp["k"]`, `tp[1]`, `tp.1`, `s.x`, `n[0]`, `nosuch.a`,
	`o["name"]`, `o.nosuch`, `l[99]`, `l["0"]`, `l["x"]`, `mp[0]`, `d.a.b`, `u[0]`, `z.a`, `st[0]`, `a.0.1`, `1`, `"a"`, `f(a)`, `a + b`, `(a)`,
}
var wraps = []string{"plain", "paren", "template", "objkey", "objkey-paren", "tuple-elem", "call-arg"}

var handStandalone = []string{
	`a`, `a.b`, `a.b.c`, `a[0]`, `a["x"]`, `a.0`, `a[*]`, `a.*`, `a[*].b[0]`, `a[*][*]`, `a.b[*].c[*].d`, `true`, `null.a`, `for`, `for.in`, `a[true]`, `a[null]`,
	`a[1.5]`, `a[-1]`, "a\n.b", "a.\nb", "a[\n0\n]", "a /* c */ .b", "a # c\n.b", ` a`, `a `, "a\n", `a..b`, `a.`, `a[`, `a[]`, `a[0`, `a[0]]`, `a b`, `a()`, `a["x${1}"]`, `a["$${x}"]`,
	`a["é"]`, `a["é"]`, `a["\n"]`, `a-b.c-d`, `ünï.日本`, `_`, `a[1e400]`, `a[00]`, `a.b-`, `0`, ``, `"a"`, `a[*`, `a[* ]`, `a.*.b`, `a[0][1]["k"]`, "\ufeffa.b", "a.\ufeffb",
}

var handParts = []string{
	`[]`, `[1]`, `[1, "a", true]`, `[s, n, nosuch]`, `[[1], [2]]`, `[for v in l : v]`, `{}`, `{a = 1}`, `{a = 1, a = 2}`, `{"a" = 1, a = 2}`, `{(s) = 1}`, `{null = 1}`, `{(null) = 1}`, `{a.b = 1}`,
	`{"${s}" = n}`, `{for k, v in mp : k => v}`, `{a = nosuch}`, `{(nosuch) = 1}`, `{1 = 2}`, `{true = 1, "true" = 2}`, `upper("a")`, `upper(s)`, `upper(1)`, `upper(null)`, `upper()`, `upper("a", "b")`,
	`sum(1, 2, 3)`, `sum()`, `sum("1", n)`, `sum("x")`, `first(1)`, `first([1, 2]...)`, `first([1, 2])`, `first(l...)`, `sum([1, 2, 3]...)`, `sum(l...)`, `upper(["a"]...)`, `first([]...)`, `first(null...)`,
	`fail("x")`, `nosuchfn(1)`, `pair("a", null)`, `pair("a", 1)`, `pair(null, 1)`, `isnull(null)`, `isnull(nosuch)`, `(upper("a"))`, `[1][0]`, `"${upper(s)}"`, `s`, `1`,
}

var handJSON = []string{
	`[]`, `[1, "a", true, null]`, `["${s}", "${n + 1}"]`, `[[1], {"a": 2}]`, `{}`, `{"a": 1}`, `{"a": 1, "a": 2}`, `{"${s}": 1}`, `{"${s}": 1, "${t}": 2}`, `{"${nosuch}": 1}`, `{"${null}": 1}`,
	`{"a": "${nosuch}"}`, `{"a": [1, {"b": "${s}"}]}`, `"a"`, `"${s}"`, `1`, `null`, `true`, `{"${n}": "x"}`, `{"a${s}": 1, "ab": 2}`,
}

var handTypes = []cty.Type{
	cty.String, cty.Number, cty.Bool, cty.DynamicPseudoType, cty.List(cty.String), cty.Set(cty.Number), cty.Map(cty.Bool), cty.List(cty.DynamicPseudoType),
	cty.EmptyTuple, cty.EmptyObject, cty.Tuple([]cty.Type{cty.String, cty.List(cty.Number)}),
	cty.Object(map[string]cty.Type{"a": cty.String}), cty.Object(map[string]cty.Type{"a": cty.String, "b": cty.Number}),
	cty.Object(map[string]cty.Type{"for": cty.String}), cty.Object(map[string]cty.Type{"for": cty.String, "if": cty.Number}),
	cty.Object(map[string]cty.Type{"a": cty.String, "for": cty.Number}), cty.Object(map[string]cty.Type{"a": cty.Object(map[string]cty.Type{"for": cty.String})}),
	cty.List(cty.Object(map[string]cty.Type{"for": cty.Bool})), cty.Tuple([]cty.Type{cty.Object(map[string]cty.Type{"for": cty.Bool})}),
	cty.Object(map[string]cty.Type{"fo": cty.String, "for": cty.String}), cty.Object(map[string]cty.Type{"forx": cty.String}), cty.Object(map[string]cty.Type{"FOR": cty.String}),
	cty.Object(map[string]cty.Type{"if": cty.String}), cty.Object(map[string]cty.Type{"in": cty.String}), cty.Object(map[string]cty.Type{"null": cty.String}),
	cty.Object(map[string]cty.Type{"true": cty.String, "false": cty.Bool}), cty.Object(map[string]cty.Type{"a-b": cty.String}), cty.Object(map[string]cty.Type{"a-": cty.String}),
	cty.Object(map[string]cty.Type{"ünï": cty.String, "日本": cty.Bool}), cty.Object(map[string]cty.Type{"": cty.String}), cty.Object(map[string]cty.Type{"x y": cty.String}),
	cty.Object(map[string]cty.Type{"\ufeffa": cty.String}), cty.Object(map[string]cty.Type{"0": cty.String}), cty.Object(map[string]cty.Type{"a.b": cty.String}),
	cty.Object(map[string]cty.Type{"string": cty.String, "list": cty.List(cty.String), "optional": cty.Bool, "object": cty.EmptyObject}),
	cty.ObjectWithOptionalAttrs(map[string]cty.Type{"a": cty.String, "b": cty.Number}, []string{"a"}),
	cty.Map(cty.Map(cty.Map(cty.Set(cty.List(cty.Tuple([]cty.Type{cty.DynamicPseudoType})))))),
}

var handTypeExprs = []string{
	`string`, `number`, `bool`, `any`, `list`, `set`, `map`, `object`, `tuple`, `optional`, `foo`, `null`, `true`, `1`, `"string"`, `a.b`, `[string]`, `{a=string}`, `(string)`,
	`string()`, `string(1)`, `any()`, `any(string)`, `list()`, `list(string)`, `list(string, number)`, `set(string)`, `set()`, `map(any)`, `map(string, string)`, `list(list(list(any)))`,
	`tuple()`, `tuple([])`, `tuple([string, number])`, `tuple(string)`, `tuple({})`, `tuple([string], [number])`, `tuple([foo, list()])`,
	`object()`, `object({})`, `object({a=string})`, `object({a=string, b=number})`, `object({a=string, a=number})`, `object({"a"=string})`, `object({(a)=string})`, `object({a.b=string})`,
	`object({1=string})`, `object({null=string, true=bool})`, `object([])`, `object(string)`, `object({a=string}, {b=string})`, `object({a=foo, b=list()})`,
	`optional(string)`, `optional()`, `object({a=optional(string)})`, `object({a=optional()})`, `object({a=optional(string, 1)})`, `object({a=optional(string, 1, 2)})`,
	`object({a=optional(foo)})`, `object({a=optional(object({b=optional(string)}))})`, `list(object({a=optional(string)}))`, `tuple([object({a=optional(any)})])`,
	`list(string...)`, `object({a=string}...)`, `foo(string)`, `foo()`, `foo(a, b)`, `list(optional(string))`, `object({for=string})`, `object({a=string,for=string})`,
	`object({for = string})`, `object({a=object({a=string, a=string})})`, `object({b=string, a=string})`, "object({\n a = string\n b = number\n})",
}

func scopesFor(seed uint64, n int) []*hcl.EvalContext {
	r := hv.NewRng(seed, 2099)
	var out []*hcl.EvalContext
	for i := 0; i < n; i++ {
		eg := hv.NewEvalGen(r)
		eg.Unknowns, eg.Marks, eg.Nulls = []float64{0, 0.15, 0, 0.1}[i%4], []float64{0, 0, 0.2, 0.1}[i%4], 0.04
		out = append(out, eg.GenScope())
	}
	return out
}

func run(cfg *hv.RunCfg) error {
	rep := hv.NewReport("C20", cfg.Seed)
	rep.Rule = "hand corpus, then generated: (1) traversal-shaped expression texts (attribute, string/number/legacy/bool/null index, splats, expression keys, newlines and comments between steps, keyword and undefined roots) typed for scopes from hv.EvalGen (1-3 frames, every cty kind, nulls, unknowns, marks), plain or wrapped (parentheses, template, object key, tuple element, call argument), plus arbitrary expressions of the evaluation generator; (2) texts for the stand-alone traversal parsers (identifiers incl. keywords/unicode/dashes, steps, splats, whitespace, mutated garbage); (2b) traversal texts over a fixed scope with 1100-element lists whose index keys range over the whole number-literal grammar (leading zeros, fractions, exponents, integers beyond int64 / float64 / 512 bits, near misses 0x10 1_000 1. +1), legacy .N indexes, string keys with escapes and template-looking content, whitespace/newlines/comments inside brackets, splats; every stand-alone text is also read by a reference parser written in the harness (acceptance, step names, key values from the digits) and each of its traversals is applied to that scope against the evaluation of the expression; (3) tuple/object/call expressions over the harness functions (with `...`), native and JSON; (3b) JSON documents whose object keys, object values, array elements and call-like strings range over the whole template sub-language (`${}` with strip markers, `%{ if }`/`%{ else }`/`%{ for }` directives incl. keys that are only a directive and keys without any `${`, the escapes `$${` `%%{`, lone `$` `%`, literal text around sequences, null/undefined/unknown/marked/tuple interpolations, malformed sequences, repeated keys), evaluated in a fixed scope and with a nil context: whole against ExprList/ExprMap/ExprCall parts at every level, whole and every part against a reference reading of the JSON text (encoding/json + a template reader written in the harness), Variables() of the whole against the parts and the reference; (4) cty types of the constraint language nested to depth 4 with attribute names from identifiers incl. keywords, dashes, unicode and (10%) non-identifiers, and type-expression texts with deliberate errors; non-trivial = traversal with a step / non-empty list, map or call / type of depth >= 1; distinct by SHA-256 of class, text and scope"
	r := hv.NewRng(cfg.Seed, 20)
	x := &runner{rep: rep, g: &gen{r: r, feat: map[string]int{}}, nameTable: map[string]string{},
		cfTrav:  &hv.CaseFile{Dir: cfg.Out, Name: "c20trav", Imports: importsStatic, Ctype: "tcase", Checker: "check_trav_cases"},
		cfParts: &hv.CaseFile{Dir: cfg.Out, Name: "c20parts", Imports: importsStatic, Ctype: "pcase", Checker: "check_parts_cases"},
		cfT:     &hv.CaseFile{Dir: cfg.Out, Name: "c20type", Imports: importsType, Ctype: "tycase", Checker: "check_type_cases", Extras: [][2]string{{"skipped", "skipped_type_cases"}}},
	}
	x.gk = &gen{r: hv.NewRng(cfg.Seed, 2020), feat: x.g.feat}
	x.gj = &jtGen{r: hv.NewRng(cfg.Seed, 2030), feat: x.g.feat}

	if cfg.Replay != "" {
		b, err := os.ReadFile(cfg.Replay)
		if err != nil {
			return err
		}
		class, text := "", string(b)
		if i := strings.IndexByte(text, '\n'); i >= 0 {
			switch text[:i] {
			case "trav", "standalone", "parts", "jsonparts", "jsoncall", "jsontmpl", "type", "typeexpr":
				class, text = text[:i], text[i+1:]
			}
		}
		scopes := scopesFor(cfg.Seed, 40)
		if class == "" || class == "trav" {
			for _, sc := range scopes {
				x.travText(text, "plain", sc)
			}
		}
		if class == "" || class == "standalone" {
			x.standaloneCase(text)
		}
		if class == "" || class == "parts" {
			for _, sc := range scopes {
				x.partsText(text, sc)
			}
		}
		if class == "" || class == "jsonparts" {
			for _, sc := range scopes {
				x.jsonPartsCase(text, sc)
			}
		}
		if class == "" || class == "jsoncall" {
			x.jsonCallCase(text)
		}
		if class == "" || class == "jsontmpl" {
			x.jsonTmplCase(text)
		}
		if class == "type" {
			ty, err := ctyjson.UnmarshalType([]byte(text))
			if err != nil {
				return err
			}
			x.typeCase(ty)
		}
		if class == "" {
			x.typeCase(cty.Object(map[string]cty.Type{text: cty.String}))
		}
		if class == "" || class == "typeexpr" {
			x.typeExprCase(text)
		}
		return x.finish(cfg)
	}

	// ---- hand corpus -----------------------------------------------------------------------
	scopes := scopesFor(cfg.Seed, 8)
	for i, t := range handTrav {
		for j, w := range wraps {
			x.travText(t, w, scopes[(i+j)%len(scopes)])
		}
	}
	sa := append([]string{}, handStandalone...)
	if extra, err := filepath.Glob("/verif/corpus/C20/*.txt"); err == nil {
		for _, p := range extra {
			if b, err := os.ReadFile(p); err == nil {
				sa = append(sa, string(b))
			}
		}
	}
	for _, t := range sa {
		x.standaloneCase(t)
	}
	for _, t := range handTrav {
		x.standaloneCase(t)
	}
	for _, t := range handNumKey {
		x.standaloneCase(t)
	}
	for i, t := range handParts {
		x.partsText(t, scopes[i%len(scopes)])
		x.jsonCallCase(t)
	}
	for i, t := range handJSON {
		x.jsonPartsCase(t, scopes[i%len(scopes)])
	}
	for _, t := range handJSONTmpl {
		x.jsonTmplCase(t)
	}
	for _, ty := range handTypes {
		x.typeCase(ty)
	}
	for _, t := range handTypeExprs {
		x.typeExprCase(t)
	}
	allNames := append(append([]string{}, identAttrNames...), nonIdentAttrNames...)
	for _, n := range allNames {
		x.nameSurvey(n)
	}

	// ---- generated ---------------------------------------------------------------------------
	for i := 0; i < cfg.N; i++ {
		eg := hv.NewEvalGen(r)
		switch r.Intn(4) {
		case 0:
			eg.Unknowns, eg.Marks, eg.Nulls = 0, 0, 0.03
		case 1:
			eg.Unknowns, eg.Marks, eg.Nulls = 0.15, 0, 0.03
		case 2:
			eg.Unknowns, eg.Marks, eg.Nulls = 0, 0.2, 0.03
		default:
			eg.Unknowns, eg.Marks, eg.Nulls = 0.1, 0.1, 0.05
		}
		ctx := eg.GenScope()
		// (1) traversal-shaped expression
		var text string
		if r.Chance(0.12) {
			text = eg.GenTopExpr()
			rep.Hist("trav:source:evalgen-expression")
		} else {
			text = x.g.travText(eg.Vars)
		}
		w := "plain"
		if r.Chance(0.35) {
			w = wraps[1+r.Intn(len(wraps)-1)]
		}
		x.travText(text, w, ctx)
		// (2) stand-alone parsers
		x.standaloneCase(x.g.standaloneText())
		if r.Chance(0.5) {
			x.standaloneCase(text)
		}
		// (2b) index keys over the number-literal grammar, on the long-list scope (numkey.go)
		x.standaloneCase(x.gk.numKeyText(x.numScope()))
		// (3) parts
		pt := x.g.partsText(eg)
		x.partsText(pt, ctx)
		if r.Chance(0.3) {
			x.jsonCallCase(pt)
		}
		x.jsonPartsCase(x.g.jsonText(2), ctx)
		// (3b) JSON documents over the whole template sub-language, fixed scope and nil context (jsontmpl.go)
		jdoc := x.gj.doc()
		x.jtFeatures(jdoc)
		x.jsonTmplCase(jdoc)
		// (4) types
		x.typeCase(x.g.genTopType())
		if r.Chance(0.5) {
			x.typeExprCase(x.g.typeExprText(3))
		}
	}
	for k, v := range x.g.feat {
		rep.Histogram[k] += v
	}
	return x.finish(cfg)
}

var baseIndexRe = regexp.MustCompile(`Definition base_index : Z := (\d+)\.`)

func (x *runner) finish(cfg *hv.RunCfg) error {
	// The three families share report.case_index: trav cases first, then parts, then type.
	// base_index in every case file is made GLOBAL (hv.CaseFile numbers each family from 0),
	// so an index printed in `bad` is an index into case_index.
	names := []string{}
	offset := 0
	for _, pc := range []struct {
		cf  *hv.CaseFile
		per int
		idx []string
	}{{x.cfTrav, 400, x.idxTrav}, {x.cfParts, 600, x.idxParts}, {x.cfT, 1500, x.idxT}} {
		n, err := pc.cf.Flush(pc.per)
		if err != nil {
			return err
		}
		for _, name := range n {
			path := filepath.Join(cfg.Out, name)
			b, err := os.ReadFile(path)
			if err != nil {
				return err
			}
			m := baseIndexRe.FindSubmatch(b)
			if m == nil {
				return fmt.Errorf("%s: no base_index", name)
			}
			local, _ := strconv.Atoi(string(m[1]))
			b = baseIndexRe.ReplaceAll(b, []byte(fmt.Sprintf("Definition base_index : Z := %d.", local+offset)))
			if err := os.WriteFile(path, b, 0o644); err != nil {
				return err
			}
		}
		names = append(names, n...)
		for _, s := range pc.idx {
			x.rep.Idx(s)
		}
		offset += len(pc.idx)
	}
	x.rep.CaseFiles = names
	keys := make([]string, 0, len(x.nameTable))
	for k := range x.nameTable {
		keys = append(keys, k)
	}
	sort.Strings(keys)
	for _, k := range keys {
		x.rep.Notes = append(x.rep.Notes, x.nameTable[k])
	}
	return x.rep.Write(cfg.Out)
}
