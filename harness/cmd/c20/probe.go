package main

import (
	"fmt"

	"github.com/hashicorp/hcl/v2"
	"github.com/hashicorp/hcl/v2/ext/typeexpr"
	"github.com/hashicorp/hcl/v2/hclsyntax"
	"github.com/hashicorp/hcl/v2/json"
	"github.com/zclconf/go-cty/cty"
	"hclverif/hv"
)

func probe(cfg *hv.RunCfg) error {
	type uw interface{ UnwrapExpression() hcl.Expression }
	e, _ := hclsyntax.ParseExpression([]byte(`{[a,b] = 1, a.b = 2, f(x) = 3, "q" = 4, "" = 5}`), "", hcl.InitialPos)
	oc := e.(*hclsyntax.ObjectConsExpr)
	for _, it := range oc.Items {
		_, ok := it.KeyExpr.(uw)
		l, ld := hcl.ExprList(it.KeyExpr)
		t, td := hcl.AbsTraversalForExpr(it.KeyExpr)
		c, cd := hcl.ExprCall(it.KeyExpr)
		fmt.Printf("key %s unwrap=%v list=%v/%v trav=%v/%v call=%v/%v\n", hv.DumpExprS(it.KeyExpr), ok, len(l), ld.HasErrors(), hv.DumpTraversal(t), td.HasErrors(), c != nil, cd.HasErrors())
	}
	for _, s := range []string{`"${a.b}"`, `(a.b)`, `a.b[0]["x"].0`, `a[null]`, `a[true]`, `true.a`, `null`, `a[*].b`, `a.*.b`, `f(a...)`, `list(string...)`, `a[1.5]`, "a\n.b\n[0]", `"a"`, `""`, `a["x${1}"]`, `a["xé"]`, `object({for=string})`, `object({if=string,in=string,null=bool,true=any,a-b=number})`, "object({\ufeffa=string})"} {
		e, d := hclsyntax.ParseExpression([]byte(s), "", hcl.InitialPos)
		t, td := hcl.AbsTraversalForExpr(e)
		fmt.Printf("%q perr=%v ast=%s trav=[%s] terr=%v kw=%q\n", s, d.HasErrors(), hv.DumpExprS(e), hv.DumpTraversal(t), td.HasErrors(), hcl.ExprAsKeyword(e))
		ty, tyd := typeexpr.TypeConstraint(e)
		fmt.Printf("    type=%s err=%v\n", hv.DumpType(ty), tyd.HasErrors())
	}
	fmt.Println(hclsyntax.ValidIdentifier("\ufeffa"), hclsyntax.ValidIdentifier(""), hclsyntax.ValidIdentifier("a-"), hclsyntax.ValidIdentifier("-a"))
	fmt.Println(typeexpr.TypeString(cty.Object(map[string]cty.Type{"x y": cty.String, "": cty.Bool, "é": cty.Number, "a\"b\\": cty.Bool, "\x01\x7f\n": cty.Bool})))
	fmt.Println(typeexpr.TypeString(cty.ObjectWithOptionalAttrs(map[string]cty.Type{"a": cty.String}, []string{"a"})))
	je, jd := json.ParseExpression([]byte(`"object({a=string})"`), "")
	ty, tyd := typeexpr.TypeConstraint(je)
	fmt.Println(jd.HasErrors(), hv.DumpType(ty), tyd.HasErrors())
	je, jd = json.ParseExpression([]byte(`"a.b[0]"`), "")
	t, td := hcl.AbsTraversalForExpr(je)
	fmt.Println(jd.HasErrors(), hv.DumpTraversal(t), td.HasErrors())
	return nil
}
