package main

// Generators: struct schemata (every tag kind, every field type, nesting <= 3) and
// values (escape-relevant strings, boundary ints, keyword / non-identifier map keys,
// nil and non-nil pointers, nil / empty / non-empty slices and maps).

import (
	"math"
	"reflect"

	"hclverif/hv"
)

type gen struct {
	r    *hv.Rng
	feat map[string]int
}

func (g *gen) f(s string) { g.feat[s]++ }

// attribute / block-type names: ASCII identifiers incl. keywords and dashes
var namePool = []string{"a", "b", "c", "d", "name", "x1", "for", "if", "null", "true", "in", "else", "a-b", "_u", "count", "type", "foo_bar", "Z", "endfor", "k9-"}

// strings over the escape-relevant alphabet (all valid UTF-8, NFC-stable)
var strPool = []string{
	"", "a", "hello world", "\"", "\\", "\\\"", "${", "%{", "$${", "%%{", "$", "%", "$$", "${x}", "%{if}", "a${b}c",
	"\n", "\r\n", "\t", "line1\nline2", "\x00", "\x01", "\x1f", "\x7f", "\u0085", "\u2028", "\ufeff", "é", "日本語", "😀", "\U000e0001",
	"{", "}", "[", "]", "=", "#", "//", "/*", "<<EOT", "for", "null", "true", "1", "1.5", "-0", "'", "`", " ", "  x  ", "a\\nb", "\\u0041", "$\\{", "%\\{",
}
var strAtoms = []string{"a", "Z", "0", " ", "\"", "\\", "$", "%", "{", "}", "${", "%{", "\n", "\r", "\t", "\x00", "\x1b", "é", "ß", "日", "😀", "\u2028", "~", "'", "=", "#"}

// map keys: keywords, non-identifiers, empty
var keyPool = []string{"a", "b", "k", "key", "for", "if", "null", "true", "false", "in", "else", "endif", "", " ", "a b", "1", "0x", "a.b", "a-b", "-", "\"", "${", "%{x}", "é", "日本", "a\nb", "=", "{", "}", "A", "zz", "_", "😀", "for ", "fo"}

var intPool = []int64{0, 1, -1, 2, 7, 42, -42, 255, 65536, -65536, 1 << 31, -(1 << 31), 1<<53 + 1, -(1<<53 + 1), math.MaxInt64, math.MinInt64, math.MaxInt64 - 1, 1000000007, 999999999999, -123456789012345678}

func (g *gen) str() string {
	if g.r.Chance(0.6) {
		return strPool[g.r.Intn(len(strPool))]
	}
	n := 1 + g.r.Small(6)
	s := ""
	for i := 0; i < n; i++ {
		s += strAtoms[g.r.Intn(len(strAtoms))]
	}
	return s
}

func (g *gen) key() string {
	if g.r.Chance(0.06) {
		return ""
	}
	if g.r.Chance(0.85) {
		return keyPool[g.r.Intn(len(keyPool))]
	}
	return g.str()
}

func (g *gen) int() int64 {
	if g.r.Chance(0.7) {
		return intPool[g.r.Intn(len(intPool))]
	}
	return int64(g.r.Uint64())
}

// attribute field types
func (g *gen) attrTy(depth int) *Ty {
	k := g.r.Intn(10)
	if depth >= 3 {
		k = g.r.Intn(3)
	}
	switch k {
	case 0, 1, 2:
		return tyString
	case 3, 4:
		return tyInt
	case 5:
		return tyBool
	case 6:
		g.f("ty:ptr")
		return ptrTo(g.attrTy(depth + 1))
	case 7, 8:
		g.f("ty:slice")
		return sliceOf(g.attrTy(depth + 1))
	default:
		g.f("ty:map")
		return mapOf(g.attrTy(depth + 1))
	}
}

func (g *gen) freshName(used map[string]bool) string {
	for i := 0; ; i++ {
		n := namePool[g.r.Intn(len(namePool))]
		if i > 20 {
			n = n + "_" + string(rune('a'+g.r.Intn(26)))
		}
		if !used[n] {
			used[n] = true
			return n
		}
	}
}

// structTy generates a struct type. depth = block nesting level (0 = top).
func (g *gen) structTy(depth int, allowBody bool) *Ty {
	used := map[string]bool{}
	var attrs, blocks, labels []Field
	if depth > 0 || g.r.Chance(0.1) {
		nl := g.r.Small(2)
		for i := 0; i < nl; i++ {
			labels = append(labels, Field{Name: g.r.Pick("name", "type", "l", "id"), Kind: "label", T: tyString})
		}
		if nl > 0 {
			g.f("kind:label")
		}
	}
	na := g.r.Small(4)
	if depth == 0 && na == 0 {
		na = 1
	}
	for i := 0; i < na; i++ {
		kind := "attr"
		if g.r.Chance(0.35) {
			kind = "optional"
		}
		g.f("kind:" + kind)
		attrs = append(attrs, Field{Name: g.freshName(used), Kind: kind, T: g.attrTy(1)})
	}
	if depth < 3 {
		nb := g.r.Small(2)
		if depth >= 1 && g.r.Chance(0.4) {
			nb = 0
		}
		if depth == 0 && g.r.Chance(0.5) && nb == 0 {
			nb = 1
		}
		for i := 0; i < nb; i++ {
			st := g.structTy(depth+1, false)
			var t *Ty
			switch g.r.Intn(4) {
			case 0:
				t = st
				g.f("block:struct")
			case 1:
				t = ptrTo(st)
				g.f("block:*struct")
			case 2:
				t = sliceOf(st)
				g.f("block:[]struct")
			default:
				t = sliceOf(ptrTo(st))
				g.f("block:[]*struct")
			}
			g.f("kind:block")
			blocks = append(blocks, Field{Name: g.freshName(used), Kind: "block", T: t})
		}
	}
	// field order: attributes usually first, sometimes interleaved (blank-line logic)
	var fs []Field
	fs = append(fs, labels...)
	if g.r.Chance(0.7) {
		fs = append(fs, attrs...)
		fs = append(fs, blocks...)
	} else {
		g.f("order:interleaved")
		rest := append(append([]Field{}, attrs...), blocks...)
		g.r.Shuffle(len(rest), func(i, j int) { rest[i], rest[j] = rest[j], rest[i] })
		fs = append(fs, rest...)
		if len(labels) > 0 && g.r.Chance(0.3) {
			// labels need not come first
			g.r.Shuffle(len(fs), func(i, j int) { fs[i], fs[j] = fs[j], fs[i] })
		}
	}
	if g.r.Chance(0.15) {
		var t *Ty
		switch {
		case allowBody && g.r.Chance(0.3):
			t = &Ty{K: TBody}
			g.f("remain:hcl.Body")
		case g.r.Chance(0.5):
			t = mapOf(tyString)
			g.f("remain:map")
		default:
			t = mapOf(g.attrTy(2))
			g.f("remain:map")
		}
		g.f("kind:remain")
		f := Field{Name: "", Kind: "remain", T: t}
		pos := g.r.Intn(len(fs) + 1)
		fs = append(fs[:pos], append([]Field{f}, fs[pos:]...)...)
	}
	return &Ty{K: TStruct, F: fs}
}

// value generates a Go value of type t.
func (g *gen) value(t *Ty) reflect.Value {
	gt := goType(t)
	out := reflect.New(gt).Elem()
	switch t.K {
	case TString:
		out.SetString(g.str())
	case TInt:
		out.SetInt(g.int())
	case TBool:
		out.SetBool(g.r.Chance(0.5))
	case TPtr:
		if g.r.Chance(0.3) {
			g.f("val:nil-ptr")
		} else {
			g.f("val:ptr")
			p := reflect.New(gt.Elem())
			p.Elem().Set(g.value(t.E))
			out.Set(p)
		}
	case TSlice:
		switch {
		case g.r.Chance(0.2):
			g.f("val:nil-slice")
		case g.r.Chance(0.2):
			g.f("val:empty-slice")
			out.Set(reflect.MakeSlice(gt, 0, 0))
		default:
			n := 1 + g.r.Small(3)
			s := reflect.MakeSlice(gt, n, n)
			for i := 0; i < n; i++ {
				s.Index(i).Set(g.value(t.E))
			}
			out.Set(s)
		}
	case TMap:
		switch {
		case g.r.Chance(0.15):
			g.f("val:nil-map")
		case g.r.Chance(0.15):
			g.f("val:empty-map")
			out.Set(reflect.MakeMap(gt))
		default:
			n := 1 + g.r.Small(3)
			m := reflect.MakeMap(gt)
			for i := 0; i < n; i++ {
				m.SetMapIndex(reflect.ValueOf(g.key()), g.value(t.E))
			}
			out.Set(m)
		}
	case TStruct:
		for i, f := range t.F {
			if f.T.K == TBody {
				continue
			}
			out.Field(i).Set(g.value(f.T))
		}
	}
	return out
}
