package main

// Struct-type universe of C16 on the Go side: schemata, reflect types built with
// reflect.StructOf, values, their JSON spec (replay format) and their rendering as
// Coq terms of Gohcl/Model.v.

import (
	"encoding/hex"
	"encoding/json"
	"fmt"
	"reflect"
	"sort"
	"strconv"
	"strings"

	"github.com/hashicorp/hcl/v2"
	"hclverif/hv"
)

type TK string

const (
	TString TK = "string"
	TInt    TK = "int"
	TBool   TK = "bool"
	TPtr    TK = "ptr"
	TSlice  TK = "slice"
	TMap    TK = "map"
	TStruct TK = "struct"
	TBody   TK = "body" // hcl.Body (only for `remain`; outside the Coq universe)
)

type Ty struct {
	K TK      `json:"k"`
	E *Ty     `json:"e,omitempty"`
	F []Field `json:"f,omitempty"`
}

type Field struct {
	Name string `json:"n"`
	Kind string `json:"kind"` // attr optional block label remain
	T    *Ty    `json:"t"`
}

var (
	tyString = &Ty{K: TString}
	tyInt    = &Ty{K: TInt}
	tyBool   = &Ty{K: TBool}
)

func ptrTo(t *Ty) *Ty   { return &Ty{K: TPtr, E: t} }
func sliceOf(t *Ty) *Ty { return &Ty{K: TSlice, E: t} }
func mapOf(t *Ty) *Ty   { return &Ty{K: TMap, E: t} }

var bodyType = reflect.TypeOf((*hcl.Body)(nil)).Elem()

// goType builds the reflect.Type (struct fields exported F0, F1, ... with hcl tags).
func goType(t *Ty) reflect.Type {
	switch t.K {
	case TString:
		return reflect.TypeOf("")
	case TInt:
		return reflect.TypeOf(int(0))
	case TBool:
		return reflect.TypeOf(false)
	case TPtr:
		return reflect.PointerTo(goType(t.E))
	case TSlice:
		return reflect.SliceOf(goType(t.E))
	case TMap:
		return reflect.MapOf(reflect.TypeOf(""), goType(t.E))
	case TBody:
		return bodyType
	case TStruct:
		fs := make([]reflect.StructField, len(t.F))
		for i, f := range t.F {
			fs[i] = reflect.StructField{
				Name: fmt.Sprintf("F%d", i),
				Type: goType(f.T),
				Tag:  reflect.StructTag(fmt.Sprintf(`hcl:"%s,%s"`, f.Name, f.Kind)),
			}
		}
		return reflect.StructOf(fs)
	}
	panic("bad type kind " + string(t.K))
}

// inUniverse: representable in the Coq model (no hcl.Body).
func inUniverse(t *Ty) bool {
	switch t.K {
	case TBody:
		return false
	case TPtr, TSlice, TMap:
		return inUniverse(t.E)
	case TStruct:
		for _, f := range t.F {
			if !inUniverse(f.T) {
				return false
			}
		}
	}
	return true
}

// blockStruct: the struct type inside a block field type and its shape.
func blockStruct(t *Ty) (st *Ty, isSlice, isPtr bool) {
	if t.K == TSlice {
		isSlice = true
		t = t.E
	}
	if t.K == TPtr {
		isPtr = true
		t = t.E
	}
	if t.K != TStruct {
		return nil, isSlice, isPtr
	}
	return t, isSlice, isPtr
}

// ---- Coq rendering ---------------------------------------------------------------

func coqKind(k string) string {
	switch k {
	case "attr":
		return "KAttr"
	case "optional":
		return "KOptional"
	case "block":
		return "KBlock"
	case "label":
		return "KLabel"
	case "remain":
		return "KRemain"
	}
	panic("kind " + k)
}

func coqTy(t *Ty) string {
	switch t.K {
	case TString:
		return "FString"
	case TInt:
		return "FInt"
	case TBool:
		return "FBool"
	case TPtr:
		return "(FPtr " + coqTy(t.E) + ")"
	case TSlice:
		return "(FSlice " + coqTy(t.E) + ")"
	case TMap:
		return "(FMap " + coqTy(t.E) + ")"
	case TStruct:
		return "(FStruct " + coqSchema(t.F) + ")"
	}
	panic("coqTy: outside universe")
}

func coqSchema(fs []Field) string {
	parts := make([]string, len(fs))
	for i, f := range fs {
		parts[i] = fmt.Sprintf("(%s, %s, %s)", hv.CoqStr(f.Name), coqKind(f.Kind), coqTy(f.T))
	}
	return hv.CoqList(parts)
}

func coqBigZ(n int64) string {
	if n < 0 {
		return fmt.Sprintf("(%d)", n)
	}
	return fmt.Sprintf("%d", n)
}

func sortedMapKeys(rv reflect.Value) []string {
	ks := make([]string, 0, rv.Len())
	for _, k := range rv.MapKeys() {
		ks = append(ks, k.String())
	}
	sort.Strings(ks)
	return ks
}

// coqSval renders a Go value of type t as a term of type sval.
func coqSval(t *Ty, rv reflect.Value) string {
	switch t.K {
	case TString:
		return "(SStr " + hv.CoqStr(rv.String()) + ")"
	case TInt:
		return "(SInt " + coqBigZ(rv.Int()) + ")"
	case TBool:
		return "(SBool " + hv.CoqBool(rv.Bool()) + ")"
	case TPtr:
		if rv.IsNil() {
			return "(SPtr None)"
		}
		return "(SPtr (Some " + coqSval(t.E, rv.Elem()) + "))"
	case TSlice:
		if rv.IsNil() {
			return "(SSlice None)"
		}
		parts := make([]string, rv.Len())
		for i := range parts {
			parts[i] = coqSval(t.E, rv.Index(i))
		}
		return "(SSlice (Some " + hv.CoqList(parts) + "))"
	case TMap:
		if rv.IsNil() {
			return "(SMap None)"
		}
		var parts []string
		for _, k := range sortedMapKeys(rv) {
			parts = append(parts, "("+hv.CoqStr(k)+", "+coqSval(t.E, rv.MapIndex(reflect.ValueOf(k)))+")")
		}
		return "(SMap (Some " + hv.CoqList(parts) + "))"
	case TStruct:
		parts := make([]string, len(t.F))
		for i, f := range t.F {
			parts[i] = coqSval(f.T, rv.Field(i))
		}
		return "(SStruct " + hv.CoqList(parts) + ")"
	}
	panic("coqSval: outside universe")
}

// ---- replay spec -----------------------------------------------------------------------

// Spec is the printable, replayable form of one case.
type Spec struct {
	Mode   string  `json:"mode"` // roundtrip | text | marked
	Schema []Field `json:"schema"`
	Value  any     `json:"value,omitempty"`    // mode roundtrip
	Text   string  `json:"text_hex,omitempty"` // mode text: configuration source (hex)
	JSON   bool    `json:"json,omitempty"`     // mode text: the source is JSON
	Note   string  `json:"note,omitempty"`
	Dest   *Dest   `json:"dest,omitempty"` // mode roundtrip: the destination body is not a fresh file (dest.go)
}

func (s *Spec) String() string {
	b, err := json.Marshal(s)
	if err != nil {
		panic(err)
	}
	return string(b)
}

// valToSpec: strings as hex, ints as decimal strings, nil as null, maps as sorted
// [key, value] pairs.
func valToSpec(t *Ty, rv reflect.Value) any {
	switch t.K {
	case TString:
		return hex.EncodeToString([]byte(rv.String()))
	case TInt:
		return strconv.FormatInt(rv.Int(), 10)
	case TBool:
		return rv.Bool()
	case TPtr:
		if rv.IsNil() {
			return nil
		}
		return []any{valToSpec(t.E, rv.Elem())}
	case TSlice:
		if rv.IsNil() {
			return nil
		}
		out := make([]any, rv.Len())
		for i := range out {
			out[i] = valToSpec(t.E, rv.Index(i))
		}
		return out
	case TMap:
		if rv.IsNil() {
			return nil
		}
		out := []any{}
		for _, k := range sortedMapKeys(rv) {
			out = append(out, []any{hex.EncodeToString([]byte(k)), valToSpec(t.E, rv.MapIndex(reflect.ValueOf(k)))})
		}
		return out
	case TStruct:
		out := make([]any, len(t.F))
		for i, f := range t.F {
			out[i] = valToSpec(f.T, rv.Field(i))
		}
		return out
	case TBody:
		return nil
	}
	panic("valToSpec")
}

func specToVal(t *Ty, x any) (rv reflect.Value, err error) {
	defer func() {
		if r := recover(); r != nil {
			err = fmt.Errorf("bad value spec: %v", r)
		}
	}()
	return specToVal1(t, x), nil
}

func unhexS(x any) string {
	b, err := hex.DecodeString(x.(string))
	if err != nil {
		panic(err)
	}
	return string(b)
}

func specToVal1(t *Ty, x any) reflect.Value {
	gt := goType(t)
	out := reflect.New(gt).Elem()
	switch t.K {
	case TString:
		out.SetString(unhexS(x))
	case TInt:
		n, err := strconv.ParseInt(x.(string), 10, 64)
		if err != nil {
			panic(err)
		}
		out.SetInt(n)
	case TBool:
		out.SetBool(x.(bool))
	case TPtr:
		if x != nil {
			p := reflect.New(gt.Elem())
			p.Elem().Set(specToVal1(t.E, x.([]any)[0]))
			out.Set(p)
		}
	case TSlice:
		if x != nil {
			l := x.([]any)
			s := reflect.MakeSlice(gt, len(l), len(l))
			for i, e := range l {
				s.Index(i).Set(specToVal1(t.E, e))
			}
			out.Set(s)
		}
	case TMap:
		if x != nil {
			m := reflect.MakeMap(gt)
			for _, e := range x.([]any) {
				kv := e.([]any)
				m.SetMapIndex(reflect.ValueOf(unhexS(kv[0])), specToVal1(t.E, kv[1]))
			}
			out.Set(m)
		}
	case TStruct:
		l := x.([]any)
		for i, f := range t.F {
			out.Field(i).Set(specToVal1(f.T, l[i]))
		}
	case TBody:
	}
	return out
}

// short human-readable description of a type, for histograms / reports
func tyDesc(t *Ty) string {
	switch t.K {
	case TPtr:
		return "*" + tyDesc(t.E)
	case TSlice:
		return "[]" + tyDesc(t.E)
	case TMap:
		return "map[string]" + tyDesc(t.E)
	case TStruct:
		var parts []string
		for _, f := range t.F {
			parts = append(parts, fmt.Sprintf("%s %s `%s`", tyDesc(f.T), f.Name, f.Kind))
		}
		return "struct{" + strings.Join(parts, "; ") + "}"
	}
	return string(t.K)
}
