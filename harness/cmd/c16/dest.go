package main

// C16, the DESTINATION of an encoding.
//
// gohcl.EncodeIntoBody(val, dst) is given an existing *hclwrite.Body and is documented to REPLACE its
// contents (populateBody: dst.Clear(), then SetAttributeValue / AppendNewline / AppendBlock).  "Encoding to
// source and decoding that source reproduces the value" therefore has to hold whatever dst held before.  A
// Dest describes a destination that is not a brand-new file, as a replayable history:
//
//   Init   new | parsed        the file: hclwrite.NewEmptyFile(), or hclwrite.ParseConfig(Src)
//   Where  root                dst = the root body of that file
//          block               dst = the body of a block made with AppendNewBlock("zz_dest", Labels)
//          as-block            the third entry point: EncodeAsBlock(val, "zz_dest") appended to the root
//                              body (Steps are applied to the root body; nothing is cleared)
//   Steps  what happened to dst before: earlier encodings (op enc: a value of the same type, of a sibling
//          type sharing names, of an unrelated type), hand edits through the writer API (set / trav / raw /
//          block / newline / comment / rename / remove / rmblock / clear)
//   Cycles after the encoding: that many further rounds  decode -> encode the decoded value into the SAME
//          body -> decode,  each of which must reproduce norm v again
//
// Oracle (independent of the function under test): the bytes of the file are parsed with hclsyntax; the body
// found at the destination must hold exactly the items the harness's own mirror of the encoding rules
// (fileOfValue) predicts - nothing stale, nothing missing -, and DecodeBody of it must give norm v.  In
// addition (destination independence) the bytes must be those of the same encoding into a fresh destination.
// The destination check runs only when the ordinary round trip of the value (fresh file) is clean, so
// whatever it reports is due to the destination.
//
// Coq: CEncInto dst s v obs  vs  encode_into (Gohcl/Model.v), dst = the items the destination held.

import (
	"bytes"
	"encoding/hex"
	"fmt"
	"reflect"
	"sort"
	"strings"

	"github.com/hashicorp/hcl/v2"
	"github.com/hashicorp/hcl/v2/gohcl"
	"github.com/hashicorp/hcl/v2/hclsyntax"
	"github.com/hashicorp/hcl/v2/hclwrite"
	"hclverif/hv"
)

const destBlockType = "zz_dest"

type Dest struct {
	Kind   string     `json:"kind"` // generator shape (histogram label)
	Init   string     `json:"init"` // new | parsed
	Src    string     `json:"src_hex,omitempty"`
	Where  string     `json:"where"` // root | block | as-block
	Labels []string   `json:"labels,omitempty"`
	Steps  []DestStep `json:"steps,omitempty"`
	Cycles int        `json:"cycles,omitempty"`
}

type DestStep struct {
	Op     string     `json:"op"`
	Name   string     `json:"name,omitempty"`   // attribute name / block type
	To     string     `json:"to,omitempty"`     // rename
	VI     int        `json:"vi,omitempty"`     // set: index into wrongVals
	Labels []string   `json:"labels,omitempty"` // block
	Body   []DestStep `json:"body,omitempty"`   // block: edits of its body
	Schema []Field    `json:"schema,omitempty"` // enc
	Value  any        `json:"value,omitempty"`  // enc
}

// ---- building the destination -----------------------------------------------------------------------

func encPtr(rv reflect.Value) any {
	p := reflect.New(rv.Type())
	p.Elem().Set(rv)
	return p.Interface()
}

// applyStep performs one earlier event on body b.
func applyStep(b *hclwrite.Body, s *DestStep) (err error) {
	defer func() {
		if p := recover(); p != nil {
			err = fmt.Errorf("%s: %v", s.Op, p)
		}
	}()
	switch s.Op {
	case "enc":
		t0 := &Ty{K: TStruct, F: s.Schema}
		rv0, e := specToVal(t0, s.Value)
		if e != nil {
			return e
		}
		gohcl.EncodeIntoBody(encPtr(rv0), b)
	case "set":
		b.SetAttributeValue(s.Name, wrongVals[s.VI%len(wrongVals)])
	case "trav":
		b.SetAttributeTraversal(s.Name, hcl.Traversal{hcl.TraverseRoot{Name: "var"}, hcl.TraverseAttr{Name: "x"}})
	case "raw":
		b.SetAttributeRaw(s.Name, hclwrite.TokensForFunctionCall("f", hclwrite.TokensForIdentifier("y")))
	case "block":
		nb := b.AppendNewBlock(s.Name, s.Labels)
		for i := range s.Body {
			if e := applyStep(nb.Body(), &s.Body[i]); e != nil {
				return e
			}
		}
	case "newline":
		b.AppendNewline()
	case "comment":
		b.AppendUnstructuredTokens(hclwrite.Tokens{{Type: hclsyntax.TokenComment, Bytes: []byte("# " + s.Name + "\n")}})
	case "rename":
		b.RenameAttribute(s.Name, s.To)
	case "remove":
		b.RemoveAttribute(s.Name)
	case "rmblock":
		if bs := b.Blocks(); len(bs) > 0 {
			b.RemoveBlock(bs[s.VI%len(bs)])
		}
	case "clear":
		b.Clear()
	default:
		return fmt.Errorf("unknown step %q", s.Op)
	}
	return nil
}

// openDest makes the file and returns the body the steps and the encoding are applied to.
func openDest(d *Dest) (f *hclwrite.File, dst *hclwrite.Body, err error) {
	defer func() {
		if p := recover(); p != nil {
			err = fmt.Errorf("open: %v", p)
		}
	}()
	switch d.Init {
	case "parsed":
		src, e := hex.DecodeString(d.Src)
		if e != nil {
			return nil, nil, e
		}
		var diags hcl.Diagnostics
		f, diags = hclwrite.ParseConfig(src, "old.hcl", hcl.InitialPos)
		if diags.HasErrors() || f == nil {
			return nil, nil, fmt.Errorf("source does not load: %s", diagStr(diags))
		}
	default:
		f = hclwrite.NewEmptyFile()
	}
	dst = f.Body()
	if d.Where == "block" {
		dst = dst.AppendNewBlock(destBlockType, d.Labels).Body()
	}
	return f, dst, nil
}

// encodeInto: the call under test on the prepared destination.
func encodeInto(rv reflect.Value, dst *hclwrite.Body, where string) (panicked any) {
	defer func() { panicked = recover() }()
	if where == "as-block" {
		for _, old := range dst.Blocks() {
			if old.Type() == destBlockType {
				dst.RemoveBlock(old)
			}
		}
		dst.AppendBlock(gohcl.EncodeAsBlock(encPtr(rv), destBlockType))
	} else {
		gohcl.EncodeIntoBody(encPtr(rv), dst)
	}
	return nil
}

// freshRef: the same encoding into a brand-new destination of the same shape.
func freshRef(rv reflect.Value, d *Dest) (src []byte, panicked any) {
	defer func() { panicked = recover() }()
	f := hclwrite.NewEmptyFile()
	switch d.Where {
	case "block":
		gohcl.EncodeIntoBody(encPtr(rv), f.Body().AppendNewBlock(destBlockType, d.Labels).Body())
	case "as-block":
		f.Body().AppendBlock(gohcl.EncodeAsBlock(encPtr(rv), destBlockType))
	default:
		gohcl.EncodeIntoBody(encPtr(rv), f.Body())
	}
	return f.Bytes(), nil
}

// located: the body at the destination, found by an independent parse of the file's bytes.
type located struct {
	body  *hclsyntax.Body
	block *hclsyntax.Block // nil for where = root
	text  []byte           // the source of the destination (whole file / the block)
}

func locate(src []byte, where string) (*located, string) {
	file, diags := hclsyntax.ParseConfig(src, "t.hcl", hcl.InitialPos)
	if diags.HasErrors() {
		return nil, "the file does not parse: " + diagStr(diags)
	}
	root := file.Body.(*hclsyntax.Body)
	if where == "root" {
		return &located{body: root, text: src}, ""
	}
	var found []*hclsyntax.Block
	for _, b := range root.Blocks {
		if b.Type == destBlockType {
			found = append(found, b)
		}
	}
	if len(found) != 1 {
		return nil, fmt.Sprintf("%d blocks of type %s in the file, want 1", len(found), destBlockType)
	}
	rng := found[0].Range()
	return &located{body: found[0].Body, block: found[0], text: src[rng.Start.Byte:rng.End.Byte]}, ""
}

// sameTokens: two texts are the same sequence of tokens (type and bytes; comments and line breaks are tokens,
// blanks between tokens are not).
func sameTokens(a, b []byte) bool {
	ta, da := hclsyntax.LexConfig(a, "a.hcl", hcl.InitialPos)
	tb, db := hclsyntax.LexConfig(b, "b.hcl", hcl.InitialPos)
	if da.HasErrors() || db.HasErrors() || len(ta) != len(tb) {
		return false
	}
	for i := range ta {
		if ta[i].Type != tb[i].Type || !bytes.Equal(ta[i].Bytes, tb[i].Bytes) {
			return false
		}
	}
	return true
}

// inventory: the names a body holds, for messages.
func inventory(f *AFile) string {
	var parts []string
	for _, a := range f.Attrs {
		parts = append(parts, a.Name)
	}
	for _, b := range f.Blocks {
		parts = append(parts, b.Type+strings.Repeat(" \"\"", len(b.Labels))+" {"+inventory(b.Body)+"}")
	}
	return strings.Join(parts, " ")
}

// coqDstItems: the items a body holds, as Coq witems: names and structure; attribute values as null (the
// model's SetAttributeValue looks at names only).
func coqDstItems(b *hclsyntax.Body, budget *int) string {
	var parts []string
	for _, it := range sortedItems(b) {
		if *budget <= 0 {
			break
		}
		*budget--
		if it.attr != nil {
			parts = append(parts, "WAttr "+hv.CoqStr(it.attr.Name)+" (VNull TDyn)")
		} else {
			parts = append(parts, "WBlock "+hv.CoqStr(it.block.Type)+" "+coqStrList(it.block.Labels)+" "+coqDstItems(it.block.Body, budget))
		}
	}
	return hv.CoqList(parts)
}

// ---- the check ---------------------------------------------------------------------------------------

// checkAt: the file must now hold, at the destination, exactly the encoding of (t, rv); decoded value
// returned for further cycles.  stage names the moment for messages.
func (x *runner) checkAt(f *hclwrite.File, d *Dest, t *Ty, rv, want reflect.Value, ref []byte, stage string, sp *Spec) (out reflect.Value, ok bool) {
	src := f.Bytes()
	loc, msg := locate(src, d.Where)
	if loc == nil {
		x.fail("dest-encode-differs", stage+": "+msg+"\n"+string(src), sp)
		return out, false
	}
	// (1) inventory against the harness's own statement of the encoding
	got, _ := fileOfBody(loc.body)
	exp := fileOfValue(t, rv)
	info := &hv.ValInfo{}
	if a, b := coqAFile(got, info), coqAFile(exp, info); a != b {
		x.fail("dest-encode-differs", fmt.Sprintf("%s: the destination does not hold the items of the value: holds [%s], the encoding rules give [%s]\n%s",
			stage, inventory(got), inventory(exp), src), sp)
		return out, false
	}
	if loc.block != nil {
		wantLabels := d.Labels
		if d.Where == "as-block" {
			wantLabels = labelsOf(t, rv)
		}
		if !reflect.DeepEqual(append([]string{}, loc.block.Labels...), append([]string{}, wantLabels...)) {
			x.fail("dest-encode-differs", fmt.Sprintf("%s: block labels %q, want %q\n%s", stage, loc.block.Labels, wantLabels, src), sp)
			return out, false
		}
	}
	// (2) decode
	out, diags, p := decodeReal(loc.body, nil, t)
	switch {
	case p != nil:
		x.fail("decode-panic", stage+": "+fmt.Sprint(p)+"\n"+string(src), sp)
		return out, false
	case diags.HasErrors():
		x.fail("dest-roundtrip-differs", stage+": "+diagStr(diags)+"\n"+string(src), sp)
		return out, false
	}
	clearBodies(t, out)
	if !reflect.DeepEqual(want.Interface(), out.Interface()) {
		x.fail("dest-roundtrip-differs", stage+": "+diffPath(t, want, out, "v")+"\n"+string(src), sp)
		return out, false
	}
	// (3) the same bytes as a fresh destination gets
	if ref != nil {
		rloc, rmsg := locate(ref, d.Where)
		switch {
		case rloc == nil:
			x.rep.Hist("dest:fresh-reference-unusable:" + rmsg)
		case bytes.Equal(rloc.text, loc.text):
			x.rep.Hist("dest:same-bytes-as-fresh")
		case sameTokens(rloc.text, loc.text):
			// hclwrite keeps the tokens of a loaded file that lie outside its root body (blanks after the last
			// item of a text without a final line break): not contents of the body, and no token
			x.rep.Hist("dest:same-tokens-as-fresh(blanks differ)")
		default:
			x.fail("dest-bytes-differ", fmt.Sprintf("%s: the source differs from the encoding into a fresh destination\n--- got\n%s\n--- fresh\n%s", stage, loc.text, rloc.text), sp)
			return out, false
		}
	}
	return out, true
}

// freshClean: the ordinary round trip of (t, rv) through a new file is clean.
func freshClean(t *Ty, rv reflect.Value) bool {
	if hasBadString(t, rv) {
		return false
	}
	src, p := encodeReal(rv)
	if p != nil {
		return false
	}
	file, d := hclsyntax.ParseConfig(src, "t.hcl", hcl.InitialPos)
	if d.HasErrors() {
		return false
	}
	out, diags, p := decodeReal(file.Body, nil, t)
	if p != nil || diags.HasErrors() {
		return false
	}
	clearBodies(t, out)
	return reflect.DeepEqual(normStruct(t, rv, false).Interface(), out.Interface())
}

// destCase: encode (t, rv) into the destination d describes.  Called only when the fresh round trip of
// (t, rv) was clean.
func (x *runner) destCase(t *Ty, rv, want reflect.Value, d *Dest, sp *Spec, universe bool) {
	rep := x.rep
	rep.Hist("dest:" + d.Kind)
	rep.Hist("dest-where:" + d.Where)
	rep.Hist("dest-init:" + d.Init)
	rep.Hist("dest:not-fresh")
	f, dst, err := openDest(d)
	if err != nil {
		rep.Hist("dest:preparation-failed(not C16)")
		return
	}
	for i := range d.Steps {
		s := &d.Steps[i]
		if err := applyStep(dst, s); err != nil {
			rep.Hist("dest:preparation-failed(not C16)")
			return
		}
		rep.Hist("dest-step:" + s.Op)
		if s.Op == "enc" && d.Where != "as-block" {
			// an earlier encoding is itself an encoding into a destination that is not fresh
			t0 := &Ty{K: TStruct, F: s.Schema}
			if rv0, e := specToVal(t0, s.Value); e == nil && freshClean(t0, rv0) {
				if _, ok := x.checkAt(f, d, t0, rv0, normStruct(t0, rv0, false), nil, fmt.Sprintf("earlier encoding (step %d)", i), sp); !ok {
					return
				}
				rep.Hist("oracle-ok:dest-earlier-encoding")
			}
		}
	}
	// what the destination holds now: names the new encoding collides with
	pre := ""
	if loc, _ := locate(f.Bytes(), map[string]string{"root": "root", "block": "block", "as-block": "root"}[d.Where]); loc != nil {
		held, _ := fileOfBody(loc.body)
		names := map[string]bool{}
		for _, a := range held.Attrs {
			names[a.Name] = true
		}
		for _, b := range held.Blocks {
			names[b.Type] = true
		}
		n := 0
		for _, fld := range t.F {
			if (fld.Kind == "attr" || fld.Kind == "optional" || fld.Kind == "block") && names[fld.Name] {
				n++
			}
		}
		switch {
		case len(names) == 0:
			rep.Hist("dest-holds:nothing")
		case n == 0:
			rep.Hist("dest-holds:other-names-only")
		default:
			rep.Hist("dest-holds:names-of-the-value")
		}
		budget := 60
		pre = coqDstItems(loc.body, &budget)
	} else {
		rep.Hist("dest-holds:unparseable")
		if d.Where != "root" {
			// the text AROUND the destination is broken by the preparation (writer API, C12): not this property
			rep.Hist("dest:preparation-failed(not C16)")
			return
		}
	}

	ref, rp := freshRef(rv, d)
	if rp != nil {
		ref = nil
	} else if ref == nil {
		ref = []byte{} // an encoding that writes nothing
	}
	if p := encodeInto(rv, dst, d.Where); p != nil {
		x.fail("dest-encode-panic", fmt.Sprint(p), sp)
		return
	}
	// Coq: the body afterwards vs encode_into of the model (emitted whatever the oracle below says)
	if universe && pre != "" && d.Where != "as-block" {
		if loc, _ := locate(f.Bytes(), d.Where); loc != nil {
			prevEnd := 0
			if loc.block != nil {
				prevEnd = loc.block.OpenBraceRange.Start.Line
			}
			info := &hv.ValInfo{}
			items, iok := coqItems(loc.body, prevEnd, info)
			if iok && !info.Inexact && !info.Unsupported {
				x.addCase(fmt.Sprintf("CEncInto %s %s %s (Some %s)", pre, coqSchema(t.F), coqSval(t, rv), items), "encinto:"+sp.String())
				rep.Hist("coq:encinto-case")
			}
		}
	}
	out, ok := x.checkAt(f, d, t, rv, want, ref, "encoding into the prepared destination", sp)
	if !ok {
		return
	}
	rep.Hist("oracle-ok:dest-roundtrip")

	// further cycles on the same file: encode what was decoded, decode again
	for c := 1; c <= d.Cycles; c++ {
		rep.Hist("dest:cycle")
		if p := encodeInto(out, dst, d.Where); p != nil {
			x.fail("dest-encode-panic", fmt.Sprintf("cycle %d: %v", c, p), sp)
			return
		}
		// the decoded value is norm v; its top-level labels are cleared, so as a block it carries empty labels
		cd := d
		out2, ok := x.checkAt(f, cd, t, out, want, nil, fmt.Sprintf("cycle %d (re-encoding the decoded value into the same body)", c), sp)
		if !ok {
			return
		}
		out = out2
		rep.Hist("oracle-ok:dest-cycle")
	}
}

// ---- generator -------------------------------------------------------------------------------------------

type destGen struct {
	r *hv.Rng
	g *gen
}

func itemNames(t *Ty) (attrs, blocks []string) {
	for _, f := range t.F {
		switch f.Kind {
		case "attr", "optional":
			attrs = append(attrs, f.Name)
		case "block":
			blocks = append(blocks, f.Name)
		}
	}
	return
}

// sibling: a struct type of the same family: most item names of t are kept, with the same or another type,
// some as the other kind of item (an attribute name as a block type and vice versa), some fields dropped,
// some added.
func (dg *destGen) sibling(t *Ty) *Ty {
	r, g := dg.r, dg.g
	used := map[string]bool{}
	for _, f := range t.F {
		used[f.Name] = true
	}
	var fs []Field
	for _, f := range t.F {
		switch f.Kind {
		case "label":
			if r.Chance(0.5) {
				fs = append(fs, f)
			}
		case "attr", "optional", "block":
			if r.Chance(0.15) {
				continue
			}
			nf := Field{Name: f.Name, Kind: f.Kind, T: f.T}
			flip := r.Chance(0.2)
			isBlock := (f.Kind == "block") != flip
			switch {
			case isBlock && f.Kind == "block" && r.Chance(0.6):
				// same block type
			case isBlock:
				st := g.structTy(2, false)
				nf.Kind = "block"
				nf.T = []*Ty{st, ptrTo(st), sliceOf(st), sliceOf(ptrTo(st))}[r.Intn(4)]
			default:
				nf.Kind = r.Pick("attr", "attr", "optional")
				if f.Kind == "block" || r.Chance(0.5) {
					nf.T = g.attrTy(1)
				}
			}
			fs = append(fs, nf)
		}
	}
	for n := r.Small(2); n > 0; n-- {
		fs = append(fs, Field{Name: g.freshName(used), Kind: r.Pick("attr", "optional"), T: g.attrTy(1)})
	}
	if len(fs) == 0 {
		fs = append(fs, Field{Name: g.freshName(used), Kind: "attr", T: tyString})
	}
	r.Shuffle(len(fs), func(i, j int) { fs[i], fs[j] = fs[j], fs[i] })
	return &Ty{K: TStruct, F: fs}
}

func (dg *destGen) encStep(t *Ty, rv reflect.Value) DestStep {
	return DestStep{Op: "enc", Schema: t.F, Value: valToSpec(t, rv)}
}

// name for a hand edit / an old text: mostly a name the value will write
func (dg *destGen) name(own []string) string {
	if len(own) > 0 && dg.r.Chance(0.7) {
		return own[dg.r.Intn(len(own))]
	}
	return namePool[dg.r.Intn(len(namePool))]
}

func (dg *destGen) handSteps(own []string, n int, nested bool) []DestStep {
	r := dg.r
	var out []DestStep
	for i := 0; i < n; i++ {
		switch k := r.Intn(20); {
		case k < 7:
			out = append(out, DestStep{Op: "set", Name: dg.name(own), VI: r.Intn(len(wrongVals))})
		case k < 9:
			out = append(out, DestStep{Op: r.Pick("trav", "raw"), Name: dg.name(own)})
		case k < 12 && !nested:
			var ls []string
			for j := r.Small(2); j > 0; j-- {
				ls = append(ls, r.Pick("a", "l", "", "x y", "${"))
			}
			out = append(out, DestStep{Op: "block", Name: dg.name(own), Labels: ls, Body: dg.handSteps(own, r.Small(3), true)})
		case k < 13:
			out = append(out, DestStep{Op: "newline"})
		case k < 14:
			out = append(out, DestStep{Op: "comment", Name: r.Pick("managed", "old", "TODO")})
		case k < 16:
			out = append(out, DestStep{Op: "rename", Name: dg.name(own), To: dg.name(own)})
		case k < 18:
			out = append(out, DestStep{Op: "remove", Name: dg.name(own)})
		case k < 19:
			out = append(out, DestStep{Op: "rmblock", VI: r.Intn(4)})
		default:
			out = append(out, DestStep{Op: "clear"})
		}
	}
	return out
}

var oldExprs = []string{`1`, `"old"`, `true`, `null`, `[1, 2]`, `{ a = 1 }`, `var.x`, `f(1, "a")`, `"a${b}c"`, `[for x in y : x]`, `a ? b : c`,
	"<<EOT\nold text\nEOT", `-7.5`, `{ "k" = [1, { z = null }] }`, `x.*.y`, `!a && b`}

// oldText: a configuration text as found in a file that is about to be overwritten: attributes and blocks
// under the names the value will write (and others), comments of the three kinds, blank lines.
func (dg *destGen) oldText(own []string, depth int) string {
	r := dg.r
	var b strings.Builder
	ind := strings.Repeat("  ", depth)
	usedAttr := map[string]bool{}
	n := 1 + r.Small(5)
	for i := 0; i < n; i++ {
		switch k := r.Intn(12); {
		case k < 6:
			nm := dg.name(own)
			if usedAttr[nm] {
				continue
			}
			usedAttr[nm] = true
			fmt.Fprintf(&b, "%s%s = %s", ind, nm, oldExprs[r.Intn(len(oldExprs))])
			if r.Chance(0.2) {
				b.WriteString(" # was set by hand")
			}
			b.WriteString("\n")
		case k < 8 && depth < 2:
			fmt.Fprintf(&b, "%s%s", ind, dg.name(own))
			for j := r.Small(2); j > 0; j-- {
				fmt.Fprintf(&b, " %q", r.Pick("a", "l", "web"))
			}
			b.WriteString(" {\n" + dg.oldText(own, depth+1) + ind + "}\n")
		case k < 9:
			b.WriteString(ind + "# managed file\n")
		case k < 10:
			b.WriteString(ind + "// do not edit\n")
		case k < 11:
			b.WriteString(ind + "/* old\n" + ind + "   block */\n")
		default:
			b.WriteString("\n")
		}
	}
	return b.String()
}

// decorate: an earlier encoding as a person left it: comments before some lines.
func (dg *destGen) decorate(src []byte) []byte {
	lines := strings.SplitAfter(string(src), "\n")
	var b strings.Builder
	for _, l := range lines {
		if dg.r.Chance(0.2) {
			b.WriteString(dg.r.Pick("# note\n", "// note\n", "/* note */\n", "\n"))
		}
		b.WriteString(l)
	}
	return []byte(b.String())
}

func loads(src []byte) (ok bool) {
	defer func() {
		if recover() != nil {
			ok = false
		}
	}()
	f, d := hclwrite.ParseConfig(src, "old.hcl", hcl.InitialPos)
	return f != nil && !d.HasErrors()
}

// earlier: a value of the same type, of a sibling type or of an unrelated type.
func (dg *destGen) earlier(t *Ty, rv reflect.Value) (*Ty, reflect.Value, string) {
	switch k := dg.r.Intn(10); {
	case k < 2:
		return t, rv, "same-value"
	case k < 5:
		return t, dg.g.value(t), "same-type"
	case k < 9:
		st := dg.sibling(t)
		return st, dg.g.value(st), "sibling-type"
	default:
		ot := dg.g.structTy(0, true)
		return ot, dg.g.value(ot), "other-type"
	}
}

// dest: nil = a fresh file (the ordinary case).
func (dg *destGen) dest(t *Ty, rv reflect.Value) *Dest {
	r := dg.r
	if !r.Chance(0.38) {
		return nil
	}
	d := &Dest{Init: "new", Where: "root"}
	switch w := r.Intn(10); {
	case w < 7:
	case w < 9:
		d.Where = "block"
		for j := r.Small(2); j > 0; j-- {
			d.Labels = append(d.Labels, r.Pick("a", "main", "", "x y"))
		}
	default:
		d.Where = "as-block"
	}
	attrs, blocks := itemNames(t)
	own := append(append([]string{}, attrs...), blocks...)
	parsedFrom := func(src []byte) bool {
		// appending to a loaded file whose last item has no line break glues the two (hclwrite; C12 known
		// finding append-after-unterminated-item): only a root body, which EncodeIntoBody clears, may be that
		if d.Where != "root" && !bytes.HasSuffix(src, []byte("\n")) {
			src = append(append([]byte{}, src...), '\n')
		}
		if !loads(src) {
			return false
		}
		d.Init, d.Src = "parsed", hex.EncodeToString(src)
		return true
	}
	switch k := r.Intn(100); {
	case k < 38:
		n := 1 + r.Small(2)
		kinds := map[string]bool{}
		for i := 0; i < n; i++ {
			t0, v0, what := dg.earlier(t, rv)
			kinds[what] = true
			d.Steps = append(d.Steps, dg.encStep(t0, v0))
		}
		var ks []string
		for kk := range kinds {
			ks = append(ks, kk)
		}
		sort.Strings(ks)
		d.Kind = "previously-encoded:" + strings.Join(ks, "+")
	case k < 52:
		_, v0, what := dg.earlier(t, rv)
		d.Kind = "parsed-from-earlier-encoding:" + what
		src, p := encodeReal(v0)
		if p != nil || !parsedFrom(dg.decorate(src)) {
			d.Kind = "parsed-from-earlier-encoding:unloadable->old-text"
			if !parsedFrom([]byte(dg.oldText(own, 0))) {
				return nil
			}
		}
	case k < 72:
		d.Kind = "parsed-from-old-text"
		if !parsedFrom([]byte(dg.oldText(own, 0))) {
			return nil
		}
	case k < 78:
		d.Kind = "parsed-from-corpus-text"
		txt, _ := hv.GenConfig(r)
		if len(txt) > 4000 || !parsedFrom([]byte(txt)) {
			d.Kind = "parsed-from-old-text"
			if !parsedFrom([]byte(dg.oldText(own, 0))) {
				return nil
			}
		}
	case k < 92:
		d.Kind = "hand-edited"
		d.Steps = dg.handSteps(own, 1+r.Small(5), false)
	default:
		d.Kind = "mixed(parsed+edited+encoded)"
		if !parsedFrom([]byte(dg.oldText(own, 0))) {
			return nil
		}
		d.Steps = dg.handSteps(own, r.Small(3), false)
		t0, v0, _ := dg.earlier(t, rv)
		d.Steps = append(d.Steps, dg.encStep(t0, v0))
		d.Steps = append(d.Steps, dg.handSteps(own, r.Small(3), false)...)
	}
	if r.Chance(0.3) {
		d.Cycles = 1 + r.Small(2)
	}
	return d
}

// ---- hand corpus -----------------------------------------------------------------------------------

type destCorpusCase struct {
	c corpusCase
	d *Dest
}

func destCorpus() []destCorpusCase {
	one := st(fl("name"), fo("port", ptrTo(tyInt)), fo("host", ptrTo(tyString)))
	cfg := st(fo("title", tyString), fa("retries", ptrTo(tyInt)), fo("tags", mapOf(tyString)), fb("listener", sliceOf(one)))
	v1 := li(hx("first"), some(in(1)), li(kv("env", hx("dev"))), li(li(hx("a"), some(in(8080)), some(hx("localhost")))))
	v2 := li(hx("second"), some(in(2)), li(kv("env", hx("prod")), kv("zone", hx("x y"))),
		li(li(hx("a"), some(in(9090)), some(hx("example.com"))), li(hx("b"), some(in(8080)), some(hx("localhost")))))
	old := "# managed file\ntitle   = \"old\"\nretries = 7\n\nlistener \"z\" {\n  port = 1\n  host = \"h\"\n}\n"
	other := st(fa("retries", tyString), fb("title", st(fa("x", tyInt))), fa("extra", tyBool))
	return []destCorpusCase{
		{mk(cfg, v2, "destination: the body of an earlier encoding of the same type"),
			&Dest{Kind: "corpus", Init: "new", Where: "root", Steps: []DestStep{{Op: "enc", Schema: cfg.F, Value: v1}}}},
		{mk(cfg, v2, "destination: root body of a loaded file with the same names, a block and a comment"),
			&Dest{Kind: "corpus", Init: "parsed", Src: hex.EncodeToString([]byte(old)), Where: "root", Cycles: 2}},
		{mk(cfg, v1, "destination: a hand-filled block of a loaded file"),
			&Dest{Kind: "corpus", Init: "parsed", Src: hex.EncodeToString([]byte(old)), Where: "block", Labels: []string{"main"},
				Steps: []DestStep{{Op: "set", Name: "title", VI: 0}, {Op: "trav", Name: "retries"}, {Op: "block", Name: "listener", Labels: []string{"q"},
					Body: []DestStep{{Op: "set", Name: "port", VI: 5}}}, {Op: "rename", Name: "title", To: "tags"}, {Op: "remove", Name: "retries"}}}},
		{mk(cfg, v2, "destination: earlier encoding of another type using the same names for other items; EncodeAsBlock"),
			&Dest{Kind: "corpus", Init: "new", Where: "as-block", Cycles: 1,
				Steps: []DestStep{{Op: "enc", Schema: other.F, Value: li(hx("r"), li(in(3)), true)}, {Op: "enc", Schema: cfg.F, Value: v1}}}},
	}
}
