package main

// Abstract files on the Go side: what a hcl.Body exposes (attributes with values,
// blocks with labels).  Built (a) from a struct value by the harness's own mirror of
// the encoding rules, (b) from a parsed hclsyntax body.  Rendered as Coq terms, as a
// JSON document (object form) and as native syntax (for perturbed files).

import (
	"bytes"
	"encoding/json"
	"fmt"
	"reflect"
	"sort"
	"strings"

	"github.com/hashicorp/hcl/v2"
	"github.com/hashicorp/hcl/v2/hclsyntax"
	"github.com/hashicorp/hcl/v2/hclwrite"
	"github.com/zclconf/go-cty/cty"
	"hclverif/hv"
)

type AAttr struct {
	Name string
	V    cty.Value
}
type ABlock struct {
	Type   string
	Labels []string
	Body   *AFile
}
type AFile struct {
	Attrs  []AAttr
	Blocks []ABlock
}

func (f *AFile) clone() *AFile {
	out := &AFile{Attrs: append([]AAttr{}, f.Attrs...)}
	for _, b := range f.Blocks {
		out.Blocks = append(out.Blocks, ABlock{b.Type, append([]string{}, b.Labels...), b.Body.clone()})
	}
	return out
}

// ---- (a) from a struct value: the harness's own statement of the encoding ---------------

// ctyOf: the value as the parser will see it (tuples / objects / untyped null).
func ctyOf(t *Ty, rv reflect.Value) cty.Value {
	switch t.K {
	case TString:
		return cty.StringVal(rv.String())
	case TInt:
		return cty.NumberIntVal(rv.Int())
	case TBool:
		return cty.BoolVal(rv.Bool())
	case TPtr:
		if rv.IsNil() {
			return cty.NullVal(cty.DynamicPseudoType)
		}
		return ctyOf(t.E, rv.Elem())
	case TSlice:
		if rv.IsNil() {
			return cty.NullVal(cty.DynamicPseudoType)
		}
		vs := make([]cty.Value, rv.Len())
		for i := range vs {
			vs[i] = ctyOf(t.E, rv.Index(i))
		}
		return cty.TupleVal(vs)
	case TMap:
		if rv.IsNil() {
			return cty.NullVal(cty.DynamicPseudoType)
		}
		m := map[string]cty.Value{}
		for _, k := range rv.MapKeys() {
			m[k.String()] = ctyOf(t.E, rv.MapIndex(k))
		}
		return cty.ObjectVal(m)
	}
	panic("ctyOf")
}

func labelsOf(t *Ty, rv reflect.Value) []string {
	ls := []string{}
	for i, f := range t.F {
		if f.Kind == "label" {
			ls = append(ls, rv.Field(i).String())
		}
	}
	return ls
}

func fileOfValue(t *Ty, rv reflect.Value) *AFile {
	out := &AFile{}
	for i, f := range t.F {
		fv := rv.Field(i)
		switch f.Kind {
		case "attr", "optional":
			if f.T.K == TPtr {
				if fv.IsNil() {
					continue
				}
				if f.T.E.K == TPtr && fv.Elem().IsNil() {
					continue
				}
			}
			out.Attrs = append(out.Attrs, AAttr{f.Name, ctyOf(f.T, fv)})
		case "block":
			st, isSlice, isPtr := blockStruct(f.T)
			add := func(v reflect.Value) {
				if isPtr {
					if v.IsNil() {
						return
					}
					v = v.Elem()
				}
				out.Blocks = append(out.Blocks, ABlock{f.Name, labelsOf(st, v), fileOfValue(st, v)})
			}
			if isSlice {
				for j := 0; j < fv.Len(); j++ {
					add(fv.Index(j))
				}
			} else {
				add(fv)
			}
		}
	}
	return out
}

// ---- (b) from a parsed native body -----------------------------------------------------

type synItem struct {
	pos   int
	start int
	end   int
	attr  *hclsyntax.Attribute
	block *hclsyntax.Block
}

func sortedItems(b *hclsyntax.Body) []synItem {
	var items []synItem
	for _, a := range b.Attributes {
		items = append(items, synItem{pos: a.SrcRange.Start.Byte, start: a.SrcRange.Start.Line, end: a.SrcRange.End.Line, attr: a})
	}
	for _, bl := range b.Blocks {
		items = append(items, synItem{pos: bl.TypeRange.Start.Byte, start: bl.TypeRange.Start.Line, end: bl.CloseBraceRange.Start.Line, block: bl})
	}
	sort.Slice(items, func(i, j int) bool { return items[i].pos < items[j].pos })
	return items
}

// fileOfBody evaluates every attribute in a nil context. ok=false when some
// expression does not evaluate cleanly (not a constant): such files are outside the
// abstract-file model.
func fileOfBody(b *hclsyntax.Body) (f *AFile, ok bool) { return fileOfBodyCtx(b, nil) }

// fileOfBodyCtx: the same with an EvalContext (marked variables).
func fileOfBodyCtx(b *hclsyntax.Body, ctx *hcl.EvalContext) (f *AFile, ok bool) {
	f = &AFile{}
	ok = true
	for _, it := range sortedItems(b) {
		if it.attr != nil {
			v, diags := it.attr.Expr.Value(ctx)
			if len(diags) > 0 {
				ok = false
				v = cty.DynamicVal
			}
			f.Attrs = append(f.Attrs, AAttr{it.attr.Name, v})
		} else {
			sub, subok := fileOfBodyCtx(it.block.Body, ctx)
			if !subok {
				ok = false
			}
			f.Blocks = append(f.Blocks, ABlock{it.block.Type, append([]string{}, it.block.Labels...), sub})
		}
	}
	return f, ok
}

// ---- numbers that cannot be printed ---------------------------------------------------------
//
// hv.CoqNum prints a number as an exact fraction of two decimal integers.  A mutated text can hold a short
// literal with an enormous exponent (`1e99999999`, ten bytes): its numerator has a hundred million digits and
// math/big needs many minutes of one core to print it (this, not the number of cases, made one thorough run
// take 17 minutes).  Such a value is outside the comparison anyway (hv.NumExact: more than 200 significant
// bits -> inexact -> the case is not emitted), so it is recognised BEFORE printing: binary exponent beyond
// +-4096 (a decimal literal of that size needs 5^k with k > 1200, i.e. more than 200 bits, so nothing that
// would have been compared is lost; exact powers of two of that size can only come from arithmetic and are
// counted under the same histogram key).
const maxPrintableExp = 4096

func hugeNumberVal(v cty.Value) bool {
	v, _ = v.Unmark()
	if !v.IsKnown() || v.IsNull() {
		return false
	}
	ty := v.Type()
	switch {
	case ty == cty.Number:
		bf := v.AsBigFloat()
		if bf.IsInf() || bf.Sign() == 0 {
			return false
		}
		e := bf.MantExp(nil)
		return e > maxPrintableExp || e < -maxPrintableExp
	case ty.IsCollectionType() || ty.IsTupleType() || ty.IsObjectType():
		for it := v.ElementIterator(); it.Next(); {
			_, ev := it.Element()
			if hugeNumberVal(ev) {
				return true
			}
		}
	}
	return false
}

func hugeNumber(f *AFile) bool {
	for _, a := range f.Attrs {
		if hugeNumberVal(a.V) {
			return true
		}
	}
	for _, b := range f.Blocks {
		if hugeNumber(b.Body) {
			return true
		}
	}
	return false
}

// ---- Coq rendering ---------------------------------------------------------------------

func coqStrList(ss []string) string {
	parts := make([]string, len(ss))
	for i, s := range ss {
		parts[i] = hv.CoqStr(s)
	}
	return hv.CoqList(parts)
}

func coqAFile(f *AFile, info *hv.ValInfo) string {
	as := make([]string, len(f.Attrs))
	for i, a := range f.Attrs {
		as[i] = "(" + hv.CoqStr(a.Name) + ", " + hv.CoqVal(a.V, info) + ")"
	}
	bs := make([]string, len(f.Blocks))
	for i, b := range f.Blocks {
		bs[i] = "(" + hv.CoqStr(b.Type) + ", " + coqStrList(b.Labels) + ", " + coqAFile(b.Body, info) + ")"
	}
	return "(AFile " + hv.CoqList(as) + " " + hv.CoqList(bs) + ")"
}

// coqItems renders a parsed body as the writer items that produced it: blank lines
// become WNewline (prevEnd = line of the enclosing open brace, 0 at top level).
func coqItems(b *hclsyntax.Body, prevEnd int, info *hv.ValInfo) (string, bool) {
	var parts []string
	ok := true
	for _, it := range sortedItems(b) {
		for k := 0; k < it.start-prevEnd-1; k++ {
			parts = append(parts, "WNewline")
		}
		if it.attr != nil {
			v, diags := it.attr.Expr.Value(nil)
			if len(diags) > 0 {
				ok = false
				v = cty.DynamicVal
			}
			parts = append(parts, "WAttr "+hv.CoqStr(it.attr.Name)+" "+hv.CoqVal(v, info))
		} else {
			sub, subok := coqItems(it.block.Body, it.block.OpenBraceRange.Start.Line, info)
			if !subok {
				ok = false
			}
			parts = append(parts, "WBlock "+hv.CoqStr(it.block.Type)+" "+coqStrList(it.block.Labels)+" "+sub)
		}
		prevEnd = it.end
	}
	return hv.CoqList(parts), ok
}

// ---- JSON rendering (object form) -----------------------------------------------------------

// tmplEscape: with a non-nil EvalContext JSON strings are templates.
func tmplEscape(s string) string {
	s = strings.ReplaceAll(s, "${", "$${")
	s = strings.ReplaceAll(s, "%{", "%%{")
	return s
}

func jsonString(s string, tmpl bool) string {
	if tmpl {
		s = tmplEscape(s)
	}
	var buf bytes.Buffer
	enc := json.NewEncoder(&buf)
	enc.SetEscapeHTML(false)
	if err := enc.Encode(s); err != nil {
		panic(err)
	}
	return strings.TrimSuffix(buf.String(), "\n")
}

func jsonOfCty(v cty.Value, tmpl bool) string {
	if !v.IsKnown() {
		return `"${unknown}"`
	}
	if v.IsNull() {
		return "null"
	}
	ty := v.Type()
	switch {
	case ty == cty.String:
		return jsonString(v.AsString(), tmpl)
	case ty == cty.Number:
		return v.AsBigFloat().Text('f', -1)
	case ty == cty.Bool:
		if v.True() {
			return "true"
		}
		return "false"
	case ty.IsListType() || ty.IsTupleType() || ty.IsSetType():
		var parts []string
		for it := v.ElementIterator(); it.Next(); {
			_, ev := it.Element()
			parts = append(parts, jsonOfCty(ev, tmpl))
		}
		return "[" + strings.Join(parts, ", ") + "]"
	case ty.IsMapType() || ty.IsObjectType():
		var parts []string
		for it := v.ElementIterator(); it.Next(); {
			k, ev := it.Element()
			parts = append(parts, jsonString(k.AsString(), tmpl)+": "+jsonOfCty(ev, tmpl))
		}
		return "{" + strings.Join(parts, ", ") + "}"
	}
	return "null"
}

// jsonOfFile: attributes as properties, the blocks of one type under one property,
// as an array of (label objects around) body objects, or a single such object when
// there is exactly one and the rng says so.
func jsonOfFile(f *AFile, tmpl bool, r *hv.Rng) string {
	var parts []string
	for _, a := range f.Attrs {
		parts = append(parts, jsonString(a.Name, false)+": "+jsonOfCty(a.V, tmpl))
	}
	var order []string
	byType := map[string][]ABlock{}
	for _, b := range f.Blocks {
		if _, seen := byType[b.Type]; !seen {
			order = append(order, b.Type)
		}
		byType[b.Type] = append(byType[b.Type], b)
	}
	for _, ty := range order {
		var elems []string
		for _, b := range byType[ty] {
			s := jsonOfFile(b.Body, tmpl, r)
			for i := len(b.Labels) - 1; i >= 0; i-- {
				s = "{" + jsonString(b.Labels[i], false) + ": " + s + "}"
			}
			elems = append(elems, s)
		}
		if len(elems) == 1 && r != nil && r.Chance(0.5) {
			parts = append(parts, jsonString(ty, false)+": "+elems[0])
		} else {
			parts = append(parts, jsonString(ty, false)+": ["+strings.Join(elems, ", ")+"]")
		}
	}
	return "{" + strings.Join(parts, ", ") + "}"
}

// ---- native rendering of (perturbed) files through the writer ---------------------------------

func writeNative(f *AFile, body *hclwrite.Body) {
	for _, a := range f.Attrs {
		body.SetAttributeValue(a.Name, a.V)
	}
	for _, b := range f.Blocks {
		nb := body.AppendNewBlock(b.Type, b.Labels)
		writeNative(b.Body, nb.Body())
	}
}

func nativeOfFile(f *AFile) (src []byte, err error) {
	defer func() {
		if r := recover(); r != nil {
			err = fmt.Errorf("writer panic: %v", r)
		}
	}()
	wf := hclwrite.NewEmptyFile()
	writeNative(f, wf.Body())
	return wf.Bytes(), nil
}

// ---- structural perturbation ------------------------------------------------------------

var wrongVals = []cty.Value{
	cty.StringVal("abc"), cty.StringVal("12"), cty.StringVal("true"), cty.StringVal("1.5"), cty.StringVal(""),
	cty.NumberIntVal(7), cty.NumberFloatVal(1.5), cty.NumberIntVal(-3), cty.MustParseNumberVal("9223372036854775808"), cty.MustParseNumberVal("1e30"),
	cty.True, cty.False, cty.NullVal(cty.DynamicPseudoType),
	cty.EmptyTupleVal, cty.TupleVal([]cty.Value{cty.StringVal("a")}), cty.TupleVal([]cty.Value{cty.NumberIntVal(1), cty.StringVal("a")}),
	cty.TupleVal([]cty.Value{cty.NullVal(cty.DynamicPseudoType), cty.NumberIntVal(2)}),
	cty.EmptyObjectVal, cty.ObjectVal(map[string]cty.Value{"k": cty.StringVal("v")}),
	cty.ObjectVal(map[string]cty.Value{"k": cty.NumberIntVal(1), "j": cty.NullVal(cty.DynamicPseudoType)}),
	cty.ObjectVal(map[string]cty.Value{"k": cty.TupleVal([]cty.Value{cty.StringVal("x")})}),
	cty.TupleVal([]cty.Value{cty.TupleVal([]cty.Value{cty.StringVal("x")}), cty.EmptyTupleVal}),
	cty.TupleVal([]cty.Value{cty.EmptyObjectVal}),
}

// perturb applies one structural change somewhere in the file; returns its name.
// jsonComparable = the change is expressible in JSON with the same meaning.
func perturb(r *hv.Rng, t *Ty, f *AFile) (kind string, jsonComparable bool) {
	// descend into a nested block sometimes
	if len(f.Blocks) > 0 && r.Chance(0.35) {
		b := &f.Blocks[r.Intn(len(f.Blocks))]
		for _, fld := range t.F {
			if fld.Kind == "block" && fld.Name == b.Type {
				st, _, _ := blockStruct(fld.T)
				k, jc := perturb(r, st, b.Body)
				return "nested-" + k, jc
			}
		}
	}
	var attrFields, blockFields []Field
	for _, fld := range t.F {
		switch fld.Kind {
		case "attr", "optional":
			attrFields = append(attrFields, fld)
		case "block":
			blockFields = append(blockFields, fld)
		}
	}
	for try := 0; try < 8; try++ {
		switch r.Intn(9) {
		case 0: // drop an attribute
			if len(f.Attrs) > 0 {
				i := r.Intn(len(f.Attrs))
				f.Attrs = append(f.Attrs[:i], f.Attrs[i+1:]...)
				return "drop-attr", true
			}
		case 1: // extra attribute
			f.Attrs = append(f.Attrs, AAttr{extraAttrName(f), wrongVals[r.Intn(len(wrongVals))]})
			return "extra-attr", true
		case 2, 3: // wrong type for an attribute
			if len(f.Attrs) > 0 {
				i := r.Intn(len(f.Attrs))
				f.Attrs[i].V = wrongVals[r.Intn(len(wrongVals))]
				return "retype-attr", true
			}
		case 4: // set an attribute the value left out
			if len(attrFields) > 0 {
				fld := attrFields[r.Intn(len(attrFields))]
				present := false
				for _, a := range f.Attrs {
					if a.Name == fld.Name {
						present = true
					}
				}
				if !present {
					f.Attrs = append(f.Attrs, AAttr{fld.Name, wrongVals[r.Intn(len(wrongVals))]})
					return "set-absent-attr", true
				}
			}
		case 5: // duplicate a block
			if len(f.Blocks) > 0 {
				i := r.Intn(len(f.Blocks))
				c := ABlock{f.Blocks[i].Type, append([]string{}, f.Blocks[i].Labels...), f.Blocks[i].Body.clone()}
				f.Blocks = append(f.Blocks[:i+1], append([]ABlock{c}, f.Blocks[i+1:]...)...)
				return "dup-block", true
			}
		case 6: // drop a block
			if len(f.Blocks) > 0 {
				i := r.Intn(len(f.Blocks))
				f.Blocks = append(f.Blocks[:i], f.Blocks[i+1:]...)
				return "drop-block", true
			}
		case 7: // unknown block type, or a block for a field that has none
			if len(blockFields) > 0 && r.Chance(0.5) {
				fld := blockFields[r.Intn(len(blockFields))]
				st, _, _ := blockStruct(fld.T)
				nl := 0
				for _, sf := range st.F {
					if sf.Kind == "label" {
						nl++
					}
				}
				ls := make([]string, nl)
				for i := range ls {
					ls[i] = "L"
				}
				f.Blocks = append(f.Blocks, ABlock{fld.Name, ls, &AFile{}})
				return "add-empty-block", true
			}
			f.Blocks = append(f.Blocks, ABlock{"zz_blk", nil, &AFile{}})
			// with a `remain` field the JSON property "zz_blk": {} is an attribute of the
			// remaining body, the native block is not: JSON cannot express the difference
			hasRemain := false
			for _, fld := range t.F {
				if fld.Kind == "remain" {
					hasRemain = true
				}
			}
			return "extra-block", !hasRemain
		case 8: // wrong number of labels
			if len(f.Blocks) > 0 {
				i := r.Intn(len(f.Blocks))
				if len(f.Blocks[i].Labels) > 0 && r.Chance(0.5) {
					f.Blocks[i].Labels = f.Blocks[i].Labels[1:]
					return "drop-label", false
				}
				f.Blocks[i].Labels = append(f.Blocks[i].Labels, "extra")
				return "add-label", false
			}
		}
	}
	f.Attrs = append(f.Attrs, AAttr{extraAttrName(f), cty.True})
	return "extra-attr", true
}

// extraAttrName: a name for an added attribute that no attribute of the file has yet.  (Numbering by
// len(f.Attrs) alone repeats a name after extra-attr, drop-attr, extra-attr: the native writer's
// SetAttributeValue then REPLACES the first one while the JSON document gets the property twice, and the
// two texts are no longer the same file.)
func extraAttrName(f *AFile) string {
	for i := len(f.Attrs); ; i++ {
		n := fmt.Sprintf("zz_extra%d", i)
		used := false
		for _, a := range f.Attrs {
			if a.Name == n {
				used = true
			}
		}
		if !used {
			return n
		}
	}
}

var _ = hcl.InitialPos

// ---- marked values ---------------------------------------------------------------------------

// markSome marks v and/or some of its elements (marks m1..m3).
func markSome(r *hv.Rng, v cty.Value, force bool) cty.Value {
	if v.IsKnown() && !v.IsNull() {
		ty := v.Type()
		switch {
		case ty.IsTupleType() && v.LengthInt() > 0:
			var vs []cty.Value
			for it := v.ElementIterator(); it.Next(); {
				_, ev := it.Element()
				if r.Chance(0.4) {
					ev = markSome(r, ev, true)
				}
				vs = append(vs, ev)
			}
			v = cty.TupleVal(vs)
		case ty.IsObjectType() && v.LengthInt() > 0:
			m := map[string]cty.Value{}
			for it := v.ElementIterator(); it.Next(); {
				k, ev := it.Element()
				if r.Chance(0.4) {
					ev = markSome(r, ev, true)
				}
				m[k.AsString()] = ev
			}
			v = cty.ObjectVal(m)
		}
	}
	if force || r.Chance(0.5) {
		v = v.Mark(r.Pick("m1", "m2", "m3"))
	}
	return v
}

// markedVariant: the file of the value with every top-level attribute given as a
// reference to a variable holding the (partly) marked value.
func markedVariant(r *hv.Rng, f *AFile) (src []byte, ctx *hcl.EvalContext, err error) {
	defer func() {
		if p := recover(); p != nil {
			err = fmt.Errorf("writer panic: %v", p)
		}
	}()
	wf := hclwrite.NewEmptyFile()
	vars := map[string]cty.Value{}
	for i, a := range f.Attrs {
		vn := fmt.Sprintf("v%d", i)
		vars[vn] = markSome(r, a.V, i == 0)
		wf.Body().SetAttributeTraversal(a.Name, hcl.Traversal{hcl.TraverseRoot{Name: vn}})
	}
	for _, b := range f.Blocks {
		nb := wf.Body().AppendNewBlock(b.Type, b.Labels)
		writeNative(b.Body, nb.Body())
	}
	return wf.Bytes(), &hcl.EvalContext{Variables: vars}, nil
}
