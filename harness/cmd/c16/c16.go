package main

// C16 — Struct encoding and decoding are inverse, in both syntaxes.
//
// Struct TYPES are built at run time (reflect.StructOf) from generated schemata;
// for each (type, value):
//   gohcl.EncodeIntoBody -> hclwrite bytes -> hclsyntax.ParseConfig -> gohcl.DecodeBody
//   into a fresh value -> reflect.DeepEqual up to norm (direct oracle);
//   the equivalent JSON document (written by the harness) -> json.Parse -> DecodeBody;
//   hclsimple.Decode on both; mutated / structurally perturbed contents decoded under
//   recover() (diagnostics yes, panic never);
//   the same value encoded into a destination body that is not fresh (dest.go).
// Coq cases (Gohcl/ModelCheck.v): CEnc (schema, value, items read back from the written
// file) vs encode_items; CEncInto (items the destination held, schema, value, items it holds afterwards) vs encode_into; CDec (schema, parsed file, diagnostics codes + value) vs decode.

import (
	"encoding/hex"
	"encoding/json"
	"fmt"
	"os"
	"reflect"
	"sort"
	"strings"
	"unicode/utf8"

	"github.com/hashicorp/hcl/v2"
	"github.com/hashicorp/hcl/v2/gohcl"
	"github.com/hashicorp/hcl/v2/hclsimple"
	"github.com/hashicorp/hcl/v2/hclsyntax"
	"github.com/hashicorp/hcl/v2/hclwrite"
	hcljson "github.com/hashicorp/hcl/v2/json"
	"github.com/zclconf/go-cty/cty"
	"golang.org/x/text/unicode/norm"
	"hclverif/hv"
)

func main() { hv.Main(map[string]func(*hv.RunCfg) error{"c16": runC16}) }

type runner struct {
	rep    *hv.Report
	cf     *hv.CaseFile
	r      *hv.Rng
	byKind map[string]int
}

// maxPerKind: hv.Report keeps the first 200 failures of a run and drops the rest.  One pinned finding that
// fires a few hundred times in a thorough run (json-template-leading-bom: ~230 of 40,000 cases) would fill the
// list and push every later failure, of whatever kind, out of the report.  Every failure is counted in the
// histogram (oracle-fail:<kind>); the report carries the first maxPerKind of each kind.
const maxPerKind = 40

func (x *runner) addCase(coq string, idx string) {
	x.cf.Add(coq)
	x.rep.Idx(idx)
}

func (x *runner) fail(kind, detail string, sp *Spec) {
	if x.byKind == nil {
		x.byKind = map[string]int{}
	}
	x.byKind[kind]++
	if x.byKind[kind] <= maxPerKind {
		x.rep.Fail(hv.Failure{Kind: kind, Detail: detail, Input: sp.String()})
	}
	x.rep.Hist("oracle-fail:" + kind)
}

// ---- running the real code ---------------------------------------------------------------

func encodeReal(rv reflect.Value) (src []byte, panicked any) {
	defer func() { panicked = recover() }()
	f := hclwrite.NewEmptyFile()
	p := reflect.New(rv.Type())
	p.Elem().Set(rv)
	gohcl.EncodeIntoBody(p.Interface(), f.Body())
	return f.Bytes(), nil
}

func decodeReal(body hcl.Body, ctx *hcl.EvalContext, t *Ty) (out reflect.Value, diags hcl.Diagnostics, panicked any) {
	defer func() { panicked = recover() }()
	p := reflect.New(goType(t))
	out = p.Elem()
	diags = gohcl.DecodeBody(body, ctx, p.Interface())
	return out, diags, nil
}

func diagCode(d *hcl.Diagnostic) int {
	s := d.Summary
	switch {
	case s == "Missing required argument":
		return 1
	case s == "Unsupported argument":
		return 2
	case s == "Unsupported block type":
		return 3
	case strings.HasPrefix(s, "Extraneous label for "):
		return 4
	case strings.HasPrefix(s, "Duplicate ") && strings.HasSuffix(s, " block"):
		return 6
	case strings.HasPrefix(s, "Missing ") && strings.HasSuffix(s, " block"):
		return 7
	case strings.HasPrefix(s, "Missing ") && strings.Contains(s, " for "):
		return 5
	case s == "Unsuitable value type":
		return 8
	case strings.HasPrefix(s, "Unexpected ") && strings.HasSuffix(s, " block"):
		return 9
	}
	return 99
}

func diagCodes(diags hcl.Diagnostics) []int {
	var out []int
	for _, d := range diags {
		c := diagCode(d)
		if d.Severity != hcl.DiagError {
			c = -c
		}
		out = append(out, c)
	}
	sort.Ints(out)
	return out
}

// coqDecObs renders the observed behaviour of DecodeBody.
func coqDecObs(t *Ty, out reflect.Value, diags hcl.Diagnostics, panicked any) string {
	if panicked != nil {
		return "None"
	}
	v := "None"
	if len(diags) == 0 {
		v = "(Some " + coqSval(t, out) + ")"
	}
	return "(Some (" + hv.CoqZList(diagCodes(diags)) + ", " + v + "))"
}

// ---- value predicates ------------------------------------------------------------------------

func walkStrings(t *Ty, rv reflect.Value, f func(string)) {
	switch t.K {
	case TString:
		f(rv.String())
	case TPtr:
		if !rv.IsNil() {
			walkStrings(t.E, rv.Elem(), f)
		}
	case TSlice:
		for i := 0; i < rv.Len(); i++ {
			walkStrings(t.E, rv.Index(i), f)
		}
	case TMap:
		for _, k := range rv.MapKeys() {
			f(k.String())
			walkStrings(t.E, rv.MapIndex(k), f)
		}
	case TStruct:
		for i, fld := range t.F {
			if fld.Kind == "remain" {
				continue
			}
			walkStrings(fld.T, rv.Field(i), f)
		}
	}
}

// hasBadString: a string that cty cannot hold unchanged (not valid UTF-8, or not NFC).
func hasBadString(t *Ty, rv reflect.Value) bool {
	bad := false
	walkStrings(t, rv, func(s string) {
		if !utf8.ValidString(s) || !norm.NFC.IsNormalString(s) {
			bad = true
		}
	})
	return bad
}

// forFirstKey: some written map has `for` as its smallest key (C11 defect: the
// generated `{ for = ... }` is read as a for-expression).
func forFirstKey(t *Ty, rv reflect.Value) bool {
	switch t.K {
	case TPtr:
		return !rv.IsNil() && forFirstKey(t.E, rv.Elem())
	case TSlice:
		for i := 0; i < rv.Len(); i++ {
			if forFirstKey(t.E, rv.Index(i)) {
				return true
			}
		}
	case TMap:
		if rv.Len() > 0 && sortedMapKeys(rv)[0] == "for" {
			return true
		}
		for _, k := range rv.MapKeys() {
			if forFirstKey(t.E, rv.MapIndex(k)) {
				return true
			}
		}
	case TStruct:
		for i, fld := range t.F {
			if fld.Kind == "remain" || fld.Kind == "label" {
				continue
			}
			if forFirstKey(fld.T, rv.Field(i)) {
				return true
			}
		}
	}
	return false
}

// leadingBOM: some string or map key starts with U+FEFF.
func leadingBOM(t *Ty, rv reflect.Value) bool {
	found := false
	walkStrings(t, rv, func(s string) {
		if strings.HasPrefix(s, "\ufeff") {
			found = true
		}
	})
	return found
}

// bomDuplicateKeys decides whether the errors of a template-mode JSON decode are json-template-leading-bom
// and nothing else: (1) every diagnostic is the JSON object expression's "Duplicate object attribute" naming a
// key that two keys of one template-evaluated map of the value both evaluate to once a leading U+FEFF is
// stripped, not more of them than there are such keys; (2) the SAME value without the colliding keys, written
// and decoded the same way, gives no error and comes back equal up to the stripped byte order marks.
func (x *runner) bomDuplicateKeys(t *Ty, rv reflect.Value, diags hcl.Diagnostics, ctx *hcl.EvalContext) bool {
	excess := map[string]int{}
	bomKeyGroups(t, rv, false, excess)
	total := 0
	for _, n := range excess {
		total += n
	}
	if total == 0 || len(diags) > total {
		return false
	}
	for _, d := range diags {
		if d.Severity != hcl.DiagError || d.Summary != "Duplicate object attribute" {
			return false
		}
		named := false
		for name := range excess {
			if strings.HasPrefix(d.Detail, fmt.Sprintf("An attribute named %q was already defined at ", name)) {
				named = true
			}
		}
		if !named {
			return false
		}
	}
	rv2 := dropBOMCollidingKeys(t, rv, false)
	want2 := normStruct(t, rv2, false)
	jf, jd := hcljson.Parse([]byte(jsonOfFile(fileOfValue(t, rv2), true, nil)), "t.json")
	if jd.HasErrors() {
		return false
	}
	out2, diags2, p := decodeReal(jf.Body, ctx, t)
	if p != nil || diags2.HasErrors() {
		return false
	}
	clearBodies(t, out2)
	n := 0
	return equalModuloLeadingBOM(t, want2, out2, false, &n)
}

func hasTopLabels(t *Ty) bool {
	for _, f := range t.F {
		if f.Kind == "label" {
			return true
		}
	}
	return false
}

func diagStr(d hcl.Diagnostics) string {
	if len(d) == 0 {
		return "no diagnostics"
	}
	var parts []string
	for _, x := range d {
		parts = append(parts, x.Summary+": "+x.Detail)
	}
	s := strings.Join(parts, " | ")
	if len(s) > 400 {
		s = s[:400] + "..."
	}
	return s
}

// ---- one round-trip case -----------------------------------------------------------------------

func (x *runner) roundtrip(t *Ty, rv reflect.Value, note string) { x.roundtripInto(t, rv, note, nil) }

// roundtripInto: dest != nil -> after the ordinary round trip through a fresh file, the same value is encoded
// into the destination dest describes (dest.go).
func (x *runner) roundtripInto(t *Ty, rv reflect.Value, note string, dest *Dest) {
	rep := x.rep
	sp := &Spec{Mode: "roundtrip", Schema: t.F, Value: valToSpec(t, rv), Note: note, Dest: dest}
	freshOK := false
	defer func() {
		switch {
		case dest == nil:
			rep.Hist("dest:fresh-file-only")
		case !freshOK:
			rep.Hist("dest:skipped(round trip through a fresh file not clean)")
		default:
			x.destCase(t, rv, normStruct(t, rv, false), dest, sp, inUniverse(t))
		}
	}()
	key := sp.String()
	rep.Count(key, len(t.F) >= 2)
	universe := inUniverse(t)
	if !universe {
		rep.Hist("type:outside-coq-universe(hcl.Body)")
	}
	if hasTopLabels(t) {
		rep.Hist("type:top-level-labels")
	}
	badStr := hasBadString(t, rv)
	if badStr {
		rep.Hist("val:string-not-nfc-or-invalid-utf8")
	}
	forHaz := forFirstKey(t, rv)
	if forHaz {
		rep.Hist("val:map-first-key-for")
	}
	if len(key) < 700 {
		rep.Sample(json.RawMessage(key))
	}

	want := normStruct(t, rv, false)

	// 1. encode
	src, p := encodeReal(rv)
	if p != nil {
		x.fail("encode-panic", fmt.Sprint(p), sp)
		if universe {
			x.addCase(fmt.Sprintf("CEnc %s %s None", coqSchema(t.F), coqSval(t, rv)), "enc:"+key)
		}
		return
	}
	// 2. parse
	file, pdiags := hclsyntax.ParseConfig(src, "t.hcl", hcl.InitialPos)
	if pdiags.HasErrors() {
		switch {
		case forHaz:
			x.fail("object-first-key-for", "generated source does not parse: "+diagStr(pdiags)+"\n"+string(src), sp)
		case badStr:
			rep.Hist("limit:bad-string-unparseable")
		default:
			x.fail("roundtrip-decode-error", "generated source does not parse: "+diagStr(pdiags)+"\n"+string(src), sp)
		}
	} else {
		body := file.Body.(*hclsyntax.Body)
		// 3. Coq: encode correspondence
		if universe {
			info := &hv.ValInfo{}
			items, ok := coqItems(body, 0, info)
			if ok && !info.Inexact && !info.Unsupported && !badStr {
				x.addCase(fmt.Sprintf("CEnc %s %s (Some %s)", coqSchema(t.F), coqSval(t, rv), items), "enc:"+key)
				rep.Hist("coq:enc-case")
			} else {
				rep.Hist("coq:enc-case-skipped")
			}
		}
		// harness's own statement of the written file
		if !badStr {
			info := &hv.ValInfo{}
			got, _ := fileOfBody(body)
			if a, b := coqAFile(got, info), coqAFile(fileOfValue(t, rv), info); a != b {
				x.fail("encoded-file-differs", "the parsed file is not the file the encoding rules predict\n"+string(src), sp)
			}
		}
		// 4. decode + direct oracle
		out, diags, p := decodeReal(file.Body, nil, t)
		switch {
		case p != nil:
			x.fail("decode-panic", fmt.Sprint(p)+"\n"+string(src), sp)
		case diags.HasErrors():
			x.fail("roundtrip-decode-error", diagStr(diags)+"\n"+string(src), sp)
		default:
			clearBodies(t, out)
			if !reflect.DeepEqual(want.Interface(), out.Interface()) {
				if badStr {
					rep.Hist("limit:bad-string-normalized")
				} else {
					x.fail("roundtrip-differs", diffPath(t, want, out, "v")+"\n"+string(src), sp)
				}
			} else {
				rep.Hist("oracle-ok:roundtrip")
				freshOK = !badStr
			}
		}
		// 5. Coq: decode correspondence on the parsed file
		if universe && p == nil && !badStr {
			info := &hv.ValInfo{}
			af, ok := fileOfBody(body)
			cs := coqAFile(af, info)
			if ok && !info.Inexact && !info.Unsupported {
				x.addCase(fmt.Sprintf("CDec %s %s %s", coqSchema(t.F), cs, coqDecObs(t, out, diags, p)), "dec:"+key)
				rep.Hist("coq:dec-case")
			}
		}
	}

	// 5b. marked values: the same file with the top-level attributes read from marked
	// variables must decode to the same value (marks are dropped), without panic
	if !badStr && !forHaz && len(fileOfValue(t, rv).Attrs) > 0 && x.r.Chance(0.3) {
		x.marked(t, rv, want, sp)
	}

	// 6. JSON route: the document is written from the harness's own abstract file
	if !badStr {
		tmpl := x.r.Chance(0.2)
		var ctx *hcl.EvalContext
		if tmpl {
			ctx = &hcl.EvalContext{}
			rep.Hist("json:template-mode(ctx!=nil)")
		}
		jsrc := jsonOfFile(fileOfValue(t, rv), tmpl, x.r)
		jf, jd := hcljson.Parse([]byte(jsrc), "t.json")
		if jd.HasErrors() {
			x.fail("json-decode-differs", "JSON document does not parse: "+diagStr(jd)+"\n"+jsrc, sp)
		} else {
			out, diags, p := decodeReal(jf.Body, ctx, t)
			switch {
			case p != nil:
				x.fail("decode-panic", "json: "+fmt.Sprint(p)+"\n"+jsrc, sp)
			case diags.HasErrors():
				if tmpl && leadingBOM(t, rv) && x.bomDuplicateKeys(t, rv, diags, ctx) {
					// the same finding seen as an error: two keys of one map differ only by the leading
					// U+FEFF that template evaluation strips, and nothing else is wrong
					x.fail("json-template-leading-bom", "ctx != nil: map keys collide once the leading U+FEFF is stripped: "+diagStr(diags)+"\n"+jsrc, sp)
				} else {
					x.fail("json-decode-differs", "json decode errors: "+diagStr(diags)+"\n"+jsrc, sp)
				}
			default:
				clearBodies(t, out)
				if !reflect.DeepEqual(want.Interface(), out.Interface()) {
					nBOM := 0
					if tmpl && leadingBOM(t, rv) && equalModuloLeadingBOM(t, want, out, false, &nBOM) && nBOM > 0 {
						// hclsyntax.ParseTemplate strips a leading U+FEFF of the JSON string: known only when
						// the lost byte order marks of template-evaluated strings are the ONLY difference
						x.fail("json-template-leading-bom", "ctx != nil: "+diffPath(t, want, out, "v")+"\n"+jsrc, sp)
					} else {
						x.fail("json-decode-differs", diffPath(t, want, out, "v")+"\n"+jsrc, sp)
					}
				} else {
					rep.Hist("oracle-ok:json")
				}
			}
		}
		// 7. hclsimple on some cases
		if x.r.Chance(0.1) && !pdiags.HasErrors() {
			rep.Hist("hclsimple")
			for _, c := range []struct {
				name string
				src  []byte
			}{{"x.hcl", src}, {"x.json", []byte(jsonOfFile(fileOfValue(t, rv), false, nil))}} {
				func() {
					defer func() {
						if p := recover(); p != nil {
							x.fail("decode-panic", "hclsimple "+c.name+": "+fmt.Sprint(p), sp)
						}
					}()
					ptr := reflect.New(goType(t))
					if err := hclsimple.Decode(c.name, c.src, nil, ptr.Interface()); err != nil {
						x.fail("hclsimple-differs", c.name+": "+err.Error()+"\n"+string(c.src), sp)
						return
					}
					clearBodies(t, ptr.Elem())
					if !reflect.DeepEqual(want.Interface(), ptr.Elem().Interface()) {
						x.fail("hclsimple-differs", c.name+": "+diffPath(t, want, ptr.Elem(), "v"), sp)
					}
				}()
			}
		}
	}
}

// ---- ill-formed contents -------------------------------------------------------------------------

// textCase decodes a configuration text (native or JSON) into type t under recover.
// Returns hasErrors / decoded value for cross-syntax comparison (ok=false: no result).
func (x *runner) textCase(t *Ty, src []byte, isJSON bool, origin string) (out reflect.Value, hasErr bool, ok bool) {
	rep := x.rep
	sp := &Spec{Mode: "text", Schema: t.F, Text: hex.EncodeToString(src), JSON: isJSON, Note: origin}
	key := sp.String()
	rep.Count(key, true)
	var file *hcl.File
	var pdiags hcl.Diagnostics
	func() {
		defer func() {
			if p := recover(); p != nil {
				rep.Hist("parser-panic(not C16)")
				file = nil
			}
		}()
		if isJSON {
			file, pdiags = hcljson.Parse(src, "t.json")
		} else {
			file, pdiags = hclsyntax.ParseConfig(src, "t.hcl", hcl.InitialPos)
		}
	}()
	if file == nil || file.Body == nil {
		rep.Hist("ill:" + origin + ":no-body")
		return out, true, false
	}
	out, diags, p := decodeReal(file.Body, nil, t)
	if p != nil {
		x.fail("decode-panic", fmt.Sprintf("%s: %v\n%s", origin, p, src), sp)
		return out, true, false
	}
	if pdiags.HasErrors() {
		rep.Hist("ill:" + origin + ":parse-errors")
		return out, true, true
	}
	if diags.HasErrors() {
		rep.Hist("ill:" + origin + ":decode-errors")
		for _, d := range diags {
			c := diagCode(d)
			rep.Hist(fmt.Sprintf("diag:%d", c))
			if c == 99 {
				rep.Hist("diag99:" + d.Summary)
			}
		}
	} else {
		rep.Hist("ill:" + origin + ":decode-ok")
	}
	if !isJSON && inUniverse(t) {
		info := &hv.ValInfo{}
		af, fok := fileOfBody(file.Body.(*hclsyntax.Body))
		if hugeNumber(af) {
			// inexact in any case (see hugeNumberVal); printing it would take minutes
			rep.Hist("coq:dec-case-skipped(non-constant or inexact)")
			rep.Hist("coq:dec-case-skipped:number-exponent-beyond-4096")
		} else if cs := coqAFile(af, info); fok && !info.Inexact && !info.Unsupported {
			x.addCase(fmt.Sprintf("CDec %s %s %s", coqSchema(t.F), cs, coqDecObs(t, out, diags, nil)), "dec:"+key)
			rep.Hist("coq:dec-case")
			rep.Hist("coq:dec-case:ill-formed")
		} else {
			rep.Hist("coq:dec-case-skipped(non-constant or inexact)")
		}
	}
	return out, diags.HasErrors(), true
}

func (x *runner) illFormed(t *Ty, rv reflect.Value) {
	rep := x.rep
	// (1) byte-level mutation of the generated text
	if x.r.Chance(0.5) {
		if src, p := encodeReal(rv); p == nil {
			x.textCase(t, []byte(hv.Mutate(x.r, string(src))), false, "mutated-native")
		}
	}
	if x.r.Chance(0.25) {
		js := jsonOfFile(fileOfValue(t, rv), false, x.r)
		x.textCase(t, []byte(hv.Mutate(x.r, js)), true, "mutated-json")
	}
	// (2) structural perturbation
	if x.r.Chance(0.8) && !hasBadString(t, rv) {
		af := fileOfValue(t, rv)
		n := 1 + x.r.Small(2)
		comparable := true
		var kinds []string
		for i := 0; i < n; i++ {
			k, jc := perturb(x.r, t, af)
			kinds = append(kinds, k)
			rep.Hist("perturb:" + strings.TrimPrefix(k, "nested-"))
			if strings.HasPrefix(k, "nested-") {
				rep.Hist("perturb:nested")
			}
			comparable = comparable && jc
		}
		origin := "perturbed"
		nsrc, err := nativeOfFile(af)
		if err != nil {
			rep.Hist("perturb:writer-panic(not C16)")
			return
		}
		nout, nerr, nok := x.textCase(t, nsrc, false, origin)
		jsrc := []byte(jsonOfFile(af, false, x.r))
		jout, jerr, jok := x.textCase(t, jsrc, true, origin+"-json")
		if nok && jok && comparable && !forFirstKey(t, rv) {
			sp := &Spec{Mode: "text", Schema: t.F, Text: hex.EncodeToString(jsrc), JSON: true, Note: strings.Join(kinds, ",")}
			if nerr != jerr {
				x.fail("json-decode-differs", fmt.Sprintf("error-ness differs: native %v, json %v\n%s\n%s", nerr, jerr, nsrc, jsrc), sp)
			} else if !nerr {
				clearBodies(t, nout)
				clearBodies(t, jout)
				if !reflect.DeepEqual(nout.Interface(), jout.Interface()) {
					x.fail("json-decode-differs", fmt.Sprintf("native vs json: %s\n%s\n%s", diffPath(t, nout, jout, "v"), nsrc, jsrc), sp)
				} else {
					rep.Hist("oracle-ok:json-perturbed-same")
				}
			} else {
				rep.Hist("oracle-ok:json-perturbed-both-error")
			}
		}
	}
}

func (x *runner) marked(t *Ty, rv, want reflect.Value, sp *Spec) {
	rep := x.rep
	rep.Hist("marked-variant")
	msrc, ctx, err := markedVariant(x.r, fileOfValue(t, rv))
	if err != nil {
		rep.Hist("marked-variant:writer-panic(not C16)")
		return
	}
	file, d := hclsyntax.ParseConfig(msrc, "t.hcl", hcl.InitialPos)
	if d.HasErrors() {
		rep.Hist("marked-variant:parse-error")
		return
	}
	out, diags, p := decodeReal(file.Body, ctx, t)
	switch {
	case p != nil:
		x.fail("decode-panic-marked-value", fmt.Sprintf("%v\n%s", p, msrc), sp)
	case diags.HasErrors():
		x.fail("marked-decode-differs", diagStr(diags)+"\n"+string(msrc), sp)
	default:
		clearBodies(t, out)
		if !reflect.DeepEqual(want.Interface(), out.Interface()) {
			x.fail("marked-decode-differs", diffPath(t, want, out, "v")+"\n"+string(msrc), sp)
		} else {
			rep.Hist("oracle-ok:marked")
		}
	}
	if inUniverse(t) {
		info := &hv.ValInfo{}
		af, ok := fileOfBodyCtx(file.Body.(*hclsyntax.Body), ctx)
		cs := coqAFile(af, info)
		if ok && !info.Inexact && !info.Unsupported {
			x.addCase(fmt.Sprintf("CDec %s %s %s", coqSchema(t.F), cs, coqDecObs(t, out, diags, p)), "dec-marked:"+sp.String())
			rep.Hist("coq:dec-case")
			rep.Hist("coq:dec-case:marked")
		}
	}
}

// nonWF: struct types OUTSIDE wf_schema (where gohcl panics).  No oracle: only the
// correspondence model-Panic == Go-panic is checked (CEnc ... None / CDec ... None).
func (x *runner) nonWF(t *Ty, rv reflect.Value, texts []string, note string, skipEnc bool) {
	rep := x.rep
	sp := &Spec{Mode: "nonwf", Schema: t.F, Value: valToSpec(t, rv), Note: note}
	key := sp.String()
	rep.Count(key, true)
	src, p := encodeReal(rv)
	if skipEnc {
		rep.Hist("nonwf:encode-not-compared")
	} else if p != nil {
		rep.Hist("nonwf:encode-panics")
		x.addCase(fmt.Sprintf("CEnc %s %s None", coqSchema(t.F), coqSval(t, rv)), "enc:"+key)
	} else if file, d := hclsyntax.ParseConfig(src, "t.hcl", hcl.InitialPos); !d.HasErrors() {
		rep.Hist("nonwf:encode-ok")
		info := &hv.ValInfo{}
		if items, ok := coqItems(file.Body.(*hclsyntax.Body), 0, info); ok {
			x.addCase(fmt.Sprintf("CEnc %s %s (Some %s)", coqSchema(t.F), coqSval(t, rv), items), "enc:"+key)
		}
	}
	for _, txt := range texts {
		file, d := hclsyntax.ParseConfig([]byte(txt), "t.hcl", hcl.InitialPos)
		if d.HasErrors() {
			continue
		}
		out, diags, p := decodeReal(file.Body, nil, t)
		if p != nil {
			rep.Hist("nonwf:decode-panics")
		} else {
			rep.Hist("nonwf:decode-ok")
		}
		info := &hv.ValInfo{}
		af, ok := fileOfBody(file.Body.(*hclsyntax.Body))
		if ok {
			x.addCase(fmt.Sprintf("CDec %s %s %s", coqSchema(t.F), coqAFile(af, info), coqDecObs(t, out, diags, p)), "dec:"+key+":"+txt)
		}
	}
}

// marked: a marked value reaching DecodeExpression through the EvalContext.
func (x *runner) markedCase() {
	t := &Ty{K: TStruct, F: []Field{{Name: "a", Kind: "attr", T: tyString}}}
	src := []byte("a = v\n")
	sp := &Spec{Mode: "marked", Schema: t.F, Text: hex.EncodeToString(src), Note: "ctx: v = marked string"}
	x.rep.Count(sp.String(), true)
	file, _ := hclsyntax.ParseConfig(src, "t.hcl", hcl.InitialPos)
	ctx := &hcl.EvalContext{Variables: map[string]cty.Value{"v": cty.StringVal("s").Mark("sensitive")}}
	out, diags, p := decodeReal(file.Body, ctx, t)
	switch {
	case p != nil:
		x.fail("decode-panic-marked-value", fmt.Sprintf("DecodeBody panics when an attribute evaluates to a marked value: %v", p), sp)
	case diags.HasErrors() || out.Field(0).String() != "s":
		x.fail("marked-decode-differs", diagStr(diags), sp)
	default:
		x.rep.Hist("oracle-ok:marked")
	}
	info := &hv.ValInfo{}
	af, _ := fileOfBodyCtx(file.Body.(*hclsyntax.Body), ctx)
	x.addCase(fmt.Sprintf("CDec %s %s %s", coqSchema(t.F), coqAFile(af, info), coqDecObs(t, out, diags, p)), "dec-marked:"+sp.String())
}

// ---- entry ------------------------------------------------------------------------------------------

func (x *runner) replay(path string) error {
	b, err := os.ReadFile(path)
	if err != nil {
		return err
	}
	var sp Spec
	dec := json.NewDecoder(strings.NewReader(string(b)))
	dec.UseNumber()
	if err := dec.Decode(&sp); err != nil {
		return fmt.Errorf("replay file is not a case spec: %v", err)
	}
	t := &Ty{K: TStruct, F: sp.Schema}
	switch sp.Mode {
	case "roundtrip":
		rv, err := specToVal(t, sp.Value)
		if err != nil {
			return err
		}
		x.roundtripInto(t, rv, sp.Note, sp.Dest)
	case "text":
		src, err := hex.DecodeString(sp.Text)
		if err != nil {
			return err
		}
		x.textCase(t, src, sp.JSON, "replay")
	case "marked":
		x.markedCase()
	default:
		return fmt.Errorf("unknown mode %q", sp.Mode)
	}
	return nil
}

func runC16(cfg *hv.RunCfg) error {
	rep := hv.NewReport("C16", cfg.Seed)
	rep.Rule = "struct types generated from schemata (tag kinds attr/optional/block/label/remain; field types string/int/bool/pointer/slice/map, nested to depth 3; blocks as struct/*struct/[]struct/[]*struct with 0-2 labels, nesting <= 3) built with reflect.StructOf; values over the escape-relevant string alphabet, boundary ints, keyword/non-identifier/empty map keys, nil and non-nil pointers, nil/empty/non-empty slices and maps; hand corpus first; per case also mutated text and structurally perturbed files; ~35% of the round-trip cases additionally encode into a destination that is NOT a fresh file (root body of a loaded file / body of a block / EncodeAsBlock appended; previously encoded with a value of the same, a sibling or another type, parsed from an earlier encoding or an old text, hand-edited; 0-3 further decode-encode cycles on the same file); non-trivial = struct with >= 2 fields; distinct by SHA-256 of the case spec"
	r := hv.NewRng(cfg.Seed, 16)
	x := &runner{rep: rep, r: r, cf: &hv.CaseFile{Dir: cfg.Out, Name: "c16cases",
		Imports: "From Coq Require Import QArith String.\nFrom HclV Require Import Base.Prelude Cty.Values Cty.Convert Gohcl.Model Gohcl.ModelCheck.",
		Ctype:   "ccase", Checker: "check_c16_cases"}}

	if cfg.Replay != "" {
		if err := x.replay(cfg.Replay); err != nil {
			return err
		}
	} else {
		for _, c := range corpus() {
			rep.Hist("corpus")
			x.roundtrip(c.t, c.v, c.note)
		}
		for _, c := range destCorpus() {
			rep.Hist("corpus")
			rep.Hist("corpus:destination")
			x.roundtripInto(c.c.t, c.c.v, c.c.note, c.d)
		}
		x.markedCase()
		for _, c := range nonWFCorpus() {
			rep.Hist("corpus:non-wf")
			x.nonWF(c.t, c.v, c.texts, c.note, c.skipEnc)
		}
		g := &gen{r: r, feat: map[string]int{}}
		// the destination generator has its own stream: the (type, value) sequence does not depend on it
		rd := hv.NewRng(cfg.Seed, 1604)
		dg := &destGen{r: rd, g: &gen{r: rd, feat: map[string]int{}}}
		for i := 0; i < cfg.N; i++ {
			t := g.structTy(0, true)
			rv := g.value(t)
			x.roundtripInto(t, rv, "", dg.dest(t, rv))
			x.illFormed(t, rv)
		}
		for k, v := range g.feat {
			rep.Histogram["feat:"+k] += v
		}
	}
	names, err := x.cf.Flush(250)
	if err != nil {
		return err
	}
	rep.CaseFiles = names
	return rep.Write(cfg.Out)
}
