package main

// norm on Go values: the representations a round trip through
// EncodeIntoBody -> source -> DecodeBody cannot preserve (written independently of
// the Coq definition Gohcl/Model.v norm; both are compared with the real code).
//
//  1. label fields of the TOP-LEVEL value are ignored by EncodeIntoBody -> "";
//  2. `remain` fields are ignored by encode; decoding leaves an empty non-nil map
//     (hcl.Body: the remaining body; cleared on both sides before comparing);
//  3. block fields: an empty slice comes back nil; nil elements of []*T are dropped;
//  4. attribute fields: a nil pointer, or a pointer to a nil pointer, is not written
//     and comes back nil; elsewhere a null is decoded by allocating every pointer level
//     down to the last one (nil **T inside a slice -> pointer to nil *T; nil *[]T ->
//     pointer to nil slice).
// Everything else must come back identical (reflect.DeepEqual).

import (
	"fmt"
	"reflect"
	"strings"
)

func isNullV(t *Ty, rv reflect.Value) bool {
	switch t.K {
	case TPtr:
		if rv.IsNil() {
			return true
		}
		return isNullV(t.E, rv.Elem())
	case TSlice, TMap:
		return rv.IsNil()
	}
	return false
}

func nullInto(t *Ty) reflect.Value {
	gt := goType(t)
	out := reflect.New(gt).Elem()
	if t.K == TPtr {
		switch t.E.K {
		case TPtr, TSlice, TMap:
			p := reflect.New(gt.Elem())
			p.Elem().Set(nullInto(t.E))
			out.Set(p)
		}
	}
	return out
}

func normVal(t *Ty, rv reflect.Value) reflect.Value {
	if isNullV(t, rv) {
		return nullInto(t)
	}
	gt := goType(t)
	out := reflect.New(gt).Elem()
	switch t.K {
	case TPtr:
		p := reflect.New(gt.Elem())
		p.Elem().Set(normVal(t.E, rv.Elem()))
		out.Set(p)
	case TSlice:
		s := reflect.MakeSlice(gt, rv.Len(), rv.Len())
		for i := 0; i < rv.Len(); i++ {
			s.Index(i).Set(normVal(t.E, rv.Index(i)))
		}
		out.Set(s)
	case TMap:
		m := reflect.MakeMap(gt)
		for _, k := range rv.MapKeys() {
			m.SetMapIndex(k, normVal(t.E, rv.MapIndex(k)))
		}
		out.Set(m)
	default:
		out.Set(rv)
	}
	return out
}

func normStruct(t *Ty, rv reflect.Value, keepLabels bool) reflect.Value {
	out := reflect.New(goType(t)).Elem()
	for i, f := range t.F {
		fv := rv.Field(i)
		dst := out.Field(i)
		switch f.Kind {
		case "attr", "optional":
			if f.T.K == TPtr && (fv.IsNil() || (f.T.E.K == TPtr && fv.Elem().IsNil())) {
				continue // zero
			}
			dst.Set(normVal(f.T, fv))
		case "label":
			if keepLabels {
				dst.Set(fv)
			}
		case "remain":
			if f.T.K == TMap {
				dst.Set(reflect.MakeMap(goType(f.T)))
			}
		case "block":
			st, isSlice, isPtr := blockStruct(f.T)
			one := func(v reflect.Value) reflect.Value { // v: struct or non-nil pointer
				if isPtr {
					p := reflect.New(goType(st))
					p.Elem().Set(normStruct(st, v.Elem(), true))
					return p
				}
				return normStruct(st, v, true)
			}
			if isSlice {
				s := reflect.MakeSlice(goType(f.T), 0, fv.Len())
				for j := 0; j < fv.Len(); j++ {
					if isPtr && fv.Index(j).IsNil() {
						continue
					}
					s = reflect.Append(s, one(fv.Index(j)))
				}
				if s.Len() > 0 {
					dst.Set(s)
				}
			} else if isPtr {
				if !fv.IsNil() {
					dst.Set(one(fv))
				}
			} else {
				dst.Set(one(fv))
			}
		}
	}
	return out
}

// clearBodies sets every hcl.Body-typed remain field to nil (in place; rv addressable).
func clearBodies(t *Ty, rv reflect.Value) {
	switch t.K {
	case TPtr:
		if !rv.IsNil() {
			clearBodies(t.E, rv.Elem())
		}
	case TSlice:
		for i := 0; i < rv.Len(); i++ {
			clearBodies(t.E, rv.Index(i))
		}
	case TStruct:
		for i, f := range t.F {
			if f.T.K == TBody {
				rv.Field(i).Set(reflect.Zero(bodyType))
			} else if f.Kind == "block" {
				clearBodies(f.T, rv.Field(i))
			}
		}
	}
}

// diffPath describes the first difference between two values of type t.
func diffPath(t *Ty, a, b reflect.Value, path string) string {
	switch t.K {
	case TString, TInt, TBool:
		if !reflect.DeepEqual(a.Interface(), b.Interface()) {
			return fmt.Sprintf("%s: want %#v, got %#v", path, a.Interface(), b.Interface())
		}
	case TPtr:
		if a.IsNil() != b.IsNil() {
			return fmt.Sprintf("%s: want nil=%v, got nil=%v", path, a.IsNil(), b.IsNil())
		}
		if !a.IsNil() {
			return diffPath(t.E, a.Elem(), b.Elem(), "*"+path)
		}
	case TSlice:
		if a.IsNil() != b.IsNil() || a.Len() != b.Len() {
			return fmt.Sprintf("%s: want nil=%v len=%d, got nil=%v len=%d", path, a.IsNil(), a.Len(), b.IsNil(), b.Len())
		}
		for i := 0; i < a.Len(); i++ {
			if d := diffPath(t.E, a.Index(i), b.Index(i), fmt.Sprintf("%s[%d]", path, i)); d != "" {
				return d
			}
		}
	case TMap:
		if a.IsNil() != b.IsNil() || a.Len() != b.Len() {
			return fmt.Sprintf("%s: want nil=%v len=%d, got nil=%v len=%d", path, a.IsNil(), a.Len(), b.IsNil(), b.Len())
		}
		for _, k := range a.MapKeys() {
			bv := b.MapIndex(k)
			if !bv.IsValid() {
				return fmt.Sprintf("%s: key %q missing", path, k.String())
			}
			if d := diffPath(t.E, a.MapIndex(k), bv, fmt.Sprintf("%s[%q]", path, k.String())); d != "" {
				return d
			}
		}
	case TStruct:
		for i, f := range t.F {
			if f.T.K == TBody {
				continue
			}
			if d := diffPath(f.T, a.Field(i), b.Field(i), fmt.Sprintf("%s.%s(%s)", path, f.Name, f.Kind)); d != "" {
				return d
			}
		}
	}
	return ""
}

// equalModuloLeadingBOM: got is want, except that strings which the JSON syntax evaluates as TEMPLATES when
// an EvalContext is given - attribute values with everything inside them, map keys included; NOT block
// labels, which are property names of the JSON body - have lost exactly one leading U+FEFF. *n counts the
// strings that did. This is the whole effect of the pinned finding json-template-leading-bom
// (hclsyntax.scanTokens strips a leading byte order mark in every scan mode): any other difference between
// want and got is not explained by it.
func equalModuloLeadingBOM(t *Ty, want, got reflect.Value, inAttr bool, n *int) bool {
	const bom = "\ufeff"
	switch t.K {
	case TString:
		w, g := want.String(), got.String()
		if w == g {
			return true
		}
		if inAttr && strings.HasPrefix(w, bom) && g == w[len(bom):] {
			*n++
			return true
		}
		return false
	case TPtr:
		if want.IsNil() != got.IsNil() {
			return false
		}
		return want.IsNil() || equalModuloLeadingBOM(t.E, want.Elem(), got.Elem(), inAttr, n)
	case TSlice:
		if want.IsNil() != got.IsNil() || want.Len() != got.Len() {
			return false
		}
		for i := 0; i < want.Len(); i++ {
			if !equalModuloLeadingBOM(t.E, want.Index(i), got.Index(i), inAttr, n) {
				return false
			}
		}
		return true
	case TMap:
		if want.IsNil() != got.IsNil() || want.Len() != got.Len() {
			return false
		}
		for _, k := range want.MapKeys() {
			gv := got.MapIndex(k)
			if !gv.IsValid() {
				ks := k.String()
				if !inAttr || !strings.HasPrefix(ks, bom) {
					return false
				}
				gv = got.MapIndex(reflect.ValueOf(ks[len(bom):]).Convert(k.Type()))
				if !gv.IsValid() {
					return false
				}
				*n++
			}
			if !equalModuloLeadingBOM(t.E, want.MapIndex(k), gv, inAttr, n) {
				return false
			}
		}
		return true
	case TStruct:
		for i, f := range t.F {
			if f.T.K == TBody {
				continue
			}
			in := f.Kind == "attr" || f.Kind == "optional"
			if !equalModuloLeadingBOM(f.T, want.Field(i), got.Field(i), in, n) {
				return false
			}
		}
		return true
	}
	return reflect.DeepEqual(want.Interface(), got.Interface())
}
