package main

// norm on Go values: the representations a round trip through
// EncodeIntoBody -> source -> DecodeBody cannot preserve (written independently of
// the Coq definition Gohcl/Model.v norm; both are compared with the real code).
//
//  1. label fields of the TOP-LEVEL value are ignored by EncodeIntoBody -> "";
//  2. `remain` fields are ignored by encode; decoding leaves an empty non-nil map
//     (hcl.Body: the remaining body; cleared on both sides before comparing);
//  3. block fields: an empty slice comes back nil; nil elements of []*T are dropped;
//  4. attribute fields: a nil pointer, or a pointer to a nil pointer, is not written
//     and comes back nil; elsewhere a null is decoded by allocating every pointer level
//     down to the last one (nil **T inside a slice -> pointer to nil *T; nil *[]T ->
//     pointer to nil slice).
// Everything else must come back identical (reflect.DeepEqual).

import (
	"fmt"
	"reflect"
	"strings"
)

func isNullV(t *Ty, rv reflect.Value) bool {
	switch t.K {
	case TPtr:
		if rv.IsNil() {
			return true
		}
		return isNullV(t.E, rv.Elem())
	case TSlice, TMap:
		return rv.IsNil()
	}
	return false
}

func nullInto(t *Ty) reflect.Value {
	gt := goType(t)
	out := reflect.New(gt).Elem()
	if t.K == TPtr {
		switch t.E.K {
		case TPtr, TSlice, TMap:
			p := reflect.New(gt.Elem())
			p.Elem().Set(nullInto(t.E))
			out.Set(p)
		}
	}
	return out
}

func normVal(t *Ty, rv reflect.Value) reflect.Value {
	if isNullV(t, rv) {
		return nullInto(t)
	}
	gt := goType(t)
	out := reflect.New(gt).Elem()
	switch t.K {
	case TPtr:
		p := reflect.New(gt.Elem())
		p.Elem().Set(normVal(t.E, rv.Elem()))
		out.Set(p)
	case TSlice:
		s := reflect.MakeSlice(gt, rv.Len(), rv.Len())
		for i := 0; i < rv.Len(); i++ {
			s.Index(i).Set(normVal(t.E, rv.Index(i)))
		}
		out.Set(s)
	case TMap:
		m := reflect.MakeMap(gt)
		for _, k := range rv.MapKeys() {
			m.SetMapIndex(k, normVal(t.E, rv.MapIndex(k)))
		}
		out.Set(m)
	default:
		out.Set(rv)
	}
	return out
}

func normStruct(t *Ty, rv reflect.Value, keepLabels bool) reflect.Value {
	out := reflect.New(goType(t)).Elem()
	for i, f := range t.F {
		fv := rv.Field(i)
		dst := out.Field(i)
		switch f.Kind {
		case "attr", "optional":
			if f.T.K == TPtr && (fv.IsNil() || (f.T.E.K == TPtr && fv.Elem().IsNil())) {
				continue // zero
			}
			dst.Set(normVal(f.T, fv))
		case "label":
			if keepLabels {
				dst.Set(fv)
			}
		case "remain":
			if f.T.K == TMap {
				dst.Set(reflect.MakeMap(goType(f.T)))
			}
		case "block":
			st, isSlice, isPtr := blockStruct(f.T)
			one := func(v reflect.Value) reflect.Value { // v: struct or non-nil pointer
				if isPtr {
					p := reflect.New(goType(st))
					p.Elem().Set(normStruct(st, v.Elem(), true))
					return p
				}
				return normStruct(st, v, true)
			}
			if isSlice {
				s := reflect.MakeSlice(goType(f.T), 0, fv.Len())
				for j := 0; j < fv.Len(); j++ {
					if isPtr && fv.Index(j).IsNil() {
						continue
					}
					s = reflect.Append(s, one(fv.Index(j)))
				}
				if s.Len() > 0 {
					dst.Set(s)
				}
			} else if isPtr {
				if !fv.IsNil() {
					dst.Set(one(fv))
				}
			} else {
				dst.Set(one(fv))
			}
		}
	}
	return out
}

// clearBodies sets every hcl.Body-typed remain field to nil (in place; rv addressable).
func clearBodies(t *Ty, rv reflect.Value) {
	switch t.K {
	case TPtr:
		if !rv.IsNil() {
			clearBodies(t.E, rv.Elem())
		}
	case TSlice:
		for i := 0; i < rv.Len(); i++ {
			clearBodies(t.E, rv.Index(i))
		}
	case TStruct:
		for i, f := range t.F {
			if f.T.K == TBody {
				rv.Field(i).Set(reflect.Zero(bodyType))
			} else if f.Kind == "block" {
				clearBodies(f.T, rv.Field(i))
			}
		}
	}
}

// diffPath describes the first difference between two values of type t.
func diffPath(t *Ty, a, b reflect.Value, path string) string {
	switch t.K {
	case TString, TInt, TBool:
		if !reflect.DeepEqual(a.Interface(), b.Interface()) {
			return fmt.Sprintf("%s: want %#v, got %#v", path, a.Interface(), b.Interface())
		}
	case TPtr:
		if a.IsNil() != b.IsNil() {
			return fmt.Sprintf("%s: want nil=%v, got nil=%v", path, a.IsNil(), b.IsNil())
		}
		if !a.IsNil() {
			return diffPath(t.E, a.Elem(), b.Elem(), "*"+path)
		}
	case TSlice:
		if a.IsNil() != b.IsNil() || a.Len() != b.Len() {
			return fmt.Sprintf("%s: want nil=%v len=%d, got nil=%v len=%d", path, a.IsNil(), a.Len(), b.IsNil(), b.Len())
		}
		for i := 0; i < a.Len(); i++ {
			if d := diffPath(t.E, a.Index(i), b.Index(i), fmt.Sprintf("%s[%d]", path, i)); d != "" {
				return d
			}
		}
	case TMap:
		if a.IsNil() != b.IsNil() || a.Len() != b.Len() {
			return fmt.Sprintf("%s: want nil=%v len=%d, got nil=%v len=%d", path, a.IsNil(), a.Len(), b.IsNil(), b.Len())
		}
		for _, k := range a.MapKeys() {
			bv := b.MapIndex(k)
			if !bv.IsValid() {
				return fmt.Sprintf("%s: key %q missing", path, k.String())
			}
			if d := diffPath(t.E, a.MapIndex(k), bv, fmt.Sprintf("%s[%q]", path, k.String())); d != "" {
				return d
			}
		}
	case TStruct:
		for i, f := range t.F {
			if f.T.K == TBody {
				continue
			}
			if d := diffPath(f.T, a.Field(i), b.Field(i), fmt.Sprintf("%s.%s(%s)", path, f.Name, f.Kind)); d != "" {
				return d
			}
		}
	}
	return ""
}

// ---- what template evaluation does to a JSON string (ctx != nil) beyond the escapes ------------------
//
// The strings the JSON syntax evaluates as TEMPLATES when an EvalContext is given are the attribute values
// with everything inside them, map keys included; NOT block labels, which are property names of the JSON
// body.  One pinned behaviour of hclsyntax.scanTokens changes such a string although the harness writes it
// with `${` / `%{` doubled as json/spec.md requires:
//
//   json-template-leading-bom       a leading U+FEFF is stripped (in every scan mode).
//
// (A second one, found by this check at n = 40,000 - the bare-template scanner stopped at a carriage return
// not followed by a line feed and returned the rest of the string as one raw literal, so that "\r$${" came
// back "\r$$${" - is repaired in /repo 70c81c0 and has no classification here: it is a plain
// json-decode-differs if it ever comes back.)

const bomStr = "\ufeff"

func stripOneBOM(s string) string { return strings.TrimPrefix(s, bomStr) }

// equalModuloTmpl: got is want, except that every template-evaluated string w (see above) may have come back
// as pred(w).  *n counts the strings that came back changed.  Any other difference between want and got is
// not explained by pred.
func equalModuloTmpl(t *Ty, want, got reflect.Value, inAttr bool, pred func(string) string, n *int) bool {
	switch t.K {
	case TString:
		w, g := want.String(), got.String()
		if w == g {
			return true
		}
		if inAttr && g == pred(w) {
			*n++
			return true
		}
		return false
	case TPtr:
		if want.IsNil() != got.IsNil() {
			return false
		}
		return want.IsNil() || equalModuloTmpl(t.E, want.Elem(), got.Elem(), inAttr, pred, n)
	case TSlice:
		if want.IsNil() != got.IsNil() || want.Len() != got.Len() {
			return false
		}
		for i := 0; i < want.Len(); i++ {
			if !equalModuloTmpl(t.E, want.Index(i), got.Index(i), inAttr, pred, n) {
				return false
			}
		}
		return true
	case TMap:
		if want.IsNil() != got.IsNil() || want.Len() != got.Len() {
			return false
		}
		for _, k := range want.MapKeys() {
			gv := got.MapIndex(k)
			if !gv.IsValid() {
				ks := k.String()
				if !inAttr || pred(ks) == ks {
					return false
				}
				gv = got.MapIndex(reflect.ValueOf(pred(ks)).Convert(k.Type()))
				if !gv.IsValid() {
					return false
				}
				*n++
			}
			if !equalModuloTmpl(t.E, want.MapIndex(k), gv, inAttr, pred, n) {
				return false
			}
		}
		return true
	case TStruct:
		for i, f := range t.F {
			if f.T.K == TBody {
				continue
			}
			in := f.Kind == "attr" || f.Kind == "optional"
			if !equalModuloTmpl(f.T, want.Field(i), got.Field(i), in, pred, n) {
				return false
			}
		}
		return true
	}
	return reflect.DeepEqual(want.Interface(), got.Interface())
}

// equalModuloLeadingBOM: got is want, except that template-evaluated strings have lost exactly one leading
// U+FEFF.  *n counts the strings that did.  This is the whole effect of the pinned finding
// json-template-leading-bom: any other difference between want and got is not explained by it.
func equalModuloLeadingBOM(t *Ty, want, got reflect.Value, inAttr bool, n *int) bool {
	return equalModuloTmpl(t, want, got, inAttr, stripOneBOM, n)
}

// ---- json-template-leading-bom showing up as an ERROR ---------------------------------------------------
//
// Two keys of one map that differ only by one leading U+FEFF of one of them ("" and "\ufeff") evaluate to
// the SAME key in template mode, and the JSON object expression reports "Duplicate object attribute".

// bomKeyGroups walks the template-evaluated maps of the value; for each map, the keys are grouped by what
// they evaluate to; excess[name]++ for every key beyond the first of a group (name = the evaluated key).
func bomKeyGroups(t *Ty, rv reflect.Value, inAttr bool, excess map[string]int) {
	switch t.K {
	case TPtr:
		if !rv.IsNil() {
			bomKeyGroups(t.E, rv.Elem(), inAttr, excess)
		}
	case TSlice:
		for i := 0; i < rv.Len(); i++ {
			bomKeyGroups(t.E, rv.Index(i), inAttr, excess)
		}
	case TMap:
		seen := map[string]bool{}
		for _, k := range sortedMapKeys(rv) {
			if inAttr {
				r := stripOneBOM(k)
				if seen[r] {
					excess[r]++
				}
				seen[r] = true
			}
			bomKeyGroups(t.E, rv.MapIndex(reflect.ValueOf(k).Convert(rv.Type().Key())), inAttr, excess)
		}
	case TStruct:
		for i, f := range t.F {
			switch f.Kind {
			case "attr", "optional":
				bomKeyGroups(f.T, rv.Field(i), true, excess)
			case "block":
				bomKeyGroups(f.T, rv.Field(i), false, excess)
			}
		}
	}
}

// dropBOMCollidingKeys: a copy of the value in which every template-evaluated map keeps, of the keys that
// evaluate to the same key, only the one that IS that key (no byte order mark to lose), else the first.
func dropBOMCollidingKeys(t *Ty, rv reflect.Value, inAttr bool) reflect.Value {
	gt := goType(t)
	out := reflect.New(gt).Elem()
	switch t.K {
	case TPtr:
		if !rv.IsNil() {
			p := reflect.New(gt.Elem())
			p.Elem().Set(dropBOMCollidingKeys(t.E, rv.Elem(), inAttr))
			out.Set(p)
		}
	case TSlice:
		if !rv.IsNil() {
			s := reflect.MakeSlice(gt, rv.Len(), rv.Len())
			for i := 0; i < rv.Len(); i++ {
				s.Index(i).Set(dropBOMCollidingKeys(t.E, rv.Index(i), inAttr))
			}
			out.Set(s)
		}
	case TMap:
		if !rv.IsNil() {
			m := reflect.MakeMap(gt)
			has := map[string]bool{}
			keys := sortedMapKeys(rv)
			for _, k := range keys {
				has[k] = true
			}
			taken := map[string]bool{}
			for _, k := range keys {
				if inAttr {
					r := stripOneBOM(k)
					if (k != r && has[r]) || taken[r] {
						continue
					}
					taken[r] = true
				}
				kv := reflect.ValueOf(k).Convert(gt.Key())
				m.SetMapIndex(kv, dropBOMCollidingKeys(t.E, rv.MapIndex(kv), inAttr))
			}
			out.Set(m)
		}
	case TStruct:
		for i, f := range t.F {
			switch f.Kind {
			case "attr", "optional":
				out.Field(i).Set(dropBOMCollidingKeys(f.T, rv.Field(i), true))
			case "block":
				out.Field(i).Set(dropBOMCollidingKeys(f.T, rv.Field(i), false))
			default:
				if f.T.K != TBody {
					out.Field(i).Set(rv.Field(i))
				}
			}
		}
	default:
		out.Set(rv)
	}
	return out
}
