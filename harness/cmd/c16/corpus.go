package main

// Hand corpus: one case per mechanism of encode.go / decode.go / schema.go.

import (
	"encoding/hex"
	"math"
	"reflect"
	"strconv"
)

type corpusCase struct {
	t    *Ty
	v    reflect.Value
	note string
}

func st(fs ...Field) *Ty       { return &Ty{K: TStruct, F: fs} }
func fa(n string, t *Ty) Field { return Field{Name: n, Kind: "attr", T: t} }
func fo(n string, t *Ty) Field { return Field{Name: n, Kind: "optional", T: t} }
func fb(n string, t *Ty) Field { return Field{Name: n, Kind: "block", T: t} }
func fl(n string) Field        { return Field{Name: n, Kind: "label", T: tyString} }
func fr(t *Ty) Field           { return Field{Name: "", Kind: "remain", T: t} }

// spec helpers (see valToSpec)
func hx(s string) any        { return hex.EncodeToString([]byte(s)) }
func in(n int64) any         { return strconv.FormatInt(n, 10) }
func some(x any) any         { return []any{x} }
func li(xs ...any) any       { return append([]any{}, xs...) }
func kv(k string, v any) any { return []any{hx(k), v} }

func mk(t *Ty, spec any, note string) corpusCase {
	rv, err := specToVal(t, spec)
	if err != nil {
		panic(note + ": " + err.Error())
	}
	return corpusCase{t, rv, note}
}

func corpus() []corpusCase {
	var cs []corpusCase
	// the shape of gohcl/encode_test.go: attributes, labelled repeated blocks, pointer block
	svc := st(fl("type"), fl("name"), fa("listen_addr", tyString), fo("tags", sliceOf(tyString)))
	cons := st(fl("name"), fa("max", tyInt))
	app := st(fa("name", tyString), fo("desc", ptrTo(tyString)), fb("constraints", ptrTo(cons)), fb("service", sliceOf(svc)))
	cs = append(cs, mk(app, li(hx("awesome-app"), some(hx("it's \"quoted\" ${x}")),
		some(li(hx("c"), in(5))),
		li(li(hx("http"), hx("web"), hx(":80"), li(hx("a"), hx("b"))), li(hx("tcp"), hx(""), hx(""), nil))), "encode_test shape"))
	cs = append(cs, mk(app, li(hx(""), nil, nil, nil), "everything absent"))
	cs = append(cs, mk(app, li(hx("x"), nil, nil, li()), "empty block slice -> nil"))

	// blank-line logic: block, attribute, block, block, attribute
	e := st(fa("v", tyInt))
	mix := st(fb("b1", e), fa("a1", tyBool), fb("b2", sliceOf(e)), fb("b3", ptrTo(e)), fa("a2", tyString), fb("b4", sliceOf(ptrTo(e))))
	cs = append(cs, mk(mix, li(li(in(1)), true, li(li(in(2)), li(in(3))), some(li(in(4))), hx("s"), li(nil, some(li(in(5))), nil)), "interleaved fields"))
	cs = append(cs, mk(mix, li(li(in(1)), false, li(), nil, hx(""), li(nil)), "interleaved, empty groups"))

	// every primitive, boundary ints
	prim := st(fa("s", tyString), fa("i", tyInt), fa("b", tyBool), fa("j", tyInt), fa("k", tyInt))
	cs = append(cs, mk(prim, li(hx("a\"b\\c${d}%{e}\n\t\x00é😀"), in(math.MaxInt64), true, in(math.MinInt64), in(1<<53+1)), "primitives"))

	// pointers: *T, **T, ***T, *[]T, []*T, []**T, map[string]*T
	ptrs := st(fo("p", ptrTo(tyString)), fo("pp", ptrTo(ptrTo(tyString))), fo("ppp", ptrTo(ptrTo(ptrTo(tyInt)))),
		fo("ps", ptrTo(sliceOf(tyString))), fa("sp", sliceOf(ptrTo(tyInt))), fa("spp", sliceOf(ptrTo(ptrTo(tyInt)))), fa("mp", mapOf(ptrTo(tyBool))))
	cs = append(cs, mk(ptrs, li(nil, some(nil), some(some(nil)), some(nil), li(some(in(1)), nil), li(some(some(in(1))), some(nil), nil), li(kv("a", nil), kv("b", some(true)))), "nil at every pointer level"))
	cs = append(cs, mk(ptrs, li(some(hx("x")), some(some(hx("y"))), some(some(some(in(3)))), some(li(hx("z"))), nil, li(), nil), "non-nil pointers, nil collections"))

	// collections: nil / empty / nested
	coll := st(fa("l", sliceOf(tyString)), fa("ll", sliceOf(sliceOf(tyInt))), fa("m", mapOf(tyString)), fa("ml", mapOf(sliceOf(tyBool))), fa("lm", sliceOf(mapOf(tyInt))))
	cs = append(cs, mk(coll, li(nil, nil, nil, nil, nil), "nil collections"))
	cs = append(cs, mk(coll, li(li(), li(), li(), li(), li()), "empty collections"))
	cs = append(cs, mk(coll, li(li(hx("a"), hx("")), li(li(), nil, li(in(1), in(-2))), li(kv("", hx("e")), kv("a b", hx("y")), kv("if", hx("x")), kv("null", hx("n"))),
		li(kv("k", li(true, false)), kv("n", nil)), li(li(kv("x", in(1))), nil, li())), "nested collections, keyword / empty / non-identifier keys"))

	// the C11 hazard: a map whose first key is `for`
	m1 := st(fa("m", mapOf(tyInt)))
	cs = append(cs, mk(m1, li(li(kv("for", in(1)))), "map { for = 1 } (C11 defect)"))
	cs = append(cs, mk(m1, li(li(kv("a", in(0)), kv("for", in(1)))), "map with for not first"))

	// labels: escapes, empty, top-level labels (ignored by EncodeIntoBody)
	lb := st(fl("l1"), fl("l2"), fa("x", tyInt))
	top := st(fl("toplabel"), fa("a", tyString), fb("blk", sliceOf(lb)))
	cs = append(cs, mk(top, li(hx("dropped"), hx("v"), li(li(hx(""), hx("a\"b"), in(1)), li(hx("${x}"), hx("$${"), in(2)), li(hx("é"), hx("a\nb"), in(3)))), "labels"))

	// remain: map (ignored by encode, decoded as empty map)
	rem := st(fa("a", tyString), fr(mapOf(tyString)))
	cs = append(cs, mk(rem, li(hx("v"), li(kv("lost", hx("x")))), "remain map"))
	cs = append(cs, mk(st(fa("a", tyString), fr(&Ty{K: TBody})), li(hx("v"), nil), "remain hcl.Body"))

	// nesting depth 3 with labels at each level
	d3 := st(fl("n"), fa("z", tyBool))
	d2 := st(fl("n"), fb("d3", sliceOf(d3)), fo("o", tyInt))
	d1 := st(fb("d2", sliceOf(ptrTo(d2))), fa("q", tyString))
	d0 := st(fb("d1", d1))
	cs = append(cs, mk(d0, li(li(li(some(li(hx("A"), li(li(hx("B"), true), li(hx("C"), false)), in(0))), nil, some(li(hx("D"), nil, in(9)))), hx("q"))), "depth 3"))

	// strings cty cannot hold unchanged (documented limit of cty strings, not reported as failures)
	s1 := st(fa("s", tyString))
	cs = append(cs, mk(s1, li(hx("é")), "non-NFC string"))
	cs = append(cs, mk(s1, li(hx("\xff\xfe")), "invalid UTF-8"))

	// keyword names for attributes and blocks
	kw := st(fa("for", tyInt), fa("if", tyBool), fb("null", sliceOf(st(fa("true", tyString)))))
	cs = append(cs, mk(kw, li(in(1), true, li(li(hx("t")))), "keyword names"))
	return cs
}

type nonWFCase struct {
	t       *Ty
	v       reflect.Value
	texts   []string
	note    string
	skipEnc bool // encode behaviour outside wf_schema that the model does not reproduce
}

// struct types gohcl panics on (outside wf_schema): where exactly, and where not
func nonWFCorpus() []nonWFCase {
	mkn := func(t *Ty, spec any, texts []string, note string) nonWFCase {
		c := mk(t, spec, note)
		return nonWFCase{c.t, c.v, texts, note, false}
	}
	noEnc := func(c nonWFCase) nonWFCase { c.skipEnc = true; return c }
	inner := st(fa("x", tyInt))
	lint := st(Field{Name: "l", Kind: "label", T: tyInt}, fo("y", tyInt))
	return []nonWFCase{
		// attribute of struct type: no cty.Type -> panic when written / when present
		mkn(st(fa("a", inner), fo("b", tyString)), li(li(in(1)), hx("s")), []string{"a = 1\n", "b = \"x\"\n", "a = {x = 1}\n"}, "attr of struct type"),
		mkn(st(fo("a", ptrTo(inner))), li(nil), []string{"", "a = null\n"}, "optional *struct attr, nil: skipped before the panic"),
		mkn(st(fa("a", sliceOf(inner))), li(li()), []string{"a = []\n"}, "attr of []struct type"),
		// label field that is not a string: reflect.Set panics when a block has labels
		// (encode writes the label as fmt's "%!s(int=7)": not modelled)
		noEnc(mkn(st(fb("b", sliceOf(lint))), li(li(li(in(7), in(1)))), []string{"", "b \"x\" {}\n", "b {}\n"}, "int label field")),
		// two remain fields: getFieldTags panics
		mkn(st(fa("a", tyString), fr(mapOf(tyString)), fr(mapOf(tyString))), li(hx("s"), nil, nil), []string{"a = \"x\"\n"}, "two remain fields"),
		mkn(st(fb("b", sliceOf(st(fr(mapOf(tyString)), fr(mapOf(tyInt)))))), li(li(li(nil, nil))), []string{"", "b {}\n"}, "two remain fields in a block struct"),
		// block field that is not a struct
		mkn(st(fb("b", sliceOf(tyInt))), li(li(in(1))), []string{"", "b {}\n"}, "block of []int"),
		// (encode happens to accept *[]struct, decode panics; the model reports both as panics)
		noEnc(mkn(st(fb("b", ptrTo(sliceOf(inner)))), li(some(li(li(in(1))))), []string{"", "b {}\n"}, "block of *[]struct")),
		// remain field that is neither struct nor map
		mkn(st(fa("a", tyString), fr(tyString)), li(hx("s"), hx("")), []string{"a = \"x\"\n"}, "remain of string type"),
		mkn(st(fa("a", tyString), fr(sliceOf(tyString))), li(hx("s"), nil), []string{"a = \"x\"\n"}, "remain of slice type"),
		// remain of struct type: accepted (wf, but not round-trippable)
		mkn(st(fa("a", tyString), fr(st(fa("q", tyInt), fb("z", sliceOf(inner))))), li(hx("s"), li(in(1), nil)), []string{"a = \"x\"\n", "a = \"x\"\nq = 3\nz {\n x = 1\n}\n", "a = \"x\"\nq = 3\nw = 1\n"}, "remain of struct type"),
	}
}
