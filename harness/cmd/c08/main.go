package main

// C08 — Decoding always yields a value of the specification's implied type.
//
// Correspondence: (spec tree, abstract body, context) -> hcldec.Decode,
// hcldec.PartialDecode, hcldec.ImpliedType on the real code, against the Coq
// model Dec/{Spec,Decode}.v through Dec/DecodeCheck.v.
// Direct oracle (real code only): no panic; the decoded value's type conforms to
// ImpliedType(spec) (cty TestConformance); for conforming bodies decoded without
// error the value equals the one the generator wrote down; PartialDecode and
// Decode return the same value.

import (
	"encoding/json"
	"fmt"
	"os"
	"strings"

	"github.com/hashicorp/hcl/v2"
	"github.com/hashicorp/hcl/v2/ext/dynblock"
	"github.com/hashicorp/hcl/v2/hcldec"
	"github.com/hashicorp/hcl/v2/hclsyntax"
	"github.com/zclconf/go-cty/cty"
	"hclverif/hv"
)

func main() { hv.Main(map[string]func(*hv.RunCfg) error{"c08": run}) }

// one input of the property: replay files hold this as JSON
type input struct {
	Spec *gspec `json:"spec"`
	Body string `json:"body"`
	Dyn  bool   `json:"dyn"` // wrap the body with dynblock.Expand
}

func (in *input) String() string {
	b, _ := json.Marshal(in)
	return string(b)
}

type job struct {
	in      input
	pert    string // "conforming", a perturbation name, "corpus", "precondition:<which>"
	exp     expect
	violate bool // a documented precondition is violated: observed for panics only
}

type outcome struct {
	val      cty.Value
	errs     int
	diags    hcl.Diagnostics
	panicked bool
	pmsg     string
}

func decodeSafe(body hcl.Body, spec hcldec.Spec, ctx *hcl.EvalContext, partial bool) (o outcome) {
	defer func() {
		if r := recover(); r != nil {
			o = outcome{val: cty.DynamicVal, panicked: true, pmsg: fmt.Sprint(r)}
		}
	}()
	var v cty.Value
	var d hcl.Diagnostics
	if partial {
		v, _, d = hcldec.PartialDecode(body, spec, ctx)
	} else {
		v, d = hcldec.Decode(body, spec, ctx)
	}
	n := 0
	for _, x := range d {
		if x.Severity == hcl.DiagError {
			n++
		}
	}
	return outcome{val: v, errs: n, diags: d}
}

func impliedSafe(spec hcldec.Spec) (t cty.Type, panicked bool) {
	defer func() {
		if recover() != nil {
			t, panicked = cty.DynamicPseudoType, true
		}
	}()
	return hcldec.ImpliedType(spec), false
}

func hasSummary(d hcl.Diagnostics, prefix string) bool {
	for _, x := range d {
		if strings.HasPrefix(x.Summary, prefix) {
			return true
		}
	}
	return false
}

// emptyMapTypeDiff: the first place where a and b differ holds two empty maps of
// different element types (the multi-label BlockMapSpec shape).
func emptyMapTypeDiff(a, b cty.Value) bool {
	a, _ = a.Unmark()
	b, _ = b.Unmark()
	if a.RawEquals(b) {
		return false
	}
	at, bt := a.Type(), b.Type()
	if at.IsMapType() && bt.IsMapType() && a.IsKnown() && b.IsKnown() && !a.IsNull() && !b.IsNull() &&
		a.LengthInt() == 0 && b.LengthInt() == 0 {
		return true
	}
	if !a.IsKnown() || !b.IsKnown() || a.IsNull() || b.IsNull() || !a.CanIterateElements() || !b.CanIterateElements() {
		return false
	}
	if a.LengthInt() != b.LengthInt() {
		return false
	}
	ai, bi := a.ElementIterator(), b.ElementIterator()
	for ai.Next() && bi.Next() {
		ak, av := ai.Element()
		bk, bv := bi.Element()
		if !ak.RawEquals(bk) && !at.IsSetType() {
			return false
		}
		if !av.RawEquals(bv) {
			return emptyMapTypeDiff(av, bv)
		}
	}
	return false
}

// explainedByEmptyMap: every place where v's type does not conform to want is a KNOWN, non-null, EMPTY
// map standing where a map type is wanted - the shape of the pinned finding (MapValEmpty of the nested
// type for a multi-label BlockMapSpec without blocks). Unknown maps, non-empty maps and any other
// difference are not explained by it.
func explainedByEmptyMap(v cty.Value, want cty.Type) bool {
	v, _ = v.Unmark()
	vt := v.Type()
	if len(vt.TestConformance(want)) == 0 {
		return true
	}
	if !v.IsKnown() || v.IsNull() {
		return false
	}
	if vt.IsMapType() && want.IsMapType() && v.LengthInt() == 0 {
		return true
	}
	switch {
	case vt.IsObjectType() && want.IsObjectType():
		for name, at := range want.AttributeTypes() {
			if !vt.HasAttribute(name) || !explainedByEmptyMap(v.GetAttr(name), at) {
				return false
			}
		}
		return len(vt.AttributeTypes()) == len(want.AttributeTypes())
	case vt.IsTupleType() && want.IsTupleType():
		wts := want.TupleElementTypes()
		if len(wts) != v.LengthInt() {
			return false
		}
		for i, wt := range wts {
			if !explainedByEmptyMap(v.Index(cty.NumberIntVal(int64(i))), wt) {
				return false
			}
		}
		return true
	case (vt.IsListType() && want.IsListType()) || (vt.IsSetType() && want.IsSetType()) || (vt.IsMapType() && want.IsMapType()):
		if v.LengthInt() == 0 {
			return false
		}
		for it := v.ElementIterator(); it.Next(); {
			_, ev := it.Element()
			if !explainedByEmptyMap(ev, want.ElementType()) {
				return false
			}
		}
		return true
	}
	return false
}

func findSpec(s *gspec, pred func(*gspec) bool) bool {
	if pred(s) {
		return true
	}
	for _, k := range s.Kids {
		if findSpec(k, pred) {
			return true
		}
	}
	return false
}

// ---- hand corpus ------------------------------------------------------------------------------

func corpus() []job {
	str, num, dynT := tyJSON(cty.String), tyJSON(cty.Number), tyJSON(cty.DynamicPseudoType)
	attr := func(n, t string, req bool) *gspec { return &gspec{Kind: "attr", Name: n, Type: t, Req: req} }
	obj := func(kv ...interface{}) *gspec {
		o := &gspec{Kind: "object"}
		for i := 0; i < len(kv); i += 2 {
			o.Keys = append(o.Keys, kv[i].(string))
			o.Kids = append(o.Kids, kv[i+1].(*gspec))
		}
		return o
	}
	lbl := func(i int) *gspec { return &gspec{Kind: "blocklabel", Index: i, Name: fmt.Sprintf("n%d", i)} }
	lit := func(v cty.Value) *gspec { return &gspec{Kind: "literal", Lit: litJSON(v)} }
	dynObj := obj("a", attr("a", dynT, false))
	map2 := &gspec{Kind: "blockmap", Name: "i", Labels: []string{"x", "y"}, Kids: []*gspec{attr("a", str, false)}}
	j := func(s *gspec, body string, dyn bool) job {
		return job{in: input{Spec: s, Body: body, Dyn: dyn}, pert: "corpus"}
	}
	return []job{
		j(obj("a", attr("a", str, true), "b", attr("b", num, false)), "a = \"x\"\nb = 2\n", false),
		j(obj("a", attr("a", str, true), "b", attr("b", num, false)), "", false),
		j(obj("a", attr("a", str, true)), "a = [1]\nzz = 1\nq {\n}\n", false),
		// finding 12: un-unifiable element types
		j(&gspec{Kind: "blocklist", Name: "b", Kids: []*gspec{dynObj}}, "b {\n  a = \"x\"\n}\nb {\n  a = [1]\n}\n", false),
		j(&gspec{Kind: "blockset", Name: "b", Kids: []*gspec{dynObj}}, "b {\n  a = \"x\"\n}\nb {\n  a = [1]\n}\n", false),
		j(&gspec{Kind: "blocklist", Name: "b", Kids: []*gspec{dynObj}}, "b {\n  a = \"x\"\n}\nb {\n  a = 1\n}\n", false),
		j(&gspec{Kind: "blocklist", Name: "b", Kids: []*gspec{dynObj}}, "b {\n  a = \"x\"\n}\nb {\n  a = \"y\"\n}\n", false),
		// element types differing only by a nested dynamic part: cty.ListVal/SetVal panic
		j(&gspec{Kind: "blocklist", Name: "b", Kids: []*gspec{dynObj}}, "b {\n  a = [\"x\"]\n}\nb {\n}\n", false),
		j(&gspec{Kind: "blockset", Name: "b", Kids: []*gspec{dynObj}}, "b {\n  a = {k = 1}\n}\nb {\n}\n", false),
		j(&gspec{Kind: "blocklist", Name: "b", Kids: []*gspec{dynObj}}, "b {\n  a = \"x\"\n}\nb {\n}\n", false),
		// a bare dynamic attribute: number, bool and an absent one "unify" to dynamic; tuple + absent: all unknown
		j(&gspec{Kind: "blocklist", Name: "b", Kids: []*gspec{attr("a", dynT, false)}}, "b {\n  a = 1\n}\nb {\n  a = true\n}\nb {\n}\n", false),
		j(&gspec{Kind: "blocklist", Name: "b", Kids: []*gspec{attr("a", dynT, false)}}, "b {\n  a = [1]\n}\nb {\n}\n", false),
		j(&gspec{Kind: "blockset", Name: "b", Kids: []*gspec{attr("a", dynT, false)}}, "b {\n  a = [1]\n}\nb {\n}\n", false),
		// multi-label map, nothing present
		j(map2, "", false),
		j(map2, "i \"p\" \"q\" {\n  a = \"1\"\n}\ni \"p\" \"r\" {\n  a = \"2\"\n}\ni \"s\" \"r\" {\n}\n", false),
		j(map2, "i \"p\" \"q\" {\n  a = \"1\"\n}\ni \"p\" \"q\" {\n  a = \"2\"\n}\n", false),
		j(&gspec{Kind: "blockmap", Name: "o", Labels: []string{"k"}, Kids: []*gspec{map2}},
			"o \"k1\" {\n  i \"p\" \"q\" {\n    a = \"1\"\n  }\n}\no \"k2\" {\n}\n", false),
		j(&gspec{Kind: "blocklist", Name: "o", Kids: []*gspec{map2}},
			"o {\n  i \"p\" \"q\" {\n    a = \"1\"\n  }\n}\no {\n}\n", false),
		// BlockAttrs with a dynamic element type
		j(&gspec{Kind: "blockattrs", Name: "b", Type: dynT}, "b {\n  x = 1\n  y = \"s\"\n}\n", false),
		j(&gspec{Kind: "blockattrs", Name: "b", Type: dynT}, "b {\n  x = 1\n  y = 2\n}\n", false),
		j(&gspec{Kind: "blockattrs", Name: "b", Type: str, Req: true}, "b {\n  x = 1\n  y = [2]\n  inner {\n  }\n}\nb {\n}\n", false),
		// labels
		j(&gspec{Kind: "blocklist", Name: "b", Kids: []*gspec{obj("l0", lbl(0), "l1", lbl(1), "a", attr("a", str, false))}},
			"b \"p\" \"q\" {\n  a = \"1\"\n}\nb \"p\" {\n}\nb \"p\" \"q\" \"r\" {\n}\n", false),
		j(&gspec{Kind: "blockobject", Name: "b", Labels: []string{"x", "y"}, Kids: []*gspec{obj("l", lbl(0), "a", attr("a", dynT, false))}},
			"b \"p\" \"q\" \"z\" {\n  a = 1\n}\nb \"p\" \"r\" \"z\" {\n  a = \"s\"\n}\n", false),
		// the same required attribute asked for twice
		j(&gspec{Kind: "default", Kids: []*gspec{attr("a", num, true), lit(cty.NumberIntVal(2))}}, "a = 1\n", false),
		j(&gspec{Kind: "default", Kids: []*gspec{attr("a", str, false), attr("b", str, true)}}, "b = \"d\"\n", false),
		j(&gspec{Kind: "default", Kids: []*gspec{attr("a", str, false), lit(cty.StringVal("d"))}}, "a = v_null\n", false),
		// min / max
		j(&gspec{Kind: "blocktuple", Name: "b", Min: 1, Max: 2, Kids: []*gspec{lit(cty.True)}}, "b {\n}\nb {\n}\nb {\n}\n", false),
		j(&gspec{Kind: "blocktuple", Name: "b", Min: 1, Max: 2, Kids: []*gspec{lit(cty.True)}}, "b {\n}\nb {\n}\n", false),
		j(&gspec{Kind: "blocklist", Name: "b", Min: 2, Kids: []*gspec{lit(cty.True)}}, "b {\n}\n", false),
		// transforms, validation, refinement
		j(&gspec{Kind: "transformfunc", Func: "upper", Kids: []*gspec{attr("a", str, false)}}, "a = \"abc\"\n", false),
		j(&gspec{Kind: "transformfunc", Func: "upper", Kids: []*gspec{attr("a", str, false)}}, "a = v_unk\n", false),
		j(&gspec{Kind: "transformfunc", Func: "upper", Kids: []*gspec{attr("a", str, false)}}, "", false),
		j(&gspec{Kind: "transformfunc", Func: "fail", Kids: []*gspec{attr("a", str, false)}}, "a = \"abc\"\n", false),
		j(&gspec{Kind: "transformexpr", Name: "v", Expr: "[v]", Kids: []*gspec{attr("a", dynT, false)}}, "a = 1\n", false),
		j(&gspec{Kind: "refine", Func: "notnull", Kids: []*gspec{{Kind: "validate", Func: "notnull", Kids: []*gspec{attr("a", str, false)}}}}, "a = v_unk_str\n", false),
		j(&gspec{Kind: "refine", Func: "notnull", Kids: []*gspec{{Kind: "validate", Func: "notnull", Kids: []*gspec{attr("a", str, false)}}}}, "", false),
		// dynblock: unknown, marked, known, empty for_each
		j(&gspec{Kind: "blocklist", Name: "b", Kids: []*gspec{obj("a", attr("a", str, false))}},
			"dynamic \"b\" {\n  for_each = v_unk_list\n  content {\n    a = \"x\"\n  }\n}\n", true),
		j(&gspec{Kind: "blockmap", Name: "b", Labels: []string{"k"}, Kids: []*gspec{obj("a", attr("a", str, false))}},
			"b \"s\" {\n}\ndynamic \"b\" {\n  for_each = v_unk_mlist\n  labels = [\"x\"]\n  content {\n    a = \"x\"\n  }\n}\n", true),
		j(&gspec{Kind: "blockset", Name: "b", Kids: []*gspec{obj("a", attr("a", str, false))}},
			"dynamic \"b\" {\n  for_each = v_marked_list\n  content {\n    a = \"x\"\n  }\n}\n", true),
		j(&gspec{Kind: "blocktuple", Name: "b", Kids: []*gspec{obj("a", attr("a", str, false), "n", &gspec{Kind: "block", Name: "c", Kids: []*gspec{attr("z", num, false)}})}},
			"dynamic \"b\" {\n  for_each = v_marked_list\n  content {\n    a = v_str\n    c {\n      z = 1\n    }\n  }\n}\n", true),
		j(&gspec{Kind: "block", Name: "b", Kids: []*gspec{obj("a", attr("a", num, false))}},
			"dynamic \"b\" {\n  for_each = v_unk_list\n  content {\n    a = 1\n  }\n}\n", true),
		j(&gspec{Kind: "blockobject", Name: "b", Labels: []string{"k"}, Kids: []*gspec{attr("a", str, false)}},
			"dynamic \"b\" {\n  for_each = v_empty\n  labels = [\"x\"]\n  content {\n  }\n}\n", true),
	}
}

// ---- the run ----------------------------------------------------------------------------------

func run(cfg *hv.RunCfg) error {
	rep := hv.NewReport("C08", cfg.Seed)
	rep.Rule = "spec trees drawn from all 18 spec kinds within the documented preconditions (unique block types per body level, consecutive label indices, no dynamic types under BlockMap, Default arms of equal type, Refine over a validator); per spec a conforming native-syntax body written by the generator (which also writes down the value it expects) and one perturbed variant (19 perturbations incl. dynblock unknown/marked/known/empty for_each); plus a stream violating one precondition at a time (observed for panics only); non-trivial = spec has at least one block or wrapper spec or the body is perturbed; distinct by SHA-256 of (spec, body, dyn)"
	r := hv.NewRng(cfg.Seed, 808)
	ctx := baseCtx()
	hdr := &hv.ValInfo{}
	cf := &hv.CaseFile{Dir: cfg.Out, Name: "c08cases",
		Imports: "From Coq Require Import QArith String.\nFrom HclV Require Import Base.Prelude Cty.Values Cty.Convert Cty.Ops Eval.Impl Eval.Funcs Dec.Spec Dec.Decode Dec.DecodeCheck.\nOpen Scope string_scope.\nOpen Scope Z_scope.\nOpen Scope list_scope.\nDefinition cx : ctx := " + hv.CoqCtx(ctx, hdr) + ".\n",
		Ctype:   "dcase", Checker: "check_decode_cases",
		Extras:  [][2]string{{"skipped", "skipped_decode_cases"}, {"noted", "noted_decode_cases"}}}

	var jobs []job
	if cfg.Replay != "" {
		b, err := os.ReadFile(cfg.Replay)
		if err != nil {
			return err
		}
		var in input
		if err := json.Unmarshal(b, &in); err != nil {
			return fmt.Errorf("replay file is not a C08 input: %v", err)
		}
		jobs = append(jobs, job{in: in, pert: "replay"})
	} else {
		jobs = append(jobs, corpus()...)
		g := newGen(r)
		for i := 0; i < cfg.N; i++ {
			if i%12 == 11 {
				s, which := g.violatingSpec()
				body := &pbody{}
				func() {
					defer func() { recover() }()
					g.genInto(s, body, nil, ctx)
				}()
				if which == "block-type-label-conflict" {
					body = &pbody{Blocks: []*pblock{{Type: "b1", Body: &pbody{}}}}
				}
				if which == "refine-unguarded" && g.r.Chance(0.7) {
					body = &pbody{}
				}
				jobs = append(jobs, job{in: input{Spec: s, Body: body.text()}, pert: "precondition:" + which, violate: true})
				continue
			}
			s := g.topSpec()
			plan := &pbody{}
			exp := g.genInto(s, plan, nil, ctx)
			if i%2 == 0 {
				jobs = append(jobs, job{in: input{Spec: s, Body: plan.text()}, pert: "conforming", exp: exp})
				continue
			}
			// a perturbed variant: try perturbations in random order until one applies
			// (the two that always apply are tried last unless drawn first on purpose)
			var order, last []int
			for _, pi := range r.Perm(len(perturbations)) {
				if strings.HasPrefix(perturbations[pi], "extra-") && !r.Chance(0.08) {
					last = append(last, pi)
				} else {
					order = append(order, pi)
				}
			}
			order = append(order, last...)
			done := false
			for _, pi := range order {
				if p, ok := g.perturb(plan, perturbations[pi]); ok {
					jobs = append(jobs, job{in: input{Spec: s, Body: p.text(), Dyn: p.hasDynamic()}, pert: perturbations[pi]})
					done = true
					break
				}
			}
			if !done {
				jobs = append(jobs, job{in: input{Spec: s, Body: plan.text()}, pert: "conforming", exp: exp})
			}
		}
	}

	for _, j := range jobs {
		runJob(j, ctx, rep, cf)
	}
	names, err := cf.Flush(100)
	if err != nil {
		return err
	}
	rep.CaseFiles = names
	return rep.Write(cfg.Out)
}

func runJob(j job, ctx *hcl.EvalContext, rep *hv.Report, cf *hv.CaseFile) {
	in := j.in
	key := in.String()
	kinds := map[string]bool{}
	in.Spec.kinds(kinds)
	f, pd := hclsyntax.ParseConfig([]byte(in.Body), "t.hcl", hcl.InitialPos)
	if pd.HasErrors() {
		rep.Hist("generator:body-parse-error")
		rep.Evaluations++
		return
	}
	syn := f.Body.(*hclsyntax.Body)
	var body hcl.Body = syn
	if in.Dyn {
		body = dynblock.Expand(syn, ctx)
	}
	var spec hcldec.Spec
	func() {
		defer func() {
			if recover() != nil {
				spec = nil
			}
		}()
		spec = in.Spec.toGo()
	}()
	if spec == nil {
		rep.Hist("generator:bad-spec")
		rep.Evaluations++
		return
	}
	ity, ityPanic := impliedSafe(spec)
	full := decodeSafe(body, spec, ctx, false)
	part := decodeSafe(body, spec, ctx, true)

	nontrivial := j.pert != "conforming" && j.pert != "corpus"
	for k := range kinds {
		switch k {
		case "attr", "literal", "object", "tuple", "expr":
		default:
			nontrivial = true
		}
	}
	rep.Count(key, nontrivial)
	rep.Hist("stream:" + strings.SplitN(j.pert, ":", 2)[0])
	rep.Hist("pert:" + j.pert)
	for _, k := range sortedKinds(kinds) {
		rep.Hist("kind:" + k)
		rep.Hist("kind×pert:" + k + "×" + j.pert)
	}
	if in.Dyn {
		rep.Hist("body:dynblock-expanded")
	}
	switch {
	case full.panicked:
		rep.Hist("result:panic")
	case full.errs > 0:
		rep.Hist("result:errors")
	case !full.val.IsWhollyKnown():
		rep.Hist("result:ok-with-unknowns")
	default:
		rep.Hist("result:ok")
	}
	if len(in.Body) < 120 {
		rep.Sample(map[string]string{"spec": in.Spec.String(), "body": in.Body, "stream": j.pert})
	}

	// ---- direct oracle ------------------------------------------------------------------
	fail := func(kind, detail string) {
		rep.Hist("oracle-fail:" + kind)
		rep.Fail(hv.Failure{Kind: kind, Detail: detail, Input: key,
			Extra: map[string]string{"spec": in.Spec.String(), "body": in.Body, "stream": j.pert}})
	}
	if j.violate {
		if full.panicked || part.panicked || ityPanic {
			rep.Hist("precondition-violated:" + j.pert + ":panic")
		} else {
			rep.Hist("precondition-violated:" + j.pert + ":no-panic")
		}
	} else {
		if ityPanic {
			fail("panic", "ImpliedType panicked")
		}
		for _, o := range []struct {
			name string
			o    outcome
		}{{"Decode", full}, {"PartialDecode", part}} {
			if o.o.panicked {
				kind := "panic"
				switch {
				case strings.Contains(o.o.pmsg, "inconsistent map element types") &&
					findSpec(in.Spec, func(s *gspec) bool { return s.Kind == "blockattrs" && tyOf(s.Type).HasDynamicTypes() }):
					kind = "panic-blockattrs-dynamic-element-type"
				case strings.Contains(o.o.pmsg, "inconsistent map element types") && kinds["blockmap(multi-label)"]:
					kind = "panic-blockmap-multilabel-empty-nested"
				case strings.Contains(o.o.pmsg, "inconsistent list element types") || strings.Contains(o.o.pmsg, "inconsistent set element types"):
					kind = "panic-blocklist-nested-dynamic"
				}
				fail(kind, o.name+" panicked: "+o.o.pmsg)
				break
			}
			if errs := o.o.val.Type().TestConformance(ity); len(errs) > 0 {
				kind := "type-not-conforming"
				switch {
				case hasSummary(o.o.diags, "Unconsistent argument types"):
					kind = "blocklist-dynamic-ununifiable"
				case kinds["blockmap(multi-label)"] && explainedByEmptyMap(o.o.val, ity):
					kind = "blockmap-multilabel-empty-type"
				}
				fail(kind, fmt.Sprintf("%s returned %#v; implied type %#v: %v", o.name, o.o.val.Type(), ity, errs[0]))
				break
			}
		}
		if !full.panicked && !part.panicked {
			if !full.val.RawEquals(part.val) {
				fail("partial-vs-full-differs", fmt.Sprintf("Decode %#v, PartialDecode %#v", full.val, part.val))
			} else if part.errs > full.errs {
				fail("partial-vs-full-differs", fmt.Sprintf("PartialDecode reports %d errors, Decode %d", part.errs, full.errs))
			}
		}
		if j.pert == "conforming" && !full.panicked {
			switch {
			case full.errs > 0 && !j.exp.errExp && j.exp.ok:
				kind := "conforming-body-rejected"
				if kinds["blockmap(multi-label)"] && hasSummary(full.diags, "Unconsistent argument types") {
					// the mistyped empty map of a multi-label BlockMapSpec next to a
					// non-empty one under a BlockList/BlockSet: element types differ
					kind = "blockmap-multilabel-empty-type"
				}
				fail(kind, fmt.Sprintf("Decode reports: %v", full.diags))
			case full.errs == 0 && j.exp.ok && !j.exp.errExp:
				if !full.val.RawEquals(j.exp.val) {
					kind := "value-differs"
					if kinds["blockmap(multi-label)"] && emptyMapTypeDiff(full.val, j.exp.val) {
						kind = "blockmap-multilabel-empty-type"
					}
					fail(kind, fmt.Sprintf("Decode %#v, the body says %#v", full.val, j.exp.val))
				} else {
					rep.Hist("oracle:value-as-written")
				}
			default:
				rep.Hist("oracle:no-expectation")
			}
		}
	}

	// ---- the Coq case --------------------------------------------------------------------
	info := &hv.ValInfo{}
	d := &dumper{ctx: ctx, dyn: in.Dyn, info: info}
	ab := d.body(syn, nil, nil, false)
	sc := in.Spec.toCoq(info)
	fv := hv.CoqVal(full.val, info)
	pv := hv.CoqVal(part.val, info)
	mode := 0
	if info.Inexact {
		mode = 1
		rep.Hist("mode:type-only(inexact number)")
	}
	if info.Unsupported || d.bad != "" || ityPanic {
		mode = 2
		rep.Hist("mode:skipped(outside the model's universe)")
	}
	cf.Add(fmt.Sprintf("mkDCase %s\n %s\n cx %d %s\n %s %s %s\n %s %s %s",
		sc, ab, mode, hv.CoqType(ity),
		fv, hv.CoqBool(full.errs > 0), hv.CoqBool(full.panicked),
		pv, hv.CoqBool(part.errs > 0), hv.CoqBool(part.panicked)))
	rep.Idx(key)
}
