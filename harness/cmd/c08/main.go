package main

// C08 — Decoding always yields a value of the specification's implied type.
//
// Correspondence: (spec tree, abstract body, context) -> hcldec.Decode,
// hcldec.PartialDecode, hcldec.ImpliedType on the real code, against the Coq
// model Dec/{Spec,Decode}.v through Dec/DecodeCheck.v.
// Direct oracle (real code only): no panic; the decoded value's type conforms to
// ImpliedType(spec) (cty TestConformance); for conforming bodies decoded without
// error the value equals the one the generator wrote down; PartialDecode and
// Decode return the same value.

import (
	"encoding/json"
	"fmt"
	"os"
	"strings"

	"github.com/hashicorp/hcl/v2"
	"github.com/hashicorp/hcl/v2/ext/dynblock"
	"github.com/hashicorp/hcl/v2/hcldec"
	"github.com/hashicorp/hcl/v2/hclsyntax"
	hcljson "github.com/hashicorp/hcl/v2/json"
	"github.com/zclconf/go-cty/cty"
	"hclverif/hv"
)

func main() { hv.Main(map[string]func(*hv.RunCfg) error{"c08": run}) }

// one input of the property: replay files hold this as JSON
type input struct {
	Spec *gspec `json:"spec"`
	Body string `json:"body"`
	Dyn  bool   `json:"dyn"`            // wrap the body with dynblock.Expand
	JSON bool   `json:"json,omitempty"` // the body is JSON syntax
}

func (in *input) String() string {
	b, _ := json.Marshal(in)
	return string(b)
}

type job struct {
	in      input
	pert    string // "conforming", a perturbation name, "corpus", "precondition:<which>"
	exp     expect
	violate bool     // a documented precondition is violated: observed for panics only
	tags    []string // further histogram labels (exprfail.go)
}

type outcome struct {
	val      cty.Value
	errs     int
	diags    hcl.Diagnostics
	panicked bool
	pmsg     string
}

func decodeSafe(body hcl.Body, spec hcldec.Spec, ctx *hcl.EvalContext, partial bool) (o outcome) {
	defer func() {
		if r := recover(); r != nil {
			o = outcome{val: cty.DynamicVal, panicked: true, pmsg: fmt.Sprint(r)}
		}
	}()
	var v cty.Value
	var d hcl.Diagnostics
	if partial {
		v, _, d = hcldec.PartialDecode(body, spec, ctx)
	} else {
		v, d = hcldec.Decode(body, spec, ctx)
	}
	n := 0
	for _, x := range d {
		if x.Severity == hcl.DiagError {
			n++
		}
	}
	return outcome{val: v, errs: n, diags: d}
}

func impliedSafe(spec hcldec.Spec) (t cty.Type, panicked bool) {
	defer func() {
		if recover() != nil {
			t, panicked = cty.DynamicPseudoType, true
		}
	}()
	return hcldec.ImpliedType(spec), false
}

func hasSummary(d hcl.Diagnostics, prefix string) bool {
	for _, x := range d {
		if strings.HasPrefix(x.Summary, prefix) {
			return true
		}
	}
	return false
}

// mistypedEmptyMap: v is a KNOWN, non-null, EMPTY map(T) standing where map(map(..map(T)..)) (two or
// more levels) is wanted: exactly what a multi-label BlockMapSpec without blocks returns
// (MapValEmpty(Nested.impliedType()) instead of one map level per label) - the pinned finding.
func mistypedEmptyMap(v cty.Value, want cty.Type) bool {
	vt := v.Type()
	if !v.IsKnown() || v.IsNull() || !vt.IsMapType() || !want.IsMapType() || v.LengthInt() != 0 {
		return false
	}
	for t := want.ElementType(); t.IsMapType(); {
		t = t.ElementType()
		if t.Equals(vt.ElementType()) {
			return true
		}
	}
	return false
}

// dynamicForCollection: v is cty.DynamicVal standing where a list or set is wanted: what
// BlockListSpec/BlockSetSpec return, together with an "Unconsistent argument types" error, when the
// element types cannot be unified - the pinned finding.
//
// An enclosing BlockList/BlockSet spreads it: convert.UnifyUnsafe of [dynamic, T, ...] turns EVERY
// element into cty.DynamicVal, so one error can account for several such places (seed 2, n=6000:
// blockset(b1)[blockset(b1)[attr(a1:dynamic)]] gives SetVal{DynamicVal, DynamicVal, DynamicVal}).
func dynamicForCollection(v cty.Value, want cty.Type) bool {
	// (the finding needs block values of DIFFERENT types, which only a nested implied type with a
	// dynamic part allows; with a fully static element type the same symptom is a new defect)
	return v.Type() == cty.DynamicPseudoType && !v.IsKnown() && (want.IsListType() || want.IsSetType()) &&
		want.ElementType().HasDynamicTypes()
}

// emptyMapTypeDiff: a and b differ, and EVERY place where they differ holds, in a, a mistyped empty map
// of the multi-label BlockMapSpec shape and, in b, the empty map of the wanted type.
func emptyMapTypeDiff(a, b cty.Value) bool {
	a, _ = a.Unmark()
	b, _ = b.Unmark()
	if a.RawEquals(b) {
		return false
	}
	return emptyMapDiffOnly(a, b)
}

func emptyMapDiffOnly(a, b cty.Value) bool {
	a, _ = a.Unmark()
	b, _ = b.Unmark()
	if a.RawEquals(b) {
		return true
	}
	at, bt := a.Type(), b.Type()
	if bt.IsMapType() && b.IsKnown() && !b.IsNull() && b.LengthInt() == 0 && mistypedEmptyMap(a, bt) {
		return true
	}
	if !a.IsKnown() || !b.IsKnown() || a.IsNull() || b.IsNull() || !a.CanIterateElements() || !b.CanIterateElements() {
		return false
	}
	if a.LengthInt() != b.LengthInt() {
		return false
	}
	switch {
	case at.IsObjectType() && bt.IsObjectType(), at.IsTupleType() && bt.IsTupleType(),
		at.IsListType() && bt.IsListType(), at.IsMapType() && bt.IsMapType():
	case at.IsSetType() && bt.IsSetType():
		// no corresponding positions: every element of a must pair with a distinct element of b
		var bs []cty.Value
		for it := b.ElementIterator(); it.Next(); {
			_, bv := it.Element()
			bs = append(bs, bv)
		}
		used := make([]bool, len(bs))
		for it := a.ElementIterator(); it.Next(); {
			_, av := it.Element()
			found := false
			for i, bv := range bs {
				if !used[i] && emptyMapDiffOnly(av, bv) {
					used[i], found = true, true
					break
				}
			}
			if !found {
				return false
			}
		}
		return true
	default:
		return false
	}
	ai, bi := a.ElementIterator(), b.ElementIterator()
	for ai.Next() && bi.Next() {
		ak, av := ai.Element()
		bk, bv := bi.Element()
		if !ak.RawEquals(bk) || !emptyMapDiffOnly(av, bv) {
			return false
		}
	}
	return true
}

// explainedBy: every place where v's type does not conform to want satisfies leaf (the shape of one
// pinned finding). Any other difference - an unknown or non-empty map of the wrong type, a wrong
// primitive, a missing attribute ... - is not explained. *n counts the places accepted by leaf.
func explainedBy(v cty.Value, want cty.Type, leaf func(cty.Value, cty.Type) bool, n *int) bool {
	v, _ = v.Unmark()
	vt := v.Type()
	if len(vt.TestConformance(want)) == 0 {
		return true
	}
	if leaf(v, want) {
		*n++
		return true
	}
	if !v.IsKnown() || v.IsNull() {
		return false
	}
	switch {
	case vt.IsObjectType() && want.IsObjectType():
		for name, at := range want.AttributeTypes() {
			if !vt.HasAttribute(name) || !explainedBy(v.GetAttr(name), at, leaf, n) {
				return false
			}
		}
		return len(vt.AttributeTypes()) == len(want.AttributeTypes())
	case vt.IsTupleType() && want.IsTupleType():
		wts := want.TupleElementTypes()
		if len(wts) != v.LengthInt() {
			return false
		}
		for i, wt := range wts {
			if !explainedBy(v.Index(cty.NumberIntVal(int64(i))), wt, leaf, n) {
				return false
			}
		}
		return true
	case (vt.IsListType() && want.IsListType()) || (vt.IsSetType() && want.IsSetType()) || (vt.IsMapType() && want.IsMapType()):
		if v.LengthInt() == 0 {
			return false
		}
		for it := v.ElementIterator(); it.Next(); {
			_, ev := it.Element()
			if !explainedBy(ev, want.ElementType(), leaf, n) {
				return false
			}
		}
		return true
	}
	return false
}

func explainedByEmptyMap(v cty.Value, want cty.Type) bool {
	n := 0
	return explainedBy(v, want, mistypedEmptyMap, &n) && n > 0
}

// explainedByDynamic: every non-conforming place is a DynamicVal where a list/set is wanted.
func explainedByDynamic(v cty.Value, want cty.Type) bool {
	n := 0
	return explainedBy(v, want, dynamicForCollection, &n) && n > 0
}

func explainedByBoth(v cty.Value, want cty.Type, looseList bool) bool {
	n, m := 0, 0
	return explainedBy(v, want, func(x cty.Value, w cty.Type) bool {
		// (a DynamicVal for a list/set of a STATIC element type counts only when looseList says that a
		// list site of this body has block values that differ by mistyped empty maps)
		if dynamicForCollection(x, w) || looseList && dynamicForCollectionLoose(x, w) {
			m++
			return true
		}
		return mistypedEmptyMap(x, w)
	}, &n) && m > 0
}

func dynamicForCollectionLoose(v cty.Value, want cty.Type) bool {
	return v.Type() == cty.DynamicPseudoType && !v.IsKnown() && (want.IsListType() || want.IsSetType())
}

// listAtEmptyMapSite: some BlockListSpec / BlockSetSpec site of the body has blocks whose separately
// decoded values differ from the implied type by mistyped empty maps only (so their types cannot be
// unified and the list comes back as DynamicVal: the second pinned shape caused by the first).
func listAtEmptyMapSite(spec hcldec.Spec, body hcl.Body, ctx *hcl.EvalContext) bool {
	var sites []emSite
	emptyMapSites(spec, body, ctx, &sites, 8)
	for _, st := range sites {
		if !st.isMap {
			return true
		}
	}
	return false
}

func countSummary(d hcl.Diagnostics, prefix string) int {
	n := 0
	for _, x := range d {
		if x.Severity == hcl.DiagError && strings.HasPrefix(x.Summary, prefix) {
			n++
		}
	}
	return n
}

// ---- where a mistyped empty map meets a correctly typed one --------------------------------------
//
// The two consequences of the multi-label BlockMapSpec finding are recognised by locating their SITE on
// the real code: the spec is walked along the body; at every BlockMapSpec (resp. BlockListSpec /
// BlockSetSpec) the blocks of its type are decoded ONE AT A TIME with that very spec. The site is
// explained by the finding when every such value differs from the spec's implied type by mistyped empty
// maps only (explainedBy mistypedEmptyMap) and at least one does.

type blocksBody struct {
	blocks hcl.Blocks
	rng    hcl.Range
}

func (b blocksBody) Content(s *hcl.BodySchema) (*hcl.BodyContent, hcl.Diagnostics) {
	c, _, d := b.PartialContent(s)
	return c, d
}
func (b blocksBody) PartialContent(s *hcl.BodySchema) (*hcl.BodyContent, hcl.Body, hcl.Diagnostics) {
	return &hcl.BodyContent{Attributes: hcl.Attributes{}, Blocks: b.blocks, MissingItemRange: b.rng}, blocksBody{rng: b.rng}, nil
}
func (b blocksBody) JustAttributes() (hcl.Attributes, hcl.Diagnostics) { return hcl.Attributes{}, nil }
func (b blocksBody) MissingItemRange() hcl.Range                       { return b.rng }

type emSite struct {
	typeName string
	isMap    bool
	depth    int        // number of labels (maps) of a BlockMapSpec, 1 for lists/sets
	types    []cty.Type // types of the separately decoded blocks (each the whole map/list of one block)
}

func emptyMapSites(root hcldec.Spec, body hcl.Body, ctx *hcl.EvalContext, out *[]emSite, fuel int) {
	if fuel <= 0 {
		return
	}
	var content *hcl.BodyContent
	func() {
		defer func() { recover() }()
		content, _, _ = body.PartialContent(hcldec.ImpliedSchema(root))
	}()
	if content == nil {
		return
	}
	blocksOf := func(name string) hcl.Blocks {
		var bs hcl.Blocks
		for _, b := range content.Blocks {
			if b.Type == name {
				bs = append(bs, b)
			}
		}
		return bs
	}
	site := func(s hcldec.Spec, name string, isMap bool, depth int) {
		bs := blocksOf(name)
		if len(bs) >= 2 {
			ity, p := impliedSafe(s)
			st := emSite{typeName: name, isMap: isMap, depth: depth}
			ok, some := !p, false
			for _, b := range bs {
				o := decodeSafe(blocksBody{blocks: hcl.Blocks{b}, rng: b.DefRange}, s, ctx, false)
				// (the other pinned shape, a DynamicVal for an un-unifiable list/set, may occur next to it)
				n, m := 0, 0
				if o.panicked || !explainedBy(o.val, ity, func(x cty.Value, w cty.Type) bool {
					if mistypedEmptyMap(x, w) {
						m++
						return true
					}
					// (inside a site the list may also come back as DynamicVal BECAUSE its blocks
					// differ by mistyped empty maps; the site counts only if such a map is present)
					return dynamicForCollectionLoose(x, w)
				}, &n) {
					ok = false
					break
				}
				some = some || m > 0
				uv, _ := o.val.Unmark()
				st.types = append(st.types, uv.Type())
			}
			if ok && some {
				*out = append(*out, st)
			}
		}
	}
	descend := func(name string, nested hcldec.Spec) {
		for _, b := range blocksOf(name) {
			emptyMapSites(nested, b.Body, ctx, out, fuel-1)
		}
	}
	var visit func(s hcldec.Spec)
	visit = func(s hcldec.Spec) {
		switch s := s.(type) {
		case hcldec.ObjectSpec:
			for _, k := range s {
				visit(k)
			}
		case hcldec.TupleSpec:
			for _, k := range s {
				visit(k)
			}
		case *hcldec.DefaultSpec:
			visit(s.Primary)
			visit(s.Default)
		case *hcldec.TransformExprSpec:
			visit(s.Wrapped)
		case *hcldec.TransformFuncSpec:
			visit(s.Wrapped)
		case *hcldec.RefineValueSpec:
			visit(s.Wrapped)
		case *hcldec.ValidateSpec:
			visit(s.Wrapped)
		case *hcldec.BlockSpec:
			descend(s.TypeName, s.Nested)
		case *hcldec.BlockTupleSpec:
			descend(s.TypeName, s.Nested)
		case *hcldec.BlockObjectSpec:
			descend(s.TypeName, s.Nested)
		case *hcldec.BlockListSpec:
			site(s, s.TypeName, false, 1)
			descend(s.TypeName, s.Nested)
		case *hcldec.BlockSetSpec:
			site(s, s.TypeName, false, 1)
			descend(s.TypeName, s.Nested)
		case *hcldec.BlockMapSpec:
			site(s, s.TypeName, true, len(s.LabelNames))
			descend(s.TypeName, s.Nested)
		}
	}
	visit(root)
}

// panicAtEmptyMapSite: the panic is cty.MapVal's "inconsistent map element types (A then B)" and A, B
// are the (element) types of two blocks of ONE BlockMapSpec site explained by the finding.
func panicAtEmptyMapSite(spec hcldec.Spec, body hcl.Body, ctx *hcl.EvalContext, pmsg string) bool {
	var sites []emSite
	emptyMapSites(spec, body, ctx, &sites, 8)
	for _, st := range sites {
		if !st.isMap {
			continue
		}
		var cands []cty.Type
		for _, t := range st.types {
			for k := 0; k < st.depth && t.IsMapType(); k++ {
				t = t.ElementType()
				cands = append(cands, t)
			}
		}
		for _, a := range cands {
			for _, b := range cands {
				if !a.Equals(b) && pmsg == fmt.Sprintf("inconsistent map element types (%#v then %#v)", a, b) {
					return true
				}
			}
		}
	}
	return false
}

// rejectedAtEmptyMapSites: every error is BlockListSpec/BlockSetSpec's "Unconsistent argument types in
// T blocks" for a list/set site T explained by the finding.
func rejectedAtEmptyMapSites(spec hcldec.Spec, body hcl.Body, ctx *hcl.EvalContext, diags hcl.Diagnostics) bool {
	var sites []emSite
	emptyMapSites(spec, body, ctx, &sites, 8)
	names := map[string]bool{}
	for _, st := range sites {
		if !st.isMap {
			names["Unconsistent argument types in "+st.typeName+" blocks"] = true
		}
	}
	n := 0
	for _, d := range diags {
		if d.Severity != hcl.DiagError {
			continue
		}
		if !names[d.Summary] {
			return false
		}
		n++
	}
	return n > 0
}

func findSpec(s *gspec, pred func(*gspec) bool) bool {
	if pred(s) {
		return true
	}
	for _, k := range s.Kids {
		if findSpec(k, pred) {
			return true
		}
	}
	return false
}

// ---- hand corpus ------------------------------------------------------------------------------

func corpus() []job {
	str, num, dynT := tyJSON(cty.String), tyJSON(cty.Number), tyJSON(cty.DynamicPseudoType)
	attr := func(n, t string, req bool) *gspec { return &gspec{Kind: "attr", Name: n, Type: t, Req: req} }
	obj := func(kv ...interface{}) *gspec {
		o := &gspec{Kind: "object"}
		for i := 0; i < len(kv); i += 2 {
			o.Keys = append(o.Keys, kv[i].(string))
			o.Kids = append(o.Kids, kv[i+1].(*gspec))
		}
		return o
	}
	lbl := func(i int) *gspec { return &gspec{Kind: "blocklabel", Index: i, Name: fmt.Sprintf("n%d", i)} }
	lit := func(v cty.Value) *gspec { return &gspec{Kind: "literal", Lit: litJSON(v)} }
	dynObj := obj("a", attr("a", dynT, false))
	map2 := &gspec{Kind: "blockmap", Name: "i", Labels: []string{"x", "y"}, Kids: []*gspec{attr("a", str, false)}}
	j := func(s *gspec, body string, dyn bool) job {
		return job{in: input{Spec: s, Body: body, Dyn: dyn}, pert: "corpus"}
	}
	return []job{
		j(obj("a", attr("a", str, true), "b", attr("b", num, false)), "a = \"x\"\nb = 2\n", false),
		j(obj("a", attr("a", str, true), "b", attr("b", num, false)), "", false),
		j(obj("a", attr("a", str, true)), "a = [1]\nzz = 1\nq {\n}\n", false),
		// finding 12: un-unifiable element types
		j(&gspec{Kind: "blocklist", Name: "b", Kids: []*gspec{dynObj}}, "b {\n  a = \"x\"\n}\nb {\n  a = [1]\n}\n", false),
		j(&gspec{Kind: "blockset", Name: "b", Kids: []*gspec{dynObj}}, "b {\n  a = \"x\"\n}\nb {\n  a = [1]\n}\n", false),
		j(&gspec{Kind: "blocklist", Name: "b", Kids: []*gspec{dynObj}}, "b {\n  a = \"x\"\n}\nb {\n  a = 1\n}\n", false),
		j(&gspec{Kind: "blocklist", Name: "b", Kids: []*gspec{dynObj}}, "b {\n  a = \"x\"\n}\nb {\n  a = \"y\"\n}\n", false),
		// element types differing only by a nested dynamic part: cty.ListVal/SetVal panic
		j(&gspec{Kind: "blocklist", Name: "b", Kids: []*gspec{dynObj}}, "b {\n  a = [\"x\"]\n}\nb {\n}\n", false),
		j(&gspec{Kind: "blockset", Name: "b", Kids: []*gspec{dynObj}}, "b {\n  a = {k = 1}\n}\nb {\n}\n", false),
		j(&gspec{Kind: "blocklist", Name: "b", Kids: []*gspec{dynObj}}, "b {\n  a = \"x\"\n}\nb {\n}\n", false),
		// a bare dynamic attribute: number, bool and an absent one "unify" to dynamic; tuple + absent: all unknown
		j(&gspec{Kind: "blocklist", Name: "b", Kids: []*gspec{attr("a", dynT, false)}}, "b {\n  a = 1\n}\nb {\n  a = true\n}\nb {\n}\n", false),
		j(&gspec{Kind: "blocklist", Name: "b", Kids: []*gspec{attr("a", dynT, false)}}, "b {\n  a = [1]\n}\nb {\n}\n", false),
		j(&gspec{Kind: "blockset", Name: "b", Kids: []*gspec{attr("a", dynT, false)}}, "b {\n  a = [1]\n}\nb {\n}\n", false),
		// a set of blocks that hold a set of blocks: two blocks whose inner sets have the same members (in another
		// order, repeated another number of times) are ONE element of the outer set (thorough run, case 6360)
		j(&gspec{Kind: "blockset", Name: "b", Kids: []*gspec{obj("body", &gspec{Kind: "blockset", Name: "c", Min: 1, Kids: []*gspec{attr("a", num, false)}}, "l0", lbl(0))}},
			"b \"k\" {\n  c {\n  }\n  c {\n  }\n  c {\n    a = 1\n  }\n}\nb \"k\" {\n  c {\n    a = 1\n  }\n  c {\n  }\n}\n", false),
		// multi-label map, nothing present
		j(map2, "", false),
		j(map2, "i \"p\" \"q\" {\n  a = \"1\"\n}\ni \"p\" \"r\" {\n  a = \"2\"\n}\ni \"s\" \"r\" {\n}\n", false),
		j(map2, "i \"p\" \"q\" {\n  a = \"1\"\n}\ni \"p\" \"q\" {\n  a = \"2\"\n}\n", false),
		j(&gspec{Kind: "blockmap", Name: "o", Labels: []string{"k"}, Kids: []*gspec{map2}},
			"o \"k1\" {\n  i \"p\" \"q\" {\n    a = \"1\"\n  }\n}\no \"k2\" {\n}\n", false),
		j(&gspec{Kind: "blocklist", Name: "o", Kids: []*gspec{map2}},
			"o {\n  i \"p\" \"q\" {\n    a = \"1\"\n  }\n}\no {\n}\n", false),
		// BlockAttrs with a dynamic element type
		j(&gspec{Kind: "blockattrs", Name: "b", Type: dynT}, "b {\n  x = 1\n  y = \"s\"\n}\n", false),
		j(&gspec{Kind: "blockattrs", Name: "b", Type: dynT}, "b {\n  x = 1\n  y = 2\n}\n", false),
		j(&gspec{Kind: "blockattrs", Name: "b", Type: str, Req: true}, "b {\n  x = 1\n  y = [2]\n  inner {\n  }\n}\nb {\n}\n", false),
		// labels
		j(&gspec{Kind: "blocklist", Name: "b", Kids: []*gspec{obj("l0", lbl(0), "l1", lbl(1), "a", attr("a", str, false))}},
			"b \"p\" \"q\" {\n  a = \"1\"\n}\nb \"p\" {\n}\nb \"p\" \"q\" \"r\" {\n}\n", false),
		j(&gspec{Kind: "blockobject", Name: "b", Labels: []string{"x", "y"}, Kids: []*gspec{obj("l", lbl(0), "a", attr("a", dynT, false))}},
			"b \"p\" \"q\" \"z\" {\n  a = 1\n}\nb \"p\" \"r\" \"z\" {\n  a = \"s\"\n}\n", false),
		// the same required attribute asked for twice
		j(&gspec{Kind: "default", Kids: []*gspec{attr("a", num, true), lit(cty.NumberIntVal(2))}}, "a = 1\n", false),
		j(&gspec{Kind: "default", Kids: []*gspec{attr("a", str, false), attr("b", str, true)}}, "b = \"d\"\n", false),
		j(&gspec{Kind: "default", Kids: []*gspec{attr("a", str, false), lit(cty.StringVal("d"))}}, "a = v_null\n", false),
		// min / max
		j(&gspec{Kind: "blocktuple", Name: "b", Min: 1, Max: 2, Kids: []*gspec{lit(cty.True)}}, "b {\n}\nb {\n}\nb {\n}\n", false),
		j(&gspec{Kind: "blocktuple", Name: "b", Min: 1, Max: 2, Kids: []*gspec{lit(cty.True)}}, "b {\n}\nb {\n}\n", false),
		j(&gspec{Kind: "blocklist", Name: "b", Min: 2, Kids: []*gspec{lit(cty.True)}}, "b {\n}\n", false),
		// transforms, validation, refinement
		j(&gspec{Kind: "transformfunc", Func: "upper", Kids: []*gspec{attr("a", str, false)}}, "a = \"abc\"\n", false),
		j(&gspec{Kind: "transformfunc", Func: "upper", Kids: []*gspec{attr("a", str, false)}}, "a = v_unk\n", false),
		j(&gspec{Kind: "transformfunc", Func: "upper", Kids: []*gspec{attr("a", str, false)}}, "", false),
		j(&gspec{Kind: "transformfunc", Func: "fail", Kids: []*gspec{attr("a", str, false)}}, "a = \"abc\"\n", false),
		j(&gspec{Kind: "transformexpr", Name: "v", Expr: "[v]", Kids: []*gspec{attr("a", dynT, false)}}, "a = 1\n", false),
		j(&gspec{Kind: "refine", Func: "notnull", Kids: []*gspec{{Kind: "validate", Func: "notnull", Kids: []*gspec{attr("a", str, false)}}}}, "a = v_unk_str\n", false),
		j(&gspec{Kind: "refine", Func: "notnull", Kids: []*gspec{{Kind: "validate", Func: "notnull", Kids: []*gspec{attr("a", str, false)}}}}, "", false),
		// dynblock: unknown, marked, known, empty for_each
		j(&gspec{Kind: "blocklist", Name: "b", Kids: []*gspec{obj("a", attr("a", str, false))}},
			"dynamic \"b\" {\n  for_each = v_unk_list\n  content {\n    a = \"x\"\n  }\n}\n", true),
		j(&gspec{Kind: "blockmap", Name: "b", Labels: []string{"k"}, Kids: []*gspec{obj("a", attr("a", str, false))}},
			"b \"s\" {\n}\ndynamic \"b\" {\n  for_each = v_unk_mlist\n  labels = [\"x\"]\n  content {\n    a = \"x\"\n  }\n}\n", true),
		j(&gspec{Kind: "blockset", Name: "b", Kids: []*gspec{obj("a", attr("a", str, false))}},
			"dynamic \"b\" {\n  for_each = v_marked_list\n  content {\n    a = \"x\"\n  }\n}\n", true),
		j(&gspec{Kind: "blocktuple", Name: "b", Kids: []*gspec{obj("a", attr("a", str, false), "n", &gspec{Kind: "block", Name: "c", Kids: []*gspec{attr("z", num, false)}})}},
			"dynamic \"b\" {\n  for_each = v_marked_list\n  content {\n    a = v_str\n    c {\n      z = 1\n    }\n  }\n}\n", true),
		j(&gspec{Kind: "block", Name: "b", Kids: []*gspec{obj("a", attr("a", num, false))}},
			"dynamic \"b\" {\n  for_each = v_unk_list\n  content {\n    a = 1\n  }\n}\n", true),
		j(&gspec{Kind: "blockobject", Name: "b", Labels: []string{"k"}, Kids: []*gspec{attr("a", str, false)}},
			"dynamic \"b\" {\n  for_each = v_empty\n  labels = [\"x\"]\n  content {\n  }\n}\n", true),
	}
}

// ---- the run ----------------------------------------------------------------------------------

func run(cfg *hv.RunCfg) error {
	rep := hv.NewReport("C08", cfg.Seed)
	rep.Rule = "spec trees drawn from all 18 spec kinds within the documented preconditions (unique block types per body level, consecutive label indices, no dynamic types under BlockMap, Default arms of equal type, Refine over a validator); per spec a conforming native-syntax body written by the generator (which also writes down the value it expects) and one perturbed variant (19 perturbations incl. dynblock unknown/marked/known/empty for_each); plus a stream violating one precondition at a time (observed for panics only); plus, in ~10 % of the cases, a conforming body (native or JSON syntax) in which one or two attribute EXPRESSIONS fail to evaluate or convert (expr-fails: 12 sorts, any depth, next to a normal sibling block, the attribute's spec under every wrapper kind); non-trivial = spec has at least one block or wrapper spec or the body is perturbed; distinct by SHA-256 of (spec, body, dyn)"
	r := hv.NewRng(cfg.Seed, 808)
	ctx := baseCtx()
	hdr := &hv.ValInfo{}
	cf := &hv.CaseFile{Dir: cfg.Out, Name: "c08cases",
		Imports: "From Coq Require Import QArith String.\nFrom HclV Require Import Base.Prelude Cty.Values Cty.Convert Cty.Ops Eval.Impl Eval.Funcs Dec.Spec Dec.Decode Dec.DecodeCheck.\nOpen Scope string_scope.\nOpen Scope Z_scope.\nOpen Scope list_scope.\n(* traversal steps inside expressions are printed as SAttr/SIndex: the bare name is the step constructor of Eval/Impl.v, the AttrSpec constructor is printed qualified *)\nNotation SAttr := HclV.Eval.Impl.SAttr (only parsing).\nDefinition cx : ctx := " + hv.CoqCtx(ctx, hdr) + ".\n",
		Ctype:   "dcase", Checker: "check_decode_cases",
		Extras: [][2]string{{"skipped", "skipped_decode_cases"}, {"noted", "noted_decode_cases"}}}

	var jobs []job
	if cfg.Replay != "" {
		b, err := os.ReadFile(cfg.Replay)
		if err != nil {
			return err
		}
		var in input
		if err := json.Unmarshal(b, &in); err != nil {
			return fmt.Errorf("replay file is not a C08 input: %v", err)
		}
		jobs = append(jobs, job{in: in, pert: "replay"})
	} else {
		jobs = append(jobs, corpus()...)
		jobs = append(jobs, exprFailCorpus()...)
		g := newGen(r)
		// the expr-fails stream draws from its own generator, so that the other streams stay as they were
		rf := hv.NewRng(cfg.Seed, 809)
		wantFail := 0
		g2 := newGen(rf)
		exprFailJob := func(s *gspec, plan *pbody) (job, bool) {
			asJSON, heavy := rf.Chance(0.4), false
			if rf.Chance(0.5) {
				// half of the stream: a spec of its own with a collection block at the top
				if s2, p2, ok := g2.blockHeavy(ctx); ok {
					s, plan, heavy = s2, p2, true
				}
			}
			p, tags, names, ok := exprFails(plan, rf, ctx, asJSON)
			if !ok {
				return job{}, false
			}
			if heavy {
				tags = append(tags, "exprfail-spec:block-heavy")
			}
			s2 := wrapFailing(s, names, rf, false, false, rf.Chance(0.15), &tags)
			in := input{Spec: s2, Body: p.text()}
			if asJSON {
				in.Body, in.JSON = p.jsonText(), true
			}
			return job{in: in, pert: "expr-fails", tags: tags}, true
		}
		for i := 0; i < cfg.N; i++ {
			if i%10 == 4 {
				wantFail++
			}
			if i%12 == 11 {
				s, which := g.violatingSpec()
				body := &pbody{}
				func() {
					defer func() { recover() }()
					g.genInto(s, body, nil, ctx)
				}()
				if which == "block-type-label-conflict" {
					body = &pbody{Blocks: []*pblock{{Type: "b1", Body: &pbody{}}}}
				}
				if which == "refine-unguarded" && g.r.Chance(0.7) {
					body = &pbody{}
				}
				jobs = append(jobs, job{in: input{Spec: s, Body: body.text()}, pert: "precondition:" + which, violate: true})
				continue
			}
			s := g.topSpec()
			plan := &pbody{}
			exp := g.genInto(s, plan, nil, ctx)
			if wantFail > 0 && i%2 == 0 {
				// ~10 % of the cases: an erroneous expression in an otherwise conforming body (taken from
				// the slots of the conforming stream, which draw nothing more from r: the other streams
				// are what they were before this stream existed)
				if j, ok := exprFailJob(s, plan); ok {
					wantFail--
					jobs = append(jobs, j)
					continue
				}
			}
			if i%2 == 0 {
				jobs = append(jobs, job{in: input{Spec: s, Body: plan.text()}, pert: "conforming", exp: exp})
				continue
			}
			// a perturbed variant: try perturbations in random order until one applies
			// (the two that always apply are tried last unless drawn first on purpose)
			var order, last []int
			for _, pi := range r.Perm(len(perturbations)) {
				if strings.HasPrefix(perturbations[pi], "extra-") && !r.Chance(0.08) {
					last = append(last, pi)
				} else {
					order = append(order, pi)
				}
			}
			order = append(order, last...)
			done := false
			for _, pi := range order {
				if p, ok := g.perturb(plan, perturbations[pi]); ok {
					jobs = append(jobs, job{in: input{Spec: s, Body: p.text(), Dyn: p.hasDynamic()}, pert: perturbations[pi]})
					done = true
					break
				}
			}
			if !done {
				jobs = append(jobs, job{in: input{Spec: s, Body: plan.text()}, pert: "conforming", exp: exp})
			}
		}
	}

	for _, j := range jobs {
		runJob(j, ctx, rep, cf)
	}
	names, err := cf.Flush(100)
	if err != nil {
		return err
	}
	rep.CaseFiles = names
	return rep.Write(cfg.Out)
}

func runJob(j job, ctx *hcl.EvalContext, rep *hv.Report, cf *hv.CaseFile) {
	in := j.in
	key := in.String()
	kinds := map[string]bool{}
	in.Spec.kinds(kinds)
	var syn *hclsyntax.Body
	var body hcl.Body
	if in.JSON {
		jf, pd := hcljson.Parse([]byte(in.Body), "t.hcl.json")
		if pd.HasErrors() || in.Dyn {
			rep.Hist("generator:body-parse-error")
			rep.Evaluations++
			return
		}
		body = jf.Body
	} else {
		f, pd := hclsyntax.ParseConfig([]byte(in.Body), "t.hcl", hcl.InitialPos)
		if pd.HasErrors() {
			rep.Hist("generator:body-parse-error")
			rep.Evaluations++
			return
		}
		syn = f.Body.(*hclsyntax.Body)
		body = syn
		if in.Dyn {
			body = dynblock.Expand(syn, ctx)
		}
	}
	var spec hcldec.Spec
	func() {
		defer func() {
			if recover() != nil {
				spec = nil
			}
		}()
		spec = in.Spec.toGo()
	}()
	if spec == nil {
		rep.Hist("generator:bad-spec")
		rep.Evaluations++
		return
	}
	ity, ityPanic := impliedSafe(spec)
	full := decodeSafe(body, spec, ctx, false)
	part := decodeSafe(body, spec, ctx, true)

	nontrivial := j.pert != "conforming" && j.pert != "corpus"
	for k := range kinds {
		switch k {
		case "attr", "literal", "object", "tuple", "expr":
		default:
			nontrivial = true
		}
	}
	rep.Count(key, nontrivial)
	rep.Hist("stream:" + strings.SplitN(j.pert, ":", 2)[0])
	rep.Hist("pert:" + j.pert)
	for _, k := range sortedKinds(kinds) {
		rep.Hist("kind:" + k)
		rep.Hist("kind×pert:" + k + "×" + j.pert)
	}
	if in.Dyn {
		rep.Hist("body:dynblock-expanded")
	}
	if in.JSON {
		rep.Hist("body:json-syntax")
	}
	for _, t := range j.tags {
		rep.Hist(t)
	}
	if j.pert == "expr-fails" {
		if in.JSON {
			rep.Hist("exprfail-syntax:json")
		} else {
			rep.Hist("exprfail-syntax:native")
		}
	}
	switch {
	case full.panicked:
		rep.Hist("result:panic")
	case full.errs > 0:
		rep.Hist("result:errors")
	case !full.val.IsWhollyKnown():
		rep.Hist("result:ok-with-unknowns")
	default:
		rep.Hist("result:ok")
	}
	if len(in.Body) < 120 {
		rep.Sample(map[string]string{"spec": in.Spec.String(), "body": in.Body, "stream": j.pert})
	}

	// ---- direct oracle ------------------------------------------------------------------
	fail := func(kind, detail string) {
		rep.Hist("oracle-fail:" + kind)
		rep.Fail(hv.Failure{Kind: kind, Detail: detail, Input: key,
			Extra: map[string]string{"spec": in.Spec.String(), "body": in.Body, "stream": j.pert}})
	}
	if j.violate {
		if full.panicked || part.panicked || ityPanic {
			rep.Hist("precondition-violated:" + j.pert + ":panic")
		} else {
			rep.Hist("precondition-violated:" + j.pert + ":no-panic")
		}
	} else {
		if ityPanic {
			fail("panic", "ImpliedType panicked")
		}
		for _, o := range []struct {
			name string
			o    outcome
		}{{"Decode", full}, {"PartialDecode", part}} {
			if o.o.panicked {
				kind := "panic"
				switch {
				case strings.HasPrefix(o.o.pmsg, "inconsistent map element types") && kinds["blockmap(multi-label)"] &&
					panicAtEmptyMapSite(spec, body, ctx, o.o.pmsg):
					// decided by the exact site and the exact two types of the message, so it goes first
					kind = "panic-blockmap-multilabel-empty-nested"
				case strings.Contains(o.o.pmsg, "inconsistent map element types") &&
					findSpec(in.Spec, func(s *gspec) bool { return s.Kind == "blockattrs" && tyOf(s.Type).HasDynamicTypes() }):
					kind = "panic-blockattrs-dynamic-element-type"
				case strings.Contains(o.o.pmsg, "inconsistent list element types") || strings.Contains(o.o.pmsg, "inconsistent set element types"):
					kind = "panic-blocklist-nested-dynamic"
				}
				fail(kind, o.name+" panicked: "+o.o.pmsg)
				break
			}
			if errs := o.o.val.Type().TestConformance(ity); len(errs) > 0 {
				kind := "type-not-conforming"
				// a known kind only when EVERY non-conforming place has the shape of that finding
				nUn := countSummary(o.o.diags, "Unconsistent argument types in ")
				switch {
				case nUn > 0 && explainedByDynamic(o.o.val, ity):
					kind = "blocklist-dynamic-ununifiable"
				case kinds["blockmap(multi-label)"] && explainedByEmptyMap(o.o.val, ity):
					kind = "blockmap-multilabel-empty-type"
				case nUn > 0 && kinds["blockmap(multi-label)"] && explainedByBoth(o.o.val, ity, listAtEmptyMapSite(spec, body, ctx)):
					kind = "blocklist-dynamic-ununifiable" // both pinned shapes in one value
				}
				fail(kind, fmt.Sprintf("%s returned %#v; implied type %#v: %v", o.name, o.o.val.Type(), ity, errs[0]))
				break
			}
		}
		// the implied type read off the harness's own spec tree (the documentation of each spec kind),
		// not hcldec.ImpliedType: the two must agree, and where the promised type has no dynamic part
		// the decoded value's type must EQUAL it
		if own, ok := ownImplied(in.Spec); ok && !ityPanic {
			if !own.Equals(ity) {
				fail("implied-type-differs", fmt.Sprintf("ImpliedType returned %#v; the documentation of the spec kinds says %#v", ity, own))
			} else if !own.HasDynamicTypes() {
				for _, o := range []struct {
					name string
					o    outcome
				}{{"Decode", full}, {"PartialDecode", part}} {
					if o.o.panicked || len(o.o.val.Type().TestConformance(ity)) > 0 {
						continue // reported above
					}
					if !o.o.val.Type().Equals(own.WithoutOptionalAttributesDeep()) {
						fail("type-not-equal", fmt.Sprintf("%s returned %#v; implied type %#v has no dynamic part", o.name, o.o.val.Type(), own))
						break
					}
				}
			}
		}
		if !full.panicked && !part.panicked {
			if !full.val.RawEquals(part.val) {
				fail("partial-vs-full-differs", fmt.Sprintf("Decode %#v, PartialDecode %#v", full.val, part.val))
			} else if part.errs > full.errs {
				fail("partial-vs-full-differs", fmt.Sprintf("PartialDecode reports %d errors, Decode %d", part.errs, full.errs))
			}
		}
		if j.pert == "conforming" && !full.panicked {
			switch {
			case full.errs > 0 && !j.exp.errExp && j.exp.ok:
				kind := "conforming-body-rejected"
				if kinds["blockmap(multi-label)"] && rejectedAtEmptyMapSites(spec, body, ctx, full.diags) {
					// the mistyped empty map of a multi-label BlockMapSpec next to a
					// non-empty one under a BlockList/BlockSet: element types differ
					kind = "blockmap-multilabel-empty-type"
				}
				fail(kind, fmt.Sprintf("Decode reports: %v", full.diags))
			case full.errs == 0 && j.exp.ok && !j.exp.errExp:
				if !full.val.RawEquals(j.exp.val) {
					kind := "value-differs"
					if kinds["blockmap(multi-label)"] && emptyMapTypeDiff(full.val, j.exp.val) {
						kind = "blockmap-multilabel-empty-type"
					}
					fail(kind, fmt.Sprintf("Decode %#v, the body says %#v", full.val, j.exp.val))
				} else {
					rep.Hist("oracle:value-as-written")
				}
			default:
				rep.Hist("oracle:no-expectation")
			}
		}
	}

	// ---- the Coq case --------------------------------------------------------------------
	info := &hv.ValInfo{}
	d := &dumper{ctx: ctx, dyn: in.Dyn, info: info}
	var ab string
	if in.JSON {
		ab = d.jsonBody(body, []*gspec{in.Spec})
	} else {
		ab = d.body(syn, nil, nil, false)
	}
	sc := in.Spec.toCoq(info)
	fv := hv.CoqVal(full.val, info)
	pv := hv.CoqVal(part.val, info)
	mode := 0
	if info.Inexact {
		mode = 1
		rep.Hist("mode:type-only(inexact number)")
	}
	if info.Unsupported || d.bad != "" || ityPanic {
		mode = 2
		rep.Hist("mode:skipped(outside the model's universe)")
	}
	cf.Add(fmt.Sprintf("mkDCase %s\n %s\n cx %d %s\n %s %s %s\n %s %s %s",
		sc, ab, mode, hv.CoqType(ity),
		fv, hv.CoqBool(full.errs > 0), hv.CoqBool(full.panicked),
		pv, hv.CoqBool(part.errs > 0), hv.CoqBool(part.panicked)))
	rep.Idx(key)
}
