package main

// gspec: the harness's own representation of an hcldec spec tree, from which
// the Go hcldec.Spec, the Coq term (Dec/Spec.v) and the replay JSON are made.

import (
	"fmt"
	"sort"
	"strings"

	"github.com/hashicorp/hcl/v2"
	"github.com/hashicorp/hcl/v2/hcldec"
	"github.com/hashicorp/hcl/v2/hclsyntax"
	"github.com/zclconf/go-cty/cty"
	"github.com/zclconf/go-cty/cty/function"
	ctyjson "github.com/zclconf/go-cty/cty/json"
	"hclverif/hv"
)

type gspec struct {
	Kind   string   `json:"k"`
	Name   string   `json:"n,omitempty"` // attribute name / block type / label name / variable name
	Type   string   `json:"t,omitempty"` // cty type (JSON) of AttrSpec.Type / BlockAttrsSpec.ElementType
	Req    bool     `json:"req,omitempty"`
	Min    int      `json:"min,omitempty"`
	Max    int      `json:"max,omitempty"`
	Labels []string `json:"labels,omitempty"`
	Index  int      `json:"idx,omitempty"`
	Keys   []string `json:"keys,omitempty"` // ObjectSpec keys, parallel to Kids
	Kids   []*gspec `json:"kids,omitempty"` // object/tuple members; nested = Kids[0]; default = primary, default; wrappers = wrapped
	Lit    string   `json:"lit,omitempty"`  // LiteralSpec value (typed JSON)
	Expr   string   `json:"expr,omitempty"` // ExprSpec / TransformExprSpec expression text
	Func   string   `json:"fn,omitempty"`   // function / validator / refiner name
	NilCtx bool     `json:"nilctx,omitempty"`
}

func tyJSON(t cty.Type) string {
	b, err := t.MarshalJSON()
	if err != nil {
		panic(err)
	}
	return string(b)
}
func tyOf(s string) cty.Type {
	t, err := ctyjson.UnmarshalType([]byte(s))
	if err != nil {
		panic(fmt.Sprintf("bad type %q: %v", s, err))
	}
	return t
}
func litJSON(v cty.Value) string {
	b, err := ctyjson.Marshal(v, cty.DynamicPseudoType)
	if err != nil {
		panic(err)
	}
	return string(b)
}
func litOf(s string) cty.Value {
	v, err := ctyjson.Unmarshal([]byte(s), cty.DynamicPseudoType)
	if err != nil {
		panic(fmt.Sprintf("bad literal %q: %v", s, err))
	}
	return v
}

func parseExpr(src string) hclsyntax.Expression {
	e, d := hclsyntax.ParseExpression([]byte(src), "spec.hcl", hcl.InitialPos)
	if d.HasErrors() {
		panic(fmt.Sprintf("bad expression %q: %v", src, d))
	}
	return e
}

func transformCtx(nilCtx bool) *hcl.EvalContext {
	if nilCtx {
		return nil
	}
	return &hcl.EvalContext{Functions: hv.HarnessFuncs}
}

var validators = map[string]func(cty.Value) hcl.Diagnostics{
	"notnull": func(v cty.Value) hcl.Diagnostics {
		if v.IsNull() {
			return hcl.Diagnostics{{Severity: hcl.DiagError, Summary: "Validation failed", Detail: "must not be null"}}
		}
		return nil
	},
	"never": func(v cty.Value) hcl.Diagnostics { return nil },
	"always": func(v cty.Value) hcl.Diagnostics {
		return hcl.Diagnostics{{Severity: hcl.DiagError, Summary: "Validation failed", Detail: "always"}}
	},
}

func refineNotNull(b *cty.RefinementBuilder) *cty.RefinementBuilder { return b.NotNull() }

func (s *gspec) nested() *gspec { return s.Kids[0] }

func (s *gspec) toGo() hcldec.Spec {
	switch s.Kind {
	case "object":
		m := hcldec.ObjectSpec{}
		for i, k := range s.Keys {
			m[k] = s.Kids[i].toGo()
		}
		return m
	case "tuple":
		t := hcldec.TupleSpec{}
		for _, k := range s.Kids {
			t = append(t, k.toGo())
		}
		return t
	case "attr":
		return &hcldec.AttrSpec{Name: s.Name, Type: tyOf(s.Type), Required: s.Req}
	case "literal":
		return &hcldec.LiteralSpec{Value: litOf(s.Lit)}
	case "expr":
		return &hcldec.ExprSpec{Expr: parseExpr(s.Expr)}
	case "block":
		return &hcldec.BlockSpec{TypeName: s.Name, Nested: s.nested().toGo(), Required: s.Req}
	case "blocklist":
		return &hcldec.BlockListSpec{TypeName: s.Name, Nested: s.nested().toGo(), MinItems: s.Min, MaxItems: s.Max}
	case "blocktuple":
		return &hcldec.BlockTupleSpec{TypeName: s.Name, Nested: s.nested().toGo(), MinItems: s.Min, MaxItems: s.Max}
	case "blockset":
		return &hcldec.BlockSetSpec{TypeName: s.Name, Nested: s.nested().toGo(), MinItems: s.Min, MaxItems: s.Max}
	case "blockmap":
		return &hcldec.BlockMapSpec{TypeName: s.Name, LabelNames: append([]string(nil), s.Labels...), Nested: s.nested().toGo()}
	case "blockobject":
		return &hcldec.BlockObjectSpec{TypeName: s.Name, LabelNames: append([]string(nil), s.Labels...), Nested: s.nested().toGo()}
	case "blockattrs":
		return &hcldec.BlockAttrsSpec{TypeName: s.Name, ElementType: tyOf(s.Type), Required: s.Req}
	case "blocklabel":
		return &hcldec.BlockLabelSpec{Index: s.Index, Name: s.Name}
	case "default":
		return &hcldec.DefaultSpec{Primary: s.Kids[0].toGo(), Default: s.Kids[1].toGo()}
	case "transformexpr":
		return &hcldec.TransformExprSpec{Wrapped: s.Kids[0].toGo(), Expr: parseExpr(s.Expr), TransformCtx: transformCtx(s.NilCtx), VarName: s.Name}
	case "transformfunc":
		return &hcldec.TransformFuncSpec{Wrapped: s.Kids[0].toGo(), Func: hv.HarnessFuncs[s.Func]}
	case "refine":
		return &hcldec.RefineValueSpec{Wrapped: s.Kids[0].toGo(), Refine: refineNotNull}
	case "validate":
		return &hcldec.ValidateSpec{Wrapped: s.Kids[0].toGo(), Func: validators[s.Func]}
	}
	panic("unknown spec kind " + s.Kind)
}

var _ function.Function

func coqStrList(xs []string) string {
	var parts []string
	for _, x := range xs {
		parts = append(parts, hv.CoqStr(x))
	}
	return hv.CoqList(parts)
}

// toCoq renders the spec as a term of Dec/Spec.v [spec].
func (s *gspec) toCoq(info *hv.ValInfo) string {
	switch s.Kind {
	case "object":
		idx := make([]int, len(s.Keys))
		for i := range idx {
			idx[i] = i
		}
		sort.Slice(idx, func(a, b int) bool { return s.Keys[idx[a]] < s.Keys[idx[b]] })
		var parts []string
		for _, i := range idx {
			parts = append(parts, "("+hv.CoqStr(s.Keys[i])+", "+s.Kids[i].toCoq(info)+")")
		}
		return "(SObject " + hv.CoqList(parts) + ")"
	case "tuple":
		var parts []string
		for _, k := range s.Kids {
			parts = append(parts, k.toCoq(info))
		}
		return "(STuple " + hv.CoqList(parts) + ")"
	case "attr":
		return fmt.Sprintf("(Dec.Spec.SAttr %s %s %s)", hv.CoqStr(s.Name), coqType(tyOf(s.Type), info), hv.CoqBool(s.Req))
	case "literal":
		return "(SLiteral " + hv.CoqVal(litOf(s.Lit), info) + ")"
	case "expr":
		return "(SExpr " + hv.CoqExpr(parseExpr(s.Expr), info) + ")"
	case "block":
		return fmt.Sprintf("(SBlock %s %s %s)", hv.CoqStr(s.Name), s.nested().toCoq(info), hv.CoqBool(s.Req))
	case "blocklist", "blocktuple", "blockset":
		c := map[string]string{"blocklist": "SBlockList", "blocktuple": "SBlockTuple", "blockset": "SBlockSet"}[s.Kind]
		return fmt.Sprintf("(%s %s %s %s %s)", c, hv.CoqStr(s.Name), s.nested().toCoq(info), hv.CoqZ(s.Min), hv.CoqZ(s.Max))
	case "blockmap", "blockobject":
		c := map[string]string{"blockmap": "SBlockMap", "blockobject": "SBlockObject"}[s.Kind]
		return fmt.Sprintf("(%s %s %s %s)", c, hv.CoqStr(s.Name), coqStrList(s.Labels), s.nested().toCoq(info))
	case "blockattrs":
		return fmt.Sprintf("(SBlockAttrs %s %s %s)", hv.CoqStr(s.Name), coqType(tyOf(s.Type), info), hv.CoqBool(s.Req))
	case "blocklabel":
		return fmt.Sprintf("(SBlockLabel %s %s)", hv.CoqZ(s.Index), hv.CoqStr(s.Name))
	case "default":
		return fmt.Sprintf("(SDefault %s %s)", s.Kids[0].toCoq(info), s.Kids[1].toCoq(info))
	case "transformexpr":
		return fmt.Sprintf("(STransformExpr %s %s %s %s)", s.Kids[0].toCoq(info), hv.CoqExpr(parseExpr(s.Expr), info), hv.CoqCtx(transformCtx(s.NilCtx), info), hv.CoqStr(s.Name))
	case "transformfunc":
		return fmt.Sprintf("(STransformFunc %s (tf_of_fn fn_%s))", s.Kids[0].toCoq(info), s.Func)
	case "refine":
		return fmt.Sprintf("(SRefine %s refiner_notnull)", s.Kids[0].toCoq(info))
	case "validate":
		return fmt.Sprintf("(SValidate %s vf_%s)", s.Kids[0].toCoq(info), s.Func)
	}
	panic("unknown spec kind " + s.Kind)
}

// coqType is hv.CoqType, flagging types outside the model's universe.
func coqType(t cty.Type, info *hv.ValInfo) string {
	if typeUnsupported(t) {
		info.Unsupported = true
	}
	return hv.CoqType(t)
}

func typeUnsupported(t cty.Type) bool {
	switch {
	case t.IsPrimitiveType(), t == cty.DynamicPseudoType:
		return false
	case t.IsCollectionType():
		return typeUnsupported(t.ElementType())
	case t.IsTupleType():
		for _, e := range t.TupleElementTypes() {
			if typeUnsupported(e) {
				return true
			}
		}
		return false
	case t.IsObjectType():
		if len(t.OptionalAttributes()) > 0 {
			return true
		}
		for _, e := range t.AttributeTypes() {
			if typeUnsupported(e) {
				return true
			}
		}
		return false
	}
	return true
}

// kinds lists every spec kind occurring in the tree.
func (s *gspec) kinds(into map[string]bool) {
	into[s.Kind] = true
	if s.Kind == "blockmap" && len(s.Labels) >= 2 {
		into["blockmap(multi-label)"] = true
	}
	for _, k := range s.Kids {
		k.kinds(into)
	}
}

// sameBodyKids mirrors visitSameBodyChildren.
func (s *gspec) sameBodyKids() []*gspec {
	switch s.Kind {
	case "object", "tuple", "default", "transformexpr", "transformfunc", "refine", "validate":
		return s.Kids
	}
	return nil
}

// labelCount mirrors len(findLabelSpecs(s)).
func (s *gspec) labelCount() int {
	max := -1
	var visit func(x *gspec)
	visit = func(x *gspec) {
		if x.Kind == "blocklabel" && x.Index > max {
			max = x.Index
		}
		for _, k := range x.sameBodyKids() {
			visit(k)
		}
	}
	visit(s)
	return max + 1
}

func (s *gspec) String() string {
	var b strings.Builder
	s.write(&b)
	return b.String()
}

func (s *gspec) write(b *strings.Builder) {
	b.WriteString(s.Kind)
	switch s.Kind {
	case "attr", "blockattrs":
		fmt.Fprintf(b, "(%s:%s req=%v)", s.Name, tyOf(s.Type).FriendlyName(), s.Req)
	case "literal":
		fmt.Fprintf(b, "(%s)", s.Lit)
	case "expr":
		fmt.Fprintf(b, "(%s)", s.Expr)
	case "blocklabel":
		fmt.Fprintf(b, "(%d)", s.Index)
	case "block":
		fmt.Fprintf(b, "(%s req=%v)", s.Name, s.Req)
	case "blocklist", "blocktuple", "blockset":
		fmt.Fprintf(b, "(%s %d..%d)", s.Name, s.Min, s.Max)
	case "blockmap", "blockobject":
		fmt.Fprintf(b, "(%s %v)", s.Name, s.Labels)
	case "transformexpr":
		fmt.Fprintf(b, "(%s: %s)", s.Name, s.Expr)
	case "transformfunc", "validate":
		fmt.Fprintf(b, "(%s)", s.Func)
	}
	if len(s.Kids) > 0 {
		b.WriteString("[")
		for i, k := range s.Kids {
			if i > 0 {
				b.WriteString(", ")
			}
			if s.Kind == "object" {
				b.WriteString(s.Keys[i] + "=")
			}
			k.write(b)
		}
		b.WriteString("]")
	}
}
