package main

// Abstract-body dump (Dec/Decode.v [abody]) of a parsed native-syntax body.  In
// dynblock mode the dump is the body AFTER the expansion of its "dynamic"
// blocks, as ext/dynblock presents it to hcldec:
//   - for_each unknown: one block whose body is an unknownBody — every attribute
//     evaluates to cty.DynamicVal carrying the marks of for_each, nested bodies
//     are unknown too;
//   - for_each known with n elements: n blocks with the content body, whose
//     attribute values (exprWrap) and body value (BodyValueMarks) carry the
//     marks of for_each; static blocks nested in the content inherit them.
// The generator never lets content refer to the iterator, uses constant labels
// and only puts dynamic blocks where the spec is a block/collection spec.

import (
	"fmt"
	"sort"

	"github.com/hashicorp/hcl/v2"
	"github.com/hashicorp/hcl/v2/hclsyntax"
	"github.com/zclconf/go-cty/cty"
	"hclverif/hv"
)

type dumper struct {
	ctx  *hcl.EvalContext
	dyn  bool
	info *hv.ValInfo
	bad  string // non-empty: the body uses something the dump does not handle
}

func (d *dumper) body(b *hclsyntax.Body, attrMarks, bodyMarks cty.ValueMarks, unknown bool) string {
	names := make([]string, 0, len(b.Attributes))
	for n := range b.Attributes {
		names = append(names, n)
	}
	sort.Slice(names, func(i, j int) bool {
		return b.Attributes[names[i]].SrcRange.Start.Byte < b.Attributes[names[j]].SrcRange.Start.Byte
	})
	var attrs []string
	for _, n := range names {
		a := b.Attributes[n]
		var e string
		if unknown {
			e = "AVal " + hv.CoqVal(cty.DynamicVal.WithMarks(attrMarks), d.info) + " false"
		} else {
			e = "AExpr " + hv.CoqExpr(a.Expr, d.info) + " " + hv.CoqMarks(attrMarks)
		}
		attrs = append(attrs, "("+hv.CoqStr(n)+", "+e+")")
	}
	var blocks []string
	for _, k := range b.Blocks {
		if d.dyn && k.Type == "dynamic" {
			blocks = append(blocks, d.dynamic(k, unknown, attrMarks)...)
			continue
		}
		// a static block inherits the value marks of the body it is written in
		// (expandChild(..., b.valueMarks)); inside an unknown body it is unknown
		blocks = append(blocks, d.block(k.Type, k.Labels, d.body(k.Body, attrMarks, attrMarks, unknown)))
	}
	return fmt.Sprintf("(ABody %s %s %s %s)", hv.CoqList(attrs), hv.CoqList(blocks), hv.CoqBool(unknown), hv.CoqMarks(bodyMarks))
}

func (d *dumper) block(ty string, labels []string, body string) string {
	return fmt.Sprintf("(%s, %s, %s)", hv.CoqStr(ty), coqStrList(labels), body)
}

func (d *dumper) dynamic(k *hclsyntax.Block, parentUnknown bool, parentMarks cty.ValueMarks) []string {
	if len(k.Labels) != 1 {
		d.bad = "dynamic block without exactly one label"
		return nil
	}
	ty := k.Labels[0]
	fe, ok := k.Body.Attributes["for_each"]
	if !ok {
		d.bad = "dynamic block without for_each"
		return nil
	}
	var labels []string
	if la, ok := k.Body.Attributes["labels"]; ok {
		exprs, diags := hcl.ExprList(la.Expr)
		if diags.HasErrors() {
			d.bad = "labels is not a list"
			return nil
		}
		for _, e := range exprs {
			v, dg := e.Value(nil)
			if dg.HasErrors() || v.Type() != cty.String || v.IsNull() || !v.IsKnown() {
				d.bad = "non-constant label"
				return nil
			}
			labels = append(labels, v.AsString())
		}
	}
	var content *hclsyntax.Body
	for _, c := range k.Body.Blocks {
		if c.Type == "content" {
			content = c.Body
		}
	}
	if content == nil || len(k.Body.Blocks) != 1 {
		d.bad = "dynamic block without exactly one content block"
		return nil
	}
	if parentUnknown {
		d.bad = "dynamic block nested in an unknown body"
		return nil
	}
	v, dg := fe.Expr.Value(d.ctx)
	if dg.HasErrors() {
		d.bad = "for_each has errors"
		return nil
	}
	u, marks := v.Unmark()
	if !u.IsKnown() {
		return []string{d.block(ty, labels, d.body(content, marks, marks, true))}
	}
	if u.IsNull() || !u.CanIterateElements() {
		d.bad = "for_each not iterable"
		return nil
	}
	var out []string
	for i := 0; i < u.LengthInt(); i++ {
		out = append(out, d.block(ty, labels, d.body(content, marks, marks, false)))
	}
	return out
}
