package main

// Generators: spec trees from every spec kind within the documented
// preconditions (plus a stream violating one precondition at a time), for each
// a conforming body (as a plan, rendered as native syntax text) together with
// the value the generator expects, and perturbations of the plan.

import (
	"fmt"
	"sort"
	"strings"

	"github.com/hashicorp/hcl/v2"
	"github.com/hashicorp/hcl/v2/hcldec"
	"github.com/hashicorp/hcl/v2/hclwrite"
	"github.com/zclconf/go-cty/cty"
	"github.com/zclconf/go-cty/cty/convert"
	"hclverif/hv"
)

// ---- the fixed evaluation context -----------------------------------------------------

func baseCtx() *hcl.EvalContext {
	return &hcl.EvalContext{
		Functions: hv.HarnessFuncs,
		Variables: map[string]cty.Value{
			"v_null":        cty.NullVal(cty.DynamicPseudoType),
			"v_null_str":    cty.NullVal(cty.String),
			"v_unk":         cty.DynamicVal,
			"v_unk_str":     cty.UnknownVal(cty.String),
			"v_unk_num":     cty.UnknownVal(cty.Number).RefineNotNull(),
			"v_unk_list":    cty.UnknownVal(cty.List(cty.String)),
			"v_unk_mlist":   cty.UnknownVal(cty.List(cty.String)).Mark("m1"),
			"v_str":         cty.StringVal("hello"),
			"v_num":         cty.NumberIntVal(5),
			"v_bool":        cty.True,
			"v_marked_str":  cty.StringVal("secret").Mark("m1"),
			"v_marked_num":  cty.NumberIntVal(7).Mark("m2"),
			"v_list2":       cty.ListVal([]cty.Value{cty.StringVal("a"), cty.StringVal("b")}),
			"v_marked_list": cty.ListVal([]cty.Value{cty.StringVal("a"), cty.StringVal("b")}).Mark("m2"),
			"v_empty":       cty.ListValEmpty(cty.String),
			"v_obj":         cty.ObjectVal(map[string]cty.Value{"a": cty.StringVal("x"), "b": cty.NumberIntVal(1)}),
		},
	}
}

// ---- body plans -------------------------------------------------------------------------

type pattr struct {
	Name string
	Expr string
	ty   cty.Type // the type the spec wants (for perturbations)
	req  bool
	jraw string // non-empty: the JSON spelling of the expression in a JSON body (exprfail.go)
}

type pblock struct {
	Type    string
	Labels  []string
	Body    *pbody
	ForEach string // non-empty: rendered as a dynamic block with this for_each expression
	spec    *gspec // the block spec that asked for it
}

type pbody struct {
	Attrs  []*pattr
	Blocks []*pblock
}

func quoteLabel(s string) string { return "\"" + s + "\"" }

func (b *pbody) render(sb *strings.Builder, ind string) {
	for _, a := range b.Attrs {
		fmt.Fprintf(sb, "%s%s = %s\n", ind, a.Name, a.Expr)
	}
	for _, k := range b.Blocks {
		if k.ForEach != "" {
			fmt.Fprintf(sb, "%sdynamic %s {\n%s  for_each = %s\n", ind, quoteLabel(k.Type), ind, k.ForEach)
			if len(k.Labels) > 0 {
				var ls []string
				for _, l := range k.Labels {
					ls = append(ls, quoteLabel(l))
				}
				fmt.Fprintf(sb, "%s  labels = [%s]\n", ind, strings.Join(ls, ", "))
			}
			fmt.Fprintf(sb, "%s  content {\n", ind)
			k.Body.render(sb, ind+"    ")
			fmt.Fprintf(sb, "%s  }\n%s}\n", ind, ind)
			continue
		}
		sb.WriteString(ind + k.Type)
		for _, l := range k.Labels {
			sb.WriteString(" " + quoteLabel(l))
		}
		sb.WriteString(" {\n")
		k.Body.render(sb, ind+"  ")
		sb.WriteString(ind + "}\n")
	}
}

func (b *pbody) text() string {
	var sb strings.Builder
	b.render(&sb, "")
	return sb.String()
}

func (b *pbody) clone() *pbody {
	nb := &pbody{}
	for _, a := range b.Attrs {
		c := *a
		nb.Attrs = append(nb.Attrs, &c)
	}
	for _, k := range b.Blocks {
		c := *k
		c.Labels = append([]string(nil), k.Labels...)
		c.Body = k.Body.clone()
		nb.Blocks = append(nb.Blocks, &c)
	}
	return nb
}

// all bodies of the plan, depth first
func (b *pbody) bodies() []*pbody {
	out := []*pbody{b}
	for _, k := range b.Blocks {
		out = append(out, k.Body.bodies()...)
	}
	return out
}

func (b *pbody) hasDynamic() bool {
	for _, x := range b.bodies() {
		for _, k := range x.Blocks {
			if k.ForEach != "" {
				return true
			}
		}
	}
	return false
}

// ---- generator state --------------------------------------------------------------------

type sgen struct {
	r    *hv.Rng
	eg   *hv.EvalGen
	feat map[string]int
}

func newGen(r *hv.Rng) *sgen {
	eg := hv.NewEvalGen(r)
	eg.Unknowns, eg.Marks, eg.Nulls = 0, 0, 0.04
	return &sgen{r: r, eg: eg, feat: map[string]int{}}
}

type level struct{ attrN, blkN int }

func (l *level) attr() string { l.attrN++; return fmt.Sprintf("a%d", l.attrN) }
func (l *level) blk() string  { l.blkN++; return fmt.Sprintf("b%d", l.blkN) }

var labelPool = []string{"x", "y", "k1", "k2", "p q", "z"}

func (g *sgen) attrType(noDyn bool) cty.Type {
	if !noDyn && g.r.Chance(0.18) {
		if g.r.Chance(0.25) {
			return cty.List(cty.DynamicPseudoType)
		}
		return cty.DynamicPseudoType
	}
	if g.r.Chance(0.5) {
		return []cty.Type{cty.String, cty.Number, cty.Bool}[g.r.Intn(3)]
	}
	return g.eg.GenType(1)
}

// concrete picks a type without dynamic parts conforming to t.
func (g *sgen) concrete(t cty.Type) cty.Type {
	switch {
	case t == cty.DynamicPseudoType:
		return g.eg.GenType(1)
	case t.IsListType():
		return cty.List(g.concrete(t.ElementType()))
	case t.IsSetType():
		return cty.Set(g.concrete(t.ElementType()))
	case t.IsMapType():
		return cty.Map(g.concrete(t.ElementType()))
	case t.IsTupleType():
		var es []cty.Type
		for _, e := range t.TupleElementTypes() {
			es = append(es, g.concrete(e))
		}
		return cty.Tuple(es)
	case t.IsObjectType():
		at := map[string]cty.Type{}
		for _, k := range hv.SortedKeys(t.AttributeTypes()) {
			at[k] = g.concrete(t.AttributeType(k))
		}
		return cty.Object(at)
	}
	return t
}

func (g *sgen) minmax() (int, int) {
	switch g.r.Intn(4) {
	case 0:
		return 0, 0
	case 1:
		return 1, 0
	case 2:
		return 0, 1 + g.r.Intn(2)
	default:
		mn := g.r.Intn(3)
		return mn, mn + g.r.Intn(2)
	}
}

// nested builds the Nested spec of a block spec: its own body level, with nl
// label specs of consecutive indices.
func (g *sgen) nested(depth int, noDyn bool) *gspec {
	nl := 0
	if g.r.Chance(0.4) {
		nl = 1 + g.r.Intn(2)
	}
	lv := &level{}
	inner := g.spec(depth-1, lv, nl, noDyn)
	if nl == 0 {
		return inner
	}
	o := &gspec{Kind: "object", Keys: []string{"body"}, Kids: []*gspec{inner}}
	for i := 0; i < nl; i++ {
		o.Keys = append(o.Keys, fmt.Sprintf("l%d", i))
		o.Kids = append(o.Kids, &gspec{Kind: "blocklabel", Index: i, Name: fmt.Sprintf("n%d", i)})
	}
	return o
}

func hasDyn(s *gspec) bool { return hcldec.ImpliedType(s.toGo()).HasDynamicTypes() }

// spec generates one spec decoded at the body level lv, with nl block labels available.
func (g *sgen) spec(depth int, lv *level, nl int, noDyn bool) *gspec {
	leafOnly := depth <= 0
	for {
		k := g.r.Intn(20)
		switch {
		case k <= 3: // attr
			return &gspec{Kind: "attr", Name: lv.attr(), Type: tyJSON(g.attrType(noDyn)), Req: g.r.Chance(0.4)}
		case k == 4: // literal
			return &gspec{Kind: "literal", Lit: litJSON(g.eg.GenValue(g.eg.GenType(1)))}
		case k == 5:
			if noDyn {
				continue
			}
			return &gspec{Kind: "expr", Expr: g.r.Pick(`"e"`, `1 + 2`, `[1, "a"]`, `v_str`, `{a = 1}`, `null`)}
		case k == 6:
			if nl == 0 {
				continue
			}
			return &gspec{Kind: "blocklabel", Index: g.r.Intn(nl), Name: "lbl"}
		case k == 7: // blockattrs
			t := g.attrType(noDyn)
			if t.HasDynamicTypes() && g.r.Chance(0.6) {
				t = cty.String
			}
			return &gspec{Kind: "blockattrs", Name: lv.blk(), Type: tyJSON(t), Req: g.r.Chance(0.4)}
		}
		if leafOnly {
			continue
		}
		switch k {
		case 8: // object
			n := 1 + g.r.Small(3)
			o := &gspec{Kind: "object"}
			for i := 0; i < n; i++ {
				o.Keys = append(o.Keys, fmt.Sprintf("f%d", i))
				o.Kids = append(o.Kids, g.spec(depth-1, lv, nl, noDyn))
			}
			return o
		case 9: // tuple
			n := g.r.Small(3)
			t := &gspec{Kind: "tuple"}
			for i := 0; i < n; i++ {
				t.Kids = append(t.Kids, g.spec(depth-1, lv, nl, noDyn))
			}
			return t
		case 10:
			return &gspec{Kind: "block", Name: lv.blk(), Req: g.r.Chance(0.4), Kids: []*gspec{g.nested(depth, noDyn)}}
		case 11:
			mn, mx := g.minmax()
			return &gspec{Kind: "blocklist", Name: lv.blk(), Min: mn, Max: mx, Kids: []*gspec{g.nested(depth, noDyn)}}
		case 12:
			if noDyn {
				continue
			}
			mn, mx := g.minmax()
			return &gspec{Kind: "blocktuple", Name: lv.blk(), Min: mn, Max: mx, Kids: []*gspec{g.nested(depth, false)}}
		case 13:
			mn, mx := g.minmax()
			return &gspec{Kind: "blockset", Name: lv.blk(), Min: mn, Max: mx, Kids: []*gspec{g.nested(depth, noDyn)}}
		case 14: // blockmap: no dynamic types inside
			n := g.nested(depth, true)
			if hasDyn(n) {
				n = &gspec{Kind: "attr", Name: "a1", Type: tyJSON(cty.String)}
			}
			ls := []string{"k"}
			if g.r.Chance(0.4) {
				ls = append(ls, "j")
				if g.r.Chance(0.2) {
					ls = append(ls, "i")
				}
			}
			return &gspec{Kind: "blockmap", Name: lv.blk(), Labels: ls, Kids: []*gspec{n}}
		case 15:
			if noDyn {
				continue
			}
			ls := []string{"k"}
			if g.r.Chance(0.4) {
				ls = append(ls, "j")
			}
			return &gspec{Kind: "blockobject", Name: lv.blk(), Labels: ls, Kids: []*gspec{g.nested(depth, false)}}
		case 16: // default: arms of equal implied type
			t := g.concrete(g.attrType(true))
			p := &gspec{Kind: "attr", Name: lv.attr(), Type: tyJSON(t)}
			var d *gspec
			if g.r.Chance(0.7) {
				save := g.eg.Nulls
				g.eg.Nulls = 0
				d = &gspec{Kind: "literal", Lit: litJSON(g.eg.GenValue(t))}
				g.eg.Nulls = save
			} else {
				d = &gspec{Kind: "attr", Name: lv.attr(), Type: tyJSON(t), Req: g.r.Chance(0.3)}
			}
			return &gspec{Kind: "default", Kids: []*gspec{p, d}}
		case 17: // transforms
			if g.r.Chance(0.5) {
				if noDyn {
					continue
				}
				w := g.spec(depth-1, lv, nl, noDyn)
				return &gspec{Kind: "transformexpr", Name: "v", NilCtx: g.r.Chance(0.3),
					Expr: g.r.Pick(`v`, `[v]`, `{a = v, b = 1}`, `v == null`, `"lit"`), Kids: []*gspec{w}}
			}
			if g.r.Chance(0.5) {
				w := &gspec{Kind: "attr", Name: lv.attr(), Type: tyJSON(cty.String), Req: g.r.Chance(0.4)}
				return &gspec{Kind: "transformfunc", Func: g.r.Pick("upper", "upper", "fail", "first"), Kids: []*gspec{w}}
			}
			w := g.spec(depth-1, lv, nl, noDyn)
			return &gspec{Kind: "transformfunc", Func: g.r.Pick("first", "isnull"), Kids: []*gspec{w}}
		case 18:
			w := g.spec(depth-1, lv, nl, noDyn)
			fn := g.r.Pick("never", "never", "notnull", "always")
			return &gspec{Kind: "validate", Func: fn, Kids: []*gspec{w}}
		case 19: // refine over a validator guaranteeing the refinement
			w := g.spec(depth-1, lv, nl, noDyn)
			return &gspec{Kind: "refine", Func: "notnull", Kids: []*gspec{{Kind: "validate", Func: "notnull", Kids: []*gspec{w}}}}
		}
	}
}

// topSpec: a spec for hcldec.Decode (no block labels available).
func (g *sgen) topSpec() *gspec {
	lv := &level{}
	depth := 1 + g.r.Intn(3)
	s := g.spec(depth, lv, 0, false)
	if s.Kind != "object" && g.r.Chance(0.5) {
		o := &gspec{Kind: "object", Keys: []string{"f0"}, Kids: []*gspec{s}}
		n := g.r.Small(2)
		for i := 0; i < n; i++ {
			o.Keys = append(o.Keys, fmt.Sprintf("g%d", i))
			o.Kids = append(o.Kids, g.spec(depth-1, lv, 0, false))
		}
		return o
	}
	return s
}

// ---- one precondition violated ----------------------------------------------------------

func (g *sgen) violatingSpec() (*gspec, string) {
	str := tyJSON(cty.String)
	a := func(n string) *gspec { return &gspec{Kind: "attr", Name: n, Type: str} }
	switch g.r.Intn(10) {
	case 8:
		return &gspec{Kind: "refine", Func: "notnull", Kids: []*gspec{a("a1")}}, "refine-unguarded"
	case 9:
		return &gspec{Kind: "blocklist", Name: "b1", Min: 1, Kids: []*gspec{{Kind: "object", Keys: []string{"l"}, Kids: []*gspec{{Kind: "blocklabel", Index: 1, Name: "n"}}}}}, "label-index-gap"
	case 0:
		return &gspec{Kind: "object", Keys: []string{"l"}, Kids: []*gspec{{Kind: "blocklabel", Index: 0, Name: "n"}}}, "label-at-top-level"
	case 1:
		return &gspec{Kind: "blocklist", Name: "b1", Kids: []*gspec{{Kind: "blocklabel", Index: -1, Name: "n"}}}, "label-index-negative"
	case 2:
		return &gspec{Kind: "blockmap", Name: "b1", Labels: []string{"k"}, Kids: []*gspec{{Kind: "attr", Name: "a1", Type: tyJSON(cty.DynamicPseudoType)}}}, "blockmap-dynamic-nested"
	case 3:
		return &gspec{Kind: "blockmap", Name: "b1", Labels: nil, Kids: []*gspec{a("a1")}}, "blockmap-no-labels"
	case 4:
		return &gspec{Kind: "blockobject", Name: "b1", Labels: nil, Kids: []*gspec{a("a1")}}, "blockobject-no-labels"
	case 5:
		return &gspec{Kind: "default", Kids: []*gspec{a("a1"), {Kind: "literal", Lit: litJSON(cty.NumberIntVal(2))}}}, "default-arms-differ"
	case 6:
		return &gspec{Kind: "tuple", Kids: []*gspec{
			{Kind: "blocklist", Name: "b1", Kids: []*gspec{{Kind: "blocklabel", Index: 0, Name: "n"}}},
			{Kind: "blocklist", Name: "b1", Kids: []*gspec{a("a1")}}}}, "block-type-label-conflict"
	default:
		return &gspec{Kind: "blocklist", Name: "b1", Min: 3, Max: 1, Kids: []*gspec{a("a1")}}, "min-greater-than-max"
	}
}

// ---- conforming bodies and the expected value -------------------------------------------

// literal renders a known value as native syntax and returns what that text
// evaluates to (lists and sets become tuples, maps objects, nulls untyped).
func literalText(v cty.Value) string {
	return strings.TrimSpace(string(hclwrite.TokensForValue(v).Bytes()))
}

func literalForm(v cty.Value) cty.Value {
	if v.IsNull() {
		return cty.NullVal(cty.DynamicPseudoType)
	}
	ty := v.Type()
	switch {
	case ty.IsListType() || ty.IsSetType() || ty.IsTupleType():
		var es []cty.Value
		for it := v.ElementIterator(); it.Next(); {
			_, e := it.Element()
			es = append(es, literalForm(e))
		}
		if len(es) == 0 {
			return cty.EmptyTupleVal
		}
		return cty.TupleVal(es)
	case ty.IsMapType() || ty.IsObjectType():
		m := map[string]cty.Value{}
		for it := v.ElementIterator(); it.Next(); {
			k, e := it.Element()
			m[k.AsString()] = literalForm(e)
		}
		if len(m) == 0 {
			return cty.EmptyObjectVal
		}
		return cty.ObjectVal(m)
	}
	return v
}

// expectation of the generator for a conforming body
type expect struct {
	val    cty.Value
	ok     bool // val is meaningful
	errExp bool // the spec itself makes decoding report an error (failing function, always-failing validator)
}

func (g *sgen) labelsFor(n int) []string {
	ls := make([]string, n)
	for i := range ls {
		ls[i] = labelPool[g.r.Intn(len(labelPool))]
	}
	return ls
}

func (g *sgen) litFor(t cty.Type) (string, cty.Value, bool) {
	v := g.eg.GenValue(g.concrete(t))
	want, err := convert.Convert(literalForm(v), t)
	if err != nil {
		return literalText(v), cty.NilVal, false
	}
	return literalText(v), want, true
}

// genInto adds to body what spec s needs and returns the value s describes.
func (g *sgen) genInto(s *gspec, body *pbody, labels []string, ctx *hcl.EvalContext) expect {
	bad := expect{}
	switch s.Kind {
	case "object":
		m := map[string]cty.Value{}
		e := expect{ok: true}
		for i, k := range s.Keys {
			x := g.genInto(s.Kids[i], body, labels, ctx)
			e.ok = e.ok && x.ok
			e.errExp = e.errExp || x.errExp
			m[k] = x.val
		}
		if e.ok {
			e.val = cty.ObjectVal(m)
		}
		return e
	case "tuple":
		var vs []cty.Value
		e := expect{ok: true}
		for _, k := range s.Kids {
			x := g.genInto(k, body, labels, ctx)
			e.ok = e.ok && x.ok
			e.errExp = e.errExp || x.errExp
			vs = append(vs, x.val)
		}
		if e.ok {
			e.val = cty.TupleVal(vs)
		}
		return e
	case "attr":
		t := tyOf(s.Type)
		for _, a := range body.Attrs {
			if a.Name == s.Name {
				return bad // the same attribute asked for twice: no expectation
			}
		}
		if !s.Req && g.r.Chance(0.3) {
			return expect{val: cty.NullVal(t), ok: true}
		}
		txt, want, ok := g.litFor(t)
		body.Attrs = append(body.Attrs, &pattr{Name: s.Name, Expr: txt, ty: t, req: s.Req})
		return expect{val: want, ok: ok}
	case "literal":
		return expect{val: litOf(s.Lit), ok: true}
	case "expr":
		v, d := parseExpr(s.Expr).Value(ctx)
		return expect{val: v, ok: !d.HasErrors()}
	case "block":
		n := s.nested()
		if !s.Req && g.r.Chance(0.3) {
			return expect{val: cty.NullVal(hcldec.ImpliedType(n.toGo())), ok: true}
		}
		ls := g.labelsFor(n.labelCount())
		nb := &pbody{}
		x := g.genInto(n, nb, ls, ctx)
		body.Blocks = append(body.Blocks, &pblock{Type: s.Name, Labels: ls, Body: nb, spec: s})
		return x
	case "blocklist", "blocktuple", "blockset":
		n := s.nested()
		cnt := s.Min + g.r.Small(2)
		if s.Max > 0 && cnt > s.Max {
			cnt = s.Max
		}
		if cnt < s.Min {
			cnt = s.Min
		}
		var vs []cty.Value
		e := expect{ok: true}
		for i := 0; i < cnt; i++ {
			ls := g.labelsFor(n.labelCount())
			nb := &pbody{}
			x := g.genInto(n, nb, ls, ctx)
			e.ok = e.ok && x.ok
			e.errExp = e.errExp || x.errExp
			vs = append(vs, x.val)
			body.Blocks = append(body.Blocks, &pblock{Type: s.Name, Labels: ls, Body: nb, spec: s})
		}
		if !e.ok {
			return e
		}
		it := hcldec.ImpliedType(n.toGo())
		switch s.Kind {
		case "blocktuple":
			e.val = cty.TupleVal(vs)
		case "blocklist":
			if cnt == 0 {
				e.val = cty.ListValEmpty(it)
			} else if sameTypes(vs) {
				e.val = cty.ListVal(vs)
			} else {
				e.ok = false // element types differ: the result depends on unification
			}
		default:
			if cnt == 0 {
				e.val = cty.SetValEmpty(it)
			} else if sameTypes(vs) {
				e.val = cty.SetVal(vs)
			} else {
				e.ok = false
			}
		}
		return e
	case "blockmap", "blockobject":
		n := s.nested()
		cnt := g.r.Small(3)
		used := map[string]bool{}
		type ent struct {
			path []string
			v    cty.Value
		}
		var ents []ent
		e := expect{ok: true}
		for i := 0; i < cnt; i++ {
			own := g.labelsFor(len(s.Labels))
			key := strings.Join(own, "\x00")
			if used[key] {
				continue
			}
			used[key] = true
			rest := g.labelsFor(n.labelCount())
			nb := &pbody{}
			x := g.genInto(n, nb, rest, ctx)
			e.ok = e.ok && x.ok
			e.errExp = e.errExp || x.errExp
			ents = append(ents, ent{own, x.val})
			body.Blocks = append(body.Blocks, &pblock{Type: s.Name, Labels: append(append([]string{}, own...), rest...), Body: nb, spec: s})
		}
		if !e.ok {
			return e
		}
		isMap := s.Kind == "blockmap"
		// the value the spec describes: one level per label name; nothing at all
		// = the empty map of the implied type / the empty object
		var build func(es []ent, depth int) cty.Value
		build = func(es []ent, depth int) cty.Value {
			groups := map[string][]ent{}
			for _, x := range es {
				groups[x.path[depth]] = append(groups[x.path[depth]], x)
			}
			m := map[string]cty.Value{}
			for k, sub := range groups {
				if depth == len(s.Labels)-1 {
					m[k] = sub[0].v
				} else {
					m[k] = build(sub, depth+1)
				}
			}
			if isMap {
				return cty.MapVal(m)
			}
			return cty.ObjectVal(m)
		}
		if len(ents) == 0 {
			if isMap {
				e.val = cty.MapValEmpty(hcldec.ImpliedType(s.toGo()).ElementType())
			} else {
				e.val = cty.EmptyObjectVal
			}
			return e
		}
		func() {
			defer func() {
				if recover() != nil {
					e.ok = false
				}
			}()
			e.val = build(ents, 0)
		}()
		return e
	case "blockattrs":
		t := tyOf(s.Type)
		if !s.Req && g.r.Chance(0.3) {
			return expect{val: cty.NullVal(cty.Map(t)), ok: true}
		}
		nb := &pbody{}
		cnt := g.r.Small(3)
		m := map[string]cty.Value{}
		e := expect{ok: true}
		ct := g.concrete(t) // one concrete element type: MapVal needs consistent types
		for i := 0; i < cnt; i++ {
			nm := fmt.Sprintf("e%d", i)
			v := g.eg.GenValue(ct)
			want, err := convert.Convert(literalForm(v), t)
			if err != nil {
				e.ok = false
			}
			nb.Attrs = append(nb.Attrs, &pattr{Name: nm, Expr: literalText(v), ty: t})
			m[nm] = want
		}
		body.Blocks = append(body.Blocks, &pblock{Type: s.Name, Body: nb, spec: s})
		if !e.ok {
			return e
		}
		if len(m) == 0 {
			e.val = cty.MapValEmpty(t)
		} else if cty.CanMapVal(m) {
			e.val = cty.MapVal(m)
		} else {
			e.ok = false
		}
		return e
	case "blocklabel":
		if s.Index < 0 || s.Index >= len(labels) {
			return bad
		}
		return expect{val: cty.StringVal(labels[s.Index]), ok: true}
	case "default":
		p := g.genInto(s.Kids[0], body, labels, ctx)
		d := g.genInto(s.Kids[1], body, labels, ctx)
		if !p.ok {
			return expect{errExp: p.errExp || d.errExp}
		}
		if p.val.IsNull() {
			d.errExp = d.errExp || p.errExp
			return d
		}
		return p
	case "transformexpr":
		w := g.genInto(s.Kids[0], body, labels, ctx)
		if !w.ok || w.errExp {
			return expect{errExp: w.errExp}
		}
		chi := transformCtx(s.NilCtx).NewChild()
		chi.Variables = map[string]cty.Value{s.Name: w.val}
		v, d := parseExpr(s.Expr).Value(chi)
		return expect{val: v, ok: !d.HasErrors(), errExp: d.HasErrors()}
	case "transformfunc":
		w := g.genInto(s.Kids[0], body, labels, ctx)
		if !w.ok || w.errExp {
			return expect{errExp: w.errExp}
		}
		v, err := hv.HarnessFuncs[s.Func].Call([]cty.Value{w.val})
		if err != nil {
			return expect{errExp: true}
		}
		return expect{val: v, ok: true}
	case "validate":
		w := g.genInto(s.Kids[0], body, labels, ctx)
		if !w.ok || w.errExp {
			return expect{errExp: w.errExp}
		}
		if validators[s.Func](w.val).HasErrors() {
			return expect{errExp: true}
		}
		return w
	case "refine":
		w := g.genInto(s.Kids[0], body, labels, ctx)
		if !w.ok || w.errExp {
			return expect{errExp: w.errExp}
		}
		w.val = w.val.RefineNotNull()
		return w
	}
	return bad
}

func sameTypes(vs []cty.Value) bool {
	for _, v := range vs[1:] {
		if !v.Type().Equals(vs[0].Type()) {
			return false
		}
	}
	return true
}

// ---- perturbations ------------------------------------------------------------------------

var perturbations = []string{
	"missing-required", "extra-attr", "extra-block", "wrong-type", "label-extra", "label-missing",
	"blocks-zero", "blocks-duplicated", "blocks-many", "attr-unknown", "attr-null", "attr-marked",
	"dyn-unknown", "dyn-unknown-marked", "dyn-marked", "dyn-known", "dyn-empty", "dup-labels", "block-in-attrs",
}

func wrongLiteral(t cty.Type, r *hv.Rng) string {
	switch {
	case t == cty.String:
		return r.Pick(`[1]`, `{}`, `{a = 1}`)
	case t == cty.Number:
		return r.Pick(`"x"`, `[1]`, `true`)
	case t == cty.Bool:
		return r.Pick(`"maybe"`, `5`, `[]`)
	case t.IsCollectionType() || t.IsTupleType():
		return r.Pick(`"x"`, `5`, `{a = "b"}`)
	case t.IsObjectType():
		return r.Pick(`"x"`, `[1, 2]`, `{zz = 1}`)
	}
	return r.Pick(`"x"`, `[1, "a"]`, `{a = [1]}`)
}

func dynCapable(s *gspec) bool {
	if s == nil {
		return false
	}
	switch s.Kind {
	case "block", "blocklist", "blocktuple", "blockset", "blockmap", "blockobject":
		return true
	}
	return false
}

// perturb applies one perturbation to a copy of the plan; ok=false if the plan
// offers no place for it.
func (g *sgen) perturb(orig *pbody, kind string) (*pbody, bool) {
	b := orig.clone()
	bodies := b.bodies()
	pickBody := func(pred func(*pbody) bool) *pbody {
		var c []*pbody
		for _, x := range bodies {
			if pred(x) {
				c = append(c, x)
			}
		}
		if len(c) == 0 {
			return nil
		}
		return c[g.r.Intn(len(c))]
	}
	anyAttr := func(pred func(*pattr) bool) (*pbody, int) {
		type loc struct {
			b *pbody
			i int
		}
		var c []loc
		for _, x := range bodies {
			for i, a := range x.Attrs {
				if pred(a) {
					c = append(c, loc{x, i})
				}
			}
		}
		if len(c) == 0 {
			return nil, 0
		}
		l := c[g.r.Intn(len(c))]
		return l.b, l.i
	}
	anyBlock := func(pred func(*pblock) bool) (*pbody, int) {
		type loc struct {
			b *pbody
			i int
		}
		var c []loc
		for _, x := range bodies {
			for i, k := range x.Blocks {
				if pred(k) {
					c = append(c, loc{x, i})
				}
			}
		}
		if len(c) == 0 {
			return nil, 0
		}
		l := c[g.r.Intn(len(c))]
		return l.b, l.i
	}
	removeType := func(x *pbody, ty string) {
		var keep []*pblock
		for _, k := range x.Blocks {
			if k.Type != ty {
				keep = append(keep, k)
			}
		}
		x.Blocks = keep
	}
	switch kind {
	case "missing-required":
		if g.r.Chance(0.5) {
			if x, i := anyAttr(func(a *pattr) bool { return a.req }); x != nil {
				x.Attrs = append(x.Attrs[:i:i], x.Attrs[i+1:]...)
				return b, true
			}
		}
		if x, i := anyBlock(func(k *pblock) bool {
			return k.spec != nil && (k.spec.Req || k.spec.Min > 0)
		}); x != nil {
			removeType(x, x.Blocks[i].Type)
			return b, true
		}
		if x, i := anyAttr(func(a *pattr) bool { return a.req }); x != nil {
			x.Attrs = append(x.Attrs[:i:i], x.Attrs[i+1:]...)
			return b, true
		}
		return nil, false
	case "extra-attr":
		x := pickBody(func(x *pbody) bool { return true })
		x.Attrs = append(x.Attrs, &pattr{Name: "zz_extra", Expr: "1"})
		return b, true
	case "extra-block":
		x := pickBody(func(x *pbody) bool { return true })
		x.Blocks = append(x.Blocks, &pblock{Type: "zz_blk", Body: &pbody{}})
		return b, true
	case "wrong-type":
		if x, i := anyAttr(func(a *pattr) bool { return true }); x != nil {
			x.Attrs[i].Expr = wrongLiteral(x.Attrs[i].ty, g.r)
			return b, true
		}
		return nil, false
	case "label-extra":
		if x, i := anyBlock(func(k *pblock) bool { return true }); x != nil {
			x.Blocks[i].Labels = append(x.Blocks[i].Labels, "extra")
			return b, true
		}
		return nil, false
	case "label-missing":
		if x, i := anyBlock(func(k *pblock) bool { return len(k.Labels) > 0 }); x != nil {
			x.Blocks[i].Labels = x.Blocks[i].Labels[:len(x.Blocks[i].Labels)-1]
			return b, true
		}
		return nil, false
	case "blocks-zero":
		if x, i := anyBlock(func(k *pblock) bool { return k.spec != nil }); x != nil {
			removeType(x, x.Blocks[i].Type)
			return b, true
		}
		return nil, false
	case "blocks-duplicated", "blocks-many", "dup-labels":
		pred := func(k *pblock) bool { return k.spec != nil }
		if kind == "dup-labels" {
			pred = func(k *pblock) bool {
				return k.spec != nil && (k.spec.Kind == "blockmap" || k.spec.Kind == "blockobject")
			}
		}
		if x, i := anyBlock(pred); x != nil {
			n := 1
			if kind == "blocks-many" {
				n = 2 + g.r.Intn(3)
			}
			for j := 0; j < n; j++ {
				c := *x.Blocks[i]
				c.Body = c.Body.clone()
				c.Labels = append([]string(nil), c.Labels...)
				if kind == "blocks-many" && len(c.Labels) > 0 {
					c.Labels[0] = fmt.Sprintf("m%d", j)
				}
				x.Blocks = append(x.Blocks, &c)
			}
			return b, true
		}
		return nil, false
	case "attr-unknown", "attr-null", "attr-marked":
		if x, i := anyAttr(func(a *pattr) bool { return true }); x != nil {
			switch kind {
			case "attr-unknown":
				x.Attrs[i].Expr = g.r.Pick("v_unk", "v_unk", "v_unk_str", "v_unk_num", "v_unk_list")
			case "attr-null":
				x.Attrs[i].Expr = g.r.Pick("v_null", "null", "v_null_str")
			default:
				x.Attrs[i].Expr = g.r.Pick("v_marked_str", "v_marked_num", "v_marked_list")
			}
			return b, true
		}
		return nil, false
	case "dyn-unknown", "dyn-unknown-marked", "dyn-marked", "dyn-known", "dyn-empty":
		if x, i := anyBlock(func(k *pblock) bool { return dynCapable(k.spec) && k.ForEach == "" }); x != nil {
			x.Blocks[i].ForEach = map[string]string{
				"dyn-unknown": "v_unk_list", "dyn-unknown-marked": "v_unk_mlist", "dyn-marked": "v_marked_list",
				"dyn-known": "v_list2", "dyn-empty": "v_empty"}[kind]
			return b, true
		}
		return nil, false
	case "block-in-attrs":
		if x, i := anyBlock(func(k *pblock) bool { return k.spec != nil && k.spec.Kind == "blockattrs" }); x != nil {
			x.Blocks[i].Body.Blocks = append(x.Blocks[i].Body.Blocks, &pblock{Type: "inner", Body: &pbody{}})
			return b, true
		}
		return nil, false
	}
	return nil, false
}

func sortedKinds(m map[string]bool) []string {
	var ks []string
	for k := range m {
		ks = append(ks, k)
	}
	sort.Strings(ks)
	return ks
}
