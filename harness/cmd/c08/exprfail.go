package main

// Erroneous EXPRESSIONS inside otherwise well-shaped bodies (strengthening round 4).
//
// The shape perturbations of gen.go leave every attribute expression a literal
// that evaluates.  This file adds
//   - the perturbation `expr-fails`: one or two attribute expressions of a
//     conforming plan (at any nesting depth, attributes of BlockAttrs blocks
//     included) are replaced by an expression that FAILS to evaluate or
//     evaluates to something that cannot be converted - undefined variable or
//     function, failing call, wrong call arguments, operator / condition / for
//     type errors, index and attribute access out of range, invalid template
//     interpolation, a collection with one failing member, a variable that is in
//     scope but of the wrong type, an unknown value of the wrong type - often
//     next to a sibling block of the same type that decodes normally;
//   - a spec mutation that puts the attribute spec of such an attribute under
//     each kind of wrapper (DefaultSpec primary and default arm, TransformExpr,
//     TransformFunc, Validate, Refine) and makes ExprSpec / TransformExprSpec
//     expressions themselves fail;
//   - the JSON-syntax rendering of a plan (failing expressions become JSON
//     template strings; plus JSON-only failures: template syntax errors) and
//     the abstract-body dump of a JSON body for the Coq case: the body is walked
//     with a schema derived from the harness's OWN spec tree (not hcldec's
//     ImpliedSchema); every attribute is dumped as `AVal v err`, v and err being
//     what the JSON expression evaluated to (the error placeholder included);
//   - an implied type computed from the harness's own spec tree, independent of
//     hcldec.ImpliedType, for the direct oracle.

import (
	"encoding/json"
	"fmt"
	"sort"
	"strings"

	"github.com/hashicorp/hcl/v2"
	"github.com/zclconf/go-cty/cty"
	"github.com/zclconf/go-cty/cty/convert"
	"hclverif/hv"
)

// ---- failing expressions ------------------------------------------------------------------

type failExpr struct {
	sort string
	expr string // native syntax
	jraw string // non-empty: JSON rendering (JSON-only failure sorts)
}

var failSorts = []string{
	"unknown-variable", "unknown-function", "failing-call", "bad-call-args", "operator-type-error",
	"index-out-of-range", "invalid-template", "control-type-error", "nested-failure",
	"scoped-var-wrong-type", "unknown-wrong-type", "json-template-syntax",
}

// unconvertible lists those of the given scope variables whose value cannot be converted to t.
func unconvertible(ctx *hcl.EvalContext, t cty.Type, names ...string) []string {
	var out []string
	if t == cty.NilType || t == cty.DynamicPseudoType {
		return nil
	}
	for _, n := range names {
		v, _ := ctx.Variables[n].Unmark()
		if _, err := convert.Convert(v, t); err != nil {
			out = append(out, n)
		}
	}
	return out
}

// pickFail draws a failing expression for an attribute that the spec wants to be of type t.
func pickFail(r *hv.Rng, ctx *hcl.EvalContext, t cty.Type, jsonBody bool) failExpr {
	for {
		s := failSorts[r.Intn(len(failSorts))]
		switch s {
		case "unknown-variable":
			return failExpr{sort: s, expr: r.Pick(`nope`, `nope.x[0]`, `nope.a.b`)}
		case "unknown-function":
			return failExpr{sort: s, expr: r.Pick(`missing_fn(1)`, `missing_fn()`, `nofn(v_str)`)}
		case "failing-call":
			return failExpr{sort: s, expr: r.Pick(`fail("x")`, `fail(v_str)`, `upper(fail("a"))`)}
		case "bad-call-args":
			return failExpr{sort: s, expr: r.Pick(`upper(1, 2)`, `upper()`, `sum("a")`, `upper([1])`, `pair("a")`)}
		case "operator-type-error":
			return failExpr{sort: s, expr: r.Pick(`1 + "a"`, `!5`, `-"x"`, `v_str * 2`, `[1] < 2`, `true && "maybe"`)}
		case "index-out-of-range":
			return failExpr{sort: s, expr: r.Pick(`[][0]`, `v_list2[5]`, `v_obj.zz`, `v_null.a`, `v_null[0]`, `v_str[0]`, `{a = 1}["b"]`)}
		case "invalid-template":
			return failExpr{sort: s, expr: r.Pick(`"${nope}"`, `"a${[1]}b"`, `"${v_obj}"`, `"x${missing_fn()}"`, `"%{ if "maybe" }a%{ endif }"`)}
		case "control-type-error":
			return failExpr{sort: s, expr: r.Pick(`v_str ? 1 : 2`, `null ? 1 : 2`, `[for x in 5 : x]`, `[for x in v_list2 : x if "maybe"]`, `v_num[*].a.b`, `{for x in v_list2 : "k" => x}`)}
		case "nested-failure":
			return failExpr{sort: s, expr: r.Pick(`[1, nope]`, `{a = nope}`, `[fail("x")]`, `{a = "x", b = [][0]}`, `[v_str, 1 + "a"]`)}
		case "scoped-var-wrong-type":
			c := unconvertible(ctx, t, "v_obj", "v_list2", "v_str", "v_bool", "v_num", "v_marked_list")
			if len(c) == 0 {
				continue
			}
			return failExpr{sort: s, expr: c[r.Intn(len(c))]}
		case "unknown-wrong-type":
			c := unconvertible(ctx, t, "v_unk_list", "v_unk_str", "v_unk_num", "v_unk_mlist")
			if len(c) == 0 {
				continue
			}
			return failExpr{sort: s, expr: c[r.Intn(len(c))]}
		case "json-template-syntax":
			if !jsonBody {
				continue
			}
			raw := r.Pick(`"${"`, `"${1 +}"`, `"%{ if true }x"`, `["ok", "${"]`, `{"k": "%{ endfor }"}`)
			return failExpr{sort: s, expr: `nope`, jraw: raw}
		}
	}
}

// ---- the perturbation ---------------------------------------------------------------------

type attrLoc struct {
	body   *pbody
	idx    int
	parent *pbody // the body holding the block whose body is `body` (nil at top level)
	pidx   int
	depth  int
}

func attrLocs(b, parent *pbody, pidx, depth int, out *[]attrLoc) {
	for i := range b.Attrs {
		*out = append(*out, attrLoc{b, i, parent, pidx, depth})
	}
	for i, k := range b.Blocks {
		attrLocs(k.Body, b, i, depth+1, out)
	}
}

// exprFails applies the perturbation to a copy of the plan.  tags are histogram labels; names the
// attribute names that now fail.
func exprFails(orig *pbody, r *hv.Rng, ctx *hcl.EvalContext, jsonBody bool) (p *pbody, tags []string, names map[string]bool, ok bool) {
	b := orig.clone()
	if b.hasDynamic() {
		return nil, nil, nil, false
	}
	var locs []attrLoc
	attrLocs(b, nil, 0, 0, &locs)
	if len(locs) == 0 {
		return nil, nil, nil, false
	}
	var deep []attrLoc
	for _, l := range locs {
		if l.depth > 0 {
			deep = append(deep, l)
		}
	}
	names = map[string]bool{}
	n := 1
	if r.Chance(0.25) {
		n = 2
	}
	for k := 0; k < n; k++ {
		l := locs[r.Intn(len(locs))]
		if len(deep) > 0 && r.Chance(0.6) {
			l = deep[r.Intn(len(deep))]
		}
		a := l.body.Attrs[l.idx]
		if names[a.Name] && k > 0 {
			continue
		}
		// a sibling block of the same type that decodes normally, before or after the failing one
		if k == 0 && l.parent != nil && r.Chance(0.75) {
			blk := l.parent.Blocks[l.pidx]
			if sp := blk.spec; sp != nil && blk.ForEach == "" {
				cnt := 0
				for _, x := range l.parent.Blocks {
					if x.Type == blk.Type {
						cnt++
					}
				}
				switch sp.Kind {
				case "blocklist", "blockset", "blocktuple", "blockmap", "blockobject":
					if sp.Max > 0 && cnt >= sp.Max {
						break
					}
					c := *blk
					c.Body = blk.Body.clone()
					c.Labels = append([]string(nil), blk.Labels...)
					if (sp.Kind == "blockmap" || sp.Kind == "blockobject") && len(sp.Labels) > 0 && len(c.Labels) >= len(sp.Labels) {
						c.Labels[len(sp.Labels)-1] = "fz"
					}
					if r.Chance(0.5) {
						l.parent.Blocks = append(l.parent.Blocks, &c)
					} else {
						nb := append([]*pblock{}, l.parent.Blocks[:l.pidx]...)
						nb = append(nb, &c)
						l.parent.Blocks = append(nb, l.parent.Blocks[l.pidx:]...)
					}
					tags = append(tags, "exprfail-sibling:normal-block-of-same-type("+sp.Kind+")")
				}
			}
		}
		fe := pickFail(r, ctx, a.ty, jsonBody)
		a.Expr, a.jraw = fe.expr, fe.jraw
		names[a.Name] = true
		tags = append(tags, "exprfail:"+fe.sort)
		if l.parent != nil && len(l.body.Attrs) > 1 && r.Chance(0.4) {
			if sp := l.parent.Blocks[l.pidx].spec; sp != nil && sp.Kind == "blockattrs" {
				// EVERY attribute of a BlockAttrs block fails: no well-typed element fixes the map's type
				for _, o := range l.body.Attrs {
					if o != a {
						f2 := pickFail(r, ctx, o.ty, jsonBody)
						o.Expr, o.jraw = f2.expr, f2.jraw
						tags = append(tags, "exprfail:"+f2.sort)
					}
				}
				tags = append(tags, "exprfail-shape:all-attributes-of-a-blockattrs-block")
			}
		}
		d := l.depth
		if d > 3 {
			d = 3
		}
		tags = append(tags, fmt.Sprintf("exprfail-depth:%d", d))
	}
	return b, tags, names, true
}

// blockHeavy: a spec whose top level holds a collection block spec with attributes inside, and a
// conforming plan for it with at least one such block written (so that a failing expression can sit
// in ONE block of several).
func (g *sgen) blockHeavy(ctx *hcl.EvalContext) (*gspec, *pbody, bool) {
	for try := 0; try < 8; try++ {
		lv := &level{}
		kind := g.r.Pick("blocklist", "blockset", "blockmap", "blockmap", "blocktuple", "blockobject", "block")
		noDyn := kind == "blockmap"
		inner := g.nested(1+g.r.Intn(2), noDyn)
		if noDyn && hasDyn(inner) {
			continue
		}
		s := &gspec{Kind: kind, Name: lv.blk(), Kids: []*gspec{inner}}
		switch kind {
		case "blocklist", "blockset", "blocktuple":
			s.Min, s.Max = g.minmax()
		case "blockmap", "blockobject":
			s.Labels = []string{"k"}
			if g.r.Chance(0.3) {
				s.Labels = append(s.Labels, "j")
			}
		}
		top := &gspec{Kind: "object", Keys: []string{"f0"}, Kids: []*gspec{s}}
		for i, n := 0, g.r.Small(2); i < n; i++ {
			top.Keys = append(top.Keys, fmt.Sprintf("g%d", i))
			top.Kids = append(top.Kids, g.spec(1, lv, 0, false))
		}
		plan := &pbody{}
		ok := true
		func() {
			defer func() {
				if recover() != nil {
					ok = false
				}
			}()
			g.genInto(top, plan, nil, ctx)
		}()
		if !ok {
			continue
		}
		var locs []attrLoc
		attrLocs(plan, nil, 0, 0, &locs)
		for _, l := range locs {
			if l.depth > 0 {
				return top, plan, true
			}
		}
	}
	return nil, nil, false
}

// ---- spec mutation: the failing attribute under every wrapper kind --------------------------

func (s *gspec) cloneSpec() *gspec {
	c := *s
	c.Labels = append([]string(nil), s.Labels...)
	c.Keys = append([]string(nil), s.Keys...)
	c.Kids = nil
	for _, k := range s.Kids {
		c.Kids = append(c.Kids, k.cloneSpec())
	}
	return &c
}

func zeroLit(t cty.Type) (cty.Value, bool) {
	switch t {
	case cty.String:
		return cty.StringVal("dflt"), true
	case cty.Number:
		return cty.NumberIntVal(42), true
	case cty.Bool:
		return cty.False, true
	}
	return cty.NilVal, false
}

var failingSpecExprs = []string{`nope`, `1 + "a"`, `upper(1, 2)`, `missing_fn()`, `[][0]`, `"${nope}"`}
var failingTransformExprs = []string{`nope`, `[v][5]`, `upper(v, v)`, `missing_fn(v)`, `{a = v}.b`}

// wrapFailing returns a copy of the spec in which attribute specs named in names are (with chance
// 1/2 each) put under a wrapper spec, keeping the documented preconditions (arms of a DefaultSpec
// of equal type, Refine over a validator, no dynamic type under a BlockMapSpec); with specExprs,
// ExprSpec / TransformExprSpec expressions outside block maps are replaced by failing ones.
func wrapFailing(s *gspec, names map[string]bool, r *hv.Rng, underMap, keepType, specExprs bool, tags *[]string) *gspec {
	c := *s
	c.Labels = append([]string(nil), s.Labels...)
	c.Keys = append([]string(nil), s.Keys...)
	c.Kids = nil
	um := underMap || s.Kind == "blockmap"
	// keepType: the type of this spec is fixed by a spec above it on the same body level (the other arm
	// of a DefaultSpec, the parameter of a TransformFuncSpec's function): type-preserving wrappers only
	kt := keepType
	switch s.Kind {
	case "default", "transformfunc":
		kt = true
	case "block", "blocklist", "blocktuple", "blockset", "blockmap", "blockobject":
		kt = false
	}
	for _, k := range s.Kids {
		c.Kids = append(c.Kids, wrapFailing(k, names, r, um, kt, specExprs, tags))
	}
	switch s.Kind {
	case "expr":
		if specExprs && !underMap && !keepType && r.Chance(0.6) {
			c.Expr = failingSpecExprs[r.Intn(len(failingSpecExprs))]
			*tags = append(*tags, "exprfail-spec:ExprSpec-expression-fails")
		}
	case "transformexpr":
		if specExprs && !underMap && !keepType && r.Chance(0.6) {
			c.Expr = failingTransformExprs[r.Intn(len(failingTransformExprs))]
			*tags = append(*tags, "exprfail-spec:TransformExprSpec-expression-fails")
		}
	case "attr":
		if !names[s.Name] || !r.Chance(0.5) {
			return &c
		}
		t := tyOf(s.Type)
		inner := &c
		var w *gspec
		switch r.Intn(8) {
		case 0: // primary arm of a DefaultSpec
			if lit, ok := zeroLit(t); ok {
				w = &gspec{Kind: "default", Kids: []*gspec{inner, {Kind: "literal", Lit: litJSON(lit)}}}
				*tags = append(*tags, "exprfail-wrap:default-primary")
			}
		case 1: // default arm: the primary is an attribute that is absent
			w = &gspec{Kind: "default", Kids: []*gspec{{Kind: "attr", Name: "zz_absent_" + s.Name, Type: s.Type}, inner}}
			*tags = append(*tags, "exprfail-wrap:default-arm")
		case 2:
			w = &gspec{Kind: "validate", Func: r.Pick("never", "notnull", "always"), Kids: []*gspec{inner}}
			*tags = append(*tags, "exprfail-wrap:validate")
		case 3:
			w = &gspec{Kind: "refine", Func: "notnull", Kids: []*gspec{{Kind: "validate", Func: "notnull", Kids: []*gspec{inner}}}}
			*tags = append(*tags, "exprfail-wrap:refine")
		case 4:
			fn := "first"
			if t == cty.String {
				fn = r.Pick("first", "upper", "fail")
			}
			w = &gspec{Kind: "transformfunc", Func: fn, Kids: []*gspec{inner}}
			*tags = append(*tags, "exprfail-wrap:transformfunc")
		case 5:
			if keepType {
				break
			}
			w = &gspec{Kind: "transformfunc", Func: "isnull", Kids: []*gspec{inner}}
			*tags = append(*tags, "exprfail-wrap:transformfunc")
		default:
			if t.HasDynamicTypes() && underMap {
				break
			}
			e := r.Pick(`v`, `[v]`, `{a = v, b = 1}`, `v == null`, `"lit"`)
			if keepType {
				e = `v`
			}
			w = &gspec{Kind: "transformexpr", Name: "v", NilCtx: r.Chance(0.3), Expr: e, Kids: []*gspec{inner}}
			*tags = append(*tags, "exprfail-wrap:transformexpr")
		}
		if w != nil {
			return w
		}
	}
	return &c
}

// ---- JSON rendering of a plan -------------------------------------------------------------

func escTemplate(s string) string {
	s = strings.ReplaceAll(s, "${", "$${")
	return strings.ReplaceAll(s, "%{", "%%{")
}

func jsonStr(s string) string {
	b, _ := json.Marshal(s)
	return string(b)
}

// valJSON writes a known value the way a JSON body spells it (strings are templates: escaped).
func valJSON(v cty.Value, sb *strings.Builder) bool {
	if v.IsMarked() || !v.IsKnown() {
		return false
	}
	if v.IsNull() {
		sb.WriteString("null")
		return true
	}
	ty := v.Type()
	switch {
	case ty == cty.String:
		sb.WriteString(jsonStr(escTemplate(v.AsString())))
	case ty == cty.Bool:
		if v.True() {
			sb.WriteString("true")
		} else {
			sb.WriteString("false")
		}
	case ty == cty.Number:
		sb.WriteString(v.AsBigFloat().Text('f', -1))
	case ty.IsTupleType() || ty.IsListType() || ty.IsSetType():
		sb.WriteString("[")
		i := 0
		for it := v.ElementIterator(); it.Next(); i++ {
			_, e := it.Element()
			if i > 0 {
				sb.WriteString(", ")
			}
			if !valJSON(e, sb) {
				return false
			}
		}
		sb.WriteString("]")
	case ty.IsObjectType() || ty.IsMapType():
		sb.WriteString("{")
		i := 0
		for it := v.ElementIterator(); it.Next(); i++ {
			k, e := it.Element()
			if i > 0 {
				sb.WriteString(", ")
			}
			sb.WriteString(jsonStr(escTemplate(k.AsString())) + ": ")
			if !valJSON(e, sb) {
				return false
			}
		}
		sb.WriteString("}")
	default:
		return false
	}
	return true
}

// exprJSON: a constant expression becomes the JSON value it denotes, anything else the template
// string "${expr}" (a JSON string that is one interpolation evaluates to the expression's value).
func exprJSON(a *pattr) string {
	if a.jraw != "" {
		return a.jraw
	}
	var out string
	func() {
		defer func() {
			if recover() != nil {
				out = ""
			}
		}()
		v, d := parseExpr(a.Expr).Value(nil)
		if !d.HasErrors() {
			var sb strings.Builder
			if valJSON(v, &sb) {
				out = sb.String()
			}
		}
	}()
	if out != "" {
		return out
	}
	return jsonStr("${" + a.Expr + "}")
}

func (b *pbody) renderJSON(sb *strings.Builder, ind string) {
	sb.WriteString("{")
	first := true
	sep := func() {
		if !first {
			sb.WriteString(",")
		}
		first = false
		sb.WriteString("\n" + ind + "  ")
	}
	for _, a := range b.Attrs {
		sep()
		sb.WriteString(jsonStr(a.Name) + ": " + exprJSON(a))
	}
	var types []string
	seen := map[string]bool{}
	for _, k := range b.Blocks {
		if !seen[k.Type] {
			seen[k.Type] = true
			types = append(types, k.Type)
		}
	}
	for _, ty := range types {
		sep()
		sb.WriteString(jsonStr(ty) + ": [")
		i := 0
		for _, k := range b.Blocks {
			if k.Type != ty {
				continue
			}
			if i > 0 {
				sb.WriteString(", ")
			}
			i++
			for _, l := range k.Labels {
				sb.WriteString("{" + jsonStr(l) + ": ")
			}
			k.Body.renderJSON(sb, ind+"  ")
			sb.WriteString(strings.Repeat("}", len(k.Labels)))
		}
		sb.WriteString("]")
	}
	if !first {
		sb.WriteString("\n" + ind)
	}
	sb.WriteString("}")
}

func (b *pbody) jsonText() string {
	var sb strings.Builder
	b.renderJSON(&sb, "")
	sb.WriteString("\n")
	return sb.String()
}

// ---- the harness's own reading of a spec tree -----------------------------------------------

// levelSchema: the attributes and block types the specs sharing one body ask for (the documentation
// of each spec kind; independent of hcldec.ImpliedSchema).
type levelSchema struct {
	attrs  []string
	blocks map[string]*gspec
	order  []string
}

func (ls *levelSchema) add(s *gspec) {
	switch s.Kind {
	case "attr":
		for _, n := range ls.attrs {
			if n == s.Name {
				return
			}
		}
		ls.attrs = append(ls.attrs, s.Name)
	case "block", "blocklist", "blocktuple", "blockset", "blockmap", "blockobject", "blockattrs":
		if _, ok := ls.blocks[s.Name]; !ok {
			ls.order = append(ls.order, s.Name)
		}
		ls.blocks[s.Name] = s
	}
	for _, k := range s.sameBodyKids() {
		ls.add(k)
	}
}

func (ls *levelSchema) hcl() *hcl.BodySchema {
	sch := &hcl.BodySchema{}
	for _, n := range ls.attrs {
		sch.Attributes = append(sch.Attributes, hcl.AttributeSchema{Name: n})
	}
	for _, n := range ls.order {
		s := ls.blocks[n]
		h := hcl.BlockHeaderSchema{Type: n}
		if s.Kind != "blockattrs" {
			h.LabelNames = append(h.LabelNames, s.Labels...)
			for i := 0; i < s.nested().labelCount(); i++ {
				h.LabelNames = append(h.LabelNames, fmt.Sprintf("n%d", i))
			}
		}
		sch.Blocks = append(sch.Blocks, h)
	}
	return sch
}

// jsonBody dumps a JSON body as an abstract body (Dec/Decode.v [abody]): attributes as evaluated
// values with their error-ness.  Anything this walk does not account for makes the case "skipped".
func (d *dumper) jsonBody(b hcl.Body, specs []*gspec) string {
	ls := &levelSchema{blocks: map[string]*gspec{}}
	for _, s := range specs {
		ls.add(s)
	}
	content, remain, diags := b.PartialContent(ls.hcl())
	if diags.HasErrors() {
		d.bad = "json body: " + diags.Error()
	}
	if rest, _ := remain.JustAttributes(); len(rest) > 0 {
		d.bad = "json body with items outside the schema"
	}
	var blocks []string
	for _, k := range content.Blocks {
		s := ls.blocks[k.Type]
		if s.Kind == "blockattrs" {
			as, dg := k.Body.JustAttributes()
			if dg.HasErrors() {
				d.bad = "json attrs body: " + dg.Error()
			}
			blocks = append(blocks, d.block(k.Type, k.Labels,
				fmt.Sprintf("(ABody %s [] false %s)", d.jsonAttrs(as), hv.CoqMarks(nil))))
			continue
		}
		blocks = append(blocks, d.block(k.Type, k.Labels, d.jsonBody(k.Body, []*gspec{s.nested()})))
	}
	return fmt.Sprintf("(ABody %s %s false %s)", d.jsonAttrs(content.Attributes), hv.CoqList(blocks), hv.CoqMarks(nil))
}

func (d *dumper) jsonAttrs(as hcl.Attributes) string {
	names := make([]string, 0, len(as))
	for n := range as {
		names = append(names, n)
	}
	sort.Slice(names, func(i, j int) bool { return as[names[i]].Range.Start.Byte < as[names[j]].Range.Start.Byte })
	var out []string
	for _, n := range names {
		v, dg := as[n].Expr.Value(d.ctx)
		out = append(out, "("+hv.CoqStr(n)+", AVal "+hv.CoqVal(v, d.info)+" "+hv.CoqBool(dg.HasErrors())+")")
	}
	return hv.CoqList(out)
}

// implied: the type the documentation of each spec kind promises (hcldec/spec.go doc comments),
// computed from the harness's own spec tree.
func (s *gspec) implied() cty.Type {
	switch s.Kind {
	case "object":
		m := map[string]cty.Type{}
		for i, k := range s.Keys {
			m[k] = s.Kids[i].implied()
		}
		return cty.Object(m)
	case "tuple":
		ts := []cty.Type{}
		for _, k := range s.Kids {
			ts = append(ts, k.implied())
		}
		return cty.Tuple(ts)
	case "attr":
		return tyOf(s.Type)
	case "literal":
		return litOf(s.Lit).Type()
	case "expr", "blocktuple", "blockobject":
		return cty.DynamicPseudoType
	case "block":
		return s.nested().implied()
	case "blocklist":
		return cty.List(s.nested().implied())
	case "blockset":
		return cty.Set(s.nested().implied())
	case "blockmap":
		t := s.nested().implied()
		for range s.Labels {
			t = cty.Map(t)
		}
		return t
	case "blockattrs":
		return cty.Map(tyOf(s.Type))
	case "blocklabel":
		return cty.String
	case "default", "refine", "validate":
		return s.Kids[0].implied()
	case "transformexpr":
		chi := transformCtx(s.NilCtx).NewChild()
		chi.Variables = map[string]cty.Value{s.Name: cty.UnknownVal(s.Kids[0].implied())}
		v, _ := parseExpr(s.Expr).Value(chi)
		return v.Type()
	case "transformfunc":
		t, err := hv.HarnessFuncs[s.Func].ReturnType([]cty.Type{s.Kids[0].implied()})
		if err != nil {
			return cty.DynamicPseudoType
		}
		return t
	}
	panic("unknown spec kind " + s.Kind)
}

func ownImplied(s *gspec) (t cty.Type, ok bool) {
	defer func() {
		if recover() != nil {
			t, ok = cty.DynamicPseudoType, false
		}
	}()
	return s.implied(), true
}

// ---- hand corpus ------------------------------------------------------------------------------

func exprFailCorpus() []job {
	str, num, boo := tyJSON(cty.String), tyJSON(cty.Number), tyJSON(cty.Bool)
	attr := func(n, t string, req bool) *gspec { return &gspec{Kind: "attr", Name: n, Type: t, Req: req} }
	obj := func(kv ...interface{}) *gspec {
		o := &gspec{Kind: "object"}
		for i := 0; i < len(kv); i += 2 {
			o.Keys = append(o.Keys, kv[i].(string))
			o.Kids = append(o.Kids, kv[i+1].(*gspec))
		}
		return o
	}
	j := func(s *gspec, body string, isJSON bool) job {
		return job{in: input{Spec: s, Body: body, JSON: isJSON}, pert: "corpus", tags: []string{"exprfail:corpus"}}
	}
	pre := func(s *gspec, body string, isJSON bool) job {
		return job{in: input{Spec: s, Body: body, JSON: isJSON}, pert: "precondition:transformexpr-fails-on-value", violate: true}
	}
	listStr := tyJSON(cty.List(cty.String))
	return []job{
		// an attribute whose expression fails: the result is an unknown of the attribute's type
		j(attr("a", str, true), "a = nope\n", false),
		j(obj("a", attr("a", tyJSON(cty.List(cty.Number)), false), "b", attr("b", boo, false)), "a = missing_fn(1)\nb = v_bool\n", false),
		// one block of several fails, under a map / a list / a set of blocks
		j(&gspec{Kind: "blockmap", Name: "b", Labels: []string{"name"}, Kids: []*gspec{obj("a", attr("a", str, false))}},
			"b \"x\" {\n  a = \"fine\"\n}\nb \"y\" {\n  a = nope\n}\n", false),
		j(&gspec{Kind: "blocklist", Name: "b", Kids: []*gspec{obj("a", attr("a", tyJSON(cty.List(cty.Number)), false), "b", attr("b", boo, false))}},
			"{\"b\": [{\"a\": [1], \"b\": true}, {\"a\": \"${missing_fn(1)}\", \"b\": \"${v_bool}\"}]}\n", true),
		j(&gspec{Kind: "blockset", Name: "b", Kids: []*gspec{attr("a", num, false)}},
			"b {\n  a = 1\n}\nb {\n  a = 1 + \"a\"\n}\nb {\n  a = [][0]\n}\n", false),
		// BlockAttrs, Default arm, Refine over Validate, TransformFunc
		j(&gspec{Kind: "blockattrs", Name: "b", Type: str, Req: true}, "b {\n  x = \"s\"\n  y = upper(1, 2)\n}\n", false),
		j(&gspec{Kind: "default", Kids: []*gspec{attr("a", str, false), attr("b", str, true)}}, "b = 1 + \"a\"\n", false),
		j(&gspec{Kind: "refine", Func: "notnull", Kids: []*gspec{{Kind: "validate", Func: "notnull", Kids: []*gspec{attr("a", num, false)}}}},
			"{\"a\": \"${nope}\"}\n", true),
		j(&gspec{Kind: "transformfunc", Func: "upper", Kids: []*gspec{attr("a", str, false)}}, "{\"a\": \"${\"}\n", true),
		// outside the preconditions (Dec/Spec.v texpr_ok): a transform expression that fails on SOME values of
		// the wrapped type though it type-checks on the unknown - decode returns the evaluator's placeholder
		pre(&gspec{Kind: "transformexpr", Name: "v", Expr: "v[0]", Kids: []*gspec{attr("a", listStr, false)}}, "a = []\n", false),
		pre(&gspec{Kind: "blocklist", Name: "b", Kids: []*gspec{{Kind: "transformexpr", Name: "v", Expr: "v[0]", Kids: []*gspec{attr("a", listStr, false)}}}},
			"{\"b\": [{\"a\": [\"x\"]}, {\"a\": []}]}\n", true),
	}
}
