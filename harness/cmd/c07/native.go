package main

// Native expressions, templates and JSON expressions.

import (
	"encoding/json"
	"fmt"
	"sort"
	"strings"

	"github.com/hashicorp/hcl/v2"
	"github.com/hashicorp/hcl/v2/hclsyntax"
	hcljson "github.com/hashicorp/hcl/v2/json"
	"github.com/zclconf/go-cty/cty"
	"hclverif/hv"
)

// ---- generation -----------------------------------------------------------------------

func sortedVarNames(g *hv.EvalGen) []string { return hv.SortedKeys(g.Vars) }

func isColl(v cty.Value) bool {
	ty := v.Type()
	return ty.IsCollectionType() || ty.IsTupleType() || ty.IsObjectType()
}

// collText returns a collection-valued expression; with mention != "" it prefers
// one that has a FREE occurrence of that name.
func collText(g *hv.EvalGen, mention string) string {
	r := g.R
	if mention != "" && r.Chance(0.5) {
		if v, ok := g.Vars[mention]; ok && isColl(v) {
			return mention
		}
		return "[" + mention + ", " + mention + "]"
	}
	var cands []string
	for _, n := range sortedVarNames(g) {
		if isColl(g.Vars[n]) {
			cands = append(cands, n)
		}
	}
	if len(cands) > 0 && r.Chance(0.6) {
		return cands[r.Intn(len(cands))]
	}
	if r.Chance(0.3) {
		return g.GenTopExpr()
	}
	return r.Pick(`["a", "b"]`, `[1, 2, 3]`, `{k1 = "a", k2 = "b"}`, `[[1, 2], [3]]`, `[]`, `[{a = 1}, {a = 2}]`)
}

// shadowWrap puts a generated expression under a for expression (or template for
// directive) whose iterator shadows a variable of the scope.
func shadowWrap(g *hv.EvalGen, feat map[string]int) string {
	r := g.R
	names := sortedVarNames(g)
	if len(names) == 0 {
		return g.GenTopExpr()
	}
	nm := names[r.Intn(len(names))]
	inner := g.GenTopExpr()
	if r.Chance(0.6) {
		inner = "[" + nm + ", " + inner + "]"
	}
	mention := ""
	if r.Chance(0.4) {
		mention = nm
		feat["shadow:collection-mentions-iterator"]++
	}
	coll := collText(g, mention)
	cond := ""
	if r.Chance(0.4) {
		cond = " if " + r.Pick(nm+" != null", "true", nm+" == "+nm, g.GenTopExpr())
		feat["shadow:if"]++
	}
	switch r.Intn(5) {
	case 0:
		feat["shadow:tuple-for"]++
		return "[for " + nm + " in " + coll + " : " + inner + cond + "]"
	case 1:
		feat["shadow:tuple-for-key"]++
		return "[for " + nm + ", v2 in " + coll + " : " + inner + cond + "]"
	case 2:
		feat["shadow:object-for"]++
		return "{for i, " + nm + " in " + coll + " : \"k${i}\" => " + inner + cond + "}"
	case 3:
		feat["shadow:nested-for"]++
		return "[for " + nm + " in " + coll + " : [for " + nm + " in [" + nm + "] : " + inner + "]" + cond + "]"
	default:
		feat["shadow:template-for"]++
		return "\"%{ for " + nm + " in " + coll + " }${" + nm + " == null}${" + inner + " == null}%{ endfor }\""
	}
}

// templateBody returns template source (what stands between the quotes).
func templateBody(g *hv.EvalGen, feat map[string]int) string {
	r := g.R
	var sb strings.Builder
	n := 1 + r.Small(3)
	for i := 0; i < n; i++ {
		switch r.Intn(6) {
		case 0:
			sb.WriteString(r.Pick("a", "x ", " - ", "=", "1"))
		case 1, 2:
			feat["tmpl:interp"]++
			sb.WriteString("${" + g.GenTopExpr() + "}")
		case 3:
			feat["tmpl:if"]++
			sb.WriteString("%{ if " + g.GenTopExpr() + " }${" + g.GenTopExpr() + "}%{ else }n%{ endif }")
		default:
			feat["tmpl:for"]++
			names := sortedVarNames(g)
			it := "x"
			if len(names) > 0 && r.Chance(0.5) {
				it = names[r.Intn(len(names))]
				feat["tmpl:for-shadows-scope"]++
			}
			mention := ""
			if r.Chance(0.3) {
				mention = it
			}
			sb.WriteString("%{ for " + it + " in " + collText(g, mention) + " }${" + it + " == null}-${" + g.GenTopExpr() + " == null}%{ endfor }")
		}
	}
	return sb.String()
}

// ---- JSON -----------------------------------------------------------------------------

// jnode is the generator's own view of a JSON expression (so that the expected
// free names can be computed without the json package's AST).
type jnode struct {
	str  *string // a string: evaluated as a template
	lit  string  // number / true / false / null literal text
	arr  []*jnode
	keys []string // object: key strings (templates)
	vals []*jnode
}

func genJSON(g *hv.EvalGen, feat map[string]int, depth int) *jnode {
	r := g.R
	k := r.Intn(8)
	if depth <= 0 && k >= 5 {
		k = r.Intn(5)
	}
	switch k {
	case 0:
		feat["json:literal"]++
		return &jnode{lit: r.Pick("1", "2.5", "true", "false", "null")}
	case 1, 2, 3, 4:
		feat["json:string-template"]++
		var s string
		switch x := r.Intn(100); {
		case x < 10:
			s = "${" + nestExpr(g, feat) + "}"
		case x < 20:
			s = nestTemplate(g, feat)
		case x < 40:
			s = "${" + shadowWrap(g, feat) + "}"
		default:
			s = templateBody(g, feat)
		}
		return &jnode{str: &s}
	case 5:
		feat["json:array"]++
		n := &jnode{arr: []*jnode{}}
		for i, m := 0, r.Small(3); i < m; i++ {
			n.arr = append(n.arr, genJSON(g, feat, depth-1))
		}
		return n
	default:
		feat["json:object"]++
		n := &jnode{keys: []string{}}
		for i, m := 0, 1+r.Small(2); i < m; i++ {
			var key string
			switch r.Intn(3) {
			case 0:
				key = r.Pick("a", "b", "k")
			case 1:
				feat["json:template-key"]++
				key = "k${" + g.GenTopExpr() + "}"
			default:
				feat["json:template-key"]++
				key = templateBody(g, feat)
			}
			n.keys = append(n.keys, key)
			n.vals = append(n.vals, genJSON(g, feat, depth-1))
		}
		return n
	}
}

func (n *jnode) text() string {
	switch {
	case n.str != nil:
		b, _ := json.Marshal(*n.str)
		return string(b)
	case n.arr != nil:
		ps := make([]string, len(n.arr))
		for i, c := range n.arr {
			ps[i] = c.text()
		}
		return "[" + strings.Join(ps, ", ") + "]"
	case n.keys != nil:
		ps := make([]string, len(n.keys))
		for i := range n.keys {
			b, _ := json.Marshal(n.keys[i])
			ps[i] = string(b) + ": " + n.vals[i].text()
		}
		return "{" + strings.Join(ps, ", ") + "}"
	}
	return n.lit
}

// ---- oracles ---------------------------------------------------------------------------

// staticNative compares Variables() with the independent free-name computation.
func staticNative(rep *hv.Report, input string, e hclsyntax.Expression, R map[string]bool) {
	fv := freeOf(e)
	for n := range fv.unknown {
		rep.Hist("twin:unknown-node:" + n)
	}
	for _, kw := range fv.forced {
		rep.Fail(hv.Failure{Kind: "forced-key-literal", Input: input,
			Detail: fmt.Sprintf("the parser built ObjectConsKeyExpr{ForceNonLiteral: true} around the bare name %q: walkChildNodes skips it, Value evaluates it", kw)})
	}
	for _, n := range hv.SortedKeys(fv.free) {
		if !R[n] {
			rep.Fail(hv.Failure{Kind: "free-variable-unreported", Input: input,
				Detail: fmt.Sprintf("%q occurs free but Variables() reports only {%s}", n, rootList(R)), Extra: map[string]string{"variable": n}})
		}
	}
	for _, n := range hv.SortedKeys(R) {
		if fv.binders[n] && !fv.free[n] {
			rep.Fail(hv.Failure{Kind: "bound-name-reported", Input: input,
				Detail: fmt.Sprintf("%q is only ever bound by a for expression / template for directive, yet Variables() reports it", n), Extra: map[string]string{"variable": n}})
		}
		if fv.binders[n] && fv.free[n] {
			rep.Hist("static:iterator-name-also-free(reported)")
		}
	}
	if len(fv.binders) > 0 {
		rep.Hist("static:has-binders")
	}
}

func resultHist(rep *hv.Report, kind, full string) {
	seen := map[string]bool{}
	for _, l := range strings.Split(full, "\n")[1:] {
		if f := strings.SplitN(l, "|", 3); len(f) == 3 && !seen[f[1]] {
			seen[f[1]] = true
			rep.Hist(kind + ":diag:" + f[1])
		}
	}
	switch {
	case strings.Contains(full, "\n1|"):
		rep.Hist(kind + ":result:error")
	case strings.Contains(strings.SplitN(full, "\n", 2)[0], "(unk "):
		rep.Hist(kind + ":result:unknown")
	default:
		rep.Hist(kind + ":result:known")
	}
}

func runNative(rep *hv.Report, r *hv.Rng, input, text string, ctx *hcl.EvalContext, template bool) {
	kind := "native"
	var expr hclsyntax.Expression
	var pd hcl.Diagnostics
	if template {
		kind = "template"
		expr, pd = hclsyntax.ParseTemplate([]byte(text), "t.tmpl", hcl.InitialPos)
	} else {
		expr, pd = hclsyntax.ParseExpression([]byte(text), "e.hcl", hcl.InitialPos)
	}
	if pd.HasErrors() {
		rep.Hist(kind + ":parse-error")
		return
	}
	var vars []hcl.Traversal
	func() {
		defer func() {
			if p := recover(); p != nil {
				rep.Fail(hv.Failure{Kind: "panic", Detail: fmt.Sprint("Variables(): ", p), Input: input})
			}
		}()
		vars = expr.Variables()
	}()
	R := roots(vars)
	rep.Hist(fmt.Sprintf("%s:roots:%d", kind, min(len(R), 6)))
	staticNative(rep, input, expr, R)
	// occurrence by occurrence: the reported traversals are exactly the root-scope references (refs.go)
	rw := refsOf(expr)
	rw.hist(rep, "forscope:"+kind+":")
	compareRefs(rep, input, "Variables()", vars, rw, len(rw.unknown) == 0)
	full, _ := checkScopes(rep, r, "", input, ctx, R, func(c *hcl.EvalContext) string {
		v, d := expr.Value(c)
		return outcome(v, d, false)
	}, nil)
	resultHist(rep, kind, full)
}

// freeOfJSON: expected free names / binders of a generated JSON expression.
func freeOfJSON(n *jnode, fv *fvState) {
	tmpl := func(s string) {
		e, d := hclsyntax.ParseTemplate([]byte(s), "", hcl.InitialPos)
		if d.HasErrors() {
			return // Value() reports the syntax error; nothing is evaluated
		}
		fv.walk(e, nil)
	}
	switch {
	case n.str != nil:
		tmpl(*n.str)
	case n.arr != nil:
		for _, c := range n.arr {
			freeOfJSON(c, fv)
		}
	case n.keys != nil:
		for i := range n.keys {
			tmpl(n.keys[i])
			freeOfJSON(n.vals[i], fv)
		}
	}
}

// refsOfJSON: root-scope references / local occurrences of a generated JSON expression,
// template by template (every string and every object key is a template of its own).
func refsOfJSON(n *jnode, w *refWalker) {
	tmpl := func(s string) {
		e, d := hclsyntax.ParseTemplate([]byte(s), "", hcl.InitialPos)
		if d.HasErrors() {
			return // Variables() reports nothing for a template that does not parse
		}
		w.walk(e, nil, "", true)
		w.closedShadow, w.closedFor = map[string]int{}, map[string]int{}
	}
	switch {
	case n.str != nil:
		tmpl(*n.str)
	case n.arr != nil:
		for _, c := range n.arr {
			refsOfJSON(c, w)
		}
	case n.keys != nil:
		for i := range n.keys {
			tmpl(n.keys[i])
			refsOfJSON(n.vals[i], w)
		}
	}
}

func runJSON(rep *hv.Report, r *hv.Rng, input, text string, tree *jnode, ctx *hcl.EvalContext) {
	expr, pd := hcljson.ParseExpression([]byte(text), "e.json")
	if pd.HasErrors() {
		rep.Hist("json:parse-error")
		return
	}
	jvars := expr.Variables()
	R := roots(jvars)
	rep.Hist(fmt.Sprintf("json:roots:%d", min(len(R), 6)))
	if tree != nil {
		fv := newFV()
		freeOfJSON(tree, fv)
		for _, n := range hv.SortedKeys(fv.free) {
			if !R[n] {
				rep.Fail(hv.Failure{Kind: "free-variable-unreported", Input: input,
					Detail: fmt.Sprintf("JSON expression: %q occurs free in a template but Variables() reports only {%s}", n, rootList(R)), Extra: map[string]string{"variable": n}})
			}
		}
		for _, n := range hv.SortedKeys(R) {
			if fv.binders[n] && !fv.free[n] {
				rep.Fail(hv.Failure{Kind: "bound-name-reported", Input: input,
					Detail: fmt.Sprintf("JSON expression: %q is only ever bound by a for expression / template for directive, yet Variables() reports it", n), Extra: map[string]string{"variable": n}})
			}
		}
		// how often each root name is referenced (positions inside JSON strings are not comparable)
		rw := newRefWalker()
		refsOfJSON(tree, rw)
		rw.hist(rep, "forscope:json:")
		if len(rw.unknown) == 0 {
			want, got, local := rootCounts(rw.refs), rootCounts(jvars), rootCounts(rw.locals)
			names := map[string]bool{}
			for n := range want {
				names[n] = true
			}
			for n := range got {
				names[n] = true
			}
			for _, n := range hv.SortedKeys(names) {
				switch {
				case got[n] > want[n] && local[n] > 0:
					rep.Fail(hv.Failure{Kind: "bound-name-reported", Input: input, Extra: map[string]string{"variable": n},
						Detail: fmt.Sprintf("JSON expression: Variables() reports %q %d times, but only %d of its occurrences refer to the root scope (%d are bound by a for expression / template for directive)", n, got[n], want[n], local[n])})
				case got[n] > want[n]:
					rep.Fail(hv.Failure{Kind: "reported-traversal-not-a-reference", Input: input, Extra: map[string]string{"variable": n},
						Detail: fmt.Sprintf("JSON expression: Variables() reports %q %d times, the templates reference it %d times", n, got[n], want[n])})
				case got[n] < want[n]:
					rep.Fail(hv.Failure{Kind: "unreported-variable", Input: input, Extra: map[string]string{"variable": n},
						Detail: fmt.Sprintf("JSON expression: Variables() reports %q %d times, the templates reference the root-scope variable %d times", n, got[n], want[n])})
				}
			}
		}
	}
	full, _ := checkScopes(rep, r, "", input, ctx, R, func(c *hcl.EvalContext) string {
		v, d := expr.Value(c)
		return outcome(v, d, false)
	}, nil)
	resultHist(rep, "json", full)
}

// astOnlyProbe documents the ObjectConsKeyExpr inconsistency on a hand-built AST
// (not reachable through the parser): histogram only.
func astOnlyProbe(rep *hv.Report) {
	rng := hcl.Range{Filename: "ast"}
	key := &hclsyntax.ObjectConsKeyExpr{
		Wrapped:         &hclsyntax.ScopeTraversalExpr{Traversal: hcl.Traversal{hcl.TraverseRoot{Name: "x", SrcRange: rng}}, SrcRange: rng},
		ForceNonLiteral: true,
	}
	obj := &hclsyntax.ObjectConsExpr{Items: []hclsyntax.ObjectConsItem{{KeyExpr: key, ValueExpr: &hclsyntax.LiteralValueExpr{Val: cty.True, SrcRange: rng}}}, SrcRange: rng}
	R := roots(obj.Variables())
	mk := func(s string) *hcl.EvalContext {
		return &hcl.EvalContext{Variables: map[string]cty.Value{"x": cty.StringVal(s)}}
	}
	v1, _ := obj.Value(mk("a"))
	v2, _ := obj.Value(mk("b"))
	names := hv.SortedKeys(R)
	sort.Strings(names)
	if len(R) == 0 && !v1.RawEquals(v2) {
		rep.Hist("ast-only:ObjectConsKeyExpr{ForceNonLiteral,bare-name}:reads-unreported-variable")
		rep.Notes = append(rep.Notes, "hand-built AST ObjectConsExpr{ObjectConsKeyExpr{Wrapped: ScopeTraversalExpr x, ForceNonLiteral: true}: true}: Variables() = [] but Value() reads x ("+hv.DumpVal(v1)+" vs "+hv.DumpVal(v2)+"); the parser never builds this node (checked per case: kind forced-key-literal)")
	} else {
		rep.Hist("ast-only:ObjectConsKeyExpr{ForceNonLiteral,bare-name}:consistent")
	}
}
