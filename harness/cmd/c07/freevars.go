package main

// An independent computation of the free root names of a native expression:
// explicit recursion over the node types with an explicit stack of binders,
// following what each Value method evaluates in which context.  It does not
// use hclsyntax.Walk / ChildScope / walkChildNodes (the code under test).

import (
	"fmt"

	"github.com/hashicorp/hcl/v2"
	"github.com/hashicorp/hcl/v2/hclsyntax"
)

type fvState struct {
	free    map[string]bool // names with a free occurrence
	binders map[string]bool // names bound by some for expression / template for
	forced  []string        // forced-non-literal keys that are nevertheless bare names (parser must not build these)
	unknown map[string]bool // node types this twin does not know
}

func newFV() *fvState {
	return &fvState{free: map[string]bool{}, binders: map[string]bool{}, unknown: map[string]bool{}}
}

func isBound(stack []map[string]bool, n string) bool {
	for _, s := range stack {
		if s[n] {
			return true
		}
	}
	return false
}

func (s *fvState) walk(e hclsyntax.Expression, stack []map[string]bool) {
	switch t := e.(type) {
	case nil:
	case *hclsyntax.LiteralValueExpr, *hclsyntax.AnonSymbolExpr, *hclsyntax.ExprSyntaxError:
	case *hclsyntax.ScopeTraversalExpr:
		if n := t.Traversal.RootName(); !isBound(stack, n) {
			s.free[n] = true
		}
	case *hclsyntax.RelativeTraversalExpr:
		s.walk(t.Source, stack)
	case *hclsyntax.FunctionCallExpr:
		for _, a := range t.Args {
			s.walk(a, stack)
		}
	case *hclsyntax.ConditionalExpr:
		s.walk(t.Condition, stack)
		s.walk(t.TrueResult, stack)
		s.walk(t.FalseResult, stack)
	case *hclsyntax.IndexExpr:
		s.walk(t.Collection, stack)
		s.walk(t.Key, stack)
	case *hclsyntax.TupleConsExpr:
		for _, x := range t.Exprs {
			s.walk(x, stack)
		}
	case *hclsyntax.ObjectConsExpr:
		for _, it := range t.Items {
			s.walk(it.KeyExpr, stack)
			s.walk(it.ValueExpr, stack)
		}
	case *hclsyntax.ObjectConsKeyExpr:
		if t.ForceNonLiteral {
			if kw := hcl.ExprAsKeyword(t.Wrapped); kw != "" {
				s.forced = append(s.forced, kw)
			}
			s.walk(t.Wrapped, stack)
			return
		}
		// Value(): a bare traversal is either a literal name (one step) or the
		// "Ambiguous attribute key" error (several steps): never evaluated.
		if _, isTrav := t.Wrapped.(*hclsyntax.ScopeTraversalExpr); isTrav {
			return
		}
		s.walk(t.Wrapped, stack)
	case *hclsyntax.ForExpr:
		s.walk(t.CollExpr, stack) // evaluated in the enclosing context
		b := map[string]bool{}
		if t.KeyVar != "" {
			b[t.KeyVar] = true
			s.binders[t.KeyVar] = true
		}
		if t.ValVar != "" {
			b[t.ValVar] = true
			s.binders[t.ValVar] = true
		}
		inner := append(append([]map[string]bool{}, stack...), b)
		s.walk(t.KeyExpr, inner)
		s.walk(t.ValExpr, inner)
		s.walk(t.CondExpr, inner)
	case *hclsyntax.SplatExpr:
		s.walk(t.Source, stack)
		s.walk(t.Each, stack)
	case *hclsyntax.BinaryOpExpr:
		s.walk(t.LHS, stack)
		s.walk(t.RHS, stack)
	case *hclsyntax.UnaryOpExpr:
		s.walk(t.Val, stack)
	case *hclsyntax.TemplateExpr:
		for _, p := range t.Parts {
			s.walk(p, stack)
		}
	case *hclsyntax.TemplateJoinExpr:
		s.walk(t.Tuple, stack)
	case *hclsyntax.TemplateWrapExpr:
		s.walk(t.Wrapped, stack)
	case *hclsyntax.ParenthesesExpr:
		s.walk(t.Expression, stack)
	default:
		s.unknown[nodeName(e)] = true
	}
}

func nodeName(e hclsyntax.Expression) string { return fmt.Sprintf("%T", e) }

func freeOf(e hclsyntax.Expression) *fvState {
	s := newFV()
	// a typed nil guard: hclsyntax.Expression(nil) only
	s.walk(e, nil)
	return s
}
