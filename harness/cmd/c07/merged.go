package main

// Bodies that do NOT come from one parsed file.
//
// The identity of a variable reference is not its source range: applications give
// hcldec.Variables / dynblock.VariablesHCLDec / WalkVariables bodies made by
// hcl.MergeBodies / hcl.MergeFiles from several fragments parsed under the SAME
// display name ("", "<inline>", "main.tf" ...), where DIFFERENT references sit at
// the same line/column/byte of different fragments, and bodies built by a program
// (hclsyntax AST nodes without positions, hcltest mocks, hcl.StaticExpr) whose
// ranges are all zero.  Two streams:
//
//   <kind>-merged  ("merged-same-name")       2-4 fragments of IDENTICAL layout: one
//       layout is generated, every further fragment is the same text with other
//       attribute names / block types / labels of the same length and the variables
//       renamed to other variables of the same length; native, JSON and mixed;
//   <kind>-synth   ("synthetic-zero-ranges")  one generated native body, parsed, and
//       either every hcl.Range of the AST zeroed (a hand-built AST) or rebuilt from
//       hcltest.MockBody / MockExprVariable / MockExprTraversal / MockExprList /
//       MockExprLiteral / hcl.StaticExpr.
//
// Oracles: the scope oracle of scope.go unchanged (pruned / perturbed scopes), plus an
// expectation of the reported ROOT NAMES computed from the text of the fragments by
// this file alone (own reading of native bodies and of JSON, own scope-aware walker
// of refs.go, own knowledge of which attributes / blocks the generated spec reads):
//
//   must  names referenced (root scope) by an expression the decoder is certain to
//         read: every one of them has to be reported          -> unreported-variable
//   may   every root-scope reference anywhere in the fragments: nothing else may be
//         reported                                           -> reported-traversal-not-a-reference
//
// Text format (after the "#c07 kind=... seed=..." line):
//   #--- merged file="main.tf" via=MergeBodies
//   #--- fragment native
//   ...
//   #--- fragment json
//   ...
// and for the synthetic stream
//   #--- synthetic mode=ast-zero|mock
//   ... native body ...

import (
	"bytes"
	"encoding/json"
	"fmt"
	"reflect"
	"regexp"
	"sort"
	"strconv"
	"strings"

	"github.com/hashicorp/hcl/v2"
	"github.com/hashicorp/hcl/v2/ext/dynblock"
	"github.com/hashicorp/hcl/v2/hcldec"
	"github.com/hashicorp/hcl/v2/hclsyntax"
	"github.com/hashicorp/hcl/v2/hcltest"
	hcljson "github.com/hashicorp/hcl/v2/json"
	"github.com/zclconf/go-cty/cty"
	"hclverif/hv"
)

func isBodyX(kind string) bool {
	switch kind {
	case "hcldec-merged", "dynblock-merged", "hcldec-synth", "dynblock-synth":
		return true
	}
	return false
}

func isDynKind(kind string) bool { return strings.HasPrefix(kind, "dynblock") }

// subStream picks the stream of a body case from its case seed (the master stream of
// run() is untouched, so the plain hcldec / dynblock cases stay what they were).
func subStream(kind string, seed uint64) string {
	switch x := (seed >> 17) % 100; {
	case x < 16:
		return kind + "-merged"
	case x < 27:
		return kind + "-synth"
	}
	return kind
}

// ---- spec -----------------------------------------------------------------------------------

// genSpecX: genSpec plus what the class needs: no BlockAttrsSpec under the dynblock walkers
// (pinned finding, classified only for single parsed bodies), both arms of a DefaultSpec
// reading attributes, enough top-level attributes for every fragment to have its own, and
// specs that are not an ObjectSpec at the top (TupleSpec; a single Default/Block* spec).
func genSpecX(r *hv.Rng, dyn bool) *specShape {
	sh := genSpec(r, dyn)
	top := sh.spec.(hcldec.ObjectSpec)
	if dyn && sh.hasAttrsBlock {
		delete(top, "at")
		var bs []*blockInfo
		for _, bi := range sh.blocks {
			if bi.typ != "at" {
				bs = append(bs, bi)
			}
		}
		sh.blocks = bs
		var ns []string
		for _, n := range sh.names {
			if n != "block-attrs" {
				ns = append(ns, n)
			}
		}
		sh.names = ns
		sh.hasAttrsBlock = false
	}
	byKey := map[string][]string{"a": {"a"}, "b": {"b"}, "c": {"c"}}
	if r.Chance(0.5) {
		top["de"] = &hcldec.DefaultSpec{Primary: attr("d", cty.DynamicPseudoType), Default: attr("e", cty.DynamicPseudoType)}
		sh.attrs = append(sh.attrs, "d", "e")
		sh.names = append(sh.names, "default-two-attrs")
		byKey["de"] = []string{"d", "e"}
	}
	for _, nm := range []string{"f", "g"} {
		if len(sh.attrs) < 2 || r.Chance(0.25) {
			top[nm] = attr(nm, cty.DynamicPseudoType)
			sh.attrs = append(sh.attrs, nm)
			sh.names = append(sh.names, "attr-"+nm)
			byKey[nm] = []string{nm}
		}
	}
	switch x := r.Intn(100); {
	case x < 15:
		ts := hcldec.TupleSpec{}
		for _, k := range hv.SortedKeys(top) {
			ts = append(ts, top[k])
		}
		sh.spec = ts
		sh.names = append(sh.names, "top:TupleSpec")
	case x < 32:
		// one spec that needs variables itself, at the top
		var cands []string
		for _, k := range hv.SortedKeys(top) {
			if k == "de" {
				cands = append(cands, k)
			}
			for _, bi := range sh.blocks {
				if bi.typ == k && !bi.free {
					cands = append(cands, k)
				}
			}
		}
		if len(cands) == 0 {
			sh.names = append(sh.names, "top:ObjectSpec")
			break
		}
		k := cands[r.Intn(len(cands))]
		sh.spec = top[k]
		sh.names = append(sh.names, fmt.Sprintf("top:%T", top[k]))
		if as, ok := byKey[k]; ok {
			sh.attrs, sh.blocks = as, nil
		} else {
			sh.attrs = nil
			for _, bi := range sh.blocks {
				if bi.typ == k {
					sh.blocks = []*blockInfo{bi}
					break
				}
			}
		}
	default:
		sh.names = append(sh.names, "top:ObjectSpec")
	}
	return sh
}

// ---- the layout -------------------------------------------------------------------------------

type mattr struct{ name, expr string }

type mblock struct {
	bi         *blockInfo
	dyn        bool
	iter       string   // explicit iterator attribute ("" = none)
	forEach    string   // dynamic
	labelExprs []string // dynamic
	labels     []string // static
	body       *mnode
	only       int // >= 0: present in that fragment only (a block type decoded once, placed last)
}

type mnode struct {
	attrs  []mattr
	blocks []*mblock
}

func (b *bodyGen) mBody(bi *blockInfo) *mnode {
	n := &mnode{}
	for _, a := range bi.attrs {
		if b.r.Chance(0.85) {
			n.attrs = append(n.attrs, mattr{a, b.mExpr(attrKind(bi, a))})
		}
	}
	if bi.inner != nil {
		for i, k := 0, b.r.Small(2); i < k; i++ {
			n.blocks = append(n.blocks, b.mBlock(bi.inner))
		}
	}
	return n
}

// half of the expressions are one plain reference (what the class is about: one
// traversal per attribute, at the same place in every fragment)
func (b *bodyGen) mExpr(k int) string {
	if len(b.scopeIts) == 0 && b.r.Chance(0.45) {
		var names []string
		for _, n := range sortedVarNames(b.g) {
			ty := b.g.Vars[n].Type()
			if k == 0 || (k == 1 && ty == cty.Number) || (k == 2 && ty == cty.String) {
				names = append(names, n)
			}
		}
		if len(names) > 0 {
			b.feat["merged:plain-reference"]++
			return names[b.r.Intn(len(names))]
		}
	}
	return b.expr(k)
}

func (b *bodyGen) mBlock(bi *blockInfo) *mblock {
	r := b.r
	mb := &mblock{bi: bi, only: -1}
	if b.dyn && r.Chance(0.55) {
		mb.dyn = true
		b.feat["dyn:block:"+bi.typ]++
		if len(b.scopeIts) > 0 {
			b.feat["dyn:nested-dynamic"]++
		}
		it := bi.typ
		if r.Chance(0.35) {
			it = r.Pick("it", "jt", "lst", "mp")
			mb.iter = it
			b.feat["dyn:iterator-attr"]++
		}
		mb.forEach = b.forEach(it)
		b.iters[it] = true
		b.scopeIts = append(b.scopeIts, it)
		for i := 0; i < bi.labels; i++ {
			b.feat["dyn:labels"]++
			switch r.Intn(4) {
			case 0:
				mb.labelExprs = append(mb.labelExprs, it+".key")
			case 1:
				mb.labelExprs = append(mb.labelExprs, `"k${`+it+`.key}"`)
			case 2:
				mb.labelExprs = append(mb.labelExprs, `"`+r.Pick("k1", "k2", "k3")+`"`)
			default:
				mb.labelExprs = append(mb.labelExprs, b.expr(2))
			}
		}
		mb.body = b.mBody(bi)
		b.scopeIts = b.scopeIts[:len(b.scopeIts)-1]
		return mb
	}
	b.feat["body:block:"+bi.typ]++
	for i := 0; i < bi.labels; i++ {
		mb.labels = append(mb.labels, r.Pick("k1", "k2", "k3"))
	}
	mb.body = b.mBody(bi)
	return mb
}

// fragPlan: how one fragment differs from the layout (never in length).
type fragPlan struct {
	idx     int
	topName map[string]string      // top-level attribute name -> name in this fragment
	typeOf  map[*mblock]*blockInfo // block type in this fragment
	ren     map[string]string      // variable renaming inside expressions
	json    bool
}

var identRe = regexp.MustCompile(`[A-Za-z_][A-Za-z0-9_]*`)

// renameIdents renames the identifiers of m in expression source: not after "." (attribute
// access) and not before "(" (function name).  Text inside string literals is renamed too;
// that changes a literal, not the layout (the expectation is computed from the final text).
func renameIdents(e string, m map[string]string) string {
	if len(m) == 0 {
		return e
	}
	var sb strings.Builder
	last := 0
	for _, ix := range identRe.FindAllStringIndex(e, -1) {
		s, t := ix[0], ix[1]
		to, ok := m[e[s:t]]
		if !ok || (s > 0 && (e[s-1] == '.' || (e[s-1] >= '0' && e[s-1] <= '9'))) || (t < len(e) && e[t] == '(') {
			continue
		}
		sb.WriteString(e[last:s])
		sb.WriteString(to)
		last = t
	}
	sb.WriteString(e[last:])
	return sb.String()
}

func (p *fragPlan) label(l string) string {
	if len(l) == 2 && l[0] == 'k' && l[1] >= '1' && l[1] <= '3' {
		return "k" + string(rune('1'+(int(l[1]-'1')+p.idx)%3))
	}
	return l
}

func (p *fragPlan) attrName(base, now *blockInfo, name string) string {
	if base == nil {
		if n, ok := p.topName[name]; ok {
			return n
		}
		return name
	}
	for i, a := range base.attrs {
		if a == name && i < len(now.attrs) {
			return now.attrs[i]
		}
	}
	return name
}

func (n *mnode) native(sb *strings.Builder, ind string, p *fragPlan, base, now *blockInfo) {
	for _, a := range n.attrs {
		sb.WriteString(ind + p.attrName(base, now, a.name) + " = " + renameIdents(a.expr, p.ren) + "\n")
	}
	for _, mb := range n.blocks {
		bi := p.typeOf[mb]
		if mb.only >= 0 && mb.only != p.idx {
			continue
		}
		if mb.dyn {
			sb.WriteString(ind + `dynamic "` + bi.typ + "\" {\n")
			sb.WriteString(ind + "  for_each = " + renameIdents(mb.forEach, p.ren) + "\n")
			if mb.iter != "" {
				sb.WriteString(ind + "  iterator = " + renameIdents(mb.iter, p.ren) + "\n")
			}
			if len(mb.labelExprs) > 0 {
				ls := make([]string, len(mb.labelExprs))
				for i, l := range mb.labelExprs {
					ls[i] = renameIdents(l, p.ren)
				}
				sb.WriteString(ind + "  labels = [" + strings.Join(ls, ", ") + "]\n")
			}
			sb.WriteString(ind + "  content {\n")
			mb.body.native(sb, ind+"    ", p, mb.bi, bi)
			sb.WriteString(ind + "  }\n" + ind + "}\n")
			continue
		}
		sb.WriteString(ind + bi.typ)
		for _, l := range mb.labels {
			sb.WriteString(` "` + p.label(l) + `"`)
		}
		sb.WriteString(" {\n")
		mb.body.native(sb, ind+"  ", p, mb.bi, bi)
		sb.WriteString(ind + "}\n")
	}
}

func jq(s string) string {
	var buf bytes.Buffer
	enc := json.NewEncoder(&buf)
	enc.SetEscapeHTML(false)
	enc.Encode(s)
	return strings.TrimSuffix(buf.String(), "\n")
}

func jexprText(e string) string { return jq("${" + e + "}") }

func (n *mnode) json(p *fragPlan, base, now *blockInfo) string {
	var ms []string
	for _, a := range n.attrs {
		ms = append(ms, jq(p.attrName(base, now, a.name))+": "+jexprText(renameIdents(a.expr, p.ren)))
	}
	for _, mb := range n.blocks {
		bi := p.typeOf[mb]
		if mb.only >= 0 && mb.only != p.idx {
			continue
		}
		body := mb.body.json(p, mb.bi, bi)
		if mb.dyn {
			in := []string{`"for_each": ` + jexprText(renameIdents(mb.forEach, p.ren))}
			if mb.iter != "" {
				in = append(in, `"iterator": `+jq(renameIdents(mb.iter, p.ren)))
			}
			if len(mb.labelExprs) > 0 {
				ls := make([]string, len(mb.labelExprs))
				for i, l := range mb.labelExprs {
					ls[i] = jexprText(renameIdents(l, p.ren))
				}
				in = append(in, `"labels": [`+strings.Join(ls, ", ")+"]")
			}
			in = append(in, `"content": `+body)
			ms = append(ms, `"dynamic": {`+jq(bi.typ)+": {"+strings.Join(in, ", ")+"}}")
			continue
		}
		for i := len(mb.labels) - 1; i >= 0; i-- {
			body = "{" + jq(p.label(mb.labels[i])) + ": " + body + "}"
		}
		ms = append(ms, jq(bi.typ)+": "+body)
	}
	return "{" + strings.Join(ms, ", ") + "}"
}

func (n *mnode) allBlocks(out *[]*mblock) {
	for _, mb := range n.blocks {
		*out = append(*out, mb)
		mb.body.allBlocks(out)
	}
}

type mfrag struct {
	json bool
	text string
}

type mergedCase struct {
	file  string
	via   string
	frags []mfrag
}

func (m *mergedCase) text() string {
	var sb strings.Builder
	sb.WriteString("#--- merged file=" + strconv.Quote(m.file) + " via=" + m.via + "\n")
	for _, f := range m.frags {
		if f.json {
			sb.WriteString("#--- fragment json\n")
		} else {
			sb.WriteString("#--- fragment native\n")
		}
		sb.WriteString(f.text)
		if !strings.HasSuffix(f.text, "\n") {
			sb.WriteString("\n")
		}
	}
	return sb.String()
}

func parseMerged(text string) (*mergedCase, error) {
	lines := strings.SplitAfter(text, "\n")
	if len(lines) == 0 || !strings.HasPrefix(lines[0], "#--- merged ") {
		return nil, fmt.Errorf("no '#--- merged' line")
	}
	m := &mergedCase{via: "MergeBodies"}
	hd := strings.TrimSpace(strings.TrimPrefix(lines[0], "#--- merged "))
	if rest, ok := strings.CutPrefix(hd, "file="); ok {
		q, err := strconv.QuotedPrefix(rest)
		if err != nil {
			return nil, err
		}
		m.file, _ = strconv.Unquote(q)
		rest = strings.TrimSpace(rest[len(q):])
		if v, ok := strings.CutPrefix(rest, "via="); ok {
			m.via = v
		}
	}
	for _, l := range lines[1:] {
		if strings.HasPrefix(l, "#--- fragment ") {
			m.frags = append(m.frags, mfrag{json: strings.TrimSpace(strings.TrimPrefix(l, "#--- fragment ")) == "json"})
			continue
		}
		if len(m.frags) == 0 {
			return nil, fmt.Errorf("text before the first fragment")
		}
		m.frags[len(m.frags)-1].text += l
	}
	if len(m.frags) == 0 {
		return nil, fmt.Errorf("no fragment")
	}
	return m, nil
}

// genMerged: one layout, 2-4 fragments of identical layout under one file name.
func (b *bodyGen) genMerged() string {
	r := b.r
	sh := b.sh
	b.feat["stream:merged-same-name"]++
	// the layout (fragment 0)
	top := &mnode{}
	pool := append([]string{}, sh.attrs...)
	for i := len(pool) - 1; i > 0; i-- {
		j := r.Intn(i + 1)
		pool[i], pool[j] = pool[j], pool[i]
	}
	nfr := 2 + r.Small(2)
	slots := 0
	if len(pool) > 0 {
		// every fragment its own attribute names where the spec has enough of them
		slots = min(len(pool), 1+r.Small(2))
		if slots*nfr > len(pool) && r.Chance(0.85) {
			slots = max(1, len(pool)/nfr)
		}
		if len(sh.blocks) > 0 && r.Chance(0.15) {
			slots = 0
		}
	}
	for j := 0; j < slots; j++ {
		top.attrs = append(top.attrs, mattr{pool[j], b.mExpr(attrKind(nil, pool[j]))})
	}
	// block types decoded many times first (every fragment contributes blocks), then the types
	// decoded once: mostly in ONE fragment only (they come last: the layout before them stays identical)
	var order []*blockInfo
	for _, bi := range sh.blocks {
		if bi.multi {
			order = append(order, bi)
		}
	}
	for _, bi := range sh.blocks {
		if !bi.multi {
			order = append(order, bi)
		}
	}
	for _, bi := range order {
		k := r.Small(2)
		if slots == 0 && len(top.blocks) == 0 && k == 0 {
			k = 1
		}
		if !bi.multi && k > 1 && r.Chance(0.8) {
			k = 1
		}
		for i := 0; i < k; i++ {
			mb := b.mBlock(bi)
			if !bi.multi && r.Chance(0.75) {
				mb.only = r.Intn(nfr)
				b.feat["merged:single-block-in-one-fragment"]++
			}
			top.blocks = append(top.blocks, mb)
		}
	}
	var blocks []*mblock
	top.allBlocks(&blocks)

	mode := r.Pick("native", "native", "json", "mixed")
	// the variable universe: scope variables, the extra names, and names that do not exist
	uni := map[string]bool{"w": true, "ww": true, "www": true}
	for _, n := range sortedVarNames(b.g) {
		uni[n] = true
	}
	for _, n := range extraNames {
		uni[n] = true
	}
	byLen := map[int][]string{}
	sameType := map[string][]string{} // scope variables of the same length and type
	for _, n := range hv.SortedKeys(uni) {
		byLen[len(n)] = append(byLen[len(n)], n)
		if v, ok := b.g.Vars[n]; ok {
			for _, o := range sortedVarNames(b.g) {
				if len(o) == len(n) && b.g.Vars[o].Type().Equals(v.Type()) {
					sameType[n] = append(sameType[n], o)
				}
			}
		}
	}
	mc := &mergedCase{file: r.Pick("", "<inline>", "main.tf", "main.tf", "config.hcl", "gen.tf.json"), via: r.Pick("MergeBodies", "MergeBodies", "MergeFiles")}
	njson := 0
	for f := 0; f < nfr; f++ {
		p := &fragPlan{idx: f, topName: map[string]string{}, typeOf: map[*mblock]*blockInfo{}, ren: map[string]string{}}
		switch mode {
		case "json":
			p.json = true
		case "mixed":
			p.json = r.Chance(0.5)
		}
		for _, mb := range blocks {
			p.typeOf[mb] = mb.bi
		}
		if f > 0 {
			for j := 0; j < slots; j++ {
				p.topName[pool[j]] = pool[(f*slots+j)%len(pool)]
			}
			keep := map[string]bool{}
			forced := map[string]string{}
			for _, mb := range blocks {
				if r.Chance(0.35) {
					var cands []*blockInfo
					for _, c := range sh.blocks {
						if len(c.typ) == len(mb.bi.typ) && c.labels == mb.bi.labels && (c.inner != nil) == (mb.bi.inner != nil) && c.free == mb.bi.free && len(c.attrs) == len(mb.bi.attrs) {
							cands = append(cands, c)
						}
					}
					if len(cands) > 0 && mb.bi.typ != "inner" {
						p.typeOf[mb] = cands[r.Intn(len(cands))]
					}
				}
				if mb.dyn && mb.iter == "" {
					if p.typeOf[mb] == mb.bi {
						keep[mb.bi.typ] = true
					} else {
						forced[mb.bi.typ] = p.typeOf[mb].typ
						b.feat["merged:dynamic-default-iterator-renamed"]++
					}
				}
				if p.typeOf[mb] != mb.bi {
					b.feat["merged:block-type-varied"]++
				}
			}
			for _, n := range hv.SortedKeys(uni) {
				c := byLen[len(n)]
				switch {
				case forced[n] != "":
					p.ren[n] = forced[n]
				case keep[n]:
				case len(sameType[n]) > 1 && r.Chance(0.7):
					st := sameType[n]
					p.ren[n] = st[r.Intn(len(st))]
				case r.Chance(0.6):
					p.ren[n] = c[r.Intn(len(c))]
				}
			}
		}
		var txt string
		if p.json {
			njson++
			txt = top.json(p, nil, nil) + "\n"
		} else {
			var sb strings.Builder
			top.native(&sb, "", p, nil, nil)
			txt = sb.String()
		}
		mc.frags = append(mc.frags, mfrag{json: p.json, text: txt})
	}
	switch {
	case njson == 0:
		b.feat["merged:syntax:native"]++
	case njson == nfr:
		b.feat["merged:syntax:json"]++
	default:
		b.feat["merged:syntax:mixed"]++
	}
	return mc.text()
}

// ---- reading the fragments (for the expectation) -------------------------------------------------

// xexpr / xbody: what the expectation needs to know of a fragment, read from its text.
type xexpr interface {
	walkRefs(w *refWalker)
	ident() (string, bool)
}

type xbody interface {
	attr(name string) (xexpr, bool)
	attrsAll() (es []xexpr, hasBlocks bool)
	blocks(typ string, nlabels int) []xbody
	dynBlocks(typ string) []xbody
	allRefs(w *refWalker) // every expression anywhere below
}

// native

type nexpr struct{ e hclsyntax.Expression }

func (x nexpr) walkRefs(w *refWalker) {
	w.walk(x.e, nil, "", false)
	w.closedShadow, w.closedFor = map[string]int{}, map[string]int{}
}

func (x nexpr) ident() (string, bool) {
	if st, ok := x.e.(*hclsyntax.ScopeTraversalExpr); ok && len(st.Traversal) >= 1 {
		if root, ok := st.Traversal[0].(hcl.TraverseRoot); ok {
			return root.Name, true
		}
	}
	return "", false
}

type nbody struct{ b *hclsyntax.Body }

func (x nbody) attr(name string) (xexpr, bool) {
	if a, ok := x.b.Attributes[name]; ok {
		return nexpr{a.Expr}, true
	}
	return nil, false
}

func (x nbody) attrsAll() ([]xexpr, bool) {
	var es []xexpr
	for _, n := range hv.SortedKeys(x.b.Attributes) {
		es = append(es, nexpr{x.b.Attributes[n].Expr})
	}
	return es, len(x.b.Blocks) > 0
}

func (x nbody) blocks(typ string, nlabels int) []xbody {
	var out []xbody
	for _, blk := range x.b.Blocks {
		if blk.Type == typ && len(blk.Labels) == nlabels {
			out = append(out, nbody{blk.Body})
		}
	}
	return out
}

func (x nbody) dynBlocks(typ string) []xbody {
	var out []xbody
	for _, blk := range x.b.Blocks {
		if blk.Type == "dynamic" && len(blk.Labels) == 1 && blk.Labels[0] == typ {
			out = append(out, nbody{blk.Body})
		}
	}
	return out
}

func (x nbody) allRefs(w *refWalker) { bodyRefs(x.b, w) }

// JSON, read with encoding/json's tokenizer (order and duplicate keys kept)

type jv struct {
	kind byte // 's' string, 'a' array, 'o' object, 'l' other literal
	str  string
	arr  []*jv
	keys []string
	vals []*jv
}

func readJV(dec *json.Decoder) (*jv, error) {
	tok, err := dec.Token()
	if err != nil {
		return nil, err
	}
	switch t := tok.(type) {
	case json.Delim:
		switch t {
		case '[':
			n := &jv{kind: 'a'}
			for dec.More() {
				c, err := readJV(dec)
				if err != nil {
					return nil, err
				}
				n.arr = append(n.arr, c)
			}
			_, err := dec.Token()
			return n, err
		case '{':
			n := &jv{kind: 'o'}
			for dec.More() {
				kt, err := dec.Token()
				if err != nil {
					return nil, err
				}
				k, ok := kt.(string)
				if !ok {
					return nil, fmt.Errorf("object key is not a string")
				}
				c, err := readJV(dec)
				if err != nil {
					return nil, err
				}
				n.keys = append(n.keys, k)
				n.vals = append(n.vals, c)
			}
			_, err := dec.Token()
			return n, err
		}
		return nil, fmt.Errorf("unexpected delimiter")
	case string:
		return &jv{kind: 's', str: t}, nil
	}
	return &jv{kind: 'l'}, nil
}

type jexpr struct{ v *jv }

func jtemplate(s string, w *refWalker) {
	e, d := hclsyntax.ParseTemplate([]byte(s), "", hcl.InitialPos)
	if d.HasErrors() {
		return
	}
	w.walk(e, nil, "", true)
	w.closedShadow, w.closedFor = map[string]int{}, map[string]int{}
}

func (x jexpr) walkRefs(w *refWalker) {
	switch x.v.kind {
	case 's':
		jtemplate(x.v.str, w)
	case 'a':
		for _, c := range x.v.arr {
			jexpr{c}.walkRefs(w)
		}
	case 'o':
		for i, k := range x.v.keys {
			jtemplate(k, w)
			jexpr{x.v.vals[i]}.walkRefs(w)
		}
	}
}

func (x jexpr) ident() (string, bool) {
	if x.v.kind == 's' && hclsyntax.ValidIdentifier(x.v.str) {
		return x.v.str, true
	}
	return "", false
}

// a JSON body: one object, or an array of objects
type jbody struct{ objs []*jv }

func jbodyOf(v *jv) jbody {
	switch v.kind {
	case 'o':
		return jbody{[]*jv{v}}
	case 'a':
		var os []*jv
		for _, c := range v.arr {
			if c.kind == 'o' {
				os = append(os, c)
			}
		}
		return jbody{os}
	}
	return jbody{}
}

func (x jbody) attr(name string) (xexpr, bool) {
	for _, o := range x.objs {
		for i, k := range o.keys {
			if k == name {
				return jexpr{o.vals[i]}, true
			}
		}
	}
	return nil, false
}

func (x jbody) attrsAll() ([]xexpr, bool) {
	var es []xexpr
	for _, o := range x.objs {
		for i := range o.keys {
			es = append(es, jexpr{o.vals[i]})
		}
	}
	return es, false
}

// label levels: an object maps a label to the next level; an array lists alternatives
func jcollect(v *jv, nlabels int, want []string, out *[]xbody) {
	switch v.kind {
	case 'a':
		for _, c := range v.arr {
			jcollect(c, nlabels, want, out)
		}
	case 'o':
		if nlabels == 0 {
			*out = append(*out, jbody{[]*jv{v}})
			return
		}
		for i, k := range v.keys {
			if len(want) > 0 && want[0] != k {
				continue
			}
			var rest []string
			if len(want) > 1 {
				rest = want[1:]
			}
			jcollect(v.vals[i], nlabels-1, rest, out)
		}
	}
}

func (x jbody) blocks(typ string, nlabels int) []xbody {
	var out []xbody
	for _, o := range x.objs {
		for i, k := range o.keys {
			if k == typ {
				jcollect(o.vals[i], nlabels, nil, &out)
			}
		}
	}
	return out
}

func (x jbody) dynBlocks(typ string) []xbody {
	var out []xbody
	for _, o := range x.objs {
		for i, k := range o.keys {
			if k == "dynamic" {
				jcollect(o.vals[i], 1, []string{typ}, &out)
			}
		}
	}
	return out
}

func (x jbody) allRefs(w *refWalker) {
	for _, o := range x.objs {
		jexpr{o}.walkRefs(w)
	}
}

// several fragments: the first definition of an attribute wins (the others are
// "Duplicate argument" errors), blocks are concatenated
type mbody struct{ parts []xbody }

func (x mbody) attr(name string) (xexpr, bool) {
	for _, p := range x.parts {
		if e, ok := p.attr(name); ok {
			return e, true
		}
	}
	return nil, false
}

func (x mbody) attrsAll() ([]xexpr, bool) {
	var es []xexpr
	hb := false
	for _, p := range x.parts {
		e, h := p.attrsAll()
		es = append(es, e...)
		hb = hb || h
	}
	return es, hb
}

func (x mbody) blocks(typ string, nlabels int) []xbody {
	var out []xbody
	for _, p := range x.parts {
		out = append(out, p.blocks(typ, nlabels)...)
	}
	return out
}

func (x mbody) dynBlocks(typ string) []xbody {
	var out []xbody
	for _, p := range x.parts {
		out = append(out, p.dynBlocks(typ)...)
	}
	return out
}

func (x mbody) allRefs(w *refWalker) {
	for _, p := range x.parts {
		p.allRefs(w)
	}
}

// ---- the expectation ---------------------------------------------------------------------------

type wantSets struct {
	must       map[string]bool // what decoding (after expansion) certainly reads
	mustExpand map[string]bool // what expansion alone certainly reads (for_each, labels)
	w          *refWalker
}

func (ws *wantSets) add(e xexpr, its []string, expand bool) {
	n := len(ws.w.refs)
	e.walkRefs(ws.w)
	for _, t := range ws.w.refs[n:] {
		name := t.RootName()
		bound := false
		for _, it := range its {
			if it == name {
				bound = true
			}
		}
		if bound {
			continue
		}
		ws.must[name] = true
		if expand {
			ws.mustExpand[name] = true
		}
	}
}

// wantWalk follows the shape of the generated spec (which attributes and block types are
// read at each level) through the fragments.  its: dynamic-block iterators in scope.
func wantWalk(b xbody, attrs []string, blocks []*blockInfo, its []string, dyn bool, ws *wantSets) {
	for _, a := range attrs {
		if e, ok := b.attr(a); ok {
			ws.add(e, its, false)
		}
	}
	for _, bi := range blocks {
		statics := b.blocks(bi.typ, bi.labels)
		var dyns []xbody
		if dyn {
			dyns = b.dynBlocks(bi.typ)
		}
		// a block type that is decoded once: the first block is read; with dynamic blocks
		// around which one is "the first" depends on the expansion, so nothing is demanded
		content := true
		if !bi.multi {
			if len(dyns) > 0 && len(statics)+len(dyns) > 1 {
				content = false
			}
			if len(statics) > 1 {
				statics = statics[:1]
			}
			if len(dyns) > 0 && len(statics) > 0 {
				statics = nil
			}
		}
		var inner []*blockInfo
		if bi.inner != nil {
			inner = []*blockInfo{bi.inner}
		}
		if bi.free {
			// BlockAttrsSpec: every attribute of the (first) block, if it has nothing but attributes;
			// the dynblock walkers report nothing here (pinned finding): nothing demanded of them
			if !dyn && len(statics) > 0 {
				if es, hasBlocks := statics[0].attrsAll(); !hasBlocks {
					for _, e := range es {
						ws.add(e, its, false)
					}
				}
			}
			continue
		}
		for _, sb := range statics {
			if content {
				wantWalk(sb, bi.attrs, inner, its, dyn, ws)
			}
		}
		for _, d := range dyns {
			it := bi.typ
			if e, ok := d.attr("iterator"); ok {
				if n, ok := e.ident(); ok {
					it = n
				} else {
					continue // not a valid dynamic block
				}
			}
			if e, ok := d.attr("for_each"); ok {
				ws.add(e, its, true)
			}
			in := append(append([]string{}, its...), it)
			if e, ok := d.attr("labels"); ok {
				ws.add(e, in, true)
			}
			if content {
				for _, cb := range d.blocks("content", 0) {
					wantWalk(cb, bi.attrs, inner, in, dyn, ws)
				}
			}
		}
	}
}

// compareRoots: must ⊆ reported ⊆ may, by root name.
func compareRoots(rep *hv.Report, input, stream, what string, reported []hcl.Traversal, must, may map[string]bool) {
	got := roots(reported)
	for _, n := range hv.SortedKeys(must) {
		if !got[n] {
			rep.Fail(hv.Failure{Kind: "unreported-variable", Input: input, Extra: map[string]string{"variable": n, "stream": stream},
				Detail: fmt.Sprintf("%s (%s): an expression the decoder reads refers to the root-scope variable %q, which is not reported; reported {%s}, needed by the harness's own reading of the fragments {%s}",
					what, stream, n, rootList(got), rootList(must))})
		}
	}
	for _, n := range hv.SortedKeys(got) {
		if !may[n] {
			rep.Fail(hv.Failure{Kind: "reported-traversal-not-a-reference", Input: input, Extra: map[string]string{"variable": n, "stream": stream},
				Detail: fmt.Sprintf("%s (%s) reports %q, which is no root-scope reference anywhere in the fragments; references {%s}", what, stream, n, rootList(may))})
		}
	}
}

// sameRangeDifferentRoot: evidence that the case is of the class: two reported
// traversals with one hcl.Range and different root names.
func sameRangeDifferentRoot(ts []hcl.Traversal) bool {
	seen := map[hcl.Range]string{}
	for _, t := range ts {
		if len(t) == 0 || t.IsRelative() {
			continue
		}
		r := t.SourceRange()
		if n, ok := seen[r]; ok && n != t.RootName() {
			return true
		}
		seen[r] = t.RootName()
	}
	return false
}

// walkManual drives dynblock.WalkVariables / WalkExpandVariables by hand with schemas
// built from the spec SHAPE (not hcldec.ImpliedSchema / ChildBlockTypes).
func walkManual(node dynblock.WalkVariablesNode, attrs []string, blocks []*blockInfo) []hcl.Traversal {
	schema := &hcl.BodySchema{}
	for _, a := range attrs {
		schema.Attributes = append(schema.Attributes, hcl.AttributeSchema{Name: a})
	}
	byType := map[string]*blockInfo{}
	for _, bi := range blocks {
		bs := hcl.BlockHeaderSchema{Type: bi.typ}
		for i := 0; i < bi.labels; i++ {
			bs.LabelNames = append(bs.LabelNames, "key")
		}
		schema.Blocks = append(schema.Blocks, bs)
		byType[bi.typ] = bi
	}
	vars, children := node.Visit(schema)
	for _, c := range children {
		bi, ok := byType[c.BlockTypeName]
		if !ok || bi.free {
			continue
		}
		var inner []*blockInfo
		if bi.inner != nil {
			inner = []*blockInfo{bi.inner}
		}
		vars = append(vars, walkManual(c.Node, bi.attrs, inner)...)
	}
	return vars
}

// runBodyX: the oracles for one body that is not one parsed file.
//
//	body   the body given to the library
//	xb     the harness's reading of the same source
func runBodyX(rep *hv.Report, r *hv.Rng, input, stream string, dyn bool, body hcl.Body, xb xbody, sh *specShape, ctx *hcl.EvalContext) {
	kind := "hcldec"
	if dyn {
		kind = "dynblock"
	}
	// the expectation
	// ws: what the dynblock walkers have to report (nothing is demanded for BlockAttrsSpec blocks: pinned
	// finding); wsH: what hcldec.Variables has to report for a body without dynamic blocks
	ws := &wantSets{must: map[string]bool{}, mustExpand: map[string]bool{}, w: newRefWalker()}
	wantWalk(xb, sh.attrs, sh.blocks, nil, true, ws)
	wsH := &wantSets{must: map[string]bool{}, mustExpand: map[string]bool{}, w: newRefWalker()}
	if !dyn {
		wantWalk(xb, sh.attrs, sh.blocks, nil, false, wsH)
	}
	all := newRefWalker()
	xb.allRefs(all)
	may := map[string]bool{}
	for _, t := range all.refs {
		may[t.RootName()] = true
	}
	expect := len(ws.w.unknown) == 0 && len(wsH.w.unknown) == 0 && len(all.unknown) == 0
	if dyn {
		rep.Hist(fmt.Sprintf("%s:dynblock:must-roots:%d", stream, min(len(ws.must), 6)))
	} else {
		rep.Hist(fmt.Sprintf("%s:hcldec:must-roots:%d", stream, min(len(wsH.must), 6)))
	}

	call := func(what string, f func() []hcl.Traversal) (ts []hcl.Traversal, ok bool) {
		defer func() {
			if p := recover(); p != nil {
				rep.Fail(hv.Failure{Kind: "panic", Detail: fmt.Sprint(what, ": ", p), Input: input})
				ok = false
			}
		}()
		return f(), true
	}
	hvars, ok := call("hcldec.Variables", func() []hcl.Traversal { return hcldec.Variables(body, sh.spec) })
	if !ok {
		return
	}
	dvars, ok := call("dynblock.VariablesHCLDec", func() []hcl.Traversal { return dynblock.VariablesHCLDec(body, sh.spec) })
	if !ok {
		return
	}
	devars, ok := call("dynblock.ExpandVariablesHCLDec", func() []hcl.Traversal { return dynblock.ExpandVariablesHCLDec(body, sh.spec) })
	if !ok {
		return
	}
	wvars, ok := call("dynblock.WalkVariables", func() []hcl.Traversal { return walkManual(dynblock.WalkVariables(body), sh.attrs, sh.blocks) })
	if !ok {
		return
	}
	wevars, ok := call("dynblock.WalkExpandVariables", func() []hcl.Traversal {
		return walkManual(dynblock.WalkExpandVariables(body), sh.attrs, sh.blocks)
	})
	if !ok {
		return
	}
	for _, ts := range [][]hcl.Traversal{hvars, dvars} {
		if sameRangeDifferentRoot(ts) {
			rep.Hist(stream + ":same-range-different-root")
			break
		}
	}
	if expect {
		rep.Hist(stream + ":expectation-checked")
		if !dyn {
			// without dynamic blocks hcldec.Variables applies, and VariablesHCLDec is its drop-in replacement
			compareRoots(rep, input, stream, "hcldec.Variables", hvars, wsH.must, may)
		}
		compareRoots(rep, input, stream, "dynblock.VariablesHCLDec", dvars, ws.must, may)
		compareRoots(rep, input, stream, "dynblock.ExpandVariablesHCLDec", devars, ws.mustExpand, may)
		compareRoots(rep, input, stream, "dynblock.WalkVariables", wvars, ws.must, may)
		compareRoots(rep, input, stream, "dynblock.WalkExpandVariables", wevars, ws.mustExpand, may)
	} else {
		rep.Hist(stream + ":expectation-skipped(unknown-node)")
	}
	// the scope oracle, unchanged
	if !dyn {
		R := roots(hvars)
		rep.Hist(fmt.Sprintf("%s:hcldec:roots:%d", stream, min(len(R), 6)))
		full, _ := checkScopes(rep, r, "", input, ctx, R, func(c *hcl.EvalContext) string {
			v, d := hcldec.Decode(body, sh.spec, c)
			return outcome(v, d, true)
		}, nil)
		resultHist(rep, stream+":"+kind, full)
		return
	}
	R, RE := roots(dvars), roots(devars)
	rep.Hist(fmt.Sprintf("%s:dynblock:roots:%d", stream, min(len(R), 6)))
	rep.Hist(fmt.Sprintf("%s:dynblock:expand-roots:%d", stream, min(len(RE), 6)))
	full, _ := checkScopes(rep, r, "", input, ctx, R, func(c *hcl.EvalContext) string {
		v, d := hcldec.Decode(dynblock.Expand(body, c), sh.spec, c)
		return outcome(v, d, true)
	}, nil)
	resultHist(rep, stream+":"+kind, full)
	checkScopes(rep, r, "expand-", input, ctx, RE, func(c *hcl.EvalContext) string {
		var sb strings.Builder
		var ds []string
		structure(dynblock.Expand(body, c), sh.spec, &sb, &ds)
		sort.Strings(ds)
		return sb.String() + "\n" + strings.Join(ds, "\n")
	}, nil)
}

func runMerged(rep *hv.Report, r *hv.Rng, input, text string, dyn bool, sh *specShape, ctx *hcl.EvalContext) {
	const stream = "merged-same-name"
	mc, err := parseMerged(text)
	if err != nil {
		rep.Hist(stream + ":bad-format")
		return
	}
	var bodies []hcl.Body
	var files []*hcl.File
	var parts []xbody
	for _, f := range mc.frags {
		if f.json {
			file, d := hcljson.Parse([]byte(f.text), mc.file)
			if d.HasErrors() {
				rep.Hist(stream + ":parse-error")
				return
			}
			v, err := readJV(json.NewDecoder(strings.NewReader(f.text)))
			if err != nil {
				rep.Hist(stream + ":parse-error")
				return
			}
			files, bodies, parts = append(files, file), append(bodies, file.Body), append(parts, jbodyOf(v))
			continue
		}
		file, d := hclsyntax.ParseConfig([]byte(f.text), mc.file, hcl.InitialPos)
		if d.HasErrors() {
			rep.Hist(stream + ":parse-error")
			return
		}
		// the harness's reading: a parse of its own (the body given to the library is not shared)
		own, _ := hclsyntax.ParseConfig([]byte(f.text), mc.file, hcl.InitialPos)
		files, bodies, parts = append(files, file), append(bodies, file.Body), append(parts, nbody{own.Body.(*hclsyntax.Body)})
	}
	rep.Hist(fmt.Sprintf("%s:fragments:%d", stream, len(mc.frags)))
	rep.Hist(fmt.Sprintf("%s:file:%q", stream, mc.file))
	rep.Hist(stream + ":via:" + mc.via)
	var body hcl.Body
	if mc.via == "MergeFiles" {
		body = hcl.MergeFiles(files)
	} else {
		body = hcl.MergeBodies(bodies)
	}
	runBodyX(rep, r, input, stream, dyn, body, mbody{parts}, sh, ctx)
}

// ---- synthetic bodies ---------------------------------------------------------------------------

var rangeType = reflect.TypeOf(hcl.Range{})

// zeroRanges sets every hcl.Range reachable from v (AST nodes, traversal steps) to the zero Range.
func zeroRanges(v reflect.Value, seen map[uintptr]bool) {
	switch v.Kind() {
	case reflect.Ptr:
		if v.IsNil() || seen[v.Pointer()] {
			return
		}
		seen[v.Pointer()] = true
		zeroRanges(v.Elem(), seen)
	case reflect.Interface:
		if v.IsNil() {
			return
		}
		e := v.Elem()
		if e.Kind() == reflect.Ptr {
			zeroRanges(e, seen)
			return
		}
		if e.Kind() == reflect.Struct && v.CanSet() {
			c := reflect.New(e.Type()).Elem()
			c.Set(e)
			zeroRanges(c, seen)
			v.Set(c)
		}
	case reflect.Struct:
		if v.Type() == rangeType {
			if v.CanSet() {
				v.Set(reflect.Zero(rangeType))
			}
			return
		}
		if strings.HasSuffix(v.Type().PkgPath(), "go-cty/cty") || strings.Contains(v.Type().PkgPath(), "go-cty/cty/") {
			return
		}
		for i := 0; i < v.NumField(); i++ {
			if f := v.Field(i); f.CanSet() {
				zeroRanges(f, seen)
			}
		}
	case reflect.Slice:
		for i := 0; i < v.Len(); i++ {
			zeroRanges(v.Index(i), seen)
		}
	case reflect.Map:
		for _, k := range v.MapKeys() {
			if e := v.MapIndex(k); e.Kind() == reflect.Ptr {
				zeroRanges(e, seen)
			}
		}
	}
}

// mockOf rebuilds a (zero-range) native body from hcltest mocks.
type mocker struct{ n int }

func (m *mocker) expr(e hclsyntax.Expression, list bool) hcl.Expression {
	m.n++
	switch x := e.(type) {
	case *hclsyntax.ScopeTraversalExpr:
		if len(x.Traversal) == 1 && m.n%2 == 0 {
			return hcltest.MockExprVariable(x.Traversal.RootName())
		}
		return hcltest.MockExprTraversal(x.Traversal)
	case *hclsyntax.LiteralValueExpr:
		if m.n%2 == 0 {
			return hcltest.MockExprLiteral(x.Val)
		}
		return hcl.StaticExpr(x.Val, hcl.Range{})
	case *hclsyntax.TupleConsExpr:
		// MockExprList.Value builds a cty list (panics on mixed element types): only where the
		// list is taken apart statically (labels of a dynamic block)
		if list {
			es := make([]hcl.Expression, len(x.Exprs))
			for i, c := range x.Exprs {
				es[i] = m.expr(c, false)
			}
			return hcltest.MockExprList(es)
		}
	}
	return e
}

func (m *mocker) body(b *hclsyntax.Body) hcl.Body {
	c := &hcl.BodyContent{Attributes: hcl.Attributes{}}
	for _, n := range hv.SortedKeys(b.Attributes) {
		c.Attributes[n] = &hcl.Attribute{Name: n, Expr: m.expr(b.Attributes[n].Expr, n == "labels")}
	}
	for _, blk := range b.Blocks {
		c.Blocks = append(c.Blocks, &hcl.Block{Type: blk.Type, Labels: append([]string{}, blk.Labels...),
			LabelRanges: make([]hcl.Range, len(blk.Labels)), Body: m.body(blk.Body)})
	}
	return hcltest.MockBody(c)
}

func splitSynth(text string) (mode, src string, ok bool) {
	nl := strings.IndexByte(text, '\n')
	if nl < 0 || !strings.HasPrefix(text, "#--- synthetic ") {
		return "", "", false
	}
	for _, f := range strings.Fields(text[len("#--- synthetic "):nl]) {
		if v, ok := strings.CutPrefix(f, "mode="); ok {
			mode = v
		}
	}
	return mode, text[nl+1:], mode == "ast-zero" || mode == "mock"
}

func runSynth(rep *hv.Report, r *hv.Rng, input, text string, dyn bool, sh *specShape, ctx *hcl.EvalContext) {
	const stream = "synthetic-zero-ranges"
	mode, src, ok := splitSynth(text)
	if !ok {
		rep.Hist(stream + ":bad-format")
		return
	}
	f, pd := hclsyntax.ParseConfig([]byte(src), "", hcl.InitialPos)
	if pd.HasErrors() {
		rep.Hist(stream + ":parse-error")
		return
	}
	own, _ := hclsyntax.ParseConfig([]byte(src), "own.hcl", hcl.InitialPos)
	sb := f.Body.(*hclsyntax.Body)
	zeroRanges(reflect.ValueOf(sb), map[uintptr]bool{})
	var body hcl.Body = sb
	if mode == "mock" {
		body = (&mocker{}).body(sb)
	}
	rep.Hist(stream + ":mode:" + mode)
	runBodyX(rep, r, input, stream, dyn, body, nbody{own.Body.(*hclsyntax.Body)}, sh, ctx)
}
