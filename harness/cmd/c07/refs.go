package main

// The REPORTED side of C07, independently: which occurrences of a name in a
// native expression are references to the enclosing (root) scope, and which are
// uses of a name bound by a for expression / template for directive.  Own scope
// handling (a linked chain of binder sets, one link per for expression), own
// recursion over the node types; nothing of hclsyntax.Walk / ChildScope /
// walkChildNodes / Variables (the code under test) is used.  (A copy of the
// walker written for C10 in cmd/c10/vars.go, extended by the position of every
// LOCAL occurrence and by the scope situations an expression exercises.)
//
// Scope rules of the native syntax, written out on purpose:
//   for expressions: KeyVar/ValVar are local in KeyExpr, ValExpr and CondExpr,
//     NOT in CollExpr (evaluated in the enclosing scope: there the for's own
//     names mean whatever they mean outside); an inner for shadows; when the
//     inner for ends, the name means again what it meant before (the enclosing
//     for's variable, or the root scope); key and value variable may have the
//     same name; template %{for} directives are for expressions under a
//     TemplateJoinExpr;
//   splat: the anonymous symbol is not a variable;
//   object constructor: a key that is a bare identifier (no parentheses) is a
//     literal name, not a reference; `(k)`, `"${k}"` and `a.b` are walked (a bare
//     `a.b` is an evaluation error, but the traversal is there for static
//     analysis: Variables() may report it, it is never a bound name);
//   function names are not variables; only the traversal ROOT decides.
//
// freevars.go is the EVALUATION side (which names Value() reads); this file is
// what Variables() has to return, occurrence by occurrence.

import (
	"fmt"
	"sort"

	"github.com/hashicorp/hcl/v2"
	"github.com/hashicorp/hcl/v2/hclsyntax"
	"hclverif/hv"
)

type scopeEnv struct {
	names  map[string]bool
	parent *scopeEnv
}

func (s *scopeEnv) bound(n string) bool {
	for e := s; e != nil; e = e.parent {
		if e.names[n] {
			return true
		}
	}
	return false
}

type refWalker struct {
	refs    []hcl.Traversal // occurrences that refer to the root scope
	locals  []hcl.Traversal // occurrences that resolve to a for variable
	unknown []string        // node types this walker does not know
	feat    map[string]bool // scope situations (evidence; once per expression)

	// closedShadow[n] > 0: n is bound by an enclosing for, and since that binding
	// began an inner for that re-bound n has ended
	closedShadow map[string]int
	// closedFor[n] > 0: some for binding n has ended earlier in the walk
	closedFor map[string]int
}

func newRefWalker() *refWalker {
	return &refWalker{feat: map[string]bool{}, closedShadow: map[string]int{}, closedFor: map[string]int{}}
}

func travRange(t hcl.Traversal) hcl.Range {
	return hcl.Range{Start: t[0].SourceRange().Start, End: t[len(t)-1].SourceRange().End}
}

// pos: "coll", "key", "val", "cond" of the innermost enclosing for, "" outside any for
func (w *refWalker) walk(e hclsyntax.Expression, env *scopeEnv, pos string, inTemplate bool) {
	switch n := e.(type) {
	case nil:
	case *hclsyntax.LiteralValueExpr, *hclsyntax.AnonSymbolExpr, *hclsyntax.ExprSyntaxError:
	case *hclsyntax.ScopeTraversalExpr:
		if len(n.Traversal) == 0 {
			return
		}
		root, ok := n.Traversal[0].(hcl.TraverseRoot)
		if !ok {
			w.unknown = append(w.unknown, "ScopeTraversalExpr without root step")
			return
		}
		if env.bound(root.Name) {
			w.locals = append(w.locals, n.Traversal)
			w.feat["local-use"] = true
			if w.closedShadow[root.Name] > 0 {
				w.feat["local-use-after-inner-shadowing-for-ended"] = true
				if pos != "" {
					w.feat["local-use-after-inner-shadowing-for-ended:in-"+pos] = true
				}
				if inTemplate {
					w.feat["local-use-after-inner-shadowing-for-ended:in-template"] = true
				}
			}
			return
		}
		w.refs = append(w.refs, n.Traversal)
		if w.closedFor[root.Name] > 0 {
			w.feat["root-ref-after-for-of-same-name-ended"] = true
		}
	case *hclsyntax.ParenthesesExpr:
		w.walk(n.Expression, env, pos, inTemplate)
	case *hclsyntax.RelativeTraversalExpr:
		w.walk(n.Source, env, pos, inTemplate)
	case *hclsyntax.FunctionCallExpr:
		for _, a := range n.Args {
			w.walk(a, env, pos, inTemplate)
		}
	case *hclsyntax.ConditionalExpr:
		w.walk(n.Condition, env, pos, inTemplate)
		w.walk(n.TrueResult, env, pos, inTemplate)
		w.walk(n.FalseResult, env, pos, inTemplate)
	case *hclsyntax.IndexExpr:
		w.walk(n.Collection, env, pos, inTemplate)
		w.walk(n.Key, env, pos, inTemplate)
	case *hclsyntax.TupleConsExpr:
		for _, x := range n.Exprs {
			w.walk(x, env, pos, inTemplate)
		}
	case *hclsyntax.ObjectConsExpr:
		for _, it := range n.Items {
			w.walk(it.KeyExpr, env, pos, inTemplate)
			w.walk(it.ValueExpr, env, pos, inTemplate)
		}
	case *hclsyntax.ObjectConsKeyExpr:
		if !n.ForceNonLiteral {
			if st, ok := n.Wrapped.(*hclsyntax.ScopeTraversalExpr); ok && len(st.Traversal) == 1 {
				if env.bound(st.Traversal.RootName()) {
					w.feat["bare-object-key-named-as-bound-variable"] = true
				}
				return // bare identifier: a literal key
			}
		}
		w.walk(n.Wrapped, env, pos, inTemplate)
	case *hclsyntax.ForExpr:
		own := []string{}
		for _, v := range []string{n.KeyVar, n.ValVar} {
			if v != "" {
				own = append(own, v)
			}
		}
		// the collection: enclosing scope
		nrefs, nlocals := len(w.refs), len(w.locals)
		w.walk(n.CollExpr, env, "coll", inTemplate)
		for _, t := range w.refs[nrefs:] {
			for _, v := range own {
				if t.RootName() == v {
					w.feat["for-collection-mentions-own-variable:root-ref"] = true
				}
			}
		}
		for _, t := range w.locals[nlocals:] {
			for _, v := range own {
				if t.RootName() == v {
					w.feat["for-collection-mentions-own-variable:outer-for-variable"] = true
				}
			}
		}
		w.feat["for"] = true
		if inTemplate {
			w.feat["template-for"] = true
		}
		if env != nil {
			w.feat["nested-for"] = true
			if pos != "" {
				w.feat["nested-for:in-"+pos] = true
			}
		}
		if n.KeyVar != "" && n.KeyVar == n.ValVar {
			w.feat["for-key-and-value-variable-equal"] = true
		}
		child := &scopeEnv{names: map[string]bool{}, parent: env}
		shadowed := map[string]bool{}
		saved := map[string]int{}
		for _, v := range own {
			if env.bound(v) {
				shadowed[v] = true
				w.feat["for-shadows-enclosing-for-variable"] = true
				if pos != "" {
					w.feat["for-shadows-enclosing-for-variable:in-"+pos] = true
				}
			}
			if w.closedFor[v] > 0 {
				w.feat["for-variable-reused-by-later-for"] = true
			}
			child.names[v] = true
			if _, done := saved[v]; !done {
				saved[v] = w.closedShadow[v]
			}
			w.closedShadow[v] = 0 // a fresh binding of v: nothing has shadowed IT yet
		}
		w.walk(n.KeyExpr, child, "key", inTemplate)
		w.walk(n.ValExpr, child, "val", inTemplate)
		w.walk(n.CondExpr, child, "cond", inTemplate)
		for v, old := range saved {
			w.closedShadow[v] = old
			if shadowed[v] {
				w.closedShadow[v]++
			}
			w.closedFor[v]++
		}
	case *hclsyntax.SplatExpr:
		w.walk(n.Source, env, pos, inTemplate)
		w.walk(n.Each, env, pos, inTemplate)
	case *hclsyntax.BinaryOpExpr:
		w.walk(n.LHS, env, pos, inTemplate)
		w.walk(n.RHS, env, pos, inTemplate)
	case *hclsyntax.UnaryOpExpr:
		w.walk(n.Val, env, pos, inTemplate)
	case *hclsyntax.TemplateExpr:
		for _, p := range n.Parts {
			w.walk(p, env, pos, true)
		}
	case *hclsyntax.TemplateJoinExpr:
		w.walk(n.Tuple, env, pos, true)
	case *hclsyntax.TemplateWrapExpr:
		w.walk(n.Wrapped, env, pos, true)
	default:
		w.unknown = append(w.unknown, fmt.Sprintf("%T", e))
	}
}

// refsOf: the root-scope references and the local occurrences of e.
func refsOf(e hclsyntax.Expression) *refWalker {
	w := newRefWalker()
	w.walk(e, nil, "", false)
	return w
}

type refSig struct {
	start, end int
	root       string
}

func (s refSig) String() string { return fmt.Sprintf("%s@[%d,%d)", s.root, s.start, s.end) }

func sigOf(t hcl.Traversal) refSig {
	r := travRange(t)
	return refSig{r.Start.Byte, r.End.Byte, t.RootName()}
}

func sigCounts(ts []hcl.Traversal) map[refSig]int {
	m := map[refSig]int{}
	for _, t := range ts {
		if len(t) == 0 || t.IsRelative() {
			continue
		}
		m[sigOf(t)]++
	}
	return m
}

func sortedSigs(m map[refSig]int) []refSig {
	out := make([]refSig, 0, len(m))
	for s := range m {
		out = append(out, s)
	}
	sort.Slice(out, func(i, j int) bool {
		if out[i].start != out[j].start {
			return out[i].start < out[j].start
		}
		if out[i].end != out[j].end {
			return out[i].end < out[j].end
		}
		return out[i].root < out[j].root
	})
	return out
}

func sigList(m map[refSig]int) string {
	s := ""
	for i, x := range sortedSigs(m) {
		if i > 0 {
			s += " "
		}
		s += x.String()
		if m[x] > 1 {
			s += fmt.Sprintf("x%d", m[x])
		}
	}
	return "[" + s + "]"
}

// compareRefs is the static oracle, occurrence by occurrence: what Variables()
// (or a function built on it) reported against the harness's own expectation.
//
//	exact   reported must EQUAL want (native expressions, templates);
//	        otherwise reported must be a SUBSET of want (bodies: which
//	        attributes are read depends on the spec; dynamic-block iterators are
//	        filtered on top)
//	unreported-variable            an expected root-scope reference is missing
//	bound-name-reported            a reported traversal is an occurrence that is
//	                               bound by a for expression / template for directive
//	reported-traversal-not-a-reference  any other reported traversal that is no
//	                               root-scope reference of the source
func compareRefs(rep *hv.Report, input, what string, reported []hcl.Traversal, w *refWalker, exact bool) {
	got := sigCounts(reported)
	want := sigCounts(w.refs)
	local := sigCounts(w.locals)
	for _, s := range sortedSigs(got) {
		if got[s] <= want[s] || (!exact && want[s] > 0) {
			continue // (bodies: one attribute may be reached through several specs)
		}
		switch {
		case local[s] > 0:
			rep.Fail(hv.Failure{Kind: "bound-name-reported", Input: input, Extra: map[string]string{"variable": s.root},
				Detail: fmt.Sprintf("%s reports %s: at that position %q is the variable of an enclosing for expression / template for directive, not a reference to the root scope; root-scope references by the harness's own scope-aware walk %s, reported %s",
					what, s, s.root, sigList(want), sigList(got))})
		case want[s] > 0:
			rep.Fail(hv.Failure{Kind: "reported-traversal-not-a-reference", Input: input, Extra: map[string]string{"variable": s.root},
				Detail: fmt.Sprintf("%s reports %s %d times, the source has it %d times", what, s, got[s], want[s])})
		default:
			rep.Fail(hv.Failure{Kind: "reported-traversal-not-a-reference", Input: input, Extra: map[string]string{"variable": s.root},
				Detail: fmt.Sprintf("%s reports %s, which is no variable reference of the source; root-scope references by the harness's own walk %s, reported %s", what, s, sigList(want), sigList(got))})
		}
	}
	if !exact {
		return
	}
	for _, s := range sortedSigs(want) {
		if got[s] < want[s] {
			rep.Fail(hv.Failure{Kind: "unreported-variable", Input: input, Extra: map[string]string{"variable": s.root},
				Detail: fmt.Sprintf("%s does not report the root-scope reference %s; root-scope references by the harness's own scope-aware walk %s, reported %s", what, s, sigList(want), sigList(got))})
		}
	}
}

// rootCounts: how often each root name is referenced.
func rootCounts(ts []hcl.Traversal) map[string]int {
	m := map[string]int{}
	for _, t := range ts {
		if len(t) > 0 && !t.IsRelative() {
			m[t.RootName()]++
		}
	}
	return m
}

// bodyRefs walks every attribute expression of a native body, nested blocks included.
func bodyRefs(b *hclsyntax.Body, w *refWalker) {
	for _, name := range hv.SortedKeys(b.Attributes) {
		w.walk(b.Attributes[name].Expr, nil, "", false)
		// situations are per expression: a for in one attribute does not make a
		// use in the next one a "use after"
		w.closedShadow, w.closedFor = map[string]int{}, map[string]int{}
	}
	for _, blk := range b.Blocks {
		bodyRefs(blk.Body, w)
	}
}

func (w *refWalker) hist(rep *hv.Report, prefix string) {
	for _, k := range hv.SortedKeys(w.feat) {
		rep.Hist(prefix + k)
	}
	for _, u := range w.unknown {
		rep.Hist("twin:unknown-node:" + u)
	}
}
