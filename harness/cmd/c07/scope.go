package main

// Scope surgery and outcome printing shared by the four oracles of C07.

import (
	"fmt"
	"regexp"
	"sort"
	"strings"

	"github.com/hashicorp/hcl/v2"
	"github.com/zclconf/go-cty/cty"
	"hclverif/hv"
)

// chain returns the frames of ctx, outermost first.
func chain(ctx *hcl.EvalContext) []*hcl.EvalContext {
	var fr []*hcl.EvalContext
	for c := ctx; c != nil; c = c.Parent() {
		fr = append(fr, c)
	}
	for i, j := 0, len(fr)-1; i < j; i, j = i+1, j-1 {
		fr[i], fr[j] = fr[j], fr[i]
	}
	return fr
}

// rebuild copies the chain, mapping every non-nil Variables map through f.
// A nil map stays nil and a non-nil map stays non-nil (possibly empty): the
// difference is observable ("Variables not allowed" vs "Unknown variable").
func rebuild(ctx *hcl.EvalContext, f func(map[string]cty.Value) map[string]cty.Value) *hcl.EvalContext {
	var cur *hcl.EvalContext
	for _, fr := range chain(ctx) {
		var n *hcl.EvalContext
		if cur == nil {
			n = &hcl.EvalContext{}
		} else {
			n = cur.NewChild()
		}
		n.Functions = fr.Functions
		if fr.Variables != nil {
			n.Variables = f(fr.Variables)
			if n.Variables == nil {
				n.Variables = map[string]cty.Value{}
			}
		}
		cur = n
	}
	return cur
}

// pruneCtx keeps, in every frame, only the names in keep.
func pruneCtx(ctx *hcl.EvalContext, keep map[string]bool) *hcl.EvalContext {
	return rebuild(ctx, func(m map[string]cty.Value) map[string]cty.Value {
		out := map[string]cty.Value{}
		for k, v := range m {
			if keep[k] {
				out[k] = v
			}
		}
		return out
	})
}

// perturbCtx overwrites name in every frame that defines it.
func perturbCtx(ctx *hcl.EvalContext, name string, nv cty.Value) *hcl.EvalContext {
	return rebuild(ctx, func(m map[string]cty.Value) map[string]cty.Value {
		out := map[string]cty.Value{}
		for k, v := range m {
			if k == name {
				out[k] = nv
			} else {
				out[k] = v
			}
		}
		return out
	})
}

// allNames lists every variable name defined anywhere in the chain, sorted.
func allNames(ctx *hcl.EvalContext) []string {
	set := map[string]bool{}
	for c := ctx; c != nil; c = c.Parent() {
		for k := range c.Variables {
			set[k] = true
		}
	}
	return hv.SortedKeys(set)
}

func lookup(ctx *hcl.EvalContext, name string) (cty.Value, bool) {
	for c := ctx; c != nil; c = c.Parent() {
		if v, ok := c.Variables[name]; ok {
			return v, true
		}
	}
	return cty.NilVal, false
}

// a different value of a different type
func perturbed(r *hv.Rng, old cty.Value) cty.Value {
	cands := []cty.Value{
		cty.StringVal("PERTURBED"),
		cty.NumberIntVal(977),
		cty.True,
		cty.NullVal(cty.String),
		cty.UnknownVal(cty.Number),
		cty.ListVal([]cty.Value{cty.StringVal("p1"), cty.StringVal("p2"), cty.StringVal("p3")}),
		cty.ObjectVal(map[string]cty.Value{"key": cty.StringVal("pk"), "value": cty.StringVal("pv"), "a": cty.NumberIntVal(5)}),
		cty.StringVal("PM").Mark("pm"),
		cty.TupleVal([]cty.Value{cty.NumberIntVal(7), cty.False}),
		cty.MapVal(map[string]cty.Value{"pa": cty.NumberIntVal(1), "pb": cty.NumberIntVal(2)}),
	}
	ot, _ := old.Unmark()
	for tries := 0; tries < 20; tries++ {
		c := cands[r.Intn(len(cands))]
		cu, _ := c.Unmark()
		if !cu.Type().Equals(ot.Type()) {
			return c
		}
	}
	return cty.StringVal("PERTURBED")
}

func roots(ts []hcl.Traversal) map[string]bool {
	out := map[string]bool{}
	for _, t := range ts {
		if !t.IsRelative() {
			out[t.RootName()] = true
		}
	}
	return out
}

func rootList(m map[string]bool) string { return strings.Join(hv.SortedKeys(m), ",") }

// Body decoding suggests block/attribute names from Go maps (ImpliedSchema of an
// ObjectSpec): the suggestion varies from call to call, so the body kinds strip
// every suggestion; the expression kinds strip only that of "Unknown variable".
var stripAllSuggestions bool

var didYouMean = regexp.MustCompile(` Did you mean [^?]*\?`)

// diagLines prints severity, summary, detail (minus the scope-dependent name
// suggestion of "Unknown variable") and subject of each diagnostic.
func diagLines(ds hcl.Diagnostics) []string {
	out := make([]string, 0, len(ds))
	for _, d := range ds {
		det := d.Detail
		if d.Summary == "Unknown variable" || stripAllSuggestions {
			det = didYouMean.ReplaceAllString(det, "")
		}
		// go-cty turns a panic inside a function (e.g. big.Float arithmetic on infinities)
		// into an error whose text holds a stack trace with addresses
		if i := strings.Index(det, "panic in function implementation"); i >= 0 {
			det = det[:i] + "panic in function implementation"
		}
		sub := ""
		if d.Subject != nil {
			sub = d.Subject.String()
		}
		out = append(out, fmt.Sprintf("%d|%s|%s|%s", d.Severity, d.Summary, det, sub))
	}
	return out
}

// outcome is the canonical text of (value, diagnostics).
func outcome(v cty.Value, ds hcl.Diagnostics, sortDiags bool) string {
	ls := diagLines(ds)
	if sortDiags {
		sort.Strings(ls)
	}
	return hv.DumpVal(v) + "\n" + strings.Join(ls, "\n")
}

type evalFn func(ctx *hcl.EvalContext) string

func safeEval(f evalFn, ctx *hcl.EvalContext) (out string, panicked any) {
	defer func() {
		if p := recover(); p != nil {
			panicked = p
		}
	}()
	return f(ctx), nil
}

// firstDiff shows the first line on which two outcomes differ.
func firstDiff(a, b string) string {
	la, lb := strings.Split(a, "\n"), strings.Split(b, "\n")
	for i := 0; i < len(la) || i < len(lb); i++ {
		var x, y string
		if i < len(la) {
			x = la[i]
		}
		if i < len(lb) {
			y = lb[i]
		}
		if x != y {
			// common prefix
			p := 0
			for p < len(x) && p < len(y) && x[p] == y[p] {
				p++
			}
			if p > 60 {
				x, y = "..."+x[p-60:], "..."+y[p-60:]
			}
			return fmt.Sprintf("line %d: %s  <>  %s", i, short(x), short(y))
		}
	}
	return "(identical)"
}

func short(s string) string {
	if len(s) > 600 {
		return s[:600] + "..."
	}
	return s
}

// baInfo: what is needed to decide whether a failure of the dynblock walkers is an instance of the
// pinned finding "no variables are reported for blocks decoded by hcldec.BlockAttrsSpec" and nothing else.
//   free      root names with a free occurrence INSIDE the content of a block decoded by BlockAttrsSpec
//             (the names a repaired walker would add), by the harness's own free-variable computation;
//   restClean the same oracle, run on the body with the content of those blocks removed (for_each,
//             labels and iterator of a dynamic block kept), finds nothing: whatever else the body
//             contains is reported completely.
// A failure is filed under the known kind only when restClean holds and it is explained by free:
// pruning to R + free restores the outcome / the unreported variable that matters is in free.
type baInfo struct {
	free      map[string]bool
	restClean bool
}

type scopeFail struct {
	base, detail, variable string
	panicked               bool
}

// scopeFailures is the direct oracle: the outcome in the full scope, in the scope
// pruned to the reported roots, and with every unreported variable perturbed,
// must be identical.
func scopeFailures(r *hv.Rng, ctx *hcl.EvalContext, R map[string]bool, f evalFn) (full string, fails []scopeFail, evals map[string]int, fatal bool) {
	evals = map[string]int{}
	full, p := safeEval(f, ctx)
	if p != nil {
		return "", []scopeFail{{base: "panic", detail: fmt.Sprintf("full scope: %v", p), panicked: true}}, evals, true
	}
	if again, _ := safeEval(f, ctx); again != full {
		return full, []scopeFail{{base: "harness-nondeterminism", detail: "two evaluations in the same scope differ: " + firstDiff(full, again)}}, evals, true
	}
	pr, p := safeEval(f, pruneCtx(ctx, R))
	if p != nil {
		return full, []scopeFail{{base: "panic", detail: fmt.Sprintf("pruned scope {%s}: %v", rootList(R), p), panicked: true}}, evals, true
	}
	evals["eval:pruned"]++
	if pr != full {
		fails = append(fails, scopeFail{base: "pruned-scope-differs",
			detail: fmt.Sprintf("reported roots {%s}; first difference %s\nfull scope gives\n%s\npruned scope gives\n%s", rootList(R), firstDiff(full, pr), short(full), short(pr))})
	}
	for _, nm := range allNames(ctx) {
		if R[nm] {
			continue
		}
		old, _ := lookup(ctx, nm)
		nv := perturbed(r, old)
		out, p := safeEval(f, perturbCtx(ctx, nm, nv))
		evals["eval:unreported-perturbed"]++
		if p != nil {
			fails = append(fails, scopeFail{base: "panic", detail: fmt.Sprintf("%s perturbed: %v", nm, p), panicked: true})
			continue
		}
		if out != full {
			fails = append(fails, scopeFail{base: "unreported-variable-matters", variable: nm,
				detail: fmt.Sprintf("reported roots {%s}; changing unreported %q to %s changes the outcome; first difference %s\nfrom\n%s\nto\n%s", rootList(R), nm, hv.DumpVal(nv), firstDiff(full, out), short(full), short(out))})
		}
	}
	return full, fails, evals, false
}

// checkScopes runs the oracle and reports.  prefix distinguishes the Expand-only variant; ba (nil
// except for dynblock bodies under a spec with a BlockAttrsSpec) decides the "blockattrs:" kinds.
func checkScopes(rep *hv.Report, r *hv.Rng, prefix, input string, ctx *hcl.EvalContext, R map[string]bool, f evalFn, ba *baInfo) (full string, ok bool) {
	full, fails, evals, fatal := scopeFailures(r, ctx, R, f)
	for k, n := range evals {
		for i := 0; i < n; i++ {
			rep.Hist(prefix + k)
		}
	}
	ok = len(fails) == 0
	for _, sf := range fails {
		kind := prefix + sf.base
		switch {
		case sf.base == "panic":
			kind = "panic"
			sf.detail = prefix + sf.detail
		case sf.base == "harness-nondeterminism":
			kind = sf.base
			sf.detail = prefix + sf.detail
			rep.Hist(prefix + "nondeterministic-outcome")
		case ba != nil && ba.restClean && sf.base == "pruned-scope-differs":
			// explained iff adding the names used inside BlockAttrsSpec blocks restores the outcome
			R2, added := map[string]bool{}, false
			for k := range R {
				R2[k] = true
			}
			for k := range ba.free {
				if !R2[k] {
					R2[k], added = true, true
				}
			}
			if added {
				if pr2, p := safeEval(f, pruneCtx(ctx, R2)); p == nil && pr2 == full {
					kind = "blockattrs:" + kind
				}
			}
		case ba != nil && ba.restClean && sf.base == "unreported-variable-matters" && ba.free[sf.variable]:
			kind = "blockattrs:" + kind
		}
		fl := hv.Failure{Kind: kind, Detail: sf.detail, Input: input}
		if sf.variable != "" {
			fl.Extra = map[string]string{"variable": sf.variable}
		}
		rep.Fail(fl)
	}
	if fatal {
		return full, false
	}
	// sensitivity of the oracle (not a check): does perturbing a REPORTED variable show?
	rs := hv.SortedKeys(R)
	if len(rs) > 0 {
		nm := rs[r.Intn(len(rs))]
		if old, found := lookup(ctx, nm); found {
			out, p := safeEval(f, perturbCtx(ctx, nm, perturbed(r, old)))
			if p == nil && out != full {
				rep.Hist(prefix + "sensitivity:reported-perturbation-visible")
			} else {
				rep.Hist(prefix + "sensitivity:reported-perturbation-invisible")
			}
		}
	}
	return full, ok
}
