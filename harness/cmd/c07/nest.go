package main

// The "nest" generator stream: for expressions and template for directives whose
// variable names COLLIDE on purpose.  All names come from a pool of two or three
// (some of them variables of the scope, some not), so that nested, sibling and
// shadowing scopes with equal names, key == value variable, a for's own name in
// its collection, and uses of a name before / inside / after a for that binds
// it, in collection, key, value and condition position and inside template
// directives, all occur with high probability.  What a generated text actually
// exercises is measured on its AST by refs.go (histogram "forscope:...").
//
// The stream draws from the case's Rng only; hv.EvalGen.GenTopExpr is called for
// filler leaves but not changed.

import (
	"fmt"
	"strings"

	"github.com/hashicorp/hcl/v2"
	"github.com/hashicorp/hcl/v2/hclsyntax"
	"github.com/zclconf/go-cty/cty"
	"hclverif/hv"
)

type nestGen struct {
	g    *hv.EvalGen
	r    *hv.Rng
	feat map[string]int
	pool []string
}

var nestExtra = []string{"x", "v", "k", "i", "it"}

func newNestGen(g *hv.EvalGen, feat map[string]int) *nestGen {
	r := g.R
	ng := &nestGen{g: g, r: r, feat: feat}
	scope := sortedVarNames(g)
	n := 2 + r.Intn(2)
	seen := map[string]bool{}
	for len(ng.pool) < n {
		var nm string
		if len(scope) > 0 && r.Chance(0.5) {
			nm = scope[r.Intn(len(scope))]
		} else {
			nm = nestExtra[r.Intn(len(nestExtra))]
		}
		if !seen[nm] {
			seen[nm] = true
			ng.pool = append(ng.pool, nm)
		}
	}
	return ng
}

func (ng *nestGen) name() string { return ng.pool[ng.r.Intn(len(ng.pool))] }

// use: an occurrence of a pool name (what it refers to depends on where it lands)
func (ng *nestGen) use() string {
	nm := ng.name()
	switch ng.r.Intn(8) {
	case 0:
		return nm + "[0]"
	case 1:
		return nm + ".a"
	case 2:
		return `"${` + nm + `}"`
	case 3:
		return "(" + nm + ")"
	case 4:
		return nm + " == null"
	}
	return nm
}

// coll: a collection expression for a for; may mention pool names (the for's
// own names included: in the collection they are NOT bound by that for) and
// may itself hold a for
func (ng *nestGen) coll(depth int) string {
	r := ng.r
	switch r.Intn(10) {
	case 0, 1, 2:
		return ng.name()
	case 3, 4:
		return "[" + ng.use() + ", " + ng.use() + "]"
	case 5:
		if depth > 0 {
			return ng.forExpr(depth-1, false)
		}
		return "[[" + ng.name() + "], [1, 2]]"
	case 6:
		return collText(ng.g, "")
	case 7:
		return "{a = " + ng.use() + ", b = " + ng.name() + "}"
	case 8:
		return `[[1, 2], [3]]`
	}
	return r.Pick(`["a", "b"]`, `[[["a"]], [["b", "c"]]]`, `{k1 = ["a"], k2 = ["b"]}`, `[{a = [1]}, {a = [2, 3]}]`)
}

// header: "x", "k, v" or, deliberately, "x, x"
func (ng *nestGen) header() string {
	r := ng.r
	a := ng.name()
	if r.Chance(0.45) {
		b := ng.name()
		if a == b {
			ng.feat["nest:gen:key-var-equals-value-var"]++
		}
		return a + ", " + b
	}
	return a
}

func (ng *nestGen) forExpr(depth int, forceObj bool) string {
	r := ng.r
	hdr := ng.header()
	coll := ng.coll(depth)
	cond := ""
	if r.Chance(0.4) {
		cond = " if " + ng.cond(depth)
	}
	if forceObj || r.Chance(0.3) {
		key := ng.keyExpr(depth)
		grp := ""
		if r.Chance(0.4) {
			grp = "..."
		}
		return "{for " + hdr + " in " + coll + " : " + key + " => " + ng.expr(depth) + grp + cond + "}"
	}
	return "[for " + hdr + " in " + coll + " : " + ng.expr(depth) + cond + "]"
}

func (ng *nestGen) keyExpr(depth int) string {
	r := ng.r
	switch r.Intn(5) {
	case 0:
		return `"k"`
	case 1:
		return `"${` + ng.name() + `}"`
	case 2:
		if depth > 0 {
			// a for inside the key expression, then a use
			return `"${isnull(` + ng.forExpr(depth-1, false) + `)}-${` + ng.name() + `}"`
		}
	case 3:
		return "upper(" + ng.name() + ")"
	}
	return ng.name()
}

func (ng *nestGen) cond(depth int) string {
	r := ng.r
	switch r.Intn(6) {
	case 0:
		return "true"
	case 1:
		return ng.name() + " != null"
	case 2:
		if depth > 0 {
			// a for inside the condition, then a use of a name it (maybe) re-bound
			return "!isnull(" + ng.forExpr(depth-1, false) + r.Pick(")", "[0])") + " && " + ng.name() + " != null"
		}
	case 3:
		return ng.name() + " == " + ng.name()
	}
	return "[" + ng.use() + "] != []"
}

// seq: the shape that matters most — something that binds (an inner for or a
// template for directive), FOLLOWED in the same expression by uses of names
func (ng *nestGen) seq(depth int) string {
	r := ng.r
	var parts []string
	if r.Chance(0.35) {
		parts = append(parts, ng.use())
	}
	if r.Chance(0.3) {
		parts = append(parts, ng.tmpl(depth-1, true))
	} else {
		parts = append(parts, ng.forExpr(depth-1, false))
	}
	parts = append(parts, ng.use())
	if r.Chance(0.3) {
		// a sibling for, same pool
		parts = append(parts, ng.forExpr(depth-1, false))
		parts = append(parts, ng.use())
	}
	switch r.Intn(4) {
	case 0:
		// object constructor: keys in every form
		var items []string
		for i, p := range parts {
			var k string
			switch r.Intn(4) {
			case 0:
				k = ng.name() // bare key: a literal, even when the name is bound
			case 1:
				k = "(" + ng.name() + ")"
			case 2:
				k = `"${` + ng.name() + `}-` + fmt.Sprint(i) + `"`
			default:
				k = fmt.Sprintf("a%d", i)
			}
			items = append(items, k+" = "+p)
		}
		return "{" + strings.Join(items, ", ") + "}"
	case 1:
		return "first(" + strings.Join(parts, ", ") + ")"
	}
	return "[" + strings.Join(parts, ", ") + "]"
}

func (ng *nestGen) expr(depth int) string {
	r := ng.r
	if depth <= 0 {
		if r.Chance(0.15) {
			return ng.g.GenTopExpr()
		}
		return ng.use()
	}
	switch r.Intn(10) {
	case 0, 1, 2, 3:
		return ng.seq(depth)
	case 4, 5:
		return ng.forExpr(depth-1, false)
	case 6:
		return ng.tmpl(depth-1, true)
	case 7:
		return ng.use() + " ? " + ng.expr(depth-1) + " : " + ng.use()
	case 8:
		return "[" + ng.expr(depth-1) + ", " + ng.g.GenTopExpr() + ", " + ng.use() + "]"
	}
	return ng.use()
}

// tmpl: template text with for directives; quoted = as a quoted template expression
func (ng *nestGen) tmpl(depth int, quoted bool) string {
	var sb strings.Builder
	ng.tmplParts(&sb, depth, 1+ng.r.Intn(3))
	if quoted {
		return `"` + sb.String() + `"`
	}
	return sb.String()
}

func (ng *nestGen) tmplParts(sb *strings.Builder, depth, n int) {
	r := ng.r
	strip := func() string {
		if r.Chance(0.15) {
			return "~"
		}
		return ""
	}
	for i := 0; i < n; i++ {
		switch k := r.Intn(10); {
		case k < 2:
			sb.WriteString(r.Pick("a", "/", " - ", ";"))
		case k < 5:
			sb.WriteString("${" + ng.name() + r.Pick("", "", "[0]", " == null") + "}")
		case k < 6 && depth > 0:
			// an interpolated for EXPRESSION inside template text
			sb.WriteString("${" + r.Pick("isnull(", "first(") + ng.forExpr(depth-1, false) + r.Pick(")", "[0])") + "}")
		case k < 7:
			sb.WriteString("%{" + strip() + " if " + ng.name() + " != null " + strip() + "}")
			ng.tmplParts(sb, depth-1, 1)
			sb.WriteString("%{ else }${" + ng.name() + " == null}%{ endif }")
		default:
			ng.feat["nest:gen:template-for-directive"]++
			sb.WriteString("%{" + strip() + " for " + ng.header() + " in " + ng.coll(depth-1) + " " + strip() + "}")
			inner := 1 + r.Intn(2)
			if depth > 0 {
				inner++
			}
			ng.tmplParts(sb, depth-1, inner)
			sb.WriteString("%{ endfor " + strip() + "}")
			// after endfor the names mean again what they meant before
			if r.Chance(0.6) {
				sb.WriteString("${" + ng.name() + r.Pick("", "[0]", " == null") + "}")
			}
		}
	}
}

// nestExpr / nestTemplate: entry points (an expression; template source text).
func nestExpr(g *hv.EvalGen, feat map[string]int) string {
	ng := newNestGen(g, feat)
	feat["stream:nest"]++
	depth := 2 + ng.r.Intn(2)
	if ng.r.Chance(0.75) {
		return ng.forExpr(depth, false)
	}
	return ng.seq(depth)
}

func nestTemplate(g *hv.EvalGen, feat map[string]int) string {
	ng := newNestGen(g, feat)
	feat["stream:nest"]++
	var sb strings.Builder
	// open with a for directive most of the time: nested directives are the point
	if ng.r.Chance(0.7) {
		sb.WriteString("%{ for " + ng.header() + " in " + ng.coll(1) + " }")
		ng.tmplParts(&sb, 2, 2+ng.r.Intn(2))
		sb.WriteString("%{ endfor }")
		if ng.r.Chance(0.5) {
			sb.WriteString("${" + ng.name() + "}")
		}
	} else {
		ng.tmplParts(&sb, 2, 2+ng.r.Intn(3))
	}
	return sb.String()
}

// ---- model side of the nest stream --------------------------------------------------------------
//
// The Coq model of Variables() (Eval/Vars.v: `variables`, with its functional
// stack of scopes) is compared with the real Variables() by the ceval
// correspondence (Eval/EvalCheck.v: the first thing eval_case_status compares
// is `variables (c_expr c)` with the observed traversal list, in order).  The
// generator of cmd/ceval binds only v / k, v / x and practically never uses a
// name after an inner for that re-bound it, so c07 emits ceval cases of its own
// for the nest stream (native kind), evaluated by the same checker.

type coqCases struct {
	dir   string
	cases []string
	idx   []int // position of the case in the report's case index
}

func (c *coqCases) add(rep *hv.Report, caseNo int, text string, ctx *hcl.EvalContext) {
	expr, pd := hclsyntax.ParseExpression([]byte(text), "e.hcl", hcl.InitialPos)
	if pd.HasErrors() {
		return
	}
	v, vars := evalForCoq(expr, ctx)
	if v == nil {
		return
	}
	info := &hv.ValInfo{}
	ctxs := hv.CoqCtx(ctx, info)
	es := hv.CoqExpr(expr, info)
	vs := hv.CoqVal(v.val, info)
	mode := 0
	risk := hv.NumRisk(expr, ctx)
	if info.Inexact || risk == 1 {
		mode = 1
	}
	if risk == 2 || info.Unsupported {
		mode = 2 // value not compared; Variables() still is
	}
	rep.Hist(fmt.Sprintf("nest-model-case:mode-%d", mode))
	c.cases = append(c.cases, fmt.Sprintf("mkCase %s\n  %s\n  %d %s %s\n  %s", ctxs, es, mode, vs, hv.CoqDiagSummaries(v.diags), hv.CoqTraversals(vars, info)))
	c.idx = append(c.idx, caseNo)
}

type evalResult struct {
	val   cty.Value
	diags hcl.Diagnostics
}

func evalForCoq(e hclsyntax.Expression, ctx *hcl.EvalContext) (res *evalResult, vars []hcl.Traversal) {
	defer func() {
		if recover() != nil {
			res = nil // panics are the direct oracle's business
		}
	}()
	v, d := e.Value(ctx)
	return &evalResult{v, d}, e.Variables()
}

// flush writes shards of at most per cases; every shard maps its own indices
// back to the report's case index (so that a disagreement names the right input).
func (c *coqCases) flush(per int) ([]string, error) {
	var names []string
	for i, sh := 0, 0; i < len(c.cases); sh++ {
		j := min(i+per, len(c.cases))
		idx := make([]int, 0, j-i)
		idx = append(idx, c.idx[i:j]...)
		cf := &hv.CaseFile{Dir: c.dir, Name: fmt.Sprintf("nestcases%d", sh),
			Imports: "From Coq Require Import QArith String.\nFrom HclV Require Import Base.Prelude Cty.Values Cty.Convert Cty.Ops Eval.Impl Eval.Funcs Eval.EvalCheck.\n" +
				"Definition c07_index : list Z := " + hv.CoqZList(idx) + "%Z.\n" +
				"Definition c07_reindex (l : list Z) : list Z := List.map (fun i => List.nth (Z.to_nat i) c07_index (-1)%Z) l.",
			Ctype: "ecase", Checker: "(fun cs => c07_reindex (check_eval_cases cs))"}
		for _, s := range c.cases[i:j] {
			cf.Add(s)
		}
		ns, err := cf.Flush(per)
		if err != nil {
			return nil, err
		}
		names = append(names, ns...)
		i = j
	}
	return names, nil
}
