package main

// c07 — direct oracle for C07 "Reported variable references are a complete
// dependency set" on the real code, for everything the Coq model of
// Eval/VarsProofs.v does not cover (and, redundantly, for what it does):
//
//   native   hclsyntax expressions:  Expression.Variables()
//   template hclsyntax templates:    Expression.Variables()
//   json     JSON expressions:       (json) expression.Variables()
//   hcldec   bodies under a spec:    hcldec.Variables(body, spec)
//   dynblock bodies with "dynamic":  dynblock.VariablesHCLDec / ExpandVariablesHCLDec
//   hcldec-merged / dynblock-merged  the same on hcl.MergeBodies of fragments parsed under ONE name (merged.go)
//   hcldec-synth / dynblock-synth    the same on zero-range ASTs and hcltest mocks (merged.go)
//
// For each case the outcome (value + diagnostics, minus the "Did you mean"
// suggestion of "Unknown variable") is computed in the full scope, in the scope
// pruned to the reported roots (every frame keeps its map) and with every
// unreported variable overwritten by a value of another type; all must agree.
// No Coq cases are emitted: the model side of C07 runs through cmd/ceval.
//
// Replay input format: first line "#c07 kind=<kind> seed=<n>", then the source
// text; scope (and spec) are regenerated from the seed.

import (
	"fmt"
	"os"
	"path/filepath"
	"sort"
	"strconv"
	"strings"

	"github.com/hashicorp/hcl/v2"
	"github.com/zclconf/go-cty/cty"
	"hclverif/hv"
)

func main() { hv.Main(map[string]func(*hv.RunCfg) error{"c07": run}) }

type corpusItem struct{ kind, text string }

var corpus = []corpusItem{
	{"native", `[for v in v : v]`},
	{"native", `[for v in l : v if n == 1]`},
	{"native", `[for k, v in mp : k if v == s]`},
	{"native", `{for k, v in o : k => v}`},
	{"native", `{for v in l : v => k...}`},
	{"native", `[for v in l : [for v in v : [v, k]]]`},
	{"native", `[for x in [x] : x]`},
	{"native", `{ (x) = 1 }`},
	{"native", `{ (s) = n, x = m, "k" = k, (true) = 1, null = 2 }`},
	{"native", `{ x = 1 }`},
	{"native", `{ x.y = 1 }`},
	{"native", `{ "${s}" = 1 }`},
	{"native", `l[*].a`},
	{"native", `o.*.name`},
	{"native", `tp[*]`},
	{"native", `upper(s)`},
	{"native", `nosuchfn(n)`},
	{"native", `nosuch`},
	{"native", `nosuch.attr[n]`},
	{"native", `b ? n : s`},
	{"native", `l[n]`},
	{"native", `"%{ for x in x }${x}%{ endfor }"`},
	{"native", `"%{ for x in l }${x}${v}%{ endfor }${x}"`},
	{"native", `"%{ if b }${s}%{ else }${t}%{ endif }"`},
	{"native", `"${s}"`},
	{"native", `first(l...)`},
	{"native", `(n)`},
	{"native", `-n + m * 2 < 3 || !b`},
	{"template", `a ${s} b %{ for x in l }${x}${k}%{ endfor } %{ if b }${x}%{ endif }`},
	{"template", `%{ for k, v in mp ~}${k}=${v} %{ for v in [v] }${v}%{ endfor }%{ endfor ~}`},
	{"json", `"${s} %{ for x in l }${x}%{ endfor }"`},
	{"json", `{"${s}": "${n}", "k": ["%{ for x in x }${x}${v}%{ endfor }", 1, true, null]}`},
	{"json", `{"k${x}": {"${k}": ["${[for v in l : v]}"]}}`},
	{"json", `"${"`},
	{"hcldec", "a = s\nb = t\nc = n + m\nblk {\n  x = x\n  y = \"${v}\"\n}\nlst {\n  x = s\n  inner {\n    z = t\n  }\n  inner {\n    z = k\n  }\n}\nlst {\n  x = upper(t)\n  n = m\n}\nmp \"k1\" {\n  x = s\n}\nmp \"k2\" {\n  x = t\n  n = n\n}\nat {\n  p = s\n  q = x\n}\n"},
	{"hcldec", "tup {\n  x = l\n}\ntup {\n  x = mp\n}\nst {\n  x = s\n}\nst {\n  x = t\n}\nob \"k1\" {\n  x = o\n}\nob \"k2\" {\n  x = v\n}\ndblk {\n  x = k\n}\n"},
	{"dynblock", "a = lst\ndynamic \"lst\" {\n  for_each = l\n  content {\n    x = lst.value\n    n = lst.key\n    dynamic \"inner\" {\n      for_each = [lst.value, s]\n      iterator = it\n      content {\n        z = \"${it.value}-${lst.key}-${t}\"\n      }\n    }\n    inner {\n      z = lst.value\n    }\n  }\n}\n"},
	{"dynblock", "dynamic \"mp\" {\n  for_each = mp\n  iterator = it\n  labels = [\"k${it.key}${k}\"]\n  content {\n    x = it.value\n    n = n\n  }\n}\ndynamic \"mp\" {\n  for_each = [mp, mp]\n  labels = [mp.key]\n  content {\n    x = s\n  }\n}\n"},
	{"dynblock", "dynamic \"at\" {\n  for_each = [s]\n  content {\n    p = at.value\n    q = x\n  }\n}\nat {\n  r = v\n}\n"},
	{"dynblock", "dynamic \"blk\" {\n  for_each = [1]\n  content {\n    x = [for blk in [blk.value] : blk]\n    y = t\n  }\n}\ndynamic \"tup\" {\n  for_each = tp\n  iterator = it\n  content {\n    x = tup\n    y = it.key\n  }\n}\n"},
	// colliding for-scopes: after an inner for that re-binds a name ends, the name is the OUTER for's again
	{"native", `[for x in [[1, 2], [3]] : [[for x in x : x + n], x[0]]]`},
	{"native", `{for k, v in {a = [1], b = [2]} : "${isnull([for v, k in v : [k, v]])}-${k}" => [v, k] if !isnull([for k in v : k]) && k != v}`},
	{"native", `[for x, x in [x, x] : [x, [for x in [x] : x], x]]`},
	{"native", `[[for v in l : v], v, [for v in [v] : v], v]`},
	{"native", `"%{ for x in [[1, 2], [3]] }%{ for x in x }${x}%{ endfor }/${x[0]};%{ endfor }${x}"`},
	{"template", `%{ for x in [["a", "b"], ["c"]] }%{ for x in x }${x}%{ endfor }/${x[0]};%{ endfor }${x}`},
	{"json", `{"%{ for x in [[1], [2]] }%{ for x in x }${x}%{ endfor }${x[0]}%{ endfor }": "${[for v in [[v]] : [[for v in v : v], v]]}"}`},
	// bodies that are not one parsed file (merged.go): fragments of identical layout under one name; zero ranges
	{"hcldec-merged", "#--- merged file=\"\" via=MergeBodies\n#--- fragment native\na = s\nd = s\nf = s\nlst {\n  x = s\n}\ntup {\n  x = s\n}\nmp \"k1\" {\n  x = s\n}\n#--- fragment native\nb = t\ne = t\ng = t\nlst {\n  x = t\n}\ntup {\n  x = t\n}\nmp \"k2\" {\n  x = t\n}\n"},
	{"hcldec-merged", "#--- merged file=\"main.tf.json\" via=MergeFiles\n#--- fragment json\n{\"a\": \"${s}\", \"d\": \"${n}\", \"f\": \"${l}\", \"lst\": {\"x\": \"${s}\"}, \"st\": {\"x\": \"${s}\"}}\n#--- fragment json\n{\"b\": \"${t}\", \"e\": \"${m}\", \"g\": \"${o}\", \"lst\": {\"x\": \"${t}\"}, \"st\": {\"x\": \"${t}\"}}\n#--- fragment native\nc = n\n"},
	{"hcldec-synth", "#--- synthetic mode=mock\na = s\nb = t\nc = n\nd = m\ne = l\nf = o.a\ng = [s, t]\nlst {\n  x = s\n}\nlst {\n  x = t\n  n = m\n}\nblk {\n  x = l\n  y = t\n}\n"},
	{"dynblock-merged", "#--- merged file=\"<inline>\" via=MergeBodies\n#--- fragment native\na = s\nf = s\ndynamic \"lst\" {\n  for_each = l\n  content {\n    x = lst.value\n    n = n\n  }\n}\n#--- fragment native\nb = t\ng = t\ndynamic \"lst\" {\n  for_each = d\n  content {\n    x = lst.value\n    n = m\n  }\n}\n#--- fragment json\n{\"dynamic\": {\"tup\": {\"for_each\": \"${tp}\", \"iterator\": \"it\", \"content\": {\"x\": \"${it.value}\", \"y\": \"${s}\"}}}}\n"},
	{"dynblock-synth", "#--- synthetic mode=ast-zero\na = s\nb = t\nf = n\ng = m\ndynamic \"lst\" {\n  for_each = l\n  content {\n    x = \"${lst.key}${t}\"\n    n = n\n    dynamic \"inner\" {\n      for_each = [lst.value, s]\n      iterator = it\n      content {\n        z = it.value\n      }\n    }\n  }\n}\nmp \"k1\" {\n  x = s\n  n = m\n}\n"},
}

type caseData struct {
	kind string
	seed uint64
	text string
	ctx  *hcl.EvalContext
	sh   *specShape
	tree *jnode
	bg   *bodyGen
	feat map[string]int
	nest bool // native text from the nest stream: also emitted as a model (ceval) case
}

var extraNames = []string{"v", "k", "x", "i", "v2", "lst", "mp", "it", "jt", "tup", "inner", "blk", "at", "extra", "q"}

// build regenerates scope (+ spec) from the case seed and, unless text is given,
// the source text.  Order matters: scope, extras, spec, text.
func build(kind string, seed uint64, text *string) *caseData {
	r := hv.NewRng(seed, 707)
	g := hv.NewEvalGen(r)
	switch r.Intn(4) {
	case 0:
		g.Unknowns, g.Marks, g.Nulls = 0, 0, 0.03
	case 1:
		g.Unknowns, g.Marks, g.Nulls = 0.12, 0, 0.03
	case 2:
		g.Unknowns, g.Marks, g.Nulls = 0, 0.15, 0.03
	default:
		g.Unknowns, g.Marks, g.Nulls = 0.08, 0.08, 0.05
	}
	ctx := g.GenScope()
	cd := &caseData{kind: kind, seed: seed, ctx: ctx, feat: map[string]int{}}
	// EXTRA variables the generator does not know about: iterator names of for
	// expressions, template for directives and dynamic blocks, and plain extras.
	frames := chain(ctx)
	for _, nm := range extraNames {
		if !r.Chance(0.6) {
			continue
		}
		fr := frames[r.Intn(len(frames))]
		if fr.Variables == nil {
			continue
		}
		var v cty.Value
		switch r.Intn(4) {
		case 0:
			v = cty.ObjectVal(map[string]cty.Value{"key": cty.StringVal("xk-" + nm), "value": cty.StringVal("xv-" + nm)})
		case 1:
			v = cty.ListVal([]cty.Value{cty.StringVal("e1-" + nm), cty.StringVal("e2-" + nm)})
		default:
			v = g.GenValue(g.GenType(1))
		}
		fr.Variables[nm] = v
		cd.feat["scope:extra-variable"]++
	}
	if kind == "hcldec" || kind == "dynblock" {
		cd.sh = genSpec(r, kind == "dynblock")
	} else if isBodyX(kind) {
		cd.sh = genSpecX(r, isDynKind(kind)) // merged.go
	}
	// generation of the text (always, to recover generation-time knowledge; the
	// replayed text replaces it when it differs)
	var gen string
	switch kind {
	case "native":
		switch x := r.Intn(100); {
		case x < 25:
			gen = nestExpr(g, cd.feat) // colliding for-scopes (nest.go)
			cd.nest = true
		case x < 50:
			gen = shadowWrap(g, cd.feat)
		default:
			gen = g.GenTopExpr()
		}
	case "template":
		if r.Chance(0.4) {
			gen = nestTemplate(g, cd.feat)
		} else {
			gen = templateBody(g, cd.feat)
		}
	case "json":
		cd.tree = genJSON(g, cd.feat, 2)
		gen = cd.tree.text()
	case "hcldec", "dynblock":
		cd.bg = &bodyGen{g: g, r: r, sh: cd.sh, dyn: kind == "dynblock", feat: cd.feat, iters: map[string]bool{}, freeUse: map[string]bool{}}
		gen = cd.bg.gen()
	case "hcldec-merged", "dynblock-merged", "hcldec-synth", "dynblock-synth":
		// bodies that are not one parsed file (merged.go)
		cd.bg = &bodyGen{g: g, r: r, sh: cd.sh, dyn: isDynKind(kind), feat: cd.feat, iters: map[string]bool{}, freeUse: map[string]bool{}}
		if strings.HasSuffix(kind, "-merged") {
			gen = cd.bg.genMerged()
		} else {
			cd.feat["stream:synthetic-zero-ranges"]++
			gen = "#--- synthetic mode=" + r.Pick("ast-zero", "mock") + "\n" + cd.bg.gen()
		}
	}
	// mutated stream: byte-level edits of a generated text (most no longer parse; those
	// that do have shapes the grammar-directed generator does not produce)
	if r.Chance(0.08) && !isBodyX(kind) {
		gen = hv.Mutate(r, gen)
		cd.tree, cd.bg = nil, nil
		cd.feat["stream:mutated"]++
	}
	for k, v := range g.Feat {
		cd.feat["gen:"+k] += v
	}
	if text != nil && *text != gen {
		cd.text = *text
		cd.tree, cd.bg = nil, nil // generation-time knowledge does not apply to an edited text
	} else {
		cd.text = gen
	}
	return cd
}

func header(kind string, seed uint64) string {
	return fmt.Sprintf("#c07 kind=%s seed=%d\n", kind, seed)
}

func parseReplay(b []byte) (kind string, seed uint64, text string, err error) {
	s := string(b)
	nl := strings.IndexByte(s, '\n')
	if !strings.HasPrefix(s, "#c07 ") || nl < 0 {
		return "", 0, "", fmt.Errorf("replay file must start with a '#c07 kind=... seed=...' line")
	}
	for _, f := range strings.Fields(s[5:nl]) {
		if v, ok := strings.CutPrefix(f, "kind="); ok {
			kind = v
		}
		if v, ok := strings.CutPrefix(f, "seed="); ok {
			seed, err = strconv.ParseUint(v, 10, 64)
			if err != nil {
				return
			}
		}
	}
	return kind, seed, s[nl+1:], nil
}

func runCase(rep *hv.Report, cd *caseData) {
	input := header(cd.kind, cd.seed) + cd.text
	r := hv.NewRng(cd.seed, 708) // perturbation choices
	before := len(rep.Failures)
	rep.Hist("kind:" + cd.kind)
	stripAllSuggestions = cd.kind == "hcldec" || cd.kind == "dynblock" || isBodyX(cd.kind)
	switch cd.kind {
	case "hcldec-merged", "dynblock-merged":
		runMerged(rep, r, input, cd.text, isDynKind(cd.kind), cd.sh, cd.ctx)
	case "hcldec-synth", "dynblock-synth":
		runSynth(rep, r, input, cd.text, isDynKind(cd.kind), cd.sh, cd.ctx)
	case "native":
		runNative(rep, r, input, cd.text, cd.ctx, false)
	case "template":
		runNative(rep, r, input, cd.text, cd.ctx, true)
	case "json":
		runJSON(rep, r, input, cd.text, cd.tree, cd.ctx)
	case "hcldec":
		runHCLDec(rep, r, input, cd.text, cd.sh, cd.ctx)
	case "dynblock":
		runDyn(rep, r, input, cd.text, cd.sh, cd.ctx, cd.bg)
	}
	if cd.sh != nil {
		for _, n := range cd.sh.names {
			rep.Hist("spec:" + n)
		}
	}
	for k, v := range cd.feat {
		rep.Histogram[k] += v
	}
	rep.Idx(strings.ReplaceAll(input, "\n", "\\n"))
	rep.Count(input, len(cd.text) > 3)
	if len(rep.Failures) == before && len(cd.text) < 100 {
		rep.Sample(map[string]string{"kind": cd.kind, "text": cd.text})
	}
}

func run(cfg *hv.RunCfg) error {
	rep := hv.NewReport("C07", cfg.Seed)
	rep.Rule = "per case: a context chain of 1-3 frames (hv.EvalGen.GenScope: variables of every cty kind, nulls, refined unknowns, marks) plus EXTRA variables named like for/template-for/dynamic iterators; source text from the typed expression generator (hv.EvalGen), wrapped with probability ~1/4 under for expressions / template for directives whose iterator shadows a scope variable; NEST stream (25% of native, 40% of template, ~20% of JSON strings, ~8% of body attributes): for expressions and template for directives over a pool of 2-3 names, so that nested / sibling / shadowing scopes bind equal names, key == value variable, a for mentions its own name in its collection, and names are used before, inside and AFTER the for that binds them, in collection, key, value, condition and directive position (what each text exercises is measured on its AST: histogram forscope:*); the first 450 (thorough: 3000) native nest cases are also model cases (Eval/EvalCheck.v: Variables() occurrence list, value, diagnostics); kinds native 40%, template 10%, json 15%, hcldec 15% (random ObjectSpec of Attr/Default/Block/BlockList/BlockMap/BlockTuple/BlockSet/BlockObject/BlockAttrs specs, 0-3 blocks per type, nested block lists), dynblock 20% (the same with dynamic blocks: iterator attribute, labels, nested dynamic blocks, static blocks inside content, iterator names also used free); of the hcldec / dynblock cases 16% are the MERGED-SAME-NAME stream (2-4 fragments parsed under ONE display name - \"\", <inline>, main.tf ... - with identical layout: the same text with other attribute names / block types / labels of the same length and the variables renamed to variables of the same length, native, JSON and mixed, joined by hcl.MergeBodies / MergeFiles; specs also with both arms of a DefaultSpec reading attributes, TupleSpec or a single Default/Block* spec at the top) and 11% the SYNTHETIC-ZERO-RANGES stream (a generated body with every hcl.Range of its AST zeroed, or rebuilt from hcltest.MockBody / MockExprVariable / MockExprTraversal / MockExprList / MockExprLiteral / hcl.StaticExpr): scope oracle on Decode / Expand+Decode as for single files, plus must <= reported <= may on root names against the harness's own reading of the fragments (own JSON reader, own scope-aware walker, spec shape), for hcldec.Variables, dynblock.VariablesHCLDec / ExpandVariablesHCLDec and hand-driven WalkVariables / WalkExpandVariables; 8% of the other texts are byte-mutated (hv.Mutate); non-trivial = source longer than 3 bytes; distinct by SHA-256 of (kind, case seed, text)"
	if cfg.Replay != "" {
		b, err := os.ReadFile(cfg.Replay)
		if err != nil {
			return err
		}
		kind, seed, text, err := parseReplay(b)
		if err != nil {
			return err
		}
		runCase(rep, build(kind, seed, &text))
		rep.CaseFiles = []string{}
		return rep.Write(cfg.Out)
	}
	astOnlyProbe(rep)
	// model cases of the nest stream (nest.go): at most nestCap per run
	nestCap := 450
	if cfg.Tier == "thorough" {
		nestCap = 3000
	}
	cq := &coqCases{dir: cfg.Out}
	for i, c := range corpus {
		t := c.text
		cd := build(c.kind, uint64(1000+i%7), &t)
		if c.kind == "native" {
			cq.add(rep, len(rep.CaseIndex), cd.text, cd.ctx)
		}
		runCase(rep, cd)
		rep.Hist("corpus")
	}
	if files, err := filepath.Glob("/verif/corpus/C07/*.replay"); err == nil {
		sort.Strings(files)
		for _, p := range files {
			if b, err := os.ReadFile(p); err == nil {
				if kind, seed, text, err := parseReplay(b); err == nil {
					runCase(rep, build(kind, seed, &text))
					rep.Hist("corpus")
				}
			}
		}
	}
	master := hv.NewRng(cfg.Seed, 700)
	for i := 0; i < cfg.N; i++ {
		seed := master.Uint64()
		var kind string
		switch x := master.Intn(100); {
		case x < 40:
			kind = "native"
		case x < 50:
			kind = "template"
		case x < 65:
			kind = "json"
		case x < 80:
			kind = "hcldec"
		default:
			kind = "dynblock"
		}
		if kind == "hcldec" || kind == "dynblock" {
			kind = subStream(kind, seed) // 16% merged-same-name, 11% synthetic-zero-ranges (merged.go)
		}
		cd := build(kind, seed, nil)
		if cd.nest && len(cq.cases) < nestCap {
			cq.add(rep, len(rep.CaseIndex), cd.text, cd.ctx)
		}
		runCase(rep, cd)
	}
	names, err := cq.flush(75)
	if err != nil {
		return err
	}
	rep.CaseFiles = names
	if names == nil {
		rep.CaseFiles = []string{}
	}
	return rep.Write(cfg.Out)
}
