package main

// Bodies under hcldec specs, with and without "dynamic" blocks.

import (
	"fmt"
	"hash/fnv"
	"sort"
	"strings"

	"github.com/hashicorp/hcl/v2"
	"github.com/hashicorp/hcl/v2/ext/dynblock"
	"github.com/hashicorp/hcl/v2/hcldec"
	"github.com/hashicorp/hcl/v2/hclsyntax"
	"github.com/zclconf/go-cty/cty"
	"hclverif/hv"
)

// ---- spec shapes --------------------------------------------------------------------------

// blockInfo describes one block type of the generated spec for the body generator.
type blockInfo struct {
	typ    string
	labels int
	attrs  []string   // attribute names of the nested spec (kind by name: see attrKind)
	inner  *blockInfo // one nested block type, or nil
	free   bool       // BlockAttrsSpec: arbitrary attribute names
	multi  bool       // more than one block makes sense
}

type specShape struct {
	spec          hcldec.Spec
	attrs         []string
	blocks        []*blockInfo
	names         []string // which entries were chosen (histogram)
	hasAttrsBlock bool
}

func attr(name string, ty cty.Type) hcldec.Spec { return &hcldec.AttrSpec{Name: name, Type: ty} }

func genSpec(r *hv.Rng, dyn bool) *specShape {
	sh := &specShape{}
	top := hcldec.ObjectSpec{}
	innerInfo := &blockInfo{typ: "inner", attrs: []string{"z"}, multi: true}
	innerSpec := func() hcldec.Spec {
		return &hcldec.BlockListSpec{TypeName: "inner", Nested: hcldec.ObjectSpec{"z": attr("z", cty.String)}}
	}
	nestedS := func(withInner bool) hcldec.Spec {
		o := hcldec.ObjectSpec{"x": attr("x", cty.String), "n": attr("n", cty.Number)}
		if withInner {
			o["inner"] = innerSpec()
		}
		return o
	}
	nestedD := func() hcldec.Spec {
		return hcldec.ObjectSpec{"x": attr("x", cty.DynamicPseudoType), "y": &hcldec.DefaultSpec{Primary: attr("y", cty.String), Default: &hcldec.LiteralSpec{Value: cty.StringVal("dy")}}}
	}
	type entry struct {
		name string
		add  func()
	}
	entries := []entry{
		{"attr", func() { top["a"] = attr("a", cty.DynamicPseudoType); sh.attrs = append(sh.attrs, "a") }},
		{"default-attr", func() {
			top["b"] = &hcldec.DefaultSpec{Primary: attr("b", cty.String), Default: &hcldec.LiteralSpec{Value: cty.StringVal("dflt")}}
			sh.attrs = append(sh.attrs, "b")
		}},
		{"typed-attr", func() { top["c"] = attr("c", cty.Number); sh.attrs = append(sh.attrs, "c") }},
		{"block", func() {
			top["blk"] = &hcldec.BlockSpec{TypeName: "blk", Nested: nestedD()}
			sh.blocks = append(sh.blocks, &blockInfo{typ: "blk", attrs: []string{"x", "y"}})
		}},
		{"block-list", func() {
			top["lst"] = &hcldec.BlockListSpec{TypeName: "lst", Nested: nestedS(true)}
			sh.blocks = append(sh.blocks, &blockInfo{typ: "lst", attrs: []string{"x", "n"}, inner: innerInfo, multi: true})
		}},
		{"block-map", func() {
			top["mp"] = &hcldec.BlockMapSpec{TypeName: "mp", LabelNames: []string{"key"}, Nested: nestedS(false)}
			sh.blocks = append(sh.blocks, &blockInfo{typ: "mp", labels: 1, attrs: []string{"x", "n"}, multi: true})
		}},
		{"block-tuple", func() {
			top["tup"] = &hcldec.BlockTupleSpec{TypeName: "tup", Nested: nestedD()}
			sh.blocks = append(sh.blocks, &blockInfo{typ: "tup", attrs: []string{"x", "y"}, multi: true})
		}},
		{"block-set", func() {
			top["st"] = &hcldec.BlockSetSpec{TypeName: "st", Nested: nestedS(false)}
			sh.blocks = append(sh.blocks, &blockInfo{typ: "st", attrs: []string{"x", "n"}, multi: true})
		}},
		{"block-object", func() {
			top["ob"] = &hcldec.BlockObjectSpec{TypeName: "ob", LabelNames: []string{"key"}, Nested: nestedD()}
			sh.blocks = append(sh.blocks, &blockInfo{typ: "ob", labels: 1, attrs: []string{"x", "y"}, multi: true})
		}},
		{"block-attrs", func() {
			top["at"] = &hcldec.BlockAttrsSpec{TypeName: "at", ElementType: cty.String}
			sh.blocks = append(sh.blocks, &blockInfo{typ: "at", free: true, attrs: []string{"p", "q", "r"}})
		}},
		{"default-block", func() {
			top["dblk"] = &hcldec.DefaultSpec{Primary: &hcldec.BlockSpec{TypeName: "dblk", Nested: nestedD()},
				Default: &hcldec.LiteralSpec{Value: cty.ObjectVal(map[string]cty.Value{"x": cty.DynamicVal, "y": cty.StringVal("none")})}}
			sh.blocks = append(sh.blocks, &blockInfo{typ: "dblk", attrs: []string{"x", "y"}})
		}},
	}
	for len(sh.names) == 0 {
		for _, e := range entries {
			p := 0.45
			if e.name == "block-attrs" && dyn {
				p = 0.1 // see runDyn
			}
			if r.Chance(p) {
				if e.name == "block-attrs" {
					sh.hasAttrsBlock = true
				}
				e.add()
				sh.names = append(sh.names, e.name)
			}
		}
	}
	sh.spec = top
	return sh
}

// ---- body text ------------------------------------------------------------------------------

type bodyGen struct {
	g        *hv.EvalGen
	r        *hv.Rng
	sh       *specShape
	dyn      bool
	feat     map[string]int
	iters    map[string]bool // iterator names introduced by dynamic blocks
	freeUse  map[string]bool // iterator names deliberately used OUTSIDE their scope
	scopeIts []string        // iterator names currently in scope (innermost last)
}

// kind of expression wanted for an attribute: 0 any, 1 number, 2 string
func attrKind(bi *blockInfo, name string) int {
	switch name {
	case "c", "n":
		return 1
	case "b", "y", "z", "p", "q", "r":
		return 2
	case "x":
		if bi != nil && (bi.typ == "lst" || bi.typ == "mp" || bi.typ == "st") {
			return 2
		}
	}
	return 0
}

func (b *bodyGen) genKind(k int) string {
	switch k {
	case 1:
		return b.g.GenExpr(1)
	case 2:
		return b.g.GenExpr(2)
	}
	return b.g.GenTopExpr()
}

// an attribute expression; inside dynamic content it may use the iterators in scope
func (b *bodyGen) expr(k int) string {
	r := b.r
	if k != 0 && r.Chance(0.85) {
		if len(b.scopeIts) > 0 && r.Chance(0.6) {
			it := b.scopeIts[r.Intn(len(b.scopeIts))]
			b.feat["dyn:iterator-use"]++
			if len(b.scopeIts) > 1 && it != b.scopeIts[len(b.scopeIts)-1] {
				b.feat["dyn:inherited-iterator-use"]++
			}
			if k == 1 {
				return r.Pick(it+".key", it+".key + "+b.genKind(1), it+".value", "sum("+it+".key, "+b.genKind(1)+")")
			}
			return r.Pick(it+".value", it+".key", `"${`+it+`.key}-${`+it+`.value}"`, `"${`+it+`.key}${`+b.genKind(2)+`}"`, "upper("+it+".value)")
		}
		return b.genKind(k)
	}
	if len(b.scopeIts) > 0 && r.Chance(0.7) {
		it := b.scopeIts[r.Intn(len(b.scopeIts))]
		b.feat["dyn:iterator-use"]++
		if len(b.scopeIts) > 1 && it != b.scopeIts[len(b.scopeIts)-1] {
			b.feat["dyn:inherited-iterator-use"]++
		}
		switch r.Intn(6) {
		case 0:
			return it + ".value"
		case 1:
			return it + ".key"
		case 2:
			return `"${` + it + `.key}-${` + it + `.value}"`
		case 3:
			return "[" + it + ".value, " + b.g.GenTopExpr() + "]"
		case 4:
			return "[for v in [" + it + ".key] : [v, " + b.g.GenTopExpr() + "]]"
		default:
			return it + ".value == null ? " + b.g.GenTopExpr() + " : " + it + ".key"
		}
	}
	// an iterator name used where it is NOT bound: a plain variable of the scope
	if b.dyn && r.Chance(0.08) {
		nm := r.Pick("lst", "mp", "it", "tup", "inner", "jt")
		bound := false
		for _, s := range b.scopeIts {
			if s == nm {
				bound = true
			}
		}
		if !bound {
			b.freeUse[nm] = true
			b.feat["dyn:iterator-name-used-free"]++
			return "[" + nm + ", " + b.g.GenTopExpr() + "]"
		}
	}
	if r.Chance(0.2) {
		if r.Chance(0.4) {
			return nestExpr(b.g, b.feat) // colliding for-scopes (nest.go)
		}
		return shadowWrap(b.g, b.feat)
	}
	return b.g.GenTopExpr()
}

func (b *bodyGen) attrsOf(sb *strings.Builder, ind string, bi *blockInfo, names []string, free bool) {
	for _, a := range names {
		if b.r.Chance(0.8) {
			sb.WriteString(ind + a + " = " + b.expr(attrKind(bi, a)) + "\n")
		}
	}
	if b.r.Chance(0.03) && !free {
		b.feat["body:unsupported-attr"]++
		sb.WriteString(ind + "zzz = " + b.expr(0) + "\n")
	}
}

func (b *bodyGen) label() string { return b.r.Pick("k1", "k2", "k3", "a b") }

func (b *bodyGen) static(sb *strings.Builder, ind string, bi *blockInfo) {
	b.feat["body:block:"+bi.typ]++
	sb.WriteString(ind + bi.typ)
	for i := 0; i < bi.labels; i++ {
		sb.WriteString(` "` + b.label() + `"`)
	}
	sb.WriteString(" {\n")
	b.blockBody(sb, ind+"  ", bi)
	sb.WriteString(ind + "}\n")
}

func (b *bodyGen) blockBody(sb *strings.Builder, ind string, bi *blockInfo) {
	b.attrsOf(sb, ind, bi, bi.attrs, bi.free)
	if bi.inner != nil {
		for i, n := 0, b.r.Small(3); i < n; i++ {
			b.block(sb, ind, bi.inner)
		}
	}
}

func (b *bodyGen) forEach(own string) string {
	r := b.r
	if len(b.scopeIts) > 0 && r.Chance(0.4) {
		it := b.scopeIts[r.Intn(len(b.scopeIts))]
		b.feat["dyn:for_each-uses-outer-iterator"]++
		return r.Pick(it+".value", "["+it+".key, "+it+".value]", "{k = "+it+".value}")
	}
	if r.Chance(0.12) {
		// the block's own iterator name is NOT bound in for_each
		bound := false
		for _, s := range b.scopeIts {
			if s == own {
				bound = true
			}
		}
		if !bound {
			b.freeUse[own] = true
			b.feat["dyn:for_each-mentions-own-iterator-name"]++
			return "[" + own + ", " + own + "]"
		}
	}
	return collText(b.g, "")
}

func (b *bodyGen) dynamic(sb *strings.Builder, ind string, bi *blockInfo) {
	r := b.r
	b.feat["dyn:block:"+bi.typ]++
	if len(b.scopeIts) > 0 {
		b.feat["dyn:nested-dynamic"]++
	}
	it := bi.typ
	sb.WriteString(ind + `dynamic "` + bi.typ + "\" {\n")
	if r.Chance(0.4) {
		it = r.Pick("it", "jt", "lst", "mp")
		b.feat["dyn:iterator-attr"]++
	}
	lines := []string{}
	lines = append(lines, ind+"  for_each = "+b.forEach(it)+"\n")
	if it != bi.typ {
		lines = append(lines, ind+"  iterator = "+it+"\n")
	}
	b.iters[it] = true
	b.scopeIts = append(b.scopeIts, it)
	if bi.labels > 0 {
		b.feat["dyn:labels"]++
		ls := make([]string, bi.labels)
		for i := range ls {
			switch r.Intn(5) {
			case 0:
				ls[i] = it + ".key"
			case 1:
				ls[i] = `"k${` + it + `.key}"`
			case 2:
				ls[i] = `"` + b.label() + `"`
			default:
				ls[i] = b.expr(2)
			}
		}
		lines = append(lines, ind+"  labels = ["+strings.Join(ls, ", ")+"]\n")
	}
	var cb strings.Builder
	cb.WriteString(ind + "  content {\n")
	b.blockBody(&cb, ind+"    ", bi)
	cb.WriteString(ind + "  }\n")
	lines = append(lines, cb.String())
	b.scopeIts = b.scopeIts[:len(b.scopeIts)-1]
	// attribute order inside the dynamic block is free
	if r.Chance(0.3) {
		sort.Sort(sort.Reverse(sort.StringSlice(lines)))
	}
	for _, l := range lines {
		sb.WriteString(l)
	}
	sb.WriteString(ind + "}\n")
}

func (b *bodyGen) block(sb *strings.Builder, ind string, bi *blockInfo) {
	if b.dyn && b.r.Chance(0.6) {
		b.dynamic(sb, ind, bi)
	} else {
		b.static(sb, ind, bi)
	}
}

func (b *bodyGen) gen() string {
	var sb strings.Builder
	b.attrsOf(&sb, "", nil, b.sh.attrs, false)
	for _, bi := range b.sh.blocks {
		n := b.r.Small(3)
		if !bi.multi && n > 1 && b.r.Chance(0.8) {
			n = 1
		}
		for i := 0; i < n; i++ {
			b.block(&sb, "", bi)
		}
	}
	if b.r.Chance(0.03) {
		b.feat["body:unsupported-block"]++
		sb.WriteString("nosuchblock {\n  w = " + b.expr(0) + "\n}\n")
	}
	return sb.String()
}

// ---- oracles ----------------------------------------------------------------------------------

// freeOfBody: free names of a native body with "dynamic" blocks, by explicit recursion
// (independent of dynblock's walkers): for_each sees the enclosing iterators, labels
// and content see the block's own iterator too.  Attributes outside the spec are
// included (an over-approximation of what is needed).
func freeOfBody(b *hclsyntax.Body, its []string, fv *fvState, iters map[string]bool) {
	bound := func(n string, extra string) bool {
		if n == extra && extra != "" {
			return true
		}
		for _, i := range its {
			if i == n {
				return true
			}
		}
		return false
	}
	addExpr := func(e hclsyntax.Expression, own string) {
		s := freeOf(e)
		for n := range s.free {
			if !bound(n, own) {
				fv.free[n] = true
			}
		}
		for n := range s.binders {
			fv.binders[n] = true
		}
	}
	for _, name := range hv.SortedKeys(b.Attributes) {
		addExpr(b.Attributes[name].Expr, "")
	}
	for _, blk := range b.Blocks {
		if blk.Type != "dynamic" || len(blk.Labels) != 1 {
			freeOfBody(blk.Body, its, fv, iters)
			continue
		}
		it := blk.Labels[0]
		if a, ok := blk.Body.Attributes["iterator"]; ok {
			if tr, d := hcl.AbsTraversalForExpr(a.Expr); !d.HasErrors() && len(tr) == 1 {
				it = tr.RootName()
			}
		}
		iters[it] = true
		if a, ok := blk.Body.Attributes["for_each"]; ok {
			addExpr(a.Expr, "")
		}
		if a, ok := blk.Body.Attributes["labels"]; ok {
			addExpr(a.Expr, it)
		}
		for _, cb := range blk.Body.Blocks {
			if cb.Type == "content" {
				freeOfBody(cb.Body, append(append([]string{}, its...), it), fv, iters)
			}
		}
	}
}

func runHCLDec(rep *hv.Report, r *hv.Rng, input, text string, sh *specShape, ctx *hcl.EvalContext) {
	f, pd := hclsyntax.ParseConfig([]byte(text), "c.hcl", hcl.InitialPos)
	if pd.HasErrors() {
		rep.Hist("hcldec:parse-error")
		return
	}
	var R map[string]bool
	var hvars []hcl.Traversal
	func() {
		defer func() {
			if p := recover(); p != nil {
				rep.Fail(hv.Failure{Kind: "panic", Detail: fmt.Sprint("hcldec.Variables: ", p), Input: input})
			}
		}()
		hvars = hcldec.Variables(f.Body, sh.spec)
		R = roots(hvars)
	}()
	if R == nil {
		return
	}
	rep.Hist(fmt.Sprintf("hcldec:roots:%d", min(len(R), 6)))
	// every reported traversal is a root-scope reference of some attribute expression of the body
	// (which attributes are read is the spec's business: sub-multiset, not equality)
	if sb, ok := f.Body.(*hclsyntax.Body); ok {
		rw := newRefWalker()
		bodyRefs(sb, rw)
		rw.hist(rep, "forscope:hcldec:")
		if len(rw.unknown) == 0 {
			compareRefs(rep, input, "hcldec.Variables", hvars, rw, false)
		}
	}
	full, _ := checkScopes(rep, r, "", input, ctx, R, func(c *hcl.EvalContext) string {
		v, d := hcldec.Decode(f.Body, sh.spec, c)
		return outcome(v, d, true)
	}, nil)
	resultHist(rep, "hcldec", full)
}

// structure prints the block structure Expand produces (types, labels, attribute
// names, recursively along the spec) and the diagnostics of getting it.
func structure(body hcl.Body, spec hcldec.Spec, sb *strings.Builder, diags *[]string) {
	content, _, d := body.PartialContent(hcldec.ImpliedSchema(spec))
	*diags = append(*diags, diagLines(d)...)
	if content == nil {
		sb.WriteString("<nil>")
		return
	}
	sb.WriteString("attrs(" + strings.Join(hv.SortedKeys(content.Attributes), ",") + ")")
	child := hcldec.ChildBlockTypes(spec)
	for _, b := range content.Blocks {
		sb.WriteString(" " + b.Type + fmt.Sprintf("%q", b.Labels) + "{")
		if cs, ok := child[b.Type]; ok {
			structure(b.Body, cs, sb, diags)
		}
		sb.WriteString("}")
	}
}

// blockAttrsInfo computes baInfo for a body under spec (an ObjectSpec whose BlockAttrsSpec entries sit at
// the top level, as genSpec builds them).
func blockAttrsInfo(sb *hclsyntax.Body, spec hcldec.Spec, ctx *hcl.EvalContext, input string) *baInfo {
	ba := &baInfo{free: map[string]bool{}}
	types := map[string]bool{}
	if os, ok := spec.(hcldec.ObjectSpec); ok {
		for _, s := range os {
			if a, ok := s.(*hcldec.BlockAttrsSpec); ok {
				types[a.TypeName] = true
			}
		}
	}
	fv := newFV()
	rest := *sb
	rest.Blocks = nil
	emptied := func(b *hclsyntax.Body) *hclsyntax.Body {
		return &hclsyntax.Body{Attributes: hclsyntax.Attributes{}, SrcRange: b.SrcRange, EndRange: b.EndRange}
	}
	for _, blk := range sb.Blocks {
		switch {
		case types[blk.Type]:
			freeOfBody(blk.Body, nil, fv, map[string]bool{})
			nb := *blk
			nb.Body = emptied(blk.Body)
			rest.Blocks = append(rest.Blocks, &nb)
		case blk.Type == "dynamic" && len(blk.Labels) == 1 && types[blk.Labels[0]]:
			it := blk.Labels[0]
			if a, ok := blk.Body.Attributes["iterator"]; ok {
				if tr, d := hcl.AbsTraversalForExpr(a.Expr); !d.HasErrors() && len(tr) == 1 {
					it = tr.RootName()
				}
			}
			nb := *blk
			inner := *blk.Body
			inner.Blocks = nil
			for _, cb := range blk.Body.Blocks {
				if cb.Type == "content" {
					freeOfBody(cb.Body, []string{it}, fv, map[string]bool{})
					ncb := *cb
					ncb.Body = emptied(cb.Body)
					inner.Blocks = append(inner.Blocks, &ncb)
				} else {
					inner.Blocks = append(inner.Blocks, cb)
				}
			}
			nb.Body = &inner
			rest.Blocks = append(rest.Blocks, &nb)
		default:
			rest.Blocks = append(rest.Blocks, blk)
		}
	}
	ba.free = fv.free
	// the same oracle on the rest, silently, with its own perturbation stream
	h := fnv.New64a()
	h.Write([]byte(input))
	r2 := hv.NewRng(h.Sum64(), 709)
	func() {
		defer func() { recover() }()
		Rr := roots(dynblock.VariablesHCLDec(&rest, spec))
		_, fails, _, _ := scopeFailures(r2, ctx, Rr, func(c *hcl.EvalContext) string {
			v, d := hcldec.Decode(dynblock.Expand(&rest, c), spec, c)
			return outcome(v, d, true)
		})
		ba.restClean = len(fails) == 0
	}()
	return ba
}

func runDyn(rep *hv.Report, r *hv.Rng, input, text string, sh *specShape, ctx *hcl.EvalContext, bg *bodyGen) {
	f, pd := hclsyntax.ParseConfig([]byte(text), "c.hcl", hcl.InitialPos)
	if pd.HasErrors() {
		rep.Hist("dynblock:parse-error")
		return
	}
	// Blocks decoded by BlockAttrsSpec are a known blind spot of the dynblock walkers
	// (finding reported with C07). A failure gets the "blockattrs:" kind only when it is
	// explained by exactly that (see baInfo): the presence of a BlockAttrsSpec alone decides nothing.
	var ba *baInfo
	if sh.hasAttrsBlock {
		rep.Hist("dynblock:spec-with-BlockAttrsSpec")
		if sb, ok := f.Body.(*hclsyntax.Body); ok {
			ba = blockAttrsInfo(sb, sh.spec, ctx, input)
			if !ba.restClean {
				rep.Hist("dynblock:blockattrs:rest-not-clean")
			}
		}
	}
	var R, RE map[string]bool
	var dvars, devars []hcl.Traversal
	func() {
		defer func() {
			if p := recover(); p != nil {
				rep.Fail(hv.Failure{Kind: "panic", Detail: fmt.Sprint("dynblock.VariablesHCLDec: ", p), Input: input})
			}
		}()
		dvars = dynblock.VariablesHCLDec(f.Body, sh.spec)
		devars = dynblock.ExpandVariablesHCLDec(f.Body, sh.spec)
		R, RE = roots(dvars), roots(devars)
	}()
	if R == nil || RE == nil {
		return
	}
	// for-bound occurrences inside attribute expressions, for_each and labels are never reported
	if sb, ok := f.Body.(*hclsyntax.Body); ok {
		rw := newRefWalker()
		bodyRefs(sb, rw)
		rw.hist(rep, "forscope:dynblock:")
		if len(rw.unknown) == 0 {
			compareRefs(rep, input, "dynblock.VariablesHCLDec", dvars, rw, false)
			compareRefs(rep, input, "dynblock.ExpandVariablesHCLDec", devars, rw, false)
		}
	}
	rep.Hist(fmt.Sprintf("dynblock:roots:%d", min(len(R), 6)))
	rep.Hist(fmt.Sprintf("dynblock:expand-roots:%d", min(len(RE), 6)))
	// iterator names are not reported unless also used free (independent walk of the body)
	if sb, ok := f.Body.(*hclsyntax.Body); ok {
		fv := newFV()
		iters := map[string]bool{}
		freeOfBody(sb, nil, fv, iters)
		for _, it := range hv.SortedKeys(iters) {
			for _, w := range []struct {
				name string
				set  map[string]bool
			}{{"VariablesHCLDec", R}, {"ExpandVariablesHCLDec", RE}} {
				if w.set[it] && !fv.free[it] {
					rep.Fail(hv.Failure{Kind: "bound-name-reported", Input: input,
						Detail: fmt.Sprintf("dynamic-block iterator %q has no occurrence outside its scope, yet %s reports it", it, w.name), Extra: map[string]string{"variable": it}})
				}
			}
			if fv.free[it] {
				rep.Hist("dynblock:iterator-name-also-free")
			} else {
				rep.Hist("dynblock:iterator-name-only-bound")
			}
		}
		for _, n := range hv.SortedKeys(R) {
			if fv.binders[n] && !fv.free[n] {
				rep.Fail(hv.Failure{Kind: "bound-name-reported", Input: input,
					Detail: fmt.Sprintf("%q is only ever bound by a for expression / template for directive, yet VariablesHCLDec reports it", n), Extra: map[string]string{"variable": n}})
			}
		}
	}
	// (1) Expand + Decode under the full set
	full, _ := checkScopes(rep, r, "", input, ctx, R, func(c *hcl.EvalContext) string {
		v, d := hcldec.Decode(dynblock.Expand(f.Body, c), sh.spec, c)
		return outcome(v, d, true)
	}, ba)
	resultHist(rep, "dynblock", full)
	// (2) the block structure produced by Expand under the minimal set
	// (the block structure does not look inside BlockAttrsSpec blocks: nothing is explained by them here)
	st, _ := checkScopes(rep, r, "expand-", input, ctx, RE, func(c *hcl.EvalContext) string {
		var sb strings.Builder
		var ds []string
		structure(dynblock.Expand(f.Body, c), sh.spec, &sb, &ds)
		sort.Strings(ds)
		return sb.String() + "\n" + strings.Join(ds, "\n")
	}, nil)
	if strings.Contains(st, "\n1|") {
		rep.Hist("dynblock:expand:error")
	} else {
		rep.Hist("dynblock:expand:ok")
	}
}
